"""Runs operations of the bezier implementation under test.  Executed by /venv/bin/python
with PYTHONPATH pointing either at /repo/src/python (pure) or at the freshly built
speedup package.  Reads one JSON document (list of jobs) on stdin, writes one JSON
document (list of results) on stdout.  Floats travel as float.hex() strings."""
import json
import os
import sys
import traceback

import numpy as np

import bezier

CONFIG = os.environ.get("BZ_CONFIG", "pure")
_src = os.path.realpath(bezier.__file__)
_repo = os.path.realpath(os.environ.get("BEZIER_REPO", "/repo"))
if not _src.startswith(_repo + os.sep):
    sys.stderr.write("bezier imported from %s, not from %s\n" % (_src, _repo))
    sys.exit(3)
try:
    from bezier import _speedup  # noqa: F401
    HAS_SPEEDUP = True
except ImportError:
    HAS_SPEEDUP = False
if (CONFIG == "speedup") != HAS_SPEEDUP:
    sys.stderr.write("config %s but speedup present=%s\n" % (CONFIG, HAS_SPEEDUP))
    sys.exit(3)

from bezier import _curve_helpers, _helpers, _triangle_helpers  # noqa: E402
from bezier import _geometric_intersection, _intersection_helpers, _triangle_intersection  # noqa: E402
from bezier.hazmat import curve_helpers as hz_curve  # noqa: E402
from bezier.hazmat import helpers as hz_helpers  # noqa: E402
from bezier.hazmat import triangle_helpers as hz_tri  # noqa: E402
from bezier.hazmat import geometric_intersection as hz_geo  # noqa: E402
from bezier.hazmat import intersection_helpers as hz_ih  # noqa: E402
from bezier.hazmat import algebraic_intersection as hz_alg  # noqa: E402
from bezier.hazmat import triangle_intersection as hz_ti  # noqa: E402
from bezier.hazmat import clipping as hz_clip  # noqa: E402


def dec(x):
    if isinstance(x, dict):
        if "a" in x:
            rows = [[float.fromhex(h) for h in r] for r in x["a"]]
            if not rows:
                return np.empty((0, 0), order="F")
            return np.asfortranarray(rows, dtype=np.float64)
        if "v" in x:
            return np.asfortranarray([float.fromhex(h) for h in x["v"]], dtype=np.float64)
        if "f" in x:
            return float.fromhex(x["f"])
        if "ai" in x:  # integer array presentation
            return np.array(x["ai"], dtype=np.int64)
        if "ac" in x:  # C-ordered float array
            return np.ascontiguousarray([[float.fromhex(h) for h in r] for r in x["ac"]], dtype=np.float64)
        if "l" in x:  # plain python list of lists of floats
            return [[float.fromhex(h) for h in r] for r in x["l"]]
        raise ValueError("bad encoded value %r" % (x,))
    if isinstance(x, list):
        return [dec(e) for e in x]
    return x


def enc(x):
    if x is None or isinstance(x, (bool, str)):
        return x
    if isinstance(x, (int, np.integer)):
        return int(x)
    if isinstance(x, (float, np.floating)):
        return {"f": float(x).hex()}
    if isinstance(x, np.ndarray):
        if x.dtype == np.bool_:
            return x.tolist()
        if x.ndim == 0:
            return {"f": float(x).hex()}
        if x.ndim == 1:
            return {"v": [float(e).hex() for e in x]}
        if x.ndim == 2:
            return {"a": [[float(e).hex() for e in row] for row in x]}
        raise ValueError("ndim %d" % x.ndim)
    if isinstance(x, (tuple, list)):
        return [enc(e) for e in x]
    if isinstance(x, dict) and set(x) == {"enum"}:
        return x
    if isinstance(x, bezier.Curve):
        return {"curve": enc(x.nodes), "degree": x.degree}
    if isinstance(x, bezier.Triangle):
        return {"triangle": enc(x.nodes), "degree": x.degree}
    if hasattr(x, "name") and hasattr(x, "value"):
        return {"enum": x.name}
    raise ValueError("cannot encode %r" % (type(x),))


def curve(nodes):
    return bezier.Curve.from_nodes(nodes)


def tri(nodes):
    return bezier.Triangle.from_nodes(nodes)



def _newton_system(nodes1, nodes2, s, t, double):
    """the evaluators of the two Newton systems of full_newton_nonzero, built exactly as that function builds them"""
    n1, n2 = nodes1.shape[1], nodes2.shape[1]
    d1 = (n1 - 1) * (nodes1[:, 1:] - nodes1[:, :-1])
    d2 = (n2 - 1) * (nodes2[:, 1:] - nodes2[:, :-1])
    if not double:
        fn = hz_ih.NewtonSimpleRoot(nodes1, d1, nodes2, d2)
    else:
        dd1 = (n1 - 2) * (d1[:, 1:] - d1[:, :-1])
        dd2 = (n2 - 2) * (d2[:, 1:] - d2[:, :-1])
        fn = hz_ih.NewtonDoubleRoot(nodes1, d1, dd1, nodes2, d2, dd2)
    lhs, rhs = fn(s, t)
    return [[] if lhs is None else np.asfortranarray(lhs), np.asfortranarray(rhs)]


def _edges_after_use(n):
    """the edges of a triangle that has been USED first (area, validity, evaluation, subdivision, elevation - whatever of it
    the shape supports): still the sides of the same surface"""
    t = tri(n)
    for use in (lambda: t.area, lambda: t.is_valid, lambda: t.evaluate_cartesian(0.25, 0.25), lambda: t.subdivide(),
                lambda: t.elevate(), lambda: t.evaluate_barycentric(0.5, 0.25, 0.25)):
        try:
            use()
        except Exception:  # pylint: disable=broad-except
            pass
    return [e.nodes for e in t.edges]


def _mut_probe(kind, nodes, method, args):
    """call a public method on a shape built with copy=False from an array we keep; report every caller-visible array whose
    bytes changed (the receiver's own array, the array it was built from, the cached edges, argument shapes' arrays)"""
    def build(k, arr):
        if k == "curve":
            return bezier.Curve(arr, arr.shape[1] - 1, copy=False)
        n = arr.shape[1]
        d = int(round(((8 * n + 1) ** 0.5 - 3) / 2))
        return bezier.Triangle(arr, d, copy=False)
    arr = np.asfortranarray(nodes)
    obj = build(kind, arr)
    watched = {"array the receiver was built from": arr, "receiver._nodes": obj._nodes}
    pyargs = []
    for i, a in enumerate(args):
        if isinstance(a, list) and len(a) == 3 and a[0] == "shape":
            aa = np.asfortranarray(a[2])
            o = build(a[1], aa)
            watched["argument %d array" % i] = aa
            watched["argument %d ._nodes" % i] = o._nodes
            pyargs.append(o)
        else:
            v = a
            if isinstance(v, np.ndarray):
                watched["argument %d" % i] = v
            pyargs.append(v)
    if kind == "triangle" and method != "edges":
        e = obj.edges
        for j, c in enumerate(e):
            watched["edge %d handed out before the call" % j] = c._nodes
        # the cache itself (the accessor hands out copies)
        for j, c in enumerate(getattr(obj, "_edges", None) or ()):
            watched["cached edge %d" % j] = c._nodes
    before = {k: v.tobytes() for k, v in watched.items()}
    exc = None
    try:
        m = getattr(obj, method)
        out = m(*pyargs) if callable(m) else m
        if method == "edges":
            for j, c in enumerate(out):
                watched["edge %d" % j] = c._nodes
                before["edge %d" % j] = c._nodes.tobytes()
            out2 = obj.edges          # second access after the first result was handed out
    except Exception as e_:  # pylint: disable=broad-except
        exc = type(e_).__name__
    changed = sorted(k for k, v in watched.items() if v.tobytes() != before[k])
    # second object on which nothing was touched before the call (no edge cache yet): what it shows AFTER the call must be what
    # a fresh shape built from the same numbers shows
    if kind == "triangle":
        orig = np.array(nodes, order="F", copy=True)
        obj2 = build(kind, np.array(orig, order="F", copy=True))
        try:
            m2 = getattr(obj2, method)
            _ = m2(*pyargs) if callable(m2) else m2
        except Exception:  # pylint: disable=broad-except
            pass
        fresh = build(kind, np.array(orig, order="F", copy=True))
        if obj2.nodes.tobytes() != orig.tobytes():
            changed.append("nodes of the receiver after the call (no edges cached before)")
        for j, (c2, cf) in enumerate(zip(obj2.edges, fresh.edges)):
            if c2.nodes.tobytes() != cf.nodes.tobytes():
                changed.append("edge %d read after the call differs from the edge of a fresh triangle" % j)
    return [sorted(changed), exc]


OPS = {
    # ---- curves, public API
    "Curve.evaluate": lambda n, s: curve(n).evaluate(s),
    "Curve.evaluate_multi": lambda n, ss: curve(n).evaluate_multi(ss),
    "Curve.subdivide": lambda n: [c.nodes for c in curve(n).subdivide()],
    "Curve.specialize": lambda n, a, b: curve(n).specialize(a, b).nodes,
    "Curve.elevate": lambda n: curve(n).elevate().nodes,
    "Curve.reduce_": lambda n: curve(n).reduce_().nodes,
    "Curve.evaluate_hodograph": lambda n, s: curve(n).evaluate_hodograph(s),
    "probe.mutation": lambda kind, n, method, args: _mut_probe(kind, n, method, args),
    "Curve.locate": lambda n, p: curve(n).locate(p),
    "Curve.locate_shaped": lambda n, vals, shape: curve(n).locate(np.asfortranarray(np.array([float.fromhex(x) for x in vals]).reshape(shape))),
    "Triangle.locate_shaped": lambda n, vals, shape: tri(n).locate(np.asfortranarray(np.array([float.fromhex(x) for x in vals]).reshape(shape))),
    "Curve.length": lambda n: curve(n).length,
    "Curve.intersect": lambda n1, n2, strat: curve(n1).intersect(
        curve(n2), strategy=getattr(bezier.hazmat.intersection_helpers.IntersectionStrategy, strat)),
    "Curve.self_intersections": lambda n: curve(n).self_intersections(),
    # ---- curves, shims (speedup when present) and hazmat (always pure)
    "shim.evaluate_multi": lambda n, ss: _curve_helpers.evaluate_multi(n, ss),
    "shim.evaluate_multi_barycentric": lambda n, l1, l2: _curve_helpers.evaluate_multi_barycentric(n, l1, l2),
    "shim.subdivide_nodes": lambda n: list(_curve_helpers.subdivide_nodes(n)),
    "shim.specialize_curve": lambda n, a, b: _curve_helpers.specialize_curve(n, a, b),
    "shim.elevate_nodes": lambda n: _curve_helpers.elevate_nodes(n),
    "shim.reduce_pseudo_inverse": lambda n: _curve_helpers.reduce_pseudo_inverse(n),
    "shim.full_reduce": lambda n: _curve_helpers.full_reduce(n),
    "shim.evaluate_hodograph": lambda s, n: _curve_helpers.evaluate_hodograph(s, n),
    "shim.get_curvature": lambda n, tv, s: _curve_helpers.get_curvature(n, tv, s),
    "shim.newton_refine_curve": lambda n, p, s: _curve_helpers.newton_refine(n, p, s),
    "shim.locate_point_curve": lambda n, p: _curve_helpers.locate_point(n, p),
    "shim.compute_length": lambda n: _curve_helpers.compute_length(n),
    "hazmat.evaluate_multi": lambda n, ss: hz_curve.evaluate_multi(n, ss),
    "hazmat.evaluate_multi_barycentric": lambda n, l1, l2: hz_curve.evaluate_multi_barycentric(n, l1, l2),
    "hazmat.evaluate_multi_vs": lambda n, l1, l2: hz_curve.evaluate_multi_vs(n, l1, l2),
    "hazmat.evaluate_multi_de_casteljau": lambda n, l1, l2: hz_curve.evaluate_multi_de_casteljau(n, l1, l2),
    "hazmat.subdivide_nodes": lambda n: list(hz_curve.subdivide_nodes(n)),
    "hazmat.specialize_curve": lambda n, a, b: hz_curve.specialize_curve(n, a, b),
    "hazmat.elevate_nodes": lambda n: hz_curve.elevate_nodes(n),
    "hazmat.reduce_pseudo_inverse": lambda n: hz_curve.reduce_pseudo_inverse(n),
    "hazmat.full_reduce": lambda n: hz_curve.full_reduce(n),
    "hazmat.evaluate_hodograph": lambda s, n: hz_curve.evaluate_hodograph(s, n),
    "hazmat.get_curvature": lambda n, tv, s: hz_curve.get_curvature(n, tv, s),
    "hazmat.newton_refine_curve": lambda n, p, s: hz_curve.newton_refine(n, p, s),
    "hazmat.locate_point_curve": lambda n, p: hz_curve.locate_point(n, p),
    # ---- triangles
    "Triangle.evaluate_barycentric": lambda n, a, b, c, verify=True: tri(n).evaluate_barycentric(a, b, c, verify=verify),
    "Triangle.evaluate_barycentric_multi": lambda n, p, verify=True: tri(n).evaluate_barycentric_multi(p, verify=verify),
    "Triangle.evaluate_cartesian": lambda n, s, t, verify=True: tri(n).evaluate_cartesian(s, t, verify=verify),
    "Triangle.evaluate_cartesian_multi": lambda n, p, verify=True: tri(n).evaluate_cartesian_multi(p, verify=verify),
    "Triangle.edges": lambda n: [e.nodes for e in tri(n).edges],
    "Triangle.edges_after_use": lambda n: _edges_after_use(n),
    "Triangle.subdivide": lambda n: [t.nodes for t in tri(n).subdivide()],
    "Triangle.elevate": lambda n: tri(n).elevate().nodes,
    "Triangle.is_valid": lambda n: bool(tri(n).is_valid),
    "Triangle.area": lambda n: tri(n).area,
    "Triangle.locate": lambda n, p: tri(n).locate(p),
    "shim.tri_evaluate_barycentric": lambda n, d, a, b, c: _triangle_helpers.evaluate_barycentric(n, d, a, b, c),
    "shim.tri_evaluate_barycentric_multi": lambda n, d, p, dim: _triangle_helpers.evaluate_barycentric_multi(n, d, p, dim),
    "shim.tri_evaluate_cartesian_multi": lambda n, d, p, dim: _triangle_helpers.evaluate_cartesian_multi(n, d, p, dim),
    "shim.tri_subdivide_nodes": lambda n, d: list(_triangle_helpers.subdivide_nodes(n, d)),
    "shim.tri_specialize": lambda n, d, wa, wb, wc: _triangle_helpers.specialize_triangle(n, d, wa, wb, wc),
    "shim.tri_jacobian_both": lambda n, d, dim: _triangle_helpers.jacobian_both(n, d, dim),
    "shim.tri_jacobian_det": lambda n, d, st: _triangle_helpers.jacobian_det(n, d, st),
    "shim.tri_compute_edge_nodes": lambda n, d: list(_triangle_helpers.compute_edge_nodes(n, d)),
    "shim.tri_compute_area": lambda edges: _triangle_helpers.compute_area(tuple(edges)),
    "hazmat.tri_evaluate_barycentric": lambda n, d, a, b, c: hz_tri.evaluate_barycentric(n, d, a, b, c),
    "hazmat.tri_evaluate_barycentric_multi": lambda n, d, p, dim: hz_tri.evaluate_barycentric_multi(n, d, p, dim),
    "hazmat.tri_evaluate_cartesian_multi": lambda n, d, p, dim: hz_tri.evaluate_cartesian_multi(n, d, p, dim),
    "hazmat.tri_subdivide_nodes": lambda n, d: list(hz_tri.subdivide_nodes(n, d)),
    "hazmat.tri_specialize": lambda n, d, wa, wb, wc: hz_tri.specialize_triangle(n, d, wa, wb, wc),
    "hazmat.tri_jacobian_both": lambda n, d, dim: hz_tri.jacobian_both(n, d, dim),
    "hazmat.tri_jacobian_det": lambda n, d, st: hz_tri.jacobian_det(n, d, st),
    "hazmat.tri_compute_edge_nodes": lambda n, d: list(hz_tri.compute_edge_nodes(n, d)),
    "hazmat.tri_compute_area": lambda edges: hz_tri.compute_area(tuple(edges)),
    "hazmat.quadratic_jacobian_polynomial": lambda n: hz_tri.quadratic_jacobian_polynomial(n),
    "hazmat.cubic_jacobian_polynomial": lambda n: hz_tri.cubic_jacobian_polynomial(n),
    "hazmat.polynomial_sign": lambda p, d: int(hz_tri.polynomial_sign(p, d)),
    "hazmat.shoelace_for_area": lambda n: hz_tri.shoelace_for_area(n),
    # ---- planar predicates
    "shim.bbox": lambda n: list(_helpers.bbox(n)),
    "shim.contains_nd": lambda n, p: bool(_helpers.contains_nd(n, p)),
    "shim.cross_product": lambda a, b: _helpers.cross_product(a, b),
    "shim.wiggle_interval": lambda v: list(_helpers.wiggle_interval(v)),
    "shim.in_interval": lambda v, s, e: bool(_helpers.in_interval(v, s, e)),
    "shim.vector_close": lambda a, b: bool(_helpers.vector_close(a, b)),
    "shim.simple_convex_hull": lambda p: _helpers.simple_convex_hull(p),
    "shim.polygon_collide": lambda p, q: bool(_helpers.polygon_collide(p, q)),
    "hazmat.bbox": lambda n: list(hz_helpers.bbox(n)),
    "hazmat.contains_nd": lambda n, p: bool(hz_helpers.contains_nd(n, p)),
    "hazmat.cross_product": lambda a, b: hz_helpers.cross_product(a, b),
    "hazmat.wiggle_interval": lambda v: list(hz_helpers.wiggle_interval(v)),
    "hazmat.in_interval": lambda v, s, e: bool(hz_helpers.in_interval(v, s, e)),
    "hazmat.vector_close": lambda a, b: bool(hz_helpers.vector_close(a, b)),
    "hazmat.simple_convex_hull": lambda p: hz_helpers.simple_convex_hull(p),
    "hazmat.polygon_collide": lambda p, q: bool(hz_helpers.polygon_collide(p, q)),
    "hazmat.solve2x2": lambda lhs, rhs: list(hz_helpers.solve2x2(lhs, rhs)),
    "hazmat.is_separating": lambda d, p, q: bool(hz_helpers.is_separating(d, p, q)),
    "shim.bbox_intersect": lambda a, b: enc_enum(_geometric_intersection.bbox_intersect(a, b)),
    "hazmat.bbox_intersect": lambda a, b: enc_enum(hz_geo.bbox_intersect(a, b)),
    "hazmat.segment_intersection": lambda s0, e0, s1, e1: list(hz_geo.segment_intersection(s0, e0, s1, e1)),
    "hazmat.parallel_lines_parameters": lambda s0, e0, s1, e1: list(hz_geo.parallel_lines_parameters(s0, e0, s1, e1)),
    "hazmat.line_line_collide": lambda a, b: bool(hz_geo.line_line_collide(a, b)),
    "hazmat.convex_hull_collide": lambda a, b: bool(hz_geo.convex_hull_collide(a, b)),
    "hazmat.bbox_line_intersect": lambda n, s, e: enc_enum(hz_geo.bbox_line_intersect(n, s, e)),
    "hazmat.linearization_error": lambda n: hz_geo.linearization_error(n),
    "hazmat.clip_range": lambda a, b: list(hz_clip.clip_range(a, b)),
    "hazmat.all_intersections": lambda a, b: list(hz_geo.all_intersections(a, b)),
    "shim.all_intersections": lambda a, b: list(_geometric_intersection.all_intersections(a, b)),
    "hazmat.add_intersection": lambda s, t, ints: _add_int(s, t, ints),
    "hazmat.self_intersections": lambda n: hz_geo.self_intersections(n),
    "hazmat.self_intersections_traced": lambda n: _self_traced(n),
    "hazmat.round_trace": lambda n1, n2, rounds: _round_trace(n1, n2, int(rounds)),
    "Curve.self_intersections_limited": lambda n: _limited(lambda: curve(n).self_intersections()),
    "shim.newton_refine_intersect": lambda s, n1, t, n2: list(_intersection_helpers.newton_refine(s, n1, t, n2)),
    "hazmat.newton_refine_intersect": lambda s, n1, t, n2: list(hz_ih.newton_refine(s, n1, t, n2)),
    "hazmat.newton_simple_root": lambda n1, n2, s, t: _newton_system(n1, n2, s, t, False),
    "hazmat.newton_double_root": lambda n1, n2, s, t: _newton_system(n1, n2, s, t, True),
    "shim.newton_refine_triangle": lambda n, d, x, y, s, t: list(_triangle_intersection.newton_refine(n, d, x, y, s, t)),
    "hazmat.newton_refine_triangle": lambda n, d, x, y, s, t: list(hz_ti.newton_refine(n, d, x, y, s, t)),
    "shim.locate_point_triangle": lambda n, d, x, y: _triangle_intersection.locate_point(n, d, x, y),
    "hazmat.locate_point_triangle": lambda n, d, x, y: hz_ti.locate_point(n, d, x, y),
    # ---- compiled workspaces (speedup configuration only)
    "speedup.curve_intersections": lambda a, b, allow=True: list(_speedup.curve_intersections(a, b, allow_resize=bool(allow))),
    "speedup.curves_workspace_size": lambda: int(_speedup.curves_workspace_size()),
    "speedup.reset_curves_workspace": lambda n: _speedup.reset_curves_workspace(int(n)),
    "speedup.free_curve_intersections_workspace": lambda: _speedup.free_curve_intersections_workspace(),
    "speedup.triangle_workspace_sizes": lambda: list(_speedup.triangle_workspace_sizes()),
    "speedup.triangle_intersections": lambda n1, d1, n2, d2, r=2: _tri_ws(n1, d1, n2, d2, r),
    "speedup.reset_triangle_workspaces": lambda a=-1, b=-1: _speedup.reset_triangle_workspaces(segment_ends_size=int(a), segments_size=int(b)),
    "Triangle.intersect_summary": lambda n1, n2, strat=None: _tri_isect_summary(n1, n2, strat),
    "Curve.from_presentation": lambda n, s: bezier.Curve.from_nodes(n).evaluate(s),
    "Curve.intersect_presentation": lambda n1, n2: bezier.Curve.from_nodes(n1).intersect(bezier.Curve.from_nodes(n2)),
    "Triangle.edges_twice": lambda n: _edges_twice(n),
    # ---- algebraic
    "hazmat.alg_evaluate": lambda n, x, y: hz_alg.evaluate(n, x, y),
    "hazmat.alg_to_power_basis": lambda n1, n2: hz_alg.to_power_basis(n1, n2),
    "hazmat.alg_polynomial_norm": lambda c: hz_alg.polynomial_norm(c),
    "hazmat.alg_poly_to_power_basis": lambda c: hz_alg.poly_to_power_basis(c),
    "hazmat.alg_bezier_roots": lambda c: sorted_complex(hz_alg.bezier_roots(c)),
    "hazmat.alg_get_sigma_coeffs": lambda c: list(hz_alg._get_sigma_coeffs(c)),
    "hazmat.alg_bernstein_companion": lambda c: list(hz_alg.bernstein_companion(c)),
    "hazmat.alg_normalize_polynomial": lambda c: hz_alg.normalize_polynomial(c),
}


def _tri_isect_summary(n1, n2, strat=None):
    if strat is None:
        res = tri(n1).intersect(tri(n2))
    else:
        res = tri(n1).intersect(tri(n2), strategy=getattr(bezier.hazmat.intersection_helpers.IntersectionStrategy, strat))
    out = []
    for r in res:
        if isinstance(r, bezier.Triangle):
            out.append(["triangle", r.nodes])
        else:
            out.append(["polygon", float(r.area), [e.nodes for e in r._edges]])
    return out


def _tri_ws(n1, d1, n2, d2, r):
    """_speedup.triangle_intersections: the curved polygons as lists of [edge_index, start, end]; a contained triangle is
    reported as no polygon (the workspaces are not used in that case)"""
    polys, contained, _edges = _speedup.triangle_intersections(n1, int(d1), n2, int(d2), resizes_allowed=int(r))
    if polys is None:
        return []
    return [[[int(e), float(a), float(b)] for (e, a, b) in p] for p in polys]

def _edges_twice(n):
    t = tri(n)
    e1 = [e.nodes.copy() for e in t.edges]
    # mutate what was handed out, then ask again: the cache must not be affected
    for e in t.edges:
        e.nodes[:, 0] += 1.0
    e2 = [e.nodes.copy() for e in t.edges]
    return [e1, e2]


def _limited(f):
    old = sys.getrecursionlimit()
    sys.setrecursionlimit(150)
    try:
        return f()
    finally:
        sys.setrecursionlimit(old)


class _StopTrace(Exception):
    pass


def _round_trace(n1, n2, rounds):
    """the candidate flow of the REAL all_intersections: its callees intersect_one_round / prune_candidates / coincident_parameters /
    check_lines are wrapped by recorders, the two end-games (tangent_bbox_intersection, from_linearized) are replaced by recorders,
    and the run is cut after `rounds` rounds.  Returns [handled by check_lines, rounds]; per round: candidate pairs
    (start1, end1, linearized1, start2, end2, linearized2) after the 64-candidate rule, events, whether pruning ran, verdict
    (0 continue, 1 finished with no candidates, 2 still too many after pruning)"""
    lin_cls = hz_geo.Linearization

    def desc(c):
        is_lin = c.__class__ is lin_cls
        sc = c.curve if is_lin else c
        return [float(sc.start), float(sc.end), bool(is_lin)]
    events = []
    out = []
    flag = [False]
    names = ["tangent_bbox_intersection", "from_linearized", "intersect_one_round", "prune_candidates", "coincident_parameters", "check_lines"]
    orig = {k: getattr(hz_geo, k) for k in names}

    def one_round_w(cands, inter):
        if len(out) >= rounds:
            raise _StopTrace()
        del events[:]
        res = orig["intersect_one_round"](cands, inter)
        out.append([[desc(f) + desc(s_) for f, s_ in res], [list(e) for e in events], False, 0])
        return res

    def prune_w(cands):
        res = orig["prune_candidates"](cands)
        out[-1][0] = [desc(f) + desc(s_) for f, s_ in res]
        out[-1][2] = True
        return res

    def coincident_w(a, b):
        out[-1][3] = 2
        return None

    def check_lines_w(f, s_):
        r = orig["check_lines"](f, s_)
        flag[0] = bool(r[0])
        return r
    hz_geo.tangent_bbox_intersection = lambda f, s_, i: events.append([0] + desc(f) + desc(s_))
    hz_geo.from_linearized = lambda f, s_, i: events.append([1] + desc(f) + desc(s_))
    hz_geo.intersect_one_round = one_round_w
    hz_geo.prune_candidates = prune_w
    hz_geo.coincident_parameters = coincident_w
    hz_geo.check_lines = check_lines_w
    try:
        try:
            hz_geo.all_intersections(n1, n2)
            if out and out[-1][3] == 0:
                out[-1][3] = 1
        except _StopTrace:
            pass
        except NotImplementedError:
            if not (out and out[-1][3] == 2):
                raise
    finally:
        for k in names:
            setattr(hz_geo, k, orig[k])
    return [flag[0], out]


def _self_traced(nodes):
    """run hazmat self_intersections while recording the answers of its two oracles in call order"""
    angles, isects = [], []
    orig_all, orig_angle = hz_geo.all_intersections, hz_curve.discrete_turning_angle

    def all_w(a, b):
        res, flag = orig_all(a, b)
        isects.append(np.array(res, order="F", copy=True))
        return res, flag

    angle_nodes = []

    def angle_w(n):
        v = orig_angle(n)
        angles.append(bool(v < np.pi))
        angle_nodes.append(np.array(n, order="F", copy=True))
        return v
    hz_geo.all_intersections = all_w
    hz_curve.discrete_turning_angle = angle_w
    try:
        out = hz_geo.self_intersections(nodes)
    finally:
        hz_geo.all_intersections = orig_all
        hz_curve.discrete_turning_angle = orig_angle
    return [angles, isects, out, angle_nodes]


def _add_int(s, t, ints):
    lst = [(float(a), float(b)) for a, b in ints]
    hz_geo.add_intersection(s, t, lst)
    return [[a, b] for a, b in lst]


def enc_enum(e):
    if hasattr(e, "name"):
        return {"enum": e.name}
    for k, v in vars(hz_geo.BoxIntersectionType).items():
        if not k.startswith("_") and v == e:
            return {"enum": k}
    return {"enum": "UNKNOWN_%r" % (e,)}


def sorted_complex(z):
    z = np.asarray(z, dtype=complex)
    return [[float(w.real).hex(), float(w.imag).hex()] for w in sorted(z, key=lambda w: (w.real, w.imag))]


_RETAINED = []
OPS["probe.reread"] = lambda: list(_RETAINED)


def run(job):
    try:
        fn = OPS[job["op"]]
        args = [dec(a) for a in job["args"]]
        keep = [a.copy() if isinstance(a, np.ndarray) else a for a in args] if job.get("check_mutation") else None
        out = fn(*args)
        res = {"ok": enc(out)}
        if job.get("retain"):
            # keep the very objects handed back: "probe.reread" encodes them again later in the same process
            _RETAINED.append(out)
        if keep is not None:
            res["mutated"] = any(
                isinstance(a, np.ndarray) and not (np.array_equal(a, k) and a.dtype == k.dtype) for a, k in zip(args, keep))
        return res
    except Exception as exc:  # pylint: disable=broad-except
        return {"exc": type(exc).__name__, "msg": str(exc)[:300],
                "tb": traceback.format_exc()[-600:] if os.environ.get("BZ_TB") else ""}


def main():
    jobs = json.load(sys.stdin)
    out = [run(j) for j in jobs]
    json.dump({"config": CONFIG, "bezier_file": _src, "results": out}, sys.stdout)


if __name__ == "__main__":
    main()
