#!/bin/bash
# Build the compiled speedup from /repo's CURRENT working tree into a cache keyed by the
# hash of the Fortran/C sources.  Prints the package root (to be put on PYTHONPATH).
set -euo pipefail
REPO=${BEZIER_REPO:-/repo}
VERIF=$(cd "$(dirname "$0")/.." && pwd)
PYBIN=/venv/bin/python
key=$( (echo nonative; cat "$REPO"/src/fortran/*.f90 "$REPO"/src/fortran/CMakeLists.txt "$REPO"/src/python/bezier/_speedup.c) | sha256sum | cut -c1-16)
root="$VERIF/build/speedup-$key"
so="$root/pkg/bezier/_speedup.cpython-312-x86_64-linux-gnu.so"
if [ ! -f "$so" ]; then
  rm -rf "$root"; mkdir -p "$root/pkg/bezier" "$root/cm"
  (
    cmake -DCMAKE_INSTALL_PREFIX="$root/inst" -DCMAKE_BUILD_TYPE=Release -DTARGET_NATIVE_ARCH:BOOL=OFF -S "$REPO/src/fortran" -B "$root/cm" >"$root/build.log" 2>&1
    make -C "$root/cm" -j16 install >>"$root/build.log" 2>&1
    libdir=$(dirname "$(find "$root/inst" -name 'libbezier*' | head -1)")
    npinc=$($PYBIN -c 'import numpy; print(numpy.get_include())')
    pyinc=$($PYBIN -c 'import sysconfig; print(sysconfig.get_paths()["include"])')
    gcc -shared -fPIC -O2 -DNPY_NO_DEPRECATED_API=NPY_1_7_API_VERSION -I"$npinc" -I"$pyinc" -I"$root/inst/include" \
      "$REPO/src/python/bezier/_speedup.c" -L"$libdir" -lbezier -Wl,-rpath,"$libdir" -o "$so" >>"$root/build.log" 2>&1
  ) || { echo "speedup build failed, see $root/build.log" >&2; tail -20 "$root/build.log" >&2; rm -f "$so"; exit 2; }
  rm -rf "$root/cm"
  # keep at most 3 cached builds
  ls -dt "$VERIF"/build/speedup-* 2>/dev/null | tail -n +4 | xargs -r rm -rf
fi
# the Python sources are always the current ones: refresh symlinks on every call
for f in "$REPO"/src/python/bezier/*; do
  b=$(basename "$f")
  case "$b" in __pycache__|*.so|*.c|*.pyx|*.pxd) continue;; esac
  ln -sfn "$f" "$root/pkg/bezier/$b"
done
# drop links whose target disappeared
find "$root/pkg/bezier" -maxdepth 1 -xtype l -delete 2>/dev/null || true
echo "$root/pkg"
