"""Exact-rational oracles for curve-curve intersection SUPPORT sweeps (never the reason a property is reported
as holding): Sturm isolation for line-vs-curve pairs, exact residuals, planted crossings, overlapping sub-arcs."""
from fractions import Fraction
from math import comb

import oracle_q as oq

F = Fraction


def ptrim(p):
    p = list(p)
    while p and p[-1] == 0:
        p.pop()
    return p


def pdiv(a, b):
    a = ptrim(a); b = ptrim(b)
    q = [F(0)] * max(len(a) - len(b) + 1, 1)
    r = list(a)
    while len(r) >= len(b) and r:
        k = len(r) - len(b)
        c = r[-1] / b[-1]
        q[k] = c
        for i, bc in enumerate(b):
            r[i + k] -= c * bc
        r = ptrim(r)
    return q, r


def pderiv(p):
    return [k * p[k] for k in range(1, len(p))]


def peval(p, x):
    acc = F(0)
    for c in reversed(p):
        acc = acc * x + c
    return acc


def pgcd(a, b):
    a, b = ptrim(a), ptrim(b)
    while b:
        _, r = pdiv(a, b)
        a, b = b, ptrim(r)
    return a


def sturm_chain(p):
    chain = [ptrim(p), ptrim(pderiv(p))]
    while chain[-1]:
        _, r = pdiv(chain[-2], chain[-1])
        r = ptrim([-c for c in r])
        if not r:
            break
        chain.append(r)
    return [c for c in chain if c]


def sign_changes(chain, x):
    signs = []
    for p in chain:
        v = peval(p, x)
        if v != 0:
            signs.append(v > 0)
    return sum(1 for i in range(len(signs) - 1) if signs[i] != signs[i + 1])


def roots_in(p, lo, hi, eps=F(1, 2 ** 44)):
    """isolating intervals (lo_i, hi_i], refined to width eps, of the distinct real roots of square-free p in (lo, hi]"""
    chain = sturm_chain(p)
    out = []
    stack = [(lo, hi)]
    while stack:
        a, b = stack.pop()
        n = sign_changes(chain, a) - sign_changes(chain, b)
        if n == 0:
            continue
        if n == 1 and b - a <= eps:
            out.append((a, b))
            continue
        m = (a + b) / 2
        stack.append((a, m)); stack.append((m, b))
    return sorted(out)


def line_curve(line, curve):
    """Exact description of the intersections of the segment `line` (2x2 rows) with the planar curve (2 x n+1 rows).
    Returns None when the configuration is not certified well conditioned, otherwise a sorted list of (t_line, s_curve)
    as Fractions accurate to 2^-40 (end-point roots exact)."""
    (px, qx), (py, qy) = line
    a, b = qy - py, -(qx - px)
    if a == 0 and b == 0:
        return None
    c = a * px + b * py
    xs, ys = oq.to_power(curve[0]), oq.to_power(curve[1])
    p = [a * u + b * v for u, v in zip(xs, ys)]
    p[0] -= c
    p = ptrim(p)
    if not p:
        return None                     # curve inside the line: overlap
    g = pgcd(p, pderiv(p))
    if len(g) > 1:
        return None                     # repeated root: tangency
    res = []
    dd = (qx - px) ** 2 + (qy - py) ** 2
    cand = []
    if peval(p, F(0)) == 0:
        cand.append((F(0), F(0)))
    for lo, hi in roots_in(p, F(0), F(1)):
        if peval(p, hi) == 0:
            cand.append((hi, hi))
        else:
            cand.append((lo, hi))
    for lo, hi in cand:
        s = (lo + hi) / 2
        bx, by = oq.bernstein(curve[0], s), oq.bernstein(curve[1], s)
        t = ((bx - px) * (qx - px) + (by - py) * (qy - py)) / dd
        exact = lo == hi
        # conditioning: away from the ends of both parameter ranges unless exactly at an end
        for v in (s, t):
            if not exact and (abs(v) < F(1, 2 ** 10) or abs(v - 1) < F(1, 2 ** 10)):
                return None
        if exact and t not in (F(0), F(1)) and (abs(t) < F(1, 2 ** 10) or abs(t - 1) < F(1, 2 ** 10)):
            return None
        if t < 0 or t > 1:
            continue
        # crossing angle
        n = len(curve[0]) - 1
        dx = n * oq.bernstein([curve[0][i + 1] - curve[0][i] for i in range(n)], s) if n else F(0)
        dy = n * oq.bernstein([curve[1][i + 1] - curve[1][i] for i in range(n)], s) if n else F(0)
        cr = dx * (qy - py) - dy * (qx - px)
        if cr * cr * 2 ** 14 < (dx * dx + dy * dy) * dd:
            return None
        res.append((t, s))
    res.sort()
    for i in range(len(res) - 1):
        if abs(res[i + 1][1] - res[i][1]) < F(1, 2 ** 12):
            return None
    return res


def residual(c1, c2, s, t):
    """max-norm of B1(s) - B2(t), exactly"""
    return max(abs(oq.bernstein(c1[k], s) - oq.bernstein(c2[k], t)) for k in range(2))


def net_size(c):
    return max([abs(x) for r in c for x in r] + [F(1, 2 ** 40)])


def specialize_rows(rows, a, b):
    return [oq.specialize(r, a, b) for r in rows]


def elevate_rows(rows, k=1):
    for _ in range(k):
        rows = [oq.elevate(r) for r in rows]
    return rows


def hodograph_halfplane(rows):
    """injectivity/regularity certificate: all hodograph control vectors in an open half-plane"""
    n = len(rows[0]) - 1
    d = [(rows[0][i + 1] - rows[0][i], rows[1][i + 1] - rows[1][i]) for i in range(n)]
    if any(v == (0, 0) for v in d):
        return False
    # try the directions of the control vectors and their sums
    cands = d + [(sum(v[0] for v in d), sum(v[1] for v in d))]
    for u in cands:
        if all(v[0] * u[0] + v[1] * u[1] > 0 for v in d):
            return True
    return False


# ---------------------------------------------------------------- general curve-curve oracle (resultants)
def _det(m):
    """exact determinant (fraction-free Bareiss on Fractions)"""
    m = [list(r) for r in m]
    n = len(m)
    sign, prev = 1, F(1)
    for k in range(n - 1):
        if m[k][k] == 0:
            sw = next((i for i in range(k + 1, n) if m[i][k] != 0), None)
            if sw is None:
                return F(0)
            m[k], m[sw] = m[sw], m[k]
            sign = -sign
        for i in range(k + 1, n):
            for j in range(k + 1, n):
                m[i][j] = (m[i][j] * m[k][k] - m[i][k] * m[k][j]) / prev
        prev = m[k][k]
    return sign * m[n - 1][n - 1]


def _sylvester(p, q):
    """Sylvester matrix of two polynomials given by power-basis coefficients (low to high), formal degrees len-1"""
    dp, dq = len(p) - 1, len(q) - 1
    n = dp + dq
    rows = []
    for i in range(dq):
        rows.append([F(0)] * i + list(reversed(p)) + [F(0)] * (n - dp - 1 - i))
    for i in range(dp):
        rows.append([F(0)] * i + list(reversed(q)) + [F(0)] * (n - dq - 1 - i))
    return rows


def _interpolate(xs, ys):
    """power-basis coefficients of the polynomial through (xs, ys) (Newton form expanded), exact"""
    n = len(xs)
    coef = list(ys)
    for j in range(1, n):
        for i in range(n - 1, j - 1, -1):
            coef[i] = (coef[i] - coef[i - 1]) / (xs[i] - xs[i - j])
    poly = [F(0)]
    for k in range(n - 1, -1, -1):
        # poly = poly * (x - xs[k]) + coef[k]
        new = [F(0)] * (len(poly) + 1)
        for i, c in enumerate(poly):
            new[i + 1] += c
            new[i] -= c * xs[k]
        new[0] += coef[k]
        poly = new
    return ptrim(poly)


def _resultant_poly(c1, c2):
    """g(t) = Res_s(x1(s) - x2(t), y1(s) - y2(t)) as a polynomial in t (degree <= n1 n2), by evaluation + interpolation"""
    n1, n2 = len(c1[0]) - 1, len(c2[0]) - 1
    px, py = oq.to_power(c1[0]), oq.to_power(c1[1])
    px += [F(0)] * (n1 + 1 - len(px)); py += [F(0)] * (n1 + 1 - len(py))
    deg = n1 * n2
    xs = [F(k, deg) if deg else F(0) for k in range(deg + 1)]
    ys = []
    for t in xs:
        X, Y = oq.bernstein(c2[0], t), oq.bernstein(c2[1], t)
        p = list(px); p[0] -= X
        q = list(py); q[0] -= Y
        ys.append(_det(_sylvester(p, q)))
    return _interpolate(xs, ys)


def _iso_roots(p):
    """(lo, hi, exact) for the distinct roots of the square-free p in [0, 1]; exact roots at 0 / 1 flagged"""
    out = []
    if peval(p, F(0)) == 0:
        out.append((F(0), F(0)))
    for lo, hi in roots_in(p, F(0), F(1)):
        if peval(p, hi) == 0:
            out.append((hi, hi))
        else:
            out.append((lo, hi))
    return out


def curve_curve(c1, c2, max_product=16):
    """All solutions of B1(s) = B2(t) in the unit square, or None when the configuration is not certified well conditioned
    (overlap, tangency, a crossing through a self-intersection, near misses, crossings within 2^-10 of a parameter end that are
    not exactly at the end, crossing angle below 2^-7, crossings closer than 2^-12).  Sorted list of (s, t), accurate to 2^-40."""
    n1, n2 = len(c1[0]) - 1, len(c2[0]) - 1
    if n1 < 1 or n2 < 1 or n1 * n2 > max_product:
        return None
    if n1 == 1:
        r = line_curve(c1, c2)
        return None if r is None else sorted(r)
    if n2 == 1:
        r = line_curve(c2, c1)
        return None if r is None else sorted((s, t) for (t, s) in r)
    g = _resultant_poly(c1, c2)       # in t
    h = _resultant_poly(c2, c1)       # in s
    if not g or not h or len(g) < 2 or len(h) < 2:
        return None if (not g or not h) else []
    if len(pgcd(g, pderiv(g))) > 1 or len(pgcd(h, pderiv(h))) > 1:
        return None
    ts, ss = _iso_roots(g), _iso_roots(h)
    size = max(net_size(c1), net_size(c2))
    res = []
    used = set()
    for (tl, th) in ts:
        t = (tl + th) / 2
        match = []
        for j, (sl, sh) in enumerate(ss):
            s = (sl + sh) / 2
            d = residual(c1, c2, s, t)
            if d <= size * F(1, 2 ** 34):
                match.append(j)
            elif d <= size * F(1, 2 ** 10):
                return None             # near miss: not decidable at this accuracy
        if len(match) > 1:
            return None
        if match:
            j = match[0]
            if j in used:
                return None
            used.add(j)
            sl, sh = ss[j]
            res.append(((sl + sh) / 2, t, sl == sh, tl == th))
    out = []
    for s, t, se, te in res:
        for v, e in ((s, se), (t, te)):
            if not e and (v < F(1, 2 ** 10) or 1 - v < F(1, 2 ** 10)):
                return None
        d1 = [n1 * oq.bernstein([c1[k][i + 1] - c1[k][i] for i in range(n1)], s) for k in range(2)]
        d2 = [n2 * oq.bernstein([c2[k][i + 1] - c2[k][i] for i in range(n2)], t) for k in range(2)]
        cr = d1[0] * d2[1] - d1[1] * d2[0]
        if cr * cr * 2 ** 14 < (d1[0] ** 2 + d1[1] ** 2) * (d2[0] ** 2 + d2[1] ** 2):
            return None
        out.append((s, t))
    out.sort()
    for i in range(len(out)):
        for j in range(i + 1, len(out)):
            if abs(out[i][0] - out[j][0]) < F(1, 2 ** 12) and abs(out[i][1] - out[j][1]) < F(1, 2 ** 12):
                return None
    return out
