"""Exact-rational oracles for curve-curve intersection SUPPORT sweeps (never the reason a property is reported
as holding): Sturm isolation for line-vs-curve pairs, exact residuals, planted crossings, overlapping sub-arcs."""
from fractions import Fraction
from math import comb

import oracle_q as oq

F = Fraction


def ptrim(p):
    p = list(p)
    while p and p[-1] == 0:
        p.pop()
    return p


def pdiv(a, b):
    a = ptrim(a); b = ptrim(b)
    q = [F(0)] * max(len(a) - len(b) + 1, 1)
    r = list(a)
    while len(r) >= len(b) and r:
        k = len(r) - len(b)
        c = r[-1] / b[-1]
        q[k] = c
        for i, bc in enumerate(b):
            r[i + k] -= c * bc
        r = ptrim(r)
    return q, r


def pderiv(p):
    return [k * p[k] for k in range(1, len(p))]


def peval(p, x):
    acc = F(0)
    for c in reversed(p):
        acc = acc * x + c
    return acc


def pgcd(a, b):
    a, b = ptrim(a), ptrim(b)
    while b:
        _, r = pdiv(a, b)
        a, b = b, ptrim(r)
    return a


def sturm_chain(p):
    chain = [ptrim(p), ptrim(pderiv(p))]
    while chain[-1]:
        _, r = pdiv(chain[-2], chain[-1])
        r = ptrim([-c for c in r])
        if not r:
            break
        chain.append(r)
    return [c for c in chain if c]


def sign_changes(chain, x):
    signs = []
    for p in chain:
        v = peval(p, x)
        if v != 0:
            signs.append(v > 0)
    return sum(1 for i in range(len(signs) - 1) if signs[i] != signs[i + 1])


def roots_in(p, lo, hi, eps=F(1, 2 ** 44)):
    """isolating intervals (lo_i, hi_i], refined to width eps, of the distinct real roots of square-free p in (lo, hi]"""
    chain = sturm_chain(p)
    out = []
    stack = [(lo, hi)]
    while stack:
        a, b = stack.pop()
        n = sign_changes(chain, a) - sign_changes(chain, b)
        if n == 0:
            continue
        if n == 1 and b - a <= eps:
            out.append((a, b))
            continue
        m = (a + b) / 2
        stack.append((a, m)); stack.append((m, b))
    return sorted(out)


def line_curve(line, curve):
    """Exact description of the intersections of the segment `line` (2x2 rows) with the planar curve (2 x n+1 rows).
    Returns None when the configuration is not certified well conditioned, otherwise a sorted list of (t_line, s_curve)
    as Fractions accurate to 2^-40 (end-point roots exact)."""
    (px, qx), (py, qy) = line
    a, b = qy - py, -(qx - px)
    if a == 0 and b == 0:
        return None
    c = a * px + b * py
    xs, ys = oq.to_power(curve[0]), oq.to_power(curve[1])
    p = [a * u + b * v for u, v in zip(xs, ys)]
    p[0] -= c
    p = ptrim(p)
    if not p:
        return None                     # curve inside the line: overlap
    g = pgcd(p, pderiv(p))
    if len(g) > 1:
        return None                     # repeated root: tangency
    res = []
    dd = (qx - px) ** 2 + (qy - py) ** 2
    cand = []
    if peval(p, F(0)) == 0:
        cand.append((F(0), F(0)))
    for lo, hi in roots_in(p, F(0), F(1)):
        if peval(p, hi) == 0:
            cand.append((hi, hi))
        else:
            cand.append((lo, hi))
    for lo, hi in cand:
        s = (lo + hi) / 2
        bx, by = oq.bernstein(curve[0], s), oq.bernstein(curve[1], s)
        t = ((bx - px) * (qx - px) + (by - py) * (qy - py)) / dd
        exact = lo == hi
        # conditioning: away from the ends of both parameter ranges unless exactly at an end
        for v in (s, t):
            if not exact and (abs(v) < F(1, 2 ** 10) or abs(v - 1) < F(1, 2 ** 10)):
                return None
        if exact and t not in (F(0), F(1)) and (abs(t) < F(1, 2 ** 10) or abs(t - 1) < F(1, 2 ** 10)):
            return None
        if t < 0 or t > 1:
            continue
        # crossing angle
        n = len(curve[0]) - 1
        dx = n * oq.bernstein([curve[0][i + 1] - curve[0][i] for i in range(n)], s) if n else F(0)
        dy = n * oq.bernstein([curve[1][i + 1] - curve[1][i] for i in range(n)], s) if n else F(0)
        cr = dx * (qy - py) - dy * (qx - px)
        if cr * cr * 2 ** 14 < (dx * dx + dy * dy) * dd:
            return None
        res.append((t, s))
    res.sort()
    for i in range(len(res) - 1):
        if abs(res[i + 1][1] - res[i][1]) < F(1, 2 ** 12):
            return None
    return res


def residual(c1, c2, s, t):
    """max-norm of B1(s) - B2(t), exactly"""
    return max(abs(oq.bernstein(c1[k], s) - oq.bernstein(c2[k], t)) for k in range(2))


def net_size(c):
    return max([abs(x) for r in c for x in r] + [F(1, 2 ** 40)])


def specialize_rows(rows, a, b):
    return [oq.specialize(r, a, b) for r in rows]


def elevate_rows(rows, k=1):
    for _ in range(k):
        rows = [oq.elevate(r) for r in rows]
    return rows


def hodograph_halfplane(rows):
    """injectivity/regularity certificate: all hodograph control vectors in an open half-plane"""
    n = len(rows[0]) - 1
    d = [(rows[0][i + 1] - rows[0][i], rows[1][i + 1] - rows[1][i]) for i in range(n)]
    if any(v == (0, 0) for v in d):
        return False
    # try the directions of the control vectors and their sums
    cands = d + [(sum(v[0] for v in d), sum(v[1] for v in d))]
    for u in cands:
        if all(v[0] * u[0] + v[1] * u[1] > 0 for v in d):
            return True
    return False
