"""Shared machinery of the checks: translators, Coq build, implementation runs in two
configurations, Coq-evaluated correspondence, evidence and replay files."""
import json
import os
import random
import re
import subprocess
import sys
import time
from fractions import Fraction

VERIF = os.path.dirname(os.path.dirname(os.path.abspath(__file__)))
REPO = os.environ.get("BEZIER_REPO", "/repo")
COQ = os.path.join(VERIF, "coq")
BUILD = os.path.join(VERIF, "build")
PYBIN = "/venv/bin/python"
NPROC = 16


def log(*a):
    print(*a, flush=True)


# ---------------------------------------------------------------- numbers


class NonFinite(str):
    """a non-finite double coming back from the implementation (never equal to any model value)"""


def fr_hex(h):
    f = float.fromhex(h)
    if f != f or f in (float("inf"), float("-inf")):
        return NonFinite(h)
    return Fraction(f)


def hexf(x):
    return float(x).hex()


def is_double(fr):
    """Is the rational exactly a binary64 value?"""
    try:
        return Fraction(float(fr)) == fr
    except OverflowError:
        return False


def enc_arr(rows):
    """rows: list of lists of Fractions (must be exact doubles)."""
    out = []
    for r in rows:
        o = []
        for x in r:
            assert is_double(x), x
            o.append(float(x).hex())
        out.append(o)
    return {"a": out}


def enc_vec(xs):
    for x in xs:
        assert is_double(x), x
    return {"v": [float(x).hex() for x in xs]}


def enc_f(x):
    assert is_double(x), x
    return {"f": float(x).hex()}


def dec_res(x):
    """Decode a worker result into Fractions / lists / None / dict."""
    if isinstance(x, dict):
        if "a" in x:
            return [[fr_hex(h) for h in r] for r in x["a"]]
        if "v" in x:
            return [fr_hex(h) for h in x["v"]]
        if "f" in x:
            f = float.fromhex(x["f"])
            if f != f or f in (float("inf"), float("-inf")):
                return ("nonfinite", x["f"])
            return Fraction(f)
        if "enum" in x:
            return ("enum", x["enum"])
        if "curve" in x:
            return dec_res(x["curve"])
        if "triangle" in x:
            return dec_res(x["triangle"])
        return x
    if isinstance(x, list):
        return [dec_res(e) for e in x]
    return x


def coq_q(fr):
    if isinstance(fr, NonFinite):
        raise ValueError("non-finite value from the implementation")
    fr = Fraction(fr)
    return "(%d#%d)" % (fr.numerator, fr.denominator)


def coq_val(x):
    """decoded implementation result -> Coq term of type Base.PyVal.val"""
    if x is None:
        return "VNone"
    if isinstance(x, bool):
        return "(VB %s)" % ("true" if x else "false")
    if isinstance(x, NonFinite):
        if "nan" in x.lower():
            return "VNaN"
        raise ValueError("infinite value from the implementation")
    if isinstance(x, Fraction):
        return "(VQ %s)" % coq_q(x)
    if isinstance(x, int):
        return "(VQ %s)" % coq_q(Fraction(x))
    if isinstance(x, tuple) and len(x) == 2 and x[0] == "enum":
        return '(VEnum "%s")' % x[1]
    if isinstance(x, tuple) and len(x) == 2 and x[0] == "nonfinite":
        if "nan" in str(x[1]).lower():
            return "VNaN"
        raise ValueError("infinite value from the implementation")
    if isinstance(x, (list, tuple)):
        return "(VTup [%s])" % "; ".join(coq_val(e) for e in x)
    raise ValueError("cannot express %r as a val" % (x,))


def coq_list(xs, f=coq_q):
    return "[" + "; ".join(f(x) for x in xs) + "]"


def coq_mat(rows):
    return coq_list(rows, lambda r: coq_list(r))


def dyadic(rng, bits, pbits):
    """random integer/2^p with |numerator| < 2^bits, p <= pbits"""
    p = rng.randint(0, pbits)
    return Fraction(rng.randint(-(2 ** bits) + 1, 2 ** bits - 1), 2 ** p)


# ---------------------------------------------------------------- subprocesses


def sh(cmd, timeout, cwd=None, env=None, inp=None):
    t0 = time.time()
    try:
        p = subprocess.run(cmd, cwd=cwd, env=env, input=inp, capture_output=True, text=True, timeout=timeout)
        return p.returncode, p.stdout, p.stderr, time.time() - t0
    except subprocess.TimeoutExpired as exc:
        return 124, (exc.stdout or b"").decode() if isinstance(exc.stdout, bytes) else (exc.stdout or ""), "TIMEOUT", time.time() - t0


_SPEEDUP_ROOT = None
_SPEEDUP_LOCK = __import__("threading").Lock()


def speedup_root():
    global _SPEEDUP_ROOT
    with _SPEEDUP_LOCK:
        return _speedup_root_locked()


def _speedup_root_locked():
    global _SPEEDUP_ROOT
    if _SPEEDUP_ROOT is None:
        rc, out, err, _ = sh([os.path.join(VERIF, "harness", "build_speedup.sh")], 600)
        if rc != 0:
            raise RuntimeError("speedup build failed: " + err[-2000:])
        _SPEEDUP_ROOT = out.strip().splitlines()[-1]
    return _SPEEDUP_ROOT


def run_impl(config, jobs, timeout=900):
    """Run jobs in one configuration ('pure' | 'speedup'); returns list of raw results."""
    env = dict(os.environ)
    env["PYTHONHASHSEED"] = "0"
    env["BZ_CONFIG"] = config
    env["BEZIER_REPO"] = REPO
    env["BEZIER_VERIF"] = "1"
    env.pop("BEZIER_NO_EXTENSION", None)
    if config == "pure":
        env["PYTHONPATH"] = os.path.join(REPO, "src", "python")
    else:
        env["PYTHONPATH"] = speedup_root()
    env["PYTHONDONTWRITEBYTECODE"] = "1"
    rc, out, err, _ = sh([PYBIN, os.path.join(VERIF, "harness", "impl_worker.py")], timeout, env=env,
                         inp=json.dumps(jobs), cwd=BUILD)
    if rc != 0:
        raise RuntimeError("implementation worker (%s) failed rc=%d: %s" % (config, rc, err[-3000:]))
    doc = json.loads(out)
    return doc["results"]


def run_impl_parallel(config, jobs, shards=8, timeout=900):
    if len(jobs) < 200 or shards <= 1:
        return run_impl(config, jobs, timeout)
    from concurrent.futures import ThreadPoolExecutor
    n = len(jobs)
    size = (n + shards - 1) // shards
    chunks = [jobs[i:i + size] for i in range(0, n, size)]
    with ThreadPoolExecutor(max_workers=shards) as ex:
        outs = list(ex.map(lambda c: run_impl(config, c, timeout), chunks))
    res = []
    for o in outs:
        res.extend(o)
    return res


# ---------------------------------------------------------------- translators and Coq build

COQ_FLAGS = ["-Q", COQ, "BZ", "-w", "-notation-overridden,-deprecated-hint-without-locality,-ambiguous-paths"]


def translate():
    """Regenerate coq/Gen from /repo.  Returns (ok, log)."""
    logs = []
    ok = True
    for script in ("py2v.py", "f902v.py", "f902v_fn.py"):
        path = os.path.join(VERIF, "translate", script)
        if not os.path.exists(path):
            continue
        rc, out, err, _ = sh([PYBIN, path, os.path.join(COQ, "Gen")], 120)
        logs.append(out + err)
        if rc != 0:
            ok = False
    return ok, "\n".join(logs)


def ensure_makefile():
    mk = os.path.join(COQ, "Makefile")
    proj = os.path.join(COQ, "_CoqProject")
    if not os.path.exists(mk) or os.path.getmtime(mk) < os.path.getmtime(proj):
        rc, out, err, _ = sh(["coq_makefile", "-f", "_CoqProject", "-o", "Makefile"], 60, cwd=COQ)
        if rc != 0:
            raise RuntimeError("coq_makefile failed: " + err)


FILE_LIMIT = int(os.environ.get("VERIF_COQC_LIMIT", "1500"))


def make(targets, timeout=1800):
    """Full .vo build of the given targets (relative to coq/). Returns (ok, log)."""
    ensure_makefile()
    # every coqc runs under its own time limit: on the unchanged tree the slowest file takes 2-3 minutes; a proof script that
    # runs away on a mutated table (field / vm_compute) is a failed obligation after FILE_LIMIT seconds, not a hung check
    rc, out, err, dt = sh(["make", "-j%d" % NPROC, "-k", "COQC=timeout %d coqc" % FILE_LIMIT] + targets, timeout, cwd=COQ)
    return rc == 0, out + err


def failed_files(make_log):
    """Names of .v files whose compilation failed, from a make log."""
    bad = []
    for m in re.finditer(r'File "\./([^"]+\.v)", line (\d+)', make_log):
        if m.group(1) not in bad:
            bad.append(m.group(1))
    for m in re.finditer(r"\[([^\]]+\.vo)\] Error", make_log):
        f = m.group(1)[:-1]
        if f not in bad:
            bad.append(f)
    return bad


def compile_props(pid):
    """Compile Props/<pid>.v directly, capture Print Assumptions.  Returns dict."""
    src = os.path.join(COQ, "Props", pid + ".v")
    rc, out, err, dt = sh(["coqc"] + COQ_FLAGS + [src], 900, cwd=COQ)
    text = open(src).read()
    theorems = re.findall(r"^\s*(?:Theorem|Lemma|Corollary)\s+(\w+)", text, re.M)
    closed = {}
    cur = None
    # Print Assumptions output: either "Closed under the global context" or "Axioms:" + list
    blocks = re.split(r"(?=Closed under the global context|Axioms:)", out)
    pa_names = re.findall(r"Print Assumptions\s+(\w+)\.", text)
    axioms = {}
    bi = 0
    for b in blocks:
        if b.startswith("Closed under the global context"):
            if bi < len(pa_names):
                axioms[pa_names[bi]] = []
            bi += 1
        elif b.startswith("Axioms:"):
            names = re.findall(r"^([A-Za-z_][\w\.']*)\s*:", b[len("Axioms:"):], re.M)
            if bi < len(pa_names):
                axioms[pa_names[bi]] = names
            bi += 1
    return {"ok": rc == 0, "theorems": theorems, "axioms": axioms, "log": (out + err)[-4000:], "wall_s": dt,
            "cmd": "coqc -Q coq BZ coq/Props/%s.v" % pid}


FORBIDDEN = re.compile(r"\b(Admitted|admit|Axiom|Parameter|Conjecture|Unset Guard|bypass_check|type-in-type|Admit Obligations)\b")


def grep_forbidden():
    bad = []
    for root, _, files in os.walk(COQ):
        for f in files:
            if f.endswith(".v"):
                p = os.path.join(root, f)
                for i, line in enumerate(open(p), 1):
                    code = re.sub(r"\(\*.*?\*\)", "", line)
                    if FORBIDDEN.search(code):
                        bad.append("%s:%d:%s" % (os.path.relpath(p, VERIF), i, line.strip()))
    return bad


def run_cases_v(name, text, timeout=900):
    """Compile a generated cases file; returns (rc, stdout, stderr)."""
    d = os.path.join(BUILD, "cases")
    os.makedirs(d, exist_ok=True)
    path = os.path.join(d, name + ".v")
    with open(path, "w") as fh:
        fh.write(text)
    rc, out, err, dt = sh(["coqc", "-noglob"] + COQ_FLAGS + ["-Q", d, "BZCases", path], timeout, cwd=d)
    for ext in (".vo", ".vok", ".vos", ".glob"):
        try:
            os.remove(path[:-2] + ext)
        except OSError:
            pass
    return rc, out, err, dt


def run_cases_sharded(prefix, texts, timeout=900):
    from concurrent.futures import ThreadPoolExecutor
    with ThreadPoolExecutor(max_workers=min(NPROC, max(1, len(texts)))) as ex:
        return list(ex.map(lambda it: run_cases_v("%s_%d" % (prefix, it[0]), it[1], timeout), enumerate(texts)))


def parse_bad(out):
    """Parse `= (n%nat, [i; j])` or `= [i; j]` printed by Eval vm_compute -> list of ints, or None."""
    m = re.search(r"=\s*\[(.*?)\]", out, re.S)
    if not m:
        return None
    body = m.group(1).strip()
    if not body:
        return []
    return [int(re.sub(r"%nat", "", x).strip()) for x in body.split(";")]


# ---------------------------------------------------------------- evidence / replay


def write_evidence(pid, tier, seed, coverage, assumptions, wall_s, violations, level="proof"):
    os.makedirs(os.path.join(VERIF, "evidence"), exist_ok=True)
    doc = {"property_id": pid, "tier": tier, "seed": seed, "level": level, "coverage": coverage,
           "assumptions": assumptions, "wall_s": round(wall_s, 2), "violations": violations}
    with open(os.path.join(VERIF, "evidence", pid + ".json"), "w") as fh:
        json.dump(doc, fh, indent=1, default=str)


def write_replay(pid, doc):
    d = os.path.join(VERIF, "evidence", "replay")
    os.makedirs(d, exist_ok=True)
    n = 0
    while os.path.exists(os.path.join(d, "%s-%d.json" % (pid, n))):
        n += 1
    path = os.path.join(d, "%s-%d.json" % (pid, n))
    with open(path, "w") as fh:
        json.dump(doc, fh, indent=1, default=str)
    return path


def load_known_findings():
    p = os.path.join(VERIF, "known_findings.json")
    if os.path.exists(p):
        return json.load(open(p))
    return {"findings": [], "fixed": []}


def rng_for(seed, pid):
    return random.Random("%s-%s" % (seed, pid))
