"""Check protocol shared by all properties (DESIGN.md 2.4)."""
import json
import os
import sys
import time

from common import (VERIF, COQ, log, translate, make, failed_files, compile_props, grep_forbidden,
                    run_impl_parallel, run_cases_sharded, parse_bad, write_evidence, write_replay,
                    load_known_findings, rng_for, dec_res)

TRUSTED_BASE = [
    "Coq 8.16.1 kernel and its VM (vm_compute); no native_compute",
    "translators: translate/py2v.py (constants, tables, dispatch literals by AST shape), translate/py2v_more.py (scalar functions -> Base/PyVal.v `val` semantics, which is mine: Python float arithmetic read as exact rational arithmetic, comparisons, tuples, raise -> VErr), translate/f902v.py (Fortran parameter constants, declared types, shim bindings, symbolic evaluation of the hard-coded Fortran closed forms of curve / triangle subdivision and of shoelace_for_area to coefficient tables, status enum in three languages, status switches of _speedup.c / _speedup.pyx, raise statements of the hazmat modules), translate/f902v_fn.py (twelve scalar Fortran routines -> the same `val` language: expressions with Fortran precedence, if-chains, call with out-arguments, literal-index elements; an out-argument not assigned on a path is None)",
    "harness correspondence: exact-input generators, float.hex transport, CPython Fraction(float) exactness",
    "speedup built from /repo/src/fortran and _speedup.c with the repository's Release flags except -march=native (TARGET_NATIVE_ARCH=OFF, as the shipped wheel): gfortran -O3, gcc -O2",
    "no Extraction is used (the model is evaluated inside Coq by vm_compute on generated case files; comparison done in Coq, only bad indices printed)",
    "exact rational oracles harness/oracle_q.py and harness/isect_oracle.py (Sturm isolation) are used by support sweeps and failing-input search only, never as the reason a property holds",
    "NumPy/BLAS, gfortran runtime, CPython 3.12",
]


class Ctx:
    def __init__(self, pid, tier, seed):
        self.pid = pid
        self.tier = tier
        self.seed = seed
        self.rng = rng_for(seed, pid)
        self.t0 = time.time()
        self.obligations = []       # (name, ok, detail)
        self.corr = {}              # name -> stats
        self.samples = []
        self.violations = []        # dicts -> replay files
        self.known_hits = []        # strings
        self.assumptions = []
        self.axioms = {}
        self.unproved = []
        self.notes = []
        self.kf = load_known_findings()
        import glob
        for f in glob.glob(os.path.join(VERIF, "evidence", "replay", pid + "-*.json")):
            try:
                os.remove(f)
            except OSError:
                pass
        self.translate_ok = None

    def quick(self):
        return self.tier != "thorough"


def prove(ctx, deps, extra_props=()):
    """Regenerate Gen/, build the dependency cone, compile Props/<pid>.v, record obligations."""
    ok_t, tlog = translate()
    ctx.translate_ok = ok_t
    if not ok_t:
        ctx.obligations.append(("translate", False, tlog[-1500:]))
    okm, mlog = make(deps)
    if not okm:
        bad = failed_files(mlog)
        ctx.obligations.append(("build:" + ",".join(bad or ["?"]), False, mlog[-3000:]))
        ctx.failed_files = bad
    for pid in (ctx.pid,) + tuple(extra_props):
        res = compile_props(pid)
        ctx.checker_cmd = res["cmd"]
        if res["ok"]:
            for th in res["theorems"]:
                ctx.obligations.append((th, True, ""))
            ctx.axioms.update(res["axioms"])
        else:
            # which theorems are affected is not known when the file does not compile: all of them fail
            for th in res["theorems"]:
                ctx.obligations.append((th, False, ""))
            ctx.obligations.append(("Props/%s.v" % pid, False, res["log"][-3000:]))
    bad = grep_forbidden()
    if bad:
        ctx.obligations.append(("no-admits-no-axioms", False, "\n".join(bad[:20])))
    else:
        ctx.obligations.append(("no-admits-no-axioms", True, ""))


def correspond(ctx, name, cases, ops, coq_case, coq_header, chk, judge=None, configs=("pure", "speedup"),
               shard=400, known=None, nontrivial=None):
    """Model-vs-implementation correspondence, compared INSIDE Coq.

    cases: list of dicts (inputs as Fractions).
    ops:   list of (opname, argsfn, rowsfn) : argsfn(case) -> encoded args;
           rowsfn(decoded_result, case) -> list of 'observations' (each an object coq_case can print)
    coq_case(case, obs) -> Coq term (one element of the list given to `chk`), or None if obs is an
           exception etc. that the model does not cover (then judge must decide).
    chk:   name of the Gallina boolean check function.
    judge(case, op, config, raw_result) -> None | str : property-level verdict on a disagreement.
    known(case, op, config, raw) -> None | str : known-finding signature match.
    """
    t0 = time.time()
    stats = {"cases": len(cases), "ops": [o[0] for o in ops], "configs": list(configs), "compared": 0,
             "disagreements": 0, "coq_files": 0, "distinct_observations": 0}
    # 1. run the implementation
    results = {}
    for cfg in configs:
        jobs = []
        for c in cases:
            for (op, argsfn, _rows) in ops:
                jobs.append({"op": op, "args": argsfn(c)})
        try:
            raw = run_impl_parallel(cfg, jobs)
        except RuntimeError as exc:
            ctx.violations.append({"kind": "implementation-run-failed", "correspondence": name, "config": cfg,
                                   "detail": str(exc)[-2000:], "no_input": True})
            ctx.corr[name] = stats
            return
        results[cfg] = raw
    # 2. collect distinct observations per case
    terms = []      # coq terms
    owners = []     # (case index, [(cfg, op, raw)])
    for ci, c in enumerate(cases):
        seen = {}
        for cfg in configs:
            for oi, (op, _a, rowsfn) in enumerate(ops):
                raw = results[cfg][ci * len(ops) + oi]
                if "exc" in raw:
                    obs_list = [("exc", raw["exc"])]
                else:
                    try:
                        obs_list = rowsfn(dec_res(raw["ok"]), c)
                    except Exception as exc:  # malformed output shape
                        obs_list = [("malformed", repr(exc))]
                key = json.dumps(obs_list, default=str, sort_keys=True)
                seen.setdefault(key, (obs_list, []))[1].append((cfg, op, raw, _a(c)))
        for key, (obs_list, who) in seen.items():
            try:
                term = coq_case(c, obs_list)
            except (ValueError, TypeError, IndexError, KeyError):
                term = None     # non-finite / malformed output: a disagreement, to be judged
            terms.append(term)
            owners.append((ci, who, obs_list))
    stats["distinct_observations"] = len(terms)
    # 3. evaluate inside Coq (coq_case returns a list of terms, e.g. one per coordinate row)
    flat = []       # (term index, coq text)
    bad_terms = []
    for ti, term in enumerate(terms):
        if term is None:
            bad_terms.append(ti)
            continue
        for t in (term if isinstance(term, list) else [term]):
            flat.append((ti, t))
    per = max(8, min(shard, (len(flat) + 15) // 16))
    files, index_maps = [], []
    for i in range(0, len(flat), per):
        chunk = flat[i:i + per]
        index_maps.append([ti for ti, _ in chunk])
        # the list is elaborated against the checker's argument type (so a shard whose cases only contain empty lists still types)
        files.append(coq_header + "\nEval vm_compute in (bad_indices %s [\n" % chk + ";\n".join(t for _, t in chunk) + "\n]).\n")
    outs = run_cases_sharded("%s_%s" % (ctx.pid, name), files)
    stats["coq_files"] = len(files)
    stats["coq_terms"] = len(flat)
    for (rc, out, err, dt), imap in zip(outs, index_maps):
        bad = parse_bad(out) if rc == 0 else None
        if bad is None:
            ctx.violations.append({"kind": "correspondence-not-checkable", "correspondence": name,
                                   "detail": (out + err)[-2000:], "no_input": True})
            continue
        stats["compared"] += len(set(imap))
        for b in bad:
            if imap[b] not in bad_terms:
                bad_terms.append(imap[b])
    # 4. judge disagreements
    for ti in bad_terms:
        ci, who, obs_list = owners[ti]
        c = cases[ci]
        for (cfg, op, raw, args_) in who:
            stats["disagreements"] += 1
            sig = known(c, op, cfg, raw) if known else None
            if sig:
                ctx.known_hits.append(sig)
                continue
            verdict = safe_judge(judge, c, op, cfg, raw)
            ctx.violations.append({"kind": "model-implementation-disagreement", "correspondence": name,
                                   "config": cfg, "op": op, "case": c, "implementation_returned": raw,
                                   "job": {"op": op, "args": args_},
                                   "property_verdict_on_this_input": verdict,
                                   "no_input": verdict is None})
    # 5. a broken proof obligation means the (regenerated) model may have moved WITH the code: agreement then says nothing, so the
    #    property-level judge is applied to every observation in search of a concrete failing input
    if judge is not None and any(not ok for (_n, ok, _l) in ctx.obligations):
        searched, found = 0, 0
        for ti, (ci, who, obs_list) in enumerate(owners):
            if ti in bad_terms:
                continue
            for (cfg, op, raw, args_) in who:
                searched += 1
                if known and known(cases[ci], op, cfg, raw):
                    continue
                verdict = safe_judge(judge, cases[ci], op, cfg, raw)
                if verdict is not None and found < 5:
                    found += 1
                    ctx.violations.append({"kind": "property-fails-on-implementation (judge applied after a broken obligation)",
                                           "correspondence": name, "config": cfg, "op": op, "case": cases[ci],
                                           "implementation_returned": raw, "job": {"op": op, "args": args_},
                                           "verdict": verdict})
        stats["judged_after_broken_obligation"] = searched
    if nontrivial:
        stats["distinct_nontrivial"] = len({json.dumps(c, default=str, sort_keys=True) for c in cases if nontrivial(c)})
    stats["wall_s"] = round(time.time() - t0, 2)
    ctx.corr[name] = stats
    if cases:
        ctx.samples.append({"correspondence": name, "case": cases[ctx.rng.randrange(len(cases))]})


def safe_judge(judge, c, op, cfg, raw):
    if judge is None:
        return None
    try:
        return judge(c, op, cfg, raw)
    except (TypeError, ValueError, IndexError, KeyError, ZeroDivisionError) as exc:
        txt = json.dumps(raw, default=str)
        if "inf" in txt or "nan" in txt:
            return "the implementation returned a non-finite value"
        return "the implementation returned a malformed result (%r)" % (exc,)


def sweep(ctx, name, cases, ops, judge, configs=("pure", "speedup"), known=None):
    """Support sweep (NOT proof): the property statement evaluated on the implementation with the
    exact-rational oracle.  Can only add violations / known findings."""
    t0 = time.time()
    stats = {"cases": len(cases), "kind": "support sweep (implementation vs exact specification), not proof",
             "failures": 0, "known": 0}
    for cfg in configs:
        jobs = []
        for c in cases:
            for (op, argsfn) in ops:
                jobs.append({"op": op, "args": argsfn(c)})
        try:
            raw = run_impl_parallel(cfg, jobs)
        except RuntimeError as exc:
            ctx.violations.append({"kind": "implementation-run-failed", "sweep": name, "config": cfg,
                                   "detail": str(exc)[-2000:], "no_input": True})
            continue
        for ci, c in enumerate(cases):
            for oi, (op, _a) in enumerate(ops):
                r = raw[ci * len(ops) + oi]
                args_ = _a(c)
                verdict = safe_judge(judge, c, op, cfg, r)
                if verdict:
                    sig = known(c, op, cfg, r) if known else None
                    if sig:
                        stats["known"] += 1
                        if sig not in ctx.known_hits:
                            ctx.known_hits.append(sig)
                        continue
                    stats["failures"] += 1
                    if stats["failures"] <= 5:
                        ctx.violations.append({"kind": "property-fails-on-implementation", "sweep": name, "config": cfg,
                                               "op": op, "case": c, "implementation_returned": r, "job": {"op": op, "args": args_}, "verdict": verdict})
    stats["wall_s"] = round(time.time() - t0, 2)
    ctx.corr["sweep:" + name] = stats


def finish(ctx, level_note, search=None, unproved=()):
    """Write evidence, print KNOWN-FINDING / VIOLATION lines, return exit code."""
    failed = [o for o in ctx.obligations if not o[1]]
    rc = 0
    # a broken obligation without any concrete failing input: search, then report
    if failed and not any(not v.get("no_input") for v in ctx.violations):
        found = None
        if search:
            try:
                found = search(ctx)
            except Exception as exc:  # the search must never mask the failure
                ctx.notes.append("search crashed: %r" % (exc,))
        if found:
            ctx.violations.append(dict(found, kind="property-fails-on-implementation (found by search)",
                                       broken_obligations=[o[0] for o in failed]))
        else:
            ctx.violations.append({"kind": "proof-obligation-broken", "no_input": True,
                                   "broken_obligations": [(o[0], o[2][-1500:]) for o in failed]})
    for sig in sorted(set(ctx.known_hits)):
        log("KNOWN-FINDING: property=%s %s" % (ctx.pid, sig))
    # concrete ones first
    vs = sorted(ctx.violations, key=lambda v: bool(v.get("no_input")))
    lines = []
    if vs:
        rc = 1
        # one replay file per violation kind (at most 5)
        for v in vs[:5]:
            path = write_replay(ctx.pid, v)
            suffix = " no-failing-input-found" if v.get("no_input") else ""
            lines.append("VIOLATION property=%s replay=%s%s" % (ctx.pid, path, suffix))
    total = len(ctx.obligations)
    done = len([o for o in ctx.obligations if o[1]])
    evaluations = sum(s.get("compared", 0) + (s.get("cases", 0) if k.startswith("sweep:") else 0) for k, s in ctx.corr.items())
    coverage = {
        "obligations": max(total, 1), "discharged": done,
        "checker_cmd": "cd /verif/coq && make (full .vo build of the dependency cone) && " + getattr(ctx, "checker_cmd", "coqc Props"),
        "trusted_base": TRUSTED_BASE + ["axioms per theorem (Print Assumptions): " + json.dumps(ctx.axioms, sort_keys=True)],
        "theorems": [o[0] for o in ctx.obligations if o[1]],
        "failed_obligations": [o[0] for o in ctx.obligations if not o[1]],
        "unproved_part_of_property": list(unproved),
        "correspondence": ctx.corr,
        "evaluations": max(evaluations, 1),
        "distinct_nontrivial": sum(s.get("distinct_nontrivial", 0) for s in ctx.corr.values()),
        "rule": "exact-input correspondence: dyadic inputs within the per-algorithm bit budget; a case is non-trivial when the net is not constant and the parameter is not 0/1 (per-correspondence rule in `correspondence`)",
        "samples": ctx.samples[:6] or [{"note": "no correspondence cases in this run"}],
        "known_findings_hit": sorted(set(ctx.known_hits)),
        "notes": ctx.notes,
    }
    write_evidence(ctx.pid, ctx.tier, ctx.seed, coverage, [level_note] + ctx.assumptions,
                   time.time() - ctx.t0, len(vs))
    for l in lines:
        log(l)
    if rc == 0:
        log("OK property=%s obligations=%d/%d correspondence_cases=%d wall=%.1fs" % (ctx.pid, done, total, evaluations, time.time() - ctx.t0))
    return rc
