"""Exact-rational re-statement of the SPECIFICATIONS (never of the algorithms): used only
(a) to judge whether a disagreement between model and implementation is a violation of
the property on that input and (b) by the failing-input search.  Cross-checked against the
Coq specs by the correspondence runs (the Coq model is the judge of record)."""
from fractions import Fraction
from math import comb, factorial


def bernstein(v, s):
    """sum_j C(n,j) s^j (1-s)^(n-j) v_j for one coordinate row v."""
    n = len(v) - 1
    s = Fraction(s)
    return sum(comb(n, j) * s ** j * (1 - s) ** (n - j) * v[j] for j in range(n + 1))


def bernstein_abs(v, s):
    n = len(v) - 1
    s = Fraction(s)
    return sum(abs(comb(n, j) * s ** j * (1 - s) ** (n - j)) * abs(v[j]) for j in range(n + 1))


def bernstein2(v, l1, l2):
    n = len(v) - 1
    return sum(comb(n, j) * l1 ** (n - j) * l2 ** j * v[j] for j in range(n + 1))


def bernstein2_abs(v, l1, l2):
    n = len(v) - 1
    return sum(abs(comb(n, j) * l1 ** (n - j) * l2 ** j) * abs(v[j]) for j in range(n + 1))


def poly_mul(p, q):
    out = [Fraction(0)] * (len(p) + len(q) - 1)
    for i, a in enumerate(p):
        for j, b in enumerate(q):
            out[i + j] += a * b
    return out


def poly_pow(p, k):
    out = [Fraction(1)]
    for _ in range(k):
        out = poly_mul(out, p)
    return out


def to_power(v):
    """Bernstein row -> power-basis coefficients."""
    n = len(v) - 1
    out = [Fraction(0)] * (n + 1)
    for j in range(n + 1):
        term = poly_mul(poly_pow([Fraction(0), Fraction(1)], j), poly_pow([Fraction(1), Fraction(-1)], n - j))
        for k, c in enumerate(term):
            out[k] += comb(n, j) * v[j] * c
    return out


def from_power(p, n):
    """power coefficients (degree <= n) -> Bernstein row of degree n."""
    p = list(p) + [Fraction(0)] * (n + 1 - len(p))
    return [sum(Fraction(comb(j, k), comb(n, k)) * p[k] for k in range(j + 1)) for j in range(n + 1)]


def compose_affine(p, a, b):
    """coefficients of p(a + (b-a) x)"""
    lin = [Fraction(a), Fraction(b) - Fraction(a)]
    out = [Fraction(0)]
    for k, c in enumerate(p):
        term = [c * t for t in poly_pow(lin, k)]
        out = [x + y for x, y in zip(out + [Fraction(0)] * (len(term) - len(out)), term + [Fraction(0)] * (len(out) - len(term)))]
    return out


def specialize(v, a, b):
    """Exact control points of sigma -> B(a + (b-a) sigma) (definition via the polynomial)."""
    n = len(v) - 1
    return from_power(compose_affine(to_power(v), a, b), n)


def elevate(v):
    n = len(v) - 1
    return [v[0]] + [Fraction(j, n + 1) * v[j - 1] + Fraction(n + 1 - j, n + 1) * v[j] for j in range(1, n + 1)] + [v[n]]


def elevation_matrix(n):
    """(n+1) x (n+2): row i = coefficients of v_i in the elevated nodes."""
    m = [[Fraction(0)] * (n + 2) for _ in range(n + 1)]
    for i in range(n + 1):
        e = [Fraction(1 if k == i else 0) for k in range(n + 1)]
        w = elevate(e)
        for j in range(n + 2):
            m[i][j] = w[j]
    return m


def tri_index(d, i, j, k):
    """position of control point with exponents (i,j,k) of (l1,l2,l3), i+j+k=d."""
    # rows bottom-to-top by k; within a row left-to-right by j
    return sum(d + 1 - kk for kk in range(k)) + j


def tri_bernstein(v, d, l1, l2, l3):
    tot = Fraction(0)
    for k in range(d + 1):
        for j in range(d + 1 - k):
            i = d - j - k
            c = factorial(d) // (factorial(i) * factorial(j) * factorial(k))
            tot += c * l1 ** i * l2 ** j * l3 ** k * v[tri_index(d, i, j, k)]
    return tot


def tri_bernstein_abs(v, d, l1, l2, l3):
    tot = Fraction(0)
    for k in range(d + 1):
        for j in range(d + 1 - k):
            i = d - j - k
            c = factorial(d) // (factorial(i) * factorial(j) * factorial(k))
            tot += abs(c * l1 ** i * l2 ** j * l3 ** k) * abs(v[tri_index(d, i, j, k)])
    return tot
