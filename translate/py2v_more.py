"""py2v part 2: scalar decision functions of the Python sources -> Gallina over the dynamic
value type Base/PyVal.v (numbers are exact rationals).  Fail-closed: anything outside the supported
subset makes the function untranslatable, and the generated file then contains a line that does
not compile, so every obligation mentioning it is reported as not checkable.

Supported subset: assignments (also tuple-unpacking), if / elif / else, return (tuples, None, enums, booleans),
raise, arithmetic / comparison (also chained) / boolean expressions, abs, min, max, indexing
v[i], m[i, j], m[:, j], np.vdot, np.abs, np.min/max(., axis=1), np.all(a <= b), np.asfortranarray([...]),
calls to other translated functions of the same run, module-level numeric constants.
"""
import ast
import os
from fractions import Fraction

import py2v

FAILURES = []
FN_ORACLES = {}      # translated python function -> oracle names it takes as leading parameters
ORACLE_ARITY = {}
FN_ARITY = {}        # python function -> (number of parameters, number with defaults)


class Ctx:
    def __init__(self, modname, consts, known, oracles=(), emits=(), classes=()):
        self.modname = modname
        self.consts = consts      # module-level numeric constants name -> Fraction / tuple
        self.known = known        # python callee name -> coq name
        self.oracles = list(oracles)   # callee names that become function parameters (uninterpreted)
        self.emits = list(emits)       # callees whose call is the observable effect: call -> VTup [VEnum "emit"; args...]
        self.classes = list(classes)   # class names usable in `x.__class__ is C`
        self.used_oracles = []
        self.tmp = 0

    def fresh(self):
        self.tmp += 1
        return "t_%d" % self.tmp


def q_lit(fr):
    fr = Fraction(fr)
    return "(VQ (%d # %d))" % (fr.numerator, fr.denominator)


def ident(name):
    n = name.lstrip("_") or "u"
    if n in ("end", "in", "let", "fix", "fun", "match", "with", "then", "else", "if", "at", "as", "return", "type", "Type", "Set", "Prop", "forall", "exists", "left", "right", "top", "bottom", "val", "mod"):
        n = n + "_"
    return n


def callee_name(func):
    d = py2v.dotted(func)
    if d is None:
        raise py2v.Untranslatable("call target")
    return d


def expr(node, cx, env):
    """Python expression -> Coq term of type val."""
    if isinstance(node, ast.Constant):
        v = node.value
        if v is None:
            return "VNone"
        if isinstance(v, bool):
            return "(VB %s)" % ("true" if v else "false")
        if isinstance(v, (int, float)):
            if isinstance(v, float) and v != v:
                return "VNaN"
            return q_lit(Fraction(v))
        raise py2v.Untranslatable("constant %r" % (v,))
    if isinstance(node, ast.Name):
        if node.id in env:
            return env[node.id]
        if node.id in cx.consts and isinstance(cx.consts[node.id], Fraction):
            return q_lit(cx.consts[node.id])
        if node.id in cx.classes:
            return '(VEnum "%s")' % node.id
        raise py2v.Untranslatable("unbound name %s" % node.id)
    if isinstance(node, ast.Attribute):
        d = py2v.dotted(node)
        if d in ("np.nan", "numpy.nan"):
            return "VNaN"
        if d and d.split(".")[0] in ("BoxIntersectionType", "_py_geometric_intersection.BoxIntersectionType"):
            return '(VEnum "%s")' % node.attr
        if d and "." in d and d.rsplit(".", 1)[0].endswith("BoxIntersectionType"):
            return '(VEnum "%s")' % node.attr
        # attribute of an object-valued expression: x.attr, x.a.b
        base = node.value
        try:
            b = expr(base, cx, env)
        except py2v.Untranslatable:
            raise py2v.Untranslatable("attribute %s" % d)
        if node.attr == "shape":
            return "(vshape %s)" % b
        return '(vattr %s "%s")' % (b, node.attr)
    if isinstance(node, ast.UnaryOp):
        x = expr(node.operand, cx, env)
        if isinstance(node.op, ast.USub):
            return "(vneg %s)" % x
        if isinstance(node.op, ast.Not):
            return "(vnot %s)" % x
        if isinstance(node.op, ast.UAdd):
            return x
        raise py2v.Untranslatable("unary op")
    if isinstance(node, ast.BinOp):
        a = expr(node.left, cx, env)
        b = expr(node.right, cx, env)
        if isinstance(node.op, ast.Pow):
            base = py2v.ev(node, {k: v for k, v in cx.consts.items()})
            return q_lit(base)
        op = {ast.Add: "vadd", ast.Sub: "vsub_b", ast.Mult: "vmul", ast.Div: "vdiv"}.get(type(node.op))
        if op is None:
            raise py2v.Untranslatable("binary op")
        return "(%s %s %s)" % (op, a, b)
    if isinstance(node, ast.BoolOp):
        vals = [expr(v, cx, env) for v in node.values]
        op = "vand" if isinstance(node.op, ast.And) else "vor"
        out = vals[-1]
        for v in reversed(vals[:-1]):
            out = "(%s %s %s)" % (op, v, out)
        return out
    if isinstance(node, ast.Compare):
        terms = [expr(node.left, cx, env)] + [expr(c, cx, env) for c in node.comparators]
        parts = []
        for i, op in enumerate(node.ops):
            a, b = terms[i], terms[i + 1]
            if isinstance(op, ast.Lt):
                parts.append("(vlt %s %s)" % (a, b))
            elif isinstance(op, ast.LtE):
                parts.append("(vle %s %s)" % (a, b))
            elif isinstance(op, ast.Gt):
                parts.append("(vlt %s %s)" % (b, a))
            elif isinstance(op, ast.GtE):
                parts.append("(vle %s %s)" % (b, a))
            elif isinstance(op, ast.Eq):
                parts.append("(veq %s %s)" % (a, b))
            elif isinstance(op, ast.NotEq):
                parts.append("(vne %s %s)" % (a, b))
            elif isinstance(op, ast.Is) and isinstance(node.comparators[i], ast.Name) and node.comparators[i].id in cx.classes:
                parts.append('(veq %s (VEnum "%s"))' % (a, node.comparators[i].id))
            elif isinstance(op, ast.Is) and b == "VNone":
                parts.append("(veq %s VNone)" % a)
            elif isinstance(op, ast.IsNot) and b == "VNone":
                parts.append("(vne %s VNone)" % a)
            else:
                raise py2v.Untranslatable("comparison op")
        out = parts[-1]
        for p in reversed(parts[:-1]):
            out = "(vand %s %s)" % (p, out)
        return out
    if isinstance(node, ast.IfExp):
        return "(if truth %s then %s else %s)" % (expr(node.test, cx, env), expr(node.body, cx, env), expr(node.orelse, cx, env))
    if isinstance(node, (ast.Tuple, ast.List)):
        return "(VTup [%s])" % "; ".join(expr(e, cx, env) for e in node.elts)
    if isinstance(node, ast.Subscript):
        base = expr(node.value, cx, env)
        sl = node.slice
        if isinstance(sl, ast.Constant) and isinstance(sl.value, int) and sl.value >= 0:
            return "(vidx %s %d)" % (base, sl.value)
        if isinstance(sl, ast.UnaryOp) and isinstance(sl.op, ast.USub) and isinstance(sl.operand, ast.Constant) and sl.operand.value == 1:
            return "(vidx_last %s)" % base
        if isinstance(sl, ast.Tuple) and len(sl.elts) == 2:
            i, j = sl.elts
            if isinstance(i, ast.Constant) and isinstance(j, ast.Constant) and isinstance(i.value, int) and isinstance(j.value, int) and i.value >= 0 and j.value >= 0:
                return "(vidx2 %s %d %d)" % (base, i.value, j.value)
            if isinstance(i, ast.Slice) and i.lower is None and i.upper is None and i.step is None and isinstance(j, ast.Constant) and isinstance(j.value, int) and j.value >= 0:
                return "(vcol %s %d)" % (base, j.value)
            if isinstance(j, ast.Slice) and j.lower is None and j.upper is None and j.step is None and isinstance(i, ast.Constant) and isinstance(i.value, int) and i.value >= 0:
                return "(vidx %s %d)" % (base, i.value)
            if (isinstance(i, ast.Slice) and i.lower is None and i.upper is None and i.step is None and isinstance(j, ast.UnaryOp)
                    and isinstance(j.op, ast.USub) and isinstance(j.operand, ast.Constant) and j.operand.value == 1):
                return "(vcol_last %s)" % base
        raise py2v.Untranslatable("subscript form")
    if isinstance(node, ast.Call):
        if isinstance(node.func, ast.Attribute) and node.func.attr in ("reshape", "ravel"):
            return expr(node.func.value, cx, env)      # shape-only operations
        fn = callee_name(node.func)
        args = node.args
        kw = {k.arg: k.value for k in node.keywords}
        if fn == "np.empty" and args and isinstance(args[0], ast.Tuple) and len(args[0].elts) == 2:
            r, c = args[0].elts
            if isinstance(r, ast.Constant) and isinstance(c, ast.Constant) and c.value == 0:
                return "(VTup [%s])" % "; ".join(["(VTup [])"] * r.value)
        if fn in ("abs", "np.abs", "numpy.abs") and len(args) == 1:
            return "(vabs %s)" % expr(args[0], cx, env)
        if fn == "min" and len(args) == 2:
            return "(vmin %s %s)" % (expr(args[0], cx, env), expr(args[1], cx, env))
        if fn == "max" and len(args) == 2:
            return "(vmax %s %s)" % (expr(args[0], cx, env), expr(args[1], cx, env))
        if fn == "np.vdot" and len(args) == 2:
            return "(vdot %s %s)" % (expr(args[0], cx, env), expr(args[1], cx, env))
        if fn in ("np.asfortranarray", "np.array") and len(args) == 1:
            return expr(args[0], cx, env)
        if fn in ("np.min", "np.max") and len(args) == 1 and set(kw) == {"axis"} and isinstance(kw["axis"], ast.Constant) and kw["axis"].value == 1:
            return "(%s %s)" % ("np_min_axis1" if fn == "np.min" else "np_max_axis1", expr(args[0], cx, env))
        if fn == "np.all" and len(args) == 1 and isinstance(args[0], ast.Compare) and len(args[0].ops) == 1 and isinstance(args[0].ops[0], ast.LtE):
            return "(np_all_le %s %s)" % (expr(args[0].left, cx, env), expr(args[0].comparators[0], cx, env))
        if fn == "float" and len(args) == 1:
            return expr(args[0], cx, env)
        short = fn.split(".")[-1]
        if short in cx.emits and not kw:
            return '(VTup [(VEnum "emit_%s"); %s])' % (short, "; ".join(expr(a, cx, env) for a in args))
        if short in cx.oracles and not kw:
            if short not in cx.used_oracles:
                cx.used_oracles.append(short)
            return "(o_%s %s)" % (short, " ".join(expr(a, cx, env) for a in args))
        if short in cx.known and not kw:
            extra = []
            for o in FN_ORACLES.get(short, []):
                if o not in cx.used_oracles:
                    cx.used_oracles.append(o)
                extra.append("o_" + o)
            npar, ndef = FN_ARITY.get(short, (len(args), 0))
            target = cx.known[short]
            if ndef and len(args) == npar - ndef:
                target += "_default"
            elif len(args) != npar:
                raise py2v.Untranslatable("arity of call to %s" % short)
            return "(%s %s)" % (target, " ".join(extra + [expr(a, cx, env) for a in args]))
        raise py2v.Untranslatable("call to %s" % fn)
    raise py2v.Untranslatable("expression " + type(node).__name__)


def bind_targets(target, value_term, cx, env):
    """returns (list of (coqname, term)), updated env."""
    binds = []
    env = dict(env)
    if isinstance(target, ast.Name):
        nm = ident(target.id)
        binds.append((nm, value_term))
        env[target.id] = nm
        return binds, env
    if isinstance(target, (ast.Tuple, ast.List)):
        t = cx.fresh()
        binds.append((t, value_term))
        for i, el in enumerate(target.elts):
            if isinstance(el, ast.Name):
                if el.id == "_":
                    continue
                nm = ident(el.id)
                binds.append((nm, "(vidx %s %d)" % (t, i)))
                env[el.id] = nm
            elif isinstance(el, (ast.Tuple, ast.List)) and all(isinstance(e2, ast.Name) for e2 in el.elts):
                for k2, e2 in enumerate(el.elts):
                    nm = ident(e2.id)
                    binds.append((nm, "(vidx (vidx %s %d) %d)" % (t, i, k2)))
                    env[e2.id] = nm
            else:
                raise py2v.Untranslatable("nested unpacking")
        return binds, env
    raise py2v.Untranslatable("assignment target")


def stmts(body, cx, env, depth=0):
    """Statement list -> Coq term (continuation style: what follows an `if` is copied into both branches)."""
    if depth > 60:
        raise py2v.Untranslatable("too deep")
    if not body:
        return "VNone"      # falling off the end returns None
    st, rest = body[0], body[1:]
    if isinstance(st, ast.Expr) and isinstance(st.value, ast.Constant) and isinstance(st.value.value, str):
        return stmts(rest, cx, env, depth)
    if isinstance(st, ast.Return):
        return "VNone" if st.value is None else expr(st.value, cx, env)
    if isinstance(st, ast.Raise):
        name = "Exception"
        if isinstance(st.exc, ast.Call):
            name = (py2v.dotted(st.exc.func) or "Exception").split(".")[-1]
        elif isinstance(st.exc, ast.Name):
            name = st.exc.id
        return '(VErr "%s")' % name
    if isinstance(st, ast.Assign) and len(st.targets) == 1:
        binds, env2 = bind_targets(st.targets[0], expr(st.value, cx, env), cx, env)
        inner = stmts(rest, cx, env2, depth + 1)
        for nm, term in reversed(binds):
            inner = "let %s := %s in\n%s" % (nm, term, inner)
        return inner
    if isinstance(st, ast.AugAssign) and isinstance(st.target, ast.Name):
        binop = ast.BinOp(left=ast.Name(id=st.target.id, ctx=ast.Load()), op=st.op, right=st.value)
        return stmts([ast.Assign(targets=[ast.Name(id=st.target.id, ctx=ast.Store())], value=binop)] + rest, cx, env, depth)
    if isinstance(st, ast.If):
        test = expr(st.test, cx, env)
        a = stmts(list(st.body) + rest, cx, env, depth + 1)
        b = stmts(list(st.orelse) + rest, cx, env, depth + 1)
        return "(if truth %s then\n%s\nelse\n%s)" % (test, a, b)
    if isinstance(st, ast.Pass):
        return stmts(rest, cx, env, depth)
    if isinstance(st, ast.Expr) and isinstance(st.value, ast.Call):
        short = callee_name(st.value.func).split(".")[-1]
        if short in cx.emits:
            # the observable effect of the function: collected into a list with whatever follows
            tail = stmts(rest, cx, env, depth + 1)
            return "(vcons %s %s)" % (expr(st.value, cx, env), tail)
        if short in cx.known:
            # a call made for its effects only: its emissions come first
            tail = stmts(rest, cx, env, depth + 1)
            return "(vappend %s %s)" % (expr(st.value, cx, env), tail)
    raise py2v.Untranslatable("statement " + type(st).__name__)


def translate_function(fn, cx, coqname, defaults=None):
    cx.used_oracles = []
    args = [a.arg for a in fn.args.args]
    env = {}
    params = []
    ndef = len(fn.args.defaults)
    for i, a in enumerate(args):
        nm = ident(a)
        env[a] = nm
        params.append(nm)
    body = stmts(list(fn.body), cx, env)
    # arities of the oracles actually used
    opar = ""
    for o in cx.used_oracles:
        ar = ORACLE_ARITY[o]
        opar += " (o_%s : %sval)" % (o, "val -> " * ar)
    text = "Definition %s%s (%s : val) : val :=\n%s.\n" % (coqname, opar, " ".join(params), body)
    # default arguments become a second definition with the defaults filled in
    if ndef:
        dvals = []
        for dnode in fn.args.defaults:
            dvals.append(q_lit(py2v.ev(dnode, cx.consts)))
        free = params[: len(params) - ndef]
        text += "Definition %s_default (%s : val) : val := %s %s.\n" % (coqname, " ".join(free), coqname, " ".join(free + dvals))
    return text


HEADER = ("(* GENERATED by translate/py2v_more.py from %s -- do not edit; regenerated on every run *)\n"
          "From Coq Require Import List ZArith QArith String.\nFrom BZ Require Import Base.PyVal.\n"
          "Import ListNotations.\nLocal Open Scope Q_scope.\nLocal Open Scope string_scope.\n\n")

# (source file, output file, [(python function, coq name)], imports of earlier generated files)
PLAN = [
    {"src": "hazmat/helpers.py", "out": "PyFnHelpers.v",
     "fns": ["in_interval", "cross_product", "wiggle_interval", "solve2x2", "bbox", "contains_nd"], "imports": []},
    {"src": "hazmat/geometric_intersection.py", "out": "PyFnGeometric.v",
     "fns": ["bbox_intersect", "segment_intersection", "parallel_lines_parameters", "line_line_collide", "bbox_line_intersect"],
     "imports": ["PyFnHelpers"]},
    {"src": "hazmat/triangle_helpers.py", "out": "PyFnTriangle.v", "fns": ["two_by_two_det"], "imports": []},
    {"src": "hazmat/triangle_intersection.py", "out": "PyFnTriangleIntersection.v", "fns": ["newton_refine_solve"], "imports": []},
    # the pieces of the geometric pipeline through which every reported parameter pair has to pass.
    # Array-level helpers are uninterpreted ORACLES (function parameters); the call that records an
    # intersection is the observable effect (emit).
    {"src": "hazmat/geometric_intersection.py", "out": "PyFnIntersect.v",
     "fns": ["check_lines", "coincident_parameters", "endpoint_check", "tangent_bbox_intersection", "from_linearized"],
     "imports": ["PyFnHelpers", "PyFnGeometric"],
     "oracles": {"make_same_degree": 2, "locate_point": 2, "specialize_curve": 3, "vector_close": 2,
                 "convex_hull_collide": 2, "full_newton": 4},
     "emits": ["add_intersection"], "classes": ["Linearization"]},
    # Bezier clipping: the implicit line of the fat line and the per-chord update of the clipped range (the loops around them are
    # modelled by hand in Model/Clip.v and tied by correspondence)
    {"src": "hazmat/clipping.py", "out": "PyFnClipping.v", "fns": ["compute_implicit_line", "_update_parameters"],
     "imports": ["PyFnHelpers", "PyFnGeometric"]},
    # algebraic strategy: implicitization (degree 1, 2 explicit; degree 3 through the oracle _evaluate3 = a 6x6 determinant),
    # the interpolation formulas (the sampled function is an oracle), Bernstein -> power basis
    {"src": "hazmat/algebraic_intersection.py", "out": "PyFnAlgebraic.v",
     "fns": ["evaluate", "_to_power_basis11", "_to_power_basis12", "_to_power_basis13", "_to_power_basis_degree4", "poly_to_power_basis",
             "to_power_basis"],
     "imports": [], "oracles": {"_evaluate3": 3, "eval_intersection_polynomial": 3, "_to_power_basis23": 2, "_to_power_basis_degree8": 2,
                                "_to_power_basis33": 2}, "emits": [], "classes": []},
]


def generate():
    out = {}
    known = {}
    for ent in PLAN:
        relpath, outname, names, imports = ent["src"], ent["out"], ent["fns"], ent["imports"]
        try:
            tree = py2v.parse(relpath)
            consts, _ = py2v.module_constants(tree)
            cx = Ctx(outname, consts, known, oracles=ent.get("oracles", {}), emits=ent.get("emits", ()), classes=ent.get("classes", ()))
            ORACLE_ARITY.update(ent.get("oracles", {}))
            text = [HEADER % relpath]
            for imp in imports:
                text.append("From BZ Require Import Gen.%s.\n" % imp)
            for name in names:
                try:
                    fn = py2v.find_func(tree, name)
                    coqname = "py_" + name
                    text.append("\n" + translate_function(fn, cx, coqname))
                    known[name] = coqname
                    FN_ORACLES[name] = list(cx.used_oracles)
                    FN_ARITY[name] = (len(fn.args.args), len(fn.args.defaults))
                except (py2v.Untranslatable, KeyError, IndexError, AttributeError) as exc:
                    msg = repr(exc).replace("*)", "* )").replace("(*", "( *")
                    text.append("\n(* %s: UNTRANSLATABLE %s *)\nUntranslatable_%s.\n" % (name, msg, name))
                    FAILURES.append((outname + ":" + name, repr(exc)))
            out[outname] = "".join(text)
        except (SyntaxError, OSError) as exc:
            FAILURES.append((outname, repr(exc)))
    return out
