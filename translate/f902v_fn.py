#!/usr/bin/env python3
"""f902v_fn: scalar Fortran kernels -> Gallina over Base/PyVal.v `val` (fail-closed), into coq/Gen/F90Fn.v.

The same target language as py2v_more, so that `f90_X = py_X` is a statement Coq can check (Theory/Twins.v).
Supported subset (what the translated routines use): subroutines / functions whose body consists of assignments to scalars,
2-vectors (elementwise + -) and array elements with literal indices, `call` of an already translated subroutine,
if / else if / else / end if, `return`; expressions with + - * /, comparisons, .AND. .OR. .NOT., literals (_dp), named module
constants, literal-index element access, dot_product, minval/maxval(x, 2), any(a < b), abs, min, ieee_value(.., ieee_quiet_nan).
Integer size arguments (num_nodes, dimension_) are dropped.  Out-arguments are returned as a tuple in declaration order;
an out-argument that is not assigned on a path is returned as None (Fortran leaves it undefined; Python returns None there).
"""
import os
import re
import sys
from fractions import Fraction

REPO = os.environ.get("BEZIER_REPO", "/repo")
F90 = os.path.join(REPO, "src/fortran")

# (file, routine, coq name, module constants it may use)
PLAN = [
    ("helpers.f90", "cross_product", "f90_cross_product"),
    ("helpers.f90", "bbox", "f90_bbox"),
    ("helpers.f90", "wiggle_interval", "f90_wiggle_interval"),
    ("helpers.f90", "contains_nd", "f90_contains_nd"),
    ("helpers.f90", "in_interval", "f90_in_interval"),
    ("curve_intersection.f90", "bbox_intersect", "f90_bbox_intersect"),
    ("curve_intersection.f90", "segment_intersection", "f90_segment_intersection"),
    ("curve_intersection.f90", "parallel_lines_parameters", "f90_parallel_lines_parameters"),
    ("helpers.f90", "solve2x2", "f90_solve2x2"),
    ("curve_intersection.f90", "line_line_collide", "f90_line_line_collide"),
    ("curve_intersection.f90", "bbox_line_intersect", "f90_bbox_line_intersect"),
    ("triangle_intersection.f90", "newton_refine_solve", "f90_newton_refine_solve"),
]
CONSTS = {"WIGGLE": "(VQ f90_helpers_WIGGLE)",
          "BoxIntersectionType_DISJOINT": '(VEnum "DISJOINT")', "BoxIntersectionType_TANGENT": '(VEnum "TANGENT")',
          "BoxIntersectionType_INTERSECTION": '(VEnum "INTERSECTION")'}
DROP_ARGS = {"num_nodes", "num_nodes1", "num_nodes2", "dimension_", "num_values"}


class Bad(Exception):
    pass


def logical_lines(text):
    out, cur = [], ""
    for raw in text.splitlines():
        line = raw.split("!")[0].rstrip()
        if not line.strip():
            continue
        s = line.strip()
        if s.startswith("&"):
            s = s[1:].lstrip()
        if s.endswith("&"):
            cur += s[:-1] + " "
            continue
        out.append((cur + s).strip())
        cur = ""
    return out


def find_routine(lines, name):
    start = None
    for i, l in enumerate(lines):
        if re.match(r"^(?:pure\s+)?(?:[a-z_]+\([a-z_]+\)\s+)?(?:pure\s+)?(subroutine|function)\s+%s\s*\(" % re.escape(name), l):
            start = i
        elif start is not None and re.match(r"^end\s+(subroutine|function)\s+%s\b" % re.escape(name), l):
            return lines[start:i]
    raise Bad("routine %s not found" % name)


TOK = re.compile(r"\s*(\d+\.\d*(?:_dp)?|\d+(?:_dp)?|\.[A-Za-z]+\.|<=|>=|==|/=|[-+*/()<>,:]|[A-Za-z_][A-Za-z_0-9]*)")


def tokenize(s):
    pos, out = 0, []
    s = s.strip()
    while pos < len(s):
        m = TOK.match(s, pos)
        if not m:
            raise Bad("cannot tokenize %r" % s[pos:])
        out.append(m.group(1))
        pos = m.end()
    return out


class Tr:
    """translation of one routine"""

    def __init__(self, name, lines, known):
        self.name = name
        self.known = known            # routine name -> (coqname, in-args count, out names)
        self.tmp = 0
        head = lines[0]
        m = re.search(r"(subroutine|function)\s+\w+\s*\(([^)]*)\)(?:\s*result\((\w+)\))?", head)
        if not m:
            raise Bad("header of %s" % name)
        self.kind = m.group(1)
        self.args = [a.strip() for a in m.group(2).split(",") if a.strip()]
        self.result = m.group(3)
        self.arrays = {}              # name -> dims (tuple of str)
        self.intent = {}
        body = []
        for l in lines[1:]:
            if re.match(r"^(integer|real|logical|double|complex|character)\b", l) and not re.match(
                    r"^(integer\(c_int\)|real\(c_double\)|logical\(c_bool\))\s*(?:,\s*intent\(\w+\))?\s*::", l):
                raise Bad("%s: declaration %r is not integer(c_int) / real(c_double) / logical(c_bool)" % (name, l))
            d = re.match(r"^(integer|real|logical)\s*\([^)]*\)\s*(?:,\s*intent\((\w+)\))?\s*::\s*(.*)$", l)
            if d:
                for item in re.findall(r"(\w+)(?:\(([^)]*)\))?", d.group(3)):
                    nm, dims = item
                    if dims:
                        self.arrays[nm] = tuple(x.strip() for x in dims.split(","))
                    if d.group(2):
                        self.intent[nm] = d.group(2)
                continue
            if re.match(r"^(use|implicit|bind)\b", l):
                continue
            body.append(l)
        self.body = body
        self.ins = [a for a in self.args if self.intent.get(a) == "in" and a not in DROP_ARGS]
        self.outs = [a for a in self.args if self.intent.get(a) == "out"]
        if self.kind == "function":
            self.outs = [self.result or name]
        for a in self.args:
            if a not in DROP_ARGS and a not in self.ins and a not in self.outs:
                raise Bad("%s: argument %s has no supported intent" % (name, a))

    def fresh(self, base):
        self.tmp += 1
        return "%s_%d" % (base, self.tmp)

    # ---------- expressions ----------
    def expr(self, toks, env):
        pos = [0]

        def peek():
            return toks[pos[0]] if pos[0] < len(toks) else None

        def take(expected=None):
            t = peek()
            if t is None or (expected is not None and t != expected):
                raise Bad("%s: expected %r, got %r in %r" % (self.name, expected, t, " ".join(toks)))
            pos[0] += 1
            return t

        def shape_of(raw):
            """symbolic extent of a whole-array operand from the DECLARATIONS: a bare array name, or minval/maxval(name, 2)"""
            if len(raw) == 1 and raw[0] in self.arrays:
                return tuple(self.arrays[raw[0]])
            if len(raw) == 6 and raw[0] in ("minval", "maxval") and raw[1] == "(" and raw[3] == "," and raw[4] == "2" and raw[5] == ")" \
                    and raw[2] in self.arrays and len(self.arrays[raw[2]]) == 2:
                return (self.arrays[raw[2]][0],)
            # sums / differences of whole arrays: every term must have the same declared extents
            parts, depth, cur = [], 0, []
            for tk in raw:
                if tk == "(":
                    depth += 1
                elif tk == ")":
                    depth -= 1
                if depth == 0 and tk in ("+", "-") and cur:
                    parts.append(cur)
                    cur = []
                elif not (depth == 0 and tk in ("+", "-")):
                    cur.append(tk)
            if cur:
                parts.append(cur)
            if len(parts) >= 2:
                shapes = [shape_of(q) for q in parts]
                if all(x is not None for x in shapes) and len(set(shapes)) == 1:
                    return shapes[0]
            return None

        def conform(what, ra, rb):
            """whole-array operands must have the same declared extents (an undersized dummy such as point(2) for
            point(dimension_) compiles, and silently compares fewer elements)"""
            sa, sb = shape_of(ra), shape_of(rb)
            if sa is None or sb is None:
                raise Bad("%s: cannot determine the declared extents of the operands of %s (%r, %r)" % (self.name, what, " ".join(ra), " ".join(rb)))
            if sa != sb:
                raise Bad("%s: operands of %s have different declared extents: %r is %r, %r is %r" % (
                    self.name, what, " ".join(ra), sa, " ".join(rb), sb))

        def p_or():
            a = p_and()
            while peek() is not None and peek().upper() == ".OR.":
                take()
                a = "(vor %s %s)" % (a, p_and())
            return a

        def p_and():
            a = p_not()
            while peek() is not None and peek().upper() == ".AND.":
                take()
                a = "(vand %s %s)" % (a, p_not())
            return a

        def p_not():
            if peek() is not None and peek().upper() == ".NOT.":
                take()
                return "(vnot %s)" % p_not()
            return p_cmp()

        def p_cmp():
            a = p_add()
            t = peek()
            if t in ("<", "<=", ">", ">=", "==", "/="):
                take()
                b = p_add()
                return {"<": "(vlt %s %s)" % (a, b), "<=": "(vle %s %s)" % (a, b), ">": "(vlt %s %s)" % (b, a),
                        ">=": "(vle %s %s)" % (b, a), "==": "(veq %s %s)" % (a, b), "/=": "(vne %s %s)" % (a, b)}[t]
            return a

        def p_add():
            if peek() == "-":
                take()
                a = "(vneg %s)" % p_mul()
            else:
                a = p_mul()
            while peek() in ("+", "-"):
                op = take()
                b = p_mul()
                a = "(%s %s %s)" % ("vadd" if op == "+" else "vsub_b", a, b)
            return a

        def p_mul():
            a = p_un()
            while peek() in ("*", "/"):
                op = take()
                b = p_un()
                a = "(%s %s %s)" % ("vmul" if op == "*" else "vdiv", a, b)
            return a

        def p_un():
            if peek() == "-":
                take()
                return "(vneg %s)" % p_un()
            return p_prim()

        def p_prim():
            t = take()
            if t == "(":
                a = p_or()
                take(")")
                return a
            if re.match(r"^\d", t):
                v = Fraction(t.replace("_dp", ""))
                return "(VQ (%d # %d))" % (v.numerator, v.denominator)
            u = t.upper()
            if u == ".TRUE.":
                return "(VB true)"
            if u == ".FALSE.":
                return "(VB false)"
            if not re.match(r"^[A-Za-z_]", t):
                raise Bad("%s: unexpected token %r" % (self.name, t))
            if peek() == "(":
                take("(")
                if t in ("minval", "maxval"):
                    a = p_or()
                    take(",")
                    if take() != "2":
                        raise Bad("%s: %s along a dimension other than 2" % (self.name, t))
                    take(")")
                    return "(%s %s)" % ("np_min_axis1" if t == "minval" else "np_max_axis1", a)
                if t == "dot_product":
                    p0 = pos[0]
                    a = p_or()
                    p1 = pos[0]
                    take(",")
                    b = p_or()
                    conform("dot_product", toks[p0:p1], toks[p1 + 1:pos[0]])
                    take(")")
                    return "(vdot %s %s)" % (a, b)
                if t == "any":
                    p0 = pos[0]
                    a = p_add()
                    p1 = pos[0]
                    op = take()
                    b = p_add()
                    conform("any(. %s .)" % op, toks[p0:p1], toks[p1 + 1:pos[0]])
                    take(")")
                    if op != "<":
                        raise Bad("%s: any() of %r" % (self.name, op))
                    return "(vnot (np_all_le %s %s))" % (b, a)        # any(a < b) = not all(b <= a)
                if t == "abs":
                    a = p_or()
                    take(")")
                    return "(vabs %s)" % a
                if t == "min":
                    a = p_or()
                    take(",")
                    b = p_or()
                    take(")")
                    return "(vmin %s %s)" % (a, b)
                if t == "ieee_value":
                    take()                     # the mold argument (only its type matters; it may be unassigned)
                    take(",")
                    if take() != "ieee_quiet_nan":
                        raise Bad("%s: ieee_value" % self.name)
                    take(")")
                    return "VNaN"
                if t in self.known and self.known[t][4] == "function":
                    args = []
                    while True:
                        args.append(p_or())
                        if peek() == ",":
                            take(",")
                            continue
                        take(")")
                        break
                    return "(%s %s)" % (self.known[t][0], " ".join(args))
                if t in self.arrays and peek() == ":":
                    take(":")
                    take(",")
                    k = take()
                    take(")")
                    if not re.match(r"^\d+$", k) or t not in env:
                        raise Bad("%s: section of %s" % (self.name, t))
                    return "(vcol %s %d)" % (env[t], int(k) - 1)
                if t in self.arrays:
                    idx = []
                    while True:
                        k = take()
                        if not re.match(r"^\d+$", k):
                            raise Bad("%s: non-literal index of %s" % (self.name, t))
                        idx.append(int(k))
                        if peek() == ",":
                            take(",")
                            continue
                        take(")")
                        break
                    if (t, tuple(idx)) in env:
                        return env[(t, tuple(idx))]
                    if t not in env:
                        raise Bad("%s: %s read before assignment" % (self.name, t))
                    base = env[t]
                    if len(idx) == 1:
                        return "(vidx %s %d)" % (base, idx[0] - 1)
                    return "(vidx2 %s %d %d)" % (base, idx[0] - 1, idx[1] - 1)
                raise Bad("%s: call of %s in an expression" % (self.name, t))
            if t in CONSTS:
                return CONSTS[t]
            if t in env:
                return env[t]
            if t in self.arrays and len(self.arrays[t]) == 1 and re.match(r"^\d+$", self.arrays[t][0]):
                n = int(self.arrays[t][0])
                if all((t, (i,)) in env for i in range(1, n + 1)):
                    return "(VTup [%s])" % "; ".join(env[(t, (i,))] for i in range(1, n + 1))
            raise Bad("%s: %s read before assignment" % (self.name, t))
        out = p_or()
        if pos[0] != len(toks):
            raise Bad("%s: trailing tokens in %r" % (self.name, " ".join(toks)))
        return out

    # ---------- statements ----------
    def final(self, env):
        vals = []
        for o in self.outs:
            if o in self.arrays and len(self.arrays[o]) == 2 and any((o, (i, j)) in env for i in (1, 2) for j in (1, 2)):
                el = lambda i, j: env.get((o, (i, j)), "VNone")
                vals.append("(VTup [(VTup [%s; %s]); (VTup [%s; %s])])" % (el(1, 1), el(1, 2), el(2, 1), el(2, 2)))
            else:
                vals.append(env.get(o, "VNone"))
        return vals[0] if len(vals) == 1 else "(VTup [%s])" % "; ".join(vals)

    def split_if(self, lines, i):
        """lines[i] is `if (...) then`; returns ([(cond or None, branch lines)], index after `end if`)"""
        branches = []
        depth = 0
        cond = re.match(r"^if\s*\((.*)\)\s*then$", lines[i]).group(1)
        cur = []
        j = i + 1
        while j < len(lines):
            l = lines[j]
            if re.match(r"^if\s*\(.*\)\s*then$", l):
                depth += 1
                cur.append(l)
            elif re.match(r"^end\s*if$", l):
                if depth == 0:
                    branches.append((cond, cur))
                    return branches, j + 1
                depth -= 1
                cur.append(l)
            elif depth == 0 and re.match(r"^else\s*if\s*\((.*)\)\s*then$", l):
                branches.append((cond, cur))
                cond = re.match(r"^else\s*if\s*\((.*)\)\s*then$", l).group(1)
                cur = []
            elif depth == 0 and l == "else":
                branches.append((cond, cur))
                cond = None
                cur = []
            else:
                cur.append(l)
            j += 1
        raise Bad("%s: unterminated if" % self.name)

    def stmts(self, lines, env, depth=0):
        if depth > 80:
            raise Bad("%s: too deep" % self.name)
        if not lines:
            return self.final(env)
        l, rest = lines[0], lines[1:]
        if l == "return":
            return self.final(env)
        if re.match(r"^if\s*\(.*\)\s*then$", l):
            branches, nxt = self.split_if(lines, 0)
            after = lines[nxt:]
            if branches[-1][0] is not None:
                branches.append((None, []))
            term = None
            for cond, blines in reversed(branches):
                b = self.stmts(list(blines) + after, dict(env), depth + 1)
                if cond is None:
                    term = b
                else:
                    term = "(if truth %s then\n%s\nelse\n%s)" % (self.expr(tokenize(cond), env), b, term)
            return term
        m = re.match(r"^call\s+(\w+)\s*\((.*)\)$", l)
        if m:
            callee = m.group(1)
            if callee not in self.known:
                raise Bad("%s: call of untranslated %s" % (self.name, callee))
            coqname, cargs, cins, couts, _kind = self.known[callee]
            actual, depth_, cur_ = [], 0, ""
            for ch in m.group(2):
                if ch == "(":
                    depth_ += 1
                elif ch == ")":
                    depth_ -= 1
                if ch == "," and depth_ == 0:
                    actual.append(cur_.strip())
                    cur_ = ""
                else:
                    cur_ += ch
            actual.append(cur_.strip())
            if len(actual) != len(cargs):
                raise Bad("%s: arity of call to %s" % (self.name, callee))
            ins = [self.expr(tokenize(a), env) for a, f in zip(actual, cargs) if f in cins]
            t = self.fresh("t")
            env = dict(env)
            binds = [(t, "(%s %s)" % (coqname, " ".join(ins)))]
            outs_actual = [a for a, f in zip(actual, cargs) if f in couts]
            for k, a in enumerate(outs_actual):
                v = self.fresh(re.sub(r"\W", "_", a))
                binds.append((v, t if len(outs_actual) == 1 else "(vidx %s %d)" % (t, k)))
                env[a] = v
            inner = self.stmts(rest, env, depth + 1)
            for nm, term in reversed(binds):
                inner = "let %s := %s in\n%s" % (nm, term, inner)
            return inner
        m = re.match(r"^(\w+)(?:\(([^)]*)\))?\s*=\s*(.*)$", l)
        if m:
            tgt, idx, rhs = m.group(1), m.group(2), m.group(3)
            val = self.expr(tokenize(rhs), env)
            v = self.fresh(tgt)
            env = dict(env)
            if idx:
                key = (tgt, tuple(int(x) for x in idx.split(",")))
                env[key] = v
            else:
                env[tgt] = v
                for k in [k for k in env if isinstance(k, tuple) and k[0] == tgt]:
                    del env[k]
            return "let %s := %s in\n%s" % (v, val, self.stmts(rest, env, depth + 1))
        raise Bad("%s: unsupported statement %r" % (self.name, l))

    def translate(self, coqname):
        env = {a: a + "_" if a in ("end", "left", "right", "top", "bottom") else a for a in self.ins}
        params = [env[a] for a in self.ins]
        body = self.stmts(self.body, env)
        return "Definition %s (%s : val) : val :=\n%s.\n" % (coqname, " ".join(params), body)


def generate():
    texts = {}
    known = {}
    out = ["(* GENERATED by translate/f902v_fn.py from src/fortran/*.f90 -- do not edit; regenerated on every run *)\n",
           "From Coq Require Import List ZArith QArith String.\nFrom BZ Require Import Base.PyVal Gen.F90Const.\n",
           "Import ListNotations.\nLocal Open Scope Q_scope.\nLocal Open Scope string_scope.\n"]
    failures = []
    for fname, rname, coqname in PLAN:
        try:
            if fname not in texts:
                texts[fname] = logical_lines(open(os.path.join(F90, fname)).read())
            tr = Tr(rname, find_routine(texts[fname], rname), known)
            out.append("\n(* %s: %s(%s) -> (%s) *)\n" % (fname, rname, ", ".join(tr.ins), ", ".join(tr.outs)))
            out.append(tr.translate(coqname))
            known[rname] = (coqname, tr.args, tr.ins, tr.outs, tr.kind)
        except (Bad, OSError, AttributeError, IndexError, KeyError, ValueError) as exc:
            msg = str(exc).replace("*)", "* )").replace("(*", "( *")
            out.append("\n(* %s: UNTRANSLATABLE %s *)\nUntranslatable_%s.\n" % (rname, msg, rname))
            failures.append((rname, str(exc)))
    return "".join(out), failures



# ---------------------------------------------------------------------------------------------------------------------
# closed forms of curve.f90 specialize_curve (2 nodes, inline) and specialize_curve_quadratic (3 nodes): translated to the GENERIC
# arithmetic record (Base/Ops.v), one coordinate row at a time (the Fortran acts on whole columns with scalar coefficients), so that
# `= specialize K [v1; ..] start end` is a ring identity Coq can check for every ring (Theory/Twins.v)
def ops_expr(src, env):
    toks = re.findall(r"\d+\.\d*(?:_dp)?|\d+(?:_dp)?|nodes\(:,\s*\d+\)|[A-Za-z_][A-Za-z_0-9]*|[-+*()]", src.replace(" ", ""))
    if "".join(toks) != src.replace(" ", ""):
        raise Bad("closed form: cannot tokenize %r" % src)
    pos = [0]

    def peek():
        return toks[pos[0]] if pos[0] < len(toks) else None

    def take():
        t = toks[pos[0]]
        pos[0] += 1
        return t

    def add():
        a = mul()
        while peek() in ("+", "-"):
            op = take()
            a = "(%s K %s %s)" % ("oadd" if op == "+" else "osub", a, mul())
        return a

    def mul():
        a = prim()
        while peek() == "*":
            take()
            a = "(omul K %s %s)" % (a, prim())
        return a

    def prim():
        t = take()
        if t == "(":
            a = add()
            if take() != ")":
                raise Bad("closed form: parenthesis")
            return a
        if re.match(r"^\d", t):
            v = Fraction(t.replace("_dp", ""))
            if v.denominator != 1 or v < 0:
                raise Bad("closed form: non-integer literal %s" % t)
            return "(o1 K)" if v == 1 else "(ofn K %d)" % v.numerator
        m = re.match(r"^nodes\(:,(\d+)\)$", t)
        if m:
            return "v%s" % m.group(1)
        if t in env:
            return env[t]
        raise Bad("closed form: unknown name %r" % t)
    out = add()
    if pos[0] != len(toks):
        raise Bad("closed form: trailing tokens in %r" % src)
    return out


def gen_specialize_closed():
    lines = logical_lines(open(os.path.join(F90, "curve.f90")).read())
    out = ["(* GENERATED by translate/f902v_fn.py from curve.f90 (specialize_curve, specialize_curve_quadratic) -- do not edit *)\n",
           "From Coq Require Import List.\nFrom BZ Require Import Base.Ops.\nImport ListNotations.\n\nSection F90Closed.\nContext {T : Type} (K : Ops T).\n"]
    # quadratic
    body = find_routine(lines, "specialize_curve_quadratic")
    env = {"start": "start", "end_": "end_"}
    lets, cols = [], {}
    for l in body[1:]:
        if re.match(r"^(integer|real|logical|double|complex)\b", l):
            if not re.match(r"^(integer\(c_int\)|real\(c_double\))\s*(?:,\s*intent\(\w+\))?\s*::", l):
                raise Bad("specialize_curve_quadratic: declaration %r is not integer(c_int) / real(c_double)" % l)
            continue
        m = re.match(r"^new_nodes\(:,\s*(\d+)\)\s*=\s*(.*)$", l)
        if m:
            cols[int(m.group(1))] = ops_expr(m.group(2), env)
            continue
        m = re.match(r"^(\w+)\s*=\s*(.*)$", l)
        if m:
            lets.append((m.group(1), ops_expr(m.group(2), env)))
            env[m.group(1)] = m.group(1)
            continue
        raise Bad("specialize_curve_quadratic: unsupported statement %r" % l)
    if sorted(cols) != [1, 2, 3]:
        raise Bad("specialize_curve_quadratic: columns %s" % sorted(cols))
    out.append("Definition f90_specialize_curve_quadratic (start end_ v1 v2 v3 : T) : list T :=\n%s  [%s].\n" % (
        "".join("  let %s := %s in\n" % lv for lv in lets), ";\n   ".join(cols[k] for k in (1, 2, 3))))
    # linear: the inline branch of specialize_curve; also check the dispatch shape
    body = find_routine(lines, "specialize_curve")
    txt = "\n".join(body)
    m = re.search(r"if \(num_nodes == 2\) then\n(.*?)\nelse if \(num_nodes == 3\) then\ncall specialize_curve_quadratic\(.*?\)\nelse\ncall specialize_curve_generic\(.*?\)\nend if", txt, re.S)
    if not m:
        raise Bad("specialize_curve: dispatch shape")
    cols = {}
    for l in m.group(1).splitlines():
        mm = re.match(r"^new_nodes\(:,\s*(\d+)\)\s*=\s*(.*)$", l)
        if not mm:
            raise Bad("specialize_curve: linear branch %r" % l)
        cols[int(mm.group(1))] = ops_expr(mm.group(2), {"start": "start", "end_": "end_"})
    if sorted(cols) != [1, 2]:
        raise Bad("specialize_curve: linear columns")
    out.append("Definition f90_specialize_curve_linear (start end_ v1 v2 : T) : list T :=\n  [%s;\n   %s].\n" % (cols[1], cols[2]))
    out.append("End F90Closed.\n")
    return "".join(out)


def main(outdir):
    text, failures = generate()
    path = os.path.join(outdir, "F90Fn.v")
    old = open(path).read() if os.path.exists(path) else None
    if old != text:
        open(path, "w").write(text)
    try:
        ctext = gen_specialize_closed()
    except (Bad, OSError, AttributeError, IndexError, KeyError, ValueError) as exc:
        ctext = "(* TRANSLATION FAILED: %s *)\nUntranslatable.\n" % str(exc).replace("*)", "* )")
        failures.append(("specialize closed forms", str(exc)))
    cpath = os.path.join(outdir, "F90Closed.v")
    if (open(cpath).read() if os.path.exists(cpath) else None) != ctext:
        open(cpath, "w").write(ctext)
    for n, w in failures:
        print("f902v_fn: UNTRANSLATABLE %s: %s" % (n, w))
    print("f902v_fn: wrote F90Fn.v (%s)" % ("changed" if old != text else "unchanged"))
    return 1 if failures else 0


if __name__ == "__main__":
    sys.exit(main(sys.argv[1] if len(sys.argv) > 1 else os.path.join(os.path.dirname(os.path.abspath(__file__)), "..", "coq", "Gen")))
