(* hazmat.geometric_intersection.linearization_error: hand model over Qc with the two literals read from the source.
   The Euclidean norm is not modelled: the model returns the SQUARE of the result. *)
From Coq Require Import List Arith QArith Qcanon.
From BZ Require Import Base.Ops Base.QcInst Gen.PyGeometricIntersection.
Import ListNotations.
Local Open Scope Qc_scope.

Definition qc_abs (x : Qc) : Qc := if Qle_bool 0 (this x) then x else - x.
Definition qc_max (a b : Qc) : Qc := if Qle_bool (this a) (this b) then b else a.
Fixpoint second_diffs (c : Qc) (v : list Qc) : list Qc :=
  match v with
  | a :: ((b :: c' :: _) as t) => (a - c * b + c') :: second_diffs c t
  | _ => []
  end.
Definition worst_case (v : list Qc) : Qc :=
  fold_right (fun x acc => qc_max (qc_abs x) acc) (Q2Qc 0) (second_diffs (Q2Qc linearization_second_diff_coeff) v).
Definition lin_error_sq (rows : list (list Qc)) : Qc :=
  match rows with
  | [] => Q2Qc 0
  | r :: _ =>
      let n := (length r - 1)%nat in
      if Nat.eqb n 1 then Q2Qc 0
      else let m := Q2Qc linearization_multiplier * Q2Qc (inject_Z (Z.of_nat n)) * Q2Qc (inject_Z (Z.of_nat (n - 1))) in
           m * m * fold_right (fun r acc => worst_case r * worst_case r + acc) (Q2Qc 0) rows
  end.
