(* Python entry points of triangle_helpers with constants read from the source. *)
From Coq Require Import List Arith QArith Qcanon.
From BZ Require Import Base.Ops Base.QcInst Model.Curve Model.CurvePy Model.Triangle
  Gen.PyCurveHelpers Gen.PyTriangleHelpers.
Import ListNotations.

Definition tri_evaluate_barycentric_py (d : nat) (v : list Qc) (l1 l2 l3 : Qc) : Qc :=
  tri_eval QcOps vs_max_nodes d v l1 l2 l3.
Definition tri_evaluate_cartesian_py (d : nat) (v : list Qc) (s t : Qc) : Qc :=
  tri_eval_cartesian QcOps vs_max_nodes d v s t.
Definition tri_edges_py (d : nat) (v : list Qc) : list Qc * list Qc * list Qc :=
  (edge1 d v, edge2 QcOps d v, edge3 QcOps d v).

(* Triangle._verify_barycentric / _verify_cartesian (exact-sum model: inputs whose sum is within
   NumPy's default rtol of 1 without being equal to 1 are outside the model and never generated) *)
Definition Qc_leb (a b : Qc) : bool := Qle_bool (this a) (this b).
Definition verify_bary_py (l1 l2 l3 : Qc) : bool :=
  Qc_eqb (l1 + l2 + l3) (Q2Qc 1) && Qc_leb (Q2Qc 0) l1 && Qc_leb (Q2Qc 0) l2 && Qc_leb (Q2Qc 0) l3.
Definition verify_cart_py (s t : Qc) : bool :=
  Qc_leb (Q2Qc 0) s && Qc_leb (Q2Qc 0) t && Qc_leb (s + t) (Q2Qc 1).
(* public single-point methods with verify=True: None = ValueError *)
Definition Triangle_evaluate_barycentric_py (d : nat) (v : list Qc) (l1 l2 l3 : Qc) : option Qc :=
  if verify_bary_py l1 l2 l3 then Some (tri_evaluate_barycentric_py d v l1 l2 l3) else None.
Definition Triangle_evaluate_cartesian_py (d : nat) (v : list Qc) (s t : Qc) : option Qc :=
  if verify_cart_py s t then Some (tri_evaluate_cartesian_py d v s t) else None.
