(* Python entry points of triangle_helpers with constants read from the source. *)
From Coq Require Import List Arith QArith Qcanon.
From BZ Require Import Base.Ops Base.QcInst Model.Curve Model.CurvePy Model.Triangle
  Gen.PyCurveHelpers Gen.PyTriangleHelpers.
Import ListNotations.

Definition tri_evaluate_barycentric_py (d : nat) (v : list Qc) (l1 l2 l3 : Qc) : Qc :=
  tri_eval QcOps vs_max_nodes d v l1 l2 l3.
Definition tri_evaluate_cartesian_py (d : nat) (v : list Qc) (s t : Qc) : Qc :=
  tri_eval_cartesian QcOps vs_max_nodes d v s t.
Definition tri_edges_py (d : nat) (v : list Qc) : list Qc * list Qc * list Qc :=
  (edge1 d v, edge2 QcOps d v, edge3 QcOps d v).

(* Triangle._verify_barycentric / _verify_cartesian (exact-sum model: inputs whose sum is within
   NumPy's default rtol of 1 without being equal to 1 are outside the model and never generated) *)
Definition Qc_leb (a b : Qc) : bool := Qle_bool (this a) (this b).
Definition verify_bary_py (l1 l2 l3 : Qc) : bool :=
  Qc_eqb (l1 + l2 + l3) (Q2Qc 1) && Qc_leb (Q2Qc 0) l1 && Qc_leb (Q2Qc 0) l2 && Qc_leb (Q2Qc 0) l3.
Definition verify_cart_py (s t : Qc) : bool :=
  Qc_leb (Q2Qc 0) s && Qc_leb (Q2Qc 0) t && Qc_leb (s + t) (Q2Qc 1).
(* public single-point methods with verify=True: None = ValueError *)
Definition Triangle_evaluate_barycentric_py (d : nat) (v : list Qc) (l1 l2 l3 : Qc) : option Qc :=
  if verify_bary_py l1 l2 l3 then Some (tri_evaluate_barycentric_py d v l1 l2 l3) else None.
Definition Triangle_evaluate_cartesian_py (d : nat) (v : list Qc) (s t : Qc) : option Qc :=
  if verify_cart_py s t then Some (tri_evaluate_cartesian_py d v s t) else None.

(* ---- subdivide_nodes (triangle): tables for the degrees listed in the source, otherwise
   specialize_triangle with the four weight triples read from the source.  Generic in the
   arithmetic K and the embedding of the translated constants. *)
Section Sub.
Context {T : Type} (K : Ops T) (emb : Q -> T).
Definition w3_of (l : list Q) : T * T * T :=
  match l with [a; b; c] => (emb a, emb b, emb c) | _ => (o0 K, o0 K, o0 K) end.
Definition tri_subdivide_generic (d : nat) (v : list T) : list (list T) :=
  map (fun w => let '(a, b, c) := w in specialize_tri K d v (w3_of a) (w3_of b) (w3_of c)) tri_subdivide_weights.
Definition tcols_gen (m : list (list Q)) : list (list T) := transpose (map (map emb) m).
Definition tri_subdivide_gen (d : nat) (v : list T) : list (list T) :=
  match lookup d tri_subdivide_dispatch with
  | Some (A, B, C, D) => [matvec K v (tcols_gen A); matvec K v (tcols_gen B); matvec K v (tcols_gen C); matvec K v (tcols_gen D)]
  | None => tri_subdivide_generic d v
  end.
End Sub.
Definition tri_subdivide_py (d : nat) (v : list Qc) : list (list Qc) := tri_subdivide_gen QcOps Q2Qc d v.
Definition tri_specialize_py (d : nat) (v : list Qc) (a b c : Qc * Qc * Qc) : list Qc := specialize_tri QcOps d v a b c.
