(* C14: the buffer protocol of the compiled curve-intersection entry point as a state machine.
   State: capacity of the Cython CURVES_WORKSPACE and, per column, whether it was written during the current call.
   The numerical algorithm is a Section variable `isect` (a pure function of the two control nets); what is modelled
   is everything AROUND it: which cells are written, which are copied out, when the workspace is replaced.  NO proofs. *)
From Coq Require Import List Arith Bool.
Import ListNotations.

Section WS.
Variable input : Type.
Variable pair : Type.
Variable isect : input -> list pair.        (* the intersections the Fortran routine finds, in its order *)

Inductive cell := Stale | Fresh (p : pair).
Record state := { cap : nat; cells : list cell }.       (* length cells = cap *)
Definition init : state := {| cap := 2; cells := [Stale; Stale] |}.
Definition fresh_ws (n : nat) : state := {| cap := n; cells := repeat Stale n |}.

Inductive op :=
| Intersect (x : input) (allow_resize : bool)
| Reset (n : nat)
| Free                                  (* frees the Fortran-side candidate buffers: no observable effect here *)
| QuerySize.
Inductive out :=
| Result (l : list pair)                (* what the caller receives *)
| TooSmall (needed available : nat)     (* ValueError(TOO_SMALL_TEMPLATE.format(num_intersections, intersections_size)) *)
| Size (n : nat)
| Done
| StaleRead.                            (* a cell not written during this call was handed to the caller: never happens *)

(* the Fortran routine writes the first min(k, cap) columns and reports k *)
Definition fortran_call (s : state) (x : input) : state * nat :=
  let r := isect x in
  ({| cap := cap s; cells := map Fresh (firstn (cap s) r) ++ skipn (length r) (cells s) |}, length r).
(* intersections[:, :] = CURVES_WORKSPACE[:, :num_intersections] *)
Fixpoint copy_out (k : nat) (c : list cell) : option (list pair) :=
  match k, c with
  | O, _ => Some []
  | S k', Fresh p :: c' => match copy_out k' c' with Some l => Some (p :: l) | None => None end
  | S _, _ => None
  end.
Definition call_once (s : state) (x : input) : state * (nat * option (list pair)) :=
  let '(s1, k) := fortran_call s x in
  if Nat.leb k (cap s) then (s1, (k, copy_out k (cells s1))) else (s1, (k, None)).
(* every call starts by forgetting what earlier calls wrote *)
Definition age (s : state) : state := {| cap := cap s; cells := map (fun _ => Stale) (cells s) |}.

Definition step (s : state) (o : op) : state * out :=
  match o with
  | QuerySize => (s, Size (cap s))
  | Free => (s, Done)
  | Reset n => (fresh_ws n, Done)
  | Intersect x allow =>
      let s0 := age s in
      let '(s1, (k, r)) := call_once s0 x in
      if Nat.leb k (cap s0) then
        (s1, match r with Some l => Result l | None => StaleRead end)
      else if allow then
        let '(s2, (k2, r2)) := call_once (fresh_ws k) x in
        (s2, match r2 with Some l => Result l | None => StaleRead end)
      else (s1, TooSmall k (cap s0))
  end.
Fixpoint run (s : state) (ops : list op) : state * list out :=
  match ops with
  | [] => (s, [])
  | o :: rest => let '(s1, r) := step s o in let '(s2, rs) := run s1 rest in (s2, r :: rs)
  end.
End WS.
