(* Triangle.elevate (src/python/bezier/triangle.py): hand model, gather form of the scatter loop.
   The loop adds (i+1) v_ijk, (j+1) v_ijk, (k+1) v_ijk into the three parents of every old node, divides everything by
   d + 1 and (since the fix 9d5afbe) copies the three corners.  v is in the documented order (k outer, j inner). *)
From Coq Require Import List Arith Bool.
From BZ Require Import Base.Ops Model.Curve Model.Triangle.
Import ListNotations.

Section M.
Context {T : Type} (K : Ops T).
Notation "0" := (o0 K).
Infix "+" := (oadd K). Infix "*" := (omul K). Infix "/" := (odiv K).

Definition tri_elev_entry (d : nat) (f : nat -> nat -> T) (j k : nat) : T :=
  if (Nat.eqb j 0 && Nat.eqb k 0)%bool then f 0%nat 0%nat
  else if (Nat.eqb j (S d) && Nat.eqb k 0)%bool then f d 0%nat
  else if (Nat.eqb j 0 && Nat.eqb k (S d))%bool then f 0%nat d
  else (ofn K (S d - j - k) * f j k + ofn K j * f (pred j) k + ofn K k * f j (pred k)) / ofn K (S d).

Definition tri_elevate (d : nat) (v : list T) : list T :=
  let rows := split_rows (S d) v in
  let f := fun j k => nth j (nth k rows []) 0 in
  concat (map (fun k => map (fun j => tri_elev_entry d f j k) (seq 0 (S (S d) - k))) (seq 0 (S (S d)))).
End M.
