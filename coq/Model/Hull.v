(* Hand-written executable models (over Q) of helpers.simple_convex_hull, is_separating,
   polygon_collide.  Points are pairs.  NO proofs here. *)
From Coq Require Import List ZArith QArith Qminmax Bool.
From BZ Require Import Base.PyVal.
Import ListNotations.
Open Scope Q_scope.

Definition pt := (Q * Q)%type.
Definition cross (a b : pt) : Q := fst a * snd b - snd a * fst b.
Definition psub (a b : pt) : pt := (fst a - fst b, snd a - snd b).
(* cross_product_compare(start, c1, c2) *)
Definition cpc (s c1 c2 : pt) : Q := cross (psub c1 s) (psub c2 s).

(* sorted(tuple(column) ...) after np.unique: lexicographic order, duplicates removed *)
Definition lex_lt (a b : pt) : bool := Qltb (fst a) (fst b) || (Qeqb (fst a) (fst b) && Qltb (snd a) (snd b)).
Definition pt_eqb (a b : pt) : bool := Qeqb (fst a) (fst b) && Qeqb (snd a) (snd b).
Fixpoint insert_u (p : pt) (l : list pt) : list pt :=
  match l with
  | [] => [p]
  | q :: l' => if pt_eqb p q then l else if lex_lt p q then p :: l else q :: insert_u p l'
  end.
Definition sort_unique (l : list pt) : list pt := fold_right insert_u [] l.

(* one step of a chain: pop while the turn is not strictly counter-clockwise, then push.
   The stack is kept with its top first. *)
Fixpoint pop_while (fuel : nat) (stack : list pt) (p : pt) : list pt :=
  match fuel, stack with
  | S f, p1 :: ((p0 :: _) as rest) => if Qltb 0 (cpc p0 p1 p) then stack else pop_while f rest p
  | _, _ => stack
  end.
Definition push (stack : list pt) (p : pt) : list pt := p :: pop_while (length stack) stack p.

(* lower chain over the sorted points; upper chain over the reversed points skipping the points
   already in the lower chain (except the very first point) *)
Definition lower_chain (pts : list pt) : list pt :=
  match pts with
  | p0 :: p1 :: rest => fold_left push rest [p1; p0]
  | _ => rev pts
  end.
Definition in_chain (p : pt) (chain : list pt) : bool := existsb (pt_eqb p) chain.
Definition upper_chain (pts lower : list pt) : list pt :=
  match rev pts with
  | last_pt :: rest =>
      let first_pt := hd last_pt pts in
      fold_left (fun st p => if negb (pt_eqb p first_pt) && in_chain p lower then st else push st p) rest [last_pt]
  | [] => []
  end.
Definition simple_convex_hull (points : list pt) : list pt :=
  let pts := sort_unique points in
  match pts with
  | [] => [] | [_] => pts | [_; _] => pts
  | _ =>
    let lower := lower_chain pts in            (* top first *)
    let upper := upper_chain pts lower in
    rev (tl lower) ++ rev (tl upper)           (* lower[:-1] ++ upper[:-1] *)
  end.

(* ---- is_separating / polygon_collide ---- *)
Definition proj (d v : pt) : Q := cross d v / (fst d * fst d + snd d * snd d).
Definition qmin_list (l : list Q) : option Q := match l with [] => None | x :: r => Some (fold_left Qmin r x) end.
Definition qmax_list (l : list Q) : option Q := match l with [] => None | x :: r => Some (fold_left Qmax r x) end.
Definition is_separating (d : pt) (p1 p2 : list pt) : bool :=
  match qmin_list (map (proj d) p1), qmax_list (map (proj d) p1), qmin_list (map (proj d) p2), qmax_list (map (proj d) p2) with
  | Some mn1, Some mx1, Some mn2, Some mx2 => Qltb mx2 mn1 || Qltb mx1 mn2
  | _, _, _, _ => false
  end.
(* directions polygon[:, index] - polygon[:, index - 1], index = 0 uses the last vertex *)
Definition edge_dirs (p : list pt) : list pt :=
  match p with
  | [] => []
  | _ => map (fun ab => psub (snd ab) (fst ab)) (combine (last p (0, 0) :: removelast p) p)
  end.
Definition polygon_collide (p1 p2 : list pt) : bool :=
  negb (existsb (fun d => is_separating d p1 p2) (edge_dirs p1 ++ edge_dirs p2)).

(* "inside the closed convex polygon given counter-clockwise": on the left of (or on) every directed edge *)
Definition left_of_all_edges (poly : list pt) (p : pt) : bool :=
  match poly with
  | [] => false
  | [q] => pt_eqb p q
  | [a; b] => (* a segment: collinear and between *)
      Qeqb (cpc a b p) 0 && Qle_bool (Qmin (fst a) (fst b)) (fst p) && Qle_bool (fst p) (Qmax (fst a) (fst b))
      && Qle_bool (Qmin (snd a) (snd b)) (snd p) && Qle_bool (snd p) (Qmax (snd a) (snd b))
  | _ => forallb (fun ab => Qle_bool 0 (cpc (fst ab) (snd ab) p)) (combine (last poly (0, 0) :: removelast poly) poly)
  end.
(* consecutive triples (cyclically) turn strictly counter-clockwise *)
Definition strictly_convex_ccw (poly : list pt) : bool :=
  match poly with
  | _ :: _ :: _ :: _ =>
      let prev := last poly (0, 0) :: removelast poly in
      let next := tl poly ++ [hd (0, 0) poly] in
      forallb (fun t => Qltb 0 (cpc (fst (fst t)) (snd (fst t)) (snd t))) (combine (combine prev poly) next)
  | _ => true
  end.
(* the returned polygon is THE convex hull: strictly convex, counter-clockwise, its vertices are input points,
   and every input point is inside it *)
Definition hull_ok (points : list pt) : bool :=
  let h := simple_convex_hull points in
  forallb (left_of_all_edges h) points && forallb (fun v => existsb (pt_eqb v) points) h && strictly_convex_ccw h
  && (match points with [] => true | _ => negb (Nat.eqb (length h) 0) end).

Definition lattice (k : nat) : list pt :=
  flat_map (fun i => map (fun j => (inject_Z (Z.of_nat i), inject_Z (Z.of_nat j))) (seq 0 k)) (seq 0 k).
Fixpoint seqs_exact (n : nat) (al : list pt) : list (list pt) :=
  match n with O => [[]] | S n' => flat_map (fun s => map (fun p => p :: s) al) (seqs_exact n' al) end.
Definition seqs_upto (n : nat) (al : list pt) : list (list pt) := flat_map (fun k => seqs_exact k al) (seq 0 (S n)).
