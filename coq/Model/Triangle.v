(* Hand-written executable models of bezier.hazmat.triangle_helpers (one coordinate row).
   A degree-d net is the flat list in the documented order (rows bottom-to-top by the
   exponent k of lambda3, left-to-right by the exponent j of lambda2).  NO proofs here. *)
From Coq Require Import List Arith.
From BZ Require Import Base.Ops Model.Curve.
Import ListNotations.

(* rows of lengths len, len-1, ..., 1 *)
Fixpoint split_rows {A} (len : nat) (v : list A) : list (list A) :=
  match len with
  | 0%nat => []
  | S l => firstn (S l) v :: split_rows l (skipn (S l) v)
  end.
Definition tri_size (d : nat) : nat := ((d + 1) * (d + 2)) / 2.

Section M.
Context {T : Type} (K : Ops T).
Local Notation "0" := (o0 K). Local Notation "1" := (o1 K).
Local Infix "+" := (oadd K). Local Infix "*" := (omul K).
Local Infix "-" := (osub K). Local Infix "/" := (odiv K).

(* ---- evaluate_barycentric: Horner in lambda3 over the rows, top row first.
   rs = rows still to process, highest first; k1 = (index k of the head of rs) + 1 *)
Fixpoint tri_loop (thr d k1 : nat) (rs : list (list T)) (binom res l1 l2 l3 : T) : T :=
  match rs, k1 with
  | r :: rs', S k =>
      let b := (binom * ofn K (k + 1)) / ofn K (d - k) in
      tri_loop thr d k rs' b (res * l3 + b * eval_bary K thr r l1 l2) l1 l2 l3
  | _, _ => res
  end.
Definition tri_eval_rows (thr d : nat) (rows : list (list T)) (l1 l2 l3 : T) : T :=
  match rev rows with
  | top :: rest => tri_loop thr d d rest 1 (hd 0 top) l1 l2 l3
  | [] => 0
  end.
Definition tri_eval (thr d : nat) (v : list T) (l1 l2 l3 : T) : T :=
  tri_eval_rows thr d (split_rows (S d) v) l1 l2 l3.
Definition tri_eval_cartesian (thr d : nat) (v : list T) (s t : T) : T :=
  tri_eval thr d v (1 - s - t) s t.

(* the bivariate Bernstein definition (SPEC), row by row:
   sum_k C(d,k) l3^k * ( sum_j C(d-k,j) l1^(d-k-j) l2^j v_(i,j,k) ),  C(d,k) C(d-k,j) = d!/(i! j! k!) *)
Fixpoint tsum (d k : nat) (rows : list (list T)) (l1 l2 l3 : T) : T :=
  match rows with
  | [] => 0
  | r :: rs => ofn K (choose d k) * pw K l3 k * bernstein K r l1 l2 + tsum d (S k) rs l1 l2 l3
  end.
Definition tri_bernstein (d : nat) (v : list T) (l1 l2 l3 : T) : T :=
  tsum d 0 (split_rows (S d) v) l1 l2 l3.

(* ---- compute_edge_nodes ---- *)
Definition edge1 (d : nat) (v : list T) : list T := hd [] (split_rows (S d) v).
Definition edge2 (d : nat) (v : list T) : list T := map (fun r => last r 0) (split_rows (S d) v).
Definition edge3 (d : nat) (v : list T) : list T := rev (map (hd 0) (split_rows (S d) v)).

(* ---- de_casteljau_one_round (triangle): q_ijk = l1 p_(i+1)jk + l2 p_i(j+1)k + l3 p_ij(k+1) ---- *)
Fixpoint tri_round_rows (rows : list (list T)) (l1 l2 l3 : T) : list (list T) :=
  match rows with
  | r :: ((r' :: _) as rest) =>
      zipw (fun a b => a + b) (dc_round K l1 l2 r) (map (fun x => l3 * x) r') :: tri_round_rows rest l1 l2 l3
  | _ => []
  end.
Definition tri_round (d : nat) (v : list T) (l1 l2 l3 : T) : list T :=
  concat (tri_round_rows (split_rows (S d) v) l1 l2 l3).

(* ---- de Casteljau evaluation and specialize_triangle (blossom values) ----
   d = degree of v.  spec_val: i rounds with a, then j with b, then k with c (the value the code
   stores under the key 0^i 1^j 2^k; rounds commute). *)
Definition W3 := (T * T * T)%type.
Definition tri_round_w (d : nat) (w : W3) (v : list T) : list T :=
  let '(w1, w2, w3) := w in tri_round d v w1 w2 w3.
Fixpoint tri_rounds (n d : nat) (w : W3) (v : list T) : list T :=
  match n with 0%nat => v | S n' => tri_rounds n' (d - 1) w (tri_round_w d w v) end.
Definition tri_dc_eval (d : nat) (v : list T) (w : W3) : T := hd 0 (tri_rounds d d w v).
Definition spec_val (d : nat) (v : list T) (a b c : W3) (i j k : nat) : T :=
  hd 0 (tri_rounds k (d - i - j) c (tri_rounds j (d - i) b (tri_rounds i d a v))).
Definition specialize_tri (d : nat) (v : list T) (a b c : W3) : list T :=
  concat (map (fun k => map (fun j => spec_val d v a b c (d - j - k) j k) (seq 0 (S d - k))) (seq 0 (S d))).

(* ---- jacobian_s / jacobian_t: nets of the partial derivatives (degree d-1) ---- *)
Definition jac_s_rows (d : nat) (rows : list (list T)) : list (list T) :=
  map (fun r => map (fun x => ofn K d * x) (diffs K r)) (removelast rows).
Fixpoint jac_t_rows_aux (d : nat) (rows : list (list T)) : list (list T) :=
  match rows with
  | r :: ((r' :: _) as rest) =>
      map (fun x => ofn K d * x) (zipw (fun a b => b - a) r r') :: jac_t_rows_aux d rest
  | _ => []
  end.
Definition jac_s (d : nat) (v : list T) : list T := concat (jac_s_rows d (split_rows (S d) v)).
Definition jac_t (d : nat) (v : list T) : list T := concat (jac_t_rows_aux d (split_rows (S d) v)).
End M.
