(* hazmat/geometric_intersection.py: the candidate flow of all_intersections - Linearization.from_shape, SubdividedCurve.subdivide,
   intersect_one_round, convex_hull_collide, prune_candidates and the round loop with its 64-candidate rule.
   The box classifications are the REGENERATED py_bbox_intersect / py_bbox_line_intersect / py_line_line_collide; subdivision is the
   model of curve_helpers.subdivide_nodes (tables regenerated); linearization_error is Model/LinErr.v (literals regenerated); the
   hull / polygon collision are Model/Hull.v.  The two end-games (tangent_bbox_intersection, from_linearized) are recorded as
   events, not executed.  Executable over Qc; tied to the code by trace correspondence (checks/c03.py).  No proofs here. *)
From Coq Require Import List Arith ZArith QArith Qcanon Bool String.
From BZ Require Import Base.Ops Base.QcInst Base.PyVal Model.Curve Model.CurvePy Model.LinErr Model.Hull
  Gen.PyGeometricIntersection Gen.PyFnHelpers Gen.PyFnGeometric.
Import ListNotations.
Local Open Scope Qc_scope.

(* a SubdividedCurve (lin = false) or a Linearization wrapping one (lin = true); rows = [xs; ys] *)
Record cand := mkCand { rows : list (list Qc); cstart : Qc; cend : Qc; lin : bool }.

Definition err_sq : Qc := Q2Qc (ERROR_VAL * ERROR_VAL).
(* Linearization.from_shape *)
Definition from_shape (c : cand) : cand :=
  if lin c then c
  else if Qc_ltb (lin_error_sq (rows c)) err_sq then mkCand (rows c) (cstart c) (cend c) true else c.
(* SubdividedCurve.subdivide / Linearization.subdivide *)
Definition subdivide (c : cand) : list cand :=
  if lin c then [c]
  else
    let lr := map subdivide_nodes_py (rows c) in
    let m := Q2Qc (1 # 2) * (cstart c + cend c) in
    [mkCand (map fst lr) (cstart c) m false; mkCand (map snd lr) m (cend c) false].

Definition qrows (c : cand) : list (list Q) := map (map this) (rows c).
Definition nodes_val (c : cand) : val := vq_mat (qrows c).
Definition first_node (c : cand) : val := VTup (map (fun r => VQ (hd 0%Q r)) (qrows c)).
Definition last_node (c : cand) : val := VTup (map (fun r => VQ (last r 0%Q)) (qrows c)).

Inductive box := Disjoint | Tangent | Intersection | BoxError.
Definition box_of (v : val) : box :=
  match v with
  | VEnum "DISJOINT" => Disjoint | VEnum "TANGENT" => Tangent | VEnum "INTERSECTION" => Intersection | _ => BoxError
  end.
Definition classify (f s : cand) : box :=
  box_of (if lin f then
            if lin s then py_bbox_intersect (nodes_val f) (nodes_val s)
            else py_bbox_line_intersect (nodes_val s) (first_node f) (last_node f)
          else
            if lin s then py_bbox_line_intersect (nodes_val f) (first_node s) (last_node s)
            else py_bbox_intersect (nodes_val f) (nodes_val s)).

(* what intersect_one_round does with one pair *)
Inductive event := EvTangent (f s : cand) | EvLinearized (f s : cand) | EvError (f s : cand).
Definition step_pair (fs : cand * cand) : list (cand * cand) * list event :=
  let '(f, s) := fs in
  match classify f s with
  | Disjoint => ([], [])
  | BoxError => ([], [EvError f s])
  | Tangent => if lin f && lin s then ([], [EvLinearized f s]) else ([], [EvTangent f s])
  | Intersection =>
      if lin f && lin s then ([], [EvLinearized f s])
      else (list_prod (map from_shape (subdivide f)) (map from_shape (subdivide s)), [])
  end.
Definition one_round (cands : list (cand * cand)) : list (cand * cand) * list event :=
  let r := map step_pair cands in (flat_map fst r, flat_map snd r).

(* convex_hull_collide / prune_candidates *)
Definition pts_of_cand (c : cand) : list pt :=
  match qrows c with [xs; ys] => combine xs ys | _ => [] end.
Definition poly_val (l : list pt) : val := VTup [VTup (map (fun p => VQ (fst p)) l); VTup (map (fun p => VQ (snd p)) l)].
Definition convex_hull_collide (f s : cand) : bool :=
  let p1 := simple_convex_hull (pts_of_cand f) in
  let p2 := simple_convex_hull (pts_of_cand s) in
  if Nat.eqb (List.length p1) 2 && Nat.eqb (List.length p2) 2
  then truth (py_line_line_collide (poly_val p1) (poly_val p2))
  else polygon_collide p1 p2.
Definition prune (cands : list (cand * cand)) : list (cand * cand) :=
  filter (fun fs => convex_hull_collide (fst fs) (snd fs)) cands.

(* one iteration of the loop of all_intersections, as far as the candidates are concerned *)
Inductive verdict := Continue | Finished | TooMany.
Record round_out := mkOut { cands_out : list (cand * cand); events_out : list event; pruned : bool; verdict_out : verdict }.
Definition loop_body (cands : list (cand * cand)) : round_out :=
  let '(next, evs) := one_round cands in
  if Nat.ltb MAX_CANDIDATES_nat (List.length next) then
    let p := prune next in
    if Nat.ltb MAX_CANDIDATES_nat (List.length p) then mkOut p evs true TooMany
    else mkOut p evs true (match p with [] => Finished | _ => Continue end)
  else mkOut next evs false (match next with [] => Finished | _ => Continue end).
Fixpoint run_rounds (n : nat) (cands : list (cand * cand)) : list round_out :=
  match n with
  | O => []
  | S n' => let o := loop_body cands in
            o :: match verdict_out o with Continue => run_rounds n' (cands_out o) | _ => [] end
  end.
(* check_lines takes the pair over exactly when both initial candidates are linearizations with error 0 *)
Definition handled_by_check_lines (cands : list (cand * cand)) : bool :=
  match cands with
  | [(f, s)] => lin f && lin s && Qc_eqb (lin_error_sq (rows f)) (Q2Qc 0) && Qc_eqb (lin_error_sq (rows s)) (Q2Qc 0)
  | _ => false
  end.
Definition all_rounds (n : nat) (cands : list (cand * cand)) : bool * list round_out :=
  if handled_by_check_lines cands then (true, []) else (false, run_rounds n cands).
Definition initial (x1 y1 x2 y2 : list Q) : list (cand * cand) :=
  [(from_shape (mkCand [qcs x1; qcs y1] (Q2Qc 0) (Q2Qc 1) false),
    from_shape (mkCand [qcs x2; qcs y2] (Q2Qc 0) (Q2Qc 1) false))].
