(* Hand-written executable models of bezier.hazmat.curve_helpers (one coordinate
   row at a time: every function below acts on each row of `nodes` independently,
   exactly as the NumPy code broadcasts over the first axis).  NO proofs here. *)
From Coq Require Import List Arith.
From BZ Require Import Base.Ops.
Import ListNotations.

Section M.
Context {T : Type} (K : Ops T).
Local Notation "0" := (o0 K). Local Notation "1" := (o1 K).
Local Infix "+" := (oadd K). Local Infix "*" := (omul K).
Local Infix "-" := (osub K). Local Infix "/" := (odiv K).

(* ---- de_casteljau_one_round ------------------------------------------------ *)
Fixpoint dc_round (l1 l2 : T) (v : list T) : list T :=
  match v with
  | a :: ((b :: _) as v') => (l1 * a + l2 * b) :: dc_round l1 l2 v'
  | _ => []
  end.

(* ---- evaluate_multi_de_casteljau (one parameter pair) -------------------------
   degree rounds; `fuel` = degree.  degree 0 is an IndexError in the code: the
   callers below never reach it with fuel 0 through the dispatch (num_nodes > 55). *)
Fixpoint dc_eval (fuel : nat) (l1 l2 : T) (v : list T) : T :=
  match fuel with
  | 0%nat => hd 0 v
  | S f => dc_eval f l1 l2 (dc_round l1 l2 v)
  end.
Definition eval_dc (v : list T) (l1 l2 : T) : T := dc_eval (length v - 1) l1 l2 v.

(* ---- evaluate_multi_vs (one parameter pair) -----------------------------------
   j = loop variable `index`; acc = result; pw2 = lambda2_pow; binom = binom_val *)
Fixpoint vs_loop (n j : nat) (rest : list T) (acc pw2 binom l1 l2 : T) : T :=
  match rest with
  | [] => acc
  | [vn] => acc + l2 * pw2 * vn
  | vj :: rest' =>
      let pw2' := pw2 * l2 in
      let binom' := (binom * ofn K (n - j + 1)) / ofn K j in
      vs_loop n (S j) rest' ((acc + binom' * pw2' * vj) * l1) pw2' binom' l1 l2
  end.
Definition eval_vs (v : list T) (l1 l2 : T) : T :=
  match v with
  | [] => 0
  | [v0] => l1 * v0 + l2 * 1 * v0            (* degree 0: loop empty, last line adds nodes[:, [0]] again *)
  | v0 :: rest => vs_loop (length rest) 1 rest (l1 * v0) 1 1 l1 l2
  end.

(* ---- evaluate_multi_barycentric: dispatch on the literal read from the source --- *)
Definition eval_bary (vs_max_nodes : nat) (v : list T) (l1 l2 : T) : T :=
  if Nat.ltb vs_max_nodes (length v) then eval_dc v l1 l2 else eval_vs v l1 l2.
(* ---- evaluate_multi --------------------------------------------------------- *)
Definition eval_multi (vs_max_nodes : nat) (v : list T) (ss : list T) : list T :=
  map (fun s => eval_bary vs_max_nodes v (1 - s) s) ss.

(* the Bernstein definition  sum_j C(n,j) l1^(n-j) l2^j v_j  (the SPEC) *)
Fixpoint bsum (n i : nat) (l : list T) (l1 l2 : T) : T :=
  match l with
  | [] => 0
  | x :: l' => ofn K (choose n i) * pw K l1 (n - i) * pw K l2 i * x + bsum n (S i) l' l1 l2
  end.
Definition bernstein (v : list T) (l1 l2 : T) : T := bsum (length v - 1) 0 v l1 l2.

(* weight polynomial (l1 + l2 X)^n as a coefficient list *)
Fixpoint mul_lin_aux (l1 l2 prev : T) (w : list T) : list T :=
  match w with
  | [] => [l2 * prev]
  | a :: w' => (l1 * a + l2 * prev) :: mul_lin_aux l1 l2 a w'
  end.
Definition mul_lin l1 l2 w := mul_lin_aux l1 l2 0 w.
Fixpoint W (n : nat) (l1 l2 : T) : list T :=
  match n with 0%nat => [1] | S n' => mul_lin l1 l2 (W n' l1 l2) end.

(* ---- specialize_curve: the dictionary of partial blossoms ---------------------
   level k holds, for m = 0..k, the nodes stored under the key 0^(k-m) 1^m.
   new_partial: key ending in 0 spawns key+(0,) and key+(1,); key ending in 1
   spawns key+(1,) only. *)
Definition dcR (t : T) (v : list T) := dc_round (1 - t) t v.
Definition spec_level1 (a b : T) (v : list T) : list (list T) := [dcR a v; dcR b v].
Definition spec_next (a b : T) (lvl : list (list T)) : list (list T) :=
  match lvl with
  | [] => []
  | p0 :: _ => dcR a p0 :: map (dcR b) lvl
  end.
Definition specialize (v : list T) (a b : T) : list T :=
  map (hd 0) (iter (spec_next a b) (length v - 2) (spec_level1 a b v)).

(* node j of the specialised curve, as a blossom value *)
Definition P (a b : T) (n j : nat) (v : list T) : T :=
  hd 0 (iter (dcR b) j (iter (dcR a) (n - j) v)).
Definition L (a b : T) (n : nat) (v : list T) : list T := map (fun j => P a b n j v) (seq 0 (S n)).

(* ---- make_subdivision_matrices: columns of `left` and `right` ---------------- *)
Definition half : T := 1 / (1 + 1).
Definition pad (n : nat) (c : list T) : list T := c ++ repeat 0 (n - length c).
Definition next_left_col (c : list T) : list T :=
  let h := map (fun x => half * x) c in
  zipw (oadd K) (h ++ [0]) (0 :: h).
Fixpoint left_cols_aux (k : nat) (c : list T) : list (list T) :=
  match k with
  | 0%nat => [c]
  | S k' => c :: left_cols_aux k' (next_left_col c)
  end.
Definition left_cols_raw (n : nat) : list (list T) := left_cols_aux n [1].
Definition left_cols (n : nat) : list (list T) := map (pad (S n)) (left_cols_raw n).
(* right[-(col+1):, degree-col] = left[:col+1, col] *)
Definition right_cols (n : nat) : list (list T) :=
  rev (map (fun c => repeat 0 (S n - length c) ++ c) (left_cols_raw n)).
Definition matvec (v : list T) (cols : list (list T)) : list T := map (fun c => dot K c v) cols.
Definition subdivide_left (v : list T) : list T := matvec v (left_cols (length v - 1)).
Definition subdivide_right (v : list T) : list T := matvec v (right_cols (length v - 1)).

(* ---- elevate_nodes ------------------------------------------------------------ *)
Fixpoint elevate_mid (den : T) (j : nat) (v : list T) : list T :=
  match v with
  | a :: ((b :: _) as v') =>
      ((ofn K j * a + (den - ofn K j) * b) / den) :: elevate_mid den (S j) v'
  | _ => []
  end.
Definition elevate (v : list T) : list T :=
  match v with
  | [] => []
  | v0 :: _ => v0 :: elevate_mid (ofn K (length v)) 1 v ++ [last v 0]
  end.

(* ---- hodograph nets ----------------------------------------------------------- *)
Fixpoint diffs (v : list T) : list T :=
  match v with
  | a :: ((b :: _) as v') => (b - a) :: diffs v'
  | _ => []
  end.
Definition eval_hodograph (vs_max_nodes : nat) (v : list T) (s : T) : T :=
  ofn K (length v - 1) * eval_bary vs_max_nodes (diffs v) (1 - s) s.

(* ---- reduce_pseudo_inverse with a given table (rows of the NumPy table) --------- *)
Definition reduce_with (table : list (list T)) (den : T) (v : list T) : list T :=
  map (fun c => dot K c v / den) (transpose table).
End M.
