(* Executable composition of the regenerated algebraic pieces with the curve evaluator: to_power_basis for the
   degree pairs whose intersection polynomial has degree <= 4, the 6x6 Sylvester determinant of degree-3
   implicitization (hand model), polynomial_norm^2.  NO proofs here. *)
From Coq Require Import List Arith ZArith QArith Qcanon Bool String.
From BZ Require Import Base.Ops Base.QcInst Base.PyVal Model.Curve Model.CurvePy Gen.PyCurveHelpers Gen.PyFnAlgebraic.
Import ListNotations.

Definition q_of (v : val) : Q := match v with VQ q => q | _ => 0%Q end.
Definition qs_of (v : val) : list Q := match v with VTup l => map q_of l | _ => [] end.
Definition ev_q (row : val) (t : Q) : Q := this (eval_bary QcOps vs_max_nodes (qcs (qs_of row)) (Q2Qc (1 - t)) (Q2Qc t)).

(* determinant by expansion along the first row (matrices as lists of rows) *)
Fixpoint drop_col {A} (j : nat) (r : list A) : list A :=
  match r, j with [], _ => [] | _ :: r', O => r' | a :: r', S j' => a :: drop_col j' r' end.
Fixpoint det_fuel (fuel : nat) (m : list (list Q)) : Q :=
  match fuel with
  | O => 1%Q
  | S f =>
      match m with
      | [] => 1%Q
      | r0 :: rest =>
          snd (fold_left (fun (acc : nat * Q) a =>
                 let '(j, s) := acc in
                 let minor := map (drop_col j) rest in
                 let sign := if Nat.even j then 1%Q else (-1)%Q in
                 (S j, (s + sign * a * det_fuel f minor)%Q)) r0 (O, 0%Q))
      end
  end.
Definition det (m : list (list Q)) : Q := det_fuel (List.length m) m.
(* _evaluate3: the Sylvester matrix of the cubic minus the point, middle columns times 3 *)
Definition evaluate3_model (nodes x y : val) : val :=
  match nodes with
  | VTup [VTup [VQ x0; VQ x1; VQ x2; VQ x3]; VTup [VQ y0; VQ y1; VQ y2; VQ y3]] =>
      let px := q_of x in let py := q_of y in
      let dx := [x0 - px; 3 * (x1 - px); 3 * (x2 - px); x3 - px]%Q in
      let dy := [y0 - py; 3 * (y1 - py); 3 * (y2 - py); y3 - py]%Q in
      VQ (det [dx ++ [0; 0]; dy ++ [0; 0]; 0 :: dx ++ [0]; 0 :: dy ++ [0]; 0 :: 0 :: dx; 0 :: 0 :: dy]%Q)
  | _ => VErr "model"
  end.
Definition evaluate_model (nodes x y : val) : val := py_evaluate evaluate3_model nodes x y.
(* eval_intersection_polynomial(nodes1, nodes2, t) = evaluate(nodes1, B2(t)) *)
Definition eip_model (n1 n2 t : val) : val :=
  match t with
  | VQ tq => evaluate_model n1 (VQ (ev_q (vidx n2 0) tq)) (VQ (ev_q (vidx n2 1) tq))
  | _ => VErr "model"
  end.
Definition unmodelled (a b : val) : val := VErr "unmodelled".
Definition to_power_basis_model (n1 n2 : val) : val := py_to_power_basis eip_model unmodelled unmodelled unmodelled n1 n2.

(* polynomial_norm(coeffs)^2 *)
Fixpoint norm_cross (ci : Q) (i j : nat) (rest : list Q) : Q :=
  match rest with
  | [] => 0%Q
  | cj :: rest' => (2 * ci * cj / inject_Z (Z.of_nat (i + j + 1)) + norm_cross ci i (S j) rest')%Q
  end.
Fixpoint norm2_aux (i : nat) (c : list Q) : Q :=
  match c with
  | [] => 0%Q
  | ci :: rest => (ci * ci / inject_Z (Z.of_nat (2 * i + 1)) + norm_cross ci i (S i) rest + norm2_aux (S i) rest)%Q
  end.
Definition polynomial_norm2 (c : list Q) : Q := norm2_aux 0 c.
