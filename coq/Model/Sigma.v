(* hazmat/algebraic_intersection.py: _get_sigma_coeffs and bernstein_companion (hand model, generic arithmetic; the loops over
   `exponent` and the flat-index fill of the companion matrix).  Tied to the code by correspondence (checks/c19.py).
   No proofs in this file. *)
From Coq Require Import List Arith.
From BZ Require Import Base.Ops.
Import ListNotations.

Section Sigma.
Context {T : Type} (K : Ops T) (is0 : T -> bool).
Local Notation "0" := (o0 K). Local Notation "1" := (o1 K).
Local Infix "+" := (oadd K). Local Infix "*" := (omul K).
Local Infix "-" := (osub K). Local Infix "/" := (odiv K).

(* `for index in range(degree, -1, -1): if coeffs[index] != 0.0: effective_degree = index; break` *)
Fixpoint eff_degree (c : list T) : option nat :=
  match c with
  | [] => None
  | x :: c' => match eff_degree c' with
               | Some e => Some (S e)
               | None => if is0 x then None else Some 0%nat
               end
  end.

(* `for exponent in range(effective_degree - 1, -1, -1)`: state (k = exponent + 1, binom_numerator, binom_denominator);
   returns sigma_(k-1), ..., sigma_0 *)
Fixpoint sig_loop (d k : nat) (num den : T) (c : list T) (ce : T) : list T :=
  match k with
  | O => []
  | S k' => (nth k' c 0 / ce * num / den)
            :: sig_loop d k' (num * ofn K k') (den * ofn K (d - k' + 1)) c ce
  end.

Definition get_sigma_coeffs (c : list T) : option (list T) * nat * nat :=
  let d := (length c - 1)%nat in
  match eff_degree c with
  | None => (None, 0%nat, 0%nat)
  | Some O => (None, d, 0%nat)
  | Some e => (Some (rev (sig_loop d e (ofn K e) (ofn K (d - e + 1)) c (nth e c 0))), d, e)
  end.

(* companion.flat[e :: e + 1] = 1.0 (row-major flat index: the sub-diagonal); companion[0, :] = -sigma_coeffs[::-1] *)
Definition unit_row (e i : nat) : list T := map (fun j => if Nat.eqb j i then 1 else 0) (seq 0 e).
Definition companion (sig : list T) : list (list T) :=
  let e := length sig in
  map (oopp K) (rev sig) :: map (unit_row e) (seq 0 (e - 1)).
Definition bernstein_companion (c : list T) : list (list T) * nat * nat :=
  match get_sigma_coeffs c with
  | (Some sig, d, e) => (companion sig, d, e)
  | (None, d, e) => ([], d, e)
  end.

Definition matvec_rows (rows : list (list T)) (v : list T) : list T := map (fun r => dot K r v) rows.
(* [1; x; ...; x^(e-1)] *)
Fixpoint powers (x : T) (e : nat) : list T := match e with O => [] | S e' => 1 :: map (omul K x) (powers x e') end.
(* the monic polynomial whose companion matrix is built:  x^e + sum_k sigma_k x^k *)
Definition sigma_poly (sig : list T) (x : T) : T := pw K x (length sig) + dot K sig (powers x (length sig)).
End Sigma.
