(* Hand model of the two Newton SYSTEMS of the curve-curve end game (intersection_helpers.NewtonSimpleRoot.__call__ and
   NewtonDoubleRoot.__call__), planar curves given by their coordinate rows, derivative nets built as full_newton_nonzero
   builds them: first_deriv = (n - 1) (nodes[1:] - nodes[:-1]), second_deriv = (n - 2) (first[1:] - first[:-1]).
   Generic arithmetic; evaluation is the Bernstein SPEC (the evaluators are C01).  No proofs here. *)
From Coq Require Import List.
From BZ Require Import Base.Ops Model.Curve.
Import ListNotations.

Section NS.
Context {T : Type} (K : Ops T).
Local Notation "0" := (o0 K). Local Notation "1" := (o1 K).
Local Infix "+" := (oadd K). Local Infix "*" := (omul K). Local Infix "-" := (osub K).

Definition dnet (v : list T) : list T := map (omul K (ofn K (length v - 1))) (diffs K v).
Definition Bv (v : list T) (s : T) : T := bernstein K v (1 - s) s.
Definition cross2 (ax ay bx by_ : T) : T := ax * by_ - ay * bx.

(* the function values from the eight evaluations (curves and first derivatives): F = B1(s) - B2(t); G = [F; B1'(s) x B2'(t)] *)
Definition Gfun (b1x b1y b2x b2y d1x d1y d2x d2y : T) : T * T * T :=
  (b1x - b2x, b1y - b2y, cross2 d1x d1y d2x d2y).

Record dsys := mkD { g1 : T; g2 : T; g3 : T;                       (* G *)
                     j11 : T; j12 : T; j21 : T; j22 : T; j31 : T; j32 : T }.   (* DG, 3 x 2 *)
Definition double_root (x1 y1 x2 y2 : list T) (s t : T) : dsys :=
  let d1x := Bv (dnet x1) s in let d1y := Bv (dnet y1) s in
  let d2x := Bv (dnet x2) t in let d2y := Bv (dnet y2) t in
  let e1x := Bv (dnet (dnet x1)) s in let e1y := Bv (dnet (dnet y1)) s in
  let e2x := Bv (dnet (dnet x2)) t in let e2y := Bv (dnet (dnet y2)) t in
  mkD (Bv x1 s - Bv x2 t) (Bv y1 s - Bv y2 t) (cross2 d1x d1y d2x d2y)
      d1x (0 - d2x) d1y (0 - d2y) (cross2 e1x e1y d2x d2y) (cross2 d1x d1y e2x e2y).
(* what __call__ returns: DG^T DG (row-major 2 x 2) and DG^T G *)
Definition normal_lhs (d : dsys) : T * T * T * T :=
  (j11 d * j11 d + j21 d * j21 d + j31 d * j31 d, j11 d * j12 d + j21 d * j22 d + j31 d * j32 d,
   j12 d * j11 d + j22 d * j21 d + j32 d * j31 d, j12 d * j12 d + j22 d * j22 d + j32 d * j32 d).
Definition normal_rhs (d : dsys) : T * T :=
  (j11 d * g1 d + j21 d * g2 d + j31 d * g3 d, j12 d * g1 d + j22 d * g2 d + j32 d * g3 d).
(* NewtonSimpleRoot: F and DF = [B1'(s), -B2'(t)] *)
Definition simple_root (x1 y1 x2 y2 : list T) (s t : T) : (T * T) * (T * T * T * T) :=
  ((Bv x1 s - Bv x2 t, Bv y1 s - Bv y2 t),
   (Bv (dnet x1) s, 0 - Bv (dnet x2) t, Bv (dnet y1) s, 0 - Bv (dnet y2) t)).
End NS.
