(* Hand-written model (over Q) of geometric_intersection.add_intersection: norms are compared on squares.
   Thresholds are read from the source (Gen/PyIntersectionHelpers.v).  NO proofs here. *)
From Coq Require Import List ZArith QArith Bool.
From BZ Require Import Base.PyVal Gen.PyIntersectionHelpers.
Import ListNotations.
Open Scope Q_scope.

Definition cand (x : Q) : Q := if Qltb x ZERO_THRESHOLD then 1 - x else x.
Definition is_dup (s t : Q) (e : Q * Q) : bool :=
  let ds := s - fst e in let dt := t - snd e in
  let nc2 := cand s * cand s + cand t * cand t in
  (* norm_update < RATIO * norm_candidate, both sides non-negative *)
  Qltb (ds * ds + dt * dt) (NEWTON_ERROR_RATIO * NEWTON_ERROR_RATIO * nc2).
Definition add_intersection (s t : Q) (ints : list (Q * Q)) : list (Q * Q) :=
  match ints with
  | [] => [(s, t)]
  | _ => if existsb (is_dup s t) ints then ints else ints ++ [(s, t)]
  end.
