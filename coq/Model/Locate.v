(* Executable model (Qc) of curve_helpers.locate_point: closed bounding-box test, bisection with the subdivision of
   the source, spread cap on squares, one Newton step, clamp.  Constants read from the source.  NO proofs here. *)
From Coq Require Import List Arith ZArith QArith Qcanon Bool.
From BZ Require Import Base.Ops Base.QcInst Model.Curve Model.CurvePy Model.Deriv Gen.PyCurveHelpers.
Import ListNotations.
Local Open Scope Qc_scope.

Definition qmin_l (l : list Qc) : Qc := match l with [] => Q2Qc 0 | x :: r => fold_left (fun a b => if Qle_bool (this a) (this b) then a else b) r x end.
Definition qmax_l (l : list Qc) : Qc := match l with [] => Q2Qc 0 | x :: r => fold_left (fun a b => if Qle_bool (this a) (this b) then b else a) r x end.
Definition leq (a b : Qc) : bool := Qle_bool (this a) (this b).
(* contains_nd(nodes, point): every coordinate of the point within [min, max] of that row *)
Definition contains_nd (rows : list (list Qc)) (p : list Qc) : bool :=
  forallb (fun rp => leq (qmin_l (fst rp)) (snd rp) && leq (snd rp) (qmax_l (fst rp))) (combine rows p).

Definition cand := (Qc * Qc * list (list Qc))%type.
Definition half_q : Qc := Q2Qc (1 # 2).
Definition locate_round (p : list Qc) (cands : list cand) : list cand :=
  flat_map (fun c =>
    let '(a, b, rows) := c in
    if contains_nd rows p then
      let m := half_q * (a + b) in
      let lr := map subdivide_nodes_py rows in
      [(a, m, map fst lr); (m, b, map snd lr)]
    else []) cands.

Inductive locate_result := LNone | LSpread | LValue (s : Qc).
Definition qsum_l (l : list Qc) : Qc := fold_right Qcplus (Q2Qc 0) l.
Definition locate_point_py (rows : list (list Qc)) (p : list Qc) : locate_result :=
  let cands := iter (locate_round p) locate_rounds [(Q2Qc 0, Q2Qc 1, rows)] in
  match cands with
  | [] => LNone
  | _ =>
      let params := flat_map (fun c => [fst (fst c); snd (fst c)]) cands in
      let n := ofn QcOps (length params) in
      let mean := qsum_l params / n in
      let var := qsum_l (map (fun x => (x - mean) * (x - mean)) params) / n in
      let cap := Q2Qc LOCATE_STD_CAP in
      if negb (leq var (cap * cap)) then LSpread else
      let s1 := newton_refine_curve rows p mean in
      if negb (leq (Q2Qc 0) s1) then LValue (Q2Qc 0)
      else if negb (leq s1 (Q2Qc 1)) then LValue (Q2Qc 1)
      else LValue s1
  end.
