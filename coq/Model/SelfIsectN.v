(* geometric_intersection.self_intersections with the control nets carried along (generic arithmetic).
   As in Model/SelfIsect.v the turning-angle test and the left-vs-right all_intersections call are ORACLES given as streams of
   answers in call order; here the recursion also computes the sub-curves it is called on and records every
   all_intersections call as (left rows, right rows, answer).  No proofs here. *)
From Coq Require Import List Bool.
From BZ Require Import Base.Ops Model.Curve.
Import ListNotations.

Section SelfN.
Context {T : Type} (K : Ops T) (eqb : T -> T -> bool) (dup : T * T -> T * T -> bool).
Local Notation "1" := (o1 K).
Local Infix "+" := (oadd K). Local Infix "*" := (omul K).
Definition hf : T := half K.
Definition pairT := (T * T)%type.
Record streamsN := mkS { anglesN : list bool; isectsN : list (list pairT) }.
Definition callN := (list (list T) * list (list T) * list pairT)%type.
Definition is_splitN (p : pairT) : bool := eqb (fst p) hf && eqb (snd p) hf.
(* removal of repeated pairs (the loop over add_intersection): `dup p e` = "p repeats the already kept e" *)
Definition uniqN (l : list pairT) : list pairT :=
  fold_left (fun acc p => if existsb (dup p) acc then acc else acc ++ [p]) l [].

Fixpoint self_isect_n (fuel : nat) (rows : list (list T)) (st : streamsN) : option (list pairT * list callN * streamsN) :=
  match fuel with
  | O => None
  | S f =>
      match anglesN st with
      | [] => None
      | true :: rest => Some ([], [], mkS rest (isectsN st))
      | false :: rest =>
          let l := map (subdivide_left K) rows in
          let r := map (subdivide_right K) rows in
          match self_isect_n f l (mkS rest (isectsN st)) with
          | None => None
          | Some (left_self, calls1, st1) =>
              match self_isect_n f r st1 with
              | None => None
              | Some (right_self, calls2, st2) =>
                  match isectsN st2 with
                  | [] => None
                  | lr :: more =>
                      let ls := map (fun p => (hf * fst p, hf * snd p)) left_self in
                      let rs := map (fun p => (hf + hf * fst p, hf + hf * snd p)) right_self in
                      let cross := filter (fun p => negb (is_splitN p)) (map (fun p => (fst p * hf, snd p * hf + hf)) lr) in
                      Some (uniqN (ls ++ cross ++ rs), calls1 ++ calls2 ++ [(l, r, lr)], mkS (anglesN st2) more)
                  end
              end
          end
      end
  end.
End SelfN.
