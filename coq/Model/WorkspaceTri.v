(* C14: the TWO-buffer protocol around the compiled triangle-intersection entry point (src/python/bezier/_speedup.pyx:
   triangle_intersections, _triangle_intersections_resize, _triangle_intersections_success, reset_triangle_workspaces,
   triangle_workspace_sizes; src/fortran/triangle_intersection.f90: triangles_intersect_abi) as a state machine.
   State: capacity and per-cell freshness of SEGMENT_ENDS_WORKSPACE (ints) and SEGMENTS_WORKSPACE (segments).
   The numerical algorithm is the Section variable `tisect` (polygons = lists of segments).  NO proofs here. *)
From Coq Require Import List Arith Bool.
Import ListNotations.

Section WT.
Variable input : Type.
Variable seg : Type.
Variable tisect : input -> list (list seg).

Inductive cell (A : Type) := Stale | Fresh (a : A).
Arguments Stale {A}. Arguments Fresh {A}.
Record state := { ends : list (cell nat); segs : list (cell seg) }.
Definition init : state := {| ends := repeat Stale 3; segs := repeat Stale 6 |}.

Inductive op :=
| Intersect (x : input) (resizes_allowed : nat)
| Reset (e s : option nat)           (* reset_triangle_workspaces(segment_ends_size, segments_size): -1 = None *)
| QuerySizes.
Inductive out :=
| Result (l : list (list seg))
| EndsTooSmall (needed available : nat)
| SegsTooSmall (needed available : nat)
| Sizes (e s : nat)
| Done
| StaleRead.

(* cumulative segment counts *)
Fixpoint cum (acc : nat) (ps : list (list seg)) : list nat :=
  match ps with [] => [] | p :: r => (acc + length p) :: cum (acc + length p) r end.
Definition total (ps : list (list seg)) : nat := length (concat ps).
Definition overwrite {A} (new : list A) (old : list (cell A)) : list (cell A) := map Fresh new ++ skipn (length new) old.

Inductive fstatus := FSuccess | FInsufficient.
(* triangles_intersect_abi *)
Definition fortran_call (s : state) (x : input) : state * (nat * fstatus) :=
  let ps := tisect x in
  let k := length ps in
  if Nat.eqb k 0 then (s, (0, FSuccess))
  else if Nat.ltb (length (ends s)) k then (s, (k, FInsufficient))
  else
    let s1 := {| ends := overwrite (cum 0 ps) (ends s); segs := segs s |} in
    if Nat.ltb (length (segs s)) (total ps) then (s1, (k, FInsufficient))
    else ({| ends := ends s1; segs := overwrite (concat ps) (segs s) |}, (k, FSuccess)).

Definition read {A} (l : list (cell A)) (i : nat) : option A := match nth i l Stale with Fresh a => Some a | Stale => None end.
Fixpoint read_range {A} (l : list (cell A)) (i n : nat) : option (list A) :=
  match n with
  | O => Some []
  | S n' => match read l i, read_range l (S i) n' with Some a, Some r => Some (a :: r) | _, _ => None end
  end.
(* _triangle_intersections_success: polygon i = segments [ends[i-1], ends[i]) *)
Fixpoint polygons (s : state) (i k prev : nat) : option (list (list seg)) :=
  match k with
  | O => Some []
  | S k' =>
      match read (ends s) i with
      | None => None
      | Some e =>
          match read_range (segs s) prev (e - prev), polygons s (S i) k' e with
          | Some p, Some r => Some (p :: r)
          | _, _ => None
          end
      end
  end.
Definition age (s : state) : state := {| ends := map (fun _ => Stale) (ends s); segs := map (fun _ => Stale) (segs s) |}.

(* triangle_intersections with its recursion through _triangle_intersections_resize; fuel = resizes_allowed *)
Fixpoint call (r : nat) (s : state) (x : input) : state * out :=
  let '(s1, (k, st)) := fortran_call s x in
  match st with
  | FSuccess => (s1, match polygons s1 0 k 0 with Some l => Result l | None => StaleRead end)
  | FInsufficient =>
      let e := length (ends s) in
      match r with
      | S r' =>
          if Nat.ltb e k then call r' {| ends := repeat Stale k; segs := segs s1 |} x
          else match read (ends s1) (k - 1) with
               | None => (s1, StaleRead)
               | Some t => call r' {| ends := ends s1; segs := repeat Stale t |} x
               end
      | O =>
          if Nat.ltb e k then (s1, EndsTooSmall k e)
          else match read (ends s1) (k - 1) with
               | None => (s1, StaleRead)
               | Some t => (s1, SegsTooSmall t (length (segs s)))
               end
      end
  end.

Definition step (s : state) (o : op) : state * out :=
  match o with
  | QuerySizes => (s, Sizes (length (ends s)) (length (segs s)))
  | Reset e sg => ({| ends := match e with Some n => repeat Stale n | None => ends s end;
                      segs := match sg with Some n => repeat Stale n | None => segs s end |}, Done)
  | Intersect x r => call r (age s) x
  end.
Fixpoint run (s : state) (ops : list op) : state * list out :=
  match ops with
  | [] => (s, [])
  | o :: rest => let '(s1, r) := step s o in let '(s2, rs) := run s1 rest in (s2, r :: rs)
  end.
End WT.
