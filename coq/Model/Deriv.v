(* Executable models (Qc for the polynomial parts, the regenerated `val` functions for the scalar solves)
   of evaluate_hodograph, get_curvature (numerator and squared denominator), the three newton_refine variants,
   jacobian_both, jacobian_det.  NO proofs here. *)
From Coq Require Import List Arith ZArith QArith Qcanon Bool String.
From BZ Require Import Base.Ops Base.QcInst Base.PyVal Model.Curve Model.CurvePy Model.Triangle Model.TrianglePy
  Gen.PyCurveHelpers Gen.PyFnHelpers Gen.PyFnTriangleIntersection.
Import ListNotations.
Local Open Scope Qc_scope.

Definition ev (v : list Qc) (s : Qc) : Qc := eval_bary QcOps vs_max_nodes v (1 - s) s.
Definition hodo (v : list Qc) (s : Qc) : Qc := evaluate_hodograph_py v s.

(* get_curvature(nodes, tangent_vec, s) for a planar curve given as two rows:
   returns (cross(tangent, concavity), tangent . tangent);  curvature = cross / (t.t)^(3/2) *)
Definition curvature_parts (vx vy : list Qc) (tx ty s : Qc) : Qc * Qc :=
  if Nat.eqb (List.length vx) 2 then (Q2Qc 0, tx * tx + ty * ty) else
  let n := List.length vx in
  let k := ofn QcOps (n - 1) * ofn QcOps (n - 2) in
  let cx := k * ev (diffs QcOps (diffs QcOps vx)) s in
  let cy := k * ev (diffs QcOps (diffs QcOps vy)) s in
  (tx * cy - ty * cx, tx * tx + ty * ty).

(* curve newton_refine(nodes, point, s) = s + (p - B(s)).B'(s) / B'(s).B'(s), any dimension *)
Definition qsum (l : list Qc) : Qc := fold_right Qcplus (Q2Qc 0) l.
Definition newton_refine_curve (rows : list (list Qc)) (p : list Qc) (s : Qc) : Qc :=
  let d := map (fun v => hodo v s) rows in
  let r := map (fun vp => snd vp - ev (fst vp) s) (combine rows p) in
  s + qsum (map (fun a => fst a * snd a) (combine r d)) / qsum (map (fun a => a * a) d).

(* intersection newton_refine(s, nodes1, t, nodes2): planar; uses the REGENERATED solve2x2 *)
Definition vq (x : Qc) : val := VQ (this x).
Definition newton_refine_intersect (x1 y1 : list Qc) (s : Qc) (x2 y2 : list Qc) (t : Qc) : val :=
  let fx := ev x2 t - ev x1 s in
  let fy := ev y2 t - ev y1 s in
  if Qc_eqb fx (Q2Qc 0) && Qc_eqb fy (Q2Qc 0) then VTup [vq s; vq t] else
  let jac := VTup [VTup [vq (hodo x1 s); vq (- hodo x2 t)]; VTup [vq (hodo y1 s); vq (- hodo y2 t)]] in
  match py_solve2x2 jac (VTup [vq fx; vq fy]) with
  | VTup [VB true; _; _] => VErr "ValueError"
  | VTup [VB false; ds; dt] => VTup [vadd (vq s) ds; vadd (vq t) dt]
  | other => VErr "model"
  end.

(* jacobian_both: [Bs_x; Bs_y; Bt_x; Bt_y] nets of degree d-1 *)
Definition jacobian_both_py (d : nat) (rows : list (list Qc)) : list (list Qc) :=
  map (jac_s QcOps d) rows ++ map (jac_t QcOps d) rows.
Definition tri_ev (d : nat) (v : list Qc) (s t : Qc) : Qc :=
  match d with 0%nat => hd (Q2Qc 0) v | _ => tri_evaluate_cartesian_py d v s t end.
(* jacobian_det(nodes, degree, (s,t)) for a planar triangle *)
Definition jacobian_det_py (d : nat) (vx vy : list Qc) (s t : Qc) : Qc :=
  let e := fun v => tri_ev (d - 1) v s t in
  e (jac_s QcOps d vx) * e (jac_t QcOps d vy) - e (jac_s QcOps d vy) * e (jac_t QcOps d vx).

(* triangle newton_refine(nodes, degree, x, y, s, t): uses the REGENERATED newton_refine_solve *)
Definition newton_refine_triangle (d : nat) (vx vy : list Qc) (x y s t : Qc) : val :=
  let sx := tri_evaluate_cartesian_py d vx s t in
  let sy := tri_evaluate_cartesian_py d vy s t in
  if Qc_eqb sx x && Qc_eqb sy y then VTup [vq s; vq t] else
  let e := fun v => tri_ev (d - 1) v s t in
  let jac := VTup [VTup [vq (e (jac_s QcOps d vx))]; VTup [vq (e (jac_s QcOps d vy))];
                   VTup [vq (e (jac_t QcOps d vx))]; VTup [vq (e (jac_t QcOps d vy))]] in
  match py_newton_refine_solve jac (vq x) (vq sx) (vq y) (vq sy) with
  | VTup [ds; dt] => VTup [vadd (vq s) ds; vadd (vq t) dt]
  | other => other
  end.
