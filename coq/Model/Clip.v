(* hazmat/clipping.py: compute_fat_line, _clip_range_polynomial, clip_range.
   The straight-line pieces are the REGENERATED functions py_compute_implicit_line and py__update_parameters (Gen/PyFnClipping.v,
   which calls the regenerated segment_intersection and in_interval); the loops around them are written here by hand and tied to
   the code by correspondence (checks/c16.py, chk_clip).  Numbers are exact rationals.  No proofs in this file. *)
From Coq Require Import List ZArith QArith Bool String.
From BZ Require Import Base.Ops Base.PyVal Gen.PyFnHelpers Gen.PyFnGeometric Gen.PyFnClipping Gen.PyClipping.
Import ListNotations.
Local Open Scope Q_scope.

(* a 2 x N array *)
Definition rows2 (xs ys : list Q) : val := VTup [VTup (map VQ xs); VTup (map VQ ys)].
Definition qn (n : nat) : Q := inject_Z (Z.of_nat n).

(* d_i = a x_i + b y_i + c, in the order the source evaluates it *)
Definition dists (a b c : Q) (xs ys : list Q) : list Q := zipw (fun x y => a * x + b * y + c) xs ys.

(* compute_fat_line: `for index in range(1, num_nodes - 1)` with the `if ... elif ...` update of (d_min, d_max) *)
Definition fat_step (acc : Q * Q) (d : Q) : Q * Q :=
  if Qltb d (fst acc) then (d, snd acc) else if Qltb (snd acc) d then (fst acc, d) else acc.
Definition interior {A} (l : list A) : list A := removelast (tl l).
Definition fat_line (xs ys : list Q) : option (Q * Q * Q * Q * Q) :=
  match py_compute_implicit_line (rows2 xs ys) with
  | VTup [VQ a; VQ b; VQ c] =>
      let r := fold_left fat_step (interior (dists a b c xs ys)) (0, 0) in Some (a, b, c, fst r, snd r)
  | _ => None
  end.

(* clip_range: all chords (start_index < end_index) of the distance polygon, bottom line first, then top line *)
Definition pairs (m : nat) : list (nat * nat) :=
  flat_map (fun i => map (fun j => (i, j)) (seq (S i) (m - i))) (seq 0 m).
Definition upd2 (m lo hi : Q) (poly : list Q) (acc : val) (ij : nat * nat) : val :=
  match acc with
  | VTup [smin; smax] =>
      let pi := V2 (qn (fst ij)) (nth (fst ij) poly 0) in
      let pj := V2 (qn (snd ij)) (nth (snd ij) poly 0) in
      match py__update_parameters smin smax (V2 0 lo) (V2 m lo) pi pj with
      | VTup [smin'; smax'] => py__update_parameters smin' smax' (V2 0 hi) (V2 m hi) pi pj
      | e => e
      end
  | e => e
  end.
Definition in_band (lo hi d : Q) : bool := Qle_bool lo d && Qle_bool d hi.
Definition clip_init (lo hi : Q) (poly : list Q) : val :=
  let m := (List.length poly - 1)%nat in
  VTup [VQ (if in_band lo hi (nth 0 poly 0) then 0 else DEFAULT_S_MIN);
        VQ (if in_band lo hi (nth m poly 0) then 1 else DEFAULT_S_MAX)].
Definition clip_poly (lo hi : Q) (poly : list Q) : val :=
  let m := (List.length poly - 1)%nat in
  fold_left (upd2 (qn m) lo hi poly) (pairs m) (clip_init lo hi poly).
Definition clip_range (x1 y1 x2 y2 : list Q) : val :=
  match fat_line x1 y1 with
  | Some (a, b, c, lo, hi) => clip_poly lo hi (dists a b c x2 y2)
  | None => type_error
  end.
