(* Models of shoelace_for_area / compute_area and of quadratic/cubic_jacobian_polynomial, polynomial_sign,
   generic in the arithmetic K and the embedding of the translated tables; plus the power-basis
   polynomial toolkit used to STATE the defining integrals.  NO proofs here. *)
From Coq Require Import List Arith QArith Qcanon Bool.
From BZ Require Import Base.Ops Base.QcInst Model.Curve Model.CurvePy Model.Triangle Model.TrianglePy Gen.PyTriangleHelpers.
Import ListNotations.

Section G.
Context {T : Type} (K : Ops T) (emb : Q -> T).
Local Notation "0" := (o0 K). Local Notation "1" := (o1 K).
Local Infix "+" := (oadd K). Local Infix "*" := (omul K).
Local Infix "-" := (osub K). Local Infix "/" := (odiv K).

(* ---- power-basis polynomials (coefficient lists, constant term first) ---- *)
Fixpoint padd (p q : list T) : list T :=
  match p, q with
  | [], _ => q | _, [] => p
  | a :: p', b :: q' => (a + b) :: padd p' q'
  end.
Definition pscale (k : T) (p : list T) : list T := map (fun a => k * a) p.
Fixpoint pmul (p q : list T) : list T :=
  match p with
  | [] => []
  | a :: p' => padd (pscale a q) (0 :: pmul p' q)
  end.
Definition psub (p q : list T) : list T := padd p (pscale (0 - 1) q).
Fixpoint pderiv_aux (k : nat) (p : list T) : list T :=
  match p with [] => [] | a :: p' => (ofn K k * a) :: pderiv_aux (S k) p' end.
Definition pderiv (p : list T) : list T := match p with [] => [] | _ :: p' => pderiv_aux 1 p' end.
(* integral over [0,1] *)
Fixpoint pint01_aux (k : nat) (p : list T) : T :=
  match p with [] => 0 | a :: p' => a / ofn K (S k) + pint01_aux (S k) p' end.
Definition pint01 (p : list T) : T := pint01_aux 0 p.
Fixpoint peval (p : list T) (x : T) : T := match p with [] => 0 | a :: p' => a + x * peval p' x end.
Fixpoint ppow (p : list T) (k : nat) : list T := match k with O => [1] | S k' => pmul p (ppow p k') end.
(* C(n,i) s^i (1-s)^(n-i) *)
Definition bern_poly (n i : nat) : list T := pscale (ofn K (choose n i)) (pmul (ppow [0; 1] i) (ppow [1; 0 - 1] (n - i))).
Fixpoint curve_poly_aux (n i : nat) (v : list T) : list T :=
  match v with [] => [] | x :: v' => padd (pscale x (bern_poly n i)) (curve_poly_aux n (S i) v') end.
Definition curve_poly (v : list T) : list T := curve_poly_aux (length v - 1) 0 v.
(* the defining boundary integral of one edge: 1/2 int_0^1 (x y' - y x') ds *)
Definition green_edge (vx vy : list T) : T :=
  pint01 (psub (pmul (curve_poly vx) (pderiv (curve_poly vy))) (pmul (curve_poly vy) (pderiv (curve_poly vx)))) / (1 + 1).

(* ---- shoelace_for_area with the triples and scale factor read from the source; None = UnsupportedDegree ---- *)
Definition to_nat (x : Q) : nat := Z.to_nat (Qnum x).
Definition shoelace_sum (triples : list (list Q)) (vx vy : list T) : T :=
  fold_left (fun acc tr =>
    match tr with
    | [m; i1; i2] => acc + emb m * (nth (to_nat i1) vx 0 * nth (to_nat i2) vy 0 - nth (to_nat i1) vy 0 * nth (to_nat i2) vx 0)
    | _ => acc end) triples 0.
Definition shoelace_gen (vx vy : list T) : option T :=
  match lookup (length vx) shoelace_dispatch with
  | Some (tr, sc) => Some (shoelace_sum tr vx vy / emb sc)
  | None => None
  end.
Fixpoint compute_area_gen (edges : list (list T * list T)) : option T :=
  match edges with
  | [] => Some 0
  | (vx, vy) :: rest =>
      match shoelace_gen vx vy, compute_area_gen rest with
      | Some a, Some b => Some (a + b)      (* the code accumulates from 0.0 in edge order; exact arithmetic: order-free *)
      | _, _ => None
      end
  end.

(* ---- quadratic / cubic jacobian polynomial ---- *)
Definition jac_poly_gen (tables : list (list Q) * list (list Q) * Q) (vx vy : list T) : list T :=
  let '(helper, conv, factor) := tables in
  let px := matvec K vx (tcols_gen emb helper) in
  let py := matvec K vy (tcols_gen emb helper) in
  let dets := (fix go (px py : list T) : list T :=
                 match px, py with
                 | a :: b :: px', c :: d :: py' => (a * d - b * c) :: go px' py'
                 | _, _ => []
                 end) px py in
  map (fun x => x / emb factor) (matvec K dets (tcols_gen emb conv)).
Definition quadratic_jacobian_polynomial_gen := jac_poly_gen quadratic_jacobian_polynomial_tables.
Definition cubic_jacobian_polynomial_gen := jac_poly_gen cubic_jacobian_polynomial_tables.
End G.

(* ---- polynomial_sign over Qc (uses the triangle subdivision of the source) ---- *)
Definition sgn (x : Qc) : Z := if Qc_eqb x (Q2Qc 0) then 0%Z else if Qle_bool 0 (this x) then 1%Z else (-1)%Z.
Definition add_sign (s : Z) (signs : list Z) : list Z := if existsb (Z.eqb s) signs then signs else s :: signs.
Inductive sign_result := SignIs (s : Z) | SignMixed | SignUndecided.
(* one pass over the current sub-polynomials; returns (signs, undecided) or None when more than one sign was seen *)
Fixpoint sign_pass (d : nat) (polys : list (list Qc)) (signs : list Z) (undecided : list (list Qc)) : option (list Z * list (list Qc)) :=
  match polys with
  | [] => Some (signs, rev undecided)
  | p :: rest =>
      let corners := [nth 0 p (Q2Qc 0); nth d p (Q2Qc 0); last p (Q2Qc 0)] in
      let signs1 := fold_left (fun acc c => add_sign (sgn c) acc) corners signs in
      let '(signs2, und2) :=
        if forallb (fun x => Qc_eqb x (Q2Qc 0)) p then (add_sign 0%Z signs1, undecided)
        else if forallb (fun x => Z.eqb (sgn x) 1) p then (add_sign 1%Z signs1, undecided)
        else if forallb (fun x => Z.eqb (sgn x) (-1)) p then (add_sign (-1)%Z signs1, undecided)
        else (signs1, p :: undecided) in
      if Nat.ltb 1 (length signs2) then None else sign_pass d rest signs2 und2
  end.
Fixpoint polynomial_sign_loop (fuel d : nat) (polys : list (list Qc)) (signs : list Z) : sign_result :=
  match fuel with
  | O => match polys with [] => match signs with [s] => SignIs s | _ => SignMixed end | _ => SignUndecided end
  | S f =>
      match sign_pass d polys signs [] with
      | None => SignIs 0          (* len(signs) > 1: return 0 *)
      | Some (signs', und) =>
          let next := flat_map (fun p => tri_subdivide_py d p) und in
          match next with
          | [] => match signs' with [s] => SignIs s | _ => SignMixed end
          | _ => polynomial_sign_loop f d next signs'
          end
      end
  end.
Definition polynomial_sign_py (poly : list Qc) (d : nat) : sign_result :=
  polynomial_sign_loop MAX_POLY_SUBDIVISIONS_nat d [poly] [].
