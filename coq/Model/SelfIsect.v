(* Hand model (over Q) of geometric_intersection.self_intersections.  The turning-angle test and the
   left-vs-right all_intersections call are ORACLES, given as the streams of answers in call order (the order is
   fixed by the code: angle(nodes); recurse left; recurse right; all_intersections(left, right)).
   What is modelled is the glue: rescaling, removal of the split point, stacking order, and (since the repair of finding
   F19) the removal of repeated pairs with add_intersection's own notion of "repeated" (Model/Intersect.v).  NO proofs here. *)
From Coq Require Import List ZArith QArith Bool.
From BZ Require Import Model.Intersect.
Import ListNotations.
Open Scope Q_scope.

Definition pairQ := (Q * Q)%type.
Record streams := { angles : list bool;            (* true = discrete turning angle < pi *)
                    isects : list (list pairQ) }.  (* results of all_intersections(left, right) *)
Definition half := 1 # 2.
Definition is_split (p : pairQ) : bool := Qeq_bool (fst p) half && Qeq_bool (snd p) half.
(* `for s, t in result.T: add_intersection(s, t, unique_pairs)` *)
Definition uniq (l : list pairQ) : list pairQ := fold_left (fun acc p => add_intersection (fst p) (snd p) acc) l [].

(* fuel = recursion depth budget; None = out of fuel (RecursionError) or oracle stream exhausted *)
Fixpoint self_isect (fuel : nat) (st : streams) : option (list pairQ * streams) :=
  match fuel with
  | O => None
  | S f =>
      match angles st with
      | [] => None
      | true :: rest => Some ([], {| angles := rest; isects := isects st |})
      | false :: rest =>
          match self_isect f {| angles := rest; isects := isects st |} with
          | None => None
          | Some (left_self, st1) =>
              match self_isect f st1 with
              | None => None
              | Some (right_self, st2) =>
                  match isects st2 with
                  | [] => None
                  | lr :: more =>
                      let ls := map (fun p => (half * fst p, half * snd p)) left_self in
                      let rs := map (fun p => (half + half * fst p, half + half * snd p)) right_self in
                      let cross := filter (fun p => negb (is_split p)) (map (fun p => (fst p * half, snd p * half + half)) lr) in
                      Some (uniq (ls ++ cross ++ rs), {| angles := angles st2; isects := more |})
                  end
              end
          end
      end
  end.
