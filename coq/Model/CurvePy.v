(* The Python entry points as they dispatch on tables read from the source (Gen/). *)
From Coq Require Import List Arith QArith Qcanon.
From BZ Require Import Base.Ops Base.QcInst Model.Curve Gen.PyCurveHelpers.
Import ListNotations.

Definition lookup {A} (k : nat) (tbl : list (nat * A)) : option A :=
  match find (fun e => Nat.eqb (fst e) k) tbl with Some e => Some (snd e) | None => None end.

(* hazmat.curve_helpers.subdivide_nodes (one coordinate row) *)
Definition subdivide_nodes_py (v : list Qc) : list Qc * list Qc :=
  match lookup (length v) subdivide_dispatch with
  | Some (l, r) => (matvec QcOps v (tcols l), matvec QcOps v (tcols r))
  | None => (subdivide_left QcOps v, subdivide_right QcOps v)
  end.

(* hazmat.curve_helpers.reduce_pseudo_inverse; None = UnsupportedDegree.
   Generic in the arithmetic K and the embedding of the translated rational constants. *)
Definition reduce_gen {T} (K : Ops T) (emb : Q -> T) (v : list T) : option (list T) :=
  match lookup (length v) reduce_dispatch with
  | Some (t, d) => Some (reduce_with K (map (map emb) t) (emb d) v)
  | None => None
  end.
Definition reduce_py (v : list Qc) : option (list Qc) := reduce_gen QcOps Q2Qc v.
Definition project_gen {T} (K : Ops T) (emb : Q -> T) (v : list T) : option (list T) :=
  match lookup (length v) projection_dispatch with
  | Some (t, d) => Some (reduce_with K (map (map emb) t) (emb d) v)
  | None => None
  end.

Definition evaluate_multi_py (v : list Qc) (ss : list Qc) : list Qc :=
  eval_multi QcOps vs_max_nodes v ss.
Definition evaluate_hodograph_py (v : list Qc) (s : Qc) : Qc :=
  eval_hodograph QcOps vs_max_nodes v s.

(* ---- maybe_reduce / full_reduce on a whole net (all coordinate rows): the Frobenius norms couple the rows.
   Comparisons are made on squares (no sqrt): relative_err < thr  <->  err2 < thr^2 * nrm2. *)
Definition sumsq (m : list (list Qc)) : Qc :=
  fold_right (fun r acc => fold_right (fun x a => x * x + a) acc r) (Q2Qc 0) m.
Definition project_with (P : list (list Q)) (d : Q) (v : list Qc) : list Qc :=
  reduce_with QcOps (qcm P) (Q2Qc d) v.
Definition Qc_ltb (a b : Qc) : bool := negb (Qle_bool (this b) (this a)).
Definition maybe_reduce_py (rows : list (list Qc)) : option (bool * list (list Qc)) :=
  let nn := length (hd [] rows) in
  if Nat.ltb nn 2 then Some (false, rows) else
  match lookup nn projection_dispatch, lookup nn reduce_dispatch with
  | Some (P, d), Some (t, dr) =>
      let proj := map (project_with P d) rows in
      let err2 := sumsq (map (fun p => zipw Qcminus (fst p) (snd p)) (combine rows proj)) in
      let nrm2 := sumsq rows in
      let thr := Q2Qc REDUCE_THRESHOLD in
      let small := if Qc_eqb err2 (Q2Qc 0) then true else Qc_ltb err2 (thr * thr * nrm2) in
      if small then Some (true, map (reduce_with QcOps (qcm t) (Q2Qc dr)) rows) else Some (false, rows)
  | _, _ => None
  end.
Fixpoint full_reduce_py (fuel : nat) (rows : list (list Qc)) : option (list (list Qc)) :=
  match fuel with
  | O => Some rows
  | S f => match maybe_reduce_py rows with
           | None => None
           | Some (true, rows') => full_reduce_py f rows'
           | Some (false, rows') => Some rows'
           end
  end.
Definition elevate_py (v : list Qc) : list Qc := elevate QcOps v.
