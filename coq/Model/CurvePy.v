(* The Python entry points as they dispatch on tables read from the source (Gen/). *)
From Coq Require Import List Arith QArith Qcanon.
From BZ Require Import Base.Ops Base.QcInst Model.Curve Gen.PyCurveHelpers.
Import ListNotations.

Definition lookup {A} (k : nat) (tbl : list (nat * A)) : option A :=
  match find (fun e => Nat.eqb (fst e) k) tbl with Some e => Some (snd e) | None => None end.

(* hazmat.curve_helpers.subdivide_nodes (one coordinate row) *)
Definition subdivide_nodes_py (v : list Qc) : list Qc * list Qc :=
  match lookup (length v) subdivide_dispatch with
  | Some (l, r) => (matvec QcOps v (tcols l), matvec QcOps v (tcols r))
  | None => (subdivide_left QcOps v, subdivide_right QcOps v)
  end.

(* hazmat.curve_helpers.reduce_pseudo_inverse; None = UnsupportedDegree *)
Definition reduce_py (v : list Qc) : option (list Qc) :=
  match lookup (length v) reduce_dispatch with
  | Some (t, d) => Some (reduce_with QcOps (qcm t) (Q2Qc d) v)
  | None => None
  end.

Definition evaluate_multi_py (v : list Qc) (ss : list Qc) : list Qc :=
  eval_multi QcOps vs_max_nodes v ss.
Definition evaluate_hodograph_py (v : list Qc) (s : Qc) : Qc :=
  eval_hodograph QcOps vs_max_nodes v s.
