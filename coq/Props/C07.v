(* C07 - Compiled speedups and pure-Python code are observably equivalent (partial: kernel functions).
   In this family equivalence is "two refinements of one model": for every pair classified below the checks named
   there correspond BOTH configurations with one Gallina model whose theorems are in that property's file.
   Here: the twin constants agree and the classification is total.  Statements only. *)
From Coq Require Import List ZArith QArith Bool String.
From BZ Require Import Base.PyVal Gen.F90Const Gen.PyShims Gen.PyCurveHelpers Gen.PyFnHelpers Gen.StatusMap Theory.Twins Gen.F90Fn Gen.PyFnGeometric Theory.TwinsFn.
Import ListNotations.

Theorem C07_twin_constants_equal : forallb (fun t => Qeq_bool (snd (fst t)) (snd t)) twin_constants = true.
Proof. exact twin_constants_equal. Qed.
Print Assumptions C07_twin_constants_equal.
Theorem C07_wiggle_twin : forall v, py_wiggle_interval_default v = py_wiggle_interval v (VQ f90_helpers_WIGGLE).
Proof. exact wiggle_twin. Qed.
Print Assumptions C07_wiggle_twin.
Theorem C07_evaluation_switch_twin : f90_curve_vs_max_nodes = vs_max_nodes.
Proof. exact switch_twin. Qed.
Print Assumptions C07_evaluation_switch_twin.
Theorem C07_compiled_triangle_binomial_is_double : f90_triangle_binom_is_double = true.
Proof. exact compiled_binomial_is_double. Qed.
Print Assumptions C07_compiled_triangle_binomial_is_double.
(* every name the six shim modules bind (enumerated mechanically from their AST) is classified *)
Theorem C07_every_shim_is_classified :
  forallb (fun b => existsb (String.eqb (binding_name b)) (map fst shim_classes)) shim_bindings = true.
Proof. exact shim_enumeration. Qed.
Print Assumptions C07_every_shim_is_classified.

(* status codes -> exceptions: one enum in C header, Cython declaration and Fortran; the compiled C implements the Cython chain;
   every exception of a status has a pure-Python twin with the same class and message; the chains are well formed *)
Theorem C07_status_enum_agrees_in_three_languages :
  enum_eqb status_enum_h status_enum_pxd && enum_eqb status_enum_h status_enum_f90 = true.
Proof. exact status_enum_agrees_in_three_languages. Qed.
Print Assumptions C07_status_enum_agrees_in_three_languages.
Theorem C07_compiled_status_map_is_the_cython_one : rows_eqb status_map_c status_map_pyx = true.
Proof. exact compiled_status_map_is_the_cython_one. Qed.
Print Assumptions C07_compiled_status_map_is_the_cython_one.
Theorem C07_status_exceptions_have_python_twins :
  forallb (fun row => let '(_, st, _, raises) := row in compiled_only_status st || forallb has_python_twin raises) status_map_c = true.
Proof. exact status_exceptions_have_python_twins. Qed.
Print Assumptions C07_status_exceptions_have_python_twins.
Theorem C07_status_chains_well_formed :
  forallb (fun row => let '(_, st, _, _) := row in String.eqb st "default" || existsb (fun e => String.eqb (fst e) st) status_enum_h) status_map_c
  && forallb (fun f => existsb (fun row => let '(g, st, ret, raises) := row in
                                String.eqb f g && String.eqb st "SUCCESS" && ret && match raises with [] => true | _ => false end) status_map_c
                   && existsb (fun row => let '(g, st, _, _) := row in String.eqb f g && String.eqb st "default") status_map_c)
             ["curve_intersections"; "triangle_intersections"] = true.
Proof. exact status_chains_well_formed. Qed.
Print Assumptions C07_status_chains_well_formed.

(* ---- scalar kernels: the Fortran routine, REGENERATED from its source text into the value language of the regenerated Python
   function, equals its Python twin (every value where the two texts have one shape; every pair of planar nets / every quadruple
   of planar points otherwise) ---- *)
Theorem C07_in_interval_twin : forall v a b, f90_in_interval v a b = py_in_interval v a b.
Proof. exact in_interval_twin. Qed.
Print Assumptions C07_in_interval_twin.
Theorem C07_cross_product_twin : forall u v, f90_cross_product u v = py_cross_product u v.
Proof. exact cross_product_twin. Qed.
Print Assumptions C07_cross_product_twin.
Theorem C07_bbox_twin : forall n, f90_bbox n = py_bbox n.
Proof. exact bbox_twin. Qed.
Print Assumptions C07_bbox_twin.
Theorem C07_contains_nd_twin : forall n p, f90_contains_nd n p = py_contains_nd n p.
Proof. exact contains_nd_twin. Qed.
Print Assumptions C07_contains_nd_twin.
Theorem C07_wiggle_interval_twin : forall v, f90_wiggle_interval v = py_wiggle_interval v (VQ f90_helpers_WIGGLE).
Proof. exact wiggle_interval_twin. Qed.
Print Assumptions C07_wiggle_interval_twin.
Theorem C07_segment_intersection_twin : forall a b c d, f90_segment_intersection a b c d = py_segment_intersection a b c d.
Proof. exact segment_intersection_twin. Qed.
Print Assumptions C07_segment_intersection_twin.
Theorem C07_bbox_intersect_twin : forall x0 xs y0 ys u0 us v0 vs,
  f90_bbox_intersect (vq_mat [x0 :: xs; y0 :: ys]) (vq_mat [u0 :: us; v0 :: vs])
  = py_bbox_intersect (vq_mat [x0 :: xs; y0 :: ys]) (vq_mat [u0 :: us; v0 :: vs]).
Proof. exact bbox_intersect_twin. Qed.
Print Assumptions C07_bbox_intersect_twin.
Theorem C07_parallel_lines_parameters_twin : forall x0 y0 x1 y1 x2 y2 x3 y3,
  let F := f90_parallel_lines_parameters (V2 x0 y0) (V2 x1 y1) (V2 x2 y2) (V2 x3 y3) in
  let P := py_parallel_lines_parameters (V2 x0 y0) (V2 x1 y1) (V2 x2 y2) (V2 x3 y3) in
  vidx F 0 = vidx P 0 /\ (vidx P 0 = VB false -> val_close 0 (vidx P 1) (vidx F 1) = true).
Proof. exact parallel_lines_parameters_twin. Qed.
Print Assumptions C07_parallel_lines_parameters_twin.
Theorem C07_solve2x2_twin : forall lhs rhs, f90_solve2x2 lhs rhs = py_solve2x2 lhs rhs.
Proof. exact solve2x2_twin. Qed.
Print Assumptions C07_solve2x2_twin.
Theorem C07_line_line_collide_twin : forall ax ay bx by_ cx cy dx dy,
  f90_line_line_collide (L2 ax ay bx by_) (L2 cx cy dx dy) = py_line_line_collide (L2 ax ay bx by_) (L2 cx cy dx dy).
Proof. exact line_line_collide_twin. Qed.
Print Assumptions C07_line_line_collide_twin.
(* the compiled bbox_line_intersect has no Python entry point: this theorem is its only tie besides end-to-end sweeps *)
Theorem C07_bbox_line_intersect_twin : forall x0 xs y0 ys sx sy ex ey,
  f90_bbox_line_intersect (vq_mat [x0 :: xs; y0 :: ys]) (V2 sx sy) (V2 ex ey)
  = py_bbox_line_intersect (vq_mat [x0 :: xs; y0 :: ys]) (V2 sx sy) (V2 ex ey).
Proof. exact bbox_line_intersect_twin. Qed.
Print Assumptions C07_bbox_line_intersect_twin.
Theorem C07_newton_refine_solve_twin : forall (a b c d : val) x sx y sy,
  f90_newton_refine_solve (VTup [VTup [a]; VTup [b]; VTup [c]; VTup [d]]) x sx y sy
  = Gen.PyFnTriangleIntersection.py_newton_refine_solve (VTup [VTup [a]; VTup [b]; VTup [c]; VTup [d]]) x sx y sy.
Proof. exact newton_refine_solve_twin. Qed.
Print Assumptions C07_newton_refine_solve_twin.
