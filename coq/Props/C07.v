(* C07 - Compiled speedups and pure-Python code are observably equivalent (partial: kernel functions).
   In this family equivalence is "two refinements of one model": for every pair classified below the checks named
   there correspond BOTH configurations with one Gallina model whose theorems are in that property's file.
   Here: the twin constants agree and the classification is total.  Statements only. *)
From Coq Require Import List ZArith QArith Bool String.
From BZ Require Import Base.PyVal Gen.F90Const Gen.PyShims Gen.PyCurveHelpers Gen.PyFnHelpers Theory.Twins.
Import ListNotations.

Theorem C07_twin_constants_equal : forallb (fun t => Qeq_bool (snd (fst t)) (snd t)) twin_constants = true.
Proof. exact twin_constants_equal. Qed.
Print Assumptions C07_twin_constants_equal.
Theorem C07_wiggle_twin : forall v, py_wiggle_interval_default v = py_wiggle_interval v (VQ f90_helpers_WIGGLE).
Proof. exact wiggle_twin. Qed.
Print Assumptions C07_wiggle_twin.
Theorem C07_evaluation_switch_twin : f90_curve_vs_max_nodes = vs_max_nodes.
Proof. exact switch_twin. Qed.
Print Assumptions C07_evaluation_switch_twin.
Theorem C07_compiled_triangle_binomial_is_double : f90_triangle_binom_is_double = true.
Proof. exact compiled_binomial_is_double. Qed.
Print Assumptions C07_compiled_triangle_binomial_is_double.
(* every name the six shim modules bind (enumerated mechanically from their AST) is classified *)
Theorem C07_every_shim_is_classified :
  forallb (fun b => existsb (String.eqb (binding_name b)) (map fst shim_classes)) shim_bindings = true.
Proof. exact shim_enumeration. Qed.
Print Assumptions C07_every_shim_is_classified.
