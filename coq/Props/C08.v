(* C08 - Degree elevation preserves the shape; reduction inverts elevation. Statements only. *)
From Coq Require Import List Arith QArith Qcanon Reals Qreals.
From BZ Require Import Base.Ops Base.QcInst Base.RInst Model.Curve Model.CurvePy Gen.PyCurveHelpers
  Theory.CurveEval Theory.CurveElevate Theory.CurveReduce Model.Triangle Model.TriElevate Theory.TriLink Theory.TriElevateList.
Import ListNotations.

(* the elevated curve is the same map point for point: every degree, any field of characteristic 0 *)
Theorem C08_elevation_preserves_shape :
  forall (T : Type) (K : Ops T), field_of K -> char0 K ->
  forall (v : list T) (s : T), v <> [] ->
  bernstein K (elevate K v) (osub K (o1 K) s) s = bernstein K v (osub K (o1 K) s) s.
Proof. exact @elevate_correct. Qed.
Print Assumptions C08_elevation_preserves_shape.

(* end points unchanged bit-for-bit: they are copied (any arithmetic) *)
Theorem C08_elevation_copies_first :
  forall (T : Type) (K : Ops T) (v : list T), v <> [] -> hd (o0 K) (elevate K v) = hd (o0 K) v.
Proof. exact @elevate_first. Qed.
Print Assumptions C08_elevation_copies_first.
Theorem C08_elevation_copies_last :
  forall (T : Type) (K : Ops T) (v : list T), v <> [] -> last (elevate K v) (o0 K) = last v (o0 K).
Proof. exact @elevate_last. Qed.
Print Assumptions C08_elevation_copies_last.

(* reducing an elevated curve recovers the original control points: all real nets, the four supported degrees,
   with the tables and denominators read from the source *)
Theorem C08_reduce_inverts_elevate :
  forall v : list R, (1 <= length v <= 4)%nat -> reduce_gen ROps Q2R (elevate ROps v) = Some v.
Proof. exact reduce_elevate. Qed.
Print Assumptions C08_reduce_inverts_elevate.

(* the tables are the Moore-Penrose pseudo-inverse of the exact elevation operator E (E R = I, R E symmetric),
   i.e. reduction is the least-squares inverse; complete, since exactly these degrees are supported *)
Theorem C08_reduction_is_pseudo_inverse : forallb pinv_ok reduce_dispatch = true.
Proof. exact reduction_is_pseudo_inverse. Qed.
Print Assumptions C08_reduction_is_pseudo_inverse.

(* every other degree raises UnsupportedDegree *)
Theorem C08_unsupported_degree_raises :
  forall (T : Type) (K : Ops T) (emb : Q -> T) (v : list T),
  reduce_gen K emb v <> None <-> (2 <= length v <= 5)%nat.
Proof. exact @reduce_supported_iff. Qed.
Print Assumptions C08_unsupported_degree_raises.

(* full reduction: the projection of maybe_reduce is R.E and fixes every elevated net (relative error exactly 0) *)
Theorem C08_projection_is_R_E : forallb proj_ok projection_dispatch = true.
Proof. exact projection_is_R_E. Qed.
Print Assumptions C08_projection_is_R_E.
Theorem C08_projection_fixes_elevated :
  forall v : list R, (1 <= length v <= 4)%nat -> project_gen ROps Q2R (elevate ROps v) = Some (elevate ROps v).
Proof. exact project_elevate. Qed.
Print Assumptions C08_projection_fixes_elevated.

(* Triangle.elevate (hand model, tied by correspondence): the elevated triangle is the same map point for point -
   every degree, every net of the right size, every barycentric triple, any field of characteristic 0 *)
Theorem C08_triangle_elevation_preserves_shape :
  forall (T : Type) (K : Ops T), field_of K -> char0 K ->
  forall (d : nat) (v : list T) (l1 l2 l3 : T), length v = tri_size d -> oadd K (oadd K l1 l2) l3 = o1 K ->
  tri_bernstein K (S d) (tri_elevate K d v) l1 l2 l3 = tri_bernstein K d v l1 l2 l3.
Proof. exact @tri_elevate_correct. Qed.
Print Assumptions C08_triangle_elevation_preserves_shape.
(* ... and its three corners are the old corners in ANY arithmetic (no ring law is used: bit-for-bit) *)
Theorem C08_triangle_elevation_copies_corners :
  forall (T : Type) (K : Ops T) (d : nat) (v : list T),
  let g := fun_of K (split_rows (S (S d)) (tri_elevate K d v)) in
  let f := fun_of K (split_rows (S d) v) in
  g 0%nat 0%nat = f 0%nat 0%nat /\ g (S d) 0%nat = f d 0%nat /\ g 0%nat (S d) = f 0%nat d.
Proof. exact @tri_elevate_corners. Qed.
Print Assumptions C08_triangle_elevation_copies_corners.

Example C08_example :
  match full_reduce_py 8 [elevate_py (elevate_py (qcs [0; 1; 3]%Q))] with
  | Some [r] => vec_eqb r (qcs [0; 1; 3]%Q) | _ => false end = true.
Proof. vm_compute. reflexivity. Qed.
