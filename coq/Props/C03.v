(* C03 - No well-conditioned curve-curve intersection is missed or duplicated (partial: what pruning and
   bookkeeping can never do wrong; convergence of the subdivision/Newton pipeline is swept, not proved). Statements only. *)
From Coq Require Import List ZArith QArith Bool String Reals Qreals.
From BZ Require Import Base.Ops Base.RInst Base.PyVal Model.Curve Model.Intersect Gen.PyFnHelpers Gen.PyFnGeometric Gen.PyFnIntersect
  Gen.PyIntersectionHelpers Theory.CurveEvalExtra Theory.Predicates Theory.IntersectFlow Theory.IntersectPrune Theory.IntersectPruneR
  Theory.LocateTheory Theory.RoundTheory Base.QcInst Model.Rounds Theory.Hom Theory.RoundModelTheory
  Model.Hull Theory.HullLattice Theory.ClipSound Theory.PruneSound.
Import ListNotations.

(* curves whose control-point boxes are disjoint have no common point: the empty answer is right, every degree *)
Theorem C03_disjoint_boxes_have_no_common_point :
  forall (thr : nat) (v1x v1y v2x v2y : list R) (l1 r1 b1 t1 l2 r2 b2 t2 s t : R),
  v1x <> [] -> v1y <> [] -> v2x <> [] -> v2y <> [] ->
  within l1 r1 v1x -> within b1 t1 v1y -> within l2 r2 v2x -> within b2 t2 v2y ->
  (r2 < l1 \/ r1 < l2 \/ t2 < b1 \/ t1 < b2)%R -> (0 <= s <= 1)%R -> (0 <= t <= 1)%R ->
  ~ (eval_bary ROps thr v1x (1 - s)%R s = eval_bary ROps thr v2x (1 - t)%R t /\
     eval_bary ROps thr v1y (1 - s)%R s = eval_bary ROps thr v2y (1 - t)%R t).
Proof. exact bbox_disjoint_sound. Qed.
Print Assumptions C03_disjoint_boxes_have_no_common_point.

(* two non-parallel segments: exactly one column when they meet, none otherwise (regenerated check_lines) *)
Theorem C03_line_line_complete : forall x0 y0 x1 y1 x2 y2 x3 y3 c1 c2,
  (~ (x1 - x0) * (y3 - y2) - (y1 - y0) * (x3 - x2) == 0)%Q ->
  exists s t, (x0 + s * (x1 - x0) == x2 + t * (x3 - x2))%Q /\ (y0 + s * (y1 - y0) == y2 + t * (y3 - y2))%Q /\
    py_check_lines (lin_rec x0 y0 x1 y1 0 c1) (lin_rec x2 y2 x3 y3 0 c2)
    = if Qle_bool 0 s && Qle_bool s 1 && (Qle_bool 0 t && Qle_bool t 1)
      then VTup [VB true; VTup [VTup [VTup [VQ s]; VTup [VQ t]]; VB false]]
      else VTup [VB true; VTup [VTup [VTup []; VTup []]; VB false]].
Proof. exact check_lines_complete. Qed.
Print Assumptions C03_line_line_complete.

(* de-duplication: a pair is appended or the list is unchanged; pairs farther apart than 2^-36 sqrt 2 are never merged;
   an exact repeat is always merged *)
Theorem C03_dedup_appends_or_keeps : forall s t ints,
  add_intersection s t ints = ints \/ add_intersection s t ints = (ints ++ [(s, t)])%list.
Proof. exact add_intersection_spec. Qed.
Print Assumptions C03_dedup_appends_or_keeps.
Theorem C03_distinct_crossings_are_never_merged : forall s t ints,
  (0 <= s <= 1)%Q -> (0 <= t <= 1)%Q ->
  (forall e, In e ints ->
     (2 * (NEWTON_ERROR_RATIO * NEWTON_ERROR_RATIO) <= (s - fst e) * (s - fst e) + (t - snd e) * (t - snd e))%Q) ->
  ints <> [] -> add_intersection s t ints = (ints ++ [(s, t)])%list.
Proof. exact add_intersection_keeps_distinct. Qed.
Print Assumptions C03_distinct_crossings_are_never_merged.
Theorem C03_exact_repeat_is_merged : forall s t ints,
  In (s, t) ints -> (0 < s)%Q -> (0 < t)%Q -> add_intersection s t ints = ints.
Proof. exact add_intersection_merges_equal. Qed.
Print Assumptions C03_exact_repeat_is_merged.

(* ---- the subdivision stage never drops a common point (exact arithmetic, every degree) ----
   A candidate pair covers a common point B1(s) = B2(t) when its members are the restrictions of the original curves to
   parameter intervals containing s and t (Restr).  The initial pair covers every common point; a covering pair is never
   classified DISJOINT by the REGENERATED bbox_intersect; and one of its four pairs of halves covers the point again.
   (A Linearization with non-zero error replaces the curve by its chord: outside this statement, as are the end-games.) *)
Theorem C03_initial_pair_covers : forall ox oy : list R,
  (2 <= List.length ox)%nat -> (2 <= List.length oy)%nat -> Restr ox oy ox oy 0%R 1%R.
Proof. exact Restr_initial. Qed.
Print Assumptions C03_initial_pair_covers.
Theorem C03_covering_pair_is_never_classified_disjoint :
  forall (o1x o1y o2x o2y : list R) (x10 : Q) (x1 : list Q) (y10 : Q) (y1 : list Q) (x20 : Q) (x2 : list Q) (y20 : Q) (y2 : list Q)
         (a1 b1 a2 b2 s t : R),
  Restr o1x o1y (map Q2R (x10 :: x1)) (map Q2R (y10 :: y1)) a1 b1 ->
  Restr o2x o2y (map Q2R (x20 :: x2)) (map Q2R (y20 :: y2)) a2 b2 ->
  (a1 <= s <= b1)%R -> (a2 <= t <= b2)%R -> B o1x s = B o2x t -> B o1y s = B o2y t ->
  py_bbox_intersect (vq_mat [x10 :: x1; y10 :: y1]) (vq_mat [x20 :: x2; y20 :: y2]) <> VEnum "DISJOINT".
Proof. exact covering_pair_is_not_classified_disjoint. Qed.
Print Assumptions C03_covering_pair_is_never_classified_disjoint.
Theorem C03_covering_pair_has_a_covering_child :
  forall (o1x o1y o2x o2y c1x c1y c2x c2y : list R) (a1 b1 a2 b2 s t : R),
  Restr o1x o1y c1x c1y a1 b1 -> Restr o2x o2y c2x c2y a2 b2 -> (a1 <= s <= b1)%R -> (a2 <= t <= b2)%R ->
  exists c1x' c1y' a1' b1' c2x' c2y' a2' b2',
    In (c1x', c1y', a1', b1') [(subdivide_left ROps c1x, subdivide_left ROps c1y, a1, ((a1 + b1) / 2)%R);
                               (subdivide_right ROps c1x, subdivide_right ROps c1y, ((a1 + b1) / 2)%R, b1)] /\
    In (c2x', c2y', a2', b2') [(subdivide_left ROps c2x, subdivide_left ROps c2y, a2, ((a2 + b2) / 2)%R);
                               (subdivide_right ROps c2x, subdivide_right ROps c2y, ((a2 + b2) / 2)%R, b2)] /\
    Restr o1x o1y c1x' c1y' a1' b1' /\ Restr o2x o2y c2x' c2y' a2' b2' /\ (a1' <= s <= b1')%R /\ (a2' <= t <= b2')%R.
Proof. exact covering_pair_has_a_covering_child. Qed.
Print Assumptions C03_covering_pair_has_a_covering_child.

(* ... and about the EXECUTABLE candidate-flow model (Model/Rounds.v, corresponded round by round with the real loop): step_pair never
   drops the pair of non-linearized candidates that covers a common point - it is not classified Disjoint, and when it is classified
   Intersection one of the pairs handed to the next round covers the point again; the initial pair covers every common point *)
Theorem C03_model_round_keeps_the_common_point :
  forall (o1x o1y o2x o2y : list R) (f s : cand) (ps pt : R),
  Rounds.lin f = false -> Rounds.lin s = false ->
  CoverC o1x o1y f ps -> CoverC o2x o2y s pt -> B o1x ps = B o2x pt -> B o1y ps = B o2y pt ->
  classify f s <> Disjoint /\
  (classify f s = Intersection ->
   exists f' s', In (f', s') (fst (step_pair (f, s))) /\ CoverC o1x o1y f' ps /\ CoverC o2x o2y s' pt).
Proof. exact step_pair_keeps_the_common_point. Qed.
Print Assumptions C03_model_round_keeps_the_common_point.
Theorem C03_model_initial_pair_covers : forall (x1 y1 x2 y2 : list Q) (ps pt : R),
  (2 <= List.length x1)%nat -> (2 <= List.length y1)%nat -> (2 <= List.length x2)%nat -> (2 <= List.length y2)%nat ->
  (0 <= ps <= 1)%R -> (0 <= pt <= 1)%R ->
  match initial x1 y1 x2 y2 with
  | [(f, s)] => CoverC (map Q2R x1) (map Q2R y1) f ps /\ CoverC (map Q2R x2) (map Q2R y2) s pt
  | _ => False
  end.
Proof. exact initial_covers. Qed.
Print Assumptions C03_model_initial_pair_covers.

(* ... while the Tangent branch is NOT complete (finding F2 as a theorem about the model): the folded vertical segment
   (1,0), (1,2), (1,1) and the curve (1,5/4), (2,2), (3,5/4) meet at B1(1/2) = B2(0); the initial pair covers that point, is
   classified Tangent (the boxes touch along x = 1), produces no candidate for the next round and is handed to the end-point
   comparison only - which cannot find a point that is interior to curve 1 *)
Theorem C03_tangent_branch_refuted :
  exists f s, initial f2_x1 f2_y1 f2_x2 f2_y2 = [(f, s)] /\
    Rounds.lin f = false /\ Rounds.lin s = false /\
    CoverC (map Q2R f2_x1) (map Q2R f2_y1) f (/ 2)%R /\ CoverC (map Q2R f2_x2) (map Q2R f2_y2) s 0%R /\
    classify f s = Tangent /\ fst (step_pair (f, s)) = [] /\
    snd (step_pair (f, s)) = [EvTangent f s] /\
    B (map Q2R f2_x1) (/ 2)%R = B (map Q2R f2_x2) 0%R /\ B (map Q2R f2_y1) (/ 2)%R = B (map Q2R f2_y2) 0%R.
Proof. exact tangent_branch_loses_a_common_point. Qed.
Print Assumptions C03_tangent_branch_refuted.

(* ---- pruning by convex hulls (more than 64 candidates) never discards a common point - certified per instance ----
   If simple_convex_hull returns the convex hull of each control net (hull_ok = true: every control point inside, strictly convex,
   counter-clockwise; a computable check, and a theorem for every net on the 4 x 4 lattice) and polygon_collide of the two
   hulls is false, the two curves have no common point, for all real parameters in [0,1]; every degree.  (A linear functional
   on a strictly convex polygon is extremal at a vertex: only the two edges at that vertex are needed.) *)
Theorem C03_hull_pruning_is_sound : forall (x1 y1 x2 y2 : list Q),
  List.length x1 = List.length y1 -> List.length x2 = List.length y2 -> x1 <> [] -> x2 <> [] ->
  hull_ok (combine x1 y1) = true -> hull_ok (combine x2 y2) = true ->
  polygon_collide (simple_convex_hull (combine x1 y1)) (simple_convex_hull (combine x2 y2)) = false ->
  forall s t : R, (0 <= s <= 1)%R -> (0 <= t <= 1)%R -> ~ (BR x1 s = BR x2 t /\ BR y1 s = BR y2 t).
Proof. exact hull_pruning_is_sound. Qed.
Print Assumptions C03_hull_pruning_is_sound.
(* on the 4 x 4 lattice no certificate is needed *)
Theorem C03_hull_pruning_is_sound_on_the_lattice : forall (x1 y1 x2 y2 : list Q),
  List.length x1 = List.length y1 -> List.length x2 = List.length y2 -> x1 <> [] -> x2 <> [] ->
  (forall p, In p (combine x1 y1) -> In p (lattice 4)) -> (forall p, In p (combine x2 y2) -> In p (lattice 4)) ->
  polygon_collide (simple_convex_hull (combine x1 y1)) (simple_convex_hull (combine x2 y2)) = false ->
  forall s t : R, (0 <= s <= 1)%R -> (0 <= t <= 1)%R -> ~ (BR x1 s = BR x2 t /\ BR y1 s = BR y2 t).
Proof.
  exact (fun x1 y1 x2 y2 L1 L2 N1 N2 H1 H2 =>
    hull_pruning_is_sound x1 y1 x2 y2 L1 L2 N1 N2 (hull_is_the_convex_hull_on_the_4x4_lattice _ H1) (hull_is_the_convex_hull_on_the_4x4_lattice _ H2)).
Qed.
Print Assumptions C03_hull_pruning_is_sound_on_the_lattice.
