(* C20 - Overlapping curves are reported as a shared segment, never dropped (partial: the collinear-segment case is
   complete; the general case is the case split of coincident_parameters with locate_point as an oracle). Statements only. *)
From Coq Require Import List ZArith QArith Qabs Bool String.
From BZ Require Import Base.PyVal Gen.PyFnHelpers Gen.PyFnGeometric Gen.PyFnIntersect Theory.Predicates Theory.IntersectFlow.
From BZ Require Import Base.Ops Model.Curve Theory.CurveSubdiv.
Import ListNotations.
Open Scope Q_scope.
Open Scope string_scope.

(* collinear segments: when a shared part is reported its two columns are the same two points in both
   parametrisations, all parameters lie in [0,1], and the SECOND-curve parameter is non-decreasing
   (so the first-curve parameter decreases when the segments have opposite direction: finding F10) *)
Theorem C20_collinear_shared_segment : forall x0 y0 x1 y1 x2 y2 x3 y3 ss es st et,
  ~ (x1 - x0) * (x1 - x0) + (y1 - y0) * (y1 - y0) == 0 ->
  py_parallel_lines_parameters (V2 x0 y0) (V2 x1 y1) (V2 x2 y2) (V2 x3 y3) = VTup [VB false; params ss es st et] ->
  exists a b, a * ((x1 - x0) * (x1 - x0) + (y1 - y0) * (y1 - y0)) == (x2 - x0) * (x1 - x0) + (y2 - y0) * (y1 - y0) /\
              b * ((x1 - x0) * (x1 - x0) + (y1 - y0) * (y1 - y0)) == (x3 - x0) * (x1 - x0) + (y3 - y0) * (y1 - y0) /\
    0 <= ss <= 1 /\ 0 <= es <= 1 /\ 0 <= st <= 1 /\ 0 <= et <= 1 /\ st <= et /\
    ss == a + st * (b - a) /\ es == a + et * (b - a) /\
    x0 * (y1 - y0) - y0 * (x1 - x0) == x2 * (y1 - y0) - y2 * (x1 - x0).
Proof. exact parallel_lines_shared_segment. Qed.
Print Assumptions C20_collinear_shared_segment.

(* ... and nothing is dropped: "disjoint" is answered exactly when the segments are not on one line or their
   parameter ranges are apart *)
Theorem C20_collinear_never_dropped : forall x0 y0 x1 y1 x2 y2 x3 y3 a b,
  ~ (x1 - x0) * (x1 - x0) + (y1 - y0) * (y1 - y0) == 0 ->
  a * ((x1 - x0) * (x1 - x0) + (y1 - y0) * (y1 - y0)) == (x2 - x0) * (x1 - x0) + (y2 - y0) * (y1 - y0) ->
  b * ((x1 - x0) * (x1 - x0) + (y1 - y0) * (y1 - y0)) == (x3 - x0) * (x1 - x0) + (y3 - y0) * (y1 - y0) ->
  (py_parallel_lines_parameters (V2 x0 y0) (V2 x1 y1) (V2 x2 y2) (V2 x3 y3) = VTup [VB true; VNone] <->
   (~ x0 * (y1 - y0) - y0 * (x1 - x0) == x2 * (y1 - y0) - y2 * (x1 - x0)) \/ (a < 0 /\ b < 0) \/ (1 < a /\ 1 < b)).
Proof. exact parallel_lines_disjoint_iff. Qed.
Print Assumptions C20_collinear_never_dropped.

(* the coincident flag is set for a shared segment of two lines, and only then *)
Theorem C20_lines_flagged : forall x0 y0 x1 y1 x2 y2 x3 y3 c1 c2 ss es st et,
  ~ (x1 - x0) * (x1 - x0) + (y1 - y0) * (y1 - y0) == 0 ->
  py_check_lines (lin_rec x0 y0 x1 y1 0 c1) (lin_rec x2 y2 x3 y3 0 c2) = VTup [VB true; VTup [params ss es st et; VB true]] ->
  0 <= ss <= 1 /\ 0 <= es <= 1 /\ 0 <= st <= 1 /\ 0 <= et <= 1 /\ st <= et.
Proof. exact check_lines_coincident_in_unit. Qed.
Print Assumptions C20_lines_flagged.

(* general curves: the twelve-way case split of coincident_parameters is total: None (-> the documented
   NotImplementedError) or exactly two columns built from 0, 1 and located end points *)
Theorem C20_coincident_case_split_total : forall o_msd o_loc o_spec o_vc n1 n2,
  locate_ok o_loc ->
  py_coincident_parameters o_msd o_loc o_spec o_vc n1 n2 = VNone \/
  exists a b c d, py_coincident_parameters o_msd o_loc o_spec o_vc n1 n2 = VTup [VTup [a; b]; VTup [c; d]] /\
                  in_unit a /\ in_unit b /\ in_unit c /\ in_unit d.
Proof. exact coincident_parameters_in_unit. Qed.
Print Assumptions C20_coincident_case_split_total.

(* general (curved) case: a reported shared segment ((s0, t0), (s1, t1)) passed the closeness check on exactly the reported sub-arcs
   - vector_close was asked about, and accepted, specialize(curve1, s0, s1) (or curve1 itself when the whole of it is claimed)
   against specialize(curve2, t0, t1) (or curve2 itself) - whatever the oracles (make_same_degree, locate_point, specialize_curve,
   vector_close) answer; regenerated function *)
Theorem C20_reported_segment_passed_the_closeness_check : forall o_msd o_loc o_spec o_vc n1 n2 s0 t0 s1 t1,
  py_coincident_parameters o_msd o_loc o_spec o_vc n1 n2 = VTup [VTup [s0; t0]; VTup [s1; t1]] ->
  let m1 := vidx (o_msd n1 n2) 0 in let m2 := vidx (o_msd n1 n2) 1 in
  (t0 = VQ 0 /\ t1 = VQ 1 /\ truth (o_vc (o_spec m1 s0 s1) m2) = true) \/
  (s0 = VQ 0 /\ s1 = VQ 1 /\ truth (o_vc m1 (o_spec m2 t0 t1)) = true) \/
  truth (o_vc (o_spec m1 s0 s1) (o_spec m2 t0 t1)) = true.
Proof. exact coincident_result_passed_the_closeness_check. Qed.
Print Assumptions C20_reported_segment_passed_the_closeness_check.
(* ... and what the check means: sub-arcs whose specialized nets are equal are the same curve point for point (any commutative
   ring, every degree; sigma is the common parameter of the two sub-arcs) *)
Theorem C20_equal_specializations_are_the_same_arc : forall (T : Type) (K : Ops T), ring_of K ->
  forall v1 v2 a1 b1 a2 b2 s, (2 <= List.length v1)%nat -> (2 <= List.length v2)%nat ->
  specialize K v1 a1 b1 = specialize K v2 a2 b2 ->
  bernstein K v1 (osub K (o1 K) (oadd K (omul K (osub K (o1 K) s) a1) (omul K s b1))) (oadd K (omul K (osub K (o1 K) s) a1) (omul K s b1))
  = bernstein K v2 (osub K (o1 K) (oadd K (omul K (osub K (o1 K) s) a2) (omul K s b2))) (oadd K (omul K (osub K (o1 K) s) a2) (omul K s b2)).
Proof. exact @equal_specializations_coincide. Qed.
Print Assumptions C20_equal_specializations_are_the_same_arc.

(* ---- the two clauses of the statement that the code does NOT satisfy, as theorems about the regenerated check_lines
   (known findings F13 and F10; the same inputs fail on the implementation) ---- *)
(* F13: two segments of one line touching in a single point are reported as a FLAGGED zero-width shared segment *)
Theorem C20_touching_collinear_segments_refuted :
  py_check_lines (lin_rec 0 0 1 0 0 VNone) (lin_rec 1 0 2 0 0 VNone)
  = VTup [VB true; VTup [VTup [VTup [VQ 1; VQ 1]; VTup [VQ 0; VQ 0]]; VB true]].
Proof. vm_compute. reflexivity. Qed.
Print Assumptions C20_touching_collinear_segments_refuted.
(* F10: for segments of opposite direction the two end points come in the SECOND curve's order: the first-curve parameter decreases *)
Theorem C20_order_along_the_first_curve_refuted : exists s0 s1 t0 t1,
  py_check_lines (lin_rec 0 0 2 0 0 VNone) (lin_rec 3 0 1 0 0 VNone)
  = VTup [VB true; VTup [VTup [VTup [VQ s0; VQ s1]; VTup [VQ t0; VQ t1]]; VB true]] /\ s1 < s0 /\ t0 < t1.
Proof. do 4 eexists. split; [vm_compute; reflexivity|]. split; reflexivity. Qed.
Print Assumptions C20_order_along_the_first_curve_refuted.
