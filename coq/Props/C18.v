(* C18 - Curve self-intersections (partial: the shape of the result; genuineness / completeness inherit C02/C03). *)
From Coq Require Import List ZArith QArith Bool.
From Coq Require Import Qcanon Reals.
From BZ Require Import Base.Ops Base.QcInst Model.Curve Model.SelfIsect Theory.SelfIsectTheory Model.SelfIsectN Theory.SelfIsectGenuine Base.RInst Theory.Monotone Model.Intersect Theory.Uniq.
Import ListNotations.
Open Scope Q_scope.

(* whatever the turning-angle test and the left-vs-right intersection call answer (pairs of the unit square), every
   reported pair satisfies 0 <= s1 < s2 <= 1: in particular the trivial meeting of two halves is never reported,
   at any recursion depth; out-of-fuel (RecursionError, finding F7) is the explicit None *)
Theorem C18_reported_pairs_are_strictly_ordered : forall fuel st res st',
  streams_ok st -> self_isect fuel st = Some (res, st') -> Forall ordered res /\ streams_ok st'.
Proof. exact self_isect_ordered. Qed.
Print Assumptions C18_reported_pairs_are_strictly_ordered.

(* a curve whose turning angle is below pi returns the empty result *)
Theorem C18_small_turning_angle_is_empty : forall fuel rest ints,
  self_isect (S fuel) {| angles := true :: rest; isects := ints |} = Some ([], {| angles := rest; isects := ints |}).
Proof. reflexivity. Qed.
Print Assumptions C18_small_turning_angle_is_empty.

(* genuineness at every depth: with the control nets carried along (Model/SelfIsectN.v, any field of characteristic 0), if every
   answer of the inner all_intersections(left, right) calls is a set of common points of the two halves it was asked about
   (C02), then every reported pair (s1, s2) satisfies B(s1) = B(s2) on the ORIGINAL curve: the rescaling s/2, (1+t)/2 of the
   glue is exactly the reparametrisation of the halves. *)
Theorem C18_reported_pairs_are_self_intersections :
  forall (T : Type) (K : Ops T), field_of K -> char0 K -> forall (eqb : T -> T -> bool) (dup : T * T -> T * T -> bool) fuel rows st res calls st',
  wf_rows rows -> self_isect_n K eqb dup fuel rows st = Some (res, calls, st') ->
  Forall (genuine_call K) calls -> forall p, In p res -> point K rows (fst p) = point K rows (snd p).
Proof. exact @reported_pairs_are_self_intersections. Qed.
Print Assumptions C18_reported_pairs_are_self_intersections.
(* non-vacuity: the cubic loop x = (-9, 13, -13, 9), y = (0, 1, 1, 0) meets itself at s = 1/4 and s = 3/4; with the genuine
   answers of the oracles (large angle, then two small; the halves meet at (1/2, 1/2) and at the junction (1, 0)) the model
   reports exactly (1/4, 3/4), and the crossing answer is genuine for the two halves *)
Example C18_cubic_loop :
  let rows := qcm [[-9; 13; -13; 9]; [0; 1; 1; 0]] in
  let st := mkS [false; true; true] [[(Q2Qc (1 # 2), Q2Qc (1 # 2)); (Q2Qc 1, Q2Qc 0)]] in
  match self_isect_n QcOps Qc_eqb (fun _ _ => false) 5 rows st with
  | Some (res, [(l, r, _)], _) =>
      map (fun p => (this (fst p), this (snd p))) res = [(1 # 4, 3 # 4)] /\
      map this (point QcOps l (Q2Qc (1 # 2))) = map this (point QcOps r (Q2Qc (1 # 2))) /\
      map this (point QcOps l (Q2Qc 1)) = map this (point QcOps r (Q2Qc 0))
  | _ => False
  end.
Proof. vm_compute. repeat split; reflexivity. Qed.

(* the empty answer is the CORRECT one for the curves the property exempts: if every hodograph control vector
   (x_{i+1} - x_i, y_{i+1} - y_i) has a positive component along one direction (a, b) - all of them in one open half-plane -
   the curve is injective on [0,1]: two different parameters never give the same point.  Every degree, real arithmetic
   (the harness selects its "convex arc" family by exactly this certificate, in rational arithmetic) *)
Theorem C18_half_plane_curves_have_no_self_intersection : forall (xs ys : list R) (a b s t : R),
  List.length xs = List.length ys -> (2 <= List.length xs)%nat -> allpos (diffs (lin2 a b xs ys)) ->
  (0 <= s <= 1)%R -> (0 <= t <= 1)%R -> s <> t ->
  ~ (bernstein ROps xs (1 - s)%R s = bernstein ROps xs (1 - t)%R t /\
     bernstein ROps ys (1 - s)%R s = bernstein ROps ys (1 - t)%R t).
Proof. exact half_plane_hodograph_is_injective. Qed.
Print Assumptions C18_half_plane_curves_have_no_self_intersection.
(* non-vacuity: the parabola x = (0, 1, 2), y = (0, 1, 0) with direction (1, 0) *)
Example C18_half_plane_example : allpos (diffs (lin2 1 0 [0; 1; 2]%R [0; 1; 0]%R)).
Proof. unfold allpos. cbn [lin2 zipw diffs]. repeat constructor; Lra.lra. Qed.

(* "returned exactly once" (after the repair of finding F19 - a crossing with a parameter exactly on a split point used to be
   reported once by the left-right intersection and again inside the half that has the split point as an end point): in the
   reported list no entry repeats an earlier one, with add_intersection's own notion of repeated (relative distance below
   NEWTON_ERROR_RATIO, read from the source); and the removal loses nothing - every pair found by one of the three sources
   is reported or repeats a reported pair.  Whatever the oracles answer, at every level of the recursion *)
Theorem C18_nothing_is_reported_twice : forall fuel st res st',
  self_isect fuel st = Some (res, st') ->
  forall l1 p l2, res = l1 ++ p :: l2 -> existsb (dupQ p) l1 = false.
Proof. exact self_isect_reports_nothing_twice. Qed.
Print Assumptions C18_nothing_is_reported_twice.
Theorem C18_removal_of_repeats_loses_nothing : forall l p, In p l ->
  In p (uniq l) \/ exists e, In e (uniq l) /\ dupQ p e = true.
Proof. exact uniq_loses_nothing. Qed.
Print Assumptions C18_removal_of_repeats_loses_nothing.
(* non-vacuity: what the three sources deliver for the cubic (-45, 29, -17, 9), (-63/16, 17/16, 33/16, -15/16), which crosses
   itself once, at s = 1/2 and s = 3/4 (and for a crossing at 1/6, 1/2, where the copies differ in the last bit) *)
Example C18_split_point_crossing_once :
  uniq [(1 # 2, 3 # 4); (1 # 2, 3 # 4); (1 # 2, 3 # 4)] = [(1 # 2, 3 # 4)] /\
  List.length (uniq [(6004799503160661 # 36028797018963968, 1 # 2); (6004799503160660 # 36028797018963968, 1 # 2)]) = 1%nat.
Proof. vm_compute. split; reflexivity. Qed.
