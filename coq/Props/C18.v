(* C18 - Curve self-intersections (partial: the shape of the result; genuineness / completeness inherit C02/C03). *)
From Coq Require Import List ZArith QArith Bool.
From BZ Require Import Model.SelfIsect Theory.SelfIsectTheory.
Import ListNotations.
Open Scope Q_scope.

(* whatever the turning-angle test and the left-vs-right intersection call answer (pairs of the unit square), every
   reported pair satisfies 0 <= s1 < s2 <= 1: in particular the trivial meeting of two halves is never reported,
   at any recursion depth; out-of-fuel (RecursionError, finding F7) is the explicit None *)
Theorem C18_reported_pairs_are_strictly_ordered : forall fuel st res st',
  streams_ok st -> self_isect fuel st = Some (res, st') -> Forall ordered res /\ streams_ok st'.
Proof. exact self_isect_ordered. Qed.
Print Assumptions C18_reported_pairs_are_strictly_ordered.

(* a curve whose turning angle is below pi returns the empty result *)
Theorem C18_small_turning_angle_is_empty : forall fuel rest ints,
  self_isect (S fuel) {| angles := true :: rest; isects := ints |} = Some ([], {| angles := rest; isects := ints |}).
Proof. reflexivity. Qed.
Print Assumptions C18_small_turning_angle_is_empty.
