(* C18 - Curve self-intersections (partial: the shape of the result; genuineness / completeness inherit C02/C03). *)
From Coq Require Import List ZArith QArith Bool.
From Coq Require Import Qcanon.
From BZ Require Import Base.Ops Base.QcInst Model.Curve Model.SelfIsect Theory.SelfIsectTheory Model.SelfIsectN Theory.SelfIsectGenuine.
Import ListNotations.
Open Scope Q_scope.

(* whatever the turning-angle test and the left-vs-right intersection call answer (pairs of the unit square), every
   reported pair satisfies 0 <= s1 < s2 <= 1: in particular the trivial meeting of two halves is never reported,
   at any recursion depth; out-of-fuel (RecursionError, finding F7) is the explicit None *)
Theorem C18_reported_pairs_are_strictly_ordered : forall fuel st res st',
  streams_ok st -> self_isect fuel st = Some (res, st') -> Forall ordered res /\ streams_ok st'.
Proof. exact self_isect_ordered. Qed.
Print Assumptions C18_reported_pairs_are_strictly_ordered.

(* a curve whose turning angle is below pi returns the empty result *)
Theorem C18_small_turning_angle_is_empty : forall fuel rest ints,
  self_isect (S fuel) {| angles := true :: rest; isects := ints |} = Some ([], {| angles := rest; isects := ints |}).
Proof. reflexivity. Qed.
Print Assumptions C18_small_turning_angle_is_empty.

(* genuineness at every depth: with the control nets carried along (Model/SelfIsectN.v, any field of characteristic 0), if every
   answer of the inner all_intersections(left, right) calls is a set of common points of the two halves it was asked about
   (C02), then every reported pair (s1, s2) satisfies B(s1) = B(s2) on the ORIGINAL curve: the rescaling s/2, (1+t)/2 of the
   glue is exactly the reparametrisation of the halves. *)
Theorem C18_reported_pairs_are_self_intersections :
  forall (T : Type) (K : Ops T), field_of K -> char0 K -> forall (eqb : T -> T -> bool) fuel rows st res calls st',
  wf_rows rows -> self_isect_n K eqb fuel rows st = Some (res, calls, st') ->
  Forall (genuine_call K) calls -> forall p, In p res -> point K rows (fst p) = point K rows (snd p).
Proof. exact @reported_pairs_are_self_intersections. Qed.
Print Assumptions C18_reported_pairs_are_self_intersections.
(* non-vacuity: the cubic loop x = (-9, 13, -13, 9), y = (0, 1, 1, 0) meets itself at s = 1/4 and s = 3/4; with the genuine
   answers of the oracles (large angle, then two small; the halves meet at (1/2, 1/2) and at the junction (1, 0)) the model
   reports exactly (1/4, 3/4), and the crossing answer is genuine for the two halves *)
Example C18_cubic_loop :
  let rows := qcm [[-9; 13; -13; 9]; [0; 1; 1; 0]] in
  let st := mkS [false; true; true] [[(Q2Qc (1 # 2), Q2Qc (1 # 2)); (Q2Qc 1, Q2Qc 0)]] in
  match self_isect_n QcOps Qc_eqb 5 rows st with
  | Some (res, [(l, r, _)], _) =>
      map (fun p => (this (fst p), this (snd p))) res = [(1 # 4, 3 # 4)] /\
      map this (point QcOps l (Q2Qc (1 # 2))) = map this (point QcOps r (Q2Qc (1 # 2))) /\
      map this (point QcOps l (Q2Qc 1)) = map this (point QcOps r (Q2Qc 0))
  | _ => False
  end.
Proof. vm_compute. repeat split; reflexivity. Qed.
