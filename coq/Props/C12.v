(* C12 - Length and area equal the defining integrals (area: proof; length: see DESIGN.md, not modelled). Statements only. *)
From Coq Require Import List Arith QArith Reals Qreals.
From BZ Require Import Base.Ops Base.RInst Model.Curve Model.AreaPoly Gen.PyTriangleHelpers Theory.AreaTheory.
From Coq Require Import Bool.
From BZ Require Import Model.CurvePy Gen.F90Const Theory.Twins Theory.AreaTranslate.
Import ListNotations.

(* shoelace_for_area (triples and scale factor read from the source) IS the Green boundary integral
   1/2 int_0^1 (x y' - y x') ds of the Bezier edge, for all real control nets of edge degree 1..4 *)
Theorem C12_shoelace_is_green_integral :
  forall vx vy : list R, length vx = length vy -> (2 <= length vx <= 5)%nat ->
  shoelace_gen ROps Q2R vx vy = Some (green_edge ROps vx vy).
Proof. exact shoelace_is_green_integral. Qed.
Print Assumptions C12_shoelace_is_green_integral.

(* degree >= 5 (and degree 0) raises *)
Theorem C12_unsupported_edge_degree_raises :
  forall (T : Type) (K : Ops T) (emb : Q -> T) (vx vy : list T),
  shoelace_gen K emb vx vy <> None <-> (2 <= length vx <= 5)%nat.
Proof. exact @shoelace_supported_iff. Qed.
Print Assumptions C12_unsupported_edge_degree_raises.

(* the area of a triangle / curved polygon is the sum of its edge integrals *)
Theorem C12_area_is_sum_of_edge_integrals :
  forall edges : list (list R * list R),
  Forall (fun e => length (fst e) = length (snd e) /\ (2 <= length (fst e) <= 5)%nat) edges ->
  compute_area_gen ROps Q2R edges = Some (fold_right (fun e acc => (green_edge ROps (fst e) (snd e) + acc)%R) 0%R edges).
Proof. exact compute_area_is_sum. Qed.
Print Assumptions C12_area_is_sum_of_edge_integrals.

(* the weights and divisors hard-coded in triangle.f90 shoelace_for_area (edges of 2 .. 5 nodes), read from the Fortran text by the
   translator, ARE the Python tables - which are the Green integral (above); other sizes set not_implemented *)
Theorem C12_compiled_shoelace_closed_forms_are_the_python_tables :
  forallb (fun e => match lookup (fst e) shoelace_dispatch with
                    | Some (tbl, dv) => qmat_eqb (fst (snd e)) tbl && Qeq_bool (snd (snd e)) dv
                    | None => false
                    end) f90_shoelace_closed_forms = true
  /\ map fst f90_shoelace_closed_forms = map fst shoelace_dispatch.
Proof. exact compiled_shoelace_closed_forms_are_the_python_tables. Qed.
Print Assumptions C12_compiled_shoelace_closed_forms_are_the_python_tables.

(* the area does not depend on where the shape sits: translating every edge of a CLOSED chain of edges (each edge starts where
   the previous one ended, the last ends where the first started; supported degrees) by one vector leaves the sum of the edge
   integrals unchanged.  A single edge is not invariant - its integral changes by (a dy - b dx)/2 over the edge - so this is a
   statement about closed boundaries, which is what compute_area is given *)
Theorem C12_area_of_a_closed_boundary_is_translation_invariant : forall (a b : R) (edges : list edge) (p : R * R),
  Forall ok_edge edges -> chain p edges p -> area_sum (map (shift a b) edges) = area_sum edges.
Proof. exact closed_boundary_area_is_translation_invariant. Qed.
Print Assumptions C12_area_of_a_closed_boundary_is_translation_invariant.
(* non-vacuity: the boundary of the unit triangle as three linear edges is a closed chain of supported edges *)
Example C12_closed_chain_example :
  let edges := [([0; 1], [0; 0]); ([1; 0], [0; 1]); ([0; 0], [1; 0])]%R in
  Forall ok_edge edges /\ chain (0, 0)%R edges (0, 0)%R.
Proof.
  cbv zeta. split.
  - repeat constructor; cbn; auto with arith.
  - repeat (eapply chain_cons; [reflexivity|]); cbn [end_pt fst snd last]. apply chain_nil.
Qed.
