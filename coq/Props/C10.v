(* C10 - Locating a point inverts evaluation (partial: exact-arithmetic completeness of the bisection and the range
   of the result for curves; Newton accuracy and the floating-point round trip are swept - see findings F5, F11). *)
From Coq Require Import List Arith Reals.
From BZ Require Import Base.Ops Base.RInst Model.Curve Theory.CurveEvalExtra Theory.LocateTheory.
From BZ Require Import Model.Triangle Theory.SignSoundR Theory.TriLocate.
Import ListNotations.

(* a point that IS on the curve (exact arithmetic) is never pruned: at every depth of the bisection it lies in the
   closed bounding box of the sub-curve whose parameter interval contains its parameter; every degree, every dimension *)
Theorem C10_bisection_never_loses_a_point_of_the_curve :
  forall (n : nat) (orig : list (list R)) (s : R),
  Forall (fun o => (2 <= length o)%nat) orig -> (0 <= s <= 1)%R -> survives n orig orig 0 1 s.
Proof. exact on_curve_point_is_never_lost. Qed.
Print Assumptions C10_bisection_never_loses_a_point_of_the_curve.

Theorem C10_restriction_invariant_left : forall orig c a b,
  (2 <= length c)%nat -> Inv orig c a b -> Inv orig (subdivide_left ROps c) a ((a + b) / 2).
Proof. exact Inv_left. Qed.
Print Assumptions C10_restriction_invariant_left.
Theorem C10_restriction_invariant_right : forall orig c a b,
  (2 <= length c)%nat -> Inv orig c a b -> Inv orig (subdivide_right ROps c) ((a + b) / 2) b.
Proof. exact Inv_right. Qed.
Print Assumptions C10_restriction_invariant_right.

(* triangles: a point that IS on the triangle (exact arithmetic, barycentric parameters in the closed reference triangle) is never
   pruned by the subdivision of locate_point: at every depth one of the four quarters of the surviving candidate has the point
   inside the closed bounding box of its control net, in every coordinate; every degree, every dimension.
   (The quarters are the blossom sub-nets of C09, generic form; the tables of degrees 1-4 equal them, Theory/TriTables.v.) *)
Theorem C10_triangle_subdivision_never_loses_a_point_of_the_triangle : forall n d rows l1 l2 l3,
  Forall (fun v => List.length v = tri_size d) rows -> in_tri l1 l2 l3 ->
  tri_survives n d rows (tri_point d rows l1 l2 l3).
Proof. exact tri_subdivision_never_prunes_the_point. Qed.
Print Assumptions C10_triangle_subdivision_never_loses_a_point_of_the_triangle.
