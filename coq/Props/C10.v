(* C10 - Locating a point inverts evaluation (partial: exact-arithmetic completeness of the bisection and the range
   of the result for curves; Newton accuracy and the floating-point round trip are swept - see findings F5, F11). *)
From Coq Require Import List Arith Reals.
From BZ Require Import Base.Ops Base.RInst Model.Curve Theory.CurveEvalExtra Theory.LocateTheory.
From BZ Require Import Model.Triangle Theory.SignSoundR Theory.TriLocate.
From Coq Require Import Qcanon.
From Coq Require Import QArith Qabs.
From BZ Require Import Base.QcInst Model.Locate Theory.Hom Theory.LocateModelTheory.
Import ListNotations.

(* a point that IS on the curve (exact arithmetic) is never pruned: at every depth of the bisection it lies in the
   closed bounding box of the sub-curve whose parameter interval contains its parameter; every degree, every dimension *)
Theorem C10_bisection_never_loses_a_point_of_the_curve :
  forall (n : nat) (orig : list (list R)) (s : R),
  Forall (fun o => (2 <= length o)%nat) orig -> (0 <= s <= 1)%R -> survives n orig orig 0 1 s.
Proof. exact on_curve_point_is_never_lost. Qed.
Print Assumptions C10_bisection_never_loses_a_point_of_the_curve.

Theorem C10_restriction_invariant_left : forall orig c a b,
  (2 <= length c)%nat -> Inv orig c a b -> Inv orig (subdivide_left ROps c) a ((a + b) / 2).
Proof. exact Inv_left. Qed.
Print Assumptions C10_restriction_invariant_left.
Theorem C10_restriction_invariant_right : forall orig c a b,
  (2 <= length c)%nat -> Inv orig c a b -> Inv orig (subdivide_right ROps c) ((a + b) / 2) b.
Proof. exact Inv_right. Qed.
Print Assumptions C10_restriction_invariant_right.

(* triangles: a point that IS on the triangle (exact arithmetic, barycentric parameters in the closed reference triangle) is never
   pruned by the subdivision of locate_point: at every depth one of the four quarters of the surviving candidate has the point
   inside the closed bounding box of its control net, in every coordinate; every degree, every dimension.
   (The quarters are the blossom sub-nets of C09, generic form; the tables of degrees 1-4 equal them, Theory/TriTables.v.) *)
Theorem C10_triangle_subdivision_never_loses_a_point_of_the_triangle : forall n d rows l1 l2 l3,
  Forall (fun v => List.length v = tri_size d) rows -> in_tri l1 l2 l3 ->
  tri_survives n d rows (tri_point d rows l1 l2 l3).
Proof. exact tri_subdivision_never_prunes_the_point. Qed.
Print Assumptions C10_triangle_subdivision_never_loses_a_point_of_the_triangle.

(* the EXECUTABLE model of locate_point (Model/Locate.v: closed box test, bisection with the regenerated subdivision tables, the
   regenerated number of rounds; corresponded with the code in both configurations) never answers None for a point that is on
   the curve: exact data (rational control points, a rational point), a real parameter in [0,1], every degree and dimension *)
Theorem C10_locate_model_finds_points_of_the_curve : forall (rows : list (list Qc)) (p : list Qc) (s : R),
  Forall (fun r => (2 <= List.length r)%nat) rows -> (0 <= s <= 1)%R ->
  Forall2 (fun r x => Qc2R x = LocateTheory.B (map Qc2R r) s) rows p ->
  locate_point_py rows p <> LNone.
Proof. exact locate_model_finds_points_of_the_curve. Qed.
Print Assumptions C10_locate_model_finds_points_of_the_curve.

(* ... but the FLOATING-POINT round trip of the statement is refuted (known finding F5), as a theorem about the executable model:
   the closed box test has no slack, so a point within 2^-51 of the curve (the binary64 evaluation at s = 1/8 of the quadratic with
   binary64 control points (-1.9, -1.3, 2), (-0.8, 1.8, 1.6)) is answered None.  The same input fails on the implementation. *)
Definition f5_rows : list (list Q) :=
  [[-4278419646001971 # 2251799813685248; -5854679515581645 # 4503599627370496; 2];
   [-3602879701896397 # 4503599627370496; 8106479329266893 # 4503599627370496; 3602879701896397 # 2251799813685248]]%Q.
Definition f5_p : list Q := [-3845651869309337 # 2251799813685248; -6980579422424271 # 36028797018963968]%Q.
Theorem C10_float_round_trip_refuted :
  forallb (fun rp => Qle_bool (Qabs (this (bernstein QcOps (fst rp) (Q2Qc (7 # 8)) (Q2Qc (1 # 8))) - snd rp)) (1 # 2251799813685248))
          (combine (qcm f5_rows) f5_p) = true /\
  locate_point_py (qcm f5_rows) (qcs f5_p) = LNone.
Proof. split; vm_compute; reflexivity. Qed.
Print Assumptions C10_float_round_trip_refuted.
