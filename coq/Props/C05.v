(* C05 - Triangle evaluation equals the bivariate Bernstein definition. Statements only. *)
From Coq Require Import List Arith ZArith QArith Qcanon Reals.
From BZ Require Import Base.Ops Base.QcInst Model.Curve Model.Triangle Model.TrianglePy
  Theory.CurveEval Theory.CurveEvalExtra Theory.TriEval Theory.TriEdges Base.RInst Gen.PyCurveHelpers Theory.CurveTables Theory.Rounding Theory.TriRound Theory.TriCorners Theory.Binary64.
Import ListNotations.

(* evaluate_barycentric (row-wise curve evaluation, running binomial, Horner in lambda3) equals
   sum_k C(d,k) l3^k sum_j C(d-k,j) l1^(d-k-j) l2^j v_ijk : every degree, net, triple, threshold *)
Theorem C05_evaluation_is_bernstein :
  forall (T : Type) (K : Ops T), field_of K -> char0 K ->
  forall (thr d : nat) (v : list T) (l1 l2 l3 : T), length v = tri_size d ->
  tri_eval K thr d v l1 l2 l3 = tri_bernstein K d v l1 l2 l3.
Proof. exact @tri_eval_correct. Qed.
Print Assumptions C05_evaluation_is_bernstein.

(* the coefficient C(d,k) C(d-k,j) of the spec is the trinomial d!/(i! j! k!) *)
Theorem C05_trinomial_coefficient :
  forall i j k : nat, (choose (i + j + k) k * choose (i + j) j * (fact i * fact j * fact k) = fact (i + j + k))%nat.
Proof. exact multinomial. Qed.
Print Assumptions C05_trinomial_coefficient.

(* the documented node ordering: the slices taken are exactly the rows; row k has d+1-k entries *)
Theorem C05_rows_are_well_formed :
  forall (T : Type) (d : nat) (v : list T), length v = tri_num (S d) -> well_formed d (split_rows (S d) v).
Proof. exact @split_rows_well_formed. Qed.
Print Assumptions C05_rows_are_well_formed.

(* the three edge nets are the surface restricted to the sides of the reference triangle *)
Theorem C05_edges_are_restrictions :
  forall (T : Type) (K : Ops T), ring_of K ->
  forall (d : nat) (v : list T), length v = tri_size d ->
  (forall l1 l2, tri_bernstein K d v l1 l2 (o0 K) = bernstein K (edge1 d v) l1 l2) /\
  (forall l2 l3, tri_bernstein K d v (o0 K) l2 l3 = bernstein K (edge2 K d v) l2 l3) /\
  (forall l3 l1, tri_bernstein K d v l1 (o0 K) l3 = bernstein K (edge3 K d v) l3 l1).
Proof. exact @edges_are_restrictions. Qed.
Print Assumptions C05_edges_are_restrictions.

(* the binary64 running binomial is exact for every degree up to 54 (beyond the 40 of the quantifier) *)
Theorem C05_running_binomial_exact_double : forallb tri_binom_exact_double (seq 1 54) = true.
Proof. exact tri_binom_double_exact_to_54. Qed.
Print Assumptions C05_running_binomial_exact_double.

(* CORNERS: the three corners are interpolated EXACTLY (bit-for-bit) in any arithmetic in which 0 and 1 behave (Laws01: IEEE-754 on
   finite values) and in which the running binomial recurrence of the evaluator is exact for the degree (binom_exact_in: true in every
   field of characteristic 0, and for binary64 up to degree 54 by the computation C05_running_binomial_exact_double).  No ring law. *)
Theorem C05_corners_are_interpolated_exactly :
  forall (T : Type) (K : Ops T), Laws01 K -> forall (thr d : nat), binom_exact_in K d ->
  forall v : list T, (1 <= d)%nat -> length v = tri_size d ->
  tri_eval K thr d v (o1 K) (o0 K) (o0 K) = hd (o0 K) v /\
  tri_eval K thr d v (o0 K) (o1 K) (o0 K) = nth d v (o0 K) /\
  tri_eval K thr d v (o0 K) (o0 K) (o1 K) = last v (o0 K).
Proof. exact @tri_eval_corners. Qed.
Print Assumptions C05_corners_are_interpolated_exactly.
Theorem C05_binomial_recurrence_exact_in_every_field :
  forall (T : Type) (K : Ops T), field_of K -> char0 K -> forall d, binom_exact_in K d.
Proof. exact @binom_exact_in_field. Qed.
Print Assumptions C05_binomial_recurrence_exact_in_every_field.

(* ROUNDING (standard model of floating point, as in C01): the model of evaluate_barycentric executed in any arithmetic
   `fl` with relative error u per operation that represents integers with odd part < 2^53 exactly differs from the
   bivariate Bernstein definition by at most ((1+u)^(2d+4) - 1) sum |d!/(i!j!k!) l1^i l2^j l3^k| |v_ijk| for
   barycentric input, every degree whose running binomial is exact (all d <= 54 by the theorem above), every net *)
Theorem C05_rounding_error_bound_barycentric :
  forall (u : R) (fl : R -> R), (0 <= u)%R ->
  (forall x, (Rabs (fl x - x) <= u * Rabs x)%R) ->
  (forall z : Z, repr53 z = true -> fl (IZR z) = IZR z) ->
  forall (d : nat) (v : list R) (l1 l2 l3 : R), tri_binom_exact_double d = true -> (Z.of_nat d + 1 < 2 ^ 53)%Z -> length v = tri_size d ->
  (Rabs (tri_eval (FlOps fl) vs_max_nodes d v l1 l2 l3 - tri_bernstein ROps d v l1 l2 l3)
   <= ((1 + u) ^ (2 * d + 4) - 1) * tri_bernstein ROps d (map Rabs v) (Rabs l1) (Rabs l2) (Rabs l3))%R.
Proof.
  intros u fl Hu Hs Hi d v l1 l2 l3 Hb Hd Hv.
  exact (proj1 (tri_eval_rounding u Hu fl Hs Hi 0 l1 l1 (Rabs l1) l2 l3 vs_max_nodes d v (approx_exact u l1)
                  running_binomial_exact_below_switch Hb Hd Hv)).
Qed.
Print Assumptions C05_rounding_error_bound_barycentric.
(* Cartesian input: lambda1 = fl(fl(1 - s) - t) already carries two roundings and may cancel, so its majorant is |1-s| + |t| *)
Theorem C05_rounding_error_bound_cartesian :
  forall (u : R) (fl : R -> R), (0 <= u)%R ->
  (forall x, (Rabs (fl x - x) <= u * Rabs x)%R) ->
  (forall z : Z, repr53 z = true -> fl (IZR z) = IZR z) ->
  forall (d : nat) (v : list R) (s t : R), tri_binom_exact_double d = true -> (Z.of_nat d + 1 < 2 ^ 53)%Z -> length v = tri_size d ->
  (Rabs (tri_eval_cartesian (FlOps fl) vs_max_nodes d v s t - tri_bernstein ROps d v (1 - s - t) s t)
   <= ((1 + u) ^ (4 * d + 4) - 1) * tri_bernstein ROps d (map Rabs v) (Rabs (1 - s) + Rabs t) (Rabs s) (Rabs t))%R.
Proof.
  intros u fl Hu Hs Hi d v s t Hb Hd Hv. unfold tri_eval_cartesian.
  assert (H1 : approx u 2 (osub (FlOps fl) (osub (FlOps fl) (o1 (FlOps fl)) s) t) (1 - s - t)%R (Rabs (1 - s) + Rabs t)%R).
  { cbn [osub o1 FlOps]. apply (approx_sub u Hu fl Hs 1).
    - apply (approx_sub_exact u Hu fl Hs).
    - apply (approx_weaken u Hu 0); [repeat constructor | apply approx_exact]. }
  exact (proj1 (tri_eval_rounding u Hu fl Hs Hi 2 _ _ _ s t vs_max_nodes d v H1
                  running_binomial_exact_below_switch Hb Hd Hv)).
Qed.
Print Assumptions C05_rounding_error_bound_cartesian.

(* ... instantiated at correctly rounded 53-bit arithmetic with unbounded exponent (Flocq FLX, u = 2^-53) *)
Theorem C05_rounding_error_bound_binary64 :
  forall (d : nat) (v : list R) (l1 l2 l3 : R), tri_binom_exact_double d = true -> (Z.of_nat d + 1 < 2 ^ 53)%Z -> length v = tri_size d ->
  (Rabs (tri_eval (FlOps fl64) vs_max_nodes d v l1 l2 l3 - tri_bernstein ROps d v l1 l2 l3)
   <= ((1 + u64) ^ (2 * d + 4) - 1) * tri_bernstein ROps d (map Rabs v) (Rabs l1) (Rabs l2) (Rabs l3))%R.
Proof. exact triangle_rounding_binary64. Qed.
Print Assumptions C05_rounding_error_bound_binary64.

Example C05_example :
  Qc_eqb (tri_evaluate_barycentric_py 2 (qcs [0; 1; 2; 0; 1; 4]%Q) (Q2Qc (1#4)) (Q2Qc (1#4)) (Q2Qc (1#2))) (Q2Qc (3#2)) = true.
Proof. vm_compute. reflexivity. Qed.
