(* C05 - Triangle evaluation equals the bivariate Bernstein definition. Statements only. *)
From Coq Require Import List Arith QArith Qcanon.
From BZ Require Import Base.Ops Base.QcInst Model.Curve Model.Triangle Model.TrianglePy
  Theory.CurveEval Theory.CurveEvalExtra Theory.TriEval Theory.TriEdges.
Import ListNotations.

(* evaluate_barycentric (row-wise curve evaluation, running binomial, Horner in lambda3) equals
   sum_k C(d,k) l3^k sum_j C(d-k,j) l1^(d-k-j) l2^j v_ijk : every degree, net, triple, threshold *)
Theorem C05_evaluation_is_bernstein :
  forall (T : Type) (K : Ops T), field_of K -> char0 K ->
  forall (thr d : nat) (v : list T) (l1 l2 l3 : T), length v = tri_size d ->
  tri_eval K thr d v l1 l2 l3 = tri_bernstein K d v l1 l2 l3.
Proof. exact @tri_eval_correct. Qed.
Print Assumptions C05_evaluation_is_bernstein.

(* the coefficient C(d,k) C(d-k,j) of the spec is the trinomial d!/(i! j! k!) *)
Theorem C05_trinomial_coefficient :
  forall i j k : nat, (choose (i + j + k) k * choose (i + j) j * (fact i * fact j * fact k) = fact (i + j + k))%nat.
Proof. exact multinomial. Qed.
Print Assumptions C05_trinomial_coefficient.

(* the documented node ordering: the slices taken are exactly the rows; row k has d+1-k entries *)
Theorem C05_rows_are_well_formed :
  forall (T : Type) (d : nat) (v : list T), length v = tri_num (S d) -> well_formed d (split_rows (S d) v).
Proof. exact @split_rows_well_formed. Qed.
Print Assumptions C05_rows_are_well_formed.

(* the three edge nets are the surface restricted to the sides of the reference triangle *)
Theorem C05_edges_are_restrictions :
  forall (T : Type) (K : Ops T), ring_of K ->
  forall (d : nat) (v : list T), length v = tri_size d ->
  (forall l1 l2, tri_bernstein K d v l1 l2 (o0 K) = bernstein K (edge1 d v) l1 l2) /\
  (forall l2 l3, tri_bernstein K d v (o0 K) l2 l3 = bernstein K (edge2 K d v) l2 l3) /\
  (forall l3 l1, tri_bernstein K d v l1 (o0 K) l3 = bernstein K (edge3 K d v) l3 l1).
Proof. exact @edges_are_restrictions. Qed.
Print Assumptions C05_edges_are_restrictions.

(* the binary64 running binomial is exact for every degree up to 54 (beyond the 40 of the quantifier) *)
Theorem C05_running_binomial_exact_double : forallb tri_binom_exact_double (seq 1 54) = true.
Proof. exact tri_binom_double_exact_to_54. Qed.
Print Assumptions C05_running_binomial_exact_double.

Example C05_example :
  Qc_eqb (tri_evaluate_barycentric_py 2 (qcs [0; 1; 2; 0; 1; 4]%Q) (Q2Qc (1#4)) (Q2Qc (1#4)) (Q2Qc (1#2))) (Q2Qc (3#2)) = true.
Proof. vm_compute. reflexivity. Qed.
