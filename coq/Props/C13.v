(* C13 - Triangle validity verdict agrees with the sign of the Jacobian. Statements only. *)
From Coq Require Import List Arith QArith Reals Qreals.
From BZ Require Import Base.Ops Base.RInst Model.Curve Model.Triangle Model.AreaPoly Gen.PyTriangleHelpers
  Theory.JacPoly Theory.TriPositivity.
Import ListNotations.

(* the returned net is the Bernstein net of det J, for ALL real control nets (tables regenerated from the source) *)
Theorem C13_quadratic_jacobian_polynomial :
  forall v0 v1 v2 v3 v4 v5 w0 w1 w2 w3 w4 w5 s t : R,
  tri_bernstein ROps 2 (quadratic_jacobian_polynomial_gen ROps Q2R [v0; v1; v2; v3; v4; v5] [w0; w1; w2; w3; w4; w5]) (1 - s - t)%R s t
  = det_jacobian 2 [v0; v1; v2; v3; v4; v5] [w0; w1; w2; w3; w4; w5] s t.
Proof. exact quadratic_jacobian_polynomial_correct. Qed.
Print Assumptions C13_quadratic_jacobian_polynomial.
Theorem C13_cubic_jacobian_polynomial :
  forall v0 v1 v2 v3 v4 v5 v6 v7 v8 v9 w0 w1 w2 w3 w4 w5 w6 w7 w8 w9 s t : R,
  tri_bernstein ROps 4 (cubic_jacobian_polynomial_gen ROps Q2R [v0; v1; v2; v3; v4; v5; v6; v7; v8; v9] [w0; w1; w2; w3; w4; w5; w6; w7; w8; w9]) (1 - s - t)%R s t
  = det_jacobian 3 [v0; v1; v2; v3; v4; v5; v6; v7; v8; v9] [w0; w1; w2; w3; w4; w5; w6; w7; w8; w9] s t.
Proof. exact cubic_jacobian_polynomial_correct. Qed.
Print Assumptions C13_cubic_jacobian_polynomial.

(* the decision rule of polynomial_sign for a decided piece: all Bernstein coefficients >= m > 0 implies the
   polynomial is positive on the whole closed triangle (every degree) *)
Theorem C13_positive_net_means_positive_polynomial :
  forall (d : nat) (v : list R) (m l1 l2 l3 : R), length v = tri_size d -> (0 < m)%R ->
  Forall (fun x => (m <= x)%R) v -> (0 <= l1)%R -> (0 <= l2)%R -> (0 <= l3)%R -> (l1 + l2 + l3 = 1)%R ->
  (0 < tri_bernstein ROps d v l1 l2 l3)%R.
Proof. exact all_positive_coefficients. Qed.
Print Assumptions C13_positive_net_means_positive_polynomial.
Theorem C13_bernstein_bounds :
  forall (d : nat) (v : list R) (lo hi l1 l2 l3 : R), length v = tri_size d ->
  Forall (fun x => (lo <= x <= hi)%R) v -> (0 <= l1)%R -> (0 <= l2)%R -> (0 <= l3)%R -> (l1 + l2 + l3 = 1)%R ->
  (lo <= tri_bernstein ROps d v l1 l2 l3 <= hi)%R.
Proof. exact tri_bernstein_bounds. Qed.
Print Assumptions C13_bernstein_bounds.
