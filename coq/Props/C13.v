(* C13 - Triangle validity verdict agrees with the sign of the Jacobian. Statements only. *)
From Coq Require Import List Arith ZArith QArith Qcanon Reals Qreals.
From BZ Require Import Base.Ops Base.RInst Model.Curve Model.Triangle Model.AreaPoly Gen.PyTriangleHelpers
  Theory.JacPoly Theory.TriPositivity Base.QcInst Theory.Hom Theory.SignSound Theory.SignSoundR Theory.ValidSound Corr.C13.
Import ListNotations.

(* the returned net is the Bernstein net of det J, for ALL real control nets (tables regenerated from the source) *)
Theorem C13_quadratic_jacobian_polynomial :
  forall v0 v1 v2 v3 v4 v5 w0 w1 w2 w3 w4 w5 s t : R,
  tri_bernstein ROps 2 (quadratic_jacobian_polynomial_gen ROps Q2R [v0; v1; v2; v3; v4; v5] [w0; w1; w2; w3; w4; w5]) (1 - s - t)%R s t
  = det_jacobian 2 [v0; v1; v2; v3; v4; v5] [w0; w1; w2; w3; w4; w5] s t.
Proof. exact quadratic_jacobian_polynomial_correct. Qed.
Print Assumptions C13_quadratic_jacobian_polynomial.
Theorem C13_cubic_jacobian_polynomial :
  forall v0 v1 v2 v3 v4 v5 v6 v7 v8 v9 w0 w1 w2 w3 w4 w5 w6 w7 w8 w9 s t : R,
  tri_bernstein ROps 4 (cubic_jacobian_polynomial_gen ROps Q2R [v0; v1; v2; v3; v4; v5; v6; v7; v8; v9] [w0; w1; w2; w3; w4; w5; w6; w7; w8; w9]) (1 - s - t)%R s t
  = det_jacobian 3 [v0; v1; v2; v3; v4; v5; v6; v7; v8; v9] [w0; w1; w2; w3; w4; w5; w6; w7; w8; w9] s t.
Proof. exact cubic_jacobian_polynomial_correct. Qed.
Print Assumptions C13_cubic_jacobian_polynomial.

(* the decision rule of polynomial_sign for a decided piece: all Bernstein coefficients >= m > 0 implies the
   polynomial is positive on the whole closed triangle (every degree) *)
Theorem C13_positive_net_means_positive_polynomial :
  forall (d : nat) (v : list R) (m l1 l2 l3 : R), length v = tri_size d -> (0 < m)%R ->
  Forall (fun x => (m <= x)%R) v -> (0 <= l1)%R -> (0 <= l2)%R -> (0 <= l3)%R -> (l1 + l2 + l3 = 1)%R ->
  (0 < tri_bernstein ROps d v l1 l2 l3)%R.
Proof. exact all_positive_coefficients. Qed.
Print Assumptions C13_positive_net_means_positive_polynomial.
Theorem C13_bernstein_bounds :
  forall (d : nat) (v : list R) (lo hi l1 l2 l3 : R), length v = tri_size d ->
  Forall (fun x => (lo <= x <= hi)%R) v -> (0 <= l1)%R -> (0 <= l2)%R -> (0 <= l3)%R -> (l1 + l2 + l3 = 1)%R ->
  (lo <= tri_bernstein ROps d v l1 l2 l3 <= hi)%R.
Proof. exact tri_bernstein_bounds. Qed.
Print Assumptions C13_bernstein_bounds.

(* SOUNDNESS ACROSS SUBDIVISION LEVELS: the loop of polynomial_sign (hand model: corner signs, uniform-sign test, 4-way
   subdivision through the tables regenerated from the source, the bound _MAX_POLY_SUBDIVISIONS) answers +1 only if the
   polynomial is positive at EVERY real point of the closed reference triangle, and -1 only if it is negative everywhere.
   Degrees 1..4, every net of the right size.  (Composition of: the table path commutes with Qc -> R; tables = generic
   blossoming (C09); a sub-net is the restriction to its quarter (blossoming theorem); the four quarters cover the triangle;
   Bernstein bounds; the invariant of the loop over every fuel, pending list and sign set.) *)
Theorem C13_polynomial_sign_plus_is_sound :
  forall (d : nat) (poly : list Qc), (1 <= d <= 4)%nat -> length poly = tri_size d ->
  polynomial_sign_py poly d = SignIs 1 ->
  forall l1 l2 l3 : R, (0 <= l1 /\ 0 <= l2 /\ 0 <= l3 /\ l1 + l2 + l3 = 1)%R -> (0 < tri_bernstein ROps d (map Qc2R poly) l1 l2 l3)%R.
Proof. exact polynomial_sign_positive_sound. Qed.
Print Assumptions C13_polynomial_sign_plus_is_sound.
Theorem C13_polynomial_sign_minus_is_sound :
  forall (d : nat) (poly : list Qc), (1 <= d <= 4)%nat -> length poly = tri_size d ->
  polynomial_sign_py poly d = SignIs (-1) ->
  forall l1 l2 l3 : R, (0 <= l1 /\ 0 <= l2 /\ 0 <= l3 /\ l1 + l2 + l3 = 1)%R -> (tri_bernstein ROps d (map Qc2R poly) l1 l2 l3 < 0)%R.
Proof. exact polynomial_sign_negative_sound. Qed.
Print Assumptions C13_polynomial_sign_minus_is_sound.
(* the verdict of Triangle.is_valid (model corresponded in Corr/C13.v): True only if det J > 0 on the whole closed triangle *)
Theorem C13_is_valid_true_means_positive_jacobian_quadratic :
  forall vx vy : list Qc, length vx = 6%nat -> length vy = 6%nat -> is_valid_py 2 vx vy = Some true ->
  forall s t : R, (0 <= s)%R -> (0 <= t)%R -> (s + t <= 1)%R -> (0 < det_jacobian 2 (map Qc2R vx) (map Qc2R vy) s t)%R.
Proof. exact is_valid_quadratic_sound. Qed.
Print Assumptions C13_is_valid_true_means_positive_jacobian_quadratic.
Theorem C13_is_valid_true_means_positive_jacobian_cubic :
  forall vx vy : list Qc, length vx = 10%nat -> length vy = 10%nat -> is_valid_py 3 vx vy = Some true ->
  forall s t : R, (0 <= s)%R -> (0 <= t)%R -> (s + t <= 1)%R -> (0 < det_jacobian 3 (map Qc2R vx) (map Qc2R vy) s t)%R.
Proof. exact is_valid_cubic_sound. Qed.
Print Assumptions C13_is_valid_true_means_positive_jacobian_cubic.
(* non-vacuity: a concrete quadratic triangle is reported valid by the model *)
Example C13_valid_example :
  is_valid_py 2 (map Q2Qc [0; 1#2; 1; 0; 1#2; 0]%Q) (map Q2Qc [0; 0; 0; 1#2; 1#2; 1]%Q) = Some true.
Proof. vm_compute. reflexivity. Qed.
