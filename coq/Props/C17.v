(* C17 - Intersections do not depend on how the same geometry is presented (partial: kernel equivariances in exact
   arithmetic; that the CONVERGED answers coincide is a metamorphic support sweep). Statements only. *)
From Coq Require Import List Arith ZArith QArith Bool String Permutation.
From BZ Require Import Base.Ops Base.PyVal Model.Curve Gen.PyFnGeometric Theory.CurveEval Theory.CurveElevate Theory.TriEdges
  Theory.Predicates Theory.Presentation Model.Rounds Theory.RoundSwap Model.Triangle Model.TriElevate Theory.TriElevateList
  Theory.TriAffine.
Import ListNotations.

(* reversing a curve maps its parameter to 1 - s *)
Theorem C17_reversal : forall (T : Type) (K : Ops T), ring_of K ->
  forall (v : list T) (l1 l2 : T), bernstein K (rev v) l1 l2 = bernstein K v l2 l1.
Proof. exact @bernstein_rev. Qed.
Print Assumptions C17_reversal.
(* degree elevation changes nothing *)
Theorem C17_elevation : forall (T : Type) (K : Ops T), field_of K -> char0 K ->
  forall (v : list T) (s : T), v <> [] ->
  bernstein K (elevate K v) (osub K (o1 K) s) s = bernstein K v (osub K (o1 K) s) s.
Proof. exact @elevate_correct. Qed.
Print Assumptions C17_elevation.
(* translating / scaling / mirroring the control net translates / scales / mirrors the point, parameters unchanged *)
Theorem C17_affine_maps : forall (T : Type) (K : Ops T), ring_of K ->
  forall (k c : T) (v : list T) (l1 l2 : T), v <> [] ->
  bernstein K (map (fun x => oadd K (omul K k x) c) v) l1 l2
  = oadd K (omul K k (bernstein K v l1 l2)) (omul K c (pw K (oadd K l1 l2) (List.length v - 1))).
Proof. exact @bernstein_affine. Qed.
Print Assumptions C17_affine_maps.
(* swapping the arguments transposes the result (segment level) and leaves the box classification unchanged *)
Theorem C17_argument_swap_segments : forall (x0 y0 x1 y1 x2 y2 x3 y3 s t : Q),
  py_segment_intersection (V2 x0 y0) (V2 x1 y1) (V2 x2 y2) (V2 x3 y3) = VTup [VQ s; VQ t; VB true] ->
  exists s' t', py_segment_intersection (V2 x2 y2) (V2 x3 y3) (V2 x0 y0) (V2 x1 y1) = VTup [VQ s'; VQ t'; VB true] /\
                (s' == t)%Q /\ (t' == s)%Q.
Proof. exact segment_intersection_swap. Qed.
Print Assumptions C17_argument_swap_segments.
Theorem C17_argument_swap_boxes : forall l1 r1 b1 t1 l2 r2 b2 t2 : Q,
  bbox_intersect_boxes l1 r1 b1 t1 l2 r2 b2 t2 = bbox_intersect_boxes l2 r2 b2 t2 l1 r1 b1 t1.
Proof. exact bbox_intersect_symmetric. Qed.
Print Assumptions C17_argument_swap_boxes.

(* swapping the two curves: one round of the candidate flow of all_intersections (executable model Model/Rounds.v, corresponded
   with the real loop) applied to the swapped candidates gives the swapped candidates - as a multiset, the product order of the
   four pairs of halves changes - and the swapped events in the same order; so the 64-candidate rule, which only counts,
   and the end-games see the same pairs with s and t exchanged *)
Theorem C17_candidate_flow_is_swap_equivariant : forall cands,
  Forall (fun p => wf_cand (fst p) /\ wf_cand (snd p)) cands ->
  Permutation (map swapc (fst (one_round cands))) (fst (one_round (map swapc cands))) /\
  map swap_ev (snd (one_round cands)) = snd (one_round (map swapc cands)).
Proof. exact one_round_swap. Qed.
Print Assumptions C17_candidate_flow_is_swap_equivariant.

(* triangles: degree elevation presents the same map point for point (every degree), and an affine map of the control net
   (translation, scaling by a power of two, mirroring - one coordinate row at a time) acts on the point, barycentric parameters
   unchanged; hence the elevated / moved presentations swept by the harness are the same two point sets *)
Theorem C17_triangle_elevation : forall (T : Type) (K : Ops T), field_of K -> char0 K ->
  forall (d : nat) (v : list T) (l1 l2 l3 : T), List.length v = tri_size d -> oadd K (oadd K l1 l2) l3 = o1 K ->
  tri_bernstein K (S d) (tri_elevate K d v) l1 l2 l3 = tri_bernstein K d v l1 l2 l3.
Proof. exact @tri_elevate_correct. Qed.
Print Assumptions C17_triangle_elevation.
Theorem C17_triangle_affine_maps : forall (T : Type) (K : Ops T), ring_of K ->
  forall (k c : T) (d : nat) (v : list T) (l1 l2 l3 : T), List.length v = tri_size d ->
  tri_bernstein K d (map (fun x => oadd K (omul K k x) c) v) l1 l2 l3
  = oadd K (omul K k (tri_bernstein K d v l1 l2 l3)) (omul K c (pw K (oadd K (oadd K l1 l2) l3) d)).
Proof. exact @tri_bernstein_affine. Qed.
Print Assumptions C17_triangle_affine_maps.
