(* C04 - Subdividing or specializing a curve preserves its shape.
   ONLY statements, each closed by `exact`, each followed by Print Assumptions. *)
From Coq Require Import List Arith ZArith QArith Qcanon Reals.
From BZ Require Import Base.Ops Base.QcInst Model.Curve Model.CurvePy Gen.PyCurveHelpers
  Theory.CurveEval Theory.CurveSubdiv Theory.CurveTables Base.RInst Theory.Rounding Theory.SubdivRound Theory.Binary64
  Gen.F90Const Theory.Twins Gen.F90Closed Theory.TwinsClosed.
Import ListNotations.

(* specialize_curve returns the control points of sigma -> B(a + (b-a) sigma):
   every degree >= 1, every net, every a, b, sigma (outside [0,1], a = b, a > b included),
   any commutative ring. *)
Theorem C04_specialize_is_reparametrization :
  forall (T : Type) (K : Ops T), ring_of K ->
  forall (v : list T) (a b s : T), (2 <= length v)%nat ->
  bernstein K (specialize K v a b) (osub K (o1 K) s) s
  = bernstein K v (osub K (o1 K) (oadd K (omul K (osub K (o1 K) s) a) (omul K s b)))
                  (oadd K (omul K (osub K (o1 K) s) a) (omul K s b)).
Proof. exact @specialize_correct. Qed.
Print Assumptions C04_specialize_is_reparametrization.

(* the dictionary walk of the code computes exactly the blossom values it later looks up *)
Theorem C04_dictionary_walk_is_blossom :
  forall (T : Type) (K : Ops T) (v : list T) (a b : T), (2 <= length v)%nat ->
  specialize K v a b = L K a b (length v - 1) v.
Proof. exact @specialize_refines. Qed.
Print Assumptions C04_dictionary_walk_is_blossom.

(* make_subdivision_matrices: every degree, field of characteristic 0 *)
Theorem C04_subdivide_left_is_specialize_0_half :
  forall (T : Type) (K : Ops T), field_of K -> char0 K ->
  forall v : list T, (2 <= length v)%nat -> subdivide_left K v = specialize K v (o0 K) (half K).
Proof. exact @subdivide_left_is_specialize. Qed.
Print Assumptions C04_subdivide_left_is_specialize_0_half.

Theorem C04_subdivide_right_is_specialize_half_1 :
  forall (T : Type) (K : Ops T), field_of K -> char0 K ->
  forall v : list T, (2 <= length v)%nat -> subdivide_right K v = specialize K v (half K) (o1 K).
Proof. exact @subdivide_right_is_specialize. Qed.
Print Assumptions C04_subdivide_right_is_specialize_half_1.

(* junction shared bit-for-bit: ONE expression, for ANY interpretation of + and * (no ring law used) *)
Theorem C04_junction_is_one_expression :
  forall (T : Type) (K : Ops T) (v : list T), v <> [] ->
  last (subdivide_left K v) (o0 K) = hd (o0 K) (subdivide_right K v).
Proof. exact @junction_shared. Qed.
Print Assumptions C04_junction_is_one_expression.

(* the tables read from the source (degree 1-3) are the generic construction *)
Theorem C04_tables_are_generic :
  forall v : list Qc, subdivide_nodes_py v = (subdivide_left QcOps v, subdivide_right QcOps v).
Proof. exact subdivide_nodes_py_generic. Qed.
Print Assumptions C04_tables_are_generic.

(* subdivide_nodes (table path and generic path): halves are B restricted to [0,1/2], [1/2,1] *)
Theorem C04_subdivide_nodes_shape :
  forall (v : list Qc) (s : Qc), (2 <= length v)%nat ->
  let lr := subdivide_nodes_py v in
  bernstein QcOps (fst lr) (1 - s) s = bernstein QcOps v (1 - s * half QcOps) (s * half QcOps) /\
  bernstein QcOps (snd lr) (1 - s) s
    = bernstein QcOps v (1 - ((1 - s) * half QcOps + s)) ((1 - s) * half QcOps + s).
Proof. exact subdivide_nodes_py_shape. Qed.
Print Assumptions C04_subdivide_nodes_shape.

(* ROUNDING (standard model of floating point, as in C01): every control point returned by the model of specialize_curve,
   executed in any arithmetic with relative error u per operation, differs from the exact reparametrised control point
   (theorem C04_specialize_is_reparametrization) by at most ((1+u)^(3n) - 1) times the same blossom of the absolute values.
   Every degree n >= 1, every net, every a, b. *)
Theorem C04_specialize_rounding_bound :
  forall (u : R) (fl : R -> R), (0 <= u)%R -> (forall x, (Rabs (fl x - x) <= u * Rabs x)%R) ->
  forall (v : list R) (a b : R) (j : nat), (2 <= length v)%nat -> (j <= length v - 1)%nat ->
  (Rabs (nth j (specialize (FlOps fl) v a b) 0 - nth j (specialize ROps v a b) 0)
   <= ((1 + u) ^ (3 * (length v - 1)) - 1) * Pabs a b (length v - 1) j v)%R.
Proof. intros u fl Hu Hs v a b j Hl Hj. exact (proj1 (specialize_node_rounding u Hu fl Hs v a b j Hl Hj)). Qed.
Print Assumptions C04_specialize_rounding_bound.
(* generic subdivision (matrices AND products computed in the same arithmetic, 2 exactly representable): 4n + 2 roundings *)
Theorem C04_subdivide_rounding_bound :
  forall (u : R) (fl : R -> R), (0 <= u)%R -> (forall x, (Rabs (fl x - x) <= u * Rabs x)%R) -> fl 2%R = 2%R ->
  forall (v : list R) (j : nat), (j <= length v - 1)%nat ->
  (Rabs (nth j (subdivide_left (FlOps fl) v) 0 - nth j (subdivide_left ROps v) 0)
   <= ((1 + u) ^ (4 * (length v - 1) + 2) - 1) * nth j (subdivide_left ROps (map Rabs v)) 0)%R /\
  (Rabs (nth j (subdivide_right (FlOps fl) v) 0 - nth j (subdivide_right ROps v) 0)
   <= ((1 + u) ^ (4 * (length v - 1) + 2) - 1) * nth j (subdivide_right ROps (map Rabs v)) 0)%R.
Proof.
  intros u fl Hu Hs H2 v j Hj. split.
  - exact (proj1 (subdivide_left_rounding u Hu fl Hs H2 v j Hj)).
  - exact (proj1 (subdivide_right_rounding u Hu fl Hs H2 v j Hj)).
Qed.
Print Assumptions C04_subdivide_rounding_bound.

(* ... instantiated at correctly rounded 53-bit arithmetic with unbounded exponent (Flocq FLX, u = 2^-53) *)
Theorem C04_rounding_bounds_binary64 :
  forall (v : list R) (a b : R) (j : nat), (2 <= length v)%nat -> (j <= length v - 1)%nat ->
  (Rabs (nth j (specialize (FlOps fl64) v a b) 0 - nth j (specialize ROps v a b) 0)
   <= ((1 + u64) ^ (3 * (length v - 1)) - 1) * Pabs a b (length v - 1) j v)%R /\
  (Rabs (nth j (subdivide_left (FlOps fl64) v) 0 - nth j (subdivide_left ROps v) 0)
   <= ((1 + u64) ^ (4 * (length v - 1) + 2) - 1) * nth j (subdivide_left ROps (map Rabs v)) 0)%R.
Proof. intros v a b j Hl Hj. split; [exact (specialize_rounding_binary64 v a b j Hl Hj) | exact (subdivide_rounding_binary64 v j Hj)]. Qed.
Print Assumptions C04_rounding_bounds_binary64.

(* non-vacuity: a concrete cubic meets the hypotheses and the halves are what one expects *)
Example C04_example :
  let lr := subdivide_nodes_py (qcs [0; 1; 3; 2]%Q) in
  vec_eqb (fst lr) (qcs [0; 1#2; 5#4; 7#4]%Q) && vec_eqb (snd lr) (qcs [7#4; 9#4; 5#2; 2]%Q) = true.
Proof. vm_compute. reflexivity. Qed.

(* the closed forms hard-coded in curve.f90 subdivide_nodes (2, 3, 4 nodes), evaluated symbolically by the translator from the
   Fortran text, ARE the Python tables - which are the generic construction (C04_tables_are_generic above); the other sizes call
   the generic routine *)
Theorem C04_compiled_closed_forms_are_the_python_tables :
  forallb (fun e => match lookup (fst e) subdivide_dispatch with
                    | Some (L, R) => qmat_eqb (fst (snd e)) L && qmat_eqb (snd (snd e)) R
                    | None => false
                    end) f90_curve_subdivide_closed_forms = true
  /\ map fst f90_curve_subdivide_closed_forms = map fst subdivide_dispatch.
Proof. exact compiled_subdivision_closed_forms_are_the_python_tables. Qed.
Print Assumptions C04_compiled_closed_forms_are_the_python_tables.

(* the closed forms of the compiled specialize_curve (2 nodes inline, 3 nodes specialize_curve_quadratic), translated from the Fortran
   text into the generic arithmetic record, ARE the model of specialize_curve, for every start / end and every net, in any commutative ring *)
Theorem C04_compiled_specialize_closed_forms :
  forall (T : Type) (K : Ops T), ring_of K ->
  (forall a b v1 v2, f90_specialize_curve_linear K a b v1 v2 = specialize K [v1; v2] a b) /\
  (forall a b v1 v2 v3, f90_specialize_curve_quadratic K a b v1 v2 v3 = specialize K [v1; v2; v3] a b).
Proof. exact (fun T K RT => conj (f90_specialize_linear_is_specialize K RT) (f90_specialize_quadratic_is_specialize K RT)). Qed.
Print Assumptions C04_compiled_specialize_closed_forms.
