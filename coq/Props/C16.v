(* C16 - Pruning predicates are exact on exact data and never reject a true hit. Statements only.
   All py_* functions are REGENERATED from the Python sources on every run. *)
From Coq Require Import List ZArith QArith Qabs Bool String Reals Qreals Qcanon.
From BZ Require Import Base.PyVal Model.Hull Gen.PyFnHelpers Gen.PyFnGeometric Gen.PyFnTriangle
  Theory.Predicates Theory.HullTheory Theory.HullLattice Base.Ops Base.RInst Model.Curve Model.LinErr Gen.PyGeometricIntersection Theory.Hom Theory.LinError Theory.LinErrorQc
  Gen.PyFnClipping Model.Clip Theory.ClipSpec Theory.ClipHull Theory.ClipSound Gen.F90Const Gen.F90Fn Theory.TwinsFn.
Import ListNotations.
Open Scope Q_scope.

Theorem C16_in_interval_exact : forall v a b, py_in_interval (VQ v) (VQ a) (VQ b) = VB true <-> a <= v <= b.
Proof. exact in_interval_true. Qed.
Print Assumptions C16_in_interval_exact.

Theorem C16_unit_interval_snapping : forall w v r, 0 < w -> w < 1 # 2 ->
  py_wiggle_interval (VQ v) (VQ w) = VTup [VQ r; VB true] -> 0 <= r <= 1 /\ Qabs (r - v) < w.
Proof. exact wiggle_spec. Qed.
Print Assumptions C16_unit_interval_snapping.
Theorem C16_unit_interval_snapping_fails_exactly_outside : forall w v, 0 < w -> w < 1 # 2 ->
  py_wiggle_interval (VQ v) (VQ w) = VTup [VNaN; VB false] <-> (v <= - w \/ 1 + w <= v).
Proof. exact wiggle_fail_spec. Qed.
Print Assumptions C16_unit_interval_snapping_fails_exactly_outside.

(* bbox returns tight bounds; bbox_intersect is the three-way exact classification of two closed boxes *)
Theorem C16_bbox_tight : forall x0 xs y0 ys,
  exists l r b t, py_bbox (vq_mat [x0 :: xs; y0 :: ys]) = box l r b t /\
    (forall x, In x (x0 :: xs) -> l <= x <= r) /\ (forall y, In y (y0 :: ys) -> b <= y <= t) /\
    (exists x, In x (x0 :: xs) /\ l == x) /\ (exists x, In x (x0 :: xs) /\ r == x) /\
    (exists y, In y (y0 :: ys) /\ b == y) /\ (exists y, In y (y0 :: ys) /\ t == y).
Proof. exact bbox_spec. Qed.
Print Assumptions C16_bbox_tight.
Theorem C16_bbox_intersect_classification : forall n1 n2 l1 r1 b1 t1 l2 r2 b2 t2,
  py_bbox n1 = box l1 r1 b1 t1 -> py_bbox n2 = box l2 r2 b2 t2 ->
  py_bbox_intersect n1 n2 = VEnum (bbox_intersect_boxes l1 r1 b1 t1 l2 r2 b2 t2).
Proof. exact bbox_intersect_spec. Qed.
Print Assumptions C16_bbox_intersect_classification.
Theorem C16_disjoint_iff_no_common_point : forall l1 r1 b1 t1 l2 r2 b2 t2, l1 <= r1 -> b1 <= t1 -> l2 <= r2 -> b2 <= t2 ->
  bbox_intersect_boxes l1 r1 b1 t1 l2 r2 b2 t2 = "DISJOINT"%string <->
  ~ exists x y, (l1 <= x <= r1 /\ b1 <= y <= t1) /\ (l2 <= x <= r2 /\ b2 <= y <= t2).
Proof. exact boxes_disjoint_iff. Qed.
Print Assumptions C16_disjoint_iff_no_common_point.

(* segment intersection: fails exactly for parallel segments, otherwise the parameters of the common point *)
Theorem C16_segment_intersection_exact : forall x0 y0 x1 y1 x2 y2 x3 y3,
  let cross := (x1 - x0) * (y3 - y2) - (y1 - y0) * (x3 - x2) in
  (cross == 0 ->
   py_segment_intersection (V2 x0 y0) (V2 x1 y1) (V2 x2 y2) (V2 x3 y3) = VTup [VNone; VNone; VB false]) /\
  (~ cross == 0 -> exists s t,
   py_segment_intersection (V2 x0 y0) (V2 x1 y1) (V2 x2 y2) (V2 x3 y3) = VTup [VQ s; VQ t; VB true] /\
   x0 + s * (x1 - x0) == x2 + t * (x3 - x2) /\ y0 + s * (y1 - y0) == y2 + t * (y3 - y2)).
Proof. exact segment_intersection_spec. Qed.
Print Assumptions C16_segment_intersection_exact.

(* parallel segments *)
Theorem C16_parallel_segments_shared_part : forall x0 y0 x1 y1 x2 y2 x3 y3 ss es st et,
  ~ (x1 - x0) * (x1 - x0) + (y1 - y0) * (y1 - y0) == 0 ->
  py_parallel_lines_parameters (V2 x0 y0) (V2 x1 y1) (V2 x2 y2) (V2 x3 y3) = VTup [VB false; params ss es st et] ->
  exists a b, a * ((x1 - x0) * (x1 - x0) + (y1 - y0) * (y1 - y0)) == (x2 - x0) * (x1 - x0) + (y2 - y0) * (y1 - y0) /\
              b * ((x1 - x0) * (x1 - x0) + (y1 - y0) * (y1 - y0)) == (x3 - x0) * (x1 - x0) + (y3 - y0) * (y1 - y0) /\
    0 <= ss <= 1 /\ 0 <= es <= 1 /\ 0 <= st <= 1 /\ 0 <= et <= 1 /\ st <= et /\
    ss == a + st * (b - a) /\ es == a + et * (b - a) /\
    x0 * (y1 - y0) - y0 * (x1 - x0) == x2 * (y1 - y0) - y2 * (x1 - x0).
Proof. exact parallel_lines_shared_segment. Qed.
Print Assumptions C16_parallel_segments_shared_part.
Theorem C16_parallel_segments_disjoint_exactly_when : forall x0 y0 x1 y1 x2 y2 x3 y3 a b,
  ~ (x1 - x0) * (x1 - x0) + (y1 - y0) * (y1 - y0) == 0 ->
  a * ((x1 - x0) * (x1 - x0) + (y1 - y0) * (y1 - y0)) == (x2 - x0) * (x1 - x0) + (y2 - y0) * (y1 - y0) ->
  b * ((x1 - x0) * (x1 - x0) + (y1 - y0) * (y1 - y0)) == (x3 - x0) * (x1 - x0) + (y3 - y0) * (y1 - y0) ->
  (py_parallel_lines_parameters (V2 x0 y0) (V2 x1 y1) (V2 x2 y2) (V2 x3 y3) = VTup [VB true; VNone] <->
   (~ x0 * (y1 - y0) - y0 * (x1 - x0) == x2 * (y1 - y0) - y2 * (x1 - x0)) \/ (a < 0 /\ b < 0) \/ (1 < a /\ 1 < b)).
Proof. exact parallel_lines_disjoint_iff. Qed.
Print Assumptions C16_parallel_segments_disjoint_exactly_when.

(* 2x2 solve used by the Newton steps: exact when it answers, singular exactly when the determinant vanishes *)
Theorem C16_solve2x2_exact : forall a b c d e f x y,
  py_solve2x2 (M2 a b c d) (V2 e f) = VTup [VB false; VQ x; VQ y] -> a * x + b * y == e /\ c * x + d * y == f.
Proof. exact solve2x2_sound. Qed.
Print Assumptions C16_solve2x2_exact.
Theorem C16_solve2x2_singular_iff : forall a b c d e f,
  py_solve2x2 (M2 a b c d) (V2 e f) = VTup [VB true; VNone; VNone] <-> a * d - b * c == 0.
Proof. exact solve2x2_singular_iff. Qed.
Print Assumptions C16_solve2x2_singular_iff.

(* convex hull (hand model, tied by exhaustive correspondence): THE convex hull on the finite domains of the quantifier *)
Theorem C16_hull_is_the_convex_hull_on_small_lattices : forall pts,
  In pts (seqs_upto 5 (lattice 3)) \/ In pts (seqs_upto 4 (lattice 4)) -> hull_ok pts = true.
Proof. exact hull_is_convex_hull_small. Qed.
Print Assumptions C16_hull_is_the_convex_hull_on_small_lattices.
(* ... and for EVERY finite sequence of points of the 4 x 4 lattice (any length, repetitions, order; the 3 x 3 lattice is a part
   of it): the hull depends only on sort_unique of its input, which is one of the 2^16 subsequences of the sorted lattice
   (closure under insert_u computed on 16 x 65536 cases), and hull_ok is computed on all of them *)
Theorem C16_hull_is_the_convex_hull_for_every_sequence_on_the_4x4_lattice : forall s,
  (forall p, In p s -> In p (lattice 4)) -> hull_ok s = true.
Proof. exact hull_is_the_convex_hull_on_the_4x4_lattice. Qed.
Print Assumptions C16_hull_is_the_convex_hull_for_every_sequence_on_the_4x4_lattice.

(* separating-axis test never separates shapes that share a point: all polygons, all directions *)
Theorem C16_separating_axis_sound : forall d p1 p2 ws1 ws2,
  0 < fst d * fst d + snd d * snd d ->
  is_separating d p1 p2 = true -> weights_ok ws1 p1 -> weights_ok ws2 p2 ->
  ~ (fst (comb ws1 p1) == fst (comb ws2 p2) /\ snd (comb ws1 p1) == snd (comb ws2 p2)).
Proof. exact is_separating_sound. Qed.
Print Assumptions C16_separating_axis_sound.
Theorem C16_no_collision_means_a_separating_edge_direction : forall p1 p2,
  polygon_collide p1 p2 = false -> exists d, In d (edge_dirs p1 ++ edge_dirs p2) /\ is_separating d p1 p2 = true.
Proof. exact polygon_collide_false_sound. Qed.
Print Assumptions C16_no_collision_means_a_separating_edge_direction.

(* linearization error bound: what the (model of) linearization_error computes bounds the true distance of the curve from
   its chord interpolation, per coordinate, for every degree, every net and every s in [0,1]; the literals 2.0 and 0.125 are
   read from the source.  (No analysis: discrete maximum principle + de Casteljau sandwich + closed form on quadratic nets.) *)
Theorem C16_linearization_error_is_a_bound :
  forall (v : list Qc) (s : R), (2 <= List.length v)%nat -> (0 <= s <= 1)%R ->
  (Rabs (bernstein ROps (map Qc2R v) (1 - s) s - ((1 - s) * hd 0 (map Qc2R v) + s * last (map Qc2R v) 0))
   <= Q2R linearization_multiplier * INR (List.length v - 1) * (INR (List.length v - 1) - 1) * Qc2R (worst_case v))%R.
Proof. exact linearization_error_is_a_bound. Qed.
Print Assumptions C16_linearization_error_is_a_bound.
(* ... for ANY bound M of the second differences, over the reals *)
Theorem C16_chord_deviation_bound :
  forall (v : list R) (M s : R), (2 <= List.length v)%nat ->
  (forall j, (j + 3 <= List.length v)%nat -> (Rabs (nth j v 0 - 2 * nth (S j) v 0 + nth (S (S j)) v 0) <= M)%R) ->
  (0 <= s <= 1)%R ->
  (Rabs (bernstein ROps v (1 - s) s - ((1 - s) * hd 0 v + s * last v 0)) <= M * INR (List.length v - 1) * (INR (List.length v - 1) - 1) / 8)%R.
Proof. exact linearization_bound. Qed.
Print Assumptions C16_chord_deviation_bound.

(* clipping range: the value returned by (the model of) clip_range never rejects a true hit.  Exact data, every degree of
   both curves, every real pair of parameters; a chord of the distance polygon parallel to the fat line makes the function raise
   (then nothing is returned and nothing is claimed).  The per-chord update and the implicit line are the REGENERATED
   py__update_parameters / py_compute_implicit_line; the loops are the hand model Model/Clip.v (tied by correspondence). *)
Theorem C16_clip_range_never_rejects_a_true_hit :
  forall (x1 y1 x2 y2 : list Q) (smin smax : Q),
  List.length x1 = List.length y1 -> (2 <= List.length x1)%nat -> List.length x2 = List.length y2 -> (2 <= List.length x2)%nat ->
  clip_range x1 y1 x2 y2 = VTup [VQ smin; VQ smax] ->
  forall s t : R, (0 <= s <= 1)%R -> (0 <= t <= 1)%R -> BR x1 s = BR x2 t -> BR y1 s = BR y2 t ->
  (Q2R smin <= t <= Q2R smax)%R.
Proof. exact clip_range_sound. Qed.
Print Assumptions C16_clip_range_never_rejects_a_true_hit.
(* the regenerated per-chord update: raises exactly on a parallel chord; otherwise the range only grows towards the crossing *)
Theorem C16_update_parameters_exact : forall smin smax m l xi di xj dj,
  let cross := (m - 0) * (dj - di) - (l - l) * (xj - xi) in
  (cross == 0 ->
   py__update_parameters (VQ smin) (VQ smax) (V2 0 l) (V2 m l) (V2 xi di) (V2 xj dj) = VErr "NotImplementedError") /\
  (~ cross == 0 -> exists s t smin' smax',
   py__update_parameters (VQ smin) (VQ smax) (V2 0 l) (V2 m l) (V2 xi di) (V2 xj dj) = VTup [VQ smin'; VQ smax'] /\
   s * m == xi + t * (xj - xi) /\ t * (dj - di) == l - di /\
   smin' <= smin /\ smax <= smax' /\
   (0 <= t <= 1 -> 0 <= s -> smin' <= s) /\ (0 <= t <= 1 -> s <= 1 -> s <= smax')).
Proof. exact update_parameters_spec. Qed.
Print Assumptions C16_update_parameters_exact.
(* the fat line contains the control polygon of the first curve (hence, by the convex hull property, the curve) *)
Theorem C16_fat_line_contains_control_points : forall x0 xs y0 ys a b c lo hi,
  List.length xs = List.length ys -> (1 <= List.length xs)%nat ->
  fat_line (x0 :: xs) (y0 :: ys) = Some (a, b, c, lo, hi) ->
  a == - (last (y0 :: ys) 0 - y0) /\ b == last (x0 :: xs) 0 - x0 /\
  c == (last (y0 :: ys) 0 - y0) * x0 - (last (x0 :: xs) 0 - x0) * y0 /\
  lo <= 0 <= hi /\ Forall (fun d => lo <= d <= hi) (dists a b c (x0 :: xs) (y0 :: ys)).
Proof. exact fat_line_spec. Qed.
Print Assumptions C16_fat_line_contains_control_points.
(* non-vacuity: the example of the docstring returns (1/4, 7/8) in the model *)
Example C16_clip_range_docstring_example : exists smin smax,
  clip_range [2; 4.5; 2.5; 5] [0; 1; 3; 4] [-0.25; 3.75; 7] [3.125; 0.875; 3.125] = VTup [VQ smin; VQ smax] /\
  smin == 1 # 4 /\ smax == 7 # 8.
Proof. eexists; eexists. split; [vm_compute; reflexivity|]. split; reflexivity. Qed.

(* ---- each predicate with its Fortran twin: the Fortran routine, regenerated from its source text (translate/f902v_fn.py), equals the
   regenerated Python function, so every specification above holds for the Fortran text too (exact arithmetic) ---- *)
Theorem C16_fortran_twins_of_the_scalar_predicates :
  (forall v a b, f90_in_interval v a b = py_in_interval v a b) /\
  (forall u v, f90_cross_product u v = py_cross_product u v) /\
  (forall n, f90_bbox n = py_bbox n) /\
  (forall n p, f90_contains_nd n p = py_contains_nd n p) /\
  (forall v, f90_wiggle_interval v = py_wiggle_interval v (VQ f90_helpers_WIGGLE)) /\
  (forall a b c d, f90_segment_intersection a b c d = py_segment_intersection a b c d) /\
  (forall lhs rhs, f90_solve2x2 lhs rhs = py_solve2x2 lhs rhs).
Proof. exact scalar_twins. Qed.
Print Assumptions C16_fortran_twins_of_the_scalar_predicates.
Theorem C16_fortran_twins_of_the_box_and_segment_tests :
  (forall x0 xs y0 ys u0 us v0 vs,
     f90_bbox_intersect (vq_mat [x0 :: xs; y0 :: ys]) (vq_mat [u0 :: us; v0 :: vs])
     = py_bbox_intersect (vq_mat [x0 :: xs; y0 :: ys]) (vq_mat [u0 :: us; v0 :: vs])) /\
  (forall x0 xs y0 ys sx sy ex ey,
     f90_bbox_line_intersect (vq_mat [x0 :: xs; y0 :: ys]) (V2 sx sy) (V2 ex ey)
     = py_bbox_line_intersect (vq_mat [x0 :: xs; y0 :: ys]) (V2 sx sy) (V2 ex ey)) /\
  (forall ax ay bx by_ cx cy dx dy,
     f90_line_line_collide (L2 ax ay bx by_) (L2 cx cy dx dy) = py_line_line_collide (L2 ax ay bx by_) (L2 cx cy dx dy)) /\
  (forall x0 y0 x1 y1 x2 y2 x3 y3,
     let F := f90_parallel_lines_parameters (V2 x0 y0) (V2 x1 y1) (V2 x2 y2) (V2 x3 y3) in
     let P := py_parallel_lines_parameters (V2 x0 y0) (V2 x1 y1) (V2 x2 y2) (V2 x3 y3) in
     vidx F 0 = vidx P 0 /\ (vidx P 0 = VB false -> val_close 0 (vidx P 1) (vidx F 1) = true)).
Proof. exact box_and_segment_twins. Qed.
Print Assumptions C16_fortran_twins_of_the_box_and_segment_tests.
