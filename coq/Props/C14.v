(* C14 - Calls are pure (partial: the buffer protocol of the compiled curve-intersection entry point as a state machine;
   purity of the numerical routine itself is the assumption `isect`, validated against pristine processes). Statements only. *)
From Coq Require Import List Arith Bool.
From BZ Require Import Model.Workspace Theory.WorkspaceTheory.
Import ListNotations.

(* after ANY history of earlier operations (other inputs, failing calls, resets, frees) a call returns isect of ITS arguments *)
Theorem C14_history_independence :
  forall (input pair : Type) (isect : input -> list pair) (history : list (op input)) (x : input),
  snd (step input pair isect (fst (run input pair isect (init pair) history)) (Intersect input x true)) = Result pair (isect x).
Proof. exact history_independence. Qed.
Print Assumptions C14_history_independence.

(* no cell written by an earlier call is ever handed to the caller; the state stays well formed *)
Theorem C14_no_stale_read :
  forall (input pair : Type) (isect : input -> list pair) (s : state pair) (o : op input),
  wf pair s -> snd (step input pair isect s o) <> StaleRead pair /\ wf pair (fst (step input pair isect s o)).
Proof. exact no_stale_read. Qed.
Print Assumptions C14_no_stale_read.

(* one call in detail: the result, the documented size error when resizing is not allowed, and the new capacity *)
Theorem C14_call_specification :
  forall (input pair : Type) (isect : input -> list pair) (s : state pair) (x : input) (allow : bool),
  wf pair s ->
  let k := length (isect x) in
  snd (step input pair isect s (Intersect input x allow)) =
    (if Nat.leb k (cap pair s) then Result pair (isect x)
     else if allow then Result pair (isect x) else TooSmall pair k (cap pair s)) /\
  wf pair (fst (step input pair isect s (Intersect input x allow))) /\
  cap pair (fst (step input pair isect s (Intersect input x allow))) =
    (if Nat.leb k (cap pair s) then cap pair s else if allow then k else cap pair s).
Proof. exact step_intersect. Qed.
Print Assumptions C14_call_specification.

(* ---- the two workspaces of the compiled TRIANGLE intersection (segment ends, segments), with up to two resizes ---- *)
From BZ Require Model.WorkspaceTri Theory.WorkspaceTriTheory.
(* after ANY history (other inputs, failing calls, resets to any sizes) a call with at least two resizes allowed returns tisect of ITS
   arguments: one resize for the segment-ends buffer, one for the segments buffer always suffice *)
Theorem C14_triangle_history_independence :
  forall (input seg : Type) (tisect : input -> list (list seg)) (history : list (WorkspaceTri.op input)) (x : input) (r : nat),
  snd (WorkspaceTri.step input seg tisect (fst (WorkspaceTri.run input seg tisect (WorkspaceTri.init seg) history))
         (WorkspaceTri.Intersect input x (S (S r)))) = WorkspaceTri.Result seg (tisect x).
Proof. exact WorkspaceTriTheory.history_independence. Qed.
Print Assumptions C14_triangle_history_independence.
(* with ANY number of resizes and ANY state of the buffers the outcome is the result or one of the two documented size errors with the
   exact numbers; a cell that was not written during this call is never read (the read of the last segment end before the second
   resize included) *)
Theorem C14_triangle_call_outcomes :
  forall (input seg : Type) (tisect : input -> list (list seg)) (r : nat) (s : WorkspaceTri.state seg) (x : input),
  snd (WorkspaceTri.call input seg tisect r s x) = WorkspaceTri.Result seg (tisect x) \/
  (exists e, snd (WorkspaceTri.call input seg tisect r s x) = WorkspaceTri.EndsTooSmall seg (length (tisect x)) e) \/
  (exists g, snd (WorkspaceTri.call input seg tisect r s x) = WorkspaceTri.SegsTooSmall seg (WorkspaceTri.total seg (tisect x)) g).
Proof. exact WorkspaceTriTheory.call_outcome. Qed.
Print Assumptions C14_triangle_call_outcomes.
