(* C01 - Curve evaluation equals the Bernstein definition. Statements only. *)
From Coq Require Import List Arith ZArith QArith Qcanon Reals.
From BZ Require Import Base.Ops Base.QcInst Base.RInst Model.Curve Model.CurvePy Gen.PyCurveHelpers
  Theory.CurveEval Theory.CurveEvalExtra Theory.CurveTables Theory.Rounding Theory.CurveRound Theory.CurveRoundVS Theory.Binary64.
Import ListNotations.

(* de Casteljau = Bernstein definition: every degree, any commutative ring *)
Theorem C01_de_casteljau_is_bernstein :
  forall (T : Type) (K : Ops T), ring_of K ->
  forall (v : list T) (l1 l2 : T), v <> [] -> eval_dc K v l1 l2 = bernstein K v l1 l2.
Proof. exact @eval_dc_correct. Qed.
Print Assumptions C01_de_casteljau_is_bernstein.

(* the modified Horner loop with its running binomial computed by division = Bernstein definition:
   every degree >= 1 (degree 0 needs l1 + l2 = 1), any field of characteristic 0 *)
Theorem C01_vs_is_bernstein :
  forall (T : Type) (K : Ops T), field_of K -> char0 K ->
  forall (v : list T) (l1 l2 : T),
  (2 <= length v)%nat \/ (v <> [] /\ oadd K l1 l2 = o1 K) ->
  eval_vs K v l1 l2 = bernstein K v l1 l2.
Proof. exact @eval_vs_correct. Qed.
Print Assumptions C01_vs_is_bernstein.

(* the silent algorithm switch is seamless: both branches denote the same function for EVERY threshold *)
Theorem C01_switch_is_seamless :
  forall (T : Type) (K : Ops T), field_of K -> char0 K ->
  forall (thr : nat) (v : list T) (l1 l2 : T),
  (2 <= length v)%nat \/ (v <> [] /\ oadd K l1 l2 = o1 K) ->
  eval_bary K thr v l1 l2 = bernstein K v l1 l2.
Proof. exact @eval_bary_correct. Qed.
Print Assumptions C01_switch_is_seamless.

(* evaluate_multi with the literal read from the source, vectors of parameters *)
Theorem C01_evaluate_multi_is_bernstein :
  forall (v ss : list Qc), v <> [] ->
  evaluate_multi_py v ss = map (fun s => bernstein QcOps v (1 - s) s) ss.
Proof. intros v ss H. exact (eval_multi_correct QcOps QcField QcChar0 vs_max_nodes v ss H). Qed.
Print Assumptions C01_evaluate_multi_is_bernstein.

(* the binary64 running binomial is exact for every degree that reaches the VS branch *)
Theorem C01_running_binomial_exact_below_switch : binom_exact_upto vs_max_nodes = true.
Proof. exact running_binomial_exact_below_switch. Qed.
Print Assumptions C01_running_binomial_exact_below_switch.

(* end points are returned exactly in ANY arithmetic in which 0 and 1 are neutral/absorbing
   (true of IEEE-754 on finite values): s = 0 gives lambda = (1,0), s = 1 gives (fl(1-1), 1) = (0,1) *)
Theorem C01_endpoint_0_exact :
  forall (T : Type) (K : Ops T), Laws01 K ->
  forall (thr : nat) (v : list T), v <> [] -> eval_bary K thr v (o1 K) (o0 K) = hd (o0 K) v.
Proof. exact @eval_bary_at_0. Qed.
Print Assumptions C01_endpoint_0_exact.
Theorem C01_endpoint_1_exact :
  forall (T : Type) (K : Ops T), Laws01 K ->
  forall (thr : nat) (v : list T), v <> [] -> eval_bary K thr v (o0 K) (o1 K) = last v (o0 K).
Proof. exact @eval_bary_at_1. Qed.
Print Assumptions C01_endpoint_1_exact.

(* ... instantiated: every operation correctly rounded to 53 significant bits, round-to-nearest-even, unbounded exponent
   (Flocq's FLX format: IEEE-754 binary64 away from overflow and underflow); u = 2^-53 *)
Theorem C01_rounding_error_bound_binary64 :
  forall (v : list R) (s : R), (2 <= length v)%nat -> (Z.of_nat (length v) < 2 ^ 53)%Z ->
  (Rabs (eval_bary (FlOps fl64) vs_max_nodes v (osub (FlOps fl64) 1%R s) s - bernstein ROps v (1 - s) s)
   <= ((1 + u64) ^ (3 * (length v - 1) + 2) - 1) * bernstein ROps (map Rabs v) (Rabs (1 - s)) (Rabs s))%R.
Proof. exact evaluate_rounding_binary64. Qed.
Print Assumptions C01_rounding_error_bound_binary64.

(* convex hull / bounding box, each coordinate, s in [0,1] (over R) *)
Theorem C01_point_in_bounding_box :
  forall (thr : nat) (lo hi : R) (v : list R) (s : R), v <> [] -> (0 <= s <= 1)%R -> within lo hi v ->
  (lo <= eval_bary ROps thr v (1 - s) s <= hi)%R.
Proof. exact eval_bary_in_hull. Qed.
Print Assumptions C01_point_in_bounding_box.

Example C01_example : evaluate_multi_py (qcs [0; 1; 3; 2]%Q) (qcs [0; 1#2; 1; 2]%Q) = qcs [0; 7#4; 2; -14]%Q.
Proof. apply vec_eqb_eq. vm_compute. reflexivity. Qed.

(* ROUNDING: the model of evaluate_multi_barycentric, executed in ANY arithmetic `fl` with relative error at most u per
   operation (standard model of floating point: no overflow, underflow or NaN) that represents exactly the integers
   whose odd part is below 2^53 (as binary64 does), with lambda1 = fl(1 - s) as evaluate_multi computes it, differs from
   the Bernstein definition by at most ((1+u)^(3n+2) - 1) sum_j |C(n,j) (1-s)^(n-j) s^j| |v_j|.
   Every degree n >= 1, every net, every parameter; both sides of the algorithm switch read from the source. *)
Theorem C01_rounding_error_bound :
  forall (u : R) (fl : R -> R), (0 <= u)%R ->
  (forall x, (Rabs (fl x - x) <= u * Rabs x)%R) ->
  (forall z : Z, repr53 z = true -> fl (IZR z) = IZR z) ->
  forall (v : list R) (s : R), (2 <= length v)%nat -> (Z.of_nat (length v) < 2 ^ 53)%Z ->
  (Rabs (eval_bary (FlOps fl) vs_max_nodes v (osub (FlOps fl) 1%R s) s - bernstein ROps v (1 - s) s)
   <= ((1 + u) ^ (3 * (length v - 1) + 2) - 1) * bernstein ROps (map Rabs v) (Rabs (1 - s)) (Rabs s))%R.
Proof.
  intros u fl Hu Hs Hi v s Hl Hz.
  exact (eval_bary_rounding u Hu fl Hs Hi vs_max_nodes v s Hl Hz running_binomial_exact_below_switch).
Qed.
Print Assumptions C01_rounding_error_bound.
(* the rounded evaluation above is literally what evaluate_multi does in that arithmetic *)
Theorem C01_rounded_model_is_evaluate_multi :
  forall (fl : R -> R) (v : list R) (s : R),
  eval_multi (FlOps fl) vs_max_nodes v [s] = [eval_bary (FlOps fl) vs_max_nodes v (osub (FlOps fl) 1%R s) s].
Proof. reflexivity. Qed.
Print Assumptions C01_rounded_model_is_evaluate_multi.
(* the hypotheses are satisfiable (exact arithmetic, u = 0) *)
Example C01_rounding_hypotheses_satisfiable :
  (forall x, (Rabs ((fun y => y) x - x) <= 0 * Rabs x)%R) /\ (forall z : Z, repr53 z = true -> (fun y : R => y) (IZR z) = IZR z).
Proof. split; [intros x; replace (x - x)%R with 0%R by ring; rewrite Rabs_R0; apply Req_le; ring | reflexivity]. Qed.
