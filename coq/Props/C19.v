(* C19 - Implicitization and Bernstein-basis root finding (partial: implicit function of degree 1-3, interpolation,
   basis change; the eigenvalue / root-finding back ends (LAPACK, polyroots) are not modelled). Statements only. *)
From Coq Require Import List ZArith QArith Bool String.
From Coq Require Import Qcanon.
From BZ Require Import Base.Ops Base.QcInst Model.Curve Model.Sigma Theory.SigmaTheory.
From BZ Require Import Base.PyVal Gen.PyFnAlgebraic Theory.Algebraic Model.Algebraic Theory.Algebraic3.
Import ListNotations.
Open Scope Q_scope.

Theorem C19_implicit_function_vanishes_on_the_line : forall o x0 x1 y0 y1 s,
  exists e, py_evaluate o (N2x2 x0 x1 y0 y1) (VQ ((1 - s) * x0 + s * x1)) (VQ ((1 - s) * y0 + s * y1)) = VQ e /\ e == 0.
Proof. exact implicit_vanishes_degree1. Qed.
Print Assumptions C19_implicit_function_vanishes_on_the_line.
Theorem C19_implicit_function_of_a_line_is_its_equation : forall o x0 x1 y0 y1 x y,
  exists e, py_evaluate o (N2x2 x0 x1 y0 y1) (VQ x) (VQ y) = VQ e /\ e == (x0 - x) * (y1 - y) - (x1 - x) * (y0 - y).
Proof. exact implicit_degree1_is_line. Qed.
Print Assumptions C19_implicit_function_of_a_line_is_its_equation.
Theorem C19_implicit_function_vanishes_on_the_quadratic : forall o x0 x1 x2 y0 y1 y2 s,
  exists e, py_evaluate o (N2x3 x0 x1 x2 y0 y1 y2)
                (VQ ((1 - s) * (1 - s) * x0 + 2 * (1 - s) * s * x1 + s * s * x2))
                (VQ ((1 - s) * (1 - s) * y0 + 2 * (1 - s) * s * y1 + s * s * y2)) = VQ e /\ e == 0.
Proof. exact implicit_vanishes_degree2. Qed.
Print Assumptions C19_implicit_function_vanishes_on_the_quadratic.

(* the intersection polynomial returned in the power basis is a constant multiple (1 or 3) of the sampled function *)
(* degree 3: evaluate() = the regenerated dispatch applied to the hand model of _evaluate3 (6x6 Sylvester determinant,
   corresponded exactly); it vanishes at every point of the cubic, for all control points and every parameter *)
Theorem C19_implicit_function_vanishes_on_the_cubic : forall x0 x1 x2 x3 y0 y1 y2 y3 s,
  exists e, evaluate_model (N2x4 x0 x1 x2 x3 y0 y1 y2 y3) (VQ (cubic x0 x1 x2 x3 s)) (VQ (cubic y0 y1 y2 y3 s)) = VQ e /\ e == 0.
Proof. exact implicit_vanishes_degree3. Qed.
Print Assumptions C19_implicit_function_vanishes_on_the_cubic.

Theorem C19_interpolation_degree1 : forall f n1 n2 c0 c1, samples [c0; c1] f ->
  exists a0 a1, py__to_power_basis11 f n1 n2 = VTup [VQ a0; VQ a1] /\ a0 == c0 /\ a1 == c1.
Proof. exact interpolation_11. Qed.
Print Assumptions C19_interpolation_degree1.
Theorem C19_interpolation_degree2 : forall f n1 n2 c0 c1 c2, samples [c0; c1; c2] f ->
  exists a0 a1 a2, py__to_power_basis12 f n1 n2 = VTup [VQ a0; VQ a1; VQ a2] /\ a0 == c0 /\ a1 == c1 /\ a2 == c2.
Proof. exact interpolation_12. Qed.
Print Assumptions C19_interpolation_degree2.
Theorem C19_interpolation_degree3 : forall f n1 n2 c0 c1 c2 c3, samples [c0; c1; c2; c3] f ->
  exists a0 a1 a2 a3, py__to_power_basis13 f n1 n2 = VTup [VQ a0; VQ a1; VQ a2; VQ a3] /\
    a0 == 3 * c0 /\ a1 == 3 * c1 /\ a2 == 3 * c2 /\ a3 == 3 * c3.
Proof. exact interpolation_13. Qed.
Print Assumptions C19_interpolation_degree3.
Theorem C19_interpolation_degree4 : forall f n1 n2 c0 c1 c2 c3 c4, samples [c0; c1; c2; c3; c4] f ->
  exists a0 a1 a2 a3 a4, py__to_power_basis_degree4 f n1 n2 = VTup [VQ a0; VQ a1; VQ a2; VQ a3; VQ a4] /\
    a0 == 3 * c0 /\ a1 == 3 * c1 /\ a2 == 3 * c2 /\ a3 == 3 * c3 /\ a4 == 3 * c4.
Proof. exact interpolation_degree4. Qed.
Print Assumptions C19_interpolation_degree4.

(* Bernstein -> power basis represents the same polynomial; higher degrees raise *)
Theorem C19_basis_change_degree3 : forall b0 b1 b2 b3 s,
  exists a0 a1 a2 a3, py_poly_to_power_basis (VTup [VQ b0; VQ b1; VQ b2; VQ b3]) = VTup [VQ a0; VQ a1; VQ a2; VQ a3] /\
    a0 + s * (a1 + s * (a2 + s * a3))
    == (1 - s) * (1 - s) * (1 - s) * b0 + 3 * (1 - s) * (1 - s) * s * b1 + 3 * (1 - s) * s * s * b2 + s * s * s * b3.
Proof. exact poly_to_power_basis_4. Qed.
Print Assumptions C19_basis_change_degree3.
Theorem C19_basis_change_degree2 : forall b0 b1 b2 s,
  exists a0 a1 a2, py_poly_to_power_basis (VTup [VQ b0; VQ b1; VQ b2]) = VTup [VQ a0; VQ a1; VQ a2] /\
    a0 + s * (a1 + s * a2) == (1 - s) * (1 - s) * b0 + 2 * (1 - s) * s * b1 + s * s * b2.
Proof. exact poly_to_power_basis_3. Qed.
Print Assumptions C19_basis_change_degree2.
Theorem C19_basis_change_unsupported : forall b0 b1 b2 b3 b4 rest,
  py_poly_to_power_basis (VTup (VQ b0 :: VQ b1 :: VQ b2 :: VQ b3 :: VQ b4 :: rest)) = VErr "UnsupportedDegree".
Proof. exact poly_to_power_basis_unsupported. Qed.
Print Assumptions C19_basis_change_unsupported.

(* ---- the Bernstein root finder: sigma transform and companion matrix (hand model Model/Sigma.v of _get_sigma_coeffs and
   bernstein_companion, tied by correspondence; any field of characteristic 0, is0 any exact zero test) ---- *)
(* the polynomial in Bernstein form factors as  C(d,e) c_e (1-s)^(d-e) * (homogeneous monic sigma polynomial):
   s = 1 is a root of multiplicity d - e, the others come from the sigma polynomial *)
Theorem C19_sigma_factorization : forall (T : Type) (K : Ops T), field_of K -> char0 K ->
  forall (is0 : T -> bool), (forall x, is0 x = true <-> x = o0 K) ->
  forall c sig d e l1 l2, get_sigma_coeffs K is0 c = (Some sig, d, e) ->
  bernstein K c l1 l2 = omul K (omul K (omul K (ofn K (choose d e)) (nth e c (o0 K))) (pw K l1 (d - e))) (hom_sigma K sig l1 l2).
Proof. exact @sigma_factorization. Qed.
Print Assumptions C19_sigma_factorization.
Theorem C19_roots_are_the_sigma_roots : forall (T : Type) (K : Ops T), field_of K -> char0 K ->
  forall (is0 : T -> bool), (forall x, is0 x = true <-> x = o0 K) ->
  forall c sig d e s, get_sigma_coeffs K is0 c = (Some sig, d, e) -> osub K (o1 K) s <> o0 K ->
  (bernstein K c (osub K (o1 K) s) s = o0 K <-> sigma_poly K sig (odiv K s (osub K (o1 K) s)) = o0 K).
Proof. exact @roots_correspond. Qed.
Print Assumptions C19_roots_are_the_sigma_roots.
Theorem C19_reported_value_of_a_sigma_root_is_a_root : forall (T : Type) (K : Ops T), field_of K -> char0 K ->
  forall (is0 : T -> bool), (forall x, is0 x = true <-> x = o0 K) ->
  forall c sig d e x, get_sigma_coeffs K is0 c = (Some sig, d, e) -> oadd K (o1 K) x <> o0 K ->
  sigma_poly K sig x = o0 K ->
  bernstein K c (osub K (o1 K) (odiv K x (oadd K (o1 K) x))) (odiv K x (oadd K (o1 K) x)) = o0 K.
Proof. exact @sigma_root_gives_root. Qed.
Print Assumptions C19_reported_value_of_a_sigma_root_is_a_root.
(* the eigenvalue problem handed to LAPACK is exactly the root problem of the sigma polynomial *)
Theorem C19_sigma_root_is_an_eigenvalue_of_the_companion : forall (T : Type) (K : Ops T), field_of K ->
  forall (sig : list T) x, (1 <= List.length sig)%nat -> sigma_poly K sig x = o0 K ->
  matvec_rows K (companion K sig) (rev (powers K x (List.length sig))) = map (omul K x) (rev (powers K x (List.length sig))) /\
  last (rev (powers K x (List.length sig))) (o0 K) = o1 K.
Proof. exact @root_is_eigenvalue. Qed.
Print Assumptions C19_sigma_root_is_an_eigenvalue_of_the_companion.
Theorem C19_eigenvalue_of_the_companion_is_a_sigma_root : forall (T : Type) (K : Ops T), field_of K ->
  forall (sig v : list T) lam, (1 <= List.length sig)%nat -> List.length v = List.length sig ->
  matvec_rows K (companion K sig) v = map (omul K lam) v -> ~ Forall (fun y => y = o0 K) v ->
  sigma_poly K sig lam = o0 K.
Proof. exact @eigenvalue_is_root. Qed.
Print Assumptions C19_eigenvalue_of_the_companion_is_a_sigma_root.
(* non-vacuity: a cubic-form polynomial of effective degree 2 (coefficients 2, -3, 1, 0): sigma = (2/3, -3), d = 3, e = 2 *)
Example C19_sigma_example :
  (let '(sg, d, e) := get_sigma_coeffs QcOps (fun x => Qc_eqb x (Q2Qc 0)) (qcs [2; -3; 1; 0]) in
   (option_map (map this) sg, d, e)) = (Some [2 # 3; -3 # 1], 3%nat, 2%nat).
Proof. vm_compute. reflexivity. Qed.
