(* C11 - Tangents, curvature and Jacobians are the true derivatives. Statements only. *)
From Coq Require Import List Arith QArith Qcanon.
From BZ Require Import Base.Ops Base.PyVal Model.Curve Gen.PyFnHelpers Gen.PyFnTriangle Gen.PyFnTriangleIntersection
  Theory.CurveDeriv Theory.TriBlossom Theory.Predicates Model.Triangle Theory.TriLink Theory.TriLink2 Theory.TriJacList.
Import ListNotations.

(* the hodograph is the derivative: in the ring of dual numbers T[eps]/(eps^2), B[v]((1-s) - eps, s + eps)
   = B[v](1-s, s) + eps * n * B[diffs v](1-s, s).  Every degree >= 1, any commutative ring.
   (Applied twice it gives the second-derivative net n (n-1) diffs (diffs v) used by get_curvature.) *)
Theorem C11_hodograph_is_the_formal_derivative :
  forall (T : Type) (K : Ops T), ring_of K ->
  forall (v : list T) (l1 l2 : T), (2 <= length v)%nat ->
  bernstein (DualOps K) (map (lift K) v) (dneg K l1) (deps K l2)
  = (bernstein K v l1 l2, omul K (ofn K (length v - 1)) (bernstein K (diffs K v) l1 l2)).
Proof. exact @hodograph_is_derivative. Qed.
Print Assumptions C11_hodograph_is_the_formal_derivative.

(* triangles (index-function level): the eps-part of n dual de Casteljau rounds at w + eps w' is
   n times the (n-1)-round evaluation of the difference net D w' f; with w' = (-1,1,0) resp. (-1,0,1)
   the difference nets are exactly what jacobian_s / jacobian_t compute *)
Theorem C11_jacobian_nets_are_partial_derivatives :
  forall (T : Type) (K : Ops T), ring_of K ->
  forall (w w' : T * T * T) (n : nat) (f g : nat -> nat -> T),
  fext (epsD K w w' n f g)
       (fadd K (iterD K w n g) (fun j k => omul K (ofnat K n) (iterD K w (n - 1) (D K w' f) j k))).
Proof. exact @epsD_is_derivative. Qed.
Print Assumptions C11_jacobian_nets_are_partial_derivatives.

(* LIST LEVEL: evaluating the nets returned by the models of jacobian_s / jacobian_t (the index walks over the rows of the
   documented ordering) gives exactly the eps-coefficient of the dual-number evaluation of the triangle in the direction
   (-1, 1, 0) resp. (-1, 0, 1) - the formal partial derivatives d/ds, d/dt.  Every degree d + 1 >= 1, every net of the right
   size, every barycentric triple, any commutative ring. *)
Theorem C11_jacobian_s_net_is_the_partial_derivative :
  forall (T : Type) (K : Ops T), ring_of K ->
  forall (d : nat) (v : list T), wf_flat (S d) v -> forall l1 l2 l3 : T,
  tri_bernstein K d (jac_s K (S d) v) l1 l2 l3
  = epsD K (l1, l2, l3) (osub K (o0 K) (o1 K), o1 K, o0 K) (S d) (fun_of K (split_rows (S (S d)) v)) (fun _ _ => o0 K) 0%nat 0%nat.
Proof. exact @jac_s_is_partial_derivative. Qed.
Print Assumptions C11_jacobian_s_net_is_the_partial_derivative.
Theorem C11_jacobian_t_net_is_the_partial_derivative :
  forall (T : Type) (K : Ops T), ring_of K ->
  forall (d : nat) (v : list T), wf_flat (S d) v -> forall l1 l2 l3 : T,
  tri_bernstein K d (jac_t K (S d) v) l1 l2 l3
  = epsD K (l1, l2, l3) (osub K (o0 K) (o1 K), o0 K, o1 K) (S d) (fun_of K (split_rows (S (S d)) v)) (fun _ _ => o0 K) 0%nat 0%nat.
Proof. exact @jac_t_is_partial_derivative. Qed.
Print Assumptions C11_jacobian_t_net_is_the_partial_derivative.

(* the scalar pieces, REGENERATED from the Python sources *)
Theorem C11_cross_product : forall a b c d : Q, py_cross_product (V2 a b) (V2 c d) = VQ (a * d - b * c).
Proof. exact cross_product_spec. Qed.
Print Assumptions C11_cross_product.
Theorem C11_two_by_two_det : forall a b c d : Q, py_two_by_two_det (VTup [V2 a b; V2 c d]) = VQ (a * d - b * c).
Proof. exact two_by_two_det_spec. Qed.
Print Assumptions C11_two_by_two_det.
(* Newton step for curve-curve intersection: solve2x2 returns the exact solution of the 2x2 system *)
Theorem C11_newton_step_solve_exact : forall a b c d e f x y : Q,
  py_solve2x2 (M2 a b c d) (V2 e f) = VTup [VB false; VQ x; VQ y] -> a * x + b * y == e /\ c * x + d * y == f.
Proof. exact solve2x2_sound. Qed.
Print Assumptions C11_newton_step_solve_exact.
Theorem C11_newton_step_singular_iff : forall a b c d e f : Q,
  py_solve2x2 (M2 a b c d) (V2 e f) = VTup [VB true; VNone; VNone] <-> a * d - b * c == 0.
Proof. exact solve2x2_singular_iff. Qed.
Print Assumptions C11_newton_step_singular_iff.
(* Newton step on a triangle: Cramer's rule solves J (ds, dt) = (x - B_x, y - B_y) *)
Theorem C11_newton_step_triangle_exact : forall a b c d x sx y sy ds dt : Q, ~ a * d - b * c == 0 ->
  py_newton_refine_solve (VTup [VTup [VQ a]; VTup [VQ b]; VTup [VQ c]; VTup [VQ d]]) (VQ x) (VQ sx) (VQ y) (VQ sy)
  = VTup [VQ ds; VQ dt] ->
  a * ds + c * dt == x - sx /\ b * ds + d * dt == y - sy.
Proof. exact newton_refine_solve_spec. Qed.
Print Assumptions C11_newton_step_triangle_exact.
