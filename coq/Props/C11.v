(* C11 - Tangents, curvature and Jacobians are the true derivatives. Statements only. *)
From Coq Require Import List Arith QArith Qcanon.
From BZ Require Import Base.Ops Base.PyVal Model.Curve Gen.PyFnHelpers Gen.PyFnTriangle Gen.PyFnTriangleIntersection
  Theory.CurveDeriv Model.NewtonSystems Theory.NewtonSystems Theory.TriBlossom Theory.Predicates Model.Triangle Theory.TriLink Theory.TriLink2 Theory.TriJacList.
Import ListNotations.

(* the hodograph is the derivative: in the ring of dual numbers T[eps]/(eps^2), B[v]((1-s) - eps, s + eps)
   = B[v](1-s, s) + eps * n * B[diffs v](1-s, s).  Every degree >= 1, any commutative ring.
   (Applied twice it gives the second-derivative net n (n-1) diffs (diffs v) used by get_curvature.) *)
Theorem C11_hodograph_is_the_formal_derivative :
  forall (T : Type) (K : Ops T), ring_of K ->
  forall (v : list T) (l1 l2 : T), (2 <= length v)%nat ->
  bernstein (DualOps K) (map (lift K) v) (dneg K l1) (deps K l2)
  = (bernstein K v l1 l2, omul K (ofn K (length v - 1)) (bernstein K (diffs K v) l1 l2)).
Proof. exact @hodograph_is_derivative. Qed.
Print Assumptions C11_hodograph_is_the_formal_derivative.

(* triangles (index-function level): the eps-part of n dual de Casteljau rounds at w + eps w' is
   n times the (n-1)-round evaluation of the difference net D w' f; with w' = (-1,1,0) resp. (-1,0,1)
   the difference nets are exactly what jacobian_s / jacobian_t compute *)
Theorem C11_jacobian_nets_are_partial_derivatives :
  forall (T : Type) (K : Ops T), ring_of K ->
  forall (w w' : T * T * T) (n : nat) (f g : nat -> nat -> T),
  fext (epsD K w w' n f g)
       (fadd K (iterD K w n g) (fun j k => omul K (ofnat K n) (iterD K w (n - 1) (D K w' f) j k))).
Proof. exact @epsD_is_derivative. Qed.
Print Assumptions C11_jacobian_nets_are_partial_derivatives.

(* LIST LEVEL: evaluating the nets returned by the models of jacobian_s / jacobian_t (the index walks over the rows of the
   documented ordering) gives exactly the eps-coefficient of the dual-number evaluation of the triangle in the direction
   (-1, 1, 0) resp. (-1, 0, 1) - the formal partial derivatives d/ds, d/dt.  Every degree d + 1 >= 1, every net of the right
   size, every barycentric triple, any commutative ring. *)
Theorem C11_jacobian_s_net_is_the_partial_derivative :
  forall (T : Type) (K : Ops T), ring_of K ->
  forall (d : nat) (v : list T), wf_flat (S d) v -> forall l1 l2 l3 : T,
  tri_bernstein K d (jac_s K (S d) v) l1 l2 l3
  = epsD K (l1, l2, l3) (osub K (o0 K) (o1 K), o1 K, o0 K) (S d) (fun_of K (split_rows (S (S d)) v)) (fun _ _ => o0 K) 0%nat 0%nat.
Proof. exact @jac_s_is_partial_derivative. Qed.
Print Assumptions C11_jacobian_s_net_is_the_partial_derivative.
Theorem C11_jacobian_t_net_is_the_partial_derivative :
  forall (T : Type) (K : Ops T), ring_of K ->
  forall (d : nat) (v : list T), wf_flat (S d) v -> forall l1 l2 l3 : T,
  tri_bernstein K d (jac_t K (S d) v) l1 l2 l3
  = epsD K (l1, l2, l3) (osub K (o0 K) (o1 K), o0 K, o1 K) (S d) (fun_of K (split_rows (S (S d)) v)) (fun _ _ => o0 K) 0%nat 0%nat.
Proof. exact @jac_t_is_partial_derivative. Qed.
Print Assumptions C11_jacobian_t_net_is_the_partial_derivative.

(* the scalar pieces, REGENERATED from the Python sources *)
Theorem C11_cross_product : forall a b c d : Q, py_cross_product (V2 a b) (V2 c d) = VQ (a * d - b * c).
Proof. exact cross_product_spec. Qed.
Print Assumptions C11_cross_product.
Theorem C11_two_by_two_det : forall a b c d : Q, py_two_by_two_det (VTup [V2 a b; V2 c d]) = VQ (a * d - b * c).
Proof. exact two_by_two_det_spec. Qed.
Print Assumptions C11_two_by_two_det.
(* Newton step for curve-curve intersection: solve2x2 returns the exact solution of the 2x2 system *)
Theorem C11_newton_step_solve_exact : forall a b c d e f x y : Q,
  py_solve2x2 (M2 a b c d) (V2 e f) = VTup [VB false; VQ x; VQ y] -> a * x + b * y == e /\ c * x + d * y == f.
Proof. exact solve2x2_sound. Qed.
Print Assumptions C11_newton_step_solve_exact.
Theorem C11_newton_step_singular_iff : forall a b c d e f : Q,
  py_solve2x2 (M2 a b c d) (V2 e f) = VTup [VB true; VNone; VNone] <-> a * d - b * c == 0.
Proof. exact solve2x2_singular_iff. Qed.
Print Assumptions C11_newton_step_singular_iff.
(* Newton step on a triangle: Cramer's rule solves J (ds, dt) = (x - B_x, y - B_y) *)
Theorem C11_newton_step_triangle_exact : forall a b c d x sx y sy ds dt : Q, ~ a * d - b * c == 0 ->
  py_newton_refine_solve (VTup [VTup [VQ a]; VTup [VQ b]; VTup [VQ c]; VTup [VQ d]]) (VQ x) (VQ sx) (VQ y) (VQ sy)
  = VTup [VQ ds; VQ dt] ->
  a * ds + c * dt == x - sx /\ b * ds + d * dt == y - sy.
Proof. exact newton_refine_solve_spec. Qed.
Print Assumptions C11_newton_step_triangle_exact.

(* the two Newton SYSTEMS of the curve-curve end game (hand model Model/NewtonSystems.v of NewtonSimpleRoot / NewtonDoubleRoot,
   derivative nets built as full_newton_nonzero builds them; tied by correspondence): the Jacobian each of them uses is the
   formal derivative of the function it is used with -
     G(s + eps, t) = G(s, t) + eps * (first column of DG),  G(s, t + eps) = G(s, t) + eps * (second column of DG)
   for G = [B1(s) - B2(t); B1'(s) x B2'(t)].  Every pair of degrees, any commutative ring *)
Theorem C11_double_root_jacobian_is_the_derivative : forall (T : Type) (K : Ops T), ring_of K ->
  forall (x1 y1 x2 y2 : list T) (s t : T),
  let d := double_root K x1 y1 x2 y2 s t in
  let G := (g1 d, g2 d, g3 d) in
  Gfun (DualOps K) (dualB K x1 s) (dualB K y1 s) (lift K (Bv K x2 t)) (lift K (Bv K y2 t))
       (dualB K (dnet K x1) s) (dualB K (dnet K y1) s) (lift K (Bv K (dnet K x2) t)) (lift K (Bv K (dnet K y2) t))
  = with_eps G (col1 d) /\
  Gfun (DualOps K) (lift K (Bv K x1 s)) (lift K (Bv K y1 s)) (dualB K x2 t) (dualB K y2 t)
       (lift K (Bv K (dnet K x1) s)) (lift K (Bv K (dnet K y1) s)) (dualB K (dnet K x2) t) (dualB K (dnet K y2) t)
  = with_eps G (col2 d).
Proof. exact @double_root_jacobian_is_the_derivative. Qed.
Print Assumptions C11_double_root_jacobian_is_the_derivative.
(* ... where B[v](s + eps) over the dual numbers is (B[v](s), B[dnet v](s)): dnet IS the derivative net, for nets of any size *)
Theorem C11_derivative_net : forall (T : Type) (K : Ops T), ring_of K ->
  forall (v : list T) (s : T), dualB K v s = (Bv K v s, Bv K (dnet K v) s).
Proof. exact @dualB_spec. Qed.
Print Assumptions C11_derivative_net.
Theorem C11_simple_root_jacobian_is_the_derivative : forall (T : Type) (K : Ops T), ring_of K ->
  forall (x1 y1 x2 y2 : list T) (s t : T),
  let '(F, (a11, a12, a21, a22)) := simple_root K x1 y1 x2 y2 s t in
  (osub (DualOps K) (dualB K x1 s) (lift K (Bv K x2 t)), osub (DualOps K) (dualB K y1 s) (lift K (Bv K y2 t)))
    = ((fst F, a11), (snd F, a21)) /\
  (osub (DualOps K) (lift K (Bv K x1 s)) (dualB K x2 t), osub (DualOps K) (lift K (Bv K y1 s)) (dualB K y2 t))
    = ((fst F, a12), (snd F, a22)).
Proof. exact @simple_root_jacobian_is_the_derivative. Qed.
Print Assumptions C11_simple_root_jacobian_is_the_derivative.
