(* C09 - Triangle subdivision tiles the original surface. Statements only. *)
From Coq Require Import List Arith QArith Qcanon Reals Qreals.
From BZ Require Import Base.Ops Base.QcInst Base.RInst Model.Curve Model.Triangle Model.TrianglePy
  Gen.PyTriangleHelpers Theory.TriBlossom Theory.TriTables Theory.TriLink Theory.TriLink2 Model.CurvePy Gen.F90Const Theory.Twins.
Import ListNotations.

(* blossoming theorem for triangles (index-function level): the net of blossom values
   L3 a b c n f (j,k) = b[a^(n-j-k), b^j, c^k] evaluated at mu by de Casteljau is the original net
   evaluated at mu1 a + mu2 b + mu3 c.  Every degree, any commutative ring, any weights. *)
Theorem C09_blossom_is_restriction :
  forall (T : Type) (K : Ops T), ring_of K ->
  forall (a b c : T * T * T) (m1 m2 m3 : T) (n : nat) (f : nat -> nat -> T),
  iterD K (m1, m2, m3) n (L3 K a b c n f) 0%nat 0%nat = iterD K (comb K m1 m2 m3 a b c) n f 0%nat 0%nat.
Proof. exact @tri_blossom. Qed.
Print Assumptions C09_blossom_is_restriction.

(* neighbouring pieces share their boundary control points: a side's control net depends only on
   its two end weights, and swapping them reverses it *)
Theorem C09_side_depends_only_on_its_ends :
  forall (T : Type) (K : Ops T) (a b c : T * T * T) (n : nat) (f : nat -> nat -> T) (j k : nat),
  (j + k = n)%nat -> L3 K a b c n f j k = iterD K b j (iterD K c k f) 0%nat 0%nat.
Proof. exact @edge_i0. Qed.
Print Assumptions C09_side_depends_only_on_its_ends.
Theorem C09_rounds_commute :
  forall (T : Type) (K : Ops T), ring_of K -> forall (u w : T * T * T) (n m : nat) (f : nat -> nat -> T),
  iterD K u n (iterD K w m f) 0%nat 0%nat = iterD K w m (iterD K u n f) 0%nat 0%nat.
Proof. exact @edge_swap. Qed.
Print Assumptions C09_rounds_commute.

(* the sixteen hard-coded tables (degrees 1-4) and the generic blossoming path are ONE function, for all real nets *)
Theorem C09_tables_are_the_generic_path :
  forall (d : nat) (v : list R), length v = tri_size d ->
  tri_subdivide_gen ROps Q2R d v = tri_subdivide_generic ROps Q2R d v.
Proof. exact tri_tables_are_generic. Qed.
Print Assumptions C09_tables_are_the_generic_path.

(* order A (lower-left), B (central, rotated), C (lower-right), D (upper-left): the weight triples read from the source *)
Theorem C09_weights_are_the_documented_quarters :
  map (fun w => let '(a, b, c) := w in (a, b, c)) tri_subdivide_weights
  = [([1; 0; 0], [1#2; 1#2; 0], [1#2; 0; 1#2]);
     ([0; 1#2; 1#2], [1#2; 0; 1#2], [1#2; 1#2; 0]);
     ([1#2; 1#2; 0], [0; 1; 0], [0; 1#2; 1#2]);
     ([1#2; 0; 1#2], [0; 1#2; 1#2], [0; 0; 1])]%Q.
Proof. vm_compute. reflexivity. Qed.
Print Assumptions C09_weights_are_the_documented_quarters.

(* LIST LEVEL (the model that is run against the code): specialize_triangle returns the control net of
   mu |-> B[v](mu1 a + mu2 b + mu3 c): every degree, every net with (d+1)(d+2)/2 nodes, all weights, any commutative ring *)
Theorem C09_specialize_triangle_is_restriction :
  forall (T : Type) (K : Ops T), ring_of K ->
  forall (d : nat) (v : list T) (a b c : T * T * T) (m1 m2 m3 : T), length v = tri_size d ->
  tri_bernstein K d (specialize_tri K d v a b c) m1 m2 m3
  = let '(l1, l2, l3) := comb K m1 m2 m3 a b c in tri_bernstein K d v l1 l2 l3.
Proof. exact @specialize_tri_correct. Qed.
Print Assumptions C09_specialize_triangle_is_restriction.

(* de Casteljau evaluation of a triangle = its bivariate Bernstein sum (links C05's definition to the blossoming theory) *)
Theorem C09_de_casteljau_is_bernstein :
  forall (T : Type) (K : Ops T), ring_of K ->
  forall (d : nat) (v : list T) (l1 l2 l3 : T), wf_flat d v ->
  tri_dc_eval K d v (l1, l2, l3) = tri_bernstein K d v l1 l2 l3.
Proof. exact @tri_dc_eval_is_bernstein. Qed.
Print Assumptions C09_de_casteljau_is_bernstein.

(* the closed forms hard-coded in triangle.f90 subdivide_nodes (degrees 1 .. 4, four sub-triangles each), evaluated symbolically by
   the translator from the Fortran text, ARE the Python tables - which are the blossom quarters (tables = generic, above); other
   degrees call specialize_triangle *)
Theorem C09_compiled_closed_forms_are_the_python_tables :
  forallb (fun e => match lookup (fst e) tri_subdivide_dispatch with
                    | Some (A, B, C, D) =>
                        let '(A', B', C', D') := snd e in
                        qmat_eqb A' A && qmat_eqb B' B && qmat_eqb C' C && qmat_eqb D' D
                    | None => false
                    end) f90_triangle_subdivide_closed_forms = true
  /\ map fst f90_triangle_subdivide_closed_forms = map fst tri_subdivide_dispatch.
Proof. exact compiled_triangle_subdivision_closed_forms_are_the_python_tables. Qed.
Print Assumptions C09_compiled_closed_forms_are_the_python_tables.
