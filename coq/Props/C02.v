(* C02 - Every reported curve-curve intersection is a real one: the RANGE half is proved (every recorded parameter pair
   lies in [0,1]^2, whatever the array-level helpers and the Newton iteration return); that the pair is a genuine
   intersection is validated by a support sweep, not proved.  Statements only; py_* are regenerated from the source. *)
From Coq Require Import List ZArith QArith Qabs Bool String.
From BZ Require Import Base.PyVal Gen.PyFnHelpers Gen.PyFnGeometric Gen.PyFnIntersect Theory.Predicates Theory.IntersectFlow.
From Coq Require Import Reals.
From BZ Require Import Base.Ops Base.RInst Model.Curve Theory.LocateTheory Theory.RoundTheory.
Import ListNotations.
Open Scope Q_scope.
Open Scope string_scope.

Theorem C02_snapping_success_means_unit_interval : forall x : val,
  truth (vnot (vidx (py_wiggle_interval_default x) 1)) = false -> in_unit (vidx (py_wiggle_interval_default x) 0).
Proof. exact wiggle_default_success. Qed.
Print Assumptions C02_snapping_success_means_unit_interval.

(* from_linearized (the only place where a Newton-refined pair is recorded): any oracle answers *)
Theorem C02_newton_refined_pairs_are_in_unit_square : forall o_chc o_newton first second ints e rest,
  py_from_linearized o_chc o_newton first second ints = VTup (e :: rest) ->
  rest = [] /\ exists a b, e = VTup [VEnum "emit_add_intersection"; a; b; ints] /\ in_unit a /\ in_unit b.
Proof. exact from_linearized_emits_in_unit. Qed.
Print Assumptions C02_newton_refined_pairs_are_in_unit_square.

(* tangent boxes: only end points of sub-curves are recorded *)
Theorem C02_endpoint_pairs_are_in_unit_square : forall o_vc n1 o1 a1 b1 nf n2 o2 a2 b2 ns s t ints,
  (s == 0 \/ s == 1) -> (t == 0 \/ t == 1) -> 0 <= a1 <= 1 -> 0 <= b1 <= 1 -> 0 <= a2 <= 1 -> 0 <= b2 <= 1 ->
  py_endpoint_check o_vc (sub_rec n1 o1 a1 b1) nf (VQ s) (sub_rec n2 o2 a2 b2) ns (VQ t) ints = VNone \/
  exists p q, py_endpoint_check o_vc (sub_rec n1 o1 a1 b1) nf (VQ s) (sub_rec n2 o2 a2 b2) ns (VQ t) ints
              = VTup [VTup [VEnum "emit_add_intersection"; VQ p; VQ q; ints]] /\ 0 <= p <= 1 /\ 0 <= q <= 1.
Proof. exact endpoint_check_emits. Qed.
Print Assumptions C02_endpoint_pairs_are_in_unit_square.

(* two lines *)
Theorem C02_line_line_pair_in_unit_square : forall x0 y0 x1 y1 x2 y2 x3 y3 c1 c2 s t,
  py_check_lines (lin_rec x0 y0 x1 y1 0 c1) (lin_rec x2 y2 x3 y3 0 c2)
    = VTup [VB true; VTup [VTup [VTup [VQ s]; VTup [VQ t]]; VB false]] ->
  0 <= s <= 1 /\ 0 <= t <= 1.
Proof. exact check_lines_intersection_in_unit. Qed.
Print Assumptions C02_line_line_pair_in_unit_square.
Theorem C02_line_line_shared_segment_in_unit_square : forall x0 y0 x1 y1 x2 y2 x3 y3 c1 c2 ss es st et,
  ~ (x1 - x0) * (x1 - x0) + (y1 - y0) * (y1 - y0) == 0 ->
  py_check_lines (lin_rec x0 y0 x1 y1 0 c1) (lin_rec x2 y2 x3 y3 0 c2) = VTup [VB true; VTup [params ss es st et; VB true]] ->
  0 <= ss <= 1 /\ 0 <= es <= 1 /\ 0 <= st <= 1 /\ 0 <= et <= 1 /\ st <= et.
Proof. exact check_lines_coincident_in_unit. Qed.
Print Assumptions C02_line_line_shared_segment_in_unit_square.

(* coincident curves *)
Theorem C02_coincident_parameters_in_unit_square : forall o_msd o_loc o_spec o_vc n1 n2,
  locate_ok o_loc ->
  py_coincident_parameters o_msd o_loc o_spec o_vc n1 n2 = VNone \/
  exists a b c d, py_coincident_parameters o_msd o_loc o_spec o_vc n1 n2 = VTup [VTup [a; b]; VTup [c; d]] /\
                  in_unit a /\ in_unit b /\ in_unit c /\ in_unit d.
Proof. exact coincident_parameters_in_unit. Qed.
Print Assumptions C02_coincident_parameters_in_unit_square.

(* ---- genuineness of end-point results (exact arithmetic) ----
   endpoint_check records the lifted parameters (1-s) start + s end, s, t in {0, 1}, when the two compared end nodes are close.
   The candidates it is called on are restrictions of the original curves (Restr: subdivision keeps this, C03), so their end
   nodes ARE the points of the original curves at the ends of their intervals: when the compared nodes are equal, the recorded
   pair is a genuine common point.  (The tolerance of vector_close and the Newton-refined results are outside this statement.) *)
Theorem C02_end_point_hit_is_genuine :
  forall (o1x o1y o2x o2y c1x c1y c2x c2y : list R) (a1 b1 a2 b2 : R) (s t : bool),
  Restr o1x o1y c1x c1y a1 b1 -> Restr o2x o2y c2x c2y a2 b2 ->
  end_node c1x s = end_node c2x t -> end_node c1y s = end_node c2y t ->
  B o1x (lift a1 b1 s) = B o2x (lift a2 b2 t) /\ B o1y (lift a1 b1 s) = B o2y (lift a2 b2 t).
Proof. exact endpoint_hit_is_genuine. Qed.
Print Assumptions C02_end_point_hit_is_genuine.
(* a reported coincident segment passed the closeness check on exactly the reported sub-arcs (see C20 for the meaning) *)
Theorem C02_coincident_result_passed_the_closeness_check : forall o_msd o_loc o_spec o_vc n1 n2 s0 t0 s1 t1,
  py_coincident_parameters o_msd o_loc o_spec o_vc n1 n2 = VTup [VTup [s0; t0]; VTup [s1; t1]] ->
  let m1 := vidx (o_msd n1 n2) 0 in let m2 := vidx (o_msd n1 n2) 1 in
  (t0 = VQ 0 /\ t1 = VQ 1 /\ truth (o_vc (o_spec m1 s0 s1) m2) = true) \/
  (s0 = VQ 0 /\ s1 = VQ 1 /\ truth (o_vc m1 (o_spec m2 t0 t1)) = true) \/
  truth (o_vc (o_spec m1 s0 s1) (o_spec m2 t0 t1)) = true.
Proof. exact coincident_result_passed_the_closeness_check. Qed.
Print Assumptions C02_coincident_result_passed_the_closeness_check.
