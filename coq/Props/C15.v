(* C15 - Geometric and algebraic intersection strategies agree (partial: the algebraic side; agreement of the two
   floating-point pipelines is a support sweep). Statements only. *)
From Coq Require Import List ZArith QArith Bool String.
From BZ Require Import Base.PyVal Gen.PyFnAlgebraic Theory.Algebraic Theory.AlgebraicAgree.
Import ListNotations.
Open Scope Q_scope.

(* to_power_basis accepts exactly the eight documented degree pairs (all pairs of node counts 1..12 x 1..12 enumerated) *)
Theorem C15_dispatch_accepts_exactly_the_documented_pairs :
  forallb (fun n1 => forallb (dispatch_ok n1) (seq 1 12)) (seq 1 12) = true.
Proof. exact dispatch_table. Qed.
Print Assumptions C15_dispatch_accepts_exactly_the_documented_pairs.

(* for degree product <= 4 the returned coefficients are EXACTLY K times the intersection polynomial
   (no least-squares fit): a parameter is a root of what is returned iff the second curve's point lies on the
   implicit curve of the first *)
Theorem C15_exact_interpolation_up_to_degree4 : forall f n1 n2 c0 c1 c2 c3 c4, samples [c0; c1; c2; c3; c4] f ->
  exists a0 a1 a2 a3 a4, py__to_power_basis_degree4 f n1 n2 = VTup [VQ a0; VQ a1; VQ a2; VQ a3; VQ a4] /\
    a0 == 3 * c0 /\ a1 == 3 * c1 /\ a2 == 3 * c2 /\ a3 == 3 * c3 /\ a4 == 3 * c4.
Proof. exact interpolation_degree4. Qed.
Print Assumptions C15_exact_interpolation_up_to_degree4.
Theorem C15_implicit_curve_contains_the_first_curve : forall o x0 x1 x2 y0 y1 y2 s,
  exists e, py_evaluate o (N2x3 x0 x1 x2 y0 y1 y2)
                (VQ ((1 - s) * (1 - s) * x0 + 2 * (1 - s) * s * x1 + s * s * x2))
                (VQ ((1 - s) * (1 - s) * y0 + 2 * (1 - s) * s * y1 + s * s * y2)) = VQ e /\ e == 0.
Proof. exact implicit_vanishes_degree2. Qed.
Print Assumptions C15_implicit_curve_contains_the_first_curve.

(* line as first curve: the regenerated implicit function is EXACT in both directions - it vanishes at (x, y) iff (x, y) is a
   point B1(s) of the line through the two distinct nodes (s rational, not restricted to [0,1]) - and that s is unique.
   So t is a root of the intersection function of a line-curve pair iff B2(t) is a common point of the line and the curve:
   in exact arithmetic the algebraic strategy characterises the same set of parameter pairs as the geometric one *)
Theorem C15_line_implicit_function_is_exact : forall o x0 x1 y0 y1 x y, ~ (x0 == x1 /\ y0 == y1) ->
  exists e, py_evaluate o (N2x2 x0 x1 y0 y1) (VQ x) (VQ y) = VQ e /\
    (e == 0 <-> exists s, x == (1 - s) * x0 + s * x1 /\ y == (1 - s) * y0 + s * y1).
Proof. exact line_implicit_zero_iff_on_line. Qed.
Print Assumptions C15_line_implicit_function_is_exact.
Theorem C15_line_parameter_is_unique : forall x0 x1 y0 y1 s s', ~ (x0 == x1 /\ y0 == y1) ->
  (1 - s) * x0 + s * x1 == (1 - s') * x0 + s' * x1 -> (1 - s) * y0 + s * y1 == (1 - s') * y0 + s' * y1 -> s == s'.
Proof. exact line_parameter_unique. Qed.
Print Assumptions C15_line_parameter_is_unique.
Example C15_line_example : ~ (0 == 2 /\ 0 == 4) /\ (1 == (1 - (1#2)) * 0 + (1#2) * 2 /\ 2 == (1 - (1#2)) * 0 + (1#2) * 4).
Proof. split; [intros [E _]; discriminate E | split; reflexivity]. Qed.
