(* Support for the correspondence runs (generated cases files import this). *)
From Coq Require Import List Arith ZArith QArith Qcanon Qabs Bool.
From BZ Require Import Base.Ops Base.QcInst.
Import ListNotations.

Fixpoint bad_indices_aux {A} (f : A -> bool) (i : nat) (l : list A) : list nat :=
  match l with
  | [] => []
  | x :: l' => if f x then bad_indices_aux f (S i) l' else i :: bad_indices_aux f (S i) l'
  end.
Definition bad_indices {A} (f : A -> bool) (l : list A) : list nat := bad_indices_aux f 0 l.

(* |m - o| <= tol componentwise, same length; tol = 0 means exact equality *)
Fixpoint close_vec (m : list Qc) (o : list Q) (tol : Q) : bool :=
  match m, o with
  | [], [] => true
  | a :: m', b :: o' => Qle_bool (Qabs (this a - b)) tol && close_vec m' o' tol
  | _, _ => false
  end.
Definition close_opt (m : option (list Qc)) (o : option (list Q)) (tol : Q) : bool :=
  match m, o with
  | Some a, Some b => close_vec a b tol
  | None, None => true
  | _, _ => false
  end.
Fixpoint close_vec_tols (m : list Qc) (o : list Q) (tols : list Q) : bool :=
  match m, o, tols with
  | [], [], [] => true
  | a :: m', b :: o', t :: tols' => Qle_bool (Qabs (this a - b)) t && close_vec_tols m' o' tols'
  | _, _, _ => false
  end.
(* |m - o| <= rel*|m| + abs *)
Fixpoint close_rel (m : list Qc) (o : list Q) (rel abs : Q) : bool :=
  match m, o with
  | [], [] => true
  | a :: m', b :: o' => Qle_bool (Qabs (this a - b)) (rel * Qabs (this a) + abs) && close_rel m' o' rel abs
  | _, _ => false
  end.
Fixpoint close_rel_mat (m : list (list Qc)) (o : list (list Q)) (rel abs : Q) : bool :=
  match m, o with
  | [], [] => true
  | a :: m', b :: o' => close_rel a b rel abs && close_rel_mat m' o' rel abs
  | _, _ => false
  end.
