From Coq Require Import List Arith ZArith QArith Bool String.
From BZ Require Import Base.PyVal Gen.PyFnHelpers Gen.PyFnGeometric Gen.PyFnIntersect Theory.IntersectFlow Corr.Common.
Import ListNotations.
(* all_intersections on two straight lines = the `result` component of check_lines: (lines as points, observed (array, flag), tol) *)
Definition chk_lines (c : (Q * Q * Q * Q) * (Q * Q * Q * Q) * val * Q) : bool :=
  let '((x0, y0, x1, y1), (x2, y2, x3, y3), obs, tol) := c in
  val_close tol (vidx (py_check_lines (lin_rec x0 y0 x1 y1 0 VNone) (lin_rec x2 y2 x3 y3 0 VNone)) 1) obs.
