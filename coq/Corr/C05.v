From Coq Require Import List Arith ZArith QArith Qcanon Bool.
From BZ Require Import Base.Ops Base.QcInst Model.Triangle Model.TrianglePy Corr.Common.
Import ListNotations.

Definition triple_q (p : Q * Q * Q) := let '(a, b, c) := p in (Q2Qc a, Q2Qc b, Q2Qc c).
(* (degree, row, barycentric triples, outputs, tolerances) *)
Definition chk_tri_bary (c : nat * list Q * list (Q * Q * Q) * list Q * list Q) : bool :=
  let '(d, v, ps, out, tols) := c in
  close_vec_tols (map (fun p => let '(a, b, c) := triple_q p in tri_evaluate_barycentric_py d (qcs v) a b c) ps) out tols.
(* (degree, row, cartesian pairs, outputs, tolerances) *)
Definition chk_tri_cart (c : nat * list Q * list (Q * Q) * list Q * list Q) : bool :=
  let '(d, v, ps, out, tols) := c in
  close_vec_tols (map (fun p => tri_evaluate_cartesian_py d (qcs v) (Q2Qc (fst p)) (Q2Qc (snd p))) ps) out tols.
(* (degree, row, edge1, edge2, edge3): exact *)
Definition chk_tri_edges (c : nat * list Q * list Q * list Q * list Q) : bool :=
  let '(d, v, e1, e2, e3) := c in
  let '(m1, m2, m3) := tri_edges_py d (qcs v) in
  close_vec m1 e1 0 && close_vec m2 e2 0 && close_vec m3 e3 0.

(* public methods with verification: (degree, row, point, Some out | None = ValueError, tolerance) *)
Definition chk_Tri_bary_verify (c : nat * list Q * (Q * Q * Q) * option Q * Q) : bool :=
  let '(d, v, p, out, tol) := c in
  let '(a, b, c) := triple_q p in
  match Triangle_evaluate_barycentric_py d (qcs v) a b c, out with
  | Some m, Some o => close_vec [m] [o] tol
  | None, None => true
  | _, _ => false
  end.
Definition chk_Tri_cart_verify (c : nat * list Q * (Q * Q) * option Q * Q) : bool :=
  let '(d, v, p, out, tol) := c in
  match Triangle_evaluate_cartesian_py d (qcs v) (Q2Qc (fst p)) (Q2Qc (snd p)), out with
  | Some m, Some o => close_vec [m] [o] tol
  | None, None => true
  | _, _ => false
  end.
