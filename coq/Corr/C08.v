From Coq Require Import List Arith ZArith QArith Qcanon Bool.
From BZ Require Import Base.Ops Base.QcInst Model.Curve Model.CurvePy Model.Triangle Model.TriElevate Corr.Common.
Import ListNotations.

(* elevate_nodes: (row, out, rel, abs); the end points must be copied exactly *)
Definition chk_elevate (c : list Q * list Q * Q * Q) : bool :=
  let '(v, out, rel, abs) := c in
  close_rel (elevate_py (qcs v)) out rel abs &&
  Qeq_bool (hd 0%Q v) (hd 1%Q out) && Qeq_bool (last v 0%Q) (last out 1%Q).

(* reduce_pseudo_inverse: (row, Some out | None = UnsupportedDegree, rel, abs) *)
Definition chk_reduce (c : list Q * option (list Q) * Q * Q) : bool :=
  let '(v, out, rel, abs) := c in
  match reduce_py (qcs v), out with
  | Some m, Some o => close_rel m o rel abs
  | None, None => true
  | _, _ => false
  end.

(* full_reduce on a whole net: (rows, Some rows | None, rel, abs) *)
Definition chk_full_reduce (c : list (list Q) * option (list (list Q)) * Q * Q) : bool :=
  let '(rows, out, rel, abs) := c in
  match full_reduce_py 8 (qcm rows), out with
  | Some m, Some o => close_rel_mat m o rel abs
  | None, None => true
  | _, _ => false
  end.

(* Triangle.elevate: (degree, row, out, rel, abs): the net must agree with the model to one rounding of the final division,
   and the three corners (flat positions 0, d+1 and last of the new net; 0, d and last of the old) must be copied exactly *)
Definition chk_tri_elevate (c : nat * list Q * list Q * Q * Q) : bool :=
  let '(d, v, out, rel, abs) := c in
  close_rel (tri_elevate QcOps d (qcs v)) out rel abs &&
  Qeq_bool (hd 0%Q v) (hd 1%Q out) && Qeq_bool (nth d v 0%Q) (nth (S d) out 1%Q) && Qeq_bool (last v 0%Q) (last out 1%Q).
