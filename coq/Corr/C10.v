From Coq Require Import List Arith ZArith QArith Qcanon Qabs Bool.
From BZ Require Import Base.Ops Base.QcInst Model.Curve Model.CurvePy Model.Locate Corr.Common.
Import ListNotations.
(* locate_point: (rows, point, observed Some s | None, tolerance); LSpread (ValueError) is encoded by the harness as a non-match *)
Definition chk_locate (c : list (list Q) * list Q * option Q * Q) : bool :=
  let '(rows, p, out, tol) := c in
  match locate_point_py (qcm rows) (qcs p), out with
  | LNone, None => true
  | LValue s, Some o => Qle_bool (Qabs (this s - o)) tol
  | _, _ => false
  end.
