From Coq Require Import List Arith ZArith QArith Qcanon Bool.
From BZ Require Import Base.Ops Base.QcInst Model.Curve Model.CurvePy Corr.Common.
Import ListNotations.

(* (row of nodes, left row, right row, tolerance) *)
Definition chk_subdivide (c : list Q * list Q * list Q * Q) : bool :=
  let '(v, l, r, tol) := c in
  let m := subdivide_nodes_py (qcs v) in
  close_vec (fst m) l tol && close_vec (snd m) r tol.

(* (row of nodes, a, b, output row, tolerance) *)
Definition chk_specialize (c : list Q * Q * Q * list Q * Q) : bool :=
  let '(v, a, b, out, tol) := c in
  close_vec (specialize QcOps (qcs v) (Q2Qc a) (Q2Qc b)) out tol.
