(* correspondence of the two Newton systems (Model/NewtonSystems.v at Qc) with NewtonSimpleRoot / NewtonDoubleRoot *)
From Coq Require Import List Arith ZArith QArith Qcanon Qabs Bool.
From BZ Require Import Base.Ops Base.QcInst Model.Curve Model.NewtonSystems Corr.Common.
Import ListNotations.

Definition is0 (x : Qc) : bool := Qeq_bool (this x) 0.
Definition nilb (l : list Q) : bool := match l with [] => true | _ => false end.
(* (x1, y1, x2, y2, s, t, observed DG^T DG row-major ([] when None was returned), observed right-hand side, tolerance) *)
Definition chk_newton_double (c : list Q * list Q * list Q * list Q * Q * Q * list Q * list Q * Q) : bool :=
  let '(x1, y1, x2, y2, s, t, lhs, rhs, tol) := c in
  let d := double_root QcOps (qcs x1) (qcs y1) (qcs x2) (qcs y2) (Q2Qc s) (Q2Qc t) in
  if is0 (g1 d) && is0 (g2 d) && is0 (g3 d) then nilb lhs && close_vec [g1 d; g2 d] rhs tol
  else
    let '(a11, a12, a21, a22) := normal_lhs QcOps d in
    let '(r1, r2) := normal_rhs QcOps d in
    close_vec [a11; a12; a21; a22] lhs tol && close_vec [r1; r2] rhs tol.
(* (x1, y1, x2, y2, s, t, observed DF row-major ([] when None), observed F, tolerance) *)
Definition chk_newton_simple (c : list Q * list Q * list Q * list Q * Q * Q * list Q * list Q * Q) : bool :=
  let '(x1, y1, x2, y2, s, t, lhs, rhs, tol) := c in
  let '((f1, f2), (a11, a12, a21, a22)) := simple_root QcOps (qcs x1) (qcs y1) (qcs x2) (qcs y2) (Q2Qc s) (Q2Qc t) in
  if is0 f1 && is0 f2 then nilb lhs && close_vec [f1; f2] rhs tol
  else close_vec [a11; a12; a21; a22] lhs tol && close_vec [f1; f2] rhs tol.
