From Coq Require Import List Arith ZArith QArith Bool.
From BZ Require Import Base.PyVal Model.Intersect Corr.Common.
Import ListNotations.
(* add_intersection: (s, t, existing pairs, resulting pairs) : exact *)
Fixpoint pairs_eqb (l r : list (Q * Q)) : bool :=
  match l, r with
  | [], [] => true
  | a :: l', b :: r' => Qeq_bool (fst a) (fst b) && Qeq_bool (snd a) (snd b) && pairs_eqb l' r'
  | _, _ => false
  end.
Definition chk_add_intersection (c : Q * Q * list (Q * Q) * list (Q * Q)) : bool :=
  let '(s, t, ints, out) := c in pairs_eqb (add_intersection s t ints) out.
