From Coq Require Import List Arith ZArith QArith Bool.
From Coq Require Import Qcanon.
From BZ Require Import Base.PyVal Model.Intersect Model.Rounds Gen.PyGeometricIntersection Corr.Common.
Definition MAX_ROUNDS : nat := MAX_INTERSECT_SUBDIVISIONS_nat.
Import ListNotations.
(* add_intersection: (s, t, existing pairs, resulting pairs) : exact *)
Fixpoint pairs_eqb (l r : list (Q * Q)) : bool :=
  match l, r with
  | [], [] => true
  | a :: l', b :: r' => Qeq_bool (fst a) (fst b) && Qeq_bool (snd a) (snd b) && pairs_eqb l' r'
  | _, _ => false
  end.
Definition chk_add_intersection (c : Q * Q * list (Q * Q) * list (Q * Q)) : bool :=
  let '(s, t, ints, out) := c in pairs_eqb (add_intersection s t ints) out.

(* the candidate flow of all_intersections: (x1, y1, x2, y2, rounds, observed trace); per round
   (candidate pairs (start1, end1, lin1, start2, end2, lin2), events (kind, the same six), pruned, verdict); exact comparison *)
Definition pdesc := (Q * Q * bool * Q * Q * bool)%type.
Definition pdesc_eqb (a b : pdesc) : bool :=
  let '(a1, a2, a3, a4, a5, a6) := a in let '(b1, b2, b3, b4, b5, b6) := b in
  Qeq_bool a1 b1 && Qeq_bool a2 b2 && Bool.eqb a3 b3 && Qeq_bool a4 b4 && Qeq_bool a5 b5 && Bool.eqb a6 b6.
Definition desc_of (fs : cand * cand) : pdesc :=
  (this (cstart (fst fs)), this (cend (fst fs)), lin (fst fs), this (cstart (snd fs)), this (cend (snd fs)), lin (snd fs)).
Definition ev_desc (e : event) : nat * pdesc :=
  match e with
  | EvTangent f s => (0%nat, desc_of (f, s))
  | EvLinearized f s => (1%nat, desc_of (f, s))
  | EvError f s => (2%nat, desc_of (f, s))
  end.
Fixpoint list_eqb' {A B} (e : A -> B -> bool) (l : list A) (r : list B) : bool :=
  match l, r with [], [] => true | a :: l', b :: r' => e a b && list_eqb' e l' r' | _, _ => false end.
Definition verdict_nat (v : verdict) : nat := match v with Continue => 0 | Finished => 1 | TooMany => 2 end.
Definition round_eqb (m : round_out) (o : list pdesc * list (nat * pdesc) * bool * nat) : bool :=
  let '(oc, oe, op, ov) := o in
  list_eqb' pdesc_eqb (map desc_of (cands_out m)) oc &&
  list_eqb' (fun a b => Nat.eqb (fst a) (fst b) && pdesc_eqb (snd a) (snd b)) (map ev_desc (events_out m)) oe &&
  Bool.eqb (pruned m) op && Nat.eqb (verdict_nat (verdict_out m)) ov.
Definition chk_rounds (c : list Q * list Q * list Q * list Q * nat * bool * list (list pdesc * list (nat * pdesc) * bool * nat)) : bool :=
  let '(x1, y1, x2, y2, n, oflag, obs) := c in
  let '(mflag, mrounds) := all_rounds (Nat.min n MAX_ROUNDS) (initial x1 y1 x2 y2) in
  Bool.eqb mflag oflag && list_eqb' round_eqb mrounds obs.
