From Coq Require Import List Arith ZArith QArith Qcanon Bool.
From BZ Require Import Base.Ops Base.QcInst Model.Triangle Model.TrianglePy Corr.Common.
Import ListNotations.

Fixpoint all2 {A B} (f : A -> B -> bool) (l : list A) (r : list B) : bool :=
  match l, r with [], [] => true | a :: l', b :: r' => f a b && all2 f l' r' | _, _ => false end.
(* (degree, row, [A; B; C; D] rows, tolerance) *)
Definition chk_tri_subdivide (c : nat * list Q * list (list Q) * Q) : bool :=
  let '(d, v, outs, tol) := c in
  all2 (fun m o => close_vec m o tol) (tri_subdivide_py d (qcs v)) outs.
(* the generic path on its own, any degree: (degree, row, [A;B;C;D], tol) *)
Definition chk_tri_subdivide_generic (c : nat * list Q * list (list Q) * Q) : bool :=
  let '(d, v, outs, tol) := c in
  all2 (fun m o => close_vec m o tol) (tri_subdivide_generic QcOps Q2Qc d (qcs v)) outs.
(* specialize_triangle with arbitrary weights: (degree, row, wa, wb, wc, out, tol) *)
Definition q3 (l : list Q) : Qc * Qc * Qc := w3_of QcOps Q2Qc l.
Definition chk_tri_specialize (c : nat * list Q * list Q * list Q * list Q * list Q * Q) : bool :=
  let '(d, v, wa, wb, wc, out, tol) := c in
  close_vec (tri_specialize_py d (qcs v) (q3 wa) (q3 wb) (q3 wc)) out tol.
