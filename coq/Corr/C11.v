From Coq Require Import List Arith ZArith QArith Qcanon Qabs Bool.
From BZ Require Import Base.Ops Base.QcInst Base.PyVal Model.Curve Model.CurvePy Model.Triangle Model.TrianglePy Model.Deriv Corr.Common.
Import ListNotations.

(* (row, parameter, observed B'(s), tolerance) *)
Definition chk_hodograph (c : list Q * Q * Q * Q) : bool :=
  let '(v, s, out, tol) := c in close_vec [hodo (qcs v) (Q2Qc s)] [out] tol.
(* (x row, y row, tangent x, tangent y, s, observed curvature, relative tolerance):
   kappa^2 (t.t)^3 = cross^2 and the signs agree *)
Definition chk_curvature (c : list Q * list Q * Q * Q * Q * Q * Q) : bool :=
  let '(vx, vy, tx, ty, s, kappa, rel) := c in
  let '(cr, n2) := curvature_parts (qcs vx) (qcs vy) (Q2Qc tx) (Q2Qc ty) (Q2Qc s) in
  let lhs := (kappa * kappa * (this n2 * this n2 * this n2))%Q in
  let rhs := (this cr * this cr)%Q in
  Qle_bool (Qabs (lhs - rhs)) (rel * rhs)%Q &&
  (Qle_bool 0 (kappa * this cr)%Q) && (negb (Qeq_bool kappa 0) || Qeq_bool (this cr) 0).
(* (rows, point, s, observed new s, tolerance) *)
Definition chk_newton_curve (c : list (list Q) * list Q * Q * Q * Q) : bool :=
  let '(rows, p, s, out, tol) := c in
  close_vec [newton_refine_curve (qcm rows) (qcs p) (Q2Qc s)] [out] tol.
(* (x1, y1, s, x2, y2, t, observed, tolerance) *)
Definition chk_newton_intersect (c : list Q * list Q * Q * list Q * list Q * Q * val * Q) : bool :=
  let '(x1, y1, s, x2, y2, t, obs, tol) := c in
  val_close tol (newton_refine_intersect (qcs x1) (qcs y1) (Q2Qc s) (qcs x2) (qcs y2) (Q2Qc t)) obs.
(* (degree, x row, y row, x, y, s, t, observed, tolerance) *)
Definition chk_newton_triangle (c : nat * list Q * list Q * Q * Q * Q * Q * val * Q) : bool :=
  let '(d, vx, vy, x, y, s, t, obs, tol) := c in
  val_close tol (newton_refine_triangle d (qcs vx) (qcs vy) (Q2Qc x) (Q2Qc y) (Q2Qc s) (Q2Qc t)) obs.
(* (degree, rows, observed rows): exact *)
Definition chk_jac_both (c : nat * list (list Q) * list (list Q)) : bool :=
  let '(d, rows, out) := c in close_rel_mat (jacobian_both_py d (qcm rows)) out 0 0.
(* (degree, x row, y row, (s,t) pairs, observed, tolerances) *)
Definition chk_jac_det (c : nat * list Q * list Q * list (Q * Q) * list Q * list Q) : bool :=
  let '(d, vx, vy, ps, out, tols) := c in
  close_vec_tols (map (fun p => jacobian_det_py d (qcs vx) (qcs vy) (Q2Qc (fst p)) (Q2Qc (snd p))) ps) out tols.
