From Coq Require Import List Arith ZArith QArith Qcanon Qabs Bool String.
From BZ Require Import Base.Ops Base.QcInst Base.PyVal Model.Algebraic Model.Sigma Gen.PyFnAlgebraic Corr.Common.
Import ListNotations.
(* (model value, observed value, tolerance) with relative scaling done by the harness *)
Definition chk_val (c : val * val * Q) : bool := let '(m, o, tol) := c in val_close tol m o.
(* polynomial_norm: (coefficients, observed norm, relative tolerance): norm^2 = model *)
Definition chk_norm (c : list Q * Q * Q) : bool :=
  let '(cs, n, rel) := c in
  let m := polynomial_norm2 cs in
  Qle_bool (Qabs (n * n - m)) (rel * m)%Q && Qle_bool 0 n.

(* _get_sigma_coeffs / bernstein_companion: (coefficients, observed sigma (or None) / companion rows, observed degree, observed
   effective degree, relative tolerance, absolute tolerance) *)
Definition qc_is0 (x : Qc) : bool := Qc_eqb x (Q2Qc 0).
Definition chk_sigma (c : list Q * option (list Q) * nat * nat * Q * Q) : bool :=
  let '(cs, osig, od, oe, rel, abs) := c in
  let '(msig, md, me) := get_sigma_coeffs QcOps qc_is0 (qcs cs) in
  Nat.eqb md od && Nat.eqb me oe &&
  match msig, osig with
  | Some m, Some o => close_rel m o rel abs
  | None, None => true
  | _, _ => false
  end.
Definition chk_companion (c : list Q * list (list Q) * nat * nat * Q * Q) : bool :=
  let '(cs, omat, od, oe, rel, abs) := c in
  let '(mmat, md, me) := bernstein_companion QcOps qc_is0 (qcs cs) in
  Nat.eqb md od && Nat.eqb me oe && close_rel_mat mmat omat rel abs.
