From Coq Require Import List Arith ZArith QArith Qabs Bool String.
From BZ Require Import Base.PyVal Model.Algebraic Gen.PyFnAlgebraic Corr.Common.
Import ListNotations.
(* (model value, observed value, tolerance) with relative scaling done by the harness *)
Definition chk_val (c : val * val * Q) : bool := let '(m, o, tol) := c in val_close tol m o.
(* polynomial_norm: (coefficients, observed norm, relative tolerance): norm^2 = model *)
Definition chk_norm (c : list Q * Q * Q) : bool :=
  let '(cs, n, rel) := c in
  let m := polynomial_norm2 cs in
  Qle_bool (Qabs (n * n - m)) (rel * m)%Q && Qle_bool 0 n.
