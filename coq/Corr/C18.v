From Coq Require Import List Arith ZArith QArith Qabs Bool.
From Coq Require Import Qcanon.
From BZ Require Import Base.Ops Base.QcInst Model.Curve Model.SelfIsect Corr.Common.
Import ListNotations.
(* the rescaling t/2 + 1/2 is one binary64 addition: allow one rounding (2^-52) *)
Definition near (a b : Q) : bool := Qle_bool (Qabs (a - b)) (1 # 4503599627370496).
Fixpoint pairs_eqb (l r : list pairQ) : bool :=
  match l, r with
  | [], [] => true
  | a :: l', b :: r' => near (fst a) (fst b) && near (snd a) (snd b) && pairs_eqb l' r'
  | _, _ => false
  end.
(* (recorded oracle answers in call order, observed result): the glue (rescaling, split point, stacking) must agree *)
Definition chk_self (c : list bool * list (list pairQ) * list pairQ) : bool :=
  let '(ang, ints, out) := c in
  match self_isect 60 {| angles := ang; isects := ints |} with
  | Some (res, st) => pairs_eqb res out && match angles st, isects st with [], [] => true | _, _ => false end
  | None => false
  end.

(* WHICH sub-curves the recursion visits: the turning-angle oracle must be asked about the curve itself, then - when the
   angle is large - about everything the left half visits, then everything the right half visits (exact subdivision of the
   input over Qc; the observed arrays are the float subdivisions, compared with a tolerance) *)
Fixpoint expected_calls (fuel : nat) (nodes : list (list Qc)) (answers : list bool) : list (list (list Qc)) * list bool :=
  match fuel with
  | O => ([], answers)
  | S f =>
      match answers with
      | [] => ([], [])
      | true :: rest => ([nodes], rest)
      | false :: rest =>
          let '(cl, r1) := expected_calls f (map (subdivide_left QcOps) nodes) rest in
          let '(cr, r2) := expected_calls f (map (subdivide_right QcOps) nodes) r1 in
          (nodes :: cl ++ cr, r2)
      end
  end.
Fixpoint calls_close (m : list (list (list Qc))) (o : list (list (list Q))) (tol : Q) : bool :=
  match m, o with
  | [], [] => true
  | a :: m', b :: o' => close_rel_mat a b 0 tol && calls_close m' o' tol
  | _, _ => false
  end.
(* (input nodes, recorded angle answers, observed arguments of the angle oracle in call order, tolerance) *)
Definition chk_self_calls (c : list (list Q) * list bool * list (list (list Q)) * Q) : bool :=
  let '(nodes, ang, obs, tol) := c in
  let '(calls, rest) := expected_calls 60 (qcm nodes) ang in
  calls_close calls obs tol && match rest with [] => true | _ => false end.

(* the node-carrying model (Model/SelfIsectN.v at Qc): same observation as chk_self - recorded oracle answers in, reported pairs out *)
From BZ Require Import Model.SelfIsectN Model.Intersect.
(* add_intersection's notion of a repeated pair, on canonical rationals *)
Definition dup_qc (p e : Qc * Qc) : bool := is_dup (this (fst p)) (this (snd p)) (this (fst e), this (snd e)).
Definition qc_pairs (l : list (Q * Q)) : list (Qc * Qc) := map (fun p => (Q2Qc (fst p), Q2Qc (snd p))) l.
Fixpoint pairs_eqb_qc (m : list (Qc * Qc)) (o : list (Q * Q)) : bool :=
  match m, o with
  | [], [] => true
  | a :: m', b :: o' => near (this (fst a)) (fst b) && near (this (snd a)) (snd b) && pairs_eqb_qc m' o'
  | _, _ => false
  end.
Definition chk_self_n (c : list (list Q) * list bool * list (list (Q * Q)) * list (Q * Q)) : bool :=
  let '(rows, ang, ints, out) := c in
  match self_isect_n QcOps Qc_eqb dup_qc 60 (qcm rows) (mkS ang (map qc_pairs ints)) with
  | Some (res, calls, st') =>
      pairs_eqb_qc res out && Nat.eqb (List.length calls) (List.length ints) &&
      match anglesN st', isectsN st' with [], [] => true | _, _ => false end
  | None => false
  end.
