From Coq Require Import List Arith ZArith QArith Qabs Bool.
From BZ Require Import Model.SelfIsect Corr.Common.
Import ListNotations.
(* the rescaling t/2 + 1/2 is one binary64 addition: allow one rounding (2^-52) *)
Definition near (a b : Q) : bool := Qle_bool (Qabs (a - b)) (1 # 4503599627370496).
Fixpoint pairs_eqb (l r : list pairQ) : bool :=
  match l, r with
  | [], [] => true
  | a :: l', b :: r' => near (fst a) (fst b) && near (snd a) (snd b) && pairs_eqb l' r'
  | _, _ => false
  end.
(* (recorded oracle answers in call order, observed result): the glue (rescaling, split point, stacking) must agree *)
Definition chk_self (c : list bool * list (list pairQ) * list pairQ) : bool :=
  let '(ang, ints, out) := c in
  match self_isect 60 {| angles := ang; isects := ints |} with
  | Some (res, st) => pairs_eqb res out && match angles st, isects st with [], [] => true | _, _ => false end
  | None => false
  end.
