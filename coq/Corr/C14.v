From Coq Require Import List Arith ZArith QArith Bool.
From BZ Require Import Model.Workspace Corr.Common.
Import ListNotations.

(* inputs are indices into a table of pristine-process results; pairs are (s, t) *)
Definition pairT := (Q * Q)%type.
Definition table_isect (table : list (list pairT)) (i : nat) : list pairT := nth i table [].
Definition pair_eqb (a b : pairT) : bool := Qeq_bool (fst a) (fst b) && Qeq_bool (snd a) (snd b).
Fixpoint pairs_eqb (l r : list pairT) : bool :=
  match l, r with [], [] => true | a :: l', b :: r' => pair_eqb a b && pairs_eqb l' r' | _, _ => false end.
Definition out_eqb (m o : out pairT) : bool :=
  match m, o with
  | Result _ a, Result _ b => pairs_eqb a b
  | TooSmall _ a b, TooSmall _ c d => Nat.eqb a c && Nat.eqb b d
  | Size _ a, Size _ b => Nat.eqb a b
  | Done _, Done _ => true
  | _, _ => false
  end.
Fixpoint outs_eqb (l r : list (out pairT)) : bool :=
  match l, r with [], [] => true | a :: l', b :: r' => out_eqb a b && outs_eqb l' r' | _, _ => false end.
(* (table of pristine results, history, observed outputs): the model run from the initial state must produce them *)
Definition chk_history (c : list (list pairT) * list (op nat) * list (out pairT)) : bool :=
  let '(table, ops, obs) := c in
  outs_eqb (snd (run nat pairT (table_isect table) (init pairT) ops)) obs.
