From Coq Require Import List Arith ZArith QArith Bool.
From BZ Require Import Model.WorkspaceTri Corr.Common.
Import ListNotations.

(* triangle-intersection histories: inputs are indices into a table of pristine-process results; a segment is
   (edge index, start, end) *)
Definition segT := (nat * Q * Q)%type.
Definition table_tisect (table : list (list (list segT))) (i : nat) : list (list segT) := nth i table [].
Definition seg_eqb (a b : segT) : bool :=
  let '(i, s, e) := a in let '(j, u, v) := b in Nat.eqb i j && Qeq_bool s u && Qeq_bool e v.
Fixpoint segs_eqb (l r : list segT) : bool :=
  match l, r with [], [] => true | a :: l', b :: r' => seg_eqb a b && segs_eqb l' r' | _, _ => false end.
Fixpoint polys_eqb (l r : list (list segT)) : bool :=
  match l, r with [], [] => true | a :: l', b :: r' => segs_eqb a b && polys_eqb l' r' | _, _ => false end.
Definition tout_eqb (m o : out segT) : bool :=
  match m, o with
  | Result _ a, Result _ b => polys_eqb a b
  | EndsTooSmall _ a b, EndsTooSmall _ c d => Nat.eqb a c && Nat.eqb b d
  | SegsTooSmall _ a b, SegsTooSmall _ c d => Nat.eqb a c && Nat.eqb b d
  | Sizes _ a b, Sizes _ c d => Nat.eqb a c && Nat.eqb b d
  | Done _, Done _ => true
  | _, _ => false
  end.
Fixpoint touts_eqb (l r : list (out segT)) : bool :=
  match l, r with [], [] => true | a :: l', b :: r' => tout_eqb a b && touts_eqb l' r' | _, _ => false end.
(* (table of pristine results, history, observed outputs) *)
Definition chk_tri_history (c : list (list (list segT)) * list (op nat) * list (out segT)) : bool :=
  let '(table, ops, obs) := c in
  touts_eqb (snd (run nat segT (table_tisect table) (init segT) ops)) obs.
