From Coq Require Import List Arith ZArith QArith Qcanon Bool.
From BZ Require Import Base.Ops Base.QcInst Model.Curve Model.CurvePy Gen.PyCurveHelpers Corr.Common.
Import ListNotations.

(* (row of nodes, parameters, outputs, per-output tolerances) : evaluate_multi *)
Definition chk_eval (c : list Q * list Q * list Q * list Q) : bool :=
  let '(v, ss, out, tols) := c in
  close_vec_tols (evaluate_multi_py (qcs v) (qcs ss)) out tols.
(* (row, lambda1s, lambda2s, outputs, tolerances) : evaluate_multi_barycentric *)
Definition chk_eval_bary (c : list Q * list Q * list Q * list Q * list Q) : bool :=
  let '(v, l1s, l2s, out, tols) := c in
  close_vec_tols (map (fun p => eval_bary QcOps vs_max_nodes (qcs v) (Q2Qc (fst p)) (Q2Qc (snd p))) (combine l1s l2s)) out tols.
(* the two algorithms separately (hazmat only) *)
Definition chk_eval_vs (c : list Q * list Q * list Q * list Q * list Q) : bool :=
  let '(v, l1s, l2s, out, tols) := c in
  close_vec_tols (map (fun p => eval_vs QcOps (qcs v) (Q2Qc (fst p)) (Q2Qc (snd p))) (combine l1s l2s)) out tols.
Definition chk_eval_dc (c : list Q * list Q * list Q * list Q * list Q) : bool :=
  let '(v, l1s, l2s, out, tols) := c in
  close_vec_tols (map (fun p => eval_dc QcOps (qcs v) (Q2Qc (fst p)) (Q2Qc (snd p))) (combine l1s l2s)) out tols.
