From Coq Require Import List Arith ZArith QArith Qcanon Qabs Bool.
From BZ Require Import Base.Ops Base.QcInst Model.Curve Model.CurvePy Model.Triangle Model.TrianglePy Model.AreaPoly Corr.Common.
Import ListNotations.

Definition opt_close (m : option Qc) (o : option Q) (rel abs : Q) : bool :=
  match m, o with
  | Some a, Some b => close_rel [a] [b] rel abs
  | None, None => true
  | _, _ => false
  end.
(* shoelace_for_area: (x row, y row, Some out | None = UnsupportedDegree, rel, abs) *)
Definition chk_shoelace (c : list Q * list Q * option Q * Q * Q) : bool :=
  let '(vx, vy, out, rel, abs) := c in opt_close (shoelace_gen QcOps Q2Qc (qcs vx) (qcs vy)) out rel abs.
(* compute_area / Triangle.area / CurvedPolygon.area: (edges, Some out | None, rel, abs) *)
Definition chk_area (c : list (list Q * list Q) * option Q * Q * Q) : bool :=
  let '(edges, out, rel, abs) := c in
  opt_close (compute_area_gen QcOps Q2Qc (map (fun e => (qcs (fst e), qcs (snd e))) edges)) out rel abs.
(* the degree-1 length is the chord: (rows, observed length, rel): length^2 = sum of squared differences *)
Definition chk_chord (c : list (list Q) * Q * Q) : bool :=
  let '(rows, len, rel) := c in
  let sq := fold_right (fun r acc => match r with [a; b] => ((b - a) * (b - a) + acc)%Q | _ => acc end) 0%Q rows in
  Qle_bool (Qabs (len * len - sq)) (rel * sq)%Q && Qle_bool 0 len.
