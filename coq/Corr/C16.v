From Coq Require Import List Arith ZArith QArith Bool String.
From BZ Require Import Base.QcInst Model.LinErr Model.Clip.
From BZ Require Import Base.PyVal Model.Hull Gen.PyFnHelpers Gen.PyFnGeometric Gen.PyFnTriangle Gen.PyFnTriangleIntersection Corr.Common.
Import ListNotations.

(* (model value, observed value, tolerance) *)
Definition chk_val (c : val * val * Q) : bool := let '(m, o, tol) := c in val_close tol m o.
(* 2 x N array <-> list of points *)
Definition pts_of (xs ys : list Q) : list pt := combine xs ys.
Definition val_of_pts (l : list pt) : val := VTup [VTup (map (fun p => VQ (fst p)) l); VTup (map (fun p => VQ (snd p)) l)].
Definition hull_val (xs ys : list Q) : val := val_of_pts (simple_convex_hull (pts_of xs ys)).
Definition collide_val (x1 y1 x2 y2 : list Q) : val := VB (polygon_collide (pts_of x1 y1) (pts_of x2 y2)).
Definition separating_val (dx dy : Q) (x1 y1 x2 y2 : list Q) : val := VB (is_separating (dx, dy) (pts_of x1 y1) (pts_of x2 y2)).

(* linearization_error: (rows, observed value, relative tolerance) - the model returns the SQUARE of the result *)
Definition chk_lin_error (c : list (list Q) * Q * Q) : bool :=
  let '(rows, obs, rel) := c in
  let m := Qcanon.this (lin_error_sq (qcm rows)) in
  Qle_bool (Qabs.Qabs (obs * obs - m)) (rel * m).

(* clip_range: the hand-written loops around the regenerated per-chord update *)
Definition clip_val (x1 y1 x2 y2 : list Q) : val := clip_range x1 y1 x2 y2.
