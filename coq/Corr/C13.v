From Coq Require Import List Arith ZArith QArith Qcanon Qabs Bool.
From BZ Require Import Base.Ops Base.QcInst Model.Curve Model.CurvePy Model.Triangle Model.TrianglePy Model.AreaPoly Corr.Common.
Import ListNotations.

(* (x row, y row, observed net, abs tolerance) *)
Definition chk_jacpoly2 (c : list Q * list Q * list Q * Q) : bool :=
  let '(vx, vy, out, tol) := c in close_vec (quadratic_jacobian_polynomial_gen QcOps Q2Qc (qcs vx) (qcs vy)) out tol.
Definition chk_jacpoly3 (c : list Q * list Q * list Q * Q) : bool :=
  let '(vx, vy, out, tol) := c in close_vec (cubic_jacobian_polynomial_gen QcOps Q2Qc (qcs vx) (qcs vy)) out tol.
(* polynomial_sign: (net, degree, observed: Some sign | None = ValueError) *)
Definition chk_poly_sign (c : list Q * nat * option Z) : bool :=
  let '(p, d, out) := c in
  match polynomial_sign_py (qcs p) d, out with
  | SignIs s, Some o => Z.eqb s o
  | SignUndecided, None => true
  | _, _ => false
  end.
(* Triangle.is_valid: (degree, x row, y row, observed Some bool | None = error) *)
Definition is_valid_py (d : nat) (vx vy : list Qc) : option bool :=
  match d with
  | 1%nat => match vx, vy with
             | [x0; x1; x2], [y0; y1; y2] => Some (Z.eqb (sgn ((x1 - x0) * (y2 - y1) - (x2 - x1) * (y1 - y0))%Qc) 1)
             | _, _ => None end
  | 2%nat => match polynomial_sign_py (quadratic_jacobian_polynomial_gen QcOps Q2Qc vx vy) 2 with
             | SignIs s => Some (Z.eqb s 1) | _ => None end
  | 3%nat => match polynomial_sign_py (cubic_jacobian_polynomial_gen QcOps Q2Qc vx vy) 4 with
             | SignIs s => Some (Z.eqb s 1) | _ => None end
  | _ => None
  end.
Definition chk_is_valid (c : nat * list Q * list Q * option bool) : bool :=
  let '(d, vx, vy, out) := c in
  match is_valid_py d (qcs vx) (qcs vy), out with
  | Some a, Some b => Bool.eqb a b
  | None, None => true
  | _, _ => false
  end.
