(* C18: every pair reported by self_intersections is a genuine self-intersection of the ORIGINAL curve, at every recursion
   depth, provided each answer of the inner all_intersections(left, right) calls is genuine for the two halves it was asked
   about (that is C02).  Any field of characteristic 0; the halves are restrictions to [0,1/2] and [1/2,1], so the rescaling
   s/2, (1+t)/2 of the glue is exactly right. *)
From Coq Require Import List Arith Lia Ring Field.
From BZ Require Import Base.Ops Model.Curve Model.SelfIsectN Theory.CurveEval Theory.CurveSubdiv Theory.Uniq.
Import ListNotations.

Section Genuine.
Context {T : Type} (K : Ops T) (FT : field_of K) (C0 : char0 K) (eqb : T -> T -> bool) (dup : T * T -> T * T -> bool).
Add Field TFG : FT.
Let RT : ring_of K := F_R FT.
Declare Scope t_scope. Delimit Scope t_scope with t.
Notation "0" := (o0 K) : t_scope. Notation "1" := (o1 K) : t_scope.
Infix "+" := (oadd K) : t_scope. Infix "*" := (omul K) : t_scope.
Infix "-" := (osub K) : t_scope. Infix "/" := (odiv K) : t_scope.
Local Open Scope t_scope.

Definition Bk (v : list T) (s : T) : T := bernstein K v (1 - s) s.
Definition point (rows : list (list T)) (s : T) : list T := map (fun row => Bk row s) rows.
Definition wf_rows (rows : list (list T)) : Prop := Forall (fun row => (2 <= length row)%nat) rows.

Lemma two_ne : 1 + 1 <> 0.
Proof. intros H. apply (C0 1%nat). cbn [ofn]. transitivity (1 + 1); [ring|exact H]. Qed.

Lemma left_param c s : (2 <= length c)%nat -> Bk (subdivide_left K c) s = Bk c (hf K * s).
Proof.
  intros Hl. unfold Bk. rewrite (subdivide_left_is_specialize K FT C0) by exact Hl.
  rewrite (specialize_correct K RT c 0 (half K) s Hl). unfold hf. f_equal; ring.
Qed.
Lemma right_param c s : (2 <= length c)%nat -> Bk (subdivide_right K c) s = Bk c (hf K + hf K * s).
Proof.
  intros Hl. unfold Bk. rewrite (subdivide_right_is_specialize K FT C0) by exact Hl.
  rewrite (specialize_correct K RT c (half K) 1 s Hl). unfold hf, half. f_equal; field; exact two_ne.
Qed.
Lemma point_left rows s : wf_rows rows -> point (map (subdivide_left K) rows) s = point rows (hf K * s).
Proof.
  intros Hw. unfold point. rewrite map_map. apply map_ext_in. intros row Hr.
  apply left_param. unfold wf_rows in Hw. rewrite Forall_forall in Hw. exact (Hw row Hr).
Qed.
Lemma point_right rows s : wf_rows rows -> point (map (subdivide_right K) rows) s = point rows (hf K + hf K * s).
Proof.
  intros Hw. unfold point. rewrite map_map. apply map_ext_in. intros row Hr.
  apply right_param. unfold wf_rows in Hw. rewrite Forall_forall in Hw. exact (Hw row Hr).
Qed.

Lemma sub_left_length (c : list T) : length (subdivide_left K c) = S (length c - 1).
Proof. unfold subdivide_left, matvec, left_cols. rewrite !map_length, (left_cols_raw_W K FT), map_length, seq_length. reflexivity. Qed.
Lemma sub_right_length (c : list T) : length (subdivide_right K c) = S (length c - 1).
Proof. unfold subdivide_right, matvec, right_cols. rewrite map_length, rev_length, map_length, (left_cols_raw_W K FT), map_length, seq_length. reflexivity. Qed.
Lemma wf_left rows : wf_rows rows -> wf_rows (map (subdivide_left K) rows).
Proof.
  unfold wf_rows. intros H. apply Forall_forall. intros r Hr. apply in_map_iff in Hr. destruct Hr as [c [<- Hc]].
  rewrite Forall_forall in H. specialize (H c Hc). rewrite sub_left_length. lia.
Qed.
Lemma wf_right rows : wf_rows rows -> wf_rows (map (subdivide_right K) rows).
Proof.
  unfold wf_rows. intros H. apply Forall_forall. intros r Hr. apply in_map_iff in Hr. destruct Hr as [c [<- Hc]].
  rewrite Forall_forall in H. specialize (H c Hc). rewrite sub_right_length. lia.
Qed.

(* an answer of all_intersections(l, r) is genuine when every reported (s, t) is a common point of l and r *)
Definition genuine_call (c : callN (T := T)) : Prop :=
  let '(l, r, lr) := c in forall p, In p lr -> point l (fst p) = point r (snd p).

Theorem reported_pairs_are_self_intersections : forall fuel rows st res calls st',
  wf_rows rows -> self_isect_n K eqb dup fuel rows st = Some (res, calls, st') ->
  Forall genuine_call calls -> forall p, In p res -> point rows (fst p) = point rows (snd p).
Proof.
  induction fuel as [|f IH]; intros rows st res calls st' Hw H Hg p Hp; [discriminate|].
  cbn [self_isect_n] in H.
  destruct (anglesN st) as [|[|] rest]; [discriminate| |].
  - injection H as <- <- <-. destruct Hp.
  - set (l := map (subdivide_left K) rows) in *. set (r := map (subdivide_right K) rows) in *.
    destruct (self_isect_n K eqb dup f l (mkS rest (isectsN st))) as [[[left_self calls1] st1]|] eqn:E1; [|discriminate].
    destruct (self_isect_n K eqb dup f r st1) as [[[right_self calls2] st2]|] eqn:E2; [|discriminate].
    destruct (isectsN st2) as [|lr more]; [discriminate|].
    injection H as <- <- <-.
    apply Forall_app in Hg. destruct Hg as [Hg1 Hg]. apply Forall_app in Hg. destruct Hg as [Hg2 Hg3].
    inversion Hg3 as [|? ? Hcall _]; subst. cbn in Hcall.
    apply (uniq_by_incl dup) in Hp.
    apply in_app_or in Hp. destruct Hp as [Hp|Hp]; [|apply in_app_or in Hp; destruct Hp as [Hp|Hp]].
    + apply in_map_iff in Hp. destruct Hp as [q [<- Hq]]. cbn [fst snd].
      pose proof (IH l _ _ _ _ (wf_left rows Hw) E1 Hg1 q Hq) as Hq'. unfold l in Hq'.
      rewrite !point_left in Hq' by exact Hw. exact Hq'.
    + apply filter_In in Hp. destruct Hp as [Hp _]. apply in_map_iff in Hp. destruct Hp as [q [<- Hq]]. cbn [fst snd].
      pose proof (Hcall q Hq) as Hq'. unfold l, r in Hq'. rewrite point_left, point_right in Hq' by exact Hw.
      replace (fst q * hf K) with (hf K * fst q) by ring. replace (snd q * hf K + hf K) with (hf K + hf K * snd q) by ring. exact Hq'.
    + apply in_map_iff in Hp. destruct Hp as [q [<- Hq]]. cbn [fst snd].
      pose proof (IH r _ _ _ _ (wf_right rows Hw) E2 Hg2 q Hq) as Hq'. unfold r in Hq'.
      rewrite !point_right in Hq' by exact Hw. exact Hq'.
Qed.

(* the recorded calls are made on the two halves of the curve the recursion is at *)
Theorem calls_are_on_halves : forall fuel rows st res calls st',
  self_isect_n K eqb dup fuel rows st = Some (res, calls, st') ->
  match rev calls with
  | [] => anglesN st <> [] /\ hd false (anglesN st) = true
  | (l, r, _) :: _ => l = map (subdivide_left K) rows /\ r = map (subdivide_right K) rows
  end.
Proof.
  intros [|f] rows st res calls st' H; [discriminate|]. cbn [self_isect_n] in H.
  destruct (anglesN st) as [|[|] rest]; [discriminate| |].
  - injection H as <- <- <-. cbn. split; [discriminate|reflexivity].
  - destruct (self_isect_n K eqb dup f _ _) as [[[left_self calls1] st1]|]; [|discriminate].
    destruct (self_isect_n K eqb dup f _ st1) as [[[right_self calls2] st2]|]; [|discriminate].
    destruct (isectsN st2) as [|lr more]; [discriminate|]. injection H as <- <- <-.
    rewrite app_assoc, rev_app_distr. cbn [rev app]. split; reflexivity.
Qed.
End Genuine.
