(* Homomorphisms between arithmetics: the table-driven linear maps of the models commute with them.
   Instance: canonical rationals -> reals (the executed instance and the instance the order theorems are proved in). *)
From Coq Require Import List Arith QArith Qcanon Reals Qreals Lia Lra.
From BZ Require Import Base.Ops Base.QcInst Base.RInst Model.Curve.
Import ListNotations.

Record OpsHom {A B : Type} (KA : Ops A) (KB : Ops B) (h : A -> B) : Prop := {
  hom0 : h (o0 KA) = o0 KB;
  hom_add : forall x y, h (oadd KA x y) = oadd KB (h x) (h y);
  hom_mul : forall x y, h (omul KA x y) = omul KB (h x) (h y) }.

Section Hom.
Context {A B : Type} (KA : Ops A) (KB : Ops B) (h : A -> B) (H : OpsHom KA KB h).
Lemma dot_hom : forall w v, h (dot KA w v) = dot KB (map h w) (map h v).
Proof.
  induction w as [|a w IH]; intros [|b v]; cbn [dot map]; try apply (hom0 _ _ _ H).
  rewrite (hom_add _ _ _ H), (hom_mul _ _ _ H), IH. reflexivity.
Qed.
Lemma matvec_hom v cols : map h (matvec KA v cols) = matvec KB (map h v) (map (map h) cols).
Proof. unfold matvec. rewrite !map_map. apply map_ext. intros c. apply dot_hom. Qed.
End Hom.

Lemma transpose_aux_map {A B} (f : A -> B) : forall n rows,
  transpose_aux n (map (map f) rows) = map (map f) (transpose_aux n rows).
Proof.
  induction n as [|n IH]; intros rows; [reflexivity|]. cbn [transpose_aux map]. f_equal.
  - rewrite concat_map, !map_map. f_equal. apply map_ext. intros [|x r]; reflexivity.
  - rewrite <- IH. f_equal. rewrite !map_map. apply map_ext. intros [|x r]; reflexivity.
Qed.
Lemma transpose_map {A B} (f : A -> B) rows : transpose (map (map f) rows) = map (map f) (transpose rows).
Proof.
  unfold transpose. destruct rows as [|r rows]; [reflexivity|]. cbn [map]. rewrite map_length.
  apply (transpose_aux_map f (length r) (r :: rows)).
Qed.

(* ---- Qc -> R ---- *)
Definition Qc2R (x : Qc) : R := Q2R (this x).
Lemma Qc2R_Q2Qc q : Qc2R (Q2Qc q) = Q2R q.
Proof. unfold Qc2R. cbn [this Q2Qc]. apply Qeq_eqR. apply Qred_correct. Qed.
Lemma Qc2R_hom : OpsHom QcOps ROps Qc2R.
Proof.
  constructor.
  - unfold Qc2R. cbn. unfold Q2R. cbn. lra.
  - intros x y. cbn [oadd QcOps ROps]. unfold Qcplus. rewrite Qc2R_Q2Qc. apply Q2R_plus.
  - intros x y. cbn [omul QcOps ROps]. unfold Qcmult. rewrite Qc2R_Q2Qc. apply Q2R_mult.
Qed.
Lemma Qc2R_pos x : (0 < x)%Qc -> (0 < Qc2R x)%R.
Proof. intros H. unfold Qc2R. replace 0%R with (Q2R 0) by (unfold Q2R; cbn; lra). apply Qlt_Rlt. exact H. Qed.
Lemma Qc2R_neg x : (x < 0)%Qc -> (Qc2R x < 0)%R.
Proof. intros H. unfold Qc2R. replace 0%R with (Q2R 0) by (unfold Q2R; cbn; lra). apply Qlt_Rlt. exact H. Qed.
