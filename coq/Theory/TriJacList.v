(* C11, list level: the nets returned by the models of jacobian_s / jacobian_t are d times the difference nets
   D(-1,1,0) f and D(-1,0,1) f of the index function of the input, hence their evaluation IS the eps-coefficient of the
   dual-number evaluation of the triangle in the directions s and t (the formal partial derivatives).  Every degree >= 1. *)
From Coq Require Import List Arith Lia Ring.
From BZ Require Import Base.Ops Model.Curve Model.Triangle Theory.CurveEval Theory.CurveDeriv Theory.TriEval
  Theory.TriBlossom Theory.TriLink Theory.TriLink2.
Import ListNotations.

Section JacList.
Context {T : Type} (K : Ops T) (RT : ring_of K).
Add Ring TRJL : RT.
Declare Scope t_scope. Delimit Scope t_scope with t.
Notation "0" := (o0 K) : t_scope. Notation "1" := (o1 K) : t_scope.
Infix "+" := (oadd K) : t_scope. Infix "*" := (omul K) : t_scope. Infix "-" := (osub K) : t_scope.
Local Open Scope t_scope.
Notation fun_of := (fun_of K).

Lemma ofnat_ofn n : ofnat K n = ofn K n.
Proof. induction n; cbn [ofnat ofn]; [reflexivity|rewrite IHn; reflexivity]. Qed.

Lemma nth_diffs : forall (r : list T) j, (S j < length r)%nat -> nth j (diffs K r) 0 = nth (S j) r 0 - nth j r 0.
Proof.
  induction r as [|a r IH]; intros j Hj; [cbn [length] in Hj; lia|].
  destruct r as [|b r']; [cbn [length] in Hj; lia|].
  destruct j as [|j]; [reflexivity|].
  change (diffs K (a :: b :: r')) with ((b - a) :: diffs K (b :: r')). cbn [nth]. apply IH. cbn [length] in Hj |- *. lia.
Qed.
Lemma nth_zipw_sub : forall (u w : list T) j, (j < length u)%nat -> (j < length w)%nat ->
  nth j (zipw (fun a b => b - a) u w) 0 = nth j w 0 - nth j u 0.
Proof.
  induction u as [|a u IH]; intros [|b w] j Hu Hw; cbn [length] in Hu, Hw; try lia.
  destruct j; [reflexivity|]. cbn [zipw nth]. apply IH; lia.
Qed.
Lemma zipw_sub_length : forall (u w : list T), length (zipw (fun a b => b - a) u w) = Nat.min (length u) (length w).
Proof. induction u as [|a u IH]; intros [|b w]; cbn [zipw length Nat.min]; auto. Qed.
Lemma nth_map0 (c : T) (l : list T) j : (j < length l)%nat -> nth j (map (fun x => c * x) l) 0 = c * nth j l 0.
Proof. intros H. rewrite (nth_indep _ 0 (c * 0)) by (rewrite map_length; exact H). apply (map_nth (fun x => c * x)). Qed.

Lemma jac_t_rows_nth d : forall rows k, (S k < length rows)%nat ->
  nth k (jac_t_rows_aux K d rows) [] = map (fun x => ofn K d * x) (zipw (fun a b => b - a) (nth k rows []) (nth (S k) rows [])).
Proof.
  induction rows as [|r rows IH]; intros k Hk; [cbn [length] in Hk; lia|].
  destruct rows as [|r' rest]; [cbn [length] in Hk; lia|].
  destruct k as [|k]; [reflexivity|].
  change (jac_t_rows_aux K d (r :: r' :: rest)) with (map (fun x => ofn K d * x) (zipw (fun a b => b - a) r r') :: jac_t_rows_aux K d (r' :: rest)).
  cbn [nth]. apply IH. cbn [length] in Hk |- *. lia.
Qed.
Lemma jac_t_rows_length d : forall rows, length (jac_t_rows_aux K d rows) = pred (length rows).
Proof.
  induction rows as [|r rows IH]; [reflexivity|]. destruct rows as [|r' rest]; [reflexivity|].
  change (jac_t_rows_aux K d (r :: r' :: rest)) with (map (fun x => ofn K d * x) (zipw (fun a b => b - a) r r') :: jac_t_rows_aux K d (r' :: rest)).
  cbn [length] in IH |- *. rewrite IH. reflexivity.
Qed.
Lemma nth_removelast {A} (l : list A) k dflt : (S k < length l)%nat -> nth k (removelast l) dflt = nth k l dflt.
Proof.
  revert k. induction l as [|a l IH]; intros k Hk; [cbn [length] in Hk; lia|].
  destruct l as [|b l']; [cbn [length] in Hk; lia|].
  destruct k; [reflexivity|]. change (removelast (a :: b :: l')) with (a :: removelast (b :: l')). cbn [nth]. apply IH. cbn [length] in Hk |- *. lia.
Qed.
Lemma removelast_length {A} (l : list A) : length (removelast l) = pred (length l).
Proof. induction l as [|a l IH]; [reflexivity|]. destruct l; [reflexivity|]. change (removelast (a :: a0 :: l)) with (a :: removelast (a0 :: l)). cbn [length] in *. rewrite IH. reflexivity. Qed.

Lemma iterD_scale w c n : forall g, fext (iterD K w n (fun j k => c * g j k)) (fun j k => c * iterD K w n g j k).
Proof.
  induction n as [|n IH]; intros g j k; [reflexivity|]. cbn [iterD].
  rewrite <- (IH (D K w g) j k). apply iterD_fext. intros j' k'. destruct w as [[w1 w2] w3]. unfold D. cbv beta iota. ring.
Qed.
Lemma iterD_zero w n : fext (iterD K w n (fun _ _ => 0)) (fun _ _ => 0).
Proof.
  induction n as [|n IH]; intros j k; [reflexivity|]. cbn [iterD].
  transitivity (iterD K w n (fun _ _ => 0) j k); [|apply IH].
  apply iterD_fext. intros j' k'. destruct w as [[w1 w2] w3]. unfold D. cbv beta iota. ring.
Qed.

Lemma diff_ring (x a b c : T) : x * (a - b) = x * ((0 - 1) * b + 1 * a + 0 * c).
Proof. ring. Qed.
Lemma diff_ring2 (x a b c : T) : x * (a - b) = x * ((0 - 1) * b + 0 * c + 1 * a).
Proof. ring. Qed.
Lemma deriv_ring (x y : T) : x * y = 0 + x * y.
Proof. ring. Qed.

Variable d : nat.
Variable v : list T.
Hypothesis Hv : wf_flat (S d) v.
Let rows := split_rows (S (S d)) v.
Let f := fun_of rows.
Let Hwf : well_formed (S d) rows := split_rows_well_formed (S d) v Hv.

Lemma jac_s_rows_wf : well_formed d (jac_s_rows K (S d) rows).
Proof.
  destruct Hwf as [Hl Hr]. unfold jac_s_rows. split.
  - rewrite map_length, removelast_length, Hl. reflexivity.
  - intros k Hk.
    rewrite (nth_indep _ [] (map (fun x => ofn K (S d) * x) (diffs K []))) by (rewrite map_length, removelast_length, Hl; cbn [pred]; lia).
    rewrite (map_nth (fun r => map (fun x => ofn K (S d) * x) (diffs K r))).
    rewrite map_length, diffs_length, nth_removelast by (rewrite Hl; lia). rewrite Hr by lia. lia.
Qed.
Lemma jac_t_rows_wf : well_formed d (jac_t_rows_aux K (S d) rows).
Proof.
  destruct Hwf as [Hl Hr]. split.
  - rewrite jac_t_rows_length, Hl. reflexivity.
  - intros k Hk. rewrite jac_t_rows_nth by (rewrite Hl; lia).
    rewrite map_length, zipw_sub_length, !Hr by lia. lia.
Qed.

(* the nets are (d+1) times the difference nets of the index function *)
Theorem jac_s_is_difference_net :
  feq d (fun_of (jac_s_rows K (S d) rows)) (fun j k => ofn K (S d) * D K (0 - 1, 1, 0) f j k).
Proof.
  destruct Hwf as [Hl Hr]. intros j k Hjk. unfold TriLink.fun_of at 1, jac_s_rows.
  rewrite (nth_indep _ [] (map (fun x => ofn K (S d) * x) (diffs K []))) by (rewrite map_length, removelast_length, Hl; cbn [pred]; lia).
  rewrite (map_nth (fun r => map (fun x => ofn K (S d) * x) (diffs K r))).
  rewrite nth_removelast by (rewrite Hl; lia).
  rewrite nth_map0 by (rewrite diffs_length, Hr by lia; lia).
  rewrite nth_diffs by (rewrite Hr by lia; lia).
  unfold D, f, TriLink.fun_of. cbv beta iota. apply diff_ring.
Qed.
Theorem jac_t_is_difference_net :
  feq d (fun_of (jac_t_rows_aux K (S d) rows)) (fun j k => ofn K (S d) * D K (0 - 1, 0, 1) f j k).
Proof.
  destruct Hwf as [Hl Hr]. intros j k Hjk. unfold TriLink.fun_of at 1.
  rewrite jac_t_rows_nth by (rewrite Hl; lia).
  rewrite nth_map0 by (rewrite zipw_sub_length, !Hr by lia; lia).
  rewrite nth_zipw_sub by (rewrite Hr by lia; lia).
  unfold D, f, TriLink.fun_of. cbv beta iota. apply diff_ring2.
Qed.

(* evaluation of the returned nets = the eps-coefficient of the dual-number evaluation (the formal partial derivative) *)
Theorem jac_s_is_partial_derivative l1 l2 l3 :
  tri_bernstein K d (jac_s K (S d) v) l1 l2 l3 = epsD K (l1, l2, l3) (0 - 1, 1, 0) (S d) f (fun _ _ => 0) 0%nat 0%nat.
Proof.
  unfold tri_bernstein, jac_s. fold rows.
  destruct jac_s_rows_wf as [Hl Hr].
  rewrite split_rows_concat by (try exact Hl; intros k Hk; rewrite Hr by lia; lia).
  rewrite (tsum_is_de_casteljau K RT l1 l2 l3 d _ jac_s_rows_wf).
  rewrite (iterD_feq K (l1, l2, l3) d 0 _ _ ltac:(rewrite Nat.add_0_r; exact jac_s_is_difference_net) 0%nat 0%nat) by lia.
  rewrite (iterD_scale (l1, l2, l3) (ofn K (S d)) d _ 0%nat 0%nat).
  rewrite (epsD_is_derivative K RT (l1, l2, l3) (0 - 1, 1, 0) (S d) f (fun _ _ => 0) 0%nat 0%nat).
  unfold fadd. rewrite (iterD_zero (l1, l2, l3) (S d) 0%nat 0%nat). rewrite ofnat_ofn.
  replace (S d - 1)%nat with d by lia. apply deriv_ring.
Qed.
Theorem jac_t_is_partial_derivative l1 l2 l3 :
  tri_bernstein K d (jac_t K (S d) v) l1 l2 l3 = epsD K (l1, l2, l3) (0 - 1, 0, 1) (S d) f (fun _ _ => 0) 0%nat 0%nat.
Proof.
  unfold tri_bernstein, jac_t. fold rows.
  destruct jac_t_rows_wf as [Hl Hr].
  rewrite split_rows_concat by (try exact Hl; intros k Hk; rewrite Hr by lia; lia).
  rewrite (tsum_is_de_casteljau K RT l1 l2 l3 d _ jac_t_rows_wf).
  rewrite (iterD_feq K (l1, l2, l3) d 0 _ _ ltac:(rewrite Nat.add_0_r; exact jac_t_is_difference_net) 0%nat 0%nat) by lia.
  rewrite (iterD_scale (l1, l2, l3) (ofn K (S d)) d _ 0%nat 0%nat).
  rewrite (epsD_is_derivative K RT (l1, l2, l3) (0 - 1, 0, 1) (S d) f (fun _ _ => 0) 0%nat 0%nat).
  unfold fadd. rewrite (iterD_zero (l1, l2, l3) (S d) 0%nat 0%nat). rewrite ofnat_ofn.
  replace (S d - 1)%nat with d by lia. apply deriv_ring.
Qed.
End JacList.
