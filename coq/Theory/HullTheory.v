(* C16 (hull, collision): the model of simple_convex_hull returns THE convex hull on the finite domains of the
   property's quantifier (proved by complete enumeration inside Coq, the bound is in the statement);
   a separating direction found by is_separating really separates the convex hulls (all inputs). *)
From Coq Require Import List ZArith QArith Qminmax Bool Lia Lqa.
From BZ Require Import Base.PyVal Model.Hull Theory.Predicates.
Import ListNotations.
Open Scope Q_scope.

Lemma hull_ok_3x3_len5 : forallb hull_ok (seqs_upto 5 (lattice 3)) = true.
Proof. vm_compute. reflexivity. Qed.
Lemma hull_ok_4x4_len4 : forallb hull_ok (seqs_upto 4 (lattice 4)) = true.
Proof. vm_compute. reflexivity. Qed.
Theorem hull_is_convex_hull_small pts :
  In pts (seqs_upto 5 (lattice 3)) \/ In pts (seqs_upto 4 (lattice 4)) -> hull_ok pts = true.
Proof.
  intros [H|H].
  - exact (proj1 (forallb_forall _ _) hull_ok_3x3_len5 pts H).
  - exact (proj1 (forallb_forall _ _) hull_ok_4x4_len4 pts H).
Qed.

(* ---- separating axis: soundness for ALL inputs ---- *)
Lemma fold_min_bound (l : list Q) : forall acc, fold_left Qmin l acc <= acc /\ forall x, In x l -> fold_left Qmin l acc <= x.
Proof.
  induction l as [|y l IH]; intros acc; cbn [fold_left]; [split; [lra|intros ? []]|].
  destruct (IH (Qmin acc y)) as [H1 H2]. pose proof (Q.le_min_l acc y). pose proof (Q.le_min_r acc y).
  split; [lra|]. intros x [<-|Hx]; [lra|auto].
Qed.
Lemma fold_max_bound (l : list Q) : forall acc, acc <= fold_left Qmax l acc /\ forall x, In x l -> x <= fold_left Qmax l acc.
Proof.
  induction l as [|y l IH]; intros acc; cbn [fold_left]; [split; [lra|intros ? []]|].
  destruct (IH (Qmax acc y)) as [H1 H2]. pose proof (Q.le_max_l acc y). pose proof (Q.le_max_r acc y).
  split; [lra|]. intros x [<-|Hx]; [lra|auto].
Qed.
Lemma qmin_list_bound l m : qmin_list l = Some m -> forall x, In x l -> m <= x.
Proof.
  destruct l as [|y l]; [discriminate|]. cbn [qmin_list]. intros H. injection H as <-.
  destruct (fold_min_bound l y) as [H1 H2]. intros x [<-|Hx]; [exact H1|auto].
Qed.
Lemma qmax_list_bound l m : qmax_list l = Some m -> forall x, In x l -> x <= m.
Proof.
  destruct l as [|y l]; [discriminate|]. cbn [qmax_list]. intros H. injection H as <-.
  destruct (fold_max_bound l y) as [H1 H2]. intros x [<-|Hx]; [exact H1|auto].
Qed.

(* convex combinations *)
Fixpoint comb (ws : list Q) (ps : list pt) : pt :=
  match ws, ps with
  | w :: ws', p :: ps' => let r := comb ws' ps' in (w * fst p + fst r, w * snd p + snd r)
  | _, _ => (0, 0)
  end.
Fixpoint wsum (ws : list Q) : Q := match ws with [] => 0 | w :: r => w + wsum r end.
Definition weights_ok (ws : list Q) (ps : list pt) : Prop :=
  length ws = length ps /\ Forall (fun w => 0 <= w) ws /\ wsum ws == 1.

Lemma cross_comb d : forall ws ps, length ws = length ps ->
  cross d (comb ws ps) == fold_right (fun wp acc => fst wp * cross d (snd wp) + acc) 0 (combine ws ps).
Proof.
  induction ws as [|w ws IH]; intros [|p ps] H; simpl in H; try discriminate; [unfold cross; cbn; ring|].
  cbn [comb combine fold_right fst snd]. rewrite <- IH by lia. unfold cross. cbn [fst snd]. ring.
Qed.
Lemma weighted_lower d m : forall ws ps, length ws = length ps -> Forall (fun w => 0 <= w) ws ->
  (forall p, In p ps -> m <= cross d p) ->
  m * wsum ws <= fold_right (fun wp acc => fst wp * cross d (snd wp) + acc) 0 (combine ws ps).
Proof.
  induction ws as [|w ws IH]; intros [|p ps] H Hw Hp; simpl in H; try discriminate; cbn [wsum combine fold_right fst snd]; [lra|].
  inversion Hw; subst. specialize (IH ps ltac:(lia) H3 (fun q Hq => Hp q (or_intror Hq))).
  pose proof (Hp p (or_introl eq_refl)). nra.
Qed.
Lemma weighted_upper d m : forall ws ps, length ws = length ps -> Forall (fun w => 0 <= w) ws ->
  (forall p, In p ps -> cross d p <= m) ->
  fold_right (fun wp acc => fst wp * cross d (snd wp) + acc) 0 (combine ws ps) <= m * wsum ws.
Proof.
  induction ws as [|w ws IH]; intros [|p ps] H Hw Hp; simpl in H; try discriminate; cbn [wsum combine fold_right fst snd]; [lra|].
  inversion Hw; subst. specialize (IH ps ltac:(lia) H3 (fun q Hq => Hp q (or_intror Hq))).
  pose proof (Hp p (or_introl eq_refl)). nra.
Qed.

(* if is_separating reports true for a non-zero direction, no convex combination of polygon1 equals one of polygon2 *)
Theorem is_separating_sound d p1 p2 ws1 ws2 :
  0 < fst d * fst d + snd d * snd d ->
  is_separating d p1 p2 = true -> weights_ok ws1 p1 -> weights_ok ws2 p2 ->
  ~ (fst (comb ws1 p1) == fst (comb ws2 p2) /\ snd (comb ws1 p1) == snd (comb ws2 p2)).
Proof.
  intros Hn Hs [L1 [W1 S1]] [L2 [W2 S2]] [Ex Ey]. unfold is_separating in Hs.
  set (n := fst d * fst d + snd d * snd d) in *.
  destruct (qmin_list (map (proj d) p1)) as [mn1|] eqn:A1; [|discriminate].
  destruct (qmax_list (map (proj d) p1)) as [mx1|] eqn:B1; [|discriminate].
  destruct (qmin_list (map (proj d) p2)) as [mn2|] eqn:A2; [|discriminate].
  destruct (qmax_list (map (proj d) p2)) as [mx2|] eqn:B2; [|discriminate].
  assert (Hc : cross d (comb ws1 p1) == cross d (comb ws2 p2)) by (unfold cross; rewrite Ex, Ey; reflexivity).
  rewrite !cross_comb in Hc by assumption.
  assert (P : forall (ps : list pt) m, (forall x, In x (map (proj d) ps) -> m <= x) -> forall p, In p ps -> m * n <= cross d p).
  { intros ps m Hb p Hp. specialize (Hb (proj d p) (in_map _ _ _ Hp)). unfold proj in Hb. fold n in Hb.
    assert (E : cross d p / n * n == cross d p) by (field; lra). set (q := cross d p / n) in *. nra. }
  assert (P' : forall (ps : list pt) m, (forall x, In x (map (proj d) ps) -> x <= m) -> forall p, In p ps -> cross d p <= m * n).
  { intros ps m Hb p Hp. specialize (Hb (proj d p) (in_map _ _ _ Hp)). unfold proj in Hb. fold n in Hb.
    assert (E : cross d p / n * n == cross d p) by (field; lra). set (q := cross d p / n) in *. nra. }
  pose proof (weighted_lower d (mn1 * n) ws1 p1 L1 W1 (P p1 mn1 (qmin_list_bound _ _ A1))) as G1.
  pose proof (weighted_upper d (mx1 * n) ws1 p1 L1 W1 (P' p1 mx1 (qmax_list_bound _ _ B1))) as G2.
  pose proof (weighted_lower d (mn2 * n) ws2 p2 L2 W2 (P p2 mn2 (qmin_list_bound _ _ A2))) as G3.
  pose proof (weighted_upper d (mx2 * n) ws2 p2 L2 W2 (P' p2 mx2 (qmax_list_bound _ _ B2))) as G4.
  rewrite S1 in G1, G2. rewrite S2 in G3, G4.
  apply orb_true_iff in Hs. destruct Hs as [Hs|Hs]; apply Qltb_lt in Hs; nra.
Qed.

(* polygon_collide = false exhibits such a direction among the edge directions *)
Theorem polygon_collide_false_sound p1 p2 :
  polygon_collide p1 p2 = false -> exists d, In d (edge_dirs p1 ++ edge_dirs p2) /\ is_separating d p1 p2 = true.
Proof.
  unfold polygon_collide. rewrite negb_false_iff. intros H. apply existsb_exists in H. exact H.
Qed.
