(* C16, clipping: clip_range never rejects a true hit (exact data).
   If (the model of) clip_range returns (S, S') for the curves with control nets (x1,y1) and (x2,y2), then every real parameter
   t in [0,1] at which the second curve meets the first one (at any s in [0,1]) satisfies S <= t <= S'.
   Ingredients: the specification of the fold over the regenerated per-chord update (Theory/ClipSpec.v, over Q), the planar
   convexity fact (Theory/ClipHull.v, over R), Bernstein weights: nonnegative, sum 1, linear precision, affine invariance. *)
From Coq Require Import List Arith ZArith QArith Qreals Reals Lra Lia.
From BZ Require Import Base.Ops Base.RInst Base.PyVal Model.Curve Theory.CurveEval Theory.CurveEvalExtra Theory.LinError
  Model.Clip Theory.Predicates Theory.ClipSpec Theory.ClipHull.
Import ListNotations.
Local Open Scope R_scope.

(* ---------------- Bernstein weights ---------------- *)
Lemma dot_rdot : forall w v, dot ROps w v = rdot w v.
Proof. induction w as [|a w IH]; intros [|b v]; cbn [dot rdot]; try reflexivity. rewrite IH. reflexivity. Qed.
Lemma fold_rsum : forall l, fold_right (oadd ROps) (o0 ROps) l = rsum l.
Proof. induction l as [|a l IH]; cbn [fold_right rsum]; [reflexivity|]. rewrite IH. reflexivity. Qed.

Lemma mul_lin_aux_nonneg l1 l2 : 0 <= l1 -> 0 <= l2 -> forall w prev, 0 <= prev -> Forall (fun x => 0 <= x) w ->
  Forall (fun x => 0 <= x) (mul_lin_aux ROps l1 l2 prev w).
Proof.
  intros H1 H2. induction w as [|a w IH]; intros prev Hp Hw; cbn [mul_lin_aux].
  - constructor; [|constructor]. cbn [omul ROps]. apply Rmult_le_pos; assumption.
  - inversion Hw as [|? ? Ha Hw']; subst. constructor; [|apply IH; assumption].
    cbn [oadd omul ROps]. apply Rplus_le_le_0_compat; apply Rmult_le_pos; assumption.
Qed.
Lemma W_nonneg l1 l2 : 0 <= l1 -> 0 <= l2 -> forall n, Forall (fun x => 0 <= x) (W ROps n l1 l2).
Proof.
  intros H1 H2. induction n as [|n IH]; cbn [W].
  - constructor; [|constructor]. cbn [o1 ROps]. lra.
  - unfold mul_lin. apply mul_lin_aux_nonneg; try assumption. cbn [o0 ROps]. lra.
Qed.
Lemma pw_one n : pw ROps 1 n = 1.
Proof. induction n as [|n IH]; cbn [pw]; [reflexivity|]. rewrite IH. cbn [omul ROps]. ring. Qed.
Lemma W_rsum n t : rsum (W ROps n (1 - t) t) = 1.
Proof.
  rewrite <- fold_rsum, (W_sum ROps RRing). cbn [oadd ROps]. replace (1 - t + t) with 1 by ring. apply pw_one.
Qed.
Lemma bernstein_rdot (v : list R) t : v <> [] ->
  bernstein ROps v (1 - t) t = rdot (W ROps (length v - 1) (1 - t) t) v.
Proof.
  intros Hne. unfold bernstein. rewrite <- dot_rdot, (W_is_bernstein ROps RRing); [reflexivity|].
  destruct v; [congruence|]. cbn [length]. lia.
Qed.

(* linear precision: the abscissae j/m are reproduced *)
Definition absc (m : nat) : list R := map (fun j => INR j / INR m) (seq 0 (S m)).
Lemma linear_precision m t : (1 <= m)%nat -> rdot (W ROps m (1 - t) t) (absc m) = t.
Proof.
  intros Hm. unfold absc.
  rewrite <- dot_rdot, <- (dc_eval_correct ROps RRing) by (rewrite map_length, seq_length; reflexivity).
  rewrite dc_eval_fun.
  rewrite (Rds_ext t m _ (quad 0 (/ INR m) 0)) by (intros j; unfold quad; field; apply not_0_INR; lia).
  rewrite Rds_quad. unfold quad. cbn [INR]. field. apply not_0_INR. lia.
Qed.

(* affine invariance *)
Lemma rdot_affine (a b c : R) : forall ws xs ys, length xs = length ws -> length ys = length ws ->
  rdot ws (zipw (fun x y => a * x + b * y + c) xs ys) = a * rdot ws xs + b * rdot ws ys + c * rsum ws.
Proof.
  induction ws as [|w ws IH]; intros [|x xs] [|y ys] Hx Hy; cbn [length] in Hx, Hy; try lia; cbn [zipw rdot rsum]; [ring|].
  rewrite IH by lia. ring.
Qed.
Lemma Q2R_dists a b c : forall xs ys,
  map Q2R (dists a b c xs ys) = zipw (fun x y => Q2R a * x + Q2R b * y + Q2R c) (map Q2R xs) (map Q2R ys).
Proof.
  induction xs as [|x xs IH]; intros [|y ys]; try reflexivity.
  unfold dists in IH |- *. cbn [zipw map]. rewrite IH, !Q2R_plus, !Q2R_mult. reflexivity.
Qed.

(* ---------------- indices of the points of the distance polygon ---------------- *)
Lemma in_combine_seq {B} (f : nat -> R) (g : B -> R) (d : B) : forall (l : list B) k p,
  In p (combine (map f (seq k (length l))) (map g l)) -> exists i, (i < length l)%nat /\ p = (f (k + i)%nat, g (nth i l d)).
Proof.
  induction l as [|b l IH]; intros k p H; cbn [length seq map combine] in H; [contradiction|].
  destruct H as [E|H].
  - exists 0%nat. split; [cbn [length]; lia|]. rewrite Nat.add_0_r. symmetry. exact E.
  - destruct (IH (S k) p H) as [i [Hi E]]. exists (S i). split; [cbn [length]; lia|].
    rewrite E. cbn [nth]. f_equal. f_equal. lia.
Qed.
Lemma in_combine_seq' {B} (f : nat -> R) (g : B -> R) (d : B) : forall (l : list B) k i, (i < length l)%nat ->
  In (f (k + i)%nat, g (nth i l d)) (combine (map f (seq k (length l))) (map g l)).
Proof.
  induction l as [|b l IH]; intros k i Hi; cbn [length] in Hi; [lia|]. cbn [length seq map combine].
  destruct i as [|i]; [left; rewrite Nat.add_0_r; reflexivity|]. right.
  replace (k + S i)%nat with (S k + i)%nat by lia. apply IH. lia.
Qed.

Lemma Q2R_qn i : Q2R (qn i) = INR i.
Proof. unfold qn, Q2R. cbn [Qnum Qden inject_Z]. rewrite INR_IZR_INZ. field. Qed.
Lemma Q2R_0 : Q2R 0 = 0. Proof. unfold Q2R. cbn. field. Qed.
Lemma Q2R_1 : Q2R 1 = 1. Proof. unfold Q2R. cbn. field. Qed.

(* the chord facts of Theory/ClipSpec.v, transported to R and to abscissae in [0,1] *)
Lemma chord_R (m : nat) lo hi poly S S' : (1 <= m)%nat ->
  (forall i j, (i < j <= m)%nat -> chord_ok m lo hi poly S S' (i, j)) ->
  forall i j l, (i <= m)%nat -> (j <= m)%nat -> l = lo \/ l = hi ->
  Q2R (nth i poly 0%Q) <> Q2R (nth j poly 0%Q) ->
  0 <= (Q2R l - Q2R (nth i poly 0%Q)) / (Q2R (nth j poly 0%Q) - Q2R (nth i poly 0%Q)) <= 1 ->
  Q2R S <= INR i / INR m + (Q2R l - Q2R (nth i poly 0%Q)) / (Q2R (nth j poly 0%Q) - Q2R (nth i poly 0%Q)) * (INR j / INR m - INR i / INR m)
  <= Q2R S'.
Proof.
  intros Hm H i j l Hi Hj Hl Hne Hu.
  set (di := nth i poly 0%Q) in *. set (dj := nth j poly 0%Q) in *.
  assert (Hneq : ~ (dj == di)%Q) by (intros E; apply Hne; symmetry; apply Qeq_eqR; exact E).
  assert (Hnz : ~ (dj - di == 0)%Q) by (intros E; apply Hneq; setoid_replace dj with ((dj - di) + di)%Q by ring; rewrite E; ring).
  set (tq := ((l - di) / (dj - di))%Q).
  assert (Etq : Q2R tq = (Q2R l - Q2R di) / (Q2R dj - Q2R di)).
  { unfold tq. rewrite Q2R_div by exact Hnz. rewrite !Q2R_minus. reflexivity. }
  rewrite <- Etq in Hu |- *.
  assert (Htq : (0 <= tq <= 1)%Q).
  { split; apply Rle_Qle; [rewrite Q2R_0|rewrite Q2R_1]; lra. }
  assert (Hmul : (tq * (dj - di) == l - di)%Q) by (unfold tq; field; exact Hnz).
  destruct (chord_any m lo hi poly S S' H i j l tq Hi Hj Hl Hneq Hmul Htq) as [L U].
  apply Qle_Rle in L, U.
  rewrite !Q2R_plus, !Q2R_mult, !Q2R_minus, !Q2R_qn in L, U.
  assert (HM : 0 < INR m) by (apply lt_0_INR; lia).
  assert (E : INR i / INR m + Q2R tq * (INR j / INR m - INR i / INR m) = (INR i + Q2R tq * (INR j - INR i)) / INR m) by (field; lra).
  rewrite E. split.
  - apply (Rmult_le_reg_r (INR m)); [exact HM|]. unfold Rdiv. rewrite Rmult_assoc, Rinv_l by lra. lra.
  - apply (Rmult_le_reg_r (INR m)); [exact HM|]. unfold Rdiv. rewrite Rmult_assoc, Rinv_l by lra. lra.
Qed.

(* ---------------- the theorem ---------------- *)
Definition BR (v : list Q) (t : R) : R := bernstein ROps (map Q2R v) (1 - t) t.

Lemma dist_of_point (a b c : Q) (xs ys : list Q) t : length xs = length ys -> xs <> [] ->
  rdot (W ROps (length xs - 1) (1 - t) t) (map Q2R (dists a b c xs ys)) = Q2R a * BR xs t + Q2R b * BR ys t + Q2R c.
Proof.
  intros Hl Hne. unfold BR.
  assert (Hne' : map Q2R xs <> []) by (destruct xs; [congruence|discriminate]).
  assert (Hney : map Q2R ys <> []) by (destruct ys; [destruct xs; [congruence|discriminate]|discriminate]).
  rewrite (bernstein_rdot _ t Hne'), (bernstein_rdot _ t Hney), !map_length, <- Hl.
  assert (HW : length (W ROps (length xs - 1) (1 - t) t) = length xs).
  { rewrite (W_length ROps). destruct xs; [congruence|]. cbn [length]. lia. }
  rewrite Q2R_dists, rdot_affine, W_rsum by (rewrite map_length, HW; lia). ring.
Qed.

Theorem clip_range_sound (x1 y1 x2 y2 : list Q) (smin smax : Q) :
  length x1 = length y1 -> (2 <= length x1)%nat -> length x2 = length y2 -> (2 <= length x2)%nat ->
  clip_range x1 y1 x2 y2 = VTup [VQ smin; VQ smax] ->
  forall s t : R, 0 <= s <= 1 -> 0 <= t <= 1 -> BR x1 s = BR x2 t -> BR y1 s = BR y2 t ->
  Q2R smin <= t <= Q2R smax.
Proof.
  intros Hl1 Hn1 Hl2 Hn2 Hclip s t Hs Ht Ex Ey.
  destruct x1 as [|x10 x1s]; [cbn [length] in Hn1; lia|]. destruct y1 as [|y10 y1s]; [discriminate|].
  unfold clip_range in Hclip.
  destruct (fat_line (x10 :: x1s) (y10 :: y1s)) as [[[[[a b] c] lo] hi]|] eqn:Ef; [|discriminate].
  apply fat_line_spec in Ef; [|cbn [length] in Hl1; lia|cbn [length] in Hn1; lia].
  destruct Ef as [_ [_ [_ [Hband0 Hband1]]]].
  set (poly := dists a b c x2 y2) in *.
  assert (Hpl : length poly = length x2) by (apply dists_length; exact Hl2).
  set (m := (length poly - 1)%nat).
  apply clip_poly_spec in Hclip; [|lia]. fold m in Hclip. destruct Hclip as [H0 [H1 Hch]].
  assert (Hm : (1 <= m)%nat) by (unfold m; lia).
  (* the distance of the common point to the implicit line, from both sides *)
  assert (HD1 : Q2R lo <= Q2R a * BR (x10 :: x1s) s + Q2R b * BR (y10 :: y1s) s + Q2R c <= Q2R hi).
  { rewrite <- (dist_of_point a b c (x10 :: x1s) (y10 :: y1s) s Hl1) by discriminate.
    set (d1 := dists a b c (x10 :: x1s) (y10 :: y1s)) in *.
    assert (Hd1 : length d1 = length (x10 :: x1s)) by (apply dists_length; exact Hl1).
    assert (Hne : map Q2R d1 <> []) by (destruct d1; [cbn [length] in Hd1; lia|discriminate]).
    rewrite <- Hd1, <- (map_length Q2R d1), <- (bernstein_rdot _ s Hne).
    apply bernstein_in_hull; [exact Hne|exact Hs|].
    unfold within. apply Forall_map. eapply Forall_impl; [|exact Hband1].
    intros d [A B]. split; apply Qle_Rle; assumption. }
  rewrite Ex, Ey in HD1.
  rewrite <- (dist_of_point a b c x2 y2 t Hl2) in HD1 by (destruct x2; [cbn [length] in Hn2; lia|discriminate]).
  fold poly in HD1. replace (length x2 - 1)%nat with m in HD1 by (unfold m; lia).
  set (ws := W ROps m (1 - t) t) in *.
  assert (HWl : length ws = S m) by apply (W_length ROps).
  assert (Hxs : length (absc m) = length ws) by (unfold absc; rewrite map_length, seq_length, HWl; reflexivity).
  assert (Hds : length (map Q2R poly) = length ws) by (rewrite map_length, HWl; unfold m; lia).
  assert (Hw : Forall (fun w => 0 <= w) ws) by (apply W_nonneg; lra).
  assert (Hsum : rsum ws = 1) by apply W_rsum.
  assert (Habsc : absc m = map (fun j => INR j / INR m) (seq 0 (length poly))) by (unfold absc; f_equal; f_equal; unfold m; lia).
  assert (HM : 0 < INR m) by (apply lt_0_INR; lia).
  (* every point of the polygon has an index *)
  assert (Hidx : forall p, In p (combine (absc m) (map Q2R poly)) ->
                 exists i, (i <= m)%nat /\ p = (INR i / INR m, Q2R (nth i poly 0%Q))).
  { intros p Hp. rewrite Habsc in Hp. apply (in_combine_seq _ Q2R 0%Q) in Hp. destruct Hp as [i [Hi E]].
    exists i. split; [unfold m; lia|exact E]. }
  assert (Hchord : forall p q l, In p (combine (absc m) (map Q2R poly)) -> In q (combine (absc m) (map Q2R poly)) ->
            l = Q2R lo \/ l = Q2R hi -> snd p <> snd q -> 0 <= (l - snd p) / (snd q - snd p) <= 1 ->
            Q2R smin <= fst p + (l - snd p) / (snd q - snd p) * (fst q - fst p) <= Q2R smax).
  { intros p q l Hp Hq Hl Hne Hu.
    destruct (Hidx p Hp) as [i [Hi ->]]. destruct (Hidx q Hq) as [j [Hj ->]]. cbn [fst snd] in *.
    destruct Hl as [->| ->].
    - apply (chord_R m lo hi poly smin smax Hm Hch i j lo Hi Hj (or_introl eq_refl) Hne Hu).
    - apply (chord_R m lo hi poly smin smax Hm Hch i j hi Hi Hj (or_intror eq_refl) Hne Hu). }
  rewrite <- (linear_precision m t Hm). fold ws.
  split.
  - apply (band_lower_bound (absc m) (map Q2R poly) ws (Q2R lo) (Q2R hi) (Q2R smin) (INR 0 / INR m, Q2R (nth 0 poly 0%Q)));
      try assumption.
    + rewrite Habsc. apply (in_combine_seq' (fun j => INR j / INR m) Q2R 0%Q poly 0 0). lia.
    + intros p Hp. destruct (Hidx p Hp) as [i [Hi ->]]. cbn [fst]. cbn [INR]. unfold Rdiv. rewrite Rmult_0_l.
      apply Rmult_le_pos; [apply pos_INR|]. left. apply Rinv_0_lt_compat. exact HM.
    + cbn [fst snd INR]. intros [A B]. unfold Rdiv. rewrite Rmult_0_l. rewrite <- Q2R_0. apply Qle_Rle. apply H0.
      unfold in_band. apply andb_true_intro. split; apply Qle_bool_iff; apply Rle_Qle; assumption.
    + intros p q l Hp Hq Hl Hne Hu. apply (Hchord p q l Hp Hq Hl Hne Hu).
  - apply (band_upper_bound (absc m) (map Q2R poly) ws (Q2R lo) (Q2R hi) (Q2R smax) (INR m / INR m, Q2R (nth m poly 0%Q)));
      try assumption.
    + rewrite Habsc. apply (in_combine_seq' (fun j => INR j / INR m) Q2R 0%Q poly 0 m). unfold m. lia.
    + intros p Hp. destruct (Hidx p Hp) as [i [Hi ->]]. cbn [fst].
      apply Rmult_le_compat_r; [left; apply Rinv_0_lt_compat; exact HM|]. apply le_INR. exact Hi.
    + cbn [fst snd]. intros [A B]. unfold Rdiv. rewrite Rinv_r by lra. rewrite <- Q2R_1. apply Qle_Rle. apply H1.
      unfold in_band. apply andb_true_intro. split; apply Qle_bool_iff; apply Rle_Qle; assumption.
    + intros p q l Hp Hq Hl Hne Hu. apply (Hchord p q l Hp Hq Hl Hne Hu).
Qed.
