(* C03 / C16: pruning by convex hulls never discards a common point - certified per instance by the computable check hull_ok.
   If simple_convex_hull returns the convex hull of each control net (hull_ok = true: every control point inside, strictly convex,
   counter-clockwise - proved for every sequence on the 4 x 4 lattice, computable for any concrete input) and polygon_collide
   of the two hulls is false, then the two CURVES have no common point: for all real s, t in [0,1].  Every degree. *)
From Coq Require Import List Arith ZArith QArith Qreals Reals Lra Lia Bool.
From Coq Require Lqa.
From BZ Require Import Base.Ops Base.RInst Base.PyVal Model.Curve Model.Hull Model.Clip Theory.CurveEval Theory.CurveEvalExtra
  Theory.HullTheory Theory.HullInside Theory.ClipSpec Theory.ClipHull Theory.ClipSound.
Import ListNotations.
Local Open Scope R_scope.

Lemma rdot_lower lo : forall ws vs, length vs = length ws -> Forall (fun w => 0 <= w) ws ->
  (forall v, In v vs -> lo <= v) -> lo * rsum ws <= rdot ws vs.
Proof.
  induction ws as [|w ws IH]; intros [|v vs] Hl Hw Hv; cbn [length] in Hl; try lia; cbn [rsum rdot]; [lra|].
  inversion Hw as [|? ? Hw1 Hw2]; subst. specialize (IH vs ltac:(lia) Hw2 (fun x Hx => Hv x (or_intror Hx))).
  pose proof (Hv v (or_introl eq_refl)). nra.
Qed.
Lemma rdot_upper hi : forall ws vs, length vs = length ws -> Forall (fun w => 0 <= w) ws ->
  (forall v, In v vs -> v <= hi) -> rdot ws vs <= hi * rsum ws.
Proof.
  induction ws as [|w ws IH]; intros [|v vs] Hl Hw Hv; cbn [length] in Hl; try lia; cbn [rsum rdot]; [lra|].
  inversion Hw as [|? ? Hw1 Hw2]; subst. specialize (IH vs ltac:(lia) Hw2 (fun x Hx => Hv x (or_intror Hx))).
  pose proof (Hv v (or_introl eq_refl)). nra.
Qed.

(* the values of the linear form cross d on the control points, as the net dists (-d2) d1 0 *)
Lemma in_dists_cross (d : pt) : forall xs ys v, length xs = length ys ->
  In v (dists (- snd d) (fst d) 0 xs ys) -> exists c, In c (combine xs ys) /\ (v == cross d c)%Q.
Proof.
  induction xs as [|x xs IH]; intros [|y ys] v Hl Hv; cbn [length] in Hl; try lia; [destruct Hv|].
  unfold dists in Hv. cbn [zipw] in Hv. destruct Hv as [<-|Hv].
  - exists (x, y). split; [left; reflexivity|]. unfold cross. cbn [fst snd]. ring.
  - destruct (IH ys v ltac:(lia) Hv) as [c [Hc E]]. exists c. split; [right; exact Hc|exact E].
Qed.

Section Prune.
Variables (x1 y1 x2 y2 : list Q).
Hypothesis L1 : length x1 = length y1.
Hypothesis L2 : length x2 = length y2.
Hypothesis N1 : x1 <> [].
Hypothesis N2 : x2 <> [].
Let pts1 := combine x1 y1.
Let pts2 := combine x2 y2.

Lemma form_of_point (d : pt) (xs ys : list Q) (t : R) : length xs = length ys -> xs <> [] ->
  rdot (W ROps (length xs - 1) (1 - t) t) (map Q2R (dists (- snd d) (fst d) 0 xs ys))
  = Q2R (fst d) * BR ys t - Q2R (snd d) * BR xs t.
Proof.
  intros Hl Hne. rewrite (dist_of_point (- snd d)%Q (fst d) 0%Q xs ys t Hl Hne). rewrite Q2R_opp. unfold Q2R at 3. cbn. lra.
Qed.

Theorem separated_nets_have_no_common_point (d : pt) (m M : Q) :
  (M < m)%Q -> (forall c, In c pts1 -> (m <= cross d c)%Q) -> (forall c, In c pts2 -> (cross d c <= M)%Q) ->
  forall s t : R, 0 <= s <= 1 -> 0 <= t <= 1 -> ~ (BR x1 s = BR x2 t /\ BR y1 s = BR y2 t).
Proof.
  intros HmM Hlo Hhi s t Hs Ht [Ex Ey].
  set (w1 := W ROps (length x1 - 1) (1 - s) s). set (w2 := W ROps (length x2 - 1) (1 - t) t).
  assert (Hw1 : Forall (fun w => 0 <= w) w1) by (apply W_nonneg; lra).
  assert (Hw2 : Forall (fun w => 0 <= w) w2) by (apply W_nonneg; lra).
  assert (S1 : rsum w1 = 1) by apply W_rsum. assert (S2 : rsum w2 = 1) by apply W_rsum.
  assert (Len1 : length (map Q2R (dists (- snd d) (fst d) 0 x1 y1)) = length w1).
  { rewrite map_length, dists_length by exact L1. unfold w1. rewrite (W_length ROps). destruct x1; [congruence|cbn [length]; lia]. }
  assert (Len2 : length (map Q2R (dists (- snd d) (fst d) 0 x2 y2)) = length w2).
  { rewrite map_length, dists_length by exact L2. unfold w2. rewrite (W_length ROps). destruct x2; [congruence|cbn [length]; lia]. }
  pose proof (rdot_lower (Q2R m) w1 _ Len1 Hw1) as G1.
  pose proof (rdot_upper (Q2R M) w2 _ Len2 Hw2) as G2.
  rewrite S1 in G1. rewrite S2 in G2.
  assert (A1 : Q2R m <= rdot w1 (map Q2R (dists (- snd d) (fst d) 0 x1 y1))).
  { enough (Q2R m * 1 <= rdot w1 (map Q2R (dists (- snd d) (fst d) 0 x1 y1))) by lra. apply G1.
    intros v Hv. apply in_map_iff in Hv. destruct Hv as [q [<- Hq]].
    destruct (in_dists_cross d x1 y1 q L1 Hq) as [c [Hc E]]. apply Qle_Rle. rewrite E. apply Hlo. exact Hc. }
  assert (A2 : rdot w2 (map Q2R (dists (- snd d) (fst d) 0 x2 y2)) <= Q2R M).
  { enough (rdot w2 (map Q2R (dists (- snd d) (fst d) 0 x2 y2)) <= Q2R M * 1) by lra. apply G2.
    intros v Hv. apply in_map_iff in Hv. destruct Hv as [q [<- Hq]].
    destruct (in_dists_cross d x2 y2 q L2 Hq) as [c [Hc E]]. apply Qle_Rle. rewrite E. apply Hhi. exact Hc. }
  unfold w1 in A1. unfold w2 in A2. rewrite (form_of_point d x1 y1 s L1 N1) in A1. rewrite (form_of_point d x2 y2 t L2 N2) in A2.
  rewrite Ex, Ey in A1. apply Qlt_Rlt in HmM. lra.
Qed.

Theorem hull_pruning_is_sound :
  hull_ok pts1 = true -> hull_ok pts2 = true ->
  polygon_collide (simple_convex_hull pts1) (simple_convex_hull pts2) = false ->
  forall s t : R, 0 <= s <= 1 -> 0 <= t <= 1 -> ~ (BR x1 s = BR x2 t /\ BR y1 s = BR y2 t).
Proof.
  intros H1 H2 Hc s t Hs Ht.
  destruct (polygon_collide_false_sound _ _ Hc) as [d [_ Hd]].
  assert (P1 : pts1 <> []) by (unfold pts1; destruct x1; [congruence|destruct y1; [cbn [length] in L1; lia|discriminate]]).
  assert (P2 : pts2 <> []) by (unfold pts2; destruct x2; [congruence|destruct y2; [cbn [length] in L2; lia|discriminate]]).
  destruct (separating_hulls_separate_the_nets pts1 pts2 d P1 P2 H1 H2 Hd) as [[m [M [HmM [Lo Hi]]]]|[m [M [HmM [Lo Hi]]]]].
  - exact (separated_nets_have_no_common_point d m M HmM Lo Hi s t Hs Ht).
  - (* the roles of the two curves exchanged: use the opposite direction *)
    intros [Ex Ey].
    apply (separated_nets_have_no_common_point (- fst d, - snd d)%Q (- M)%Q (- m)%Q) with (s := s) (t := t); try assumption.
    + Lqa.lra.
    + intros c Hc'. specialize (Hi c Hc'). unfold cross in *. cbn [fst snd]. Lqa.lra.
    + intros c Hc'. specialize (Lo c Hc'). unfold cross in *. cbn [fst snd]. Lqa.lra.
    + split; assumption.
Qed.
End Prune.
