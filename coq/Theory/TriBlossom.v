(* Triangular de Casteljau / blossoming at the level of index functions (j,k) |-> node
   (i = degree - j - k implicit).  One round never needs the degree:
     (D w f) j k = w1 * f j k + w2 * f (j+1) k + w3 * f j (k+1).
   Any commutative ring, every degree. *)
From Coq Require Import List Arith Lia Ring.
From BZ Require Import Base.Ops.
Import ListNotations.

Section Blossom3.
Context {T : Type} (K : Ops T) (RT : ring_of K).
Add Ring TR : RT.
Declare Scope t_scope. Delimit Scope t_scope with t.
Notation "0" := (o0 K) : t_scope. Notation "1" := (o1 K) : t_scope.
Infix "+" := (oadd K) : t_scope. Infix "*" := (omul K) : t_scope. Infix "-" := (osub K) : t_scope.
Local Open Scope t_scope.

Definition F := nat -> nat -> T.
Definition W3 := (T * T * T)%type.
Definition D (w : W3) (f : F) : F :=
  fun j k => let '(w1, w2, w3) := w in w1 * f j k + w2 * f (S j) k + w3 * f j (S k).
Fixpoint iterD (w : W3) (n : nat) (f : F) : F :=
  match n with 0%nat => f | S n' => iterD w n' (D w f) end.
(* agreement on the simplex j + k <= n *)
Definition feq (n : nat) (f g : F) : Prop := forall j k, (j + k <= n)%nat -> f j k = g j k.
Definition fext (f g : F) : Prop := forall j k, f j k = g j k.

Lemma D_feq w n f g : feq (S n) f g -> feq n (D w f) (D w g).
Proof.
  intros H j k Hjk. unfold D. destruct w as [[w1 w2] w3].
  rewrite (H j k), (H (S j) k), (H j (S k)) by lia. reflexivity.
Qed.
Lemma D_fext w f g : fext f g -> fext (D w f) (D w g).
Proof. intros H j k. unfold D. destruct w as [[w1 w2] w3]. rewrite !H. reflexivity. Qed.
Lemma iterD_fext w n : forall f g, fext f g -> fext (iterD w n f) (iterD w n g).
Proof. induction n; intros f g H; cbn [iterD]; [exact H|]. apply IHn. apply D_fext. exact H. Qed.
Lemma iterD_feq w : forall n m f g, feq (n + m) f g -> feq m (iterD w n f) (iterD w n g).
Proof.
  induction n; intros m f g H; cbn [iterD]; [exact H|]. apply IHn. apply D_feq.
  replace (S (n + m)) with (S n + m)%nat by lia. exact H.
Qed.

Lemma D_comm u w f : fext (D u (D w f)) (D w (D u f)).
Proof. intros j k. unfold D. destruct u as [[u1 u2] u3], w as [[w1 w2] w3]. ring. Qed.
Lemma iterD_D_comm u w n : forall f, fext (iterD u n (D w f)) (D w (iterD u n f)).
Proof.
  induction n; intros f; cbn [iterD]; [intros j k; reflexivity|].
  intros j k. rewrite <- (IHn (D u f) j k). apply iterD_fext. apply D_comm.
Qed.
Lemma iterD_S_out w n f : fext (iterD w (S n) f) (D w (iterD w n f)).
Proof. cbn [iterD]. apply iterD_D_comm. Qed.
Lemma iterD_comm u w n m : forall f, fext (iterD u n (iterD w m f)) (iterD w m (iterD u n f)).
Proof.
  induction m; intros f; cbn [iterD]; [intros j k; reflexivity|].
  intros j k. rewrite (IHm (D w f) j k). apply iterD_fext. apply iterD_D_comm.
Qed.

(* pointwise linear combination of three functions *)
Definition lin3 (m1 m2 m3 : T) (f g h : F) : F := fun j k => m1 * f j k + m2 * g j k + m3 * h j k.
Definition comb (m1 m2 m3 : T) (a b c : W3) : W3 :=
  let '(a1, a2, a3) := a in let '(b1, b2, b3) := b in let '(c1, c2, c3) := c in
  (m1 * a1 + m2 * b1 + m3 * c1, m1 * a2 + m2 * b2 + m3 * c2, m1 * a3 + m2 * b3 + m3 * c3).
Lemma D_comb m1 m2 m3 a b c f : fext (D (comb m1 m2 m3 a b c) f) (lin3 m1 m2 m3 (D a f) (D b f) (D c f)).
Proof.
  intros j k. unfold D, comb, lin3. destruct a as [[a1 a2] a3], b as [[b1 b2] b3], c as [[c1 c2] c3]. ring.
Qed.
Lemma D_lin3 w m1 m2 m3 f g h : fext (D w (lin3 m1 m2 m3 f g h)) (lin3 m1 m2 m3 (D w f) (D w g) (D w h)).
Proof. intros j k. unfold D, lin3. destruct w as [[w1 w2] w3]. ring. Qed.
Lemma lin3_fext m1 m2 m3 f f' g g' h h' : fext f f' -> fext g g' -> fext h h' ->
  fext (lin3 m1 m2 m3 f g h) (lin3 m1 m2 m3 f' g' h').
Proof. intros Hf Hg Hh j k. unfold lin3. rewrite Hf, Hg, Hh. reflexivity. Qed.
Lemma iterD_lin3 w m1 m2 m3 n : forall f g h,
  fext (iterD w n (lin3 m1 m2 m3 f g h)) (lin3 m1 m2 m3 (iterD w n f) (iterD w n g) (iterD w n h)).
Proof.
  induction n; intros f g h; cbn [iterD]; [intros j k; reflexivity|].
  intros j k. rewrite <- (IHn (D w f) (D w g) (D w h) j k). apply iterD_fext. apply D_lin3.
Qed.

(* the specialised net: node (j,k) (with i = n - j - k) is the blossom value with i copies of a, j of b, k of c *)
Definition L3 (a b c : W3) (n : nat) (f : F) : F :=
  fun j k => iterD a (n - j - k) (iterD b j (iterD c k f)) 0%nat 0%nat.

Lemma L3_step a b c m1 m2 m3 n f :
  feq n (D (m1, m2, m3) (L3 a b c (S n) f)) (L3 a b c n (D (comb m1 m2 m3 a b c) f)).
Proof.
  intros j k Hjk. unfold D at 1. unfold L3.
  (* push the outer round through the three iterations *)
  assert (E : iterD a (n - j - k) (iterD b j (iterD c k (D (comb m1 m2 m3 a b c) f))) 0%nat 0%nat
          = lin3 m1 m2 m3 (iterD a (n - j - k) (iterD b j (iterD c k (D a f))))
                          (iterD a (n - j - k) (iterD b j (iterD c k (D b f))))
                          (iterD a (n - j - k) (iterD b j (iterD c k (D c f)))) 0%nat 0%nat).
  { rewrite <- (iterD_lin3 a m1 m2 m3 (n - j - k) _ _ _ 0%nat 0%nat). apply iterD_fext.
    intros j' k'. rewrite <- (iterD_lin3 b m1 m2 m3 j _ _ _ j' k'). apply iterD_fext.
    intros j'' k''. rewrite <- (iterD_lin3 c m1 m2 m3 k _ _ _ j'' k''). apply iterD_fext.
    apply D_comb. }
  rewrite E. unfold lin3. f_equal; [f_equal|]; f_equal.
  - (* a: one more round with a *)
    replace (S n - j - k)%nat with (S (n - j - k)) by lia.
    rewrite (iterD_S_out a (n - j - k) _ 0%nat 0%nat).
    rewrite <- (iterD_D_comm a a (n - j - k) _ 0%nat 0%nat). apply iterD_fext.
    intros j' k'. rewrite <- (iterD_D_comm b a j _ j' k'). apply iterD_fext.
    intros j'' k''. rewrite <- (iterD_D_comm c a k _ j'' k''). reflexivity.
  - (* b *)
    replace (S n - S j - k)%nat with (n - j - k)%nat by lia.
    apply iterD_fext. intros j' k'. cbn [iterD].
    rewrite (iterD_fext b j _ _ (iterD_D_comm c b k f) j' k'). reflexivity.
  - (* c *)
    replace (S n - j - S k)%nat with (n - j - k)%nat by lia. reflexivity.
Qed.

(* THE BLOSSOMING THEOREM for triangles: evaluating the specialised net at mu by de Casteljau equals
   evaluating the original net at mu1 a + mu2 b + mu3 c.  Every degree n. *)
Theorem tri_blossom a b c m1 m2 m3 : forall n f,
  iterD (m1, m2, m3) n (L3 a b c n f) 0%nat 0%nat = iterD (comb m1 m2 m3 a b c) n f 0%nat 0%nat.
Proof.
  induction n as [|n IH]; intros f.
  - reflexivity.
  - cbn [iterD]. rewrite <- IH.
    apply (iterD_feq (m1, m2, m3) n 0%nat); [|lia].
    rewrite Nat.add_0_r. apply L3_step.
Qed.
End Blossom3.

(* Boundary control points of a specialised net depend only on the two end weights of that side,
   symmetrically: neighbouring pieces of a subdivision therefore share their common boundary. *)
Section SharedEdges.
Context {T : Type} (K : Ops T) (RT : ring_of K).
Theorem edge_i0 a b c n f j k : (j + k = n)%nat ->
  L3 K a b c n f j k = iterD K b j (iterD K c k f) 0%nat 0%nat.
Proof. intros H. unfold L3. replace (n - j - k)%nat with 0%nat by lia. reflexivity. Qed.
Theorem edge_j0 a b c n f k : (k <= n)%nat ->
  L3 K a b c n f 0%nat k = iterD K a (n - k) (iterD K c k f) 0%nat 0%nat.
Proof. intros H. unfold L3. rewrite Nat.sub_0_r. reflexivity. Qed.
Theorem edge_k0 a b c n f j : (j <= n)%nat ->
  L3 K a b c n f j 0%nat = iterD K a (n - j) (iterD K b j f) 0%nat 0%nat.
Proof. intros H. unfold L3. rewrite Nat.sub_0_r. reflexivity. Qed.
Theorem edge_swap u w n m f :
  iterD K u n (iterD K w m f) 0%nat 0%nat = iterD K w m (iterD K u n f) 0%nat 0%nat.
Proof. apply (iterD_comm K RT). Qed.
End SharedEdges.

(* ---- C11: Jacobian nets.  Formal partial derivatives via dual numbers: one de Casteljau round at the
   dual weight (w + eps w') acts on (values f, eps-parts g) as  (D w f, D w g + D w' f).
   For d/ds of B(1-s-t, s, t): w' = (-1, 1, 0), and D w' f (j,k) = f (j+1) k - f j k;
   for d/dt: w' = (-1, 0, 1), D w' f (j,k) = f j (k+1) - f j k. *)
Section Jacobian.
Context {T : Type} (K : Ops T) (RT : ring_of K).
Add Ring TRJ : RT.
Notation "0" := (o0 K). Notation "1" := (o1 K).
Infix "+" := (oadd K). Infix "*" := (omul K). Infix "-" := (osub K).

Fixpoint ofnat (n : nat) : T := match n with O => 0 | S k => ofnat k + 1 end.
Definition fadd (f g : F (T:=T)) : F := fun j k => f j k + g j k.
(* eps-part after n dual rounds, starting from (f, g) *)
Fixpoint epsD (w w' : W3 (T:=T)) (n : nat) (f g : F (T:=T)) : F :=
  match n with
  | O => g
  | S n' => epsD w w' n' (D K w f) (fadd (D K w g) (D K w' f))
  end.

Lemma iterD_fadd w n : forall f g, fext (iterD K w n (fadd f g)) (fadd (iterD K w n f) (iterD K w n g)).
Proof.
  induction n; intros f g; cbn [iterD]; [intros j k; reflexivity|].
  intros j k. rewrite <- (IHn (D K w f) (D K w g) j k). apply iterD_fext.
  intros j' k'. unfold D, fadd. destruct w as [[w1 w2] w3]. ring.
Qed.
Lemma epsD_fext w w' n : forall f f' g g', fext f f' -> fext g g' -> fext (epsD w w' n f g) (epsD w w' n f' g').
Proof.
  induction n; intros f f' g g' Hf Hg; cbn [epsD]; [exact Hg|].
  apply IHn; [apply (D_fext K); exact Hf|].
  intros j k. unfold fadd. rewrite (D_fext K w g g' Hg j k), (D_fext K w' f f' Hf j k). reflexivity.
Qed.

(* the derivative of the degree-n evaluation is n times the degree-(n-1) evaluation of the difference net D w' f *)
Theorem epsD_is_derivative w w' : forall n f g,
  fext (epsD w w' n f g)
       (fadd (iterD K w n g) (fun j k => ofnat n * iterD K w (n - 1) (D K w' f) j k)).
Proof.
  induction n as [|n IH]; intros f g j k.
  - cbn [epsD iterD ofnat]. unfold fadd. ring.
  - cbn [epsD]. rewrite IH. unfold fadd at 1.
    rewrite (iterD_fadd w n (D K w g) (D K w' f) j k). unfold fadd.
    cbn [iterD ofnat]. replace (S n - 1)%nat with n by (destruct n; reflexivity).
    destruct n as [|n].
    + cbn [iterD ofnat Nat.sub]. ring.
    + replace (S n - 1)%nat with n by (cbn; rewrite Nat.sub_0_r; reflexivity).
      rewrite (iterD_fext K w n _ _ (D_comm K RT w' w f) j k).
      change (iterD K w n (D K w (D K w' f)) j k) with (iterD K w (S n) (D K w' f) j k).
      cbn [ofnat]. ring.
Qed.
End Jacobian.
