(* C05: the three corners of a Bezier triangle are interpolated EXACTLY - in any arithmetic in which 0 and 1 behave
   (0*x = 0, 1*x = x, x+0 = x: IEEE-754 on finite values) and in which the running binomial of the evaluator is exact for the
   degree at hand (checked for binary64 up to degree 54: C05_running_binomial_exact_double).  No ring law is used. *)
From Coq Require Import List Arith Lia Ring Field.
From BZ Require Import Base.Ops Model.Curve Model.Triangle Theory.CurveEval Theory.CurveEvalExtra Theory.TriEval.
Import ListNotations.

Section Corners.
Context {T : Type} (K : Ops T).
Notation "0" := (o0 K). Notation "1" := (o1 K).
Infix "+" := (oadd K). Infix "*" := (omul K). Infix "/" := (odiv K).
Hypothesis H : Laws01 K.

(* the running binomial is exact for degree d: b_k = C(d,k) is reproduced by the recurrence of the code *)
Definition binom_exact_in (d : nat) : Prop :=
  forall k, (k < d)%nat -> (ofn K (choose d (S k)) * ofn K (k + 1)) / ofn K (d - k) = ofn K (choose d k).

(* evaluation of a row at (0, 0) *)
Lemma dc_round_00 : forall v, Forall (fun x => x = 0) (dc_round K 0 0 v).
Proof.
  induction v as [|a v IH]; [constructor|]. destruct v as [|b v']; [constructor|].
  change (dc_round K 0 0 (a :: b :: v')) with ((0 * a + 0 * b) :: dc_round K 0 0 (b :: v')).
  constructor; [rewrite !(mul_0_l K H), (add_0_l K H); reflexivity|exact IH].
Qed.
Lemma dc_round_zeros : forall v, Forall (fun x => x = 0) v -> Forall (fun x => x = 0) (dc_round K 0 0 v).
Proof. intros v _. apply dc_round_00. Qed.
Lemma dc_eval_00 : forall fuel v, Forall (fun x => x = 0) v -> dc_eval K fuel 0 0 v = 0.
Proof.
  induction fuel as [|f IH]; intros v Hv; cbn [dc_eval].
  - destruct Hv; [reflexivity|assumption].
  - apply IH. apply dc_round_00.
Qed.
Lemma eval_dc_00 v : (2 <= length v)%nat -> eval_dc K v 0 0 = 0.
Proof.
  intros Hl. unfold eval_dc. destruct (length v - 1)%nat as [|f] eqn:E; [lia|].
  cbn [dc_eval]. apply dc_eval_00. apply dc_round_00.
Qed.
Lemma vs_loop_00 n : forall rest j acc pw2 b, acc = 0 -> vs_loop K n j rest acc pw2 b 0 0 = 0.
Proof.
  induction rest as [|x rest IH]; intros j acc pw2 b Ha; [exact Ha|].
  destruct rest as [|y rest'].
  - cbn [vs_loop]. rewrite Ha, (mul_0_l K H), (mul_0_l K H), (add_0_l K H). reflexivity.
  - rewrite vs_loop_cons. apply IH. apply (mul_0_r K H).
Qed.
Lemma eval_vs_00 v : (2 <= length v)%nat -> eval_vs K v 0 0 = 0.
Proof.
  intros Hl. destruct v as [|v0 [|v1 rest]]; cbn [length] in Hl; try lia.
  cbn [eval_vs]. apply vs_loop_00. apply (mul_0_l K H).
Qed.
Lemma eval_bary_00 thr v : (2 <= length v)%nat -> eval_bary K thr v 0 0 = 0.
Proof. intros Hl. unfold eval_bary. destruct (Nat.ltb thr (length v)); [apply eval_dc_00|apply eval_vs_00]; exact Hl. Qed.

Variables (thr d : nat).
Hypothesis Hb : binom_exact_in d.

Lemma ofn_1 : ofn K 1 = 1.
Proof. cbn [ofn]. apply (add_0_l K H). Qed.

(* rows still to process, as in tri_loop: head has index k1 - 1 and at least two entries *)
Inductive Rows : nat -> list (list T) -> Prop :=
| R_nil : Rows 0 []
| R_cons k r rs : (k < d)%nat -> (2 <= length r)%nat -> Rows k rs -> Rows (S k) (r :: rs).

(* corner (1,0,0): the first node of the bottom row *)
Lemma tri_loop_100 : forall k1 rows, Rows k1 rows -> forall res,
  (k1 = d -> True) ->
  tri_loop K thr d k1 rows (ofn K (choose d k1)) res 1 0 0
  = match rows with [] => res | _ => hd 0 (last rows []) end.
Proof.
  induction 1 as [|k r rs Hk Hl Hrows IH]; intros res _; [reflexivity|].
  cbn [tri_loop]. rewrite (Hb k Hk).
  rewrite (eval_bary_at_0 K H thr r) by (destruct r; [cbn [length] in Hl; lia|discriminate]).
  rewrite (mul_0_r K H), (add_0_l K H).
  rewrite IH by trivial.
  destruct rs as [|r' rs'].
  - inversion Hrows; subst. rewrite choose_0, ofn_1, (mul_1_l K H). reflexivity.
  - reflexivity.
Qed.
(* corner (0,1,0): the last node of the bottom row *)
Lemma tri_loop_010 : forall k1 rows, Rows k1 rows -> forall res,
  tri_loop K thr d k1 rows (ofn K (choose d k1)) res 0 1 0
  = match rows with [] => res | _ => last (last rows []) 0 end.
Proof.
  induction 1 as [|k r rs Hk Hl Hrows IH]; intros res; [reflexivity|].
  cbn [tri_loop]. rewrite (Hb k Hk).
  rewrite (eval_bary_at_1 K H thr r) by (destruct r; [cbn [length] in Hl; lia|discriminate]).
  rewrite (mul_0_r K H), (add_0_l K H).
  rewrite IH.
  destruct rs as [|r' rs'].
  - inversion Hrows; subst. rewrite choose_0, ofn_1, (mul_1_l K H). reflexivity.
  - reflexivity.
Qed.
(* corner (0,0,1): the single node of the top row (no exactness of the binomial needed) *)
Lemma tri_loop_001 : forall k1 rows, Rows k1 rows -> forall b res, tri_loop K thr d k1 rows b res 0 0 1 = res.
Proof.
  induction 1 as [|k r rs Hk Hl Hrows IH]; intros b res; [reflexivity|].
  cbn [tri_loop]. rewrite (eval_bary_00 thr r Hl), (mul_0_r K H), (mul_1_r K H), (add_0_r K H). apply IH.
Qed.

Lemma rows_of_lengths : forall rest k1, length rest = k1 -> (k1 <= d)%nat ->
  (forall m, (m < k1)%nat -> length (nth m rest []) = (d - (k1 - 1 - m) + 1)%nat) -> Rows k1 rest.
Proof.
  induction rest as [|r rest IH]; intros k1 Hl Hk Hrow; cbn [length] in Hl; subst k1; [constructor|].
  constructor.
  - lia.
  - specialize (Hrow 0%nat ltac:(lia)). cbn [nth] in Hrow. rewrite Hrow. lia.
  - apply IH; [reflexivity|lia|]. intros m Hm. specialize (Hrow (S m) ltac:(lia)). cbn [nth] in Hrow.
    rewrite Hrow. f_equal. lia.
Qed.

Theorem tri_eval_corners v : (1 <= d)%nat -> length v = tri_size d ->
  tri_eval K thr d v 1 0 0 = hd 0 v /\ tri_eval K thr d v 0 1 0 = nth d v 0 /\ tri_eval K thr d v 0 0 1 = last v 0.
Proof.
  intros Hd Hv.
  assert (Hwf : well_formed d (split_rows (S d) v)) by (apply split_rows_well_formed; rewrite tri_num_size; exact Hv).
  destruct Hwf as [Hlen Hrow].
  unfold tri_eval, tri_eval_rows.
  destruct (rev (split_rows (S d) v)) as [|top rest] eqn:Er.
  { apply (f_equal (@length _)) in Er. rewrite rev_length, Hlen in Er. discriminate. }
  assert (Hrows : split_rows (S d) v = rev rest ++ [top]).
  { rewrite <- (rev_involutive (split_rows (S d) v)), Er. reflexivity. }
  assert (Hrest : length rest = d).
  { apply (f_equal (@length _)) in Er. rewrite rev_length, Hlen in Er. cbn [length] in Er. lia. }
  assert (Hnth : forall m, (m < d)%nat -> nth m rest [] = nth (d - 1 - m) (split_rows (S d) v) []).
  { intros m Hm. rewrite Hrows. rewrite app_nth1 by (rewrite rev_length; lia). rewrite rev_nth by lia. f_equal. lia. }
  assert (Hok : Rows d rest).
  { apply rows_of_lengths; [exact Hrest|lia|]. intros m Hm. rewrite Hnth, Hrow by lia. lia. }
  assert (Hone : 1 = ofn K (choose d d)) by (rewrite choose_nn, ofn_1; reflexivity).
  assert (Hlast : last rest [] = firstn (S d) v).
  { destruct rest as [|r0 rest0] eqn:E; [cbn [length] in Hrest; lia|]. rewrite <- E in *.
    assert (Hl : last rest [] = nth (d - 1) rest []).
    { clear -Hrest Hd. revert d Hrest Hd. induction rest as [|a l IH]; intros d0 Hl Hd0; [cbn [length] in Hl; lia|].
      destruct l as [|b l']; [cbn [length] in Hl; subst; reflexivity|].
      change (last (a :: b :: l') []) with (last (b :: l') []). cbn [length] in Hl.
      rewrite (IH (d0 - 1)%nat) by (cbn [length]; lia). replace (d0 - 1)%nat with (S (d0 - 1 - 1)) at 2 by lia. reflexivity. }
    rewrite Hl, Hnth by lia. replace (d - 1 - (d - 1))%nat with 0%nat by lia. reflexivity. }
  assert (Hv1 : (S d <= length v)%nat).
  { rewrite Hv. unfold tri_size. assert (2 * (S d) <= (d + 1) * (d + 2))%nat by nia. apply Nat.div_le_lower_bound; lia. }
  repeat split.
  - rewrite Hone at 1. rewrite (tri_loop_100 d rest Hok _ (fun _ => I)).
    destruct rest as [|r0 rest0]; [cbn [length] in Hrest; lia|]. rewrite Hlast.
    destruct v as [|a v']; [cbn [length] in Hv1; lia|]. reflexivity.
  - rewrite Hone at 1. rewrite (tri_loop_010 d rest Hok).
    destruct rest as [|r0 rest0]; [cbn [length] in Hrest; lia|]. rewrite Hlast.
    clear -Hv1. revert v Hv1. induction d as [|n IH]; intros v Hl.
    + destruct v as [|a v']; [cbn [length] in Hl; lia|]. reflexivity.
    + destruct v as [|a v']; [cbn [length] in Hl; lia|]. cbn [length] in Hl.
      change (firstn (S (S n)) (a :: v')) with (a :: firstn (S n) v'). cbn [nth].
      rewrite <- (IH v') by lia. destruct (firstn (S n) v') eqn:E; [|reflexivity].
      destruct v'; [cbn [length] in Hl; lia|discriminate].
  - rewrite (tri_loop_001 d rest Hok).
    (* top = the last row = the last element of v *)
    assert (Htop : top = nth d (split_rows (S d) v) []).
    { rewrite Hrows, app_nth2 by (rewrite rev_length; lia). rewrite rev_length, Hrest, Nat.sub_diag. reflexivity. }
    assert (Hvlast : forall m (w : list T), length w = tri_num (S m) -> hd 0 (nth m (split_rows (S m) w) []) = last w 0).
    { induction m as [|m IH]; intros w Hw.
      - cbn [tri_num] in Hw. destruct w as [|a [|? ?]]; cbn [length] in Hw; try lia. reflexivity.
      - change (split_rows (S (S m)) w) with (firstn (S (S m)) w :: split_rows (S m) (skipn (S (S m)) w)). cbn [nth].
        rewrite IH by (rewrite skipn_length; cbn [tri_num] in Hw |- *; lia).
        rewrite <- (firstn_skipn (S (S m)) w) at 2.
        assert (Hne : skipn (S (S m)) w <> []).
        { intro E. apply (f_equal (@length _)) in E. rewrite skipn_length in E. cbn [tri_num length] in Hw, E. lia. }
        assert (Happ : forall (a b : list T), b <> [] -> last b 0 = last (a ++ b) 0).
        { intros a b Hnb. induction a as [|x a IHa]; [reflexivity|]. cbn [app]. destruct (a ++ b) eqn:E.
          { destruct a; cbn [app] in E; [contradiction|discriminate]. }
          change (last (x :: t :: l) 0) with (last (t :: l) 0). exact IHa. }
        apply Happ. exact Hne. }
    rewrite Htop. apply Hvlast. rewrite tri_num_size. exact Hv.
Qed.
End Corners.

(* the exactness hypothesis holds in every field of characteristic 0 (for binary64 it is the computation
   C05_running_binomial_exact_double, degrees 1..54) *)
Section FieldInstance.
Context {T : Type} (K : Ops T) (FT : field_of K) (C0 : char0 K).
Add Field TFC : FT.
Lemma binom_exact_in_field d : binom_exact_in K d.
Proof.
  intros k Hk. replace (k + 1)%nat with (S k) by lia.
  pose proof (choose_step d k) as Hs.
  rewrite <- (ofn_mul K (F_R FT) (choose d (S k)) (S k)), Hs, (ofn_mul K (F_R FT)).
  destruct (d - k)%nat as [|m] eqn:E; [lia|]. field. apply C0.
Qed.
End FieldInstance.
