(* C12 (area): shoelace_for_area with the triples and scale factors read from the source equals the Green boundary
   integral 1/2 int_0^1 (x y' - y x') ds of the Bezier edge, for ALL real nets of edge degree 1..4; every other
   degree raises. *)
From Coq Require Import List Arith Lia QArith Reals Qreals Field.
From BZ Require Import Base.Ops Base.RInst Model.Curve Model.CurvePy Model.Triangle Model.TrianglePy Model.AreaPoly Gen.PyTriangleHelpers.
Import ListNotations.

Ltac area_tac :=
  intros; unfold shoelace_gen;
  match goal with |- context [lookup ?n ?tbl] =>
    let r := eval vm_compute in (lookup n tbl) in change (lookup n tbl) with r end;
  cbv beta iota; f_equal; unfold green_edge, shoelace_sum, curve_poly, bern_poly, pint01, psub;
  cbn -[Rplus Rmult Rminus Rdiv Q2R Rinv]; unfold Q2R; cbn [Qnum Qden to_nat Z.to_nat];
  repeat match goal with |- context [Pos.to_nat ?p] => let v := eval vm_compute in (Pos.to_nat p) in change (Pos.to_nat p) with v end;
  cbn [nth]; field.

Lemma shoelace_green_1 x0 x1 y0 y1 : shoelace_gen ROps Q2R [x0; x1] [y0; y1] = Some (green_edge ROps [x0; x1] [y0; y1]).
Proof. area_tac. Qed.
Lemma shoelace_green_2 x0 x1 x2 y0 y1 y2 :
  shoelace_gen ROps Q2R [x0; x1; x2] [y0; y1; y2] = Some (green_edge ROps [x0; x1; x2] [y0; y1; y2]).
Proof. area_tac. Qed.
Lemma shoelace_green_3 x0 x1 x2 x3 y0 y1 y2 y3 :
  shoelace_gen ROps Q2R [x0; x1; x2; x3] [y0; y1; y2; y3] = Some (green_edge ROps [x0; x1; x2; x3] [y0; y1; y2; y3]).
Proof. area_tac. Qed.
Lemma shoelace_green_4 x0 x1 x2 x3 x4 y0 y1 y2 y3 y4 :
  shoelace_gen ROps Q2R [x0; x1; x2; x3; x4] [y0; y1; y2; y3; y4] = Some (green_edge ROps [x0; x1; x2; x3; x4] [y0; y1; y2; y3; y4]).
Proof. area_tac. Qed.

Theorem shoelace_is_green_integral (vx vy : list R) : length vx = length vy -> (2 <= length vx <= 5)%nat ->
  shoelace_gen ROps Q2R vx vy = Some (green_edge ROps vx vy).
Proof.
  intros Hl [H2 H5].
  destruct vx as [|x0 [|x1 [|x2 [|x3 [|x4 [|? ?]]]]]]; simpl in H2, H5; try lia;
  destruct vy as [|y0 [|y1 [|y2 [|y3 [|y4 [|? ?]]]]]]; simpl in Hl; try discriminate.
  - apply shoelace_green_1.
  - apply shoelace_green_2.
  - apply shoelace_green_3.
  - apply shoelace_green_4.
Qed.

Theorem shoelace_supported_iff {T} (K : Ops T) (emb : Q -> T) (vx vy : list T) :
  shoelace_gen K emb vx vy <> None <-> (2 <= length vx <= 5)%nat.
Proof.
  unfold shoelace_gen.
  destruct vx as [|x0 [|x1 [|x2 [|x3 [|x4 [|x5 v]]]]]]; cbn [length].
  1,2: (split; [intros H; exfalso; apply H; reflexivity | lia]).
  1,2,3,4: (split; [lia | intros _; discriminate]).
  split; [intros H; exfalso; apply H|lia]. reflexivity.
Qed.

(* the area of a closed chain of edges is the sum of the edge integrals (compute_area) *)
Theorem compute_area_is_sum (edges : list (list R * list R)) :
  Forall (fun e => length (fst e) = length (snd e) /\ (2 <= length (fst e) <= 5)%nat) edges ->
  compute_area_gen ROps Q2R edges = Some (fold_right (fun e acc => (green_edge ROps (fst e) (snd e) + acc)%R) 0%R edges).
Proof.
  induction edges as [|[vx vy] edges IH]; intros H; [reflexivity|].
  inversion H as [|? ? [Hl Hr] Hrest]; subst. cbn [compute_area_gen fst snd] in *.
  rewrite (shoelace_is_green_integral vx vy Hl Hr), (IH Hrest). reflexivity.
Qed.
