(* C13: soundness of polynomial_sign ACROSS subdivision levels.
   Part A (this section): for any predicate Pos on nets such that (1) a net whose coefficients are all positive is Pos and
   (2) a net all of whose four sub-nets are Pos is Pos, the loop of polynomial_sign (hand model, corresponded) answers +1 only
   for nets that are Pos.  Symmetrically for -1.  Every fuel, every list of pending pieces, every set of collected signs. *)
From Coq Require Import List Arith ZArith QArith Qcanon Bool Lia.
From BZ Require Import Base.Ops Base.QcInst Model.Curve Model.CurvePy Model.Triangle Model.TrianglePy Model.AreaPoly.
Import ListNotations.

Section Abstract.
Variable d : nat.
Variable WF : list Qc -> Prop.
Variable Pos : list Qc -> Prop.
Variable one : Z.     (* the sign under consideration: 1 or -1 *)
Hypothesis one_nz : one <> 0%Z.
Hypothesis decided_pos : forall p, WF p -> forallb (fun x => Z.eqb (sgn x) one) p = true -> Pos p.
Hypothesis sub_wf : forall p, WF p -> Forall WF (tri_subdivide_py d p).
Hypothesis cover : forall p, WF p -> Forall Pos (tri_subdivide_py d p) -> Pos p.

Lemma add_sign_in s signs : In s (add_sign s signs).
Proof.
  unfold add_sign. destruct (existsb (Z.eqb s) signs) eqn:E; [|left; reflexivity].
  apply existsb_exists in E. destruct E as [x [Hx Hs]]. apply Z.eqb_eq in Hs. subst. exact Hx.
Qed.
Lemma add_sign_incl s signs : incl signs (add_sign s signs).
Proof. unfold add_sign. destruct (existsb (Z.eqb s) signs); [apply incl_refl|apply incl_tl, incl_refl]. Qed.
Lemma fold_add_incl cs : forall signs, incl signs (fold_left (fun acc c => add_sign (sgn c) acc) cs signs).
Proof.
  induction cs as [|c cs IH]; intros signs; [apply incl_refl|]. cbn [fold_left].
  eapply incl_tran; [apply add_sign_incl|apply IH].
Qed.

(* the verdict of one piece *)
Definition verdict (p : list Qc) : option Z :=
  if forallb (fun x => Qc_eqb x (Q2Qc 0)) p then Some 0%Z
  else if forallb (fun x => Z.eqb (sgn x) 1) p then Some 1%Z
  else if forallb (fun x => Z.eqb (sgn x) (-1)) p then Some (-1)%Z
  else None.

Lemma sign_pass_spec : forall polys signs und signs' und',
  sign_pass d polys signs und = Some (signs', und') ->
  incl signs signs' /\
  (forall p, In p und -> In p und') /\
  (forall p, In p polys -> match verdict p with Some s => In s signs' | None => In p und' end) /\
  (forall p, In p und' -> In p und \/ In p polys).
Proof.
  induction polys as [|p rest IH]; intros signs und signs' und' H.
  - cbn [sign_pass] in H. injection H as H1 H2. subst. split; [apply incl_refl|]. split; [|split].
    + intros p Hp. apply in_rev in Hp. exact Hp.
    + intros p [].
    + intros p Hp. left. apply in_rev. exact Hp.
  - cbn [sign_pass] in H.
    set (signs1 := fold_left (fun acc c => add_sign (sgn c) acc) [nth 0 p (Q2Qc 0); nth d p (Q2Qc 0); last p (Q2Qc 0)] signs) in *.
    assert (H01 : incl signs signs1) by apply fold_add_incl.
    unfold verdict.
    destruct (forallb (fun x => Qc_eqb x (Q2Qc 0)) p) eqn:E0;
      [| destruct (forallb (fun x => Z.eqb (sgn x) 1) p) eqn:E1;
         [| destruct (forallb (fun x => Z.eqb (sgn x) (-1)) p) eqn:E2]].
    all: match type of H with (if ?c then _ else _) = _ => destruct c; [discriminate|] end.
    all: destruct (IH _ _ _ _ H) as [I1 [I2 [I3 I4]]].
    all: split; [eapply incl_tran; [exact H01|]; eapply incl_tran; [|exact I1]; first [apply add_sign_incl | apply incl_refl]|].
    all: split; [intros q Hq; apply I2; first [exact Hq | right; exact Hq]|].
    all: split.
    all: try (intros q [Hq|Hq]; [subst q | exact (I3 q Hq)]).
    + unfold verdict. rewrite E0. apply I1. apply add_sign_in.
    + intros q Hq. destruct (I4 q Hq) as [Hu|Hr]; [left; exact Hu|right; right; exact Hr].
    + unfold verdict. rewrite E0, E1. apply I1. apply add_sign_in.
    + intros q Hq. destruct (I4 q Hq) as [Hu|Hr]; [left; exact Hu|right; right; exact Hr].
    + unfold verdict. rewrite E0, E1, E2. apply I1. apply add_sign_in.
    + intros q Hq. destruct (I4 q Hq) as [Hu|Hr]; [left; exact Hu|right; right; exact Hr].
    + unfold verdict. rewrite E0, E1, E2. apply I2. left. reflexivity.
    + intros q Hq. destruct (I4 q Hq) as [[Hu|Hu]|Hr]; [right; left; exact Hu|left; exact Hu|right; right; exact Hr].
Qed.

Lemma loop_signs : forall fuel polys signs, polynomial_sign_loop fuel d polys signs = SignIs one -> incl signs [one].
Proof.
  induction fuel as [|f IH]; intros polys signs H; cbn [polynomial_sign_loop] in H.
  - destruct polys; [|discriminate]. destruct signs as [|s [|? ?]]; try discriminate. injection H as H. subst. apply incl_refl.
  - destruct (sign_pass d polys signs []) as [[signs' und]|] eqn:Es.
    2:{ injection H as H. symmetry in H. contradiction. }
    destruct (sign_pass_spec _ _ _ _ _ Es) as [I1 _].
    destruct (flat_map (fun p => tri_subdivide_py d p) und) as [|n0 next] eqn:En.
    + destruct signs' as [|s [|? ?]]; try discriminate. injection H as H. subst. exact I1.
    + eapply incl_tran; [exact I1|]. apply (IH _ _ H).
Qed.

Lemma verdict_one p : verdict p = Some one -> forallb (fun x => Z.eqb (sgn x) one) p = true.
Proof.
  unfold verdict. destruct (forallb (fun x => Qc_eqb x (Q2Qc 0)) p); [intros H; injection H as H; symmetry in H; contradiction|].
  destruct (forallb (fun x => Z.eqb (sgn x) 1) p) eqn:E1; [intros H; injection H as H; subst; exact E1|].
  destruct (forallb (fun x => Z.eqb (sgn x) (-1)) p) eqn:E2; [intros H; injection H as H; subst; exact E2|discriminate].
Qed.

Theorem loop_sound : forall fuel polys signs, Forall WF polys ->
  polynomial_sign_loop fuel d polys signs = SignIs one -> Forall Pos polys.
Proof.
  induction fuel as [|f IH]; intros polys signs Hwf H.
  - cbn [polynomial_sign_loop] in H. destruct polys; [constructor|discriminate].
  - pose proof (loop_signs _ _ _ H) as Hs0. cbn [polynomial_sign_loop] in H.
    destruct (sign_pass d polys signs []) as [[signs' und]|] eqn:Es.
    2:{ injection H as H. symmetry in H. contradiction. }
    destruct (sign_pass_spec _ _ _ _ _ Es) as [I1 [_ [I3 I4]]].
    assert (Hund : Forall WF und).
    { apply Forall_forall. intros q Hq. destruct (I4 q Hq) as [[]|Hq']. rewrite Forall_forall in Hwf. apply Hwf. exact Hq'. }
    assert (Hsigns' : incl signs' [one] /\ Forall Pos und).
    { destruct (flat_map (fun p => tri_subdivide_py d p) und) as [|n0 next] eqn:En.
      - split.
        + destruct signs' as [|s [|? ?]]; try discriminate. injection H as H. subst. apply incl_refl.
        + apply Forall_forall. intros q Hq. rewrite Forall_forall in Hund. apply cover; [apply Hund; exact Hq|].
          assert (Hnil : tri_subdivide_py d q = []).
          { destruct (tri_subdivide_py d q) eqn:Eq; [reflexivity|].
            assert (Hin : In l (flat_map (fun p => tri_subdivide_py d p) und)) by (apply in_flat_map; exists q; split; [exact Hq|rewrite Eq; left; reflexivity]).
            rewrite En in Hin. destruct Hin. }
          rewrite Hnil. constructor.
      - split; [exact (loop_signs _ _ _ H)|].
        assert (Hnext : Forall WF (n0 :: next)).
        { rewrite <- En. apply Forall_forall. intros x Hx. apply in_flat_map in Hx. destruct Hx as [q [Hq Hx]].
          rewrite Forall_forall in Hund. pose proof (sub_wf q (Hund q Hq)) as Hw. rewrite Forall_forall in Hw. apply Hw. exact Hx. }
        pose proof (IH _ _ Hnext H) as Hpos. rewrite <- En in Hpos.
        apply Forall_forall. intros q Hq. rewrite Forall_forall in Hund. apply cover; [apply Hund; exact Hq|].
        apply Forall_forall. intros x Hx. rewrite Forall_forall in Hpos. apply Hpos. apply in_flat_map. exists q. split; assumption. }
    destruct Hsigns' as [Hs' Hpu].
    apply Forall_forall. intros p Hp. specialize (I3 p Hp).
    destruct (verdict p) as [s|] eqn:Ev.
    + assert (s = one) by (destruct (Hs' s I3) as [E|[]]; symmetry; exact E). subst s.
      rewrite Forall_forall in Hwf. apply decided_pos; [apply Hwf; exact Hp|apply verdict_one; exact Ev].
    + rewrite Forall_forall in Hpu. apply Hpu. exact I3.
Qed.

Corollary polynomial_sign_sound poly : WF poly -> polynomial_sign_py poly d = SignIs one -> Pos poly.
Proof.
  intros Hw H. unfold polynomial_sign_py in H.
  pose proof (loop_sound _ [poly] [] ltac:(constructor; [exact Hw|constructor]) H) as HF. inversion HF; assumption.
Qed.
End Abstract.
