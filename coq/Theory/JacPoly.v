(* C13: quadratic_/cubic_jacobian_polynomial (tables regenerated from the source) return the Bernstein net
   (degree 2 resp. 4) of det J = x_s y_t - x_t y_s, for ALL real nets: symbolic identity closed by `field`. *)
From Coq Require Import List Arith QArith Reals Qreals Field.
From BZ Require Import Base.Ops Base.RInst Model.Curve Model.CurvePy Model.Triangle Model.TrianglePy Model.AreaPoly Gen.PyTriangleHelpers.
Import ListNotations.

Ltac jac_tac tbl :=
  intros; unfold quadratic_jacobian_polynomial_gen, cubic_jacobian_polynomial_gen, jac_poly_gen;
  let r := eval vm_compute in tbl in change tbl with r;
  unfold tri_bernstein, bernstein, jac_s, jac_t;
  cbn -[Rplus Rmult Rminus Rdiv Q2R Rinv]; unfold Q2R; cbn [Qnum Qden]; field.

(* det of the Jacobian of the planar triangle (vx, vy) of degree d at Cartesian (s, t), from the derivative nets *)
Definition det_jacobian (d : nat) (vx vy : list R) (s t : R) : R :=
  (tri_bernstein ROps (d - 1) (jac_s ROps d vx) (1 - s - t)%R s t * tri_bernstein ROps (d - 1) (jac_t ROps d vy) (1 - s - t)%R s t
   - tri_bernstein ROps (d - 1) (jac_t ROps d vx) (1 - s - t)%R s t * tri_bernstein ROps (d - 1) (jac_s ROps d vy) (1 - s - t)%R s t)%R.

Theorem quadratic_jacobian_polynomial_correct v0 v1 v2 v3 v4 v5 w0 w1 w2 w3 w4 w5 s t :
  tri_bernstein ROps 2 (quadratic_jacobian_polynomial_gen ROps Q2R [v0; v1; v2; v3; v4; v5] [w0; w1; w2; w3; w4; w5]) (1 - s - t)%R s t
  = det_jacobian 2 [v0; v1; v2; v3; v4; v5] [w0; w1; w2; w3; w4; w5] s t.
Proof. unfold det_jacobian. cbn [Nat.sub]. jac_tac quadratic_jacobian_polynomial_tables. Qed.

Theorem cubic_jacobian_polynomial_correct v0 v1 v2 v3 v4 v5 v6 v7 v8 v9 w0 w1 w2 w3 w4 w5 w6 w7 w8 w9 s t :
  tri_bernstein ROps 4 (cubic_jacobian_polynomial_gen ROps Q2R [v0; v1; v2; v3; v4; v5; v6; v7; v8; v9] [w0; w1; w2; w3; w4; w5; w6; w7; w8; w9]) (1 - s - t)%R s t
  = det_jacobian 3 [v0; v1; v2; v3; v4; v5; v6; v7; v8; v9] [w0; w1; w2; w3; w4; w5; w6; w7; w8; w9] s t.
Proof. unfold det_jacobian. cbn [Nat.sub]. jac_tac cubic_jacobian_polynomial_tables. Qed.
