(* C12: the area computed from the boundary does not depend on where the shape sits: translating every edge of a CLOSED chain
   of Bezier edges (degrees 1..4, the supported ones) by one vector leaves the sum of the Green edge integrals unchanged.
   One edge alone is not invariant: its integral changes by (a (y_end - y_start) - b (x_end - x_start)) / 2, and these terms
   telescope around a closed boundary.  Real control nets. *)
From Coq Require Import List Arith Lia QArith Reals Qreals Field Lra.
From BZ Require Import Base.Ops Base.RInst Model.Curve Model.AreaPoly.
Import ListNotations.
Open Scope R_scope.

Ltac green_tac :=
  intros; unfold green_edge, curve_poly, bern_poly, pint01, psub;
  cbn -[Rplus Rmult Rminus Rdiv Rinv]; field.

Lemma green_translate_1 a b x0 x1 y0 y1 :
  green_edge ROps [a + x0; a + x1] [b + y0; b + y1]
  = green_edge ROps [x0; x1] [y0; y1] + (a * (y1 - y0) - b * (x1 - x0)) / 2.
Proof. green_tac. Qed.
Lemma green_translate_2 a b x0 x1 x2 y0 y1 y2 :
  green_edge ROps [a + x0; a + x1; a + x2] [b + y0; b + y1; b + y2]
  = green_edge ROps [x0; x1; x2] [y0; y1; y2] + (a * (y2 - y0) - b * (x2 - x0)) / 2.
Proof. green_tac. Qed.
Lemma green_translate_3 a b x0 x1 x2 x3 y0 y1 y2 y3 :
  green_edge ROps [a + x0; a + x1; a + x2; a + x3] [b + y0; b + y1; b + y2; b + y3]
  = green_edge ROps [x0; x1; x2; x3] [y0; y1; y2; y3] + (a * (y3 - y0) - b * (x3 - x0)) / 2.
Proof. green_tac. Qed.
Lemma green_translate_4 a b x0 x1 x2 x3 x4 y0 y1 y2 y3 y4 :
  green_edge ROps [a + x0; a + x1; a + x2; a + x3; a + x4] [b + y0; b + y1; b + y2; b + y3; b + y4]
  = green_edge ROps [x0; x1; x2; x3; x4] [y0; y1; y2; y3; y4] + (a * (y4 - y0) - b * (x4 - x0)) / 2.
Proof. green_tac. Qed.

Definition edge := (list R * list R)%type.
Definition ok_edge (e : edge) : Prop := length (fst e) = length (snd e) /\ (2 <= length (fst e) <= 5)%nat.
Definition start_pt (e : edge) : R * R := (hd 0 (fst e), hd 0 (snd e)).
Definition end_pt (e : edge) : R * R := (last (fst e) 0, last (snd e) 0).
Definition shift (a b : R) (e : edge) : edge := (map (Rplus a) (fst e), map (Rplus b) (snd e)).

Theorem green_translate (a b : R) (e : edge) : ok_edge e ->
  green_edge ROps (fst (shift a b e)) (snd (shift a b e))
  = green_edge ROps (fst e) (snd e)
    + (a * (snd (end_pt e) - snd (start_pt e)) - b * (fst (end_pt e) - fst (start_pt e))) / 2.
Proof.
  destruct e as [vx vy]. intros [Hl [H2 H5]]. cbn [fst snd] in *.
  destruct vx as [|x0 [|x1 [|x2 [|x3 [|x4 [|? ?]]]]]]; simpl in H2, H5; try lia;
  destruct vy as [|y0 [|y1 [|y2 [|y3 [|y4 [|? ?]]]]]]; simpl in Hl; try discriminate;
  unfold shift, start_pt, end_pt; cbn [fst snd map hd last].
  - apply green_translate_1.
  - apply green_translate_2.
  - apply green_translate_3.
  - apply green_translate_4.
Qed.

(* a chain of edges from p to q: every edge starts where the previous one ended *)
Inductive chain : R * R -> list edge -> R * R -> Prop :=
| chain_nil p : chain p [] p
| chain_cons e rest p q : start_pt e = p -> chain (end_pt e) rest q -> chain p (e :: rest) q.

Definition area_sum (edges : list edge) : R := fold_right (fun e acc => green_edge ROps (fst e) (snd e) + acc) 0 edges.

Lemma area_sum_shift_chain a b : forall edges p q, Forall ok_edge edges -> chain p edges q ->
  area_sum (map (shift a b) edges) = area_sum edges + (a * (snd q - snd p) - b * (fst q - fst p)) / 2.
Proof.
  induction edges as [|e rest IH]; intros p q Hok Hc.
  - inversion Hc; subst. cbn [map area_sum fold_right]. field.
  - inversion Hc as [|? ? ? ? Hs Hrest]; subst. inversion Hok as [|? ? He Hok']; subst.
    cbn [map area_sum fold_right]. fold (area_sum (map (shift a b) rest)). fold (area_sum rest).
    rewrite (IH _ _ Hok' Hrest). rewrite (green_translate a b e He). field.
Qed.

(* a closed boundary: the area is translation invariant *)
Theorem closed_boundary_area_is_translation_invariant a b edges p :
  Forall ok_edge edges -> chain p edges p -> area_sum (map (shift a b) edges) = area_sum edges.
Proof. intros Hok Hc. rewrite (area_sum_shift_chain a b edges p p Hok Hc). field. Qed.
