(* C13, final composition: the model of Triangle.is_valid (degrees 2 and 3) answers True only if det J > 0 at EVERY
   point of the closed reference triangle, and False with a definite negative sign only if det J < 0 everywhere. *)
From Coq Require Import List Arith ZArith QArith Qcanon Reals Qreals Bool Lia Lra.
From BZ Require Import Base.Ops Base.QcInst Base.RInst Model.Curve Model.CurvePy Model.Triangle Model.TrianglePy Model.AreaPoly
  Gen.PyTriangleHelpers Theory.JacPoly Theory.Hom Theory.SignSound Theory.SignSoundR Corr.Common Corr.C13.
Import ListNotations.

Lemma Qc2R_sub x y : Qc2R (x - y)%Qc = (Qc2R x - Qc2R y)%R.
Proof.
  unfold Qcminus, Qcopp. rewrite (hom_add _ _ _ Qc2R_hom). cbn [oadd ROps]. rewrite Qc2R_Q2Qc.
  unfold Qc2R. rewrite Q2R_opp. lra.
Qed.
Lemma Qc2R_div x q : ~ (q == 0)%Q -> Qc2R (x / Q2Qc q)%Qc = (Qc2R x / Q2R q)%R.
Proof.
  intros Hq. unfold Qcdiv, Qcinv. rewrite (hom_mul _ _ _ Qc2R_hom). cbn [omul ROps]. rewrite Qc2R_Q2Qc.
  cbn [this Q2Qc]. rewrite Q2R_inv by (rewrite Qred_correct; exact Hq).
  rewrite (Qeq_eqR _ _ (Qred_correct q)). reflexivity.
Qed.

Lemma jac_poly_hom tables vx vy : ~ (snd tables == 0)%Q ->
  map Qc2R (jac_poly_gen QcOps Q2Qc tables vx vy) = jac_poly_gen ROps Q2R tables (map Qc2R vx) (map Qc2R vy).
Proof.
  destruct tables as [[helper conv] factor]. cbn [snd]. intros Hf. unfold jac_poly_gen.
  rewrite map_map.
  rewrite <- !(tcols_gen_hom helper), <- (tcols_gen_hom conv), <- !(matvec_hom QcOps ROps Qc2R Qc2R_hom).
  set (px := matvec QcOps vx (tcols_gen Q2Qc helper)). set (py := matvec QcOps vy (tcols_gen Q2Qc helper)).
  assert (Hd : forall px py,
    map Qc2R ((fix go (px py : list Qc) : list Qc :=
       match px, py with a :: b :: px', c :: d :: py' => (omul QcOps a d - omul QcOps b c)%Qc :: go px' py' | _, _ => [] end) px py)
    = (fix go (px py : list R) : list R :=
       match px, py with a :: b :: px', c :: d :: py' => (a * d - b * c)%R :: go px' py' | _, _ => [] end) (map Qc2R px) (map Qc2R py)).
  { fix IH 1. intros [|a [|b px']] py'; try reflexivity. destruct py' as [|c [|dd py'']]; try reflexivity.
    cbn [map]. rewrite Qc2R_sub, !(hom_mul _ _ _ Qc2R_hom). cbn [omul ROps]. f_equal. apply IH. }
  cbn [osub omul odiv QcOps ROps] in *.
  rewrite <- Hd, <- (matvec_hom QcOps ROps Qc2R Qc2R_hom), map_map.
  apply map_ext. intros x. apply Qc2R_div. exact Hf.
Qed.

Theorem is_valid_quadratic_sound vx vy : length vx = 6%nat -> length vy = 6%nat ->
  is_valid_py 2 vx vy = Some true ->
  forall s t : R, (0 <= s)%R -> (0 <= t)%R -> (s + t <= 1)%R -> (0 < det_jacobian 2 (map Qc2R vx) (map Qc2R vy) s t)%R.
Proof.
  intros Hx Hy H s t Hs Ht Hst. cbn [is_valid_py] in H.
  destruct (polynomial_sign_py (quadratic_jacobian_polynomial_gen QcOps Q2Qc vx vy) 2) as [z| |] eqn:Ep; try discriminate.
  injection H as H. apply Z.eqb_eq in H. subst z.
  assert (Hlen : length (quadratic_jacobian_polynomial_gen QcOps Q2Qc vx vy) = tri_size 2).
  { unfold quadratic_jacobian_polynomial_gen, jac_poly_gen.
    match goal with |- context [quadratic_jacobian_polynomial_tables] =>
      let r := eval vm_compute in quadratic_jacobian_polynomial_tables in change quadratic_jacobian_polynomial_tables with r end.
    cbv beta iota. rewrite map_length. unfold matvec. rewrite map_length. vm_compute. reflexivity. }
  pose proof (polynomial_sign_positive_sound 2 _ ltac:(lia) Hlen Ep (1 - s - t)%R s t ltac:(unfold in_tri; lra)) as Hp.
  unfold quadratic_jacobian_polynomial_gen in Hp.
  rewrite jac_poly_hom in Hp by (vm_compute; discriminate).
  do 6 (destruct vx as [|? vx]; [discriminate|]). destruct vx; [|discriminate].
  do 6 (destruct vy as [|? vy]; [discriminate|]). destruct vy; [|discriminate].
  cbn [map] in *. fold (quadratic_jacobian_polynomial_gen ROps Q2R) in Hp.
  rewrite quadratic_jacobian_polynomial_correct in Hp. exact Hp.
Qed.

Theorem is_valid_cubic_sound vx vy : length vx = 10%nat -> length vy = 10%nat ->
  is_valid_py 3 vx vy = Some true ->
  forall s t : R, (0 <= s)%R -> (0 <= t)%R -> (s + t <= 1)%R -> (0 < det_jacobian 3 (map Qc2R vx) (map Qc2R vy) s t)%R.
Proof.
  intros Hx Hy H s t Hs Ht Hst. cbn [is_valid_py] in H.
  destruct (polynomial_sign_py (cubic_jacobian_polynomial_gen QcOps Q2Qc vx vy) 4) as [z| |] eqn:Ep; try discriminate.
  injection H as H. apply Z.eqb_eq in H. subst z.
  assert (Hlen : length (cubic_jacobian_polynomial_gen QcOps Q2Qc vx vy) = tri_size 4).
  { unfold cubic_jacobian_polynomial_gen, jac_poly_gen.
    match goal with |- context [cubic_jacobian_polynomial_tables] =>
      let r := eval vm_compute in cubic_jacobian_polynomial_tables in change cubic_jacobian_polynomial_tables with r end.
    cbv beta iota. rewrite map_length. unfold matvec. rewrite map_length. vm_compute. reflexivity. }
  pose proof (polynomial_sign_positive_sound 4 _ ltac:(lia) Hlen Ep (1 - s - t)%R s t ltac:(unfold in_tri; lra)) as Hp.
  unfold cubic_jacobian_polynomial_gen in Hp.
  rewrite jac_poly_hom in Hp by (vm_compute; discriminate).
  do 10 (destruct vx as [|? vx]; [discriminate|]). destruct vx; [|discriminate].
  do 10 (destruct vy as [|? vy]; [discriminate|]). destruct vy; [|discriminate].
  cbn [map] in *. fold (cubic_jacobian_polynomial_gen ROps Q2R) in Hp.
  rewrite cubic_jacobian_polynomial_correct in Hp. exact Hp.
Qed.
