(* The loop `for p in result: add_intersection(p, unique)` as a fold: keep p unless it repeats something already kept.
   Generic facts: nothing is invented (the output is a sub-list of the input in order of first occurrence), nothing is
   reported twice (no kept element repeats an earlier kept one), and everything dropped repeats something kept. *)
From Coq Require Import List Bool Lia.
Import ListNotations.

Section Uniq.
Context {A : Type} (dup : A -> A -> bool).
Definition ustep (acc : list A) (p : A) : list A := if existsb (dup p) acc then acc else acc ++ [p].
Definition uniq_by (l : list A) : list A := fold_left ustep l [].

Lemma ustep_incl acc p q : In q (ustep acc p) -> In q acc \/ q = p.
Proof.
  unfold ustep. destruct (existsb (dup p) acc); [left; assumption|].
  intros H. apply in_app_or in H. destruct H as [H|[H|[]]]; [left; exact H|right; symmetry; exact H].
Qed.
Lemma fold_incl : forall l acc q, In q (fold_left ustep l acc) -> In q acc \/ In q l.
Proof.
  induction l as [|p l IH]; intros acc q H; cbn [fold_left] in H; [left; exact H|].
  destruct (IH _ _ H) as [H1|H1]; [|right; right; exact H1].
  destruct (ustep_incl _ _ _ H1) as [H2|H2]; [left; exact H2|right; left; symmetry; exact H2].
Qed.
Theorem uniq_by_incl l q : In q (uniq_by l) -> In q l.
Proof. intros H. destruct (fold_incl l [] q H) as [[]|H1]. exact H1. Qed.

(* no kept element repeats an EARLIER kept element *)
Definition norepeat (acc : list A) : Prop := forall l1 p l2, acc = l1 ++ p :: l2 -> existsb (dup p) l1 = false.
Lemma norepeat_step acc p : norepeat acc -> norepeat (ustep acc p).
Proof.
  intros Hn. unfold ustep. destruct (existsb (dup p) acc) eqn:E; [exact Hn|].
  intros l1 q l2 Heq.
  destruct (exists_last (l := q :: l2) ltac:(discriminate)) as [l2' [z Hz]].
  rewrite Hz in Heq. rewrite app_assoc in Heq. apply app_inj_tail in Heq. destruct Heq as [Hacc Hp].
  destruct l2' as [|q' l2''].
  - (* q is the new element *)
    cbn [app] in Hz. injection Hz as Hq Hl2. rewrite app_nil_r in Hacc. rewrite <- Hacc, Hq, <- Hp. exact E.
  - cbn [app] in Hz. injection Hz as Hq Hl2. apply (Hn l1 q l2''). rewrite Hacc, Hq. reflexivity.
Qed.
Lemma fold_norepeat : forall l acc, norepeat acc -> norepeat (fold_left ustep l acc).
Proof. induction l as [|p l IH]; intros acc H; cbn [fold_left]; [exact H|]. apply IH, norepeat_step, H. Qed.
Theorem uniq_by_norepeat l : norepeat (uniq_by l).
Proof. apply fold_norepeat. intros [|x l1] p l2 H; discriminate H. Qed.

(* every input element is kept or repeats a kept one *)
Lemma ustep_mono acc p q : In q acc -> In q (ustep acc p).
Proof. unfold ustep. destruct (existsb (dup p) acc); [tauto|]. intros H. apply in_or_app. left. exact H. Qed.
Lemma fold_mono : forall l acc q, In q acc -> In q (fold_left ustep l acc).
Proof. induction l as [|p l IH]; intros acc q H; cbn [fold_left]; [exact H|]. apply IH, ustep_mono, H. Qed.
Lemma fold_covers : forall l acc q, In q l -> In q (fold_left ustep l acc) \/ exists e, In e (fold_left ustep l acc) /\ dup q e = true.
Proof.
  induction l as [|p l IH]; intros acc q H; [destruct H|]. cbn [fold_left]. destruct H as [<-|H]; [|apply IH, H].
  assert (Hs : (existsb (dup p) acc = true /\ ustep acc p = acc) \/ (existsb (dup p) acc = false /\ ustep acc p = acc ++ [p])).
  { unfold ustep. destruct (existsb (dup p) acc); [left|right]; split; reflexivity. }
  destruct Hs as [[E Hs]|[E Hs]]; rewrite Hs.
  - right. apply existsb_exists in E. destruct E as [e [He Hd]]. exists e. split; [apply fold_mono, He|exact Hd].
  - left. apply fold_mono. apply in_or_app. right. left. reflexivity.
Qed.
Theorem uniq_by_covers l q : In q l -> In q (uniq_by l) \/ exists e, In e (uniq_by l) /\ dup q e = true.
Proof. apply fold_covers. Qed.
End Uniq.
