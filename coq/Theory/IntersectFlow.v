(* C02 (range half) / C20 (case split): every parameter pair that the geometric pipeline can record passes through one
   of the functions below, REGENERATED from geometric_intersection.py with the array-level helpers as uninterpreted
   oracles.  Whatever the oracles return, what is recorded lies in [0,1]^2. *)
From Coq Require Import List ZArith QArith Qabs Qminmax Bool String Lia Lqa Qfield.
From BZ Require Import Base.PyVal Gen.PyFnHelpers Gen.PyFnGeometric Gen.PyFnIntersect Theory.Predicates.
Import ListNotations.
Open Scope Q_scope.
Open Scope string_scope.

Definition in_unit (v : val) : Prop := exists r, v = VQ r /\ 0 <= r <= 1.

(* ---- wiggle_interval with the default wiggle: if it reports success the value is a number of [0,1], whatever came in ---- *)
Lemma wiggle_default_success (x : val) :
  truth (vnot (vidx (py_wiggle_interval_default x) 1)) = false -> in_unit (vidx (py_wiggle_interval_default x) 0).
Proof.
  unfold py_wiggle_interval_default, py_wiggle_interval.
  destruct x as [v| | | | | | |]; vsimp; try (cbn; discriminate).
  set (w := 1 # 17592186044416).
  destruct (Qltb (- w) v) eqn:E1; destruct (Qltb v w) eqn:E2; vsimp;
  destruct (Qle_bool w v) eqn:E3; destruct (Qle_bool v (1 - w)) eqn:E4; vsimp;
  destruct (Qltb (1 - w) v) eqn:E5; destruct (Qltb v (1 + w)) eqn:E6; vsimp;
  intros H; try discriminate; qprops; subst w;
  (eexists; split; [reflexivity|]); try lra.
Qed.

(* ---- from_linearized: whatever the oracles (convex_hull_collide, full_newton) return, an emitted pair is in [0,1]^2 ---- *)
Ltac split_ifs :=
  repeat match goal with
  | |- context [if truth ?c then _ else _] => let E := fresh "E" in destruct (truth c) eqn:E
  end.
Theorem from_linearized_emits_in_unit o_chc o_newton first second ints e rest :
  py_from_linearized o_chc o_newton first second ints = VTup (e :: rest) ->
  rest = [] /\ exists a b, e = VTup [VEnum "emit_add_intersection"; a; b; ints] /\ in_unit a /\ in_unit b.
Proof.
  unfold py_from_linearized. cbv zeta. split_ifs; intros H; try discriminate;
  unfold vcons in H; inversion H; subst; clear H; (split; [reflexivity|]);
  (eexists; eexists; split; [reflexivity|]); split;
  match goal with
  | Hs : truth (vnot (vidx (py_wiggle_interval_default ?x) 1)) = false |- in_unit (vidx (py_wiggle_interval_default ?x) 0) =>
      exact (wiggle_default_success x Hs)
  end.
Qed.

(* ---- endpoint_check / tangent_bbox_intersection: the recorded parameters are end points of the sub-curves ---- *)
Definition sub_rec (nodes orig : val) (a b : Q) : val :=
  VRec [("nodes", nodes); ("original_nodes", orig); ("start", VQ a); ("end", VQ b)].
Lemma endpoint_check_emits o_vc n1 o1 a1 b1 nf n2 o2 a2 b2 ns s t ints :
  (s == 0 \/ s == 1) -> (t == 0 \/ t == 1) -> 0 <= a1 <= 1 -> 0 <= b1 <= 1 -> 0 <= a2 <= 1 -> 0 <= b2 <= 1 ->
  py_endpoint_check o_vc (sub_rec n1 o1 a1 b1) nf (VQ s) (sub_rec n2 o2 a2 b2) ns (VQ t) ints = VNone \/
  exists p q, py_endpoint_check o_vc (sub_rec n1 o1 a1 b1) nf (VQ s) (sub_rec n2 o2 a2 b2) ns (VQ t) ints
              = VTup [VTup [VEnum "emit_add_intersection"; VQ p; VQ q; ints]] /\ 0 <= p <= 1 /\ 0 <= q <= 1.
Proof.
  intros Hs Ht Ha1 Hb1 Ha2 Hb2. unfold py_endpoint_check, sub_rec. cbv zeta.
  destruct (truth (o_vc nf ns)); [|left; reflexivity]. right.
  cbn [vattr assoc_val String.eqb Ascii.eqb Bool.eqb vadd vmul vsub vsub_b vcons].
  eexists. eexists. split; [reflexivity|].
  destruct Hs as [Hs|Hs]; destruct Ht as [Ht|Ht]; rewrite Hs, Ht; split; lra.
Qed.

(* ---- check_lines: two exact lines.  Every reported parameter lies in [0,1]. ---- *)
Definition lin_rec (x0 y0 x1 y1 err : Q) (curve : val) : val :=
  VRec [("__class__", VEnum "Linearization"); ("start_node", V2 x0 y0); ("end_node", V2 x1 y1); ("error", VQ err); ("curve", curve)].

(* shape of the result of parallel_lines_parameters on a non-degenerate first segment *)
Lemma parallel_lines_shape x0 y0 x1 y1 x2 y2 x3 y3 :
  ~ (x1 - x0) * (x1 - x0) + (y1 - y0) * (y1 - y0) == 0 ->
  py_parallel_lines_parameters (V2 x0 y0) (V2 x1 y1) (V2 x2 y2) (V2 x3 y3) = VTup [VB true; VNone] \/
  exists ss es st et, py_parallel_lines_parameters (V2 x0 y0) (V2 x1 y1) (V2 x2 y2) (V2 x3 y3) = VTup [VB false; params ss es st et].
Proof.
  intros Hn. remember (py_parallel_lines_parameters (V2 x0 y0) (V2 x1 y1) (V2 x2 y2) (V2 x3 y3)) as r eqn:H0.
  unfold py_parallel_lines_parameters, py_cross_product in H0. vsimp_in H0.
  destruct (Qeqb (x0 * (y1 - y0) - y0 * (x1 - x0)) (x2 * (y1 - y0) - y2 * (x1 - x0))) eqn:Ecol; vsimp_in H0; [|left; exact H0].
  assert (En : Qeqb ((x1 - x0) * (x1 - x0) + ((y1 - y0) * (y1 - y0) + 0)) 0 = false).
  { apply Qeqb_neq. intro G. apply Hn. rewrite <- G. ring. }
  rewrite !En in H0. vsimp_in H0.
  set (a := ((x2 - x0) * (x1 - x0) + ((y2 - y0) * (y1 - y0) + 0)) / ((x1 - x0) * (x1 - x0) + ((y1 - y0) * (y1 - y0) + 0))) in *.
  set (b := ((x3 - x0) * (x1 - x0) + ((y3 - y0) * (y1 - y0) + 0)) / ((x1 - x0) * (x1 - x0) + ((y1 - y0) * (y1 - y0) + 0))) in *.
  clearbody a b. clear En Ecol Hn.
  break_ifs H0; try (left; exact H0); try (right; unfold params; eexists; eexists; eexists; eexists; exact H0);
  (* the remaining leaves divide by a difference that the branch conditions make non-zero *)
  exfalso; qprops; lra.
Qed.

Theorem check_lines_intersection_in_unit x0 y0 x1 y1 x2 y2 x3 y3 c1 c2 s t :
  py_check_lines (lin_rec x0 y0 x1 y1 0 c1) (lin_rec x2 y2 x3 y3 0 c2)
    = VTup [VB true; VTup [VTup [VTup [VQ s]; VTup [VQ t]]; VB false]] ->
  0 <= s <= 1 /\ 0 <= t <= 1.
Proof.
  intros Hres. unfold py_check_lines, lin_rec in Hres. cbv zeta in Hres.
  cbn [vattr assoc_val String.eqb Ascii.eqb Bool.eqb veq vand vnot truth negb] in Hres.
  change (Qeqb 0 0) with true in Hres. cbn [vand vnot truth negb] in Hres.
  destruct (segment_intersection_spec x0 y0 x1 y1 x2 y2 x3 y3) as [Hpar Hnon].
  destruct (Qeq_dec ((x1 - x0) * (y3 - y2) - (y1 - y0) * (x3 - x2)) 0) as [Ec|Ec].
  - rewrite (Hpar Ec) in Hres. cbn [vidx nth truth] in Hres.
    destruct (truth (vidx (py_parallel_lines_parameters (V2 x0 y0) (V2 x1 y1) (V2 x2 y2) (V2 x3 y3)) 0)); discriminate.
  - destruct (Hnon Ec) as [s' [t' [Hs _]]]. rewrite Hs in Hres. cbn [vidx nth truth] in Hres.
    rewrite !in_interval_spec in Hres. cbn [vand] in Hres.
    destruct (Qle_bool 0 s' && Qle_bool s' 1) eqn:E1; cbn [truth] in Hres; [|discriminate].
    destruct (Qle_bool 0 t' && Qle_bool t' 1) eqn:E2; cbn [truth] in Hres; [|discriminate].
    inversion Hres; subst. qprops. split; split; assumption.
Qed.

Theorem check_lines_coincident_in_unit x0 y0 x1 y1 x2 y2 x3 y3 c1 c2 ss es st et :
  ~ (x1 - x0) * (x1 - x0) + (y1 - y0) * (y1 - y0) == 0 ->
  py_check_lines (lin_rec x0 y0 x1 y1 0 c1) (lin_rec x2 y2 x3 y3 0 c2) = VTup [VB true; VTup [params ss es st et; VB true]] ->
  0 <= ss <= 1 /\ 0 <= es <= 1 /\ 0 <= st <= 1 /\ 0 <= et <= 1 /\ st <= et.
Proof.
  intros Hn Hres. unfold py_check_lines, lin_rec in Hres. cbv zeta in Hres.
  cbn [vattr assoc_val String.eqb Ascii.eqb Bool.eqb veq vand vnot truth negb] in Hres.
  change (Qeqb 0 0) with true in Hres. cbn [vand vnot truth negb] in Hres.
  destruct (segment_intersection_spec x0 y0 x1 y1 x2 y2 x3 y3) as [Hpar Hnon].
  destruct (Qeq_dec ((x1 - x0) * (y3 - y2) - (y1 - y0) * (x3 - x2)) 0) as [Ec|Ec].
  - rewrite (Hpar Ec) in Hres. cbn [vidx nth truth] in Hres.
    destruct (parallel_lines_shape x0 y0 x1 y1 x2 y2 x3 y3 Hn) as [Hp|[ss' [es' [st' [et' Hp]]]]]; rewrite Hp in Hres;
      cbn [vidx nth truth] in Hres; [discriminate|].
    unfold params in Hres. inversion Hres; subst.
    destruct (parallel_lines_shared_segment x0 y0 x1 y1 x2 y2 x3 y3 ss es st et Hn Hp) as [a [b [_ [_ [H1 [H2 [H3 [H4 [H5 _]]]]]]]]].
    repeat split; tauto.
  - destruct (Hnon Ec) as [s' [t' [Hs _]]]. rewrite Hs in Hres. cbn [vidx nth truth] in Hres.
    rewrite !in_interval_spec in Hres. cbn [vand] in Hres.
    destruct (Qle_bool 0 s' && Qle_bool s' 1); cbn [truth] in Hres; [|discriminate].
    destruct (Qle_bool 0 t' && Qle_bool t' 1); cbn [truth] in Hres; discriminate.
Qed.

(* ---- coincident_parameters: whatever the oracles do, the result is None or two columns whose entries are 0, 1 or
   values returned by locate_point; hence in [0,1] as soon as locate_point only returns None or numbers of [0,1] ---- *)
Definition locate_ok (o_locate : val -> val -> val) : Prop :=
  forall x y, o_locate x y = VNone \/ in_unit (o_locate x y).
Theorem coincident_parameters_in_unit o_msd o_loc o_spec o_vc n1 n2 :
  locate_ok o_loc ->
  py_coincident_parameters o_msd o_loc o_spec o_vc n1 n2 = VNone \/
  exists a b c d, py_coincident_parameters o_msd o_loc o_spec o_vc n1 n2 = VTup [VTup [a; b]; VTup [c; d]] /\
                  in_unit a /\ in_unit b /\ in_unit c /\ in_unit d.
Proof.
  intros Hloc. unfold py_coincident_parameters. cbv zeta.
  set (m1 := vidx (o_msd n1 n2) 0). set (m2 := vidx (o_msd n1 n2) 1).
  assert (U0 : in_unit (VQ 0)) by (exists 0; split; [reflexivity|lra]).
  assert (U1 : in_unit (VQ 1)) by (exists 1; split; [reflexivity|lra]).
  destruct (Hloc m1 (vcol m2 0)) as [Esi|Usi]; destruct (Hloc m1 (vcol_last m2)) as [Esf|Usf];
  destruct (Hloc m2 (vcol m1 0)) as [Eti|Uti]; destruct (Hloc m2 (vcol_last m1)) as [Etf|Utf];
  try rewrite Esi; try rewrite Esf; try rewrite Eti; try rewrite Etf;
  try (destruct Usi as [si [Esi Hsi]]; rewrite Esi); try (destruct Usf as [sf [Esf Hsf]]; rewrite Esf);
  try (destruct Uti as [ti [Eti Hti]]; rewrite Eti); try (destruct Utf as [tf [Etf Htf]]; rewrite Etf);
  cbn [vne veq vand vnot truth negb Bool.eqb];
  split_ifs; try (left; reflexivity);
  right; eexists; eexists; eexists; eexists; (split; [reflexivity|]);
  repeat split; try assumption; try (eexists; split; [reflexivity|]; assumption).
Qed.

(* ---- coincident_parameters: a reported shared segment passed the closeness check on exactly the reported sub-arcs ----
   Whatever the oracles answer: if the function returns ((s0, t0), (s1, t1)) then vector_close was asked about, and accepted,
   the pair (specialize(curve1, s0, s1) or curve1 itself when (s0, s1) = (0, 1)) vs (specialize(curve2, t0, t1) or curve2 itself
   when (t0, t1) = (0, 1)), where curve1, curve2 are the nets returned by make_same_degree. *)
Theorem coincident_result_passed_the_closeness_check o_msd o_loc o_spec o_vc n1 n2 s0 t0 s1 t1 :
  py_coincident_parameters o_msd o_loc o_spec o_vc n1 n2 = VTup [VTup [s0; t0]; VTup [s1; t1]] ->
  let m1 := vidx (o_msd n1 n2) 0 in let m2 := vidx (o_msd n1 n2) 1 in
  (t0 = VQ 0 /\ t1 = VQ 1 /\ truth (o_vc (o_spec m1 s0 s1) m2) = true) \/
  (s0 = VQ 0 /\ s1 = VQ 1 /\ truth (o_vc m1 (o_spec m2 t0 t1)) = true) \/
  truth (o_vc (o_spec m1 s0 s1) (o_spec m2 t0 t1)) = true.
Proof.
  unfold py_coincident_parameters. cbv zeta.
  set (m1 := vidx (o_msd n1 n2) 0). set (m2 := vidx (o_msd n1 n2) 1).
  intros H.
  repeat match type of H with
  | context [if truth ?c then _ else _] => let E := fresh "E" in destruct (truth c) eqn:E
  end; try discriminate H; injection H as <- <- <- <-; auto.
Qed.
