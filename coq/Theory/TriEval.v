(* C05: triangle evaluation = bivariate Bernstein definition; edges are restrictions. Every degree. *)
From Coq Require Import List Arith Lia Ring Field.
From BZ Require Import Base.Ops Model.Curve Model.Triangle Theory.CurveEval.
Import ListNotations.

(* d!/(i! j! k!) = C(d,k) * C(d-k,j) *)
Lemma choose_fact : forall n k, k <= n -> choose n k * (fact k * fact (n - k)) = fact n.
Proof.
  induction n as [|n IH]; intros k Hk.
  - assert (k = 0) by lia. subst. reflexivity.
  - destruct k as [|k].
    + rewrite choose_0. cbn [fact Nat.sub]. lia.
    + cbn [choose]. destruct (Nat.eq_dec k n) as [->|Hne].
      * rewrite (choose_gt n (S n)) by lia. rewrite choose_nn. replace (S n - S n) with 0 by lia. cbn [fact]. lia.
      * pose proof (IH k ltac:(lia)) as H1. pose proof (IH (S k) ltac:(lia)) as H2.
        replace (S n - S k) with (n - k) by lia.
        replace (n - k) with (S (n - S k)) in * by lia.
        cbn [fact] in *. nia.
Qed.
Theorem multinomial i j k :
  choose (i + j + k) k * choose (i + j) j * (fact i * fact j * fact k) = fact (i + j + k).
Proof.
  pose proof (choose_fact (i + j + k) k ltac:(lia)) as H1.
  pose proof (choose_fact (i + j) j ltac:(lia)) as H2.
  replace (i + j + k - k) with (i + j) in H1 by lia. replace (i + j - j) with i in H2 by lia. nia.
Qed.

Section TriFacts.
Context {T : Type} (K : Ops T) (FT : field_of K) (C0 : char0 K).
Add Field TF : FT.
Let RT : ring_of K := F_R FT.
Declare Scope t_scope. Delimit Scope t_scope with t.
Notation "0" := (o0 K) : t_scope. Notation "1" := (o1 K) : t_scope.
Infix "+" := (oadd K) : t_scope. Infix "*" := (omul K) : t_scope.
Infix "-" := (osub K) : t_scope. Infix "/" := (odiv K) : t_scope.
Local Open Scope t_scope.

(* sum over rows given highest-first: rs = [row_(k-1); ...; row_0] *)
Fixpoint rsum (d k : nat) (rs : list (list T)) (l1 l2 l3 : T) : T :=
  match rs, k with
  | r :: rs', S k' => ofn K (choose d k') * pw K l3 k' * bernstein K r l1 l2 + rsum d k' rs' l1 l2 l3
  | _, _ => 0
  end.

Lemma tri_loop_inv thr d l1 l2 l3 : forall rs k res,
  length rs = k -> (k <= d)%nat -> Forall (fun r => (2 <= length r)%nat) rs ->
  tri_loop K thr d k rs (ofn K (choose d k)) res l1 l2 l3 = res * pw K l3 k + rsum d k rs l1 l2 l3.
Proof.
  induction rs as [|r rs IH]; intros k res Hl Hk Hr.
  - simpl in Hl. subst k. cbn [tri_loop rsum pw]. ring.
  - destruct k as [|k]; [discriminate|]. cbn [length] in Hl. injection Hl as Hl.
    inversion Hr as [|? ? Hr1 Hr2]; subst.
    cbn [tri_loop].
    assert (Hb : ofn K (choose d (S (length rs))) * ofn K (length rs + 1) / ofn K (d - length rs) = ofn K (choose d (length rs))).
    { pose proof (choose_step d (length rs)) as Hs.
      replace (length rs + 1)%nat with (S (length rs)) by lia.
      rewrite <- (ofn_mul K RT), Hs, (ofn_mul K RT). field.
      replace (d - length rs)%nat with (S (d - S (length rs))) by lia. apply C0. }
    rewrite Hb. rewrite IH by (auto; lia).
    rewrite (eval_bary_correct K FT C0) by (left; exact Hr1).
    cbn [rsum pw]. ring.
Qed.

Lemma tsum_app d l1 l2 l3 : forall rows k r,
  tsum K d k (rows ++ [r]) l1 l2 l3
  = tsum K d k rows l1 l2 l3 + ofn K (choose d (k + length rows)) * pw K l3 (k + length rows) * bernstein K r l1 l2.
Proof.
  induction rows as [|x rows IH]; intros k r; cbn [app tsum length].
  - rewrite Nat.add_0_r. ring.
  - rewrite IH. replace (S k + length rows)%nat with (k + S (length rows))%nat by lia. ring.
Qed.

Lemma rsum_rev d l1 l2 l3 : forall rows,
  rsum d (length rows) (rev rows) l1 l2 l3 = tsum K d 0 rows l1 l2 l3.
Proof.
  intros rows. induction rows as [|r rows IH] using rev_ind; [reflexivity|].
  rewrite rev_app_distr, app_length. cbn [rev app length].
  replace (length rows + 1)%nat with (S (length rows)) by lia. cbn [rsum].
  rewrite IH, tsum_app. cbn [Nat.add]. ring.
Qed.

(* rows of a well-formed degree-d net: row k has d+1-k entries *)
Definition well_formed (d : nat) (rows : list (list T)) : Prop :=
  length rows = S d /\ forall k, (k <= d)%nat -> length (nth k rows []) = (S d - k)%nat.

Theorem tri_eval_rows_correct thr d rows l1 l2 l3 : well_formed d rows ->
  tri_eval_rows K thr d rows l1 l2 l3 = tsum K d 0 rows l1 l2 l3.
Proof.
  intros [Hlen Hrow]. unfold tri_eval_rows.
  destruct (rev rows) as [|top rest] eqn:Er.
  - apply (f_equal (@length _)) in Er. rewrite rev_length, Hlen in Er. discriminate.
  - assert (Hrows : rows = rev rest ++ [top]).
    { rewrite <- (rev_involutive rows), Er. reflexivity. }
    assert (Hrest : length rest = d).
    { apply (f_equal (@length _)) in Er. rewrite rev_length, Hlen in Er. cbn [length] in Er. lia. }
    assert (Htop : length top = 1%nat).
    { specialize (Hrow d ltac:(lia)). rewrite Hrows in Hrow.
      rewrite app_nth2 in Hrow by (rewrite rev_length; lia).
      rewrite rev_length, Hrest, Nat.sub_diag in Hrow. cbn [nth] in Hrow. lia. }
    assert (Hge : Forall (fun r => (2 <= length r)%nat) rest).
    { apply Forall_forall. intros r Hin. apply In_nth with (d := []) in Hin. destruct Hin as [m [Hm Hr]].
      assert (Hrr : nth m rest [] = nth (d - 1 - m) rows []).
      { rewrite Hrows. rewrite app_nth1 by (rewrite rev_length; lia).
        rewrite rev_nth by lia. f_equal. lia. }
      rewrite <- Hr, Hrr. rewrite Hrow by lia. lia. }
    assert (H1 : 1 = ofn K (choose d d)) by (rewrite choose_nn; cbn [ofn]; ring).
    rewrite H1 at 1.
    rewrite (tri_loop_inv thr d l1 l2 l3 rest d (hd 0 top)) by (auto; lia).
    rewrite Hrows, tsum_app. rewrite rev_length, Hrest. cbn [Nat.add].
    rewrite <- (rsum_rev d l1 l2 l3 (rev rest)). rewrite rev_length, Hrest, rev_involutive.
    destruct top as [|t0 [|? ?]]; simpl in Htop; try lia.
    rewrite choose_nn. unfold bernstein. cbn [length bsum hd Nat.sub pw].
    change (choose 0 0) with 1%nat. cbn [ofn]. ring.
Qed.

(* ---- split_rows of a flat list of the right size is well formed ---- *)
Lemma split_rows_length {A} : forall len (v : list A), length (split_rows len v) = len.
Proof. induction len; intros v; cbn [split_rows length]; [reflexivity|]. rewrite IHlen. reflexivity. Qed.

Fixpoint tri_num (len : nat) : nat := match len with 0%nat => 0%nat | S l => (S l + tri_num l)%nat end.
Lemma split_rows_nth {A} : forall len (v : list A) k, length v = tri_num len -> (k < len)%nat ->
  length (nth k (split_rows len v) []) = (len - k)%nat.
Proof.
  induction len as [|l IH]; intros v k Hv Hk; [lia|].
  cbn [split_rows]. destruct k as [|k].
  - cbn [nth]. rewrite firstn_length. cbn [tri_num] in Hv. lia.
  - cbn [nth]. rewrite IH; [lia | | lia]. rewrite skipn_length. cbn [tri_num] in Hv. lia.
Qed.
Lemma split_rows_well_formed d (v : list T) : length v = tri_num (S d) -> well_formed d (split_rows (S d) v).
Proof.
  intros Hv. split; [apply split_rows_length|]. intros k Hk. apply split_rows_nth; [exact Hv|lia].
Qed.
Lemma tri_num_size d : tri_num (S d) = tri_size d.
Proof.
  unfold tri_size. induction d as [|d IH]; [reflexivity|].
  change (tri_num (S (S d))) with (S (S d) + tri_num (S d))%nat. rewrite IH.
  replace ((S d + 1) * (S d + 2))%nat with ((d + 1) * (d + 2) + (S (S d)) * 2)%nat by lia.
  rewrite Nat.div_add by lia. lia.
Qed.

(* C05, evaluation clause: every degree, every net with (d+1)(d+2)/2 nodes, every barycentric triple *)
Theorem tri_eval_correct thr d v l1 l2 l3 : length v = tri_size d ->
  tri_eval K thr d v l1 l2 l3 = tri_bernstein K d v l1 l2 l3.
Proof.
  intros Hv. unfold tri_eval, tri_bernstein. apply tri_eval_rows_correct.
  apply split_rows_well_formed. rewrite tri_num_size. exact Hv.
Qed.
End TriFacts.
