(* C19: the sigma transform and the companion matrix of the Bernstein root finder (any field of characteristic 0).
   (1) with e the effective degree and sigma the coefficients computed by (the model of) _get_sigma_coeffs,
         sum_j C(d,j) l1^(d-j) l2^j c_j  =  C(d,e) c_e l1^(d-e) ( l2^e + sum_(k<e) sigma_k l2^k l1^(e-k) )
       so the roots s <> 1 of the Bernstein-form polynomial are exactly s = sigma/(1+sigma) for the roots of the monic
       polynomial x^e + sum sigma_k x^k, and s = 1 is a root of multiplicity d - e;
   (2) the eigenvalues of the matrix built by (the model of) bernstein_companion are exactly the roots of that monic polynomial
       (eigenvector (x^(e-1), ..., x, 1); conversely an eigenvector is a multiple of it). *)
From Coq Require Import List Arith Lia Ring Field.
From BZ Require Import Base.Ops Model.Curve Model.Sigma Theory.CurveEval.
Import ListNotations.

Section SigmaTheory.
Context {T : Type} (K : Ops T) (FT : field_of K) (C0 : char0 K) (is0 : T -> bool).
Hypothesis is0_spec : forall x, is0 x = true <-> x = o0 K.
Add Field TFS : FT.
Let RT : ring_of K := F_R FT.
Declare Scope t_scope. Delimit Scope t_scope with t.
Notation "0" := (o0 K) : t_scope. Notation "1" := (o1 K) : t_scope.
Infix "+" := (oadd K) : t_scope. Infix "*" := (omul K) : t_scope.
Infix "-" := (osub K) : t_scope. Infix "/" := (odiv K) : t_scope.
Notation "- x" := (oopp K x) : t_scope.
Local Open Scope t_scope.

(* ---------------- sums over an index range (first term peeled) ---------------- *)
Fixpoint sumf (n : nat) (f : nat -> T) : T :=
  match n with O => 0 | S n' => f 0%nat + sumf n' (fun k => f (S k)) end.
Lemma sumf_ext : forall n f g, (forall k, (k < n)%nat -> f k = g k) -> sumf n f = sumf n g.
Proof.
  induction n as [|n IH]; intros f g H; [reflexivity|]. cbn [sumf]. rewrite (H 0%nat) by lia.
  rewrite (IH (fun k => f (S k)) (fun k => g (S k))); [reflexivity|]. intros k Hk. apply H. lia.
Qed.
Lemma sumf_zero : forall n f, (forall k, (k < n)%nat -> f k = 0) -> sumf n f = 0.
Proof.
  induction n as [|n IH]; intros f H; [reflexivity|]. cbn [sumf]. rewrite (H 0%nat) by lia.
  rewrite IH; [ring|]. intros k Hk. apply H. lia.
Qed.
Lemma sumf_scale c : forall n f, c * sumf n f = sumf n (fun k => c * f k).
Proof. induction n as [|n IH]; intros f; cbn [sumf]; [ring|]. rewrite <- IH. ring. Qed.
Lemma sumf_split : forall a b f, sumf (a + b) f = sumf a f + sumf b (fun k => f (a + k)%nat).
Proof.
  induction a as [|a IH]; intros b f; cbn [sumf Nat.add]; [change (fun k : nat => f k) with f; ring|].
  rewrite (IH b (fun k => f (S k))). ring.
Qed.

Lemma bsum_sumf n l1 l2 : forall (l : list T) i,
  bsum K n i l l1 l2 = sumf (length l) (fun k => bcoef K n (i + k) l1 l2 * nth k l 0).
Proof.
  induction l as [|x l IH]; intros i; cbn [bsum length sumf]; [reflexivity|].
  rewrite IH. rewrite Nat.add_0_r. cbn [nth]. unfold bcoef. f_equal.
  apply sumf_ext. intros k Hk. replace (S i + k)%nat with (i + S k)%nat by lia. reflexivity.
Qed.
Lemma dot_sumf : forall (a b : list T), length a = length b ->
  dot K a b = sumf (length a) (fun k => nth k a 0 * nth k b 0).
Proof.
  induction a as [|x a IH]; intros [|y b] H; cbn [length] in H; try lia; [reflexivity|].
  cbn [dot length sumf nth]. rewrite IH by lia. reflexivity.
Qed.

(* ---------------- effective degree ---------------- *)
Lemma eff_degree_none : forall c, eff_degree is0 c = None -> forall j, nth j c 0 = 0.
Proof.
  induction c as [|x c IH]; intros H j; [destruct j; reflexivity|].
  cbn [eff_degree] in H. destruct (eff_degree is0 c) as [e|]; [discriminate|].
  destruct (is0 x) eqn:E; [|discriminate]. apply is0_spec in E.
  destruct j; [exact E|]. cbn [nth]. apply IH. reflexivity.
Qed.
Lemma eff_degree_some : forall c e, eff_degree is0 c = Some e ->
  (e < length c)%nat /\ nth e c 0 <> 0 /\ forall j, (e < j)%nat -> nth j c 0 = 0.
Proof.
  induction c as [|x c IH]; intros e H; [discriminate|].
  cbn [eff_degree] in H. destruct (eff_degree is0 c) as [e'|] eqn:E'.
  - injection H as <-. destruct (IH e' eq_refl) as [A [B C]]. cbn [length nth]. repeat split; [lia|exact B|].
    intros j Hj. destruct j; [lia|]. cbn [nth]. apply C. lia.
  - destruct (is0 x) eqn:E; [discriminate|]. injection H as <-. cbn [length nth]. repeat split; [lia| |].
    + intros Hx. apply is0_spec in Hx. congruence.
    + intros j Hj. destruct j; [lia|]. cbn [nth]. apply (eff_degree_none c E').
Qed.

(* ---------------- the loop ---------------- *)
Lemma sig_loop_length d c ce : forall k num den, length (sig_loop K d k num den c ce) = k.
Proof. induction k as [|k IH]; intros num den; cbn [sig_loop length]; [reflexivity|]. rewrite IH. reflexivity. Qed.

Lemma ofn_nz n : ofn K (S n) <> 0. Proof. apply C0. Qed.
Lemma mul_nz a b : a <> 0 -> b <> 0 -> a * b <> 0.
Proof. intros Ha Hb H. apply Ha. transitivity (a * b / b); [field; exact Hb|]. rewrite H. field. exact Hb. Qed.

Lemma sig_loop_nth (d e : nat) (c : list T) (ce : T) : (e <= d)%nat -> ce <> 0 ->
  forall k num den, (k <= e)%nat -> den <> 0 ->
  (forall k', k = S k' -> ofn K (choose d k') * den = ofn K (choose d e) * num) ->
  forall j, (j < k)%nat ->
  nth j (rev (sig_loop K d k num den c ce)) 0 * (ofn K (choose d e) * ce) = ofn K (choose d j) * nth j c 0.
Proof.
  intros Hed Hce. induction k as [|k IH]; intros num den Hk Hden Hinv j Hj; [lia|].
  cbn [sig_loop rev].
  destruct (Nat.eq_dec j k) as [->|Hne].
  - rewrite app_nth2 by (rewrite rev_length, sig_loop_length; lia).
    rewrite rev_length, sig_loop_length, Nat.sub_diag. cbn [nth].
    specialize (Hinv k eq_refl).
    transitivity (nth k c 0 * (ofn K (choose d e) * num) / den); [field; split; assumption|].
    rewrite <- Hinv. field. exact Hden.
  - rewrite app_nth1 by (rewrite rev_length, sig_loop_length; lia).
    apply IH; [lia| | |lia].
    + apply mul_nz; [exact Hden|]. replace (d - k + 1)%nat with (S (d - k)) by lia. apply ofn_nz.
    + intros k' ->. specialize (Hinv (S k') eq_refl).
      (* choose d (S k') * S k' = choose d k' * (d - k') *)
      pose proof (choose_step d k') as Hs.
      assert (Hs' : ofn K (choose d (S k')) * ofn K (S k') = ofn K (choose d k') * ofn K (d - k')).
      { rewrite <- !(ofn_mul K RT). f_equal. exact Hs. }
      replace (d - S k' + 1)%nat with (d - k')%nat by lia.
      transitivity (den * (ofn K (choose d k') * ofn K (d - k'))); [ring|].
      rewrite <- Hs'. transitivity ((ofn K (choose d (S k')) * den) * ofn K (S k')); [ring|]. rewrite Hinv. ring.
Qed.

(* ---------------- what get_sigma_coeffs returns ---------------- *)
Theorem sigma_coeffs_spec c sig d e : get_sigma_coeffs K is0 c = (Some sig, d, e) ->
  d = (length c - 1)%nat /\ (1 <= e <= d)%nat /\ length sig = e /\ nth e c 0 <> 0 /\
  (forall j, (e < j)%nat -> nth j c 0 = 0) /\
  forall k, (k < e)%nat -> nth k sig 0 * (ofn K (choose d e) * nth e c 0) = ofn K (choose d k) * nth k c 0.
Proof.
  unfold get_sigma_coeffs. destruct (eff_degree is0 c) as [[|e']|] eqn:E; try discriminate.
  intros H.
  remember (sig_loop K (length c - 1) (S e') (ofn K (S e')) (ofn K (length c - 1 - S e' + 1)) c (nth (S e') c 0)) as L eqn:EL.
  injection H as <- <- <-. subst L.
  destruct (eff_degree_some c (S e') E) as [A [B C]].
  split; [reflexivity|]. split; [lia|]. split; [rewrite rev_length, sig_loop_length; reflexivity|].
  split; [exact B|]. split; [exact C|].
  intros k Hk. apply sig_loop_nth; try lia; try assumption.
  - replace (length c - 1 - S e' + 1)%nat with (S (length c - 1 - S e')) by lia. apply ofn_nz.
  - intros k' Hk'. injection Hk' as <-.
    pose proof (choose_step (length c - 1) e') as Hs.
    replace (length c - 1 - S e' + 1)%nat with (length c - 1 - e')%nat by lia.
    rewrite <- !(ofn_mul K RT). f_equal. lia.
Qed.

(* ---------------- the factorization ---------------- *)
Definition hom_sigma (sig : list T) (l1 l2 : T) : T :=
  pw K l2 (length sig) + sumf (length sig) (fun k => nth k sig 0 * pw K l2 k * pw K l1 (length sig - k)).

Lemma pw_add x : forall a b, pw K x (a + b) = pw K x a * pw K x b.
Proof. induction a as [|a IH]; intros b; cbn [pw Nat.add]; [ring|]. rewrite IH. ring. Qed.
Lemma pw_mul x y : forall n, pw K (x * y) n = pw K x n * pw K y n.
Proof. induction n as [|n IH]; cbn [pw]; [ring|]. rewrite IH. ring. Qed.
Lemma pw_1 : forall n, pw K 1 n = 1.
Proof. induction n as [|n IH]; cbn [pw]; [reflexivity|]. rewrite IH. ring. Qed.
Lemma pw_nz x : x <> 0 -> forall n, pw K x n <> 0.
Proof.
  intros Hx. induction n as [|n IH]; cbn [pw]; [|apply mul_nz; assumption].
  intros H. apply (C0 0%nat). cbn [ofn]. rewrite H. ring.
Qed.

Theorem sigma_factorization c sig d e l1 l2 : get_sigma_coeffs K is0 c = (Some sig, d, e) ->
  bernstein K c l1 l2 = ofn K (choose d e) * nth e c 0 * pw K l1 (d - e) * hom_sigma sig l1 l2.
Proof.
  intros H. destruct (sigma_coeffs_spec c sig d e H) as [Hd [He [Hl [Hce [Hz Hs]]]]].
  assert (Hlen : length c = (e + S (d - e))%nat).
  { unfold get_sigma_coeffs in H. destruct (eff_degree is0 c) as [[|e']|] eqn:E; try discriminate.
    destruct (eff_degree_some c (S e') E) as [A _]. injection H as _ _ He'. lia. }
  unfold bernstein. rewrite <- Hd, bsum_sumf, Hlen, sumf_split. cbn [sumf].
  rewrite (sumf_zero (d - e)) by (intros k Hk; cbn [Nat.add]; rewrite (Hz (e + S k)%nat) by lia; ring).
  unfold hom_sigma. rewrite Hl.
  set (F := ofn K (choose d e) * nth e c 0 * pw K l1 (d - e)).
  transitivity (sumf e (fun k => F * (nth k sig 0 * pw K l2 k * pw K l1 (e - k))) + F * pw K l2 e).
  - f_equal.
    + apply sumf_ext. intros k Hk. cbn [Nat.add]. unfold bcoef, F.
      replace (d - k)%nat with ((d - e) + (e - k))%nat by lia. rewrite pw_add.
      transitivity ((ofn K (choose d k) * nth k c 0) * pw K l1 (d - e) * pw K l1 (e - k) * pw K l2 k); [ring|].
      rewrite <- (Hs k Hk). ring.
    + cbn [Nat.add]. rewrite Nat.add_0_r. unfold bcoef, F. ring.
  - rewrite <- sumf_scale. ring.
Qed.

Lemma hom_sigma_scale sig a l1 l2 : hom_sigma sig (a * l1) (a * l2) = pw K a (length sig) * hom_sigma sig l1 l2.
Proof.
  unfold hom_sigma. rewrite pw_mul.
  transitivity (pw K a (length sig) * pw K l2 (length sig) +
                sumf (length sig) (fun k => pw K a (length sig) * (nth k sig 0 * pw K l2 k * pw K l1 (length sig - k)))).
  - f_equal. apply sumf_ext. intros k Hk. rewrite !pw_mul.
    replace (pw K a (length sig)) with (pw K a (k + (length sig - k))) by (f_equal; lia). rewrite pw_add. ring.
  - rewrite <- sumf_scale. ring.
Qed.

Lemma nth_map_mul x (l : list T) k : (k < length l)%nat -> nth k (map (omul K x) l) 0 = x * nth k l 0.
Proof. intros H. rewrite (nth_indep _ 0 (x * 0)) by (rewrite map_length; exact H). apply (map_nth (omul K x)). Qed.
Lemma powers_length x : forall e, length (powers K x e) = e.
Proof. induction e as [|e IH]; cbn [powers length]; [reflexivity|]. rewrite map_length, IH. reflexivity. Qed.
Lemma powers_nth x : forall e k, (k < e)%nat -> nth k (powers K x e) 0 = pw K x k.
Proof.
  induction e as [|e IH]; intros k Hk; [lia|]. cbn [powers]. destruct k as [|k]; [reflexivity|].
  cbn [nth]. rewrite nth_map_mul by (rewrite powers_length; lia). rewrite IH by lia. reflexivity.
Qed.
Lemma hom_sigma_one sig x : hom_sigma sig 1 x = sigma_poly K sig x.
Proof.
  unfold hom_sigma, sigma_poly. f_equal. rewrite dot_sumf by (rewrite powers_length; reflexivity).
  apply sumf_ext. intros k Hk. rewrite powers_nth by exact Hk. rewrite pw_1. ring.
Qed.

Lemma choose_pos : forall n k, (k <= n)%nat -> (1 <= choose n k)%nat.
Proof.
  induction n as [|n IH]; intros [|k] H; cbn [choose]; try lia.
  pose proof (IH k ltac:(lia)). lia.
Qed.
Lemma mul_eq0 a b : a <> 0 -> (a * b = 0 <-> b = 0).
Proof.
  intros Ha. split; [|intros ->; ring]. intros H. transitivity (a * b / a); [field; exact Ha|]. rewrite H. field. exact Ha.
Qed.

(* the roots other than s = 1: s is a root of the Bernstein-form polynomial iff s/(1-s) is a root of the monic sigma polynomial *)
Theorem roots_correspond c sig d e s : get_sigma_coeffs K is0 c = (Some sig, d, e) -> 1 - s <> 0 ->
  (bernstein K c (1 - s) s = 0 <-> sigma_poly K sig (s / (1 - s)) = 0).
Proof.
  intros H Hs. destruct (sigma_coeffs_spec c sig d e H) as [Hd [He [Hl [Hce [Hz Hsig]]]]].
  rewrite (sigma_factorization c sig d e _ _ H).
  replace (hom_sigma sig (1 - s) s) with (hom_sigma sig ((1 - s) * 1) ((1 - s) * (s / (1 - s))))
    by (f_equal; field; exact Hs).
  rewrite hom_sigma_scale, hom_sigma_one.
  assert (Hc : ofn K (choose d e) <> 0).
  { destruct (choose d e) as [|m] eqn:E; [pose proof (choose_pos d e ltac:(lia)); lia|apply ofn_nz]. }
  rewrite <- !(Rmul_assoc RT). rewrite !mul_eq0; try assumption; try (apply pw_nz; exact Hs). reflexivity.
Qed.
(* the values the code reports, s = sigma / (1 + sigma), are roots *)
Corollary sigma_root_gives_root c sig d e x : get_sigma_coeffs K is0 c = (Some sig, d, e) -> 1 + x <> 0 ->
  sigma_poly K sig x = 0 -> bernstein K c (1 - x / (1 + x)) (x / (1 + x)) = 0.
Proof.
  intros H Hx Hr.
  assert (E1 : 1 - x / (1 + x) = 1 / (1 + x)) by (field; exact Hx).
  assert (Hone : (1 : T) <> 0) by (intros E; apply (C0 0%nat); cbn [ofn]; rewrite E; ring).
  assert (H1 : 1 - x / (1 + x) <> 0).
  { rewrite E1. intros E. apply Hone. transitivity (1 / (1 + x) * (1 + x)); [field; exact Hx|]. rewrite E. ring. }
  apply (roots_correspond c sig d e _ H H1).
  replace (x / (1 + x) / (1 - x / (1 + x))) with x; [exact Hr|].
  rewrite E1. field. split; assumption.
Qed.

(* ---------------- the companion matrix ---------------- *)
Lemma dot_unit_aux i : forall (v : list T) s,
  dot K (map (fun j => if Nat.eqb j i then 1 else 0) (seq s (length v))) v = if Nat.leb s i then nth (i - s) v 0 else 0.
Proof.
  induction v as [|y v IH]; intros s; cbn [length seq map dot].
  - destruct (Nat.leb s i); [destruct (i - s)%nat; reflexivity|reflexivity].
  - rewrite IH. destruct (Nat.eqb s i) eqn:E1.
    + apply Nat.eqb_eq in E1. subst s. rewrite Nat.leb_refl, Nat.sub_diag.
      replace (Nat.leb (S i) i) with false by (symmetry; apply Nat.leb_gt; lia). cbn [nth]. ring.
    + apply Nat.eqb_neq in E1. destruct (Nat.leb s i) eqn:E2.
      * apply Nat.leb_le in E2. replace (Nat.leb (S s) i) with true by (symmetry; apply Nat.leb_le; lia).
        replace (i - s)%nat with (S (i - S s)) by lia. cbn [nth]. ring.
      * apply Nat.leb_gt in E2. replace (Nat.leb (S s) i) with false by (symmetry; apply Nat.leb_gt; lia). ring.
Qed.
Lemma dot_unit_row (v : list T) i : dot K (unit_row K (length v) i) v = nth i v 0.
Proof. unfold unit_row. rewrite dot_unit_aux. cbn [Nat.leb]. rewrite Nat.sub_0_r. reflexivity. Qed.

Lemma map_nth_seq : forall (v : list T) n, (n <= length v)%nat -> map (fun i => nth i v 0) (seq 0 n) = firstn n v.
Proof.
  induction v as [|y v IH]; intros n Hn; cbn [length] in Hn.
  - replace n with 0%nat by lia. reflexivity.
  - destruct n as [|n]; [reflexivity|]. cbn [seq map firstn nth]. f_equal.
    rewrite <- seq_shift, map_map. cbn [nth]. apply IH. lia.
Qed.

(* the matrix acts as: new first entry from the top row, the others shifted down *)
Lemma companion_apply (sig v : list T) : length v = length sig ->
  matvec_rows K (companion K sig) v = dot K (map (oopp K) (rev sig)) v :: removelast v.
Proof.
  intros Hl. unfold companion, matvec_rows. cbn [map]. f_equal.
  rewrite map_map, <- Hl.
  rewrite (map_ext _ (fun i => nth i v 0)) by (intros i; apply dot_unit_row).
  rewrite map_nth_seq by lia. rewrite removelast_firstn_len. f_equal. lia.
Qed.

Lemma dot_app : forall (a1 b1 a2 b2 : list T), length a1 = length b1 ->
  dot K (a1 ++ a2) (b1 ++ b2) = dot K a1 b1 + dot K a2 b2.
Proof.
  induction a1 as [|x a1 IH]; intros [|y b1] a2 b2 H; cbn [length] in H; try lia; cbn [app dot]; [ring|].
  rewrite IH by lia. ring.
Qed.
Lemma dot_rev : forall (a b : list T), length a = length b -> dot K (rev a) (rev b) = dot K a b.
Proof.
  induction a as [|x a IH]; intros [|y b] H; cbn [length] in H; try lia; [reflexivity|].
  cbn [rev]. rewrite dot_app by (rewrite !rev_length; lia). rewrite IH by lia. cbn [dot]. ring.
Qed.
Lemma dot_opp_l : forall (a b : list T), dot K (map (oopp K) a) b = - dot K a b.
Proof. induction a as [|x a IH]; intros [|y b]; cbn [map dot]; try ring. rewrite IH. ring. Qed.
Lemma dot_scale_r w0 : forall (a b : list T), dot K a (map (fun p => p * w0) b) = dot K a b * w0.
Proof. induction a as [|x a IH]; intros [|y b]; cbn [map dot]; try ring. rewrite IH. ring. Qed.

Lemma powers_snoc x : forall e, powers K x (S e) = powers K x e ++ [pw K x e].
Proof.
  induction e as [|e IH]; [reflexivity|].
  change (powers K x (S (S e))) with (1 :: map (omul K x) (powers K x (S e))). rewrite IH at 1. rewrite map_app. reflexivity.
Qed.

(* (a) every root of the monic sigma polynomial is an eigenvalue, with eigenvector (x^(e-1), ..., x, 1) *)
Theorem root_is_eigenvalue (sig : list T) x : (1 <= length sig)%nat -> sigma_poly K sig x = 0 ->
  matvec_rows K (companion K sig) (rev (powers K x (length sig))) = map (omul K x) (rev (powers K x (length sig))) /\
  last (rev (powers K x (length sig))) 0 = 1.
Proof.
  intros He Hr. destruct (length sig) as [|e] eqn:El; [lia|].
  assert (V1 : rev (powers K x (S e)) = rev (map (omul K x) (powers K x e)) ++ [1]) by reflexivity.
  assert (V2 : rev (powers K x (S e)) = pw K x e :: rev (powers K x e)) by (rewrite powers_snoc, rev_app_distr; reflexivity).
  split.
  - rewrite companion_apply by (rewrite rev_length, powers_length; lia).
    transitivity (x * pw K x e :: rev (map (omul K x) (powers K x e))).
    + f_equal.
      * rewrite map_rev, dot_rev by (rewrite map_length, powers_length; lia). rewrite dot_opp_l.
        unfold sigma_poly in Hr. rewrite El in Hr.
        transitivity (pw K x (S e) - (pw K x (S e) + dot K sig (powers K x (S e)))); [ring|]. rewrite Hr. cbn [pw]. ring.
      * rewrite V1. apply removelast_last.
    + rewrite V2. cbn [map]. rewrite map_rev. reflexivity.
  - rewrite V1. apply last_last.
Qed.

(* (b) conversely every eigenvalue is a root: an eigenvector is a multiple of (x^(e-1), ..., x, 1) *)
Lemma shift_chain lam : forall (w' : list T) w0 r0, w' ++ [r0] = lam * w0 :: map (omul K lam) w' ->
  w0 :: w' = map (fun p => p * w0) (powers K lam (S (length w'))) /\ r0 = pw K lam (S (length w')) * w0.
Proof.
  induction w' as [|a w'' IH]; intros w0 r0 H.
  - cbn [app map] in H. injection H as ->. cbn [length powers map pw]. split; [f_equal; ring|ring].
  - cbn [app map] in H. injection H as Ha Hrest. subst a.
    destruct (IH (lam * w0) r0 Hrest) as [E1 E2]. cbn [length]. split.
    + change (powers K lam (S (S (length w'')))) with (1 :: map (omul K lam) (powers K lam (S (length w'')))).
      cbn [map]. f_equal; [ring|]. rewrite E1, map_map. apply map_ext. intros p. ring.
    + rewrite E2. cbn [pw]. ring.
Qed.

Theorem eigenvalue_is_root (sig v : list T) lam : (1 <= length sig)%nat -> length v = length sig ->
  matvec_rows K (companion K sig) v = map (omul K lam) v -> ~ Forall (fun y => y = 0) v ->
  sigma_poly K sig lam = 0.
Proof.
  intros He Hl Hev Hnz. rewrite companion_apply in Hev by exact Hl.
  remember (rev v) as w eqn:Ew. assert (Hv : v = rev w) by (rewrite Ew, rev_involutive; reflexivity). clear Ew.
  destruct w as [|w0 w']; [exfalso; apply (f_equal (@length T)) in Hv; rewrite Hl in Hv; cbn [rev length] in Hv; lia|].
  remember (dot K (map (oopp K) (rev sig)) v) as r0 eqn:Er0.
  assert (Hchain : w' ++ [r0] = lam * w0 :: map (omul K lam) w').
  { rewrite Hv in Hev. cbn [rev] in Hev. rewrite removelast_last in Hev.
    apply (f_equal (@rev T)) in Hev. cbn [rev] in Hev.
    rewrite rev_involutive, <- map_rev, rev_app_distr, rev_involutive in Hev.
    cbn [rev app map] in Hev. exact Hev. }
  destruct (shift_chain lam w' w0 r0 Hchain) as [E1 E2].
  assert (Hlen : S (length w') = length sig) by (rewrite <- Hl, Hv, rev_length; reflexivity).
  rewrite Hlen in E1, E2.
  assert (Hw0 : w0 <> 0).
  { intros Z. apply Hnz. rewrite Hv. apply Forall_forall. intros y Hy. apply in_rev in Hy. rewrite E1 in Hy.
    apply in_map_iff in Hy. destruct Hy as [p [<- _]]. rewrite Z. ring. }
  assert (Hr0 : r0 = - dot K sig (powers K lam (length sig)) * w0).
  { rewrite Er0, Hv, map_rev, dot_rev by (rewrite map_length; cbn [length]; lia).
    rewrite dot_opp_l, E1, dot_scale_r. ring. }
  unfold sigma_poly. apply (mul_eq0 w0); [exact Hw0|].
  transitivity (pw K lam (length sig) * w0 - r0); [rewrite Hr0; ring|]. rewrite E2. ring.
Qed.
End SigmaTheory.
