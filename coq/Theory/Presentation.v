(* C17 (kernel equivariances, exact arithmetic): what the intersection pipeline is built from commutes with the
   relabellings of the property - reversal, degree elevation, affine maps, argument swap. *)
From Coq Require Import List Arith Lia Ring ZArith QArith Bool String Lqa Qfield.
From BZ Require Import Base.Ops Base.PyVal Model.Curve Theory.CurveEval Gen.PyFnHelpers Gen.PyFnGeometric Theory.Predicates.
Import ListNotations.

Section Affine.
Context {T : Type} (K : Ops T) (RT : ring_of K).
Add Ring TRA : RT.
Notation "0" := (o0 K). Notation "1" := (o1 K).
Infix "+" := (oadd K). Infix "*" := (omul K).

Lemma dot_affine k c : forall (w v : list T), List.length w = List.length v ->
  dot K w (map (fun x => k * x + c) v) = k * dot K w v + c * fold_right (oadd K) 0 w.
Proof.
  induction w as [|a w IH]; intros [|b v] H; simpl in H; try discriminate; cbn [map dot fold_right]; [ring|].
  rewrite IH by lia. ring.
Qed.

(* evaluation is affine-equivariant: scaling and translating the control net scales and translates the point
   (translation needs l1 + l2 = 1, i.e. a genuine parameter) *)
Theorem bernstein_affine k c v l1 l2 : v <> [] ->
  bernstein K (map (fun x => k * x + c) v) l1 l2 = k * bernstein K v l1 l2 + c * pw K (l1 + l2) (List.length v - 1).
Proof.
  intros Hne. destruct v as [|a v]; [congruence|].
  unfold bernstein. rewrite map_length. cbn [List.length]. replace (S (List.length v) - 1)%nat with (List.length v) by lia.
  rewrite <- !(W_is_bernstein K RT) by (rewrite ?map_length; reflexivity).
  rewrite dot_affine by (rewrite (W_length K); reflexivity).
  rewrite (W_sum K RT). reflexivity.
Qed.
End Affine.

Open Scope Q_scope.
(* swapping the two segments swaps the two parameters *)
Theorem segment_intersection_swap x0 y0 x1 y1 x2 y2 x3 y3 s t :
  py_segment_intersection (V2 x0 y0) (V2 x1 y1) (V2 x2 y2) (V2 x3 y3) = VTup [VQ s; VQ t; VB true] ->
  exists s' t', py_segment_intersection (V2 x2 y2) (V2 x3 y3) (V2 x0 y0) (V2 x1 y1) = VTup [VQ s'; VQ t'; VB true] /\
                s' == t /\ t' == s.
Proof.
  unfold py_segment_intersection, py_cross_product. vsimp.
  destruct (Qeqb ((x1 - x0) * (y3 - y2) - (y1 - y0) * (x3 - x2)) 0) eqn:E; vsimp; [intros H; discriminate|].
  intros H. inversion H; subst; clear H.
  assert (E2 : Qeqb ((x3 - x2) * (y1 - y0) - (y3 - y2) * (x1 - x0)) 0 = false).
  { apply Qeqb_neq. intro G. apply Qeqb_neq in E. apply E.
    transitivity (- ((x3 - x2) * (y1 - y0) - (y3 - y2) * (x1 - x0))); [ring|rewrite G; ring]. }
  rewrite E2. vsimp. eexists. eexists. split; [reflexivity|].
  apply Qeqb_neq in E. apply Qeqb_neq in E2. split; field; auto.
Qed.

(* the box classification does not depend on the order of the two boxes *)
Theorem bbox_intersect_symmetric l1 r1 b1 t1 l2 r2 b2 t2 :
  bbox_intersect_boxes l1 r1 b1 t1 l2 r2 b2 t2 = bbox_intersect_boxes l2 r2 b2 t2 l1 r1 b1 t1.
Proof.
  unfold bbox_intersect_boxes.
  assert (Hs : forall a b, Qeqb a b = Qeqb b a).
  { intros a b. destruct (Qeqb a b) eqn:E1; destruct (Qeqb b a) eqn:E2; try reflexivity; qprops; exfalso; [apply E2|apply E1]; lra. }
  rewrite (Hs r2 l1), (Hs r1 l2), (Hs t2 b1), (Hs t1 b2).
  destruct (Qltb r2 l1), (Qltb r1 l2), (Qltb t2 b1), (Qltb t1 b2), (Qeqb l1 r2), (Qeqb l2 r1), (Qeqb b1 t2), (Qeqb b2 t1); reflexivity.
Qed.
