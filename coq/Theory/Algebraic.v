(* C19 / C15: the algebraic strategy's pieces, REGENERATED from algebraic_intersection.py:
   implicitization of degree 1 and 2 vanishes on the curve; the interpolation formulas recover the power-basis
   coefficients of the sampled polynomial exactly (up to the documented constant); Bernstein -> power basis. *)
From Coq Require Import List ZArith QArith Bool String Lia Lqa Qfield.
From BZ Require Import Base.PyVal Gen.PyFnAlgebraic Theory.Predicates.
Import ListNotations.
Open Scope Q_scope.

Ltac vs := cbn [vadd vsub vsub_b vmul vdiv vneg vabs vlt vle veq vne vnot vand vor truth vidx vidx2 vcol vdot vscale nth map V2
                vshape List.length inject_Z Z.of_nat Pos.of_succ_nat Pos.succ negb andb orb Bool.eqb Qeqb Qeq_bool Zeq_bool Qnum Qden Z.mul Z.compare Pos.mul Pos.compare Pos.compare_cont].

Definition N2x2 (x0 x1 y0 y1 : Q) : val := VTup [VTup [VQ x0; VQ x1]; VTup [VQ y0; VQ y1]].
Definition N2x3 (x0 x1 x2 y0 y1 y2 : Q) : val := VTup [VTup [VQ x0; VQ x1; VQ x2]; VTup [VQ y0; VQ y1; VQ y2]].

(* degree 1: f(x,y) vanishes at every point of the line *)
Theorem implicit_vanishes_degree1 o x0 x1 y0 y1 s :
  exists e, py_evaluate o (N2x2 x0 x1 y0 y1) (VQ ((1 - s) * x0 + s * x1)) (VQ ((1 - s) * y0 + s * y1)) = VQ e /\ e == 0.
Proof.
  unfold py_evaluate, N2x2. cbv zeta. vs. eexists. split; [reflexivity|]. ring.
Qed.
(* degree 2 *)
Theorem implicit_vanishes_degree2 o x0 x1 x2 y0 y1 y2 s :
  exists e, py_evaluate o (N2x3 x0 x1 x2 y0 y1 y2)
                (VQ ((1 - s) * (1 - s) * x0 + 2 * (1 - s) * s * x1 + s * s * x2))
                (VQ ((1 - s) * (1 - s) * y0 + 2 * (1 - s) * s * y1 + s * s * y2)) = VQ e /\ e == 0.
Proof.
  unfold py_evaluate, N2x3. cbv zeta. vs. eexists. split; [reflexivity|]. ring.
Qed.
(* degree 1 is the genuine implicit equation: f(x,y) = 0 exactly on the line through the two (distinct) nodes *)
Theorem implicit_degree1_is_line o x0 x1 y0 y1 x y :
  exists e, py_evaluate o (N2x2 x0 x1 y0 y1) (VQ x) (VQ y) = VQ e /\ e == (x0 - x) * (y1 - y) - (x1 - x) * (y0 - y).
Proof. unfold py_evaluate, N2x2. cbv zeta. vs. eexists. split; [reflexivity|]. ring. Qed.

(* ---- interpolation: if the sampled function is a polynomial of the stated degree in t, the returned array is
   K times its power-basis coefficients ---- *)
Definition samples (c : list Q) (f : val -> val -> val -> val) : Prop :=
  forall n1 n2 t, f n1 n2 (VQ t) = VQ (fold_right (fun a acc => a + t * acc) 0 c).

Theorem interpolation_11 f n1 n2 c0 c1 : samples [c0; c1] f ->
  exists a0 a1, py__to_power_basis11 f n1 n2 = VTup [VQ a0; VQ a1] /\ a0 == c0 /\ a1 == c1.
Proof.
  intros Hf. unfold py__to_power_basis11. cbv zeta. rewrite !Hf. cbn [fold_right]. vs.
  eexists. eexists. split; [reflexivity|]. split; ring.
Qed.
Theorem interpolation_12 f n1 n2 c0 c1 c2 : samples [c0; c1; c2] f ->
  exists a0 a1 a2, py__to_power_basis12 f n1 n2 = VTup [VQ a0; VQ a1; VQ a2] /\ a0 == c0 /\ a1 == c1 /\ a2 == c2.
Proof.
  intros Hf. unfold py__to_power_basis12. cbv zeta. rewrite !Hf. cbn [fold_right]. vs.
  eexists. eexists. eexists. split; [reflexivity|]. repeat split; ring.
Qed.
Theorem interpolation_13 f n1 n2 c0 c1 c2 c3 : samples [c0; c1; c2; c3] f ->
  exists a0 a1 a2 a3, py__to_power_basis13 f n1 n2 = VTup [VQ a0; VQ a1; VQ a2; VQ a3] /\
    a0 == 3 * c0 /\ a1 == 3 * c1 /\ a2 == 3 * c2 /\ a3 == 3 * c3.
Proof.
  intros Hf. unfold py__to_power_basis13. cbv zeta. rewrite !Hf. cbn [fold_right]. vs.
  eexists. eexists. eexists. eexists. split; [reflexivity|]. repeat split; ring.
Qed.
Theorem interpolation_degree4 f n1 n2 c0 c1 c2 c3 c4 : samples [c0; c1; c2; c3; c4] f ->
  exists a0 a1 a2 a3 a4, py__to_power_basis_degree4 f n1 n2 = VTup [VQ a0; VQ a1; VQ a2; VQ a3; VQ a4] /\
    a0 == 3 * c0 /\ a1 == 3 * c1 /\ a2 == 3 * c2 /\ a3 == 3 * c3 /\ a4 == 3 * c4.
Proof.
  intros Hf. unfold py__to_power_basis_degree4. cbv zeta. rewrite !Hf. cbn [fold_right]. vs.
  eexists. eexists. eexists. eexists. eexists. split; [reflexivity|]. repeat split; ring.
Qed.

(* ---- Bernstein -> power basis represents the same polynomial (degrees 1, 2, 3; other degrees raise) ---- *)
Theorem poly_to_power_basis_2 b0 b1 s :
  exists a0 a1, py_poly_to_power_basis (VTup [VQ b0; VQ b1]) = VTup [VQ a0; VQ a1] /\
    a0 + s * a1 == (1 - s) * b0 + s * b1.
Proof. unfold py_poly_to_power_basis. cbv zeta. vs. eexists. eexists. split; [reflexivity|]. ring. Qed.
Theorem poly_to_power_basis_3 b0 b1 b2 s :
  exists a0 a1 a2, py_poly_to_power_basis (VTup [VQ b0; VQ b1; VQ b2]) = VTup [VQ a0; VQ a1; VQ a2] /\
    a0 + s * (a1 + s * a2) == (1 - s) * (1 - s) * b0 + 2 * (1 - s) * s * b1 + s * s * b2.
Proof. unfold py_poly_to_power_basis. cbv zeta. vs. eexists. eexists. eexists. split; [reflexivity|]. ring. Qed.
Theorem poly_to_power_basis_4 b0 b1 b2 b3 s :
  exists a0 a1 a2 a3, py_poly_to_power_basis (VTup [VQ b0; VQ b1; VQ b2; VQ b3]) = VTup [VQ a0; VQ a1; VQ a2; VQ a3] /\
    a0 + s * (a1 + s * (a2 + s * a3))
    == (1 - s) * (1 - s) * (1 - s) * b0 + 3 * (1 - s) * (1 - s) * s * b1 + 3 * (1 - s) * s * s * b2 + s * s * s * b3.
Proof. unfold py_poly_to_power_basis. cbv zeta. vs. eexists. eexists. eexists. eexists. split; [reflexivity|]. ring. Qed.
Theorem poly_to_power_basis_unsupported b0 b1 b2 b3 b4 rest :
  py_poly_to_power_basis (VTup (VQ b0 :: VQ b1 :: VQ b2 :: VQ b3 :: VQ b4 :: rest)) = VErr "UnsupportedDegree".
Proof.
  unfold py_poly_to_power_basis. cbv zeta. cbn [vshape vidx nth].
  set (n := List.length (VQ b1 :: VQ b2 :: VQ b3 :: VQ b4 :: rest)).
  assert (Hn : (4 <= n)%nat) by (subst n; cbn [List.length]; lia).
  assert (G : forall k, (k = 1 \/ k = 2 \/ k = 3 \/ k = 4)%Z -> Qeqb (inject_Z (Z.of_nat (S n))) (k # 1) = false).
  { intros k Hk. apply Qeqb_neq. unfold Qeq, inject_Z. cbn [Qnum Qden]. lia. }
  cbn [veq]. change (Datatypes.length (VQ b0 :: VQ b1 :: VQ b2 :: VQ b3 :: VQ b4 :: rest)) with (S n).
  rewrite (G 1%Z), (G 2%Z), (G 3%Z), (G 4%Z) by lia. reflexivity.
Qed.

(* ---- C15: the dispatch of to_power_basis accepts exactly the eight documented degree pairs.
   Complete enumeration of all pairs of node counts 1..12 x 1..12 (bound in the statement), with tagging oracles. *)
Definition mk_nodes (n : nat) : val := VTup [VTup (repeat (VQ 0) n); VTup (repeat (VQ 0) n)].
Definition tag (name : string) (a b : val) : val := VEnum name.
Definition supported_pair (n1 n2 : nat) : bool :=
  existsb (fun p => Nat.eqb (fst p) n1 && Nat.eqb (snd p) n2)
          [(2, 2); (2, 3); (2, 4); (2, 5); (3, 3); (3, 4); (3, 5); (4, 4)]%nat.
Definition is_not_implemented (v : val) : bool := match v with VErr "NotImplementedError" => true | _ => false end.
Definition dispatch_ok (n1 n2 : nat) : bool :=
  Bool.eqb (is_not_implemented (py_to_power_basis (fun _ _ _ => VQ 0) (tag "23") (tag "degree8") (tag "33") (mk_nodes n1) (mk_nodes n2)))
           (negb (supported_pair n1 n2)).
Lemma dispatch_table : forallb (fun n1 => forallb (dispatch_ok n1) (seq 1 12)) (seq 1 12) = true.
Proof. vm_compute. reflexivity. Qed.
