(* C16, clipping: the planar convexity fact behind Bezier clipping, over R.
   Points (x_j, d_j) with convex weights w_j; p0 is a leftmost point and lies strictly above the line d = hi;
   S is a lower bound of the abscissa at which any chord from a point above the line to a point on or below it meets the line.
   Then every convex combination whose height is <= hi has abscissa >= S.
   (No compactness, no analysis: a separating linear functional chosen by a finite arg-max.) *)
From Coq Require Import List Reals Lra Lia.
Import ListNotations.
Local Open Scope R_scope.

Fixpoint rsum (l : list R) : R := match l with [] => 0 | x :: l' => x + rsum l' end.
Fixpoint rdot (w v : list R) : R := match w, v with a :: w', b :: v' => a * b + rdot w' v' | _, _ => 0 end.

Lemma rdot_affine_nonneg (a b c : R) : forall (ws xs ds : list R),
  length xs = length ws -> length ds = length ws -> Forall (fun w => 0 <= w) ws ->
  Forall (fun p => 0 <= a * fst p + b * snd p + c) (combine xs ds) ->
  0 <= a * rdot ws xs + b * rdot ws ds + c * rsum ws.
Proof.
  induction ws as [|w ws IH]; intros xs ds Hx Hd Hw Hp.
  - cbn [rdot rsum]. lra.
  - destruct xs as [|x xs]; [discriminate|]. destruct ds as [|d ds]; [discriminate|].
    cbn [combine] in Hp. inversion Hp as [|? ? Hp1 Hp2]; subst. inversion Hw as [|? ? Hw1 Hw2]; subst.
    cbn [fst snd] in Hp1. cbn [length] in Hx, Hd.
    specialize (IH xs ds ltac:(lia) ltac:(lia) Hw2 Hp2). cbn [rdot rsum]. nra.
Qed.

Lemma argmax {A} (f : A -> R) : forall (l : list A), l <> [] -> exists x, In x l /\ forall y, In y l -> f y <= f x.
Proof.
  induction l as [|a l IH]; intros Hne; [congruence|].
  destruct l as [|b l'].
  - exists a. split; [left; reflexivity|]. intros y [<-|[]]. lra.
  - destruct (IH ltac:(discriminate)) as [x [Hx Hmax]].
    destruct (Rle_dec (f x) (f a)) as [Hle|Hgt].
    + exists a. split; [left; reflexivity|]. intros y [<-|Hy]; [lra|]. specialize (Hmax y Hy). lra.
    + exists x. split; [right; exact Hx|]. intros y [<-|Hy]; [lra|]. apply Hmax. exact Hy.
Qed.

Section Above.
Variables (xs ds ws : list R) (hi S : R) (p0 : R * R).
Let pts := combine xs ds.
Hypothesis Hlx : length xs = length ws.
Hypothesis Hld : length ds = length ws.
Hypothesis Hw : Forall (fun w => 0 <= w) ws.
Hypothesis Hsum : rsum ws = 1.
Hypothesis Hp0 : In p0 pts.
Hypothesis Hleft : forall p, In p pts -> fst p0 <= fst p.
Hypothesis Habove : hi < snd p0.
(* S is below every crossing of the line d = hi with a chord from a point above the line to a point on or below it *)
Hypothesis Hcross : forall p q, In p pts -> In q pts -> hi < snd p -> snd q <= hi ->
  S <= fst p + (hi - snd p) / (snd q - snd p) * (fst q - fst p).

Lemma left_points_are_above p : In p pts -> fst p < S -> hi < snd p.
Proof.
  intros Hp Hl. destruct (Rlt_dec hi (snd p)) as [H|H]; [exact H|]. exfalso.
  assert (Hq : snd p <= hi) by lra.
  specialize (Hcross p0 p Hp0 Hp Habove Hq). specialize (Hleft p Hp).
  set (tau := (hi - snd p0) / (snd p - snd p0)) in *.
  assert (Htau : 0 <= tau <= 1).
  { unfold tau. assert (Hneg : snd p - snd p0 < 0) by lra.
    replace ((hi - snd p0) / (snd p - snd p0)) with ((snd p0 - hi) / (snd p0 - snd p)) by (field; lra).
    split.
    - apply Rmult_le_pos; [lra|]. left. apply Rinv_0_lt_compat. lra.
    - apply (Rmult_le_reg_r (snd p0 - snd p)); [lra|]. unfold Rdiv. rewrite Rmult_assoc, Rinv_l by lra. lra. }
  nra.
Qed.

Theorem convex_combination_right_of_S : rdot ws ds <= hi -> S <= rdot ws xs.
Proof.
  intros Hd.
  destruct (Rle_dec S (fst p0)) as [HS|HS].
  - (* every abscissa is >= x0 >= S *)
    assert (H := rdot_affine_nonneg 1 0 (- fst p0) ws xs ds Hlx Hld Hw).
    rewrite Hsum in H. enough (0 <= 1 * rdot ws xs + 0 * rdot ws ds + - fst p0 * 1) by lra. apply H.
    apply Forall_forall. intros p Hp. specialize (Hleft p Hp). lra.
  - assert (HS0 : fst p0 < S) by lra.
    (* the steepest left point *)
    set (r := fun p : R * R => if Rlt_dec (fst p) S then (S - fst p) / (snd p - hi) else 0).
    assert (Hne : pts <> []) by (intros E; rewrite E in Hp0; exact Hp0).
    destruct (argmax r pts Hne) as [pm [Hpm Hmax]].
    assert (Hr0 : 0 < r p0).
    { unfold r. destruct (Rlt_dec (fst p0) S); [|lra]. apply Rmult_lt_0_compat; [lra|]. apply Rinv_0_lt_compat. lra. }
    assert (Hpml : fst pm < S).
    { specialize (Hmax p0 Hp0). unfold r at 2 in Hmax. destruct (Rlt_dec (fst pm) S); [assumption|lra]. }
    assert (Hpma : hi < snd pm) by (apply left_points_are_above; assumption).
    set (alpha := (S - fst pm) / (snd pm - hi)).
    assert (Halpha : 0 < alpha) by (unfold alpha; apply Rmult_lt_0_compat; [lra|apply Rinv_0_lt_compat; lra]).
    assert (Hra : r pm = alpha) by (unfold r; destruct (Rlt_dec (fst pm) S); [reflexivity|lra]).
    assert (Hall : Forall (fun p => 0 <= 1 * fst p + alpha * snd p + (- S - alpha * hi)) pts).
    { apply Forall_forall. intros p Hp.
      destruct (Rlt_dec (fst p) S) as [Hl|Hl].
      - (* left point: above the line, and not steeper than pm *)
        assert (Hpa : hi < snd p) by (apply left_points_are_above; assumption).
        specialize (Hmax p Hp). rewrite Hra in Hmax. unfold r in Hmax. destruct (Rlt_dec (fst p) S); [|lra].
        assert (Hk : (S - fst p) <= alpha * (snd p - hi)).
        { apply (Rmult_le_compat_r (snd p - hi)) in Hmax; [|lra].
          unfold Rdiv in Hmax. rewrite Rmult_assoc, Rinv_l in Hmax by lra. lra. }
        lra.
      - destruct (Rle_dec hi (snd p)) as [Hh|Hh].
        + assert (0 <= alpha * (snd p - hi)) by (apply Rmult_le_pos; lra). lra.
        + (* right of S and below the line: the chord pm -> p meets the line at an abscissa >= S *)
          assert (Hq : snd p <= hi) by lra.
          specialize (Hcross pm p Hpm Hp Hpma Hq).
          set (A := snd pm - hi) in *. set (B := hi - snd p).
          assert (HA : 0 < A) by (unfold A; lra). assert (HB : 0 < B) by (unfold B; lra).
          replace ((hi - snd pm) / (snd p - snd pm)) with (A / (A + B)) in Hcross by (unfold A, B; field; lra).
          assert (Hc2 : (A + B) * S <= B * fst pm + A * fst p).
          { apply (Rmult_le_compat_l (A + B)) in Hcross; [|lra].
            replace ((A + B) * (fst pm + A / (A + B) * (fst p - fst pm))) with ((A + B) * fst pm + A * (fst p - fst pm)) in Hcross
              by (field; lra). lra. }
          assert (Hal : alpha * A = S - fst pm) by (unfold alpha, A; field; lra).
          assert (Hgoal : 0 <= A * ((fst p - S) - alpha * B)) by (replace (A * ((fst p - S) - alpha * B)) with (A * (fst p - S) - (alpha * A) * B) by ring; rewrite Hal; lra).
          assert (0 <= (fst p - S) - alpha * B).
          { destruct (Rle_dec 0 ((fst p - S) - alpha * B)) as [Hok|Hno]; [exact Hok|]. exfalso.
            assert (Hneg : (fst p - S) - alpha * B < 0) by lra. generalize dependent ((fst p - S) - alpha * B). intros z Hz _ Hneg. nra. }
          unfold B in H. lra. }
    assert (H := rdot_affine_nonneg 1 alpha (- S - alpha * hi) ws xs ds Hlx Hld Hw Hall).
    rewrite Hsum in H.
    assert (0 <= alpha * (hi - rdot ws ds)) by (apply Rmult_le_pos; lra). lra.
Qed.
End Above.

(* ---------------- both lines of a band, both sides ---------------- *)
Lemma tau_unit (h dp dq : R) : h < dp -> dq <= h -> 0 <= (h - dp) / (dq - dp) <= 1.
Proof.
  intros H1 H2. replace ((h - dp) / (dq - dp)) with ((dp - h) / (dp - dq)) by (field; lra). split.
  - apply Rmult_le_pos; [lra|]. left. apply Rinv_0_lt_compat. lra.
  - apply (Rmult_le_reg_r (dp - dq)); [lra|]. unfold Rdiv. rewrite Rmult_assoc, Rinv_l by lra. lra.
Qed.

Lemma rdot_opp_r : forall ws ds, rdot ws (map Ropp ds) = - rdot ws ds.
Proof. induction ws as [|w ws IH]; intros [|d ds]; cbn [rdot map]; try lra. rewrite IH. ring. Qed.
Lemma in_combine_opp_r : forall (xs ds : list R) x d, In (x, d) (combine xs (map Ropp ds)) -> In (x, - d) (combine xs ds).
Proof.
  induction xs as [|a xs IH]; intros [|b ds] x d H; cbn [combine map] in H; try contradiction.
  destruct H as [E|H]; [left; injection E as <- <-; f_equal; ring|right; apply IH; exact H].
Qed.
Lemma in_combine_opp_r' : forall (xs ds : list R) x d, In (x, d) (combine xs ds) -> In (x, - d) (combine xs (map Ropp ds)).
Proof.
  induction xs as [|a xs IH]; intros [|b ds] x d H; cbn [combine map] in H |- *; try contradiction.
  destruct H as [E|H]; [left; injection E as <- <-; reflexivity|right; apply IH; exact H].
Qed.
Lemma in_combine_fst {A B} : forall (xs : list A) (ds : list B) p, In p (combine xs ds) -> In (fst p) xs.
Proof. intros xs ds [x d] H. apply in_combine_l in H. exact H. Qed.

Section Band.
Variables (xs ds ws : list R) (LO HI S : R) (p0 : R * R).
Let pts := combine xs ds.
Hypothesis Hlx : length xs = length ws.
Hypothesis Hld : length ds = length ws.
Hypothesis Hw : Forall (fun w => 0 <= w) ws.
Hypothesis Hsum : rsum ws = 1.
Hypothesis Hp0 : In p0 pts.
Hypothesis Hleft : forall p, In p pts -> fst p0 <= fst p.
Hypothesis Hin : LO <= snd p0 <= HI -> S <= fst p0.
Hypothesis Hchord : forall p q l, In p pts -> In q pts -> l = LO \/ l = HI -> snd p <> snd q ->
  0 <= (l - snd p) / (snd q - snd p) <= 1 -> S <= fst p + (l - snd p) / (snd q - snd p) * (fst q - fst p).

Theorem band_lower_bound : LO <= rdot ws ds <= HI -> S <= rdot ws xs.
Proof.
  intros [HdL HdH].
  destruct (Rlt_dec HI (snd p0)) as [Ha|Ha]; [|destruct (Rlt_dec (snd p0) LO) as [Hb|Hb]].
  - (* p0 above the band: the line d = HI *)
    apply (convex_combination_right_of_S xs ds ws HI S p0); try assumption.
    intros p q Hp Hq H1 H2. apply Hchord; try assumption; [right; reflexivity|lra|apply tau_unit; assumption].
  - (* p0 below the band: mirror the heights, the line d = LO *)
    apply (convex_combination_right_of_S xs (map Ropp ds) ws (- LO) S (fst p0, - snd p0)); try assumption.
    + rewrite map_length. exact Hld.
    + apply in_combine_opp_r'. destruct p0 as [x0 d0]. exact Hp0.
    + intros [x d] Hp. cbn [fst]. apply in_combine_opp_r in Hp. exact (Hleft _ Hp).
    + cbn [snd]. lra.
    + intros [xp dp] [xq dq] Hp Hq H1 H2. cbn [fst snd] in *.
      apply in_combine_opp_r in Hp, Hq.
      assert (Hne : - dp <> - dq) by lra.
      assert (Hu := tau_unit (- LO) dp dq H1 H2).
      replace ((- LO - dp) / (dq - dp)) with ((LO - - dp) / (- dq - - dp)) in Hu |- * by (field; lra).
      exact (Hchord (xp, - dp) (xq, - dq) LO Hp Hq (or_introl eq_refl) Hne Hu).
    + rewrite rdot_opp_r. lra.
  - (* p0 inside the band *)
    assert (HS : S <= fst p0) by (apply Hin; lra).
    assert (H := rdot_affine_nonneg 1 0 (- fst p0) ws xs ds Hlx Hld Hw).
    rewrite Hsum in H. enough (0 <= 1 * rdot ws xs + 0 * rdot ws ds + - fst p0 * 1) by lra. apply H.
    apply Forall_forall. intros p Hp. specialize (Hleft p Hp). lra.
Qed.
End Band.

Lemma rdot_opp_xs : forall ws xs, rdot ws (map Ropp xs) = - rdot ws xs.
Proof. exact rdot_opp_r. Qed.
Lemma in_combine_opp_l : forall (xs ds : list R) x d, In (x, d) (combine (map Ropp xs) ds) -> In (- x, d) (combine xs ds).
Proof.
  induction xs as [|a xs IH]; intros [|b ds] x d H; cbn [combine map] in H; try contradiction.
  destruct H as [E|H]; [left; injection E as <- <-; f_equal; ring|right; apply IH; exact H].
Qed.
Lemma in_combine_opp_l' : forall (xs ds : list R) x d, In (x, d) (combine xs ds) -> In (- x, d) (combine (map Ropp xs) ds).
Proof.
  induction xs as [|a xs IH]; intros [|b ds] x d H; cbn [combine map] in H |- *; try contradiction.
  destruct H as [E|H]; [left; injection E as <- <-; reflexivity|right; apply IH; exact H].
Qed.

(* the upper end: mirror the abscissae; p1 is a rightmost point *)
Theorem band_upper_bound (xs ds ws : list R) (LO HI S' : R) (p1 : R * R) :
  length xs = length ws -> length ds = length ws -> Forall (fun w => 0 <= w) ws -> rsum ws = 1 ->
  In p1 (combine xs ds) -> (forall p, In p (combine xs ds) -> fst p <= fst p1) ->
  (LO <= snd p1 <= HI -> fst p1 <= S') ->
  (forall p q l, In p (combine xs ds) -> In q (combine xs ds) -> l = LO \/ l = HI -> snd p <> snd q ->
    0 <= (l - snd p) / (snd q - snd p) <= 1 -> fst p + (l - snd p) / (snd q - snd p) * (fst q - fst p) <= S') ->
  LO <= rdot ws ds <= HI -> rdot ws xs <= S'.
Proof.
  intros Hlx Hld Hw Hsum Hp1 Hright Hin Hchord Hd.
  enough (- S' <= rdot ws (map Ropp xs)) by (rewrite rdot_opp_xs in H; lra).
  apply (band_lower_bound (map Ropp xs) ds ws LO HI (- S') (- fst p1, snd p1)); try assumption.
  - rewrite map_length. exact Hlx.
  - apply in_combine_opp_l'. destruct p1; exact Hp1.
  - intros [x d] Hp. cbn [fst]. apply in_combine_opp_l in Hp. specialize (Hright _ Hp). cbn [fst] in Hright. lra.
  - cbn [fst snd]. intros H. specialize (Hin H). lra.
  - intros [xp dp] [xq dq] l Hp Hq Hl Hne Hu. cbn [fst snd] in *.
    apply in_combine_opp_l in Hp, Hq.
    specialize (Hchord (- xp, dp) (- xq, dq) l Hp Hq Hl Hne Hu). cbn [fst snd] in Hchord.
    replace (xq - xp) with (- (- xq - - xp)) by ring. lra.
Qed.
