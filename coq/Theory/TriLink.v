(* The link between the two descriptions of a Bezier triangle:
     tsum  (the bivariate Bernstein sum, row by row; what evaluate_barycentric computes)  and
     iterD (d rounds of the triangular de Casteljau operator on index functions).
   Any commutative ring, every degree. *)
From Coq Require Import List Arith Lia Ring.
From BZ Require Import Base.Ops Model.Curve Model.Triangle Theory.CurveEval Theory.CurveSubdiv Theory.TriEval Theory.TriBlossom.
Import ListNotations.

Section Link.
Context {T : Type} (K : Ops T) (RT : ring_of K).
Add Ring TRL : RT.
Declare Scope t_scope. Delimit Scope t_scope with t.
Notation "0" := (o0 K) : t_scope. Notation "1" := (o1 K) : t_scope.
Infix "+" := (oadd K) : t_scope. Infix "*" := (omul K) : t_scope. Infix "-" := (osub K) : t_scope.
Local Open Scope t_scope.
Notation F := (nat -> nat -> T).

Variables w1 w2 w3 : T.
Definition E (g : F) : F := fun j k => w1 * g j k + w2 * g (S j) k.
Definition Sh (g : F) : F := fun j k => g j (S k).
Fixpoint iterE (n : nat) (g : F) : F := match n with O => g | S n' => iterE n' (E g) end.
Fixpoint iterSh (n : nat) (g : F) : F := match n with O => g | S n' => iterSh n' (Sh g) end.
Notation Dw := (D K (w1, w2, w3)).
Notation iterDw := (iterD K (w1, w2, w3)).

Lemma iterE_fext n : forall f g, fext f g -> fext (iterE n f) (iterE n g).
Proof. induction n; intros f g H; cbn [iterE]; [exact H|]. apply IHn. intros j k. unfold E. now rewrite !H. Qed.
Lemma iterSh_fext n : forall f g, fext f g -> fext (iterSh n f) (iterSh n g).
Proof. induction n; intros f g H; cbn [iterSh]; [exact H|]. apply IHn. intros j k. unfold Sh. apply H. Qed.
Lemma iterSh_spec n : forall f j k, iterSh n f j k = f j (n + k)%nat.
Proof. induction n; intros f j k; cbn [iterSh]; [reflexivity|]. rewrite IHn. unfold Sh. f_equal; lia. Qed.
Lemma iterSh_D n : forall f, fext (iterSh n (Dw f)) (Dw (iterSh n f)).
Proof.
  intros f j k. rewrite iterSh_spec. unfold D. rewrite !iterSh_spec. replace (n + S k)%nat with (S (n + k)) by lia. reflexivity.
Qed.
Lemma iterE_S_out n : forall g, fext (iterE (S n) g) (E (iterE n g)).
Proof.
  induction n; intros g j k; [reflexivity|].
  change (iterE (S (S n)) g) with (iterE (S n) (E g)). rewrite IHn. reflexivity.
Qed.
(* iterE is linear; D = E + w3 Sh *)
Lemma iterE_D m : forall g j k,
  iterE m (Dw g) j k = iterE (S m) g j k + w3 * iterE m (Sh g) j k.
Proof.
  induction m; intros g j k.
  - cbn [iterE]. unfold D, E, Sh. ring.
  - change (iterE (S m) (Dw g)) with (iterE m (E (Dw g))).
    assert (H : fext (E (Dw g)) (Dw (E g))).
    { intros j' k'. unfold E, D. ring. }
    rewrite (iterE_fext m _ _ H j k). rewrite IHm.
    change (iterE (S m) (E g)) with (iterE (S (S m)) g).
    assert (H2 : fext (Sh (E g)) (E (Sh g))) by (intros j' k'; reflexivity).
    rewrite (iterE_fext m _ _ H2 j k). reflexivity.
Qed.

(* finite sums sum_{k=0}^{n} g k *)
Fixpoint sumk (n : nat) (g : nat -> T) : T := match n with O => g 0%nat | S n' => sumk n' g + g (S n') end.
Lemma sumk_ext n : forall g h, (forall k, (k <= n)%nat -> g k = h k) -> sumk n g = sumk n h.
Proof. induction n; intros g h H; cbn [sumk]; [apply H; lia|]. rewrite (IHn g h), (H (S n)) by (auto; intros; apply H; lia). reflexivity. Qed.
Lemma sumk_add n : forall g h, sumk n (fun k => g k + h k) = sumk n g + sumk n h.
Proof. induction n; intros g h; cbn [sumk]; [reflexivity|]. rewrite IHn. ring. Qed.
Lemma sumk_shift n : forall g, sumk (S n) g = g 0%nat + sumk n (fun k => g (S k)).
Proof. induction n; intros g; [reflexivity|]. cbn [sumk] in IHn |- *. rewrite IHn. ring. Qed.

Definition A (f : F) (m k : nat) : T := iterE m (iterSh k f) 0%nat 0%nat.

(* binomial expansion of the triangular de Casteljau operator *)
Theorem iterD_expansion : forall n f,
  iterDw n f 0%nat 0%nat = sumk n (fun k => ofn K (choose n k) * pw K w3 k * A f (n - k) k).
Proof.
  induction n as [|n IH]; intros f.
  - cbn [iterD sumk]. unfold A. cbn [iterE iterSh choose ofn pw Nat.sub]. ring.
  - cbn [iterD]. rewrite IH.
    (* term k of the sum for D f *)
    assert (Ht : forall k, (k <= n)%nat ->
      ofn K (choose n k) * pw K w3 k * A (Dw f) (n - k) k
      = ofn K (choose n k) * pw K w3 k * A f (S n - k) k + ofn K (choose n k) * pw K w3 (S k) * A f (n - k) (S k)).
    { intros k Hk. unfold A.
      rewrite (iterE_fext (n - k) _ _ (iterSh_D k f) 0%nat 0%nat).
      rewrite iterE_D. replace (S n - k)%nat with (S (n - k)) by lia.
      assert (Hx : fext (Sh (iterSh k f)) (iterSh (S k) f)).
      { intros j' k'. cbn [iterSh]. unfold Sh at 1. rewrite !iterSh_spec. unfold Sh. f_equal; lia. }
      rewrite (iterE_fext (n - k) _ _ Hx 0%nat 0%nat).
      cbn [pw]. ring. }
    rewrite (sumk_ext n _ _ Ht). rewrite sumk_add.
    set (S1 := sumk n (fun k => ofn K (choose n k) * pw K w3 k * A f (S n - k) k)).
    set (S2 := sumk n (fun k => ofn K (choose n k) * pw K w3 (S k) * A f (n - k) (S k))).
    rewrite (sumk_shift n (fun k => ofn K (choose (S n) k) * pw K w3 k * A f (S n - k) k)).
    assert (Hs : sumk n (fun k => ofn K (choose (S n) (S k)) * pw K w3 (S k) * A f (S n - S k) (S k))
               = S2 + sumk n (fun k => ofn K (choose n (S k)) * pw K w3 (S k) * A f (n - k) (S k))).
    { subst S2. rewrite <- sumk_add. apply sumk_ext. intros k Hk. change (choose (S n) (S k)) with (choose n k + choose n (S k))%nat.
      rewrite (ofn_add K RT). replace (S n - S k)%nat with (n - k)%nat by lia. ring. }
    rewrite Hs.
    set (S3 := sumk n (fun k => ofn K (choose n (S k)) * pw K w3 (S k) * A f (n - k) (S k))).
    assert (H13 : S1 = ofn K (choose (S n) 0) * pw K w3 0 * A f (S n - 0) 0 + S3).
    { subst S1 S3. destruct n as [|m].
      - change (sumk 0 ?g) with (g 0%nat). cbv beta. rewrite (choose_gt 0 1) by lia. rewrite !choose_0.
        change (ofn K 0) with 0. ring.
      - rewrite (sumk_shift m (fun k => ofn K (choose (S m) k) * pw K w3 k * A f (S (S m) - k) k)).
        rewrite !choose_0.
        change (sumk (S m) (fun k => ofn K (choose (S m) (S k)) * pw K w3 (S k) * A f (S m - k) (S k)))
          with (sumk m (fun k => ofn K (choose (S m) (S k)) * pw K w3 (S k) * A f (S m - k) (S k))
                + ofn K (choose (S m) (S (S m))) * pw K w3 (S (S m)) * A f (S m - S m) (S (S m))).
        rewrite (choose_gt (S m) (S (S m))) by lia. change (ofn K 0) with 0.
        assert (Hm : sumk m (fun k => ofn K (choose (S m) (S k)) * pw K w3 (S k) * A f (S (S m) - S k) (S k))
                   = sumk m (fun k => ofn K (choose (S m) (S k)) * pw K w3 (S k) * A f (S m - k) (S k))).
        { apply sumk_ext. intros k Hk. replace (S (S m) - S k)%nat with (S m - k)%nat by lia. reflexivity. }
        rewrite Hm. ring. }
    rewrite H13. ring.
Qed.

(* rows as an index function *)
Definition fun_of (rows : list (list T)) : F := fun j k => nth j (nth k rows []) 0.

Lemma iterE_dc m : forall (g : F) k,
  iterE m g 0%nat k = dc_eval K m w1 w2 (map (fun j => g j k) (seq 0 (S m))).
Proof.
  assert (G : forall m (g : F) k i, iterE m g i k = dc_eval K m w1 w2 (map (fun j => g j k) (seq i (S m)))).
  { clear m. intros m. induction m as [|m IH]; intros g k i; [reflexivity|].
    cbn [iterE dc_eval]. rewrite (dc_round_map_seq K). rewrite IH. reflexivity. }
  intros. apply G.
Qed.

Lemma map_nth_seq (l : list T) : map (fun j => nth j l 0) (seq 0 (length l)) = l.
Proof.
  induction l as [|a l IH]; [reflexivity|]. cbn [length seq map nth]. f_equal.
  rewrite <- seq_shift, map_map. exact IH.
Qed.

Theorem tsum_is_de_casteljau d rows : well_formed d rows ->
  tsum K d 0 rows w1 w2 w3 = iterDw d (fun_of rows) 0%nat 0%nat.
Proof.
  intros [Hlen Hrow]. rewrite iterD_expansion.
  (* tsum as a sumk *)
  assert (G : forall n rs k0, length rs = S n ->
     tsum K d k0 rs w1 w2 w3 = sumk n (fun k => ofn K (choose d (k0 + k)) * pw K w3 (k0 + k) * bernstein K (nth k rs []) w1 w2)).
  { induction n as [|n IH]; intros rs k0 Hl.
    - destruct rs as [|r [|? ?]]; simpl in Hl; try discriminate. cbn [tsum sumk nth]. rewrite Nat.add_0_r. ring.
    - destruct rs as [|r rs]; [discriminate|]. simpl in Hl. injection Hl as Hl.
      cbn [tsum]. rewrite (IH rs (S k0) Hl). rewrite sumk_shift. cbn [nth]. rewrite Nat.add_0_r.
      f_equal. apply sumk_ext. intros k Hk. replace (S k0 + k)%nat with (k0 + S k)%nat by lia. reflexivity. }
  rewrite (G d rows 0%nat Hlen). apply sumk_ext. intros k Hk. cbn [Nat.add]. f_equal.
  unfold A. rewrite iterE_dc.
  assert (Hr : map (fun j => iterSh k (fun_of rows) j 0%nat) (seq 0 (S (d - k))) = nth k rows []).
  { transitivity (map (fun j => nth j (nth k rows []) 0) (seq 0 (length (nth k rows [])))); [|apply map_nth_seq].
    rewrite Hrow by lia. replace (S d - k)%nat with (S (d - k)) by lia.
    apply map_ext. intros j. rewrite iterSh_spec. unfold fun_of. rewrite Nat.add_0_r. reflexivity. }
  rewrite Hr. rewrite <- (eval_dc_correct K RT).
  - unfold eval_dc. rewrite Hrow by lia. replace (S d - k - 1)%nat with (d - k)%nat by lia. reflexivity.
  - intro E0. apply (f_equal (@length T)) in E0. rewrite Hrow in E0 by lia. cbn [length] in E0. lia.
Qed.
End Link.
