(* The hard-coded subdivision tables ARE the generic Pascal construction, so the
   table path of subdivide_nodes is specialization to [0,1/2] / [1/2,1] too. *)
From Coq Require Import List Arith Lia QArith Qcanon Bool.
From BZ Require Import Base.Ops Base.QcInst Model.Curve Model.CurvePy Gen.PyCurveHelpers
  Theory.CurveEval Theory.CurveSubdiv.
Import ListNotations.

Definition subdiv_entry_ok (e : nat * (list (list Q) * list (list Q))) : bool :=
  let n := (fst e - 1)%nat in
  Nat.leb 2 (fst e) &&
  mat_eqb (tcols (fst (snd e))) (left_cols QcOps n) &&
  mat_eqb (tcols (snd (snd e))) (right_cols QcOps n).

Lemma subdivide_tables_match : forallb subdiv_entry_ok subdivide_dispatch = true.
Proof. vm_compute. reflexivity. Qed.

Lemma lookup_some {A} k (tbl : list (nat * A)) x : lookup k tbl = Some x -> In (k, x) tbl.
Proof.
  unfold lookup. destruct (find _ tbl) as [e|] eqn:E; [|discriminate].
  intros H. injection H as <-. apply find_some in E. destruct E as [Hin Hk].
  apply Nat.eqb_eq in Hk. destruct e as [k' x']. simpl in *. subst. exact Hin.
Qed.

Theorem subdivide_nodes_py_generic v :
  subdivide_nodes_py v = (subdivide_left QcOps v, subdivide_right QcOps v).
Proof.
  unfold subdivide_nodes_py. destruct (lookup (length v) subdivide_dispatch) as [[l r]|] eqn:E; [|reflexivity].
  apply lookup_some in E.
  pose proof (proj1 (forallb_forall _ _) subdivide_tables_match _ E) as H.
  unfold subdiv_entry_ok in H. cbn [fst snd] in H.
  apply andb_true_iff in H. destruct H as [H Hr]. apply andb_true_iff in H. destruct H as [_ Hl].
  apply mat_eqb_eq in Hl. apply mat_eqb_eq in Hr.
  unfold subdivide_left, subdivide_right. rewrite Hl, Hr. reflexivity.
Qed.

Theorem subdivide_nodes_py_correct v : (2 <= length v)%nat ->
  subdivide_nodes_py v = (specialize QcOps v (o0 QcOps) (half QcOps), specialize QcOps v (half QcOps) (o1 QcOps)).
Proof.
  intros Hl. rewrite subdivide_nodes_py_generic.
  rewrite (subdivide_left_is_specialize QcOps QcField QcChar0) by exact Hl.
  rewrite (subdivide_right_is_specialize QcOps QcField QcChar0) by exact Hl.
  reflexivity.
Qed.

(* every point of the halves is the corresponding point of the original *)
Theorem subdivide_nodes_py_shape v s : (2 <= length v)%nat ->
  let lr := subdivide_nodes_py v in
  bernstein QcOps (fst lr) (1 - s) s = bernstein QcOps v (1 - s * half QcOps) (s * half QcOps) /\
  bernstein QcOps (snd lr) (1 - s) s
    = bernstein QcOps v (1 - ((1 - s) * half QcOps + s)) ((1 - s) * half QcOps + s).
Proof.
  intros Hl lr. subst lr. rewrite subdivide_nodes_py_correct by exact Hl. cbn [fst snd].
  split.
  - rewrite (specialize_correct QcOps QcRing) by exact Hl. cbn [o0 o1 oadd omul osub QcOps].
    f_equal; ring.
  - rewrite (specialize_correct QcOps QcRing) by exact Hl. cbn [o0 o1 oadd omul osub QcOps].
    f_equal; ring.
Qed.

(* C01: the binary64 running binomial of evaluate_multi_vs is exact for every degree the VS branch
   can see (num_nodes <= the literal read from the source) *)
From BZ Require Import Theory.CurveEvalExtra.
Lemma running_binomial_exact_below_switch : binom_exact_upto vs_max_nodes = true.
Proof. vm_compute. reflexivity. Qed.
(* a fact of arithmetic (not about the code): the recurrence first rounds at 56 nodes (degree 55) *)
Example running_binomial_inexact_at_degree_55 : binom_exact_for_degree 55 = false.
Proof. vm_compute. reflexivity. Qed.
