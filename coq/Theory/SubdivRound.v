(* C04 (rounding clause): specialize_curve and the generic subdivision in the standard model of floating point.
   - every control point of specialize(v, a, b), computed with relative error u per operation, differs from the exact
     reparametrised control point by at most ((1+u)^(3n) - 1) * (the same blossom of |v| with weights |1-a|,|a|,|1-b|,|b|);
   - a dot product of computed weights (k roundings) with exact nodes carries at most k + L + 1 roundings. *)
From Coq Require Import Reals Lra Lia List Arith ZArith Bool.
From BZ Require Import Base.Ops Base.RInst Model.Curve Theory.CurveEval Theory.CurveSubdiv Theory.Rounding Theory.CurveRound.
Import ListNotations.
Local Open Scope R_scope.

Section Fl.
Variable u : R.
Hypothesis Hu : 0 <= u.
Variable fl : R -> R.
Hypothesis fl_spec : forall x, Rabs (fl x - x) <= u * Rabs x.
Notation Fl := (FlOps fl).
Notation approx := (approx u).
Notation A3 := (A3 u).

Lemma A3_weaken k k' C A M : (k <= k')%nat -> A3 k C A M -> A3 k' C A M.
Proof. intros Hk. induction 1; constructor; [eapply approx_weaken; eauto|assumption]. Qed.

(* r rounds with the same (approximate) weights *)
Lemma iter_round_A3 k1 k2 l1c l1a l1m l2c l2a l2m :
  approx k1 l1c l1a l1m -> approx k2 l2c l2a l2m ->
  forall r k C A M, A3 k C A M ->
  A3 (r * (Nat.max k1 k2 + 2) + k) (iter (dc_round Fl l1c l2c) r C) (iter (dc_round ROps l1a l2a) r A) (iter (dc_round ROps l1m l2m) r M).
Proof.
  intros H1 H2. induction r as [|r IH]; intros k C A M H; [exact H|].
  cbn [iter]. replace (S r * (Nat.max k1 k2 + 2) + k)%nat with (r * (Nat.max k1 k2 + 2) + S (S (Nat.max k1 k2 + k)))%nat by lia.
  apply IH. apply (dc_round_A3 u Hu fl fl_spec k1 k2 _ _ _ _ _ _ H1 H2). exact H.
Qed.

(* one round of the code's dcR t = dc_round (1 - t) t, and its majorant *)
Definition dcRabs (t : R) (v : list R) : list R := dc_round ROps (Rabs (1 - t)) (Rabs t) v.
Lemma iter_dcR_A3 t : forall r k C A M, A3 k C A M ->
  A3 (r * 3 + k) (iter (dcR Fl t) r C) (iter (dcR ROps t) r A) (iter (dcRabs t) r M).
Proof.
  intros r k C A M H.
  pose proof (iter_round_A3 1 0 (osub Fl 1 t) (1 - t) (Rabs (1 - t)) t t (Rabs t)
                (approx_sub_exact u Hu fl fl_spec t) (approx_exact u t) r k C A M H) as H'.
  exact H'.
Qed.

(* the majorant of node j: the same sequence of rounds on absolute values *)
Definition Pabs (a b : R) (n j : nat) (v : list R) : R :=
  hd 0 (iter (dcRabs b) j (iter (dcRabs a) (n - j) (map Rabs v))).

Theorem specialize_node_rounding v a b j : (2 <= length v)%nat -> (j <= length v - 1)%nat ->
  approx (3 * (length v - 1))
         (nth j (specialize Fl v a b) 0) (nth j (specialize ROps v a b) 0) (Pabs a b (length v - 1) j v).
Proof.
  intros Hl Hj. set (n := (length v - 1)%nat).
  rewrite !specialize_refines by exact Hl. fold n. unfold L.
  rewrite (nth_indep (map (fun j => P Fl a b n j v) (seq 0 (S n))) 0 (P Fl a b n 0%nat v)) by (rewrite map_length, seq_length; lia).
  rewrite (nth_indep (map (fun j => P ROps a b n j v) (seq 0 (S n))) 0 (P ROps a b n 0%nat v)) by (rewrite map_length, seq_length; lia).
  rewrite (map_nth (fun j => P Fl a b n j v)), (map_nth (fun j => P ROps a b n j v)).
  rewrite seq_nth by lia. cbn [Nat.add]. unfold P, Pabs.
  apply (A3_hd u Hu).
  pose proof (iter_dcR_A3 a (n - j) 0 _ _ _ (A3_exact u v)) as Ha.
  pose proof (iter_dcR_A3 b j _ _ _ _ Ha) as Hb.
  apply (A3_weaken _ (3 * n)) in Hb; [exact Hb|lia].
Qed.

(* ---- dot products: computed weights (k_w roundings) against computed nodes (k_v roundings) ---- *)
Lemma dot_rounding kw kv : forall Wc Wa Wm Vc Va Vm, A3 kw Wc Wa Wm -> A3 kv Vc Va Vm ->
  approx (kw + kv + 1 + length Wc) (dot Fl Wc Vc) (dot ROps Wa Va) (dot ROps Wm Vm).
Proof.
  intros Wc Wa Wm Vc Va Vm HW. revert Vc Va Vm.
  induction HW as [|wc wa wm Wc Wa Wm Hw HW IH]; intros Vc Va Vm HV.
  - cbn [dot length]. apply (approx_weaken u Hu 0); [lia|]. cbn [o0 FlOps ROps]. apply (approx_exact_le u). rewrite Rabs_R0. lra.
  - destruct HV as [|vc va vm Vc Va Vm Hv HV].
    + cbn [dot]. apply (approx_weaken u Hu 0); [lia|]. cbn [o0 FlOps ROps]. apply (approx_exact_le u). rewrite Rabs_R0. lra.
    + cbn [dot length]. cbn [oadd omul FlOps ROps].
      replace (kw + kv + 1 + S (length Wc))%nat with (S (kw + kv + 1 + length Wc)) by lia.
      apply (approx_add u Hu fl fl_spec).
      * apply (approx_weaken u Hu (S (kw + kv))); [lia|]. apply (approx_mul u Hu fl fl_spec); assumption.
      * apply IH. exact HV.
Qed.

(* ---- make_subdivision_matrices computed in the same arithmetic: column k carries at most 3k roundings ---- *)
Hypothesis fl_two : fl 2 = 2.

Lemma half_approx : approx 1 (half Fl) (half ROps) (half ROps).
Proof.
  unfold half. cbn [odiv oadd o1 FlOps ROps]. replace (1 + 1) with 2 by lra. rewrite fl_two.
  apply (round_step u Hu fl fl_spec 0).
  - replace (1 / 2 - 1 / 2) with 0 by lra. rewrite Rabs_R0, g_0. lra.
  - rewrite Rabs_pos_eq; lra.
  - simpl. rewrite Rabs_pos_eq; lra.
Qed.
Lemma half_R_val : half ROps = / 2.
Proof. unfold half. cbn [odiv oadd o1 ROps]. lra. Qed.

Lemma A3_app k C A M C' A' M' : A3 k C A M -> A3 k C' A' M' -> A3 k (C ++ C') (A ++ A') (M ++ M').
Proof. induction 1; cbn [app]; [auto|constructor; auto]. Qed.
Lemma A3_zero k : approx k 0 0 0.
Proof. apply (approx_weaken u Hu 0); [lia|]. apply (approx_exact_le u). rewrite Rabs_R0. lra. Qed.
Lemma A3_zeros k m : A3 k (repeat 0 m) (repeat 0 m) (repeat 0 m).
Proof. induction m; cbn [repeat]; constructor; [apply A3_zero|assumption]. Qed.
Lemma A3_rev k C A M : A3 k C A M -> A3 k (rev C) (rev A) (rev M).
Proof. induction 1; cbn [rev]; [constructor|]. apply A3_app; [assumption|]. constructor; [assumption|constructor]. Qed.
Lemma A3_zipw_add k : forall C A M C' A' M', A3 k C A M -> A3 k C' A' M' ->
  A3 (S k) (zipw (oadd Fl) C C') (zipw (oadd ROps) A A') (zipw (oadd ROps) M M').
Proof.
  intros C A M C' A' M' H. revert C' A' M'. induction H as [|c a m C A M Hc H IH]; intros C' A' M' H'; [constructor|].
  destruct H' as [|c' a' m' C' A' M' Hc' H']; [constructor|].
  cbn [zipw]. constructor; [|apply IH; exact H']. cbn [oadd FlOps ROps]. apply (approx_add u Hu fl fl_spec); assumption.
Qed.
Lemma A3_map_scal k kc lc la lm C A M : approx kc lc la lm -> A3 k C A M ->
  A3 (S (kc + k)) (map (fun x => omul Fl lc x) C) (map (fun x => omul ROps la x) A) (map (fun x => omul ROps lm x) M).
Proof.
  intros Hl. induction 1; cbn [map]; constructor; [|assumption].
  cbn [omul FlOps ROps]. apply (approx_mul u Hu fl fl_spec); assumption.
Qed.

Lemma next_left_col_A3 k C A M : A3 k C A M ->
  A3 (k + 3) (next_left_col Fl C) (next_left_col ROps A) (next_left_col ROps M).
Proof.
  intros H. unfold next_left_col.
  pose proof (A3_map_scal k 1 _ _ _ _ _ _ half_approx H) as Hh.
  replace (k + 3)%nat with (S (S (1 + k))) by lia.
  apply A3_zipw_add.
  - apply A3_app; [exact Hh|]. constructor; [apply A3_zero|constructor].
  - constructor; [apply A3_zero|exact Hh].
Qed.

(* the list of columns: entry j carries k0 + 3 j roundings *)
Lemma left_cols_aux_A3 : forall n k0 C A M, A3 k0 C A M -> forall j, (j <= n)%nat ->
  A3 (k0 + 3 * j) (nth j (left_cols_aux Fl n C) []) (nth j (left_cols_aux ROps n A) []) (nth j (left_cols_aux ROps n M) []).
Proof.
  induction n as [|n IH]; intros k0 C A M H j Hj.
  - assert (j = 0%nat) by lia. subst j. cbn [left_cols_aux nth]. rewrite Nat.mul_0_r, Nat.add_0_r. exact H.
  - cbn [left_cols_aux]. destruct j as [|j]; [cbn [nth]; rewrite Nat.mul_0_r, Nat.add_0_r; exact H|].
    cbn [nth]. replace (k0 + 3 * S j)%nat with ((k0 + 3) + 3 * j)%nat by lia.
    apply IH; [apply next_left_col_A3; exact H|lia].
Qed.
Lemma left_col_A3 n j : (j <= n)%nat ->
  A3 (3 * j) (nth j (left_cols_raw Fl n) []) (nth j (left_cols_raw ROps n) []) (nth j (left_cols_raw ROps n) []).
Proof.
  intros Hj. unfold left_cols_raw.
  pose proof (left_cols_aux_A3 n 0 [1] [1] [1]) as H. cbn [Nat.add] in H. apply H; [|exact Hj].
  constructor; [|constructor]. apply (approx_exact_le u). rewrite Rabs_R1. lra.
Qed.
Lemma left_cols_aux_length {T} (K : Ops T) : forall n c, length (left_cols_aux K n c) = S n.
Proof. induction n; intros c; cbn [left_cols_aux length]; [reflexivity|rewrite IHn; reflexivity]. Qed.

(* a control point of the left half, generic path, everything (matrix and product) computed with rounding *)
Theorem subdivide_left_node_rounding v j : (j <= length v - 1)%nat ->
  approx (3 * j + 1 + length (nth j (left_cols Fl (length v - 1)) []))
         (nth j (subdivide_left Fl v) 0) (nth j (subdivide_left ROps v) 0) (nth j (subdivide_left ROps (map Rabs v)) 0).
Proof.
  intros Hj. set (n := (length v - 1)%nat) in *.
  unfold subdivide_left, matvec. rewrite map_length. fold n.
  assert (Hlen : forall {T} (K : Ops T), length (left_cols K n) = S n).
  { intros T K. unfold left_cols, left_cols_raw. rewrite map_length. apply left_cols_aux_length. }
  rewrite (nth_indep (map _ (left_cols Fl n)) 0 (dot Fl [] v)) by (rewrite map_length, Hlen; lia).
  rewrite (nth_indep (map (fun c => dot ROps c v) (left_cols ROps n)) 0 (dot ROps [] v)) by (rewrite map_length, Hlen; lia).
  rewrite (nth_indep (map (fun c => dot ROps c (map Rabs v)) (left_cols ROps n)) 0 (dot ROps [] (map Rabs v))) by (rewrite map_length, Hlen; lia).
  rewrite (map_nth (fun c => dot Fl c v)), (map_nth (fun c => dot ROps c v)), (map_nth (fun c => dot ROps c (map Rabs v))).
  assert (Hcol : A3 (3 * j) (nth j (left_cols Fl n) []) (nth j (left_cols ROps n) []) (nth j (left_cols ROps n) [])).
  { unfold left_cols.
    assert (Hraw : forall {T} (K : Ops T), length (left_cols_raw K n) = S n) by (intros; apply left_cols_aux_length).
    rewrite (nth_indep (map (pad Fl (S n)) _) [] (pad Fl (S n) [])) by (rewrite map_length, Hraw; lia).
    rewrite (nth_indep (map (pad ROps (S n)) _) [] (pad ROps (S n) [])) by (rewrite map_length, Hraw; lia).
    rewrite (map_nth (pad Fl (S n))), (map_nth (pad ROps (S n))).
    pose proof (left_col_A3 n j Hj) as Hc. destruct (A3_length u _ _ _ _ Hc) as [L1 _].
    unfold pad. rewrite <- L1. apply A3_app; [exact Hc|]. apply A3_zeros. }
  pose proof (dot_rounding (3 * j) 0 _ _ _ _ _ _ Hcol (A3_exact u v)) as H.
  replace (3 * j + 0 + 1)%nat with (3 * j + 1)%nat in H by lia. exact H.
Qed.

Lemma left_cols_aux_nth_length {T} (K : Ops T) : forall n c j, (j <= n)%nat ->
  length (nth j (left_cols_aux K n c) []) = (j + length c)%nat.
Proof.
  induction n as [|n IH]; intros c j Hj.
  - assert (j = 0%nat) by lia. subst j. reflexivity.
  - cbn [left_cols_aux]. destruct j as [|j]; [reflexivity|]. cbn [nth]. rewrite IH by lia. rewrite next_left_col_length. lia.
Qed.

(* closed form of the count: at most 4 n + 2 roundings on every path, n = degree *)
Corollary subdivide_left_rounding v j : (j <= length v - 1)%nat ->
  approx (4 * (length v - 1) + 2)
         (nth j (subdivide_left Fl v) 0) (nth j (subdivide_left ROps v) 0) (nth j (subdivide_left ROps (map Rabs v)) 0).
Proof.
  intros Hj. pose proof (subdivide_left_node_rounding v j Hj) as H.
  set (n := (length v - 1)%nat) in *.
  apply (approx_weaken u Hu (3 * j + 1 + length (nth j (left_cols Fl n) []))); [|exact H].
  unfold left_cols.
  rewrite (nth_indep (map (pad Fl (S n)) _) [] (pad Fl (S n) [])) by (rewrite map_length; unfold left_cols_raw; rewrite left_cols_aux_length; lia).
  rewrite (map_nth (pad Fl (S n))). unfold pad. rewrite app_length, repeat_length.
  unfold left_cols_raw. rewrite left_cols_aux_nth_length by exact Hj. cbn [length]. lia.
Qed.

(* the right half: column j of `right` is column n - j of `left`, zero-padded in front *)
Theorem subdivide_right_rounding v j : (j <= length v - 1)%nat ->
  approx (4 * (length v - 1) + 2)
         (nth j (subdivide_right Fl v) 0) (nth j (subdivide_right ROps v) 0) (nth j (subdivide_right ROps (map Rabs v)) 0).
Proof.
  intros Hj. set (n := (length v - 1)%nat) in *.
  unfold subdivide_right, matvec. rewrite map_length. fold n.
  assert (Hraw : forall {T} (K : Ops T), length (left_cols_raw K n) = S n) by (intros; apply left_cols_aux_length).
  assert (Hlen : forall {T} (K : Ops T), length (right_cols K n) = S n).
  { intros T K. unfold right_cols. rewrite rev_length, map_length. apply Hraw. }
  rewrite (nth_indep (map _ (right_cols Fl n)) 0 (dot Fl [] v)) by (rewrite map_length, Hlen; lia).
  rewrite (nth_indep (map (fun c => dot ROps c v) (right_cols ROps n)) 0 (dot ROps [] v)) by (rewrite map_length, Hlen; lia).
  rewrite (nth_indep (map (fun c => dot ROps c (map Rabs v)) (right_cols ROps n)) 0 (dot ROps [] (map Rabs v))) by (rewrite map_length, Hlen; lia).
  rewrite (map_nth (fun c => dot Fl c v)), (map_nth (fun c => dot ROps c v)), (map_nth (fun c => dot ROps c (map Rabs v))).
  assert (Hcol : A3 (3 * (n - j)) (nth j (right_cols Fl n) []) (nth j (right_cols ROps n) []) (nth j (right_cols ROps n) []) /\
                 length (nth j (right_cols Fl n) []) = S n).
  { unfold right_cols.
    rewrite !rev_nth by (rewrite map_length, Hraw; lia). rewrite !map_length, !Hraw.
    replace (S n - S j)%nat with (n - j)%nat by lia.
    set (fF := fun c : list R => repeat (o0 Fl) (S n - length c) ++ c).
    set (fR := fun c : list R => repeat (o0 ROps) (S n - length c) ++ c).
    rewrite (nth_indep (map fF _) [] (fF [])) by (rewrite map_length, Hraw; lia).
    rewrite (nth_indep (map fR _) [] (fR [])) by (rewrite map_length, Hraw; lia).
    rewrite (map_nth fF), (map_nth fR).
    pose proof (left_col_A3 n (n - j) ltac:(lia)) as Hc. destruct (A3_length u _ _ _ _ Hc) as [L1 _].
    unfold fF, fR. rewrite <- L1. split.
    - apply A3_app; [apply A3_zeros | exact Hc].
    - rewrite app_length, repeat_length. unfold left_cols_raw. rewrite left_cols_aux_nth_length by lia. cbn [length]. lia. }
  destruct Hcol as [Hcol Hl].
  pose proof (dot_rounding (3 * (n - j)) 0 _ _ _ _ _ _ Hcol (A3_exact u v)) as H.
  apply (approx_weaken u Hu (3 * (n - j) + 0 + 1 + length (nth j (right_cols Fl n) []))); [rewrite Hl; lia | exact H].
Qed.
End Fl.
