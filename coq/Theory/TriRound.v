(* C05 (rounding clause): the model of evaluate_barycentric (row-wise curve evaluation, running binomial, Horner in lambda3)
   executed in the standard model of floating-point arithmetic differs from the bivariate Bernstein definition by at most
   ((1+u)^((k1+2) d + 4) - 1) * sum |d!/(i!j!k!) l1^i l2^j l3^k| |v_ijk|,   k1 = number of roundings already in lambda1
   (0 for barycentric input, 2 for Cartesian input lambda1 = fl(fl(1-s)-t)).  Every degree for which the running binomial
   is exact (checked up to 54), every net. *)
From Coq Require Import Reals Lra Lia List Arith ZArith Bool.
From BZ Require Import Base.Ops Base.RInst Model.Curve Model.Triangle Theory.CurveEval Theory.CurveEvalExtra Theory.TriEval
  Theory.Rounding Theory.CurveRound Theory.CurveRoundVS.
Import ListNotations.
Local Open Scope R_scope.

Section Fl.
Variable u : R.
Hypothesis Hu : 0 <= u.
Variable fl : R -> R.
Hypothesis fl_spec : forall x, Rabs (fl x - x) <= u * Rabs x.
Hypothesis fl_int : forall z : Z, repr53 z = true -> fl (IZR z) = IZR z.
Notation Fl := (FlOps fl).
Notation approx := (approx u).

Lemma tri_binom_step d k b : (k < d)%nat -> (Z.of_nat d + 1 < 2 ^ 53)%Z ->
  let prod := (b * (Z.of_nat k + 1))%Z in
  let quo := (prod / (Z.of_nat d - Z.of_nat k))%Z in
  repr53 prod = true -> (quo * (Z.of_nat d - Z.of_nat k))%Z = prod -> repr53 quo = true ->
  odiv Fl (omul Fl (IZR b) (ofn Fl (k + 1))) (ofn Fl (d - k)) = IZR quo /\
  odiv ROps (omul ROps (IZR b) (ofn ROps (k + 1))) (ofn ROps (d - k)) = IZR quo.
Proof.
  intros Hk Hd prod quo Hp Hq Hr.
  assert (Hdk : IZR (Z.of_nat d - Z.of_nat k) <> 0) by (apply not_0_IZR; lia).
  assert (Hprod : IZR b * INR (k + 1) = IZR prod).
  { rewrite INR_IZR_INZ, <- mult_IZR. f_equal. unfold prod. f_equal. lia. }
  assert (Hquo : IZR prod / INR (d - k) = IZR quo).
  { rewrite INR_IZR_INZ. replace (Z.of_nat (d - k)) with (Z.of_nat d - Z.of_nat k)%Z by lia.
    rewrite <- Hq, mult_IZR. field. exact Hdk. }
  split.
  - rewrite !(ofn_Fl fl fl_int) by lia. cbn [odiv omul FlOps]. rewrite Hprod, (fl_int _ Hp), Hquo. apply fl_int. exact Hr.
  - rewrite !ofn_R. cbn [odiv omul ROps]. rewrite Hprod. exact Hquo.
Qed.

(* rows still to process: the head has index k1 - 1 and d - (k1 - 1) + 1 entries *)
Inductive RowsOK (d : nat) : nat -> list (list R) -> Prop :=
| RO_nil : RowsOK d 0 []
| RO_cons k r rs : (k < d)%nat -> length r = (d - k + 1)%nat -> RowsOK d k rs -> RowsOK d (S k) (r :: rs).

Section Loop.
Variables (kk : nat) (l1c l1a l1m l2 l3 : R) (thr d : nat).
Hypothesis H1 : approx kk l1c l1a l1m.
Hypothesis Hthr : binom_exact_upto thr = true.
Hypothesis Hd : (Z.of_nat d + 1 < 2 ^ 53)%Z.
Let E (j : nat) : nat := ((kk + 2) * (d - j) + 2)%nat.

Lemma tri_loop_fl : forall k1 rows, RowsOK d k1 rows ->
  forall b resC resA resM,
  tri_binom_run (Z.of_nat d) k1 (Z.of_nat k1 - 1) b repr53 = true -> (0 <= b)%Z ->
  approx (E k1 + 2) resC resA resM ->
  approx (E 0 + 2)
    (tri_loop Fl thr d k1 rows (IZR b) resC l1c l2 l3)
    (tri_loop ROps thr d k1 rows (IZR b) resA l1a l2 l3)
    (tri_loop ROps thr d k1 (map (map Rabs) rows) (IZR b) resM l1m (Rabs l2) (Rabs l3)).
Proof.
  induction 1 as [|k r rs Hk Hlen Hrows IH]; intros b resC resA resM Hrun Hb Hres.
  - cbn [tri_loop map]. exact Hres.
  - cbn [map]. cbn [tri_loop].
    cbn [tri_binom_run] in Hrun. replace (Z.of_nat (S k) - 1)%Z with (Z.of_nat k) in Hrun by lia.
    apply andb_true_iff in Hrun as [Hrun Hnext]. apply andb_true_iff in Hrun as [Hrun Hrq].
    apply andb_true_iff in Hrun as [Hrp Heq]. apply Z.eqb_eq in Heq.
    set (prod := (b * (Z.of_nat k + 1))%Z) in *.
    set (quo := (prod / (Z.of_nat d - Z.of_nat k))%Z) in *.
    destruct (tri_binom_step d k b Hk Hd Hrp Heq Hrq) as [HbF HbR].
    assert (Hquo : (0 <= quo)%Z) by (apply Z.div_pos; [unfold prod; nia|lia]).
    rewrite HbF, !HbR.
    apply (IH quo); [exact Hnext | exact Hquo |].
    assert (Hbq : approx 0 (IZR quo) (IZR quo) (IZR quo)).
    { apply (approx_exact_le u). rewrite Rabs_pos_eq; [lra|]. apply IZR_le. exact Hquo. }
    assert (Hrow : approx (E k) (eval_bary Fl thr r l1c l2) (eval_bary ROps thr r l1a l2)
                          (eval_bary ROps thr (map Rabs r) l1m (Rabs l2))).
    { rewrite (eval_bary_correct ROps RField RChar0 thr r l1a l2) by (left; lia).
      rewrite (eval_bary_correct ROps RField RChar0 thr (map Rabs r) l1m (Rabs l2)) by (left; rewrite map_length; lia).
      pose proof (eval_bary_rounding_gen u Hu fl fl_spec fl_int kk _ _ _ l2 thr r H1 ltac:(lia) ltac:(lia) Hthr) as Hr.
      unfold E. replace (d - k)%nat with (length r - 1)%nat by lia. exact Hr. }
    cbn [oadd omul FlOps ROps].
    apply (approx_weaken u Hu (S (S (E k)))); [lia|].
    apply (approx_add u Hu fl fl_spec).
    + apply (approx_weaken u Hu (S (E (S k) + 2 + 0))); [unfold E; nia|].
      apply (approx_mul u Hu fl fl_spec); [exact Hres | apply approx_exact].
    + apply (approx_weaken u Hu (S (0 + E k))); [lia|].
      apply (approx_mul u Hu fl fl_spec); assumption.
Qed.
End Loop.

Lemma rows_ok_of_lengths d : forall rest k1, length rest = k1 -> (k1 <= d)%nat ->
  (forall m, (m < k1)%nat -> length (nth m rest []) = (d - (k1 - 1 - m) + 1)%nat) -> RowsOK d k1 rest.
Proof.
  induction rest as [|r rest IH]; intros k1 Hl Hk Hrow; cbn [length] in Hl; subst k1; [constructor|].
  constructor.
  - lia.
  - specialize (Hrow 0%nat ltac:(lia)). cbn [nth] in Hrow. rewrite Hrow. f_equal. lia.
  - apply IH; [reflexivity|lia|]. intros m Hm. specialize (Hrow (S m) ltac:(lia)). cbn [nth] in Hrow.
    rewrite Hrow. f_equal. lia.
Qed.

Lemma split_rows_map {A B} (f : A -> B) : forall len (v : list A),
  split_rows len (map f v) = map (map f) (split_rows len v).
Proof.
  induction len as [|len IH]; intros v; [reflexivity|].
  cbn [split_rows map]. rewrite firstn_map, skipn_map, IH. reflexivity.
Qed.

Theorem tri_eval_rounding kk l1c l1a l1m l2 l3 thr d v :
  approx kk l1c l1a l1m -> binom_exact_upto thr = true -> tri_binom_exact_double d = true ->
  (Z.of_nat d + 1 < 2 ^ 53)%Z -> length v = tri_size d ->
  approx ((kk + 2) * d + 4)
    (tri_eval Fl thr d v l1c l2 l3)
    (tri_bernstein ROps d v l1a l2 l3)
    (tri_bernstein ROps d (map Rabs v) l1m (Rabs l2) (Rabs l3)).
Proof.
  intros H1 Hthr Hbin Hd Hv.
  rewrite <- (tri_eval_correct ROps RField RChar0 thr d v l1a l2 l3 Hv).
  rewrite <- (tri_eval_correct ROps RField RChar0 thr d (map Rabs v) l1m (Rabs l2) (Rabs l3)) by (rewrite map_length; exact Hv).
  unfold tri_eval. rewrite split_rows_map.
  assert (Hwf : well_formed d (split_rows (S d) v)).
  { apply split_rows_well_formed. rewrite tri_num_size. exact Hv. }
  destruct Hwf as [Hlen Hrow].
  unfold tri_eval_rows. rewrite <- map_rev.
  destruct (rev (split_rows (S d) v)) as [|top rest] eqn:Er.
  { apply (f_equal (@length _)) in Er. rewrite rev_length, Hlen in Er. discriminate. }
  cbn [map].
  assert (Hrows : split_rows (S d) v = rev rest ++ [top]).
  { rewrite <- (rev_involutive (split_rows (S d) v)), Er. reflexivity. }
  assert (Hrest : length rest = d).
  { apply (f_equal (@length _)) in Er. rewrite rev_length, Hlen in Er. cbn [length] in Er. lia. }
  assert (Htop : length top = 1%nat).
  { specialize (Hrow d ltac:(lia)). rewrite Hrows in Hrow.
    rewrite app_nth2 in Hrow by (rewrite rev_length; lia).
    rewrite rev_length, Hrest, Nat.sub_diag in Hrow. cbn [nth] in Hrow. lia. }
  assert (Hok : RowsOK d d rest).
  { apply rows_ok_of_lengths; [exact Hrest|lia|]. intros m Hm.
    assert (Hrr : nth m rest [] = nth (d - 1 - m) (split_rows (S d) v) []).
    { rewrite Hrows. rewrite app_nth1 by (rewrite rev_length; lia). rewrite rev_nth by lia. f_equal. lia. }
    rewrite Hrr, Hrow by lia. lia. }
  change (o1 Fl) with (IZR 1). change (o1 ROps) with (IZR 1).
  destruct top as [|t0 [|? ?]]; cbn [length] in Htop; try lia. cbn [hd map].
  pose proof (tri_loop_fl kk l1c l1a l1m l2 l3 thr d H1 Hthr Hd d rest Hok 1%Z t0 t0 (Rabs t0)) as H.
  replace ((kk + 2) * d + 4)%nat with ((kk + 2) * (d - 0) + 2 + 2)%nat by lia.
  apply H.
  - exact Hbin.
  - lia.
  - apply (approx_weaken u Hu 0); [lia|apply approx_exact].
Qed.
End Fl.
