(* C13, Part B: the abstract soundness of polynomial_sign instantiated with real positivity on the closed reference triangle.
   Ingredients: homomorphism Qc -> R of the table path, tables = generic blossoming (C09), the blossoming theorem
   (a sub-net is the restriction to its quarter), the four quarters cover the triangle, Bernstein bounds (positive
   coefficients => positive polynomial).  Degrees 1..4 (the table path; is_valid uses degrees 2 and 4). *)
From Coq Require Import List Arith ZArith QArith Qcanon Reals RList Qreals Bool Lia Lra.
From BZ Require Import Base.Ops Base.QcInst Base.RInst Model.Curve Model.CurvePy Model.Triangle Model.TrianglePy Model.AreaPoly
  Gen.PyTriangleHelpers Theory.CurveEval Theory.TriEval Theory.TriBlossom Theory.TriLink Theory.TriLink2 Theory.TriTables
  Theory.TriPositivity Theory.Hom Theory.SignSound.
Import ListNotations.

Definition in_tri (l1 l2 l3 : R) : Prop := (0 <= l1 /\ 0 <= l2 /\ 0 <= l3 /\ l1 + l2 + l3 = 1)%R.
Definition PosR (d : nat) (p : list Qc) : Prop :=
  forall l1 l2 l3, in_tri l1 l2 l3 -> (0 < tri_bernstein ROps d (map Qc2R p) l1 l2 l3)%R.
Definition NegR (d : nat) (p : list Qc) : Prop :=
  forall l1 l2 l3, in_tri l1 l2 l3 -> (tri_bernstein ROps d (map Qc2R p) l1 l2 l3 < 0)%R.
Definition WFd (d : nat) (p : list Qc) : Prop := length p = tri_size d.

(* ---- the table path commutes with Qc -> R ---- *)
Lemma tcols_gen_hom m : map (map Qc2R) (tcols_gen Q2Qc m) = tcols_gen Q2R m.
Proof.
  unfold tcols_gen. rewrite <- transpose_map. f_equal. rewrite map_map. apply map_ext. intros r.
  rewrite map_map. apply map_ext. intros q. apply Qc2R_Q2Qc.
Qed.
Lemma tri_subdivide_hom d p : (1 <= d <= 4)%nat ->
  map (map Qc2R) (tri_subdivide_py d p) = tri_subdivide_gen ROps Q2R d (map Qc2R p).
Proof.
  intros Hd. unfold tri_subdivide_py, tri_subdivide_gen.
  destruct d as [|[|[|[|[|d]]]]]; try lia.
  all: match goal with |- context [lookup ?n ?tbl] =>
         let r := eval vm_compute in (lookup n tbl) in change (lookup n tbl) with r end.
  all: cbv beta iota; cbn [map]; rewrite !(matvec_hom QcOps ROps Qc2R Qc2R_hom), !tcols_gen_hom; reflexivity.
Qed.

Lemma sub_wf d p : (1 <= d <= 4)%nat -> WFd d p -> Forall (WFd d) (tri_subdivide_py d p).
Proof.
  intros Hd _. unfold tri_subdivide_py, tri_subdivide_gen, WFd.
  destruct d as [|[|[|[|[|d]]]]]; try lia.
  all: match goal with |- context [lookup ?n ?tbl] =>
         let r := eval vm_compute in (lookup n tbl) in change (lookup n tbl) with r end.
  all: cbv beta iota; repeat constructor; unfold matvec; rewrite map_length; vm_compute; reflexivity.
Qed.

(* ---- the four quarters cover the triangle ---- *)
Lemma quarters_cover d (v : list R) l1 l2 l3 : length v = tri_size d -> in_tri l1 l2 l3 ->
  exists q m1 m2 m3, In q (tri_subdivide_generic ROps Q2R d v) /\ in_tri m1 m2 m3 /\
    tri_bernstein ROps d q m1 m2 m3 = tri_bernstein ROps d v l1 l2 l3.
Proof.
  intros Hv (H1 & H2 & H3 & Hs).
  unfold tri_subdivide_generic.
  match goal with |- context [tri_subdivide_weights] =>
    let r := eval vm_compute in tri_subdivide_weights in change tri_subdivide_weights with r end.
  cbn [map w3_of].
  assert (Hh : Q2R (1 # 2) = (/ 2)%R) by (unfold Q2R; cbn; lra).
  assert (H0 : Q2R (0 # 1) = 0%R) by (unfold Q2R; cbn; lra).
  assert (H1' : Q2R (1 # 1) = 1%R) by (unfold Q2R; cbn; lra).
  rewrite !Hh, !H0, !H1'.
  destruct (Rle_dec (/ 2) l1) as [C1|C1]; [|destruct (Rle_dec (/ 2) l2) as [C2|C2]; [|destruct (Rle_dec (/ 2) l3) as [C3|C3]]].
  - eexists. exists (2 * l1 - 1)%R, (2 * l2)%R, (2 * l3)%R. split; [left; reflexivity|]. split; [unfold in_tri; lra|].
    rewrite (specialize_tri_correct ROps RRing d v _ _ _ _ _ _ Hv). cbn [comb oadd omul ROps]. f_equal; lra.
  - eexists. exists (2 * l1)%R, (2 * l2 - 1)%R, (2 * l3)%R. split; [right; right; left; reflexivity|]. split; [unfold in_tri; lra|].
    rewrite (specialize_tri_correct ROps RRing d v _ _ _ _ _ _ Hv). cbn [comb oadd omul ROps]. f_equal; lra.
  - eexists. exists (2 * l1)%R, (2 * l2)%R, (2 * l3 - 1)%R. split; [right; right; right; left; reflexivity|]. split; [unfold in_tri; lra|].
    rewrite (specialize_tri_correct ROps RRing d v _ _ _ _ _ _ Hv). cbn [comb oadd omul ROps]. f_equal; lra.
  - eexists. exists (1 - 2 * l1)%R, (1 - 2 * l2)%R, (1 - 2 * l3)%R. split; [right; left; reflexivity|]. split; [unfold in_tri; lra|].
    rewrite (specialize_tri_correct ROps RRing d v _ _ _ _ _ _ Hv). cbn [comb oadd omul ROps]. f_equal; lra.
Qed.

Lemma cover_gen (P : R -> Prop) d p : (1 <= d <= 4)%nat -> WFd d p ->
  Forall (fun q => forall l1 l2 l3, in_tri l1 l2 l3 -> P (tri_bernstein ROps d (map Qc2R q) l1 l2 l3)) (tri_subdivide_py d p) ->
  forall l1 l2 l3, in_tri l1 l2 l3 -> P (tri_bernstein ROps d (map Qc2R p) l1 l2 l3).
Proof.
  intros Hd Hw HF l1 l2 l3 Hin.
  assert (Hv : length (map Qc2R p) = tri_size d) by (rewrite map_length; exact Hw).
  destruct (quarters_cover d (map Qc2R p) l1 l2 l3 Hv Hin) as (q & m1 & m2 & m3 & Hq & Hm & He).
  rewrite <- (tri_tables_are_generic d _ Hv), <- (tri_subdivide_hom d p Hd) in Hq.
  apply in_map_iff in Hq. destruct Hq as [q0 [Eq Hq0]]. subst q.
  rewrite Forall_forall in HF. rewrite <- He. apply (HF q0 Hq0 m1 m2 m3 Hm).
Qed.

(* ---- decided pieces ---- *)
Lemma sgn_pos x : Z.eqb (sgn x) 1 = true -> (0 < Qc2R x)%R.
Proof.
  unfold sgn. destruct (Qc_eqb x (Q2Qc 0)) eqn:E0; [discriminate|].
  destruct (Qle_bool 0 (this x)) eqn:E1; [|discriminate]. intros _.
  apply Qle_bool_iff in E1. unfold Qc2R.
  replace 0%R with (Q2R 0) by (unfold Q2R; cbn; lra). apply Qlt_Rlt.
  apply Qle_lt_or_eq in E1. destruct E1 as [E1|E1]; [exact E1|].
  exfalso. unfold Qc_eqb in E0. apply Qeq_bool_neq in E0. apply E0. cbn [this Q2Qc]. rewrite Qred_correct. symmetry. exact E1.
Qed.
Lemma sgn_neg x : Z.eqb (sgn x) (-1) = true -> (Qc2R x < 0)%R.
Proof.
  unfold sgn. destruct (Qc_eqb x (Q2Qc 0)) eqn:E0; [discriminate|].
  destruct (Qle_bool 0 (this x)) eqn:E1; [discriminate|]. intros _.
  unfold Qc2R. replace 0%R with (Q2R 0) by (unfold Q2R; cbn; lra). apply Qlt_Rlt.
  apply Qnot_le_lt. intros Hc. apply Qle_bool_iff in Hc. congruence.
Qed.
Lemma min_exists (l : list R) : Forall (fun x => 0 < x)%R l -> exists m, (0 < m)%R /\ Forall (fun x => m <= x)%R l.
Proof.
  induction 1 as [|x l Hx _ [m [Hm IH]]]; [exists 1%R; split; [lra|constructor]|].
  exists (Rmin m x). split; [apply Rmin_pos; assumption|]. constructor; [apply Rmin_r|].
  eapply Forall_impl; [|exact IH]. intros y Hy. eapply Rle_trans; [apply Rmin_l|exact Hy].
Qed.
Lemma decided_pos d p : WFd d p -> forallb (fun x => Z.eqb (sgn x) 1) p = true -> PosR d p.
Proof.
  intros Hw Hall l1 l2 l3 (H1 & H2 & H3 & Hs).
  assert (HF : Forall (fun x => 0 < x)%R (map Qc2R p)).
  { apply Forall_forall. intros y Hy. apply in_map_iff in Hy. destruct Hy as [x [E Hx]]. subst y.
    apply sgn_pos. rewrite forallb_forall in Hall. apply Hall. exact Hx. }
  destruct (min_exists _ HF) as [m [Hm Hle]].
  apply (all_positive_coefficients d _ m); try assumption. rewrite map_length. exact Hw.
Qed.
Lemma decided_neg d p : WFd d p -> forallb (fun x => Z.eqb (sgn x) (-1)) p = true -> NegR d p.
Proof.
  intros Hw Hall l1 l2 l3 (H1 & H2 & H3 & Hs).
  assert (HF : Forall (fun x => 0 < x)%R (map Ropp (map Qc2R p))).
  { apply Forall_forall. intros y Hy. apply in_map_iff in Hy. destruct Hy as [z [E Hz]]. subst y.
    apply in_map_iff in Hz. destruct Hz as [x [E Hx]]. subst z.
    assert (Qc2R x < 0)%R by (apply sgn_neg; rewrite forallb_forall in Hall; apply Hall; exact Hx). lra. }
  destruct (min_exists _ HF) as [m [Hm Hle]].
  assert (Hlen : length (map Qc2R p) = tri_size d) by (rewrite map_length; exact Hw).
  (* bounds: every coefficient is <= -m *)
  assert (Hb : Forall (fun x => - (MaxRlist (map Ropp (map Qc2R p))) - 1 <= x <= - m)%R (map Qc2R p)).
  { apply Forall_forall. intros y Hy. split.
    - assert (In (- y)%R (map Ropp (map Qc2R p))) by (apply in_map; exact Hy).
      pose proof (MaxRlist_P1 (map Ropp (map Qc2R p)) (- y) H). lra.
    - rewrite Forall_forall in Hle. specialize (Hle (- y)%R (in_map Ropp _ _ Hy)). lra. }
  pose proof (tri_bernstein_bounds d _ _ _ l1 l2 l3 Hlen Hb H1 H2 H3 Hs). lra.
Qed.

(* ---- the theorems ---- *)
Theorem polynomial_sign_positive_sound d poly : (1 <= d <= 4)%nat -> length poly = tri_size d ->
  polynomial_sign_py poly d = SignIs 1 -> PosR d poly.
Proof.
  intros Hd Hw H.
  apply (polynomial_sign_sound d (WFd d) (PosR d) 1%Z ltac:(discriminate)); try assumption.
  - intros p Hp Ha. apply decided_pos; assumption.
  - intros p Hp. apply sub_wf; assumption.
  - intros p Hp HF. unfold PosR. apply (cover_gen (fun x => 0 < x)%R d p Hd Hp). exact HF.
Qed.
Theorem polynomial_sign_negative_sound d poly : (1 <= d <= 4)%nat -> length poly = tri_size d ->
  polynomial_sign_py poly d = SignIs (-1) -> NegR d poly.
Proof.
  intros Hd Hw H.
  apply (polynomial_sign_sound d (WFd d) (NegR d) (-1)%Z ltac:(discriminate)); try assumption.
  - intros p Hp Ha. apply decided_neg; assumption.
  - intros p Hp. apply sub_wf; assumption.
  - intros p Hp HF. unfold NegR. apply (cover_gen (fun x => x < 0)%R d p Hd Hp). exact HF.
Qed.
