(* C03 (pruning never discards a real common point; line-line complete; de-duplication rule) *)
From Coq Require Import List ZArith QArith Qabs Bool String Lia Lqa.
From BZ Require Import Base.Ops Base.PyVal Model.Curve Model.Intersect Gen.PyFnHelpers Gen.PyFnGeometric Gen.PyFnIntersect
  Gen.PyIntersectionHelpers Theory.Predicates Theory.IntersectFlow.
Import ListNotations.

Open Scope Q_scope.
(* ---- two non-parallel segments: exactly one column iff they meet, none otherwise ---- *)
Theorem check_lines_complete x0 y0 x1 y1 x2 y2 x3 y3 c1 c2 :
  ~ (x1 - x0) * (y3 - y2) - (y1 - y0) * (x3 - x2) == 0 ->
  exists s t, x0 + s * (x1 - x0) == x2 + t * (x3 - x2) /\ y0 + s * (y1 - y0) == y2 + t * (y3 - y2) /\
    py_check_lines (lin_rec x0 y0 x1 y1 0 c1) (lin_rec x2 y2 x3 y3 0 c2)
    = if Qle_bool 0 s && Qle_bool s 1 && (Qle_bool 0 t && Qle_bool t 1)
      then VTup [VB true; VTup [VTup [VTup [VQ s]; VTup [VQ t]]; VB false]]
      else VTup [VB true; VTup [VTup [VTup []; VTup []]; VB false]].
Proof.
  intros Ec. destruct (segment_intersection_spec x0 y0 x1 y1 x2 y2 x3 y3) as [_ Hnon].
  destruct (Hnon Ec) as [s [t [Hs [H1 H2]]]]. exists s, t. split; [exact H1|]. split; [exact H2|].
  unfold py_check_lines, lin_rec. cbv zeta.
  cbn [vattr assoc_val String.eqb Ascii.eqb Bool.eqb veq vand vnot truth negb].
  change (Qeqb 0 0) with true. cbn [vand vnot truth negb].
  rewrite Hs. cbn [vidx nth truth]. rewrite !in_interval_spec. cbn [vand].
  destruct (Qle_bool 0 s && Qle_bool s 1); cbn [truth andb]; [|reflexivity].
  destruct (Qle_bool 0 t && Qle_bool t 1); reflexivity.
Qed.

(* ---- add_intersection: appended unless an existing pair is within the relative distance; never merged when far ---- *)
Theorem add_intersection_spec s t ints :
  add_intersection s t ints = ints \/ add_intersection s t ints = (ints ++ [(s, t)])%list.
Proof.
  unfold add_intersection. destruct ints as [|e ints]; [right; reflexivity|].
  destruct (existsb (is_dup s t) (e :: ints)); [left|right]; reflexivity.
Qed.
Theorem add_intersection_keeps_distinct s t ints :
  0 <= s <= 1 -> 0 <= t <= 1 ->
  (forall e, In e ints ->
     2 * (NEWTON_ERROR_RATIO * NEWTON_ERROR_RATIO) <= (s - fst e) * (s - fst e) + (t - snd e) * (t - snd e)) ->
  ints <> [] -> add_intersection s t ints = (ints ++ [(s, t)])%list.
Proof.
  intros Hs Ht Hfar Hne. unfold add_intersection. destruct ints as [|e0 ints0]; [congruence|].
  destruct (existsb (is_dup s t) (e0 :: ints0)) eqn:E; [|reflexivity].
  exfalso. apply existsb_exists in E. destruct E as [e [Hin Hd]]. unfold is_dup in Hd. apply Qltb_lt in Hd.
  specialize (Hfar e Hin).
  assert (Hc : forall x, 0 <= x <= 1 -> 0 <= cand x <= 1).
  { intros x Hx. unfold cand. destruct (Qltb x ZERO_THRESHOLD); cbv beta iota; lra. }
  pose proof (Hc s Hs). pose proof (Hc t Ht).
  assert (cand s * cand s + cand t * cand t <= 2) by nra.
  assert (0 <= NEWTON_ERROR_RATIO * NEWTON_ERROR_RATIO) by (unfold NEWTON_ERROR_RATIO; lra).
  nra.
Qed.
Theorem add_intersection_merges_equal s t ints : In (s, t) ints -> 0 < s -> 0 < t -> add_intersection s t ints = ints.
Proof.
  intros Hin Hs Ht. unfold add_intersection. destruct ints as [|e0 ints0]; [contradiction|].
  assert (E : existsb (is_dup s t) (e0 :: ints0) = true).
  { apply existsb_exists. exists (s, t). split; [exact Hin|]. unfold is_dup. cbn [fst snd]. apply Qltb_lt.
    assert (Hc : forall x, 0 < x -> 0 < cand x).
    { intros x Hx. unfold cand. destruct (Qltb x ZERO_THRESHOLD) eqn:Eq; cbv beta iota; [|exact Hx]. apply Qltb_lt in Eq. unfold ZERO_THRESHOLD in *. lra. }
    pose proof (Hc s Hs). pose proof (Hc t Ht). unfold NEWTON_ERROR_RATIO. nra. }
  rewrite E. reflexivity.
Qed.
