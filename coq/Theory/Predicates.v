(* Specifications of the scalar decision functions REGENERATED from the Python sources (Gen/PyFn*.v),
   over Q: every finite double is a rational, so these are statements about exact data. *)
From Coq Require Import List ZArith QArith Qabs Qminmax Bool String Lia Lqa Qfield.
From BZ Require Import Base.PyVal Gen.PyFnHelpers Gen.PyFnGeometric Gen.PyFnTriangle Gen.PyFnTriangleIntersection.
Import ListNotations.
Open Scope Q_scope.

Lemma Qltb_lt a b : Qltb a b = true <-> a < b.
Proof.
  unfold Qltb. rewrite negb_true_iff. split.
  - intros H. destruct (Qlt_le_dec a b) as [L|L]; [exact L|]. apply Qle_bool_iff in L. congruence.
  - intros H. destruct (Qle_bool b a) eqn:E; [|reflexivity]. apply Qle_bool_iff in E. exfalso. apply (Qlt_not_le _ _ H E).
Qed.
Lemma Qltb_ge a b : Qltb a b = false <-> b <= a.
Proof.
  unfold Qltb. rewrite negb_false_iff. apply Qle_bool_iff.
Qed.
Lemma Qleb_le a b : Qle_bool a b = true <-> a <= b. Proof. apply Qle_bool_iff. Qed.
Lemma Qleb_gt a b : Qle_bool a b = false <-> b < a.
Proof.
  split.
  - intros H. destruct (Qlt_le_dec b a) as [L|L]; [exact L|]. apply Qle_bool_iff in L. congruence.
  - intros H. destruct (Qle_bool a b) eqn:E; [|reflexivity]. apply Qle_bool_iff in E. exfalso. apply (Qlt_not_le _ _ H E).
Qed.
Lemma Qeqb_eq a b : Qeqb a b = true <-> a == b. Proof. apply Qeq_bool_iff. Qed.
Lemma Qeqb_neq a b : Qeqb a b = false <-> ~ a == b.
Proof.
  split.
  - intros H E. apply Qeq_bool_iff in E. unfold Qeqb in H. congruence.
  - intros H. destruct (Qeqb a b) eqn:E; [|reflexivity]. apply Qeqb_eq in E. contradiction.
Qed.

(* turn every boolean test in the context into an order fact over Q *)
Ltac qprops :=
  repeat match goal with
  | H : (_ && _)%bool = true |- _ => apply andb_true_iff in H; destruct H
  | H : (_ || _)%bool = false |- _ => apply orb_false_iff in H; destruct H
  | H : negb _ = true |- _ => apply negb_true_iff in H
  | H : negb _ = false |- _ => apply negb_false_iff in H
  | H : Qltb _ _ = true |- _ => apply Qltb_lt in H
  | H : Qltb _ _ = false |- _ => apply Qltb_ge in H
  | H : Qle_bool _ _ = true |- _ => apply Qleb_le in H
  | H : Qle_bool _ _ = false |- _ => apply Qleb_gt in H
  | H : Qeqb _ _ = true |- _ => apply Qeqb_eq in H
  | H : Qeqb _ _ = false |- _ => apply Qeqb_neq in H
  end.
Ltac vsimp := cbn [vadd vsub vsub_b vmul vdiv vneg vabs vlt vle veq vne vnot vand vor truth vidx vidx2 vcol vdot vscale nth map V2
                   negb andb orb Bool.eqb].

(* ---------------- in_interval ---------------- *)
Theorem in_interval_spec v a b :
  py_in_interval (VQ v) (VQ a) (VQ b) = VB (Qle_bool a v && Qle_bool v b).
Proof. unfold py_in_interval. vsimp. destruct (Qle_bool a v); reflexivity. Qed.
Corollary in_interval_true v a b : py_in_interval (VQ v) (VQ a) (VQ b) = VB true <-> a <= v <= b.
Proof.
  rewrite in_interval_spec. split.
  - intros H. injection H as H. qprops. split; assumption.
  - intros [H1 H2]. apply Qleb_le in H1, H2. rewrite H1, H2. reflexivity.
Qed.

(* ---------------- cross_product / two_by_two_det ---------------- *)
Theorem cross_product_spec a b c d : py_cross_product (V2 a b) (V2 c d) = VQ (a * d - b * c).
Proof. reflexivity. Qed.
Theorem two_by_two_det_spec a b c d :
  py_two_by_two_det (VTup [V2 a b; V2 c d]) = VQ (a * d - b * c).
Proof. reflexivity. Qed.

(* ---------------- wiggle_interval ---------------- *)
Theorem wiggle_spec w v r : 0 < w -> w < 1 # 2 ->
  py_wiggle_interval (VQ v) (VQ w) = VTup [VQ r; VB true] -> 0 <= r <= 1 /\ Qabs (r - v) < w.
Proof.
  intros Hw Hw2. unfold py_wiggle_interval. vsimp.
  destruct (Qltb (- w) v) eqn:E1; destruct (Qltb v w) eqn:E2; vsimp;
  destruct (Qle_bool w v) eqn:E3; destruct (Qle_bool v (1 - w)) eqn:E4; vsimp;
  destruct (Qltb (1 - w) v) eqn:E5; destruct (Qltb v (1 + w)) eqn:E6; vsimp;
  intros H; try discriminate; inversion H; subst; clear H; qprops;
  (split; [lra | apply Qabs_Qlt_condition; lra]).
Qed.
Theorem wiggle_fail_spec w v : 0 < w -> w < 1 # 2 ->
  py_wiggle_interval (VQ v) (VQ w) = VTup [VNaN; VB false] <-> (v <= - w \/ 1 + w <= v).
Proof.
  intros Hw Hw2. unfold py_wiggle_interval. vsimp.
  destruct (Qltb (- w) v) eqn:E1; destruct (Qltb v w) eqn:E2; vsimp;
  destruct (Qle_bool w v) eqn:E3; destruct (Qle_bool v (1 - w)) eqn:E4; vsimp;
  destruct (Qltb (1 - w) v) eqn:E5; destruct (Qltb v (1 + w)) eqn:E6; vsimp;
  qprops; split; intros H; try discriminate; try reflexivity; try (exfalso; lra); try (destruct H; lra);
  try (left; lra); try (right; lra).
Qed.
(* the default wiggle read from the source is a legal one *)
Theorem wiggle_default_spec v r :
  py_wiggle_interval_default (VQ v) = VTup [VQ r; VB true] -> 0 <= r <= 1 /\ Qabs (r - v) < 1 # 17592186044416.
Proof. unfold py_wiggle_interval_default. apply wiggle_spec; reflexivity. Qed.

(* ---------------- solve2x2 ---------------- *)
Definition M2 (a b c d : Q) : val := VTup [V2 a b; V2 c d].
Theorem solve2x2_sound a b c d e f x y :
  py_solve2x2 (M2 a b c d) (V2 e f) = VTup [VB false; VQ x; VQ y] ->
  a * x + b * y == e /\ c * x + d * y == f.
Proof.
  unfold py_solve2x2, M2. vsimp.
  destruct (Qltb (Qabs a) (Qabs c)) eqn:E0; vsimp.
  - destruct (Qeqb c 0) eqn:Ec; vsimp; [intros H; discriminate|].
    destruct (Qeqb (b - a / c * d) 0) eqn:Ed; vsimp; [intros H; discriminate|]. rewrite ?Ec. vsimp.
    intros H. inversion H; subst; clear H. qprops.
    assert (Hdet : ~ b * c - a * d == 0).
    { intro G. apply Ed. assert (G2 : b - a / c * d == (b * c - a * d) / c) by (field; exact Ec). rewrite G2, G. field. exact Ec. }
    split; field; repeat split; auto.
  - destruct (Qeqb a 0) eqn:Ea; vsimp; [intros H; discriminate|].
    destruct (Qeqb (d - c / a * b) 0) eqn:Ed; vsimp; [intros H; discriminate|]. rewrite ?Ea. vsimp.
    intros H. inversion H; subst; clear H. qprops.
    assert (Hdet : ~ d * a - c * b == 0).
    { intro G. apply Ed. assert (G2 : d - c / a * b == (d * a - c * b) / a) by (field; exact Ea). rewrite G2, G. field. exact Ea. }
    split; field; repeat split; auto.
Qed.
Theorem solve2x2_singular_iff a b c d e f :
  py_solve2x2 (M2 a b c d) (V2 e f) = VTup [VB true; VNone; VNone] <-> a * d - b * c == 0.
Proof.
  unfold py_solve2x2, M2. vsimp.
  destruct (Qltb (Qabs a) (Qabs c)) eqn:E0; vsimp.
  - assert (Hc : ~ c == 0).
    { intros Hc. qprops. rewrite Hc in E0. change (Qabs 0) with 0 in E0. pose proof (Qabs_nonneg a). lra. }
    assert (Ec : Qeqb c 0 = false) by (apply Qeqb_neq; exact Hc). rewrite Ec. vsimp.
    destruct (Qeqb (b - a / c * d) 0) eqn:Ed; vsimp; qprops.
    + split; [intros _|reflexivity].
      assert (G : a * d - b * c == - c * (b - a / c * d)) by (field; exact Hc). rewrite G, Ed. ring.
    + split; [intros H; discriminate|]. intros G. exfalso. apply Ed.
      assert (G2 : b - a / c * d == - (a * d - b * c) / c) by (field; exact Hc). rewrite G2, G. field. exact Hc.
  - destruct (Qeqb a 0) eqn:Ea; vsimp; qprops.
    + split; [intros _|reflexivity].
      assert (Hc : c == 0).
      { rewrite Ea in E0. change (Qabs 0) with 0 in E0. pose proof (Qabs_nonneg c) as Hn.
        assert (Hz : Qabs c <= 0) by lra. apply Qabs_Qle_condition in Hz. lra. }
      rewrite Ea, Hc. ring.
    + destruct (Qeqb (d - c / a * b) 0) eqn:Ed; vsimp; qprops.
      * split; [intros _|reflexivity].
        assert (G : a * d - b * c == a * (d - c / a * b)) by (field; exact Ea). rewrite G, Ed. ring.
      * split; [intros H; discriminate|]. intros G. exfalso. apply Ed.
        assert (G2 : d - c / a * b == (a * d - b * c) / a) by (field; exact Ea). rewrite G2, G. field. exact Ea.
Qed.

(* ---------------- newton_refine_solve (triangle locate): Cramer's rule ---------------- *)
Theorem newton_refine_solve_spec a b c d x sx y sy ds dt : ~ a * d - b * c == 0 ->
  py_newton_refine_solve (VTup [VTup [VQ a]; VTup [VQ b]; VTup [VQ c]; VTup [VQ d]]) (VQ x) (VQ sx) (VQ y) (VQ sy)
  = VTup [VQ ds; VQ dt] ->
  a * ds + c * dt == x - sx /\ b * ds + d * dt == y - sy.
Proof.
  intros Hdet. unfold py_newton_refine_solve. vsimp.
  assert (E : Qeqb (a * d - b * c) 0 = false) by (apply Qeqb_neq; exact Hdet). rewrite E.
  intros H. inversion H; subst; clear H. split; field; exact Hdet.
Qed.

(* ---------------- segment_intersection ---------------- *)
Theorem segment_intersection_spec x0 y0 x1 y1 x2 y2 x3 y3 :
  let cross := (x1 - x0) * (y3 - y2) - (y1 - y0) * (x3 - x2) in
  (cross == 0 ->
   py_segment_intersection (V2 x0 y0) (V2 x1 y1) (V2 x2 y2) (V2 x3 y3) = VTup [VNone; VNone; VB false]) /\
  (~ cross == 0 -> exists s t,
   py_segment_intersection (V2 x0 y0) (V2 x1 y1) (V2 x2 y2) (V2 x3 y3) = VTup [VQ s; VQ t; VB true] /\
   x0 + s * (x1 - x0) == x2 + t * (x3 - x2) /\ y0 + s * (y1 - y0) == y2 + t * (y3 - y2)).
Proof.
  intros cross. subst cross. unfold py_segment_intersection, py_cross_product. vsimp.
  destruct (Qeqb ((x1 - x0) * (y3 - y2) - (y1 - y0) * (x3 - x2)) 0) eqn:E; qprops.
  - split; [reflexivity | intros Hc; contradiction].
  - split; [intros Hc; contradiction|]. intros _. eexists; eexists; split; [reflexivity|]. split; field; exact E.
Qed.

(* ---------------- bbox_intersect on the four numbers returned by bbox ---------------- *)
Definition box (l r b t : Q) : val := VTup [VQ l; VQ r; VQ b; VQ t].
Definition bbox_intersect_boxes (l1 r1 b1 t1 l2 r2 b2 t2 : Q) : string :=
  if Qltb r2 l1 || Qltb r1 l2 || Qltb t2 b1 || Qltb t1 b2 then "DISJOINT"
  else if Qeqb r2 l1 || Qeqb r1 l2 || Qeqb t2 b1 || Qeqb t1 b2 then "TANGENT" else "INTERSECTION".
Theorem bbox_intersect_spec n1 n2 l1 r1 b1 t1 l2 r2 b2 t2 :
  py_bbox n1 = box l1 r1 b1 t1 -> py_bbox n2 = box l2 r2 b2 t2 ->
  py_bbox_intersect n1 n2 = VEnum (bbox_intersect_boxes l1 r1 b1 t1 l2 r2 b2 t2).
Proof.
  intros H1 H2. unfold py_bbox_intersect. rewrite H1, H2. unfold box, bbox_intersect_boxes. vsimp.
  destruct (Qltb r2 l1); vsimp; [reflexivity|].
  destruct (Qltb r1 l2); vsimp; [reflexivity|].
  destruct (Qltb t2 b1); vsimp; [reflexivity|].
  destruct (Qltb t1 b2); vsimp; [reflexivity|].
  destruct (Qeqb r2 l1); vsimp; [reflexivity|].
  destruct (Qeqb r1 l2); vsimp; [reflexivity|].
  destruct (Qeqb t2 b1); vsimp; [reflexivity|].
  destruct (Qeqb t1 b2); vsimp; reflexivity.
Qed.
(* DISJOINT <-> the closed boxes have no common point; TANGENT <-> they touch without interior overlap *)
Theorem boxes_disjoint_iff l1 r1 b1 t1 l2 r2 b2 t2 : l1 <= r1 -> b1 <= t1 -> l2 <= r2 -> b2 <= t2 ->
  bbox_intersect_boxes l1 r1 b1 t1 l2 r2 b2 t2 = "DISJOINT"%string <->
  ~ exists x y, (l1 <= x <= r1 /\ b1 <= y <= t1) /\ (l2 <= x <= r2 /\ b2 <= y <= t2).
Proof.
  intros Hx1 Hy1 Hx2 Hy2. unfold bbox_intersect_boxes.
  destruct (Qltb r2 l1) eqn:E1; destruct (Qltb r1 l2) eqn:E2; destruct (Qltb t2 b1) eqn:E3; destruct (Qltb t1 b2) eqn:E4;
    cbn [orb]; qprops;
    try (split; [intros _ [x [y [[? ?] [? ?]]]]; lra | reflexivity]).
  split.
  - destruct (Qeqb r2 l1 || Qeqb r1 l2 || Qeqb t2 b1 || Qeqb t1 b2); discriminate.
  - intros H. exfalso. apply H. exists (Qmax l1 l2), (Qmax b1 b2).
    pose proof (Q.le_max_l l1 l2). pose proof (Q.le_max_r l1 l2). pose proof (Q.le_max_l b1 b2). pose proof (Q.le_max_r b1 b2).
    assert (Qmax l1 l2 <= r1) by (apply Q.max_lub; lra). assert (Qmax l1 l2 <= r2) by (apply Q.max_lub; lra).
    assert (Qmax b1 b2 <= t1) by (apply Q.max_lub; lra). assert (Qmax b1 b2 <= t2) by (apply Q.max_lub; lra).
    repeat split; assumption.
Qed.

(* ---------------- bbox: the four numbers bound every node ---------------- *)
Lemma fold_min_le (xs : list Q) : forall acc,
  match fold_left (fun a v => match a, v with VQ p, VQ q => VQ (Qmin p q) | _, _ => type_error end) (map VQ xs) (VQ acc) with
  | VQ m => m <= acc /\ (forall x, In x xs -> m <= x) /\ (m == acc \/ exists x, In x xs /\ m == x)
  | _ => False end.
Proof.
  induction xs as [|x xs IH]; intros acc; cbn [map fold_left].
  - split; [lra|]. split; [intros ? []|left; reflexivity].
  - specialize (IH (Qmin acc x)). destruct (fold_left _ (map VQ xs) (VQ (Qmin acc x))) as [m| | | | | | |]; try contradiction.
    destruct IH as [H1 [H2 H3]]. pose proof (Q.le_min_l acc x). pose proof (Q.le_min_r acc x).
    split; [lra|]. split.
    + intros y [<-|Hy]; [lra|auto].
    + destruct H3 as [H3|[y [Hy H3]]].
      * destruct (Q.min_dec acc x) as [E|E]; rewrite E in H3; [left; exact H3 | right; exists x; split; [left; reflexivity|exact H3]].
      * right. exists y. split; [right; exact Hy|exact H3].
Qed.
Lemma fold_max_ge (xs : list Q) : forall acc,
  match fold_left (fun a v => match a, v with VQ p, VQ q => VQ (Qmax p q) | _, _ => type_error end) (map VQ xs) (VQ acc) with
  | VQ m => acc <= m /\ (forall x, In x xs -> x <= m) /\ (m == acc \/ exists x, In x xs /\ m == x)
  | _ => False end.
Proof.
  induction xs as [|x xs IH]; intros acc; cbn [map fold_left].
  - split; [lra|]. split; [intros ? []|left; reflexivity].
  - specialize (IH (Qmax acc x)). destruct (fold_left _ (map VQ xs) (VQ (Qmax acc x))) as [m| | | | | | |]; try contradiction.
    destruct IH as [H1 [H2 H3]]. pose proof (Q.le_max_l acc x). pose proof (Q.le_max_r acc x).
    split; [lra|]. split.
    + intros y [<-|Hy]; [lra|auto].
    + destruct H3 as [H3|[y [Hy H3]]].
      * destruct (Q.max_dec acc x) as [E|E]; rewrite E in H3; [left; exact H3 | right; exists x; split; [left; reflexivity|exact H3]].
      * right. exists y. split; [right; exact Hy|exact H3].
Qed.

(* bbox of a planar net with at least one node: tight bounds of both coordinate rows *)
Theorem bbox_spec x0 xs y0 ys :
  exists l r b t, py_bbox (vq_mat [x0 :: xs; y0 :: ys]) = box l r b t /\
    (forall x, In x (x0 :: xs) -> l <= x <= r) /\ (forall y, In y (y0 :: ys) -> b <= y <= t) /\
    (exists x, In x (x0 :: xs) /\ l == x) /\ (exists x, In x (x0 :: xs) /\ r == x) /\
    (exists y, In y (y0 :: ys) /\ b == y) /\ (exists y, In y (y0 :: ys) /\ t == y).
Proof.
  unfold py_bbox, vq_mat, vq_list, np_min_axis1, np_max_axis1. cbn [map row_fold vidx nth].
  pose proof (fold_min_le xs x0) as Hl. pose proof (fold_max_ge xs x0) as Hr.
  pose proof (fold_min_le ys y0) as Hb. pose proof (fold_max_ge ys y0) as Ht.
  destruct (fold_left _ (map VQ xs) (VQ x0)) as [l| | | | | | |] eqn:El in Hl; try contradiction.
  destruct (fold_left _ (map VQ xs) (VQ x0)) as [r| | | | | | |] eqn:Er in Hr; try contradiction.
  destruct (fold_left _ (map VQ ys) (VQ y0)) as [b| | | | | | |] eqn:Eb in Hb; try contradiction.
  destruct (fold_left _ (map VQ ys) (VQ y0)) as [t| | | | | | |] eqn:Et in Ht; try contradiction.
  rewrite El, Er, Eb, Et. exists l, r, b, t. split; [reflexivity|].
  destruct Hl as [Hl1 [Hl2 Hl3]], Hr as [Hr1 [Hr2 Hr3]], Hb as [Hb1 [Hb2 Hb3]], Ht as [Ht1 [Ht2 Ht3]].
  repeat split.
  - destruct H as [<-|H]; [lra|auto].
  - destruct H as [<-|H]; [lra|auto].
  - destruct H as [<-|H]; [lra|auto].
  - destruct H as [<-|H]; [lra|auto].
  - destruct Hl3 as [E|[x [Hx E]]]; [exists x0; split; [left; reflexivity|exact E] | exists x; split; [right; exact Hx|exact E]].
  - destruct Hr3 as [E|[x [Hx E]]]; [exists x0; split; [left; reflexivity|exact E] | exists x; split; [right; exact Hx|exact E]].
  - destruct Hb3 as [E|[x [Hx E]]]; [exists y0; split; [left; reflexivity|exact E] | exists x; split; [right; exact Hx|exact E]].
  - destruct Ht3 as [E|[x [Hx E]]]; [exists y0; split; [left; reflexivity|exact E] | exists x; split; [right; exact Hx|exact E]].
Qed.

(* ---------------- parallel_lines_parameters ---------------- *)
Ltac vsimp_in H := cbn [vadd vsub vsub_b vmul vdiv vneg vabs vlt vle veq vne vnot vand vor truth vidx vidx2 vcol vdot vscale nth map V2
                        negb andb orb Bool.eqb] in H.
Ltac break_ifs H :=
  repeat (match type of H with context [if ?c then _ else _] => let E := fresh "E" in destruct c eqn:E; vsimp_in H end).
Lemma Qdiv_unit a b : 0 <= a -> a <= b -> 0 < b -> 0 <= a / b <= 1.
Proof. intros Ha Hab Hb. split; [apply Qle_shift_div_l; lra | apply Qle_shift_div_r; lra]. Qed.
Ltac qfin :=
  match goal with
  | |- _ == _ => field; intro; lra
  | |- 0 <= _ / _ <= 1 => apply Qdiv_unit; lra
  | |- _ / ?d <= _ / ?d => unfold Qdiv; apply Qmult_le_compat_r; [lra | apply Qinv_le_0_compat; lra]
  | |- 0 <= _ / _ => apply Qle_shift_div_l; lra
  | |- _ / _ <= 1 => apply Qle_shift_div_r; lra
  | |- _ => lra
  end.
Definition params (ss es st et : Q) : val := VTup [VTup [VQ ss; VQ es]; VTup [VQ st; VQ et]].

(* When a shared segment is reported: all four parameters are in [0,1], the second-curve parameters are ordered,
   and each column is one point in both parametrisations (s = a + t (b - a), where a, b are the first-curve
   parameters of the second segment's end points). *)
Theorem parallel_lines_shared_segment x0 y0 x1 y1 x2 y2 x3 y3 ss es st et :
  ~ (x1 - x0) * (x1 - x0) + (y1 - y0) * (y1 - y0) == 0 ->
  py_parallel_lines_parameters (V2 x0 y0) (V2 x1 y1) (V2 x2 y2) (V2 x3 y3) = VTup [VB false; params ss es st et] ->
  exists a b, a * ((x1 - x0) * (x1 - x0) + (y1 - y0) * (y1 - y0)) == (x2 - x0) * (x1 - x0) + (y2 - y0) * (y1 - y0) /\
              b * ((x1 - x0) * (x1 - x0) + (y1 - y0) * (y1 - y0)) == (x3 - x0) * (x1 - x0) + (y3 - y0) * (y1 - y0) /\
    0 <= ss <= 1 /\ 0 <= es <= 1 /\ 0 <= st <= 1 /\ 0 <= et <= 1 /\ st <= et /\
    ss == a + st * (b - a) /\ es == a + et * (b - a) /\
    (* the start of the second segment lies on the line of the first *)
    x0 * (y1 - y0) - y0 * (x1 - x0) == x2 * (y1 - y0) - y2 * (x1 - x0).
Proof.
  intros Hn H0. unfold py_parallel_lines_parameters, py_cross_product, params in H0. vsimp_in H0.
  destruct (Qeqb (x0 * (y1 - y0) - y0 * (x1 - x0)) (x2 * (y1 - y0) - y2 * (x1 - x0))) eqn:Ecol; vsimp_in H0; [|discriminate].
  assert (En : Qeqb ((x1 - x0) * (x1 - x0) + ((y1 - y0) * (y1 - y0) + 0)) 0 = false).
  { apply Qeqb_neq. intro G. apply Hn. rewrite <- G. ring. }
  rewrite !En in H0. vsimp_in H0.
  set (a := ((x2 - x0) * (x1 - x0) + ((y2 - y0) * (y1 - y0) + 0)) / ((x1 - x0) * (x1 - x0) + ((y1 - y0) * (y1 - y0) + 0))) in *.
  set (b := ((x3 - x0) * (x1 - x0) + ((y3 - y0) * (y1 - y0) + 0)) / ((x1 - x0) * (x1 - x0) + ((y1 - y0) * (y1 - y0) + 0))) in *.
  exists a, b. split; [subst a; field; intro G; apply Hn; rewrite <- G; ring|].
  split; [subst b; field; intro G; apply Hn; rewrite <- G; ring|].
  apply Qeqb_eq in Ecol.
  clearbody a b. clear En Hn.
  break_ifs H0; try discriminate; inversion H0; subst; clear H0; qprops; repeat split; try exact Ecol; qfin.
Qed.

(* "disjoint" is returned exactly when the second segment does not start on the first line or the parameter
   intervals [0,1] and [a,b] (resp. [b,a]) do not meet *)
Theorem parallel_lines_disjoint_iff x0 y0 x1 y1 x2 y2 x3 y3 a b :
  ~ (x1 - x0) * (x1 - x0) + (y1 - y0) * (y1 - y0) == 0 ->
  a * ((x1 - x0) * (x1 - x0) + (y1 - y0) * (y1 - y0)) == (x2 - x0) * (x1 - x0) + (y2 - y0) * (y1 - y0) ->
  b * ((x1 - x0) * (x1 - x0) + (y1 - y0) * (y1 - y0)) == (x3 - x0) * (x1 - x0) + (y3 - y0) * (y1 - y0) ->
  (py_parallel_lines_parameters (V2 x0 y0) (V2 x1 y1) (V2 x2 y2) (V2 x3 y3) = VTup [VB true; VNone] <->
   (~ x0 * (y1 - y0) - y0 * (x1 - x0) == x2 * (y1 - y0) - y2 * (x1 - x0)) \/ (a < 0 /\ b < 0) \/ (1 < a /\ 1 < b)).
Proof.
  intros Hn Ha Hb.
  set (n := (x1 - x0) * (x1 - x0) + (y1 - y0) * (y1 - y0)) in *.
  assert (Ea : a == ((x2 - x0) * (x1 - x0) + ((y2 - y0) * (y1 - y0) + 0)) / ((x1 - x0) * (x1 - x0) + ((y1 - y0) * (y1 - y0) + 0))).
  { assert (G : (x2 - x0) * (x1 - x0) + ((y2 - y0) * (y1 - y0) + 0) == a * n) by (rewrite Ha; ring).
    rewrite G. subst n. field. intro G2. apply Hn. rewrite <- G2. ring. }
  assert (Eb : b == ((x3 - x0) * (x1 - x0) + ((y3 - y0) * (y1 - y0) + 0)) / ((x1 - x0) * (x1 - x0) + ((y1 - y0) * (y1 - y0) + 0))).
  { assert (G : (x3 - x0) * (x1 - x0) + ((y3 - y0) * (y1 - y0) + 0) == b * n) by (rewrite Hb; ring).
    rewrite G. subst n. field. intro G2. apply Hn. rewrite <- G2. ring. }
  unfold py_parallel_lines_parameters, py_cross_product. vsimp.
  destruct (Qeqb (x0 * (y1 - y0) - y0 * (x1 - x0)) (x2 * (y1 - y0) - y2 * (x1 - x0))) eqn:Ecol; vsimp; qprops.
  2:{ split; [intros _; left; exact Ecol | reflexivity]. }
  assert (En : Qeqb ((x1 - x0) * (x1 - x0) + ((y1 - y0) * (y1 - y0) + 0)) 0 = false).
  { apply Qeqb_neq. intro G. apply Hn. subst n. rewrite <- G. ring. }
  rewrite !En. vsimp.
  set (qa := ((x2 - x0) * (x1 - x0) + ((y2 - y0) * (y1 - y0) + 0)) / ((x1 - x0) * (x1 - x0) + ((y1 - y0) * (y1 - y0) + 0))) in *.
  set (qb := ((x3 - x0) * (x1 - x0) + ((y3 - y0) * (y1 - y0) + 0)) / ((x1 - x0) * (x1 - x0) + ((y1 - y0) * (y1 - y0) + 0))) in *.
  clearbody qa qb. clear En Hn Ha Hb.
  repeat (match goal with |- context [if ?c then _ else _] => let E := fresh "E" in destruct c eqn:E; vsimp end);
    qprops; (split; [intros H; try discriminate; try (right; lra) | intros [H|[[? ?]|[? ?]]]; try reflexivity; try contradiction; try lra]).
Qed.
