(* C01 (rounding clause, continued): the modified Horner (VS) loop in the standard model.  Besides the relative-error
   hypothesis the analysis needs what the code relies on: integers whose odd part is below 2^53 are represented exactly
   (repr53), so that the running binomial - checked exact for every degree below the switch - carries no error. *)
From Coq Require Import Reals Lra Lia List Arith ZArith Bool.
From BZ Require Import Base.Ops Base.RInst Model.Curve Theory.CurveEval Theory.CurveEvalExtra Theory.Rounding Theory.CurveRound.
Import ListNotations.
Local Open Scope R_scope.

Lemma odd_part_le p : (Zpos (odd_part p) <= Zpos p)%Z.
Proof. induction p as [p IH|p IH|]; cbn [odd_part]; lia. Qed.
Lemma repr53_small z : (0 <= z < 2 ^ 53)%Z -> repr53 z = true.
Proof.
  intros H. destruct z as [|p|p]; [reflexivity| |lia]. cbn [repr53]. apply Z.ltb_lt.
  pose proof (odd_part_le p). lia.
Qed.

Section Fl.
Variable u : R.
Hypothesis Hu : 0 <= u.
Variable fl : R -> R.
Hypothesis fl_spec : forall x, Rabs (fl x - x) <= u * Rabs x.
Hypothesis fl_int : forall z : Z, repr53 z = true -> fl (IZR z) = IZR z.
Notation Fl := (FlOps fl).
Notation approx := (approx u).

Lemma ofn_Fl k : (Z.of_nat k < 2 ^ 53)%Z -> ofn Fl k = INR k.
Proof.
  induction k as [|k IH]; intros Hk; [reflexivity|].
  cbn [ofn]. rewrite IH by lia. cbn [oadd o1 FlOps]. rewrite <- S_INR.
  rewrite INR_IZR_INZ. apply fl_int. apply repr53_small. lia.
Qed.

(* one update of the running binomial, in both arithmetics, under the check performed by binom_run *)
Lemma binom_step n j b : (1 <= j <= n)%nat -> (Z.of_nat n + 1 < 2 ^ 53)%Z ->
  let prod := (b * (Z.of_nat n - Z.of_nat j + 1))%Z in
  let quo := (prod / Z.of_nat j)%Z in
  repr53 prod = true -> (quo * Z.of_nat j)%Z = prod -> repr53 quo = true ->
  odiv Fl (omul Fl (IZR b) (ofn Fl (n - j + 1))) (ofn Fl j) = IZR quo /\
  odiv ROps (omul ROps (IZR b) (ofn ROps (n - j + 1))) (ofn ROps j) = IZR quo.
Proof.
  intros Hj Hn prod quo Hp Hq Hr.
  assert (Hjz : IZR (Z.of_nat j) <> 0) by (apply not_0_IZR; lia).
  assert (Hprod : IZR b * INR (n - j + 1) = IZR prod).
  { rewrite INR_IZR_INZ, <- mult_IZR. f_equal. unfold prod. f_equal. lia. }
  assert (Hquo : IZR prod / INR j = IZR quo).
  { rewrite INR_IZR_INZ, <- Hq, mult_IZR. field. exact Hjz. }
  split.
  - rewrite !ofn_Fl by lia. cbn [odiv omul FlOps]. rewrite Hprod, (fl_int _ Hp), Hquo. apply fl_int. exact Hr.
  - rewrite !ofn_R. cbn [odiv omul ROps]. rewrite Hprod. exact Hquo.
Qed.

Section Loop.
Variables (k1 : nat) (l1c l1a l1m l2 : R).
Hypothesis H1 : approx k1 l1c l1a l1m.
Let B (j : nat) : nat := ((k1 + 2) * j + k1 + 3)%nat.

Lemma vs_loop_fl n (Hn : (Z.of_nat n + 1 < 2 ^ 53)%Z) : forall C A M, A3 u 0 C A M -> C <> [] ->
  forall j b accC accA accM pwC pwA pwM,
  (1 <= j)%nat -> (j + length C = S n)%nat ->
  binom_run (Z.of_nat n) (length C - 1) (Z.of_nat j) b = true -> (0 <= b)%Z ->
  approx (B (j - 1)) accC accA accM -> approx (j - 1) pwC pwA pwM ->
  approx ((k1 + 2) * n + 2)
    (vs_loop Fl n j C accC pwC (IZR b) l1c l2)
    (vs_loop ROps n j A accA pwA (IZR b) l1a l2)
    (vs_loop ROps n j M accM pwM (IZR b) l1m (Rabs l2)).
Proof.
  induction 1 as [|c a m cs az ms Hc Hrest IH]; intros Hne j b accC accA accM pwC pwA pwM Hj Hlen Hrun Hb Hacc Hpw; [congruence|].
  pose proof (approx_exact u l2) as Hl2.
  destruct Hrest as [|c' a' m' cs' az' ms' Hc' Hrest'].
  - (* last node *)
    cbn [length] in Hlen. assert (j = n) by lia. subst j.
    cbn [vs_loop]. cbn [oadd omul FlOps ROps].
    apply (approx_weaken u Hu (S (B (n - 1)))); [unfold B; nia|].
    apply (approx_add u Hu fl fl_spec); [exact Hacc|].
    apply (approx_weaken u Hu (S (S (0 + (n - 1)) + 0))); [unfold B; nia|].
    apply (approx_mul u Hu fl fl_spec); [|exact Hc].
    apply (approx_mul u Hu fl fl_spec); assumption.
  - (* loop body *)
    cbn [length] in Hlen, Hrun. replace (S (S (length cs')) - 1)%nat with (S (length cs')) in Hrun by lia.
    cbn [binom_run] in Hrun.
    apply andb_true_iff in Hrun as [Hrun Hnext]. apply andb_true_iff in Hrun as [Hrun Hrq].
    apply andb_true_iff in Hrun as [Hrp Heq]. apply Z.eqb_eq in Heq.
    set (prod := (b * (Z.of_nat n - Z.of_nat j + 1))%Z) in *.
    set (quo := (prod / Z.of_nat j)%Z) in *.
    destruct (binom_step n j b ltac:(lia) Hn Hrp Heq Hrq) as [HbF HbR].
    assert (Hquo : (0 <= quo)%Z) by (apply Z.div_pos; [unfold prod; nia|lia]).
    change (vs_loop Fl n j (c :: c' :: cs') accC pwC (IZR b) l1c l2)
      with (vs_loop Fl n (S j) (c' :: cs')
              (omul Fl (oadd Fl accC (omul Fl (omul Fl (odiv Fl (omul Fl (IZR b) (ofn Fl (n - j + 1))) (ofn Fl j)) (omul Fl pwC l2)) c)) l1c)
              (omul Fl pwC l2) (odiv Fl (omul Fl (IZR b) (ofn Fl (n - j + 1))) (ofn Fl j)) l1c l2).
    change (vs_loop ROps n j (a :: a' :: az') accA pwA (IZR b) l1a l2)
      with (vs_loop ROps n (S j) (a' :: az')
              (omul ROps (oadd ROps accA (omul ROps (omul ROps (odiv ROps (omul ROps (IZR b) (ofn ROps (n - j + 1))) (ofn ROps j)) (omul ROps pwA l2)) a)) l1a)
              (omul ROps pwA l2) (odiv ROps (omul ROps (IZR b) (ofn ROps (n - j + 1))) (ofn ROps j)) l1a l2).
    change (vs_loop ROps n j (m :: m' :: ms') accM pwM (IZR b) l1m (Rabs l2))
      with (vs_loop ROps n (S j) (m' :: ms')
              (omul ROps (oadd ROps accM (omul ROps (omul ROps (odiv ROps (omul ROps (IZR b) (ofn ROps (n - j + 1))) (ofn ROps j)) (omul ROps pwM (Rabs l2))) m)) l1m)
              (omul ROps pwM (Rabs l2)) (odiv ROps (omul ROps (IZR b) (ofn ROps (n - j + 1))) (ofn ROps j)) l1m (Rabs l2)).
    rewrite HbF, !HbR.
    assert (Hbq : approx 0 (IZR quo) (IZR quo) (IZR quo)).
    { apply (approx_exact_le u). rewrite Rabs_pos_eq; [lra|]. apply IZR_le. exact Hquo. }
    assert (Hpw' : approx (S j - 1) (omul Fl pwC l2) (omul ROps pwA l2) (omul ROps pwM (Rabs l2))).
    { cbn [omul FlOps ROps]. apply (approx_weaken u Hu (S ((j - 1) + 0))); [lia|].
      apply (approx_mul u Hu fl fl_spec); assumption. }
    apply (IH ltac:(congruence) (S j) quo); try assumption; try lia.
    + cbn [length]. cbn [length] in Hlen. lia.
    + replace (Z.of_nat (S j)) with (Z.of_nat j + 1)%Z by lia.
      replace (length (c' :: cs') - 1)%nat with (length cs') by (cbn [length]; lia). exact Hnext.
    + (* the accumulator *)
      cbn [omul oadd FlOps ROps] in *.
      apply (approx_weaken u Hu (S (S (Nat.max (B (j - 1)) (j + 2)) + k1))); [unfold B; replace (S j - 1)%nat with j by lia; nia|].
      apply (approx_mul u Hu fl fl_spec); [|exact H1].
      apply (approx_add u Hu fl fl_spec).
      * apply (approx_weaken u Hu (B (j - 1))); [lia|exact Hacc].
      * apply (approx_weaken u Hu (S (S (0 + (S j - 1)) + 0))); [lia|].
        apply (approx_mul u Hu fl fl_spec); [|exact Hc].
        apply (approx_mul u Hu fl fl_spec); assumption.
Qed.
End Loop.

Theorem eval_vs_rounding k1 l1c l1a l1m l2 v :
  approx k1 l1c l1a l1m -> (2 <= length v)%nat -> (Z.of_nat (length v) < 2 ^ 53)%Z ->
  binom_exact_for_degree (length v - 1) = true ->
  approx ((k1 + 2) * (length v - 1) + 2)
         (eval_vs Fl v l1c l2) (bernstein ROps v l1a l2) (bernstein ROps (map Rabs v) l1m (Rabs l2)).
Proof.
  intros H1 Hlen Hsz Hbin.
  rewrite <- (eval_vs_correct ROps RField RChar0 v l1a l2) by (left; exact Hlen).
  rewrite <- (eval_vs_correct ROps RField RChar0 (map Rabs v) l1m (Rabs l2)) by (left; rewrite map_length; exact Hlen).
  destruct v as [|v0 [|v1 rest]]; cbn [length] in Hlen; try lia.
  cbn [map]. cbn [eval_vs].
  change (o1 Fl) with (IZR 1). change (o1 ROps) with (IZR 1).
  set (r := v1 :: rest). change (Rabs v1 :: map Rabs rest) with (map Rabs r).
  replace (length (v0 :: r) - 1)%nat with (length r) by (cbn [length]; lia).
  assert (Hr : (length (v0 :: v1 :: rest) - 1)%nat = length r) by (unfold r; cbn [length]; lia).
  replace (length (map Rabs r)) with (length r) by (rewrite map_length; reflexivity).
  unfold binom_exact_for_degree in Hbin. rewrite Hr in Hbin.
  apply (vs_loop_fl k1 l1c l1a l1m l2 H1 (length r)).
  all: try lia.
  all: try exact Hbin.
  - apply A3_exact.
  - unfold r. congruence.
  - cbn [omul FlOps ROps]. replace (1 - 1)%nat with 0%nat by lia.
    apply (approx_weaken u Hu (S (k1 + 0))); [lia|].
    apply (approx_mul u Hu fl fl_spec); [exact H1 | apply approx_exact].
  - replace (1 - 1)%nat with 0%nat by lia. apply (approx_exact_le u). rewrite Rabs_R1. lra.
Qed.

(* evaluate_multi_barycentric with an approximate lambda1 and an exact lambda2, both branches of the switch *)
Theorem eval_bary_rounding_gen k1 l1c l1a l1m l2 thr v :
  approx k1 l1c l1a l1m -> (2 <= length v)%nat -> (Z.of_nat (length v) < 2 ^ 53)%Z -> binom_exact_upto thr = true ->
  approx ((k1 + 2) * (length v - 1) + 2)
         (eval_bary Fl thr v l1c l2) (bernstein ROps v l1a l2) (bernstein ROps (map Rabs v) l1m (Rabs l2)).
Proof.
  intros H1 Hlen Hsz Hthr.
  unfold eval_bary. destruct (Nat.ltb thr (length v)) eqn:Et.
  - assert (Hne : v <> []) by (destruct v; [cbn [length] in Hlen; lia|congruence]).
    pose proof (eval_dc_rounding u Hu fl fl_spec k1 0 _ _ _ l2 l2 (Rabs l2) v H1 (approx_exact u l2) Hne) as Hd.
    apply (approx_weaken u Hu ((length v - 1) * (Nat.max k1 0 + 2))); [rewrite Nat.max_0_r; lia|exact Hd].
  - apply Nat.ltb_ge in Et.
    assert (Hb : binom_exact_for_degree (length v - 1) = true).
    { unfold binom_exact_upto in Hthr. rewrite forallb_forall in Hthr. apply Hthr. apply in_seq. lia. }
    exact (eval_vs_rounding k1 _ _ _ l2 v H1 Hlen Hsz Hb).
Qed.

(* as evaluate_multi calls it (lambda1 = fl(1 - s), lambda2 = s) *)
Theorem eval_bary_rounding thr v s :
  (2 <= length v)%nat -> (Z.of_nat (length v) < 2 ^ 53)%Z -> binom_exact_upto thr = true ->
  Rabs (eval_bary Fl thr v (osub Fl 1 s) s - bernstein ROps v (1 - s) s)
  <= ((1 + u) ^ (3 * (length v - 1) + 2) - 1) * bernstein ROps (map Rabs v) (Rabs (1 - s)) (Rabs s).
Proof.
  intros Hlen Hsz Hthr.
  assert (H1 : approx 1 (osub Fl 1 s) (1 - s) (Rabs (1 - s))).
  { cbn [osub FlOps]. apply (round_step u Hu fl fl_spec 0).
    - replace (1 - s - (1 - s)) with 0 by lra. rewrite Rabs_R0. rewrite g_0. lra.
    - lra.
    - simpl. lra. }
  pose proof (eval_bary_rounding_gen 1 _ _ _ s thr v H1 Hlen Hsz Hthr) as [Hv _].
  replace (3 * (length v - 1) + 2)%nat with ((1 + 2) * (length v - 1) + 2)%nat by lia. exact Hv.
Qed.
End Fl.
