(* C08 (triangles), list level: the model of Triangle.elevate returns a net of degree d + 1 that is the same map point for
   point (every degree, every net, field of characteristic 0), and its corners are the old corners in ANY arithmetic. *)
From Coq Require Import List Arith Lia Ring Field Bool.
From BZ Require Import Base.Ops Model.Curve Model.Triangle Model.TriElevate Theory.CurveEval Theory.TriEval
  Theory.TriBlossom Theory.TriLink Theory.TriLink2 Theory.TriElevate.
Import ListNotations.

Section Corners.
Context {T : Type} (K : Ops T).
Notation fun_of := (fun_of K).
Definition erows (d : nat) (v : list T) : list (list T) :=
  let f := fun_of (split_rows (S d) v) in
  map (fun k => map (fun j => tri_elev_entry K d f j k) (seq 0 (S (S d) - k))) (seq 0 (S (S d))).
Lemma erows_length d v : length (erows d v) = S (S d).
Proof. unfold erows. rewrite map_length, seq_length. reflexivity. Qed.
Lemma erows_row d v k : (k < S (S d))%nat -> length (nth k (erows d v) []) = (S (S d) - k)%nat.
Proof. intros Hk. unfold erows. rewrite nth_map_seq by exact Hk. rewrite map_length, seq_length. reflexivity. Qed.
Lemma split_erows d v : split_rows (S (S d)) (tri_elevate K d v) = erows d v.
Proof. unfold tri_elevate. apply split_rows_concat; [apply erows_length | apply erows_row]. Qed.
Lemma fun_of_erows d v j k : (j + k <= S d)%nat ->
  fun_of (erows d v) j k = tri_elev_entry K d (fun_of (split_rows (S d) v)) j k.
Proof. intros H. unfold TriLink.fun_of at 1, erows. rewrite nth_map_seq by lia. rewrite nth_map_seq by lia. reflexivity. Qed.

(* bit-for-bit: no ring law is used *)
Theorem tri_elevate_corners d v :
  let g := fun_of (split_rows (S (S d)) (tri_elevate K d v)) in
  let f := fun_of (split_rows (S d) v) in
  g 0%nat 0%nat = f 0%nat 0%nat /\ g (S d) 0%nat = f d 0%nat /\ g 0%nat (S d) = f 0%nat d.
Proof.
  cbv zeta. rewrite split_erows. split; [|split].
  - rewrite fun_of_erows by lia. reflexivity.
  - rewrite fun_of_erows by lia. unfold tri_elev_entry.
    change (Nat.eqb (S d) 0) with false. cbn [andb]. rewrite (Nat.eqb_refl (S d)). reflexivity.
  - rewrite fun_of_erows by lia. unfold tri_elev_entry.
    change (Nat.eqb 0 0) with true. change (Nat.eqb (S d) 0) with false. change (Nat.eqb 0 (S d)) with false.
    cbn [andb]. rewrite (Nat.eqb_refl (S d)). reflexivity.
Qed.
Lemma tri_elevate_length d v : length (tri_elevate K d v) = tri_num (S (S d)).
Proof. unfold tri_elevate. apply concat_length_wf; [apply erows_length | apply erows_row]. Qed.
End Corners.

Section Shape.
Context {T : Type} (K : Ops T) (FT : field_of K) (C0 : char0 K).
Add Field TFL : FT.
Let RT : ring_of K := F_R FT.
Notation fun_of := (fun_of K).
Declare Scope t_scope. Delimit Scope t_scope with t.
Notation "0" := (o0 K) : t_scope. Notation "1" := (o1 K) : t_scope.
Infix "+" := (oadd K) : t_scope. Infix "*" := (omul K) : t_scope.
Local Open Scope t_scope.

Lemma entry_is_Eel d f j k : (j + k <= S d)%nat -> tri_elev_entry K d f j k = Eel K d f j k.
Proof.
  intros H. unfold tri_elev_entry.
  destruct (Nat.eqb j 0 && Nat.eqb k 0)%bool eqn:E1.
  { apply andb_true_iff in E1 as [Ej Ek]. apply Nat.eqb_eq in Ej, Ek. subst. symmetry. apply (Eel_corner_i K FT C0). }
  destruct (Nat.eqb j (S d) && Nat.eqb k 0)%bool eqn:E2.
  { apply andb_true_iff in E2 as [Ej Ek]. apply Nat.eqb_eq in Ej, Ek. subst. symmetry. apply (Eel_corner_j K FT C0). }
  destruct (Nat.eqb j 0 && Nat.eqb k (S d))%bool eqn:E3.
  { apply andb_true_iff in E3 as [Ej Ek]. apply Nat.eqb_eq in Ej, Ek. subst. symmetry. apply (Eel_corner_k K FT C0). }
  reflexivity.
Qed.

Theorem tri_elevate_correct d v l1 l2 l3 : length v = tri_size d -> l1 + l2 + l3 = 1 ->
  tri_bernstein K (S d) (tri_elevate K d v) l1 l2 l3 = tri_bernstein K d v l1 l2 l3.
Proof.
  intros Hv0 Hs. assert (Hv : wf_flat d v) by (unfold wf_flat; rewrite tri_num_size; exact Hv0).
  assert (Hwf : well_formed (S d) (erows K d v)).
  { split; [apply erows_length|]. intros k Hk. apply erows_row. lia. }
  unfold tri_bernstein at 1. rewrite split_erows.
  rewrite (tsum_is_de_casteljau K RT l1 l2 l3 (S d) _ Hwf).
  assert (Hf : feq (S d) (fun_of (erows K d v)) (Eel K d (fun_of (split_rows (S d) v)))).
  { intros j k Hjk. rewrite fun_of_erows by exact Hjk. apply entry_is_Eel. exact Hjk. }
  rewrite (iterD_feq K (l1, l2, l3) (S d) 0 _ _ ltac:(rewrite Nat.add_0_r; exact Hf) 0%nat 0%nat) by lia.
  rewrite (Eel_preserves_shape K FT C0 l1 l2 l3 d _ Hs).
  unfold tri_bernstein. symmetry. apply (tsum_is_de_casteljau K RT). apply split_rows_well_formed. exact Hv.
Qed.
End Shape.
