(* C16: the value computed by (the model of) linearization_error bounds the true deviation from the chord, per coordinate:
   for every row v of the net (degree n >= 1) and every s in [0,1],
        | B[v](s) - ((1-s) v_0 + s v_n) |  <=  (1/8) n (n-1) worst_case(v)
   with worst_case and the literals 2 and 0.125 as read from the source. *)
From Coq Require Import List Arith ZArith QArith Qcanon Reals Qreals Lra Lia.
From BZ Require Import Base.Ops Base.QcInst Base.RInst Model.Curve Model.LinErr Gen.PyGeometricIntersection
  Theory.Hom Theory.ValidSound Theory.LinError.
Import ListNotations.

Lemma Qc2R_le a b : (a <= b)%Qc -> (Qc2R a <= Qc2R b)%R.
Proof. intros H. unfold Qc2R. apply Qle_Rle. exact H. Qed.
Lemma Qc2R_opp x : Qc2R (- x)%Qc = (- Qc2R x)%R.
Proof. unfold Qcopp. rewrite Qc2R_Q2Qc. unfold Qc2R. apply Q2R_opp. Qed.
Lemma qc_abs_R x : Qc2R (qc_abs x) = Rabs (Qc2R x).
Proof.
  unfold qc_abs. destruct (Qle_bool 0 (this x)) eqn:E.
  - apply Qle_bool_iff in E. rewrite Rabs_pos_eq; [reflexivity|]. unfold Qc2R.
    replace 0%R with (Q2R 0) by (unfold Q2R; cbn; lra). apply Qle_Rle. exact E.
  - rewrite Qc2R_opp. rewrite Rabs_left; [reflexivity|]. unfold Qc2R.
    replace 0%R with (Q2R 0) by (unfold Q2R; cbn; lra). apply Qlt_Rlt. apply Qnot_le_lt. intros Hc. apply Qle_bool_iff in Hc. congruence.
Qed.
Lemma qc_max_ge_l a b : (a <= qc_max a b)%Qc.
Proof.
  unfold qc_max. destruct (Qle_bool (this a) (this b)) eqn:E; [apply Qle_bool_iff in E; exact E|apply Qcle_refl].
Qed.
Lemma qc_max_ge_r a b : (b <= qc_max a b)%Qc.
Proof.
  unfold qc_max. destruct (Qle_bool (this a) (this b)) eqn:E; [apply Qcle_refl|].
  apply Qclt_le_weak. apply Qcnot_le_lt. intros Hc. assert (Qle_bool (this a) (this b) = true) by (apply Qle_bool_iff; exact Hc). congruence.
Qed.

Lemma second_diffs_nth c : forall v j, (j + 3 <= length v)%nat ->
  nth j (second_diffs c v) (Q2Qc 0) = (nth j v (Q2Qc 0) - c * nth (S j) v (Q2Qc 0) + nth (S (S j)) v (Q2Qc 0))%Qc.
Proof.
  induction v as [|a v IH]; intros j Hj; [cbn [length] in Hj; lia|].
  destruct v as [|b [|c' v']]; cbn [length] in Hj; try lia.
  destruct j as [|j]; [reflexivity|].
  change (second_diffs c (a :: b :: c' :: v')) with ((a - c * b + c')%Qc :: second_diffs c (b :: c' :: v')).
  cbn [nth]. apply IH. cbn [length]. lia.
Qed.
Lemma second_diffs_length c : forall v, length (second_diffs c v) = (length v - 2)%nat.
Proof.
  induction v as [|a v IH]; [reflexivity|]. destruct v as [|b [|c' v']]; try reflexivity.
  change (second_diffs c (a :: b :: c' :: v')) with ((a - c * b + c')%Qc :: second_diffs c (b :: c' :: v')).
  cbn [length] in *. rewrite IH. lia.
Qed.
Lemma fold_max_ge : forall (l : list Qc) j, (j < length l)%nat ->
  (qc_abs (nth j l (Q2Qc 0)) <= fold_right (fun x acc => qc_max (qc_abs x) acc) (Q2Qc 0) l)%Qc.
Proof.
  induction l as [|x l IH]; intros j Hj; [cbn [length] in Hj; lia|].
  cbn [fold_right]. destruct j as [|j]; [apply qc_max_ge_l|].
  cbn [nth]. eapply Qcle_trans; [apply IH; cbn [length] in Hj; lia|apply qc_max_ge_r].
Qed.

Theorem worst_case_bounds_second_differences v j : (j + 3 <= length v)%nat ->
  (Rabs (nth j (map Qc2R v) 0 - 2 * nth (S j) (map Qc2R v) 0 + nth (S (S j)) (map Qc2R v) 0) <= Qc2R (worst_case v))%R.
Proof.
  intros Hj. unfold worst_case.
  set (sd := second_diffs (Q2Qc linearization_second_diff_coeff) v).
  assert (Hn : (j < length sd)%nat) by (unfold sd; rewrite second_diffs_length; lia).
  pose proof (Qc2R_le _ _ (fold_max_ge sd j Hn)) as H. rewrite qc_abs_R in H.
  unfold sd in H at 1. rewrite second_diffs_nth in H by exact Hj.
  assert (E : forall k, nth k (map Qc2R v) 0%R = Qc2R (nth k v (Q2Qc 0))).
  { intros k. rewrite <- (map_nth Qc2R). f_equal. unfold Qc2R. cbn. unfold Q2R. cbn. lra. }
  rewrite !E.
  replace (Qc2R (nth j v (Q2Qc 0)) - 2 * Qc2R (nth (S j) v (Q2Qc 0)) + Qc2R (nth (S (S j)) v (Q2Qc 0)))%R
    with (Qc2R (nth j v (Q2Qc 0) - Q2Qc linearization_second_diff_coeff * nth (S j) v (Q2Qc 0) + nth (S (S j)) v (Q2Qc 0))%Qc); [exact H|].
  rewrite (hom_add _ _ _ Qc2R_hom), Qc2R_sub, (hom_mul _ _ _ Qc2R_hom), Qc2R_Q2Qc. cbn [oadd omul ROps].
  unfold linearization_second_diff_coeff, Q2R. cbn. lra.
Qed.

(* the per-coordinate guarantee, with the multiplier read from the source *)
Theorem linearization_error_is_a_bound (v : list Qc) (s : R) : (2 <= length v)%nat -> (0 <= s <= 1)%R ->
  (Rabs (bernstein ROps (map Qc2R v) (1 - s) s - ((1 - s) * hd 0 (map Qc2R v) + s * last (map Qc2R v) 0))
   <= Q2R linearization_multiplier * INR (length v - 1) * (INR (length v - 1) - 1) * Qc2R (worst_case v))%R.
Proof.
  intros Hl Hs.
  pose proof (linearization_bound (map Qc2R v) (Qc2R (worst_case v)) s ltac:(rewrite map_length; exact Hl)
                ltac:(intros j Hj; rewrite map_length in Hj; apply worst_case_bounds_second_differences; exact Hj) Hs) as H.
  rewrite map_length in H.
  replace (Q2R linearization_multiplier) with (/ 8)%R by (unfold linearization_multiplier, Q2R; cbn; lra).
  lra.
Qed.
