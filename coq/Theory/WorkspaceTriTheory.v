(* C14 (triangle intersections): for every state of the two workspaces - whatever earlier calls left in them, whatever their
   sizes - a call with at least two resizes allowed returns exactly tisect(x), and no cell that was not written during this call
   is ever read; with fewer resizes the only other outcomes are the two documented size errors with the right numbers. *)
From Coq Require Import List Arith Bool Lia.
From BZ Require Import Model.WorkspaceTri.
Import ListNotations.

Section T.
Variable input seg : Type.
Variable tisect : input -> list (list seg).
Notation state := (state seg).
Notation call := (call input seg tisect).
Notation fortran_call := (fortran_call input seg tisect).
Arguments Stale {A}. Arguments Fresh {A}.

Lemma read_overwrite {A} (new : list A) old i d : (i < length new)%nat -> read (overwrite new old) i = Some (nth i new d).
Proof.
  intros Hi. unfold read, overwrite. rewrite app_nth1 by (rewrite map_length; exact Hi).
  rewrite (nth_indep _ Stale (Fresh d)) by (rewrite map_length; exact Hi). rewrite (map_nth Fresh). reflexivity.
Qed.
Lemma read_range_overwrite {A} (pre mid post : list A) old :
  read_range (overwrite (pre ++ mid ++ post) old) (length pre) (length mid) = Some mid.
Proof.
  revert pre. induction mid as [|a mid IH]; intros pre; [reflexivity|].
  cbn [length read_range].
  assert (Ha : forall d, nth (length pre) (pre ++ (a :: mid) ++ post) d = a).
  { intros d. rewrite app_nth2 by lia. rewrite Nat.sub_diag. reflexivity. }
  rewrite (read_overwrite _ old (length pre) a) by (rewrite !app_length; cbn [length]; lia). rewrite Ha.
  specialize (IH (pre ++ [a])). rewrite app_length in IH. cbn [length] in IH. rewrite Nat.add_1_r in IH.
  rewrite <- app_assoc in IH. cbn [app] in IH |- *. rewrite IH. reflexivity.
Qed.

Lemma cum_nth : forall (done rest : list (list seg)) acc d, rest <> [] ->
  nth (length done) (cum seg acc (done ++ rest)) d = (acc + total seg done + length (hd [] rest))%nat.
Proof.
  induction done as [|p done IH]; intros rest acc d Hr.
  - destruct rest as [|q rest]; [congruence|]. cbn [app length cum nth hd]. unfold total. cbn [concat length]. lia.
  - cbn [app length cum nth]. rewrite IH by exact Hr. unfold total. cbn [concat]. rewrite app_length. lia.
Qed.
Lemma cum_length : forall (ps : list (list seg)) acc, length (cum seg acc ps) = length ps.
Proof. induction ps as [|p ps IH]; intros acc; cbn [cum length]; [reflexivity|rewrite IH; reflexivity]. Qed.

Lemma polygons_ok olde olds : forall (rest done : list (list seg)),
  polygons seg {| ends := overwrite (cum seg 0 (done ++ rest)) olde; segs := overwrite (concat (done ++ rest)) olds |}
           (length done) (length rest) (total seg done) = Some rest.
Proof.
  induction rest as [|p rest IH]; intros done; [reflexivity|].
  cbn [length polygons ends segs].
  rewrite (read_overwrite _ olde (length done) 0%nat) by (rewrite cum_length, app_length; cbn [length]; lia).
  rewrite cum_nth by discriminate. cbn [hd Nat.add].
  replace (total seg done + length p - total seg done)%nat with (length p) by lia.
  assert (Hc : concat (done ++ p :: rest) = concat done ++ p ++ concat rest) by (rewrite concat_app; reflexivity).
  rewrite Hc. unfold total at 1. rewrite read_range_overwrite. rewrite <- Hc.
  specialize (IH (done ++ [p])). rewrite <- app_assoc in IH. cbn [app] in IH.
  rewrite app_length in IH. cbn [length] in IH. rewrite Nat.add_1_r in IH.
  assert (Ht : total seg (done ++ [p]) = (total seg done + length p)%nat).
  { unfold total. rewrite concat_app. cbn [concat]. rewrite !app_length. cbn [length]. lia. }
  rewrite Ht in IH. rewrite IH. reflexivity.
Qed.

Definition good (x : input) (o : out seg) (e sg : nat) : Prop :=
  o = Result seg (tisect x) \/
  o = EndsTooSmall seg (length (tisect x)) e \/
  o = SegsTooSmall seg (total seg (tisect x)) sg.

(* the last cumulative count is the total *)
Lemma cum_last : forall (ps : list (list seg)) acc d, ps <> [] -> nth (length ps - 1) (cum seg acc ps) d = (acc + total seg ps)%nat.
Proof.
  intros ps acc d Hne. destruct (exists_last Hne) as [done [p E]]. subst ps.
  rewrite app_length. cbn [length]. replace (length done + 1 - 1)%nat with (length done) by lia.
  rewrite cum_nth by discriminate. cbn [hd]. unfold total. rewrite concat_app. cbn [concat]. rewrite !app_length. cbn [length]. lia.
Qed.

(* a successful Fortran call is read back exactly *)
Lemma success_read (s : state) x s1 k : fortran_call s x = (s1, (k, FSuccess)) ->
  polygons seg s1 0 k 0 = Some (tisect x).
Proof.
  unfold WorkspaceTri.fortran_call. set (ps := tisect x).
  destruct (Nat.eqb (length ps) 0) eqn:E0.
  - intros H. injection H as H1 H2. subst. apply Nat.eqb_eq in E0. destruct ps; [reflexivity|discriminate].
  - destruct (Nat.ltb (length (ends seg s)) (length ps)); [discriminate|].
    cbn [ends segs]. destruct (Nat.ltb (length (segs seg s)) (total seg ps)); [discriminate|].
    intros H. injection H as H1 H2. subst s1 k.
    exact (polygons_ok (ends seg s) (segs seg s) ps []).
Qed.

Theorem call_outcome : forall r (s : state) x,
  snd (call r s x) = Result seg (tisect x) \/
  (exists e, snd (call r s x) = EndsTooSmall seg (length (tisect x)) e) \/
  (exists g, snd (call r s x) = SegsTooSmall seg (total seg (tisect x)) g).
Proof.
  induction r as [|r IH]; intros s x.
  - cbn [WorkspaceTri.call].
    destruct (fortran_call s x) as [s1 [k st]] eqn:Ef. destruct st.
    + left. cbn [snd]. rewrite (success_read s x s1 k Ef). reflexivity.
    + unfold WorkspaceTri.fortran_call in Ef. set (ps := tisect x) in *.
      destruct (Nat.eqb (length ps) 0) eqn:E0; [discriminate|].
      destruct (Nat.ltb (length (ends seg s)) (length ps)) eqn:E1.
      * injection Ef as H1 H2. subst s1 k. right. left. exists (length (ends seg s)). cbn [snd]. rewrite E1. reflexivity.
      * cbn [ends segs] in Ef. destruct (Nat.ltb (length (segs seg s)) (total seg ps)) eqn:E2; [|discriminate].
        injection Ef as H1 H2. subst s1 k. cbn [ends].
        apply Nat.eqb_neq in E0. apply Nat.ltb_ge in E1.
        assert (E1' : Nat.ltb (length (ends seg s)) (length ps) = false) by (apply Nat.ltb_ge; exact E1). rewrite E1'.
        rewrite (read_overwrite _ _ _ 0%nat) by (rewrite cum_length; lia).
        rewrite cum_last by (destruct ps; [cbn [length] in E0; lia|discriminate]).
        right. right. exists (length (segs seg s)). reflexivity.
  - cbn [WorkspaceTri.call].
    destruct (fortran_call s x) as [s1 [k st]] eqn:Ef. destruct st.
    + left. cbn [snd]. rewrite (success_read s x s1 k Ef). reflexivity.
    + unfold WorkspaceTri.fortran_call in Ef. set (ps := tisect x) in *.
      destruct (Nat.eqb (length ps) 0) eqn:E0; [discriminate|].
      destruct (Nat.ltb (length (ends seg s)) (length ps)) eqn:E1.
      * injection Ef as H1 H2. subst s1 k. rewrite E1. apply IH.
      * cbn [ends segs] in Ef. destruct (Nat.ltb (length (segs seg s)) (total seg ps)) eqn:E2; [|discriminate].
        injection Ef as H1 H2. subst s1 k. cbn [ends].
        apply Nat.eqb_neq in E0. apply Nat.ltb_ge in E1.
        assert (E1' : Nat.ltb (length (ends seg s)) (length ps) = false) by (apply Nat.ltb_ge; exact E1). rewrite E1'.
        rewrite (read_overwrite _ _ _ 0%nat) by (rewrite cum_length; lia).
        apply IH.
Qed.
Corollary no_stale_read r (s : state) x : snd (call r s x) <> StaleRead seg.
Proof. destruct (call_outcome r s x) as [H|[[e H]|[g H]]]; rewrite H; discriminate. Qed.

Lemma overwrite_length {A} (new : list A) old : (length new <= length old)%nat -> length (overwrite new old) = length old.
Proof. intros H. unfold overwrite. rewrite app_length, map_length, skipn_length. lia. Qed.

Lemma fits_both r (s : state) x : (length (tisect x) <= length (ends seg s))%nat -> (total seg (tisect x) <= length (segs seg s))%nat ->
  snd (call r s x) = Result seg (tisect x).
Proof.
  intros He Hs.
  assert (Hf : exists s1 k, fortran_call s x = (s1, (k, FSuccess))).
  { unfold WorkspaceTri.fortran_call. destruct (Nat.eqb (length (tisect x)) 0); [eauto|].
    assert (E1 : Nat.ltb (length (ends seg s)) (length (tisect x)) = false) by (apply Nat.ltb_ge; exact He). rewrite E1.
    cbn [ends segs].
    assert (E2 : Nat.ltb (length (segs seg s)) (total seg (tisect x)) = false) by (apply Nat.ltb_ge; exact Hs). rewrite E2. eauto. }
  destruct Hf as [s1 [k Hf]].
  destruct r; cbn [WorkspaceTri.call]; rewrite Hf; cbn [snd]; rewrite (success_read s x s1 k Hf); reflexivity.
Qed.

Lemma fits_ends r (s : state) x : (length (tisect x) <= length (ends seg s))%nat ->
  snd (call (S r) s x) = Result seg (tisect x).
Proof.
  intros He.
  destruct (le_lt_dec (total seg (tisect x)) (length (segs seg s))) as [Hs|Hs]; [apply fits_both; assumption|].
  cbn [WorkspaceTri.call]. unfold WorkspaceTri.fortran_call. set (ps := tisect x) in *.
  destruct (Nat.eqb (length ps) 0) eqn:E0.
  { apply Nat.eqb_eq in E0. destruct ps; [|discriminate]. unfold total in Hs. cbn in Hs. lia. }
  assert (E1 : Nat.ltb (length (ends seg s)) (length ps) = false) by (apply Nat.ltb_ge; exact He). rewrite E1.
  cbn [ends segs].
  assert (E2 : Nat.ltb (length (segs seg s)) (total seg ps) = true) by (apply Nat.ltb_lt; exact Hs). rewrite E2.
  rewrite E1. cbn [ends].
  apply Nat.eqb_neq in E0.
  rewrite (read_overwrite _ _ _ 0%nat) by (rewrite cum_length; lia).
  rewrite cum_last by (destruct ps; [cbn [length] in E0; lia|discriminate]). cbn [Nat.add].
  apply fits_both; cbn [ends segs].
  - rewrite overwrite_length by (rewrite cum_length; exact He). exact He.
  - rewrite repeat_length. fold ps. lia.
Qed.

(* two resizes always suffice: first the ends buffer, then the segments buffer *)
Theorem two_resizes_suffice r (s : state) x : snd (call (S (S r)) s x) = Result seg (tisect x).
Proof.
  destruct (le_lt_dec (length (tisect x)) (length (ends seg s))) as [He|He]; [apply fits_ends; exact He|].
  change (call (S (S r)) s x) with (WorkspaceTri.call input seg tisect (S (S r)) s x).
  cbn [WorkspaceTri.call]. unfold WorkspaceTri.fortran_call at 1. set (ps := tisect x) in *.
  destruct (Nat.eqb (length ps) 0) eqn:E0.
  { apply Nat.eqb_eq in E0. lia. }
  assert (E1 : Nat.ltb (length (ends seg s)) (length ps) = true) by (apply Nat.ltb_lt; exact He). rewrite E1, E1.
  apply fits_ends. cbn [ends]. rewrite repeat_length. fold ps. lia.
Qed.

(* history independence: whatever happened before, an intersection with at least two resizes allowed returns tisect of its own input *)
Theorem history_independence (history : list (op input)) (x : input) r :
  let s := fst (run input seg tisect (init seg) history) in
  snd (step input seg tisect s (Intersect input x (S (S r)))) = Result seg (tisect x).
Proof. cbv zeta. cbn [step]. apply two_resizes_suffice. Qed.
End T.
