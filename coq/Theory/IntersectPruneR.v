(* C03: disjoint bounding boxes never discard a real common point (over R, every degree) *)
From Coq Require Import List Reals Lra.
From BZ Require Import Base.Ops Base.RInst Model.Curve Theory.CurveEval Theory.CurveEvalExtra.
Import ListNotations.

(* ---- disjoint bounding boxes: the two curves have no common point (over R, every degree) ---- *)
Theorem bbox_disjoint_sound (thr : nat) (v1x v1y v2x v2y : list R) (l1 r1 b1 t1 l2 r2 b2 t2 s t : R) :
  v1x <> [] -> v1y <> [] -> v2x <> [] -> v2y <> [] ->
  within l1 r1 v1x -> within b1 t1 v1y -> within l2 r2 v2x -> within b2 t2 v2y ->
  (r2 < l1 \/ r1 < l2 \/ t2 < b1 \/ t1 < b2)%R ->
  (0 <= s <= 1)%R -> (0 <= t <= 1)%R ->
  ~ (eval_bary ROps thr v1x (1 - s)%R s = eval_bary ROps thr v2x (1 - t)%R t /\
     eval_bary ROps thr v1y (1 - s)%R s = eval_bary ROps thr v2y (1 - t)%R t).
Proof.
  intros N1 N2 N3 N4 W1 W2 W3 W4 Hsep Hs Ht [Ex Ey].
  pose proof (eval_bary_in_hull thr l1 r1 v1x s N1 Hs W1) as H1.
  pose proof (eval_bary_in_hull thr b1 t1 v1y s N2 Hs W2) as H2.
  pose proof (eval_bary_in_hull thr l2 r2 v2x t N3 Ht W3) as H3.
  pose proof (eval_bary_in_hull thr b2 t2 v2y t N4 Ht W4) as H4.
  cbn [osub o1 ROps] in *. rewrite Ex in H1. rewrite Ey in H2.
  destruct Hsep as [H|[H|[H|H]]]; lra.
Qed.

