(* List-level triangular de Casteljau rounds = the index-function operator D; hence the list-level
   model of specialize_triangle is the net of blossom values, and (with TriLink, TriBlossom):
     B[specialize_tri v a b c](mu) = B[v](mu1 a + mu2 b + mu3 c)   for every degree, any commutative ring. *)
From Coq Require Import List Arith Lia Ring.
From BZ Require Import Base.Ops Model.Curve Model.Triangle Theory.CurveEval Theory.CurveSubdiv Theory.TriEval
  Theory.TriBlossom Theory.TriLink.
Import ListNotations.

Section Link2.
Context {T : Type} (K : Ops T) (RT : ring_of K).
Add Ring TRL2 : RT.
Declare Scope t_scope. Delimit Scope t_scope with t.
Notation "0" := (o0 K) : t_scope. Notation "1" := (o1 K) : t_scope.
Infix "+" := (oadd K) : t_scope. Infix "*" := (omul K) : t_scope. Infix "-" := (osub K) : t_scope.
Local Open Scope t_scope.
Notation fun_of := (fun_of K).

Lemma nth_dc_round l1 l2 : forall (v : list T) j, (S j < length v)%nat ->
  nth j (dc_round K l1 l2 v) 0 = l1 * nth j v 0 + l2 * nth (S j) v 0.
Proof.
  induction v as [|a v IH]; intros j Hj; [simpl in Hj; lia|].
  destruct v as [|b v']; [simpl in Hj; lia|].
  destruct j as [|j]; [reflexivity|].
  change (dc_round K l1 l2 (a :: b :: v')) with ((l1 * a + l2 * b) :: dc_round K l1 l2 (b :: v')).
  cbn [nth]. rewrite IH by (simpl in Hj |- *; lia). reflexivity.
Qed.
Lemma nth_zipw_add : forall (u w : list T) j, (j < length u)%nat -> (j < length w)%nat ->
  nth j (zipw (fun a b => a + b) u w) 0 = nth j u 0 + nth j w 0.
Proof.
  induction u as [|a u IH]; intros [|b w] j Hu Hw; simpl in Hu, Hw; try lia.
  destruct j; [reflexivity|]. cbn [zipw nth]. apply IH; lia.
Qed.
Lemma zipw_add_length : forall (u w : list T), length (zipw (fun a b => a + b) u w) = Nat.min (length u) (length w).
Proof. induction u as [|a u IH]; intros [|b w]; cbn [zipw length Nat.min]; auto. Qed.

(* rows of one round *)
Lemma tri_round_rows_nth l1 l2 l3 : forall rows k,
  (S k < length rows)%nat ->
  nth k (tri_round_rows K rows l1 l2 l3) []
  = zipw (fun a b => a + b) (dc_round K l1 l2 (nth k rows [])) (map (fun x => l3 * x) (nth (S k) rows [])).
Proof.
  induction rows as [|r rows IH]; intros k Hk; [simpl in Hk; lia|].
  destruct rows as [|r' rest]; [simpl in Hk; lia|].
  destruct k as [|k]; [reflexivity|].
  change (tri_round_rows K (r :: r' :: rest) l1 l2 l3)
    with (zipw (fun a b => a + b) (dc_round K l1 l2 r) (map (fun x => l3 * x) r') :: tri_round_rows K (r' :: rest) l1 l2 l3).
  cbn [nth]. apply IH. simpl in Hk |- *. lia.
Qed.
Lemma tri_round_rows_length l1 l2 l3 : forall rows, length (tri_round_rows K rows l1 l2 l3) = pred (length rows).
Proof.
  induction rows as [|r rows IH]; [reflexivity|]. destruct rows as [|r' rest]; [reflexivity|].
  change (tri_round_rows K (r :: r' :: rest) l1 l2 l3)
    with (zipw (fun a b => a + b) (dc_round K l1 l2 r) (map (fun x => l3 * x) r') :: tri_round_rows K (r' :: rest) l1 l2 l3).
  cbn [length] in IH |- *. rewrite IH. reflexivity.
Qed.

Theorem round_rows_well_formed d rows l1 l2 l3 : well_formed (S d) rows ->
  well_formed d (tri_round_rows K rows l1 l2 l3).
Proof.
  intros [Hlen Hrow]. split; [rewrite tri_round_rows_length, Hlen; reflexivity|].
  intros k Hk. rewrite tri_round_rows_nth by lia. rewrite zipw_add_length, (dc_round_length K), map_length.
  rewrite !Hrow by lia. lia.
Qed.
Theorem round_rows_is_D d rows l1 l2 l3 : well_formed (S d) rows ->
  feq d (fun_of (tri_round_rows K rows l1 l2 l3)) (D K (l1, l2, l3) (fun_of rows)).
Proof.
  intros [Hlen Hrow] j k Hjk. unfold TriLink.fun_of, D.
  rewrite tri_round_rows_nth by lia.
  rewrite nth_zipw_add.
  - rewrite nth_dc_round by (rewrite Hrow; lia).
    assert (Hm : nth j (map (fun x => l3 * x) (nth (S k) rows [])) 0 = l3 * nth j (nth (S k) rows []) 0).
    { rewrite <- (map_nth (fun x => l3 * x)). f_equal. ring. }
    rewrite Hm. reflexivity.
  - rewrite (dc_round_length K), Hrow by lia. lia.
  - rewrite map_length, Hrow by lia. lia.
Qed.

(* split_rows (concat rows) = rows for well-formed rows *)
Lemma split_rows_concat : forall len (rows : list (list T)),
  length rows = len -> (forall k, (k < len)%nat -> length (nth k rows []) = (len - k)%nat) ->
  split_rows len (concat rows) = rows.
Proof.
  induction len as [|len IH]; intros rows Hl Hr.
  - destruct rows; [reflexivity|discriminate].
  - destruct rows as [|r rows]; [discriminate|]. simpl in Hl. injection Hl as Hl.
    cbn [concat split_rows].
    pose proof (Hr 0%nat ltac:(lia)) as H0. cbn [nth] in H0. rewrite Nat.sub_0_r in H0.
    rewrite <- H0. rewrite firstn_app, Nat.sub_diag, firstn_all, firstn_O, app_nil_r.
    rewrite skipn_app, Nat.sub_diag, skipn_all, skipn_O. cbn [app].
    f_equal. apply IH; [exact Hl|]. intros k Hk. specialize (Hr (S k) ltac:(lia)). cbn [nth] in Hr. rewrite Hr. lia.
Qed.
Lemma concat_length_wf : forall len (rows : list (list T)),
  length rows = len -> (forall k, (k < len)%nat -> length (nth k rows []) = (len - k)%nat) ->
  length (concat rows) = tri_num len.
Proof.
  induction len as [|len IH]; intros rows Hl Hr.
  - destruct rows; [reflexivity|discriminate].
  - destruct rows as [|r rows]; [discriminate|]. simpl in Hl. injection Hl as Hl.
    cbn [concat]. rewrite app_length.
    pose proof (Hr 0%nat ltac:(lia)) as H0. cbn [nth] in H0. rewrite H0, Nat.sub_0_r.
    rewrite (IH rows Hl). { reflexivity. }
    intros k Hk. specialize (Hr (S k) ltac:(lia)). cbn [nth] in Hr. rewrite Hr. lia.
Qed.

Definition wf_flat (d : nat) (v : list T) : Prop := length v = tri_num (S d).

(* one round on the flat list *)
Theorem tri_round_flat d v l1 l2 l3 : wf_flat (S d) v ->
  wf_flat d (tri_round K (S d) v l1 l2 l3) /\
  feq d (fun_of (split_rows (S d) (tri_round K (S d) v l1 l2 l3))) (D K (l1, l2, l3) (fun_of (split_rows (S (S d)) v))).
Proof.
  intros Hv. pose proof (split_rows_well_formed (S d) v Hv) as Hwf.
  pose proof (round_rows_well_formed d _ l1 l2 l3 Hwf) as [Hl Hr].
  unfold tri_round. split.
  - unfold wf_flat. apply concat_length_wf; [exact Hl|]. intros k Hk. rewrite Hr by lia. lia.
  - rewrite split_rows_concat; [apply round_rows_is_D; exact Hwf | exact Hl |]. intros k Hk. rewrite Hr by lia. lia.
Qed.

(* n rounds *)
Theorem tri_rounds_flat w : forall n m v, wf_flat (n + m) v ->
  wf_flat m (tri_rounds K n (n + m) w v) /\
  feq m (fun_of (split_rows (S m) (tri_rounds K n (n + m) w v))) (iterD K w n (fun_of (split_rows (S (n + m)) v))).
Proof.
  induction n as [|n IH]; intros m v Hv.
  - cbn [tri_rounds iterD Nat.add]. split; [exact Hv|]. intros j k _. reflexivity.
  - cbn [tri_rounds iterD]. replace (S n + m - 1)%nat with (n + m)%nat by lia.
    destruct w as [[a1 a2] a3]. unfold tri_round_w.
    change (S n + m)%nat with (S (n + m)).
    destruct (tri_round_flat (n + m) v a1 a2 a3 Hv) as [Hw Hf].
    destruct (IH m _ Hw) as [Hw2 Hf2]. split; [exact Hw2|].
    intros j k Hjk. rewrite (Hf2 j k Hjk).
    apply (iterD_feq K (a1, a2, a3) n m); [|exact Hjk]. exact Hf.
Qed.

Lemma hd_fun_of (v : list T) : hd 0 v = fun_of (split_rows 1 v) 0%nat 0%nat.
Proof. unfold TriLink.fun_of. cbn [split_rows nth]. destruct v; reflexivity. Qed.

(* de Casteljau evaluation on the flat list = iterated D *)
Theorem tri_dc_eval_is_iterD d v w : wf_flat d v ->
  tri_dc_eval K d v w = iterD K w d (fun_of (split_rows (S d) v)) 0%nat 0%nat.
Proof.
  intros Hv. unfold tri_dc_eval. destruct (tri_rounds_flat w d 0 v) as [_ Hf].
  { rewrite Nat.add_0_r. exact Hv. }
  rewrite Nat.add_0_r in Hf. rewrite hd_fun_of. apply Hf. lia.
Qed.

(* ... = the bivariate Bernstein sum *)
Theorem tri_dc_eval_is_bernstein d v l1 l2 l3 : wf_flat d v ->
  tri_dc_eval K d v (l1, l2, l3) = tri_bernstein K d v l1 l2 l3.
Proof.
  intros Hv. rewrite tri_dc_eval_is_iterD by exact Hv. unfold tri_bernstein.
  symmetry. apply (tsum_is_de_casteljau K RT). apply split_rows_well_formed. exact Hv.
Qed.

(* blossom values computed by the list model *)
Theorem spec_val_is_L3 d v a b c j k : wf_flat d v -> (j + k <= d)%nat ->
  spec_val K d v a b c (d - j - k) j k = L3 K a b c d (fun_of (split_rows (S d) v)) j k.
Proof.
  intros Hv Hjk. unfold spec_val, L3.
  set (i := (d - j - k)%nat).
  replace (d - i - j)%nat with k by lia. replace (d - i)%nat with (j + k)%nat by lia.
  (* i rounds with a *)
  destruct (tri_rounds_flat a i (j + k) v) as [H1 F1]. { replace (i + (j + k))%nat with d by lia. exact Hv. }
  replace (i + (j + k))%nat with d in * by lia.
  destruct (tri_rounds_flat b j k _ H1) as [H2 F2].
  destruct (tri_rounds_flat c k 0 (tri_rounds K j (j + k) b (tri_rounds K i d a v))) as [H3 F3].
  { rewrite Nat.add_0_r. exact H2. }
  rewrite Nat.add_0_r in F3. rewrite hd_fun_of. rewrite (F3 0%nat 0%nat) by lia.
  rewrite (iterD_feq K c k 0 _ _ ltac:(rewrite Nat.add_0_r; exact F2) 0%nat 0%nat) by lia.
  rewrite (iterD_feq K c k 0 _ (iterD K b j (iterD K a i (fun_of (split_rows (S d) v)))) ) by
    (try lia; rewrite Nat.add_0_r; apply (iterD_feq K b j k); exact F1).
  (* reorder: c^k b^j a^i = a^i b^j c^k *)
  rewrite (iterD_comm K RT c b k j _ 0%nat 0%nat).
  rewrite (iterD_fext K b j _ _ (iterD_comm K RT c a k i _) 0%nat 0%nat).
  rewrite (iterD_comm K RT b a j i _ 0%nat 0%nat).
  reflexivity.
Qed.
End Link2.

Section Final.
Context {T : Type} (K : Ops T) (RT : ring_of K).
Notation "0" := (o0 K).
Notation fun_of := (fun_of K).

Lemma nth_map_seq {A} (f : nat -> A) (d0 : A) n k : (k < n)%nat -> nth k (map f (seq 0 n)) d0 = f k.
Proof.
  intros Hk. rewrite (nth_indep _ d0 (f 0%nat)) by (rewrite map_length, seq_length; exact Hk).
  rewrite map_nth. rewrite seq_nth by exact Hk. reflexivity.
Qed.

(* C09, list level: the model of specialize_triangle returns the control net of  mu |-> B[v](mu1 a + mu2 b + mu3 c).
   Every degree, every net of the right size, all weights, any commutative ring. *)
Theorem specialize_tri_correct d v a b c m1 m2 m3 : length v = tri_size d ->
  tri_bernstein K d (specialize_tri K d v a b c) m1 m2 m3
  = let '(l1, l2, l3) := comb K m1 m2 m3 a b c in tri_bernstein K d v l1 l2 l3.
Proof.
  intros Hv0. assert (Hv : wf_flat d v) by (unfold wf_flat; rewrite tri_num_size; exact Hv0).
  set (rows' := map (fun k => map (fun j => spec_val K d v a b c (d - j - k) j k) (seq 0 (S d - k))) (seq 0 (S d))).
  assert (Hl : length rows' = S d) by (unfold rows'; rewrite map_length, seq_length; reflexivity).
  assert (Hr : forall k, (k < S d)%nat -> length (nth k rows' []) = (S d - k)%nat).
  { intros k Hk. unfold rows'. rewrite nth_map_seq by exact Hk. rewrite map_length, seq_length. reflexivity. }
  assert (Hwf : well_formed d rows').
  { split; [exact Hl|]. intros k Hk. apply Hr. lia. }
  assert (Hsplit : split_rows (S d) (specialize_tri K d v a b c) = rows').
  { unfold specialize_tri. fold rows'. apply split_rows_concat; [exact Hl|exact Hr]. }
  assert (Hf : feq d (fun_of rows') (L3 K a b c d (fun_of (split_rows (S d) v)))).
  { intros j k Hjk. unfold TriLink.fun_of at 1. unfold rows'.
    rewrite nth_map_seq by lia. rewrite nth_map_seq by lia.
    apply (spec_val_is_L3 K RT); [exact Hv|exact Hjk]. }
  unfold tri_bernstein at 1. rewrite Hsplit.
  rewrite (tsum_is_de_casteljau K RT m1 m2 m3 d rows' Hwf).
  rewrite (iterD_feq K (m1, m2, m3) d 0 _ _ ltac:(rewrite Nat.add_0_r; exact Hf) 0%nat 0%nat) by lia.
  rewrite (tri_blossom K RT).
  destruct (comb K m1 m2 m3 a b c) as [[l1 l2] l3] eqn:Ec.
  unfold tri_bernstein. symmetry. apply (tsum_is_de_casteljau K RT). apply split_rows_well_formed. exact Hv.
Qed.
End Final.
