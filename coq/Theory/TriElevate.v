(* C08 (triangles): degree elevation at the level of index functions.
   Eup n f (j,k) = i f(j,k) + j f(j-1,k) + k f(j,k-1)   with i = n+1-j-k   (Triangle.elevate before its division)
   Theorem: de Casteljau evaluation of Eup n f in degree n+1 equals (n+1) (w1+w2+w3) times the evaluation of f in
   degree n - for every degree, any commutative ring, any weights.  With the division (field of characteristic 0) and
   barycentric weights the elevated net is the same map point for point. *)
From Coq Require Import List Arith Lia Ring Field.
From BZ Require Import Base.Ops Theory.CurveEval Theory.TriBlossom.
Import ListNotations.

Section Elev.
Context {T : Type} (K : Ops T) (RT : ring_of K).
Add Ring TRE : RT.
Declare Scope t_scope. Delimit Scope t_scope with t.
Notation "0" := (o0 K) : t_scope. Notation "1" := (o1 K) : t_scope.
Infix "+" := (oadd K) : t_scope. Infix "*" := (omul K) : t_scope. Infix "-" := (osub K) : t_scope.
Local Open Scope t_scope.
Notation F := (F (T:=T)).
Notation W3 := (W3 (T:=T)).
Notation D := (D K). Notation iterD := (iterD K). Notation feq := (feq (T:=T)). Notation fext := (fext (T:=T)).

Definition Eup (n : nat) (f : F) : F :=
  fun j k => ofn K (S n - j - k) * f j k + ofn K j * f (pred j) k + ofn K k * f j (pred k).
Definition sigma (w : W3) : T := let '(w1, w2, w3) := w in w1 + w2 + w3.
Definition fadd (f g : F) : F := fun j k => f j k + g j k.
Definition fscale (c : T) (f : F) : F := fun j k => c * f j k.

Lemma D_fadd w f g : fext (D w (fadd f g)) (fadd (D w f) (D w g)).
Proof. intros j k. destruct w as [[w1 w2] w3]. unfold D, fadd. ring. Qed.
Lemma D_fscale w c f : fext (D w (fscale c f)) (fscale c (D w f)).
Proof. intros j k. destruct w as [[w1 w2] w3]. unfold D, fscale. ring. Qed.
Lemma iterD_fadd w n : forall f g, fext (iterD w n (fadd f g)) (fadd (iterD w n f) (iterD w n g)).
Proof.
  induction n as [|n IH]; intros f g j k; [reflexivity|]. cbn [TriBlossom.iterD].
  rewrite (iterD_fext K w n _ _ (D_fadd w f g)). apply IH.
Qed.
Lemma iterD_fscale w c n : forall f, fext (iterD w n (fscale c f)) (fscale c (iterD w n f)).
Proof.
  induction n as [|n IH]; intros f j k; [reflexivity|]. cbn [TriBlossom.iterD].
  rewrite (iterD_fext K w n _ _ (D_fscale w c f)). apply IH.
Qed.

(* one round commutes with elevation up to the term sigma f *)
Lemma D_Eup w m f : feq (S m) (D w (Eup (S m) f)) (fadd (Eup m (D w f)) (fscale (sigma w) f)).
Proof.
  intros j k Hjk. destruct w as [[w1 w2] w3]. unfold D, Eup, fadd, fscale, sigma.
  replace (S (S m) - j - k)%nat with (S (S m - j - k)) by lia.
  replace (S (S m) - S j - k)%nat with (S m - j - k)%nat by lia.
  replace (S (S m) - j - S k)%nat with (S m - j - k)%nat by lia.
  cbn [pred ofn].
  destruct j as [|j]; destruct k as [|k]; cbn [pred ofn]; ring.
Qed.

Theorem Eup_eval w : forall n f,
  iterD w (S n) (Eup n f) 0%nat 0%nat = ofn K (S n) * sigma w * iterD w n f 0%nat 0%nat.
Proof.
  induction n as [|n IH]; intros f.
  - destruct w as [[w1 w2] w3]. cbn [TriBlossom.iterD]. unfold D, Eup, sigma. cbn [pred ofn Nat.sub]. ring.
  - change (iterD w (S (S n)) (Eup (S n) f)) with (iterD w (S n) (D w (Eup (S n) f))).
    assert (H := iterD_feq K w (S n) 0 _ _ ltac:(rewrite Nat.add_0_r; exact (D_Eup w n f))).
    rewrite (H 0%nat 0%nat) by lia.
    rewrite (iterD_fadd w (S n) _ _ 0%nat 0%nat). unfold fadd at 1.
    rewrite (iterD_fscale w (sigma w) (S n) f 0%nat 0%nat). unfold fscale at 1.
    rewrite (IH (D w f)).
    change (iterD w n (D w f)) with (iterD w (S n) f).
    change (ofn K (S (S n))) with (ofn K (S n) + 1). ring.
Qed.
End Elev.

Section ElevField.
Context {T : Type} (K : Ops T) (FT : field_of K) (C0 : char0 K).
Add Field TFE : FT.
Declare Scope t_scope. Delimit Scope t_scope with t.
Notation "0" := (o0 K) : t_scope. Notation "1" := (o1 K) : t_scope.
Infix "+" := (oadd K) : t_scope. Infix "*" := (omul K) : t_scope. Infix "-" := (osub K) : t_scope. Infix "/" := (odiv K) : t_scope.
Local Open Scope t_scope.
Let RT : ring_of K := F_R FT.

(* Triangle.elevate: the division by d + 1 *)
Definition Eel (n : nat) (f : F (T:=T)) : F (T:=T) := fun j k => Eup K n f j k / ofn K (S n).

Theorem Eel_eval w n f :
  iterD K w (S n) (Eel n f) 0%nat 0%nat = sigma K w * iterD K w n f 0%nat 0%nat.
Proof.
  assert (Hs : fext (Eel n f) (fscale K (1 / ofn K (S n)) (Eup K n f))).
  { intros j k. unfold Eel, fscale. field. apply C0. }
  rewrite (iterD_fext K w (S n) _ _ Hs 0%nat 0%nat).
  rewrite (iterD_fscale K RT w _ (S n) _ 0%nat 0%nat). unfold fscale.
  rewrite (Eup_eval K RT w n f). field. apply C0.
Qed.
(* barycentric weights: the same point *)
Corollary Eel_preserves_shape l1 l2 l3 n f : l1 + l2 + l3 = 1 ->
  iterD K (l1, l2, l3) (S n) (Eel n f) 0%nat 0%nat = iterD K (l1, l2, l3) n f 0%nat 0%nat.
Proof. intros H. rewrite Eel_eval. unfold sigma. rewrite H. ring. Qed.
(* the corners of the elevated net are the old corners *)
Lemma Eel_corner_i n f : Eel n f 0%nat 0%nat = f 0%nat 0%nat.
Proof. unfold Eel, Eup. cbn [pred]. replace (S n - 0 - 0)%nat with (S n) by lia. cbn [ofn]. field. apply (C0 n). Qed.
Lemma Eel_corner_j n f : Eel n f (S n) 0%nat = f n 0%nat.
Proof. unfold Eel, Eup. cbn [pred]. replace (S n - S n - 0)%nat with 0%nat by lia. cbn [ofn]. field. apply (C0 n). Qed.
Lemma Eel_corner_k n f : Eel n f 0%nat (S n) = f 0%nat n.
Proof. unfold Eel, Eup. cbn [pred]. replace (S n - 0 - S n)%nat with 0%nat by lia. cbn [ofn]. field. apply (C0 n). Qed.
End ElevField.
