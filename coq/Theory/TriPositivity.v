(* Bernstein positivity for triangles (over R): on the closed reference triangle the surface value lies
   between the smallest and the largest control value.  Used by C13 (sign decision) and C03/C10 (hull pruning). *)
From Coq Require Import List Arith Lia Reals Lra.
From BZ Require Import Base.Ops Base.RInst Model.Curve Model.Triangle Theory.CurveEval Theory.TriEval Theory.TriBlossom
  Theory.TriLink Theory.TriLink2.
Import ListNotations.
Open Scope R_scope.

Lemma In_firstn {A} (x : A) : forall n l, In x (firstn n l) -> In x l.
Proof. induction n; intros [|a l] H; simpl in H; try contradiction. destruct H as [<-|H]; [left; reflexivity|right; auto]. Qed.
Lemma In_skipn {A} (x : A) : forall n l, In x (skipn n l) -> In x l.
Proof. induction n; intros l H; [exact H|]. destruct l as [|a l]; [exact H|]. right. apply IHn. exact H. Qed.

Lemma split_rows_In {A} (x : A) : forall len (v : list A) r, In r (split_rows len v) -> In x r -> In x v.
Proof.
  induction len as [|len IH]; intros v r Hr Hx; [contradiction|].
  cbn [split_rows] in Hr. destruct Hr as [<-|Hr].
  - eapply In_firstn; eauto.
  - eapply In_skipn. eapply IH; eauto.
Qed.

Lemma fun_of_In (d : nat) (v : list R) j k : length v = tri_num (S d) -> (j + k <= d)%nat ->
  In (fun_of ROps (split_rows (S d) v) j k) v.
Proof.
  intros Hv Hjk. pose proof (split_rows_well_formed d v Hv) as [Hl Hr]. unfold fun_of.
  apply (split_rows_In _ (S d) v (nth k (split_rows (S d) v) [])).
  - apply nth_In. rewrite Hl. lia.
  - apply nth_In. rewrite Hr by lia. lia.
Qed.

Lemma D_lower (w1 w2 w3 m : R) n (f : nat -> nat -> R) : 0 <= w1 -> 0 <= w2 -> 0 <= w3 -> w1 + w2 + w3 = 1 ->
  (forall j k, (j + k <= S n)%nat -> m <= f j k) -> forall j k, (j + k <= n)%nat -> m <= D ROps (w1, w2, w3) f j k.
Proof.
  intros H1 H2 H3 Hs Hf j k Hjk. unfold D. cbn [oadd omul ROps].
  pose proof (Hf j k ltac:(lia)). pose proof (Hf (S j) k ltac:(lia)). pose proof (Hf j (S k) ltac:(lia)). nra.
Qed.
Lemma D_upper (w1 w2 w3 m : R) n (f : nat -> nat -> R) : 0 <= w1 -> 0 <= w2 -> 0 <= w3 -> w1 + w2 + w3 = 1 ->
  (forall j k, (j + k <= S n)%nat -> f j k <= m) -> forall j k, (j + k <= n)%nat -> D ROps (w1, w2, w3) f j k <= m.
Proof.
  intros H1 H2 H3 Hs Hf j k Hjk. unfold D. cbn [oadd omul ROps].
  pose proof (Hf j k ltac:(lia)). pose proof (Hf (S j) k ltac:(lia)). pose proof (Hf j (S k) ltac:(lia)). nra.
Qed.
Lemma iterD_lower (w1 w2 w3 m : R) : 0 <= w1 -> 0 <= w2 -> 0 <= w3 -> w1 + w2 + w3 = 1 ->
  forall n r (f : nat -> nat -> R), (forall j k, (j + k <= n + r)%nat -> m <= f j k) ->
  forall j k, (j + k <= r)%nat -> m <= iterD ROps (w1, w2, w3) n f j k.
Proof.
  intros H1 H2 H3 Hs. induction n as [|n IH]; intros r f Hf j k Hjk; cbn [iterD]; [apply Hf; lia|].
  apply (IH r); [|exact Hjk]. intros j' k' Hjk'. apply (D_lower w1 w2 w3 m (n + r)); try assumption;
  intros a b Hab; apply Hf; lia.
Qed.
Lemma iterD_upper (w1 w2 w3 m : R) : 0 <= w1 -> 0 <= w2 -> 0 <= w3 -> w1 + w2 + w3 = 1 ->
  forall n r (f : nat -> nat -> R), (forall j k, (j + k <= n + r)%nat -> f j k <= m) ->
  forall j k, (j + k <= r)%nat -> iterD ROps (w1, w2, w3) n f j k <= m.
Proof.
  intros H1 H2 H3 Hs. induction n as [|n IH]; intros r f Hf j k Hjk; cbn [iterD]; [apply Hf; lia|].
  apply (IH r); [|exact Hjk]. intros j' k' Hjk'. apply (D_upper w1 w2 w3 m (n + r)); try assumption;
  intros a b Hab; apply Hf; lia.
Qed.

(* convex hull property of Bezier triangles, each coordinate *)
Theorem tri_bernstein_bounds d (v : list R) (lo hi l1 l2 l3 : R) : length v = tri_size d ->
  Forall (fun x => lo <= x <= hi) v -> 0 <= l1 -> 0 <= l2 -> 0 <= l3 -> l1 + l2 + l3 = 1 ->
  lo <= tri_bernstein ROps d v l1 l2 l3 <= hi.
Proof.
  intros Hv0 Hb H1 H2 H3 Hs.
  assert (Hv : length v = tri_num (S d)) by (rewrite tri_num_size; exact Hv0).
  unfold tri_bernstein. rewrite (tsum_is_de_casteljau ROps RRing l1 l2 l3 d _ (split_rows_well_formed d v Hv)).
  rewrite Forall_forall in Hb.
  split.
  - apply (iterD_lower l1 l2 l3 lo H1 H2 H3 Hs d 0%nat); [|lia].
    intros j k Hjk. apply Hb. apply fun_of_In; [exact Hv|lia].
  - apply (iterD_upper l1 l2 l3 hi H1 H2 H3 Hs d 0%nat); [|lia].
    intros j k Hjk. apply Hb. apply fun_of_In; [exact Hv|lia].
Qed.

(* all Bernstein coefficients positive (negative) => the polynomial is positive (negative) on the closed triangle:
   the decision rule of polynomial_sign for a decided piece *)
Corollary all_positive_coefficients d (v : list R) (m l1 l2 l3 : R) : length v = tri_size d -> 0 < m ->
  Forall (fun x => m <= x) v -> 0 <= l1 -> 0 <= l2 -> 0 <= l3 -> l1 + l2 + l3 = 1 ->
  0 < tri_bernstein ROps d v l1 l2 l3.
Proof.
  intros Hv Hm Hb H1 H2 H3 Hs.
  assert (Hhi : exists hi, Forall (fun x => m <= x <= hi) v).
  { clear Hv. induction v as [|a v IH]; [exists 0; constructor|].
    inversion Hb; subst. destruct (IH H5) as [hi Hh]. exists (Rmax hi a). constructor.
    - split; [assumption|apply Rmax_r].
    - eapply Forall_impl; [|exact Hh]. intros x [Hx1 Hx2]. split; [exact Hx1|]. eapply Rle_trans; [exact Hx2|apply Rmax_l]. }
  destruct Hhi as [hi Hh]. pose proof (tri_bernstein_bounds d v m hi l1 l2 l3 Hv Hh H1 H2 H3 Hs). lra.
Qed.
