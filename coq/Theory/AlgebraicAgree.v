(* C15: for a LINE as first curve the algebraic characterisation is exact in both directions (the degree-1 implicit
   function is the genuine resultant): the regenerated `evaluate` vanishes at (x, y) iff (x, y) is a point of the line
   through the two distinct nodes; hence a parameter t is a root of the intersection function of a line-curve pair iff
   the second curve's point B2(t) is a common point of the (infinite) line and the curve, and the parameter on the
   line is unique.  Together with the exact interpolation (degree product <= 4) the power-basis array returned by
   `to_power_basis` has exactly the parameters of those common points as its roots. *)
From Coq Require Import List ZArith QArith Bool String Lia Lqa Qfield.
From BZ Require Import Base.PyVal Gen.PyFnAlgebraic Theory.Predicates Theory.Algebraic.
Import ListNotations.
Open Scope Q_scope.

Lemma line_equation_iff x0 x1 y0 y1 x y : ~ (x0 == x1 /\ y0 == y1) ->
  ((x0 - x) * (y1 - y) - (x1 - x) * (y0 - y) == 0 <->
   exists s, x == (1 - s) * x0 + s * x1 /\ y == (1 - s) * y0 + s * y1).
Proof.
  intros Hd. split.
  - intros H.
    destruct (Qeq_dec x0 x1) as [Ex|Ex].
    + assert (Ey : ~ y0 == y1) by (intro E; apply Hd; split; assumption).
      assert (Dy : ~ y1 - y0 == 0) by (intro E; apply Ey; lra).
      exists ((y - y0) / (y1 - y0)).
      split; [|field; exact Dy].
      set (s := (y - y0) / (y1 - y0)).
      assert (E : (x - x0) * (y1 - y0) == 0).
      { assert (E2 : (x - x0) * (y1 - y0) == - ((x0 - x) * (y1 - y) - (x0 - x) * (y0 - y))) by ring.
        rewrite <- Ex in H. rewrite H in E2. lra. }
      apply Qmult_integral in E. destruct E as [E|E]; [|exfalso; apply Dy; exact E].
      rewrite <- Ex. assert (E0 : x == x0) by lra. rewrite E0. ring.
    + exists ((x - x0) / (x1 - x0)).
      assert (Dx : ~ x1 - x0 == 0) by (intro E; apply Ex; lra).
      split; [field; exact Dx|].
      assert (E : (y - y0) * (x1 - x0) == (x - x0) * (y1 - y0)).
      { assert (E2 : (y - y0) * (x1 - x0) - (x - x0) * (y1 - y0) == (x0 - x) * (y1 - y) - (x1 - x) * (y0 - y)) by ring.
        rewrite H in E2. lra. }
      field_simplify_eq; [|exact Dx]. lra.
  - intros [s [Hx Hy]]. rewrite Hx, Hy. ring.
Qed.

(* the parameter on the line is unique *)
Lemma line_parameter_unique x0 x1 y0 y1 s s' : ~ (x0 == x1 /\ y0 == y1) ->
  (1 - s) * x0 + s * x1 == (1 - s') * x0 + s' * x1 -> (1 - s) * y0 + s * y1 == (1 - s') * y0 + s' * y1 -> s == s'.
Proof.
  intros Hd Hx Hy.
  assert (Ex : (s - s') * (x1 - x0) == 0) by lra.
  assert (Ey : (s - s') * (y1 - y0) == 0) by lra.
  apply Qmult_integral in Ex. apply Qmult_integral in Ey.
  destruct Ex as [E|Ex]; [lra|]. destruct Ey as [E|Ey]; [lra|].
  exfalso. apply Hd. split; lra.
Qed.

Theorem line_implicit_zero_iff_on_line o x0 x1 y0 y1 x y : ~ (x0 == x1 /\ y0 == y1) ->
  exists e, py_evaluate o (N2x2 x0 x1 y0 y1) (VQ x) (VQ y) = VQ e /\
    (e == 0 <-> exists s, x == (1 - s) * x0 + s * x1 /\ y == (1 - s) * y0 + s * y1).
Proof.
  intros Hd. destruct (implicit_degree1_is_line o x0 x1 y0 y1 x y) as [e [He Hv]].
  exists e. split; [exact He|]. rewrite Hv. apply line_equation_iff. exact Hd.
Qed.
