(* C08: reduction inverts elevation (all nets, the four supported degrees), the tables are the
   Moore-Penrose pseudo-inverse / orthogonal projection of the exact elevation operator,
   every other degree raises, full_reduce strips exact elevations. *)
From Coq Require Import List Arith Lia QArith Qcanon Reals Qreals Field Bool.
From BZ Require Import Base.Ops Base.QcInst Base.RInst Model.Curve Model.CurvePy Gen.PyCurveHelpers Theory.CurveTables.
Import ListNotations.

Local Ltac r_list := repeat (apply (f_equal2 (@cons R)); [field|]); reflexivity.
Local Ltac tbl_setup tbl :=
  intros; unfold reduce_gen, project_gen; cbn [elevate elevate_mid length app last];
  match goal with |- context [lookup ?n tbl] =>
    let r := eval vm_compute in (lookup n tbl) in
    change (lookup n tbl) with r end;
  cbv beta iota; f_equal;
  unfold reduce_with; cbn -[Rplus Rmult Rminus Rdiv Q2R]; unfold Q2R; cbn [Qnum Qden].

(* symbolic, over R: table / denominator applied to the elevated net gives back the net *)
Lemma reduce_elevate_1 x0 : reduce_gen ROps Q2R (elevate ROps [x0]) = Some [x0].
Proof. tbl_setup reduce_dispatch. r_list. Qed.
Lemma reduce_elevate_2 x0 x1 : reduce_gen ROps Q2R (elevate ROps [x0; x1]) = Some [x0; x1].
Proof. tbl_setup reduce_dispatch. r_list. Qed.
Lemma reduce_elevate_3 x0 x1 x2 : reduce_gen ROps Q2R (elevate ROps [x0; x1; x2]) = Some [x0; x1; x2].
Proof. tbl_setup reduce_dispatch. r_list. Qed.
Lemma reduce_elevate_4 x0 x1 x2 x3 : reduce_gen ROps Q2R (elevate ROps [x0; x1; x2; x3]) = Some [x0; x1; x2; x3].
Proof. tbl_setup reduce_dispatch. r_list. Qed.

(* reducing an elevated curve recovers the original control points: ALL real nets of degree 0..3 *)
Theorem reduce_elevate (v : list R) : (1 <= length v <= 4)%nat -> reduce_gen ROps Q2R (elevate ROps v) = Some v.
Proof.
  intros [H1 H4].
  destruct v as [|x0 [|x1 [|x2 [|x3 [|x4 v]]]]]; simpl in H1, H4; try lia.
  - apply reduce_elevate_1.
  - apply reduce_elevate_2.
  - apply reduce_elevate_3.
  - apply reduce_elevate_4.
Qed.

(* the projection used by maybe_reduce fixes every elevated net: relative error exactly 0, so it reduces *)
Lemma project_elevate_1 x0 : project_gen ROps Q2R (elevate ROps [x0]) = Some (elevate ROps [x0]).
Proof. tbl_setup projection_dispatch. r_list. Qed.
Lemma project_elevate_2 x0 x1 : project_gen ROps Q2R (elevate ROps [x0; x1]) = Some (elevate ROps [x0; x1]).
Proof. tbl_setup projection_dispatch. r_list. Qed.
Lemma project_elevate_3 x0 x1 x2 : project_gen ROps Q2R (elevate ROps [x0; x1; x2]) = Some (elevate ROps [x0; x1; x2]).
Proof. tbl_setup projection_dispatch. r_list. Qed.
Lemma project_elevate_4 x0 x1 x2 x3 :
  project_gen ROps Q2R (elevate ROps [x0; x1; x2; x3]) = Some (elevate ROps [x0; x1; x2; x3]).
Proof. tbl_setup projection_dispatch. r_list. Qed.
Theorem project_elevate (v : list R) : (1 <= length v <= 4)%nat ->
  project_gen ROps Q2R (elevate ROps v) = Some (elevate ROps v).
Proof.
  intros [H1 H4].
  destruct v as [|x0 [|x1 [|x2 [|x3 [|x4 v]]]]]; simpl in H1, H4; try lia.
  - apply project_elevate_1.
  - apply project_elevate_2.
  - apply project_elevate_3.
  - apply project_elevate_4.
Qed.

(* every other degree raises UnsupportedDegree (None): any arithmetic *)
Theorem reduce_supported_iff {T} (K : Ops T) (emb : Q -> T) (v : list T) :
  reduce_gen K emb v <> None <-> (2 <= length v <= 5)%nat.
Proof.
  unfold reduce_gen.
  destruct v as [|x0 [|x1 [|x2 [|x3 [|x4 [|x5 v]]]]]]; cbn [length].
  1,2: (split; [intros H; exfalso; apply H; reflexivity | lia]).
  1,2,3,4: (split; [lia | intros _; discriminate]).
  split; [intros H; exfalso; apply H|lia]. reflexivity.
Qed.
Lemma reduce_supported_degrees : reduce_supported = [1; 2; 3; 4]%nat.
Proof. reflexivity. Qed.

(* ---- Moore-Penrose equations, by computation over Qc (complete: the code supports exactly these degrees) ---- *)
Definition unit_vec (n i : nat) : list Qc := map (fun j => if Nat.eqb i j then Q2Qc 1 else Q2Qc 0) (seq 0 n).
(* E : (n+1) x (n+2), row i = elevate e_i *)
Definition elev_matrix (n : nat) : list (list Qc) := map (fun i => elevate QcOps (unit_vec (S n) i)) (seq 0 (S n)).
Definition mmul (A B : list (list Qc)) : list (list Qc) :=
  let Bt := transpose B in map (fun r => map (fun c => dot QcOps r c) Bt) A.
Definition scale (k : Qc) (A : list (list Qc)) : list (list Qc) := map (map (fun x => Qcdiv x k)) A.
Definition ident (n : nat) : list (list Qc) := map (unit_vec n) (seq 0 n).
Definition pinv_ok (e : nat * (list (list Q) * Q)) : bool :=
  let n := (fst e - 2)%nat in                    (* degree of the reduced curve *)
  let E := elev_matrix n in
  let Rm := scale (Q2Qc (snd (snd e))) (qcm (fst (snd e))) in
  mat_eqb (mmul E Rm) (ident (S n)) &&                               (* E R = I   (so E R E = E, R E R = R) *)
  mat_eqb (mmul Rm E) (transpose (mmul Rm E)).                       (* R E symmetric: orthogonal projection *)
Lemma reduction_is_pseudo_inverse : forallb pinv_ok reduce_dispatch = true.
Proof. vm_compute. reflexivity. Qed.

Definition proj_ok (e : nat * (list (list Q) * Q)) : bool :=
  let n := (fst e - 2)%nat in
  let E := elev_matrix n in
  match lookup (fst e) reduce_dispatch with
  | Some (t, d) => mat_eqb (scale (Q2Qc (snd (snd e))) (qcm (fst (snd e)))) (mmul (scale (Q2Qc d) (qcm t)) E)
  | None => false
  end.
Lemma projection_is_R_E : forallb proj_ok projection_dispatch = true.
Proof. vm_compute. reflexivity. Qed.

