(* C10 (triangles, exact arithmetic over R): the subdivision of locate_point never prunes the candidate that contains a point
   ON the triangle: at every depth one of the 4^k sub-triangles has the point inside the closed bounding box of its control
   net (every coordinate).  Every degree, every dimension; sub-nets are the blossom quarters (C09), bounds are the Bernstein
   bounds (C13's positivity argument). *)
From Coq Require Import List Arith Lia Reals Lra QArith Qreals.
From BZ Require Import Base.Ops Base.RInst Model.Curve Model.Triangle Model.TrianglePy Gen.PyTriangleHelpers Theory.CurveEval Theory.TriEval
  Theory.TriBlossom Theory.TriLink Theory.TriLink2 Theory.TriPositivity Theory.SignSoundR.
Import ListNotations.
Local Open Scope R_scope.

Lemma specialize_tri_length d (v : list R) a b c : length (specialize_tri ROps d v a b c) = tri_size d.
Proof.
  unfold specialize_tri. rewrite <- tri_num_size. apply concat_length_wf.
  - rewrite map_length, seq_length. reflexivity.
  - intros k Hk. rewrite nth_map_seq by exact Hk. rewrite map_length, seq_length. reflexivity.
Qed.

Definition quarter (d k : nat) (v : list R) : list R := nth k (tri_subdivide_generic ROps Q2R d v) [].
Lemma quarter_length d k v : (k < 4)%nat -> length (quarter d k v) = tri_size d.
Proof.
  intros Hk. unfold quarter, tri_subdivide_generic.
  match goal with |- context [tri_subdivide_weights] =>
    let r := eval vm_compute in tri_subdivide_weights in change tri_subdivide_weights with r end.
  cbn [map]. destruct k as [|[|[|[|k]]]]; try lia; cbn [nth]; apply specialize_tri_length.
Qed.

(* the quarter and the local coordinates depend on the parameter only: the same for every coordinate net *)
Lemma quarters_cover_uniform d l1 l2 l3 : in_tri l1 l2 l3 ->
  exists k m1 m2 m3, (k < 4)%nat /\ in_tri m1 m2 m3 /\
    forall v, length v = tri_size d -> tri_bernstein ROps d (quarter d k v) m1 m2 m3 = tri_bernstein ROps d v l1 l2 l3.
Proof.
  intros (H1 & H2 & H3 & Hs).
  assert (Hh : Q2R (1 # 2) = / 2) by (unfold Q2R; cbn; lra).
  assert (H0 : Q2R (0 # 1) = 0) by (unfold Q2R; cbn; lra).
  assert (H1' : Q2R (1 # 1) = 1) by (unfold Q2R; cbn; lra).
  assert (Hq : forall k v, quarter d k v = nth k (tri_subdivide_generic ROps Q2R d v) []) by reflexivity.
  destruct (Rle_dec (/ 2) l1) as [C1|C1]; [|destruct (Rle_dec (/ 2) l2) as [C2|C2]; [|destruct (Rle_dec (/ 2) l3) as [C3|C3]]].
  - exists 0%nat, (2 * l1 - 1), (2 * l2), (2 * l3). split; [lia|]. split; [unfold in_tri; lra|]. intros v Hv.
    rewrite Hq. unfold tri_subdivide_generic.
    match goal with |- context [tri_subdivide_weights] =>
      let r := eval vm_compute in tri_subdivide_weights in change tri_subdivide_weights with r end.
    cbn [map nth w3_of]. rewrite ?Hh, ?H0, ?H1'.
    rewrite (specialize_tri_correct ROps RRing d v _ _ _ _ _ _ Hv). cbn [comb oadd omul ROps]. f_equal; lra.
  - exists 2%nat, (2 * l1), (2 * l2 - 1), (2 * l3). split; [lia|]. split; [unfold in_tri; lra|]. intros v Hv.
    rewrite Hq. unfold tri_subdivide_generic.
    match goal with |- context [tri_subdivide_weights] =>
      let r := eval vm_compute in tri_subdivide_weights in change tri_subdivide_weights with r end.
    cbn [map nth w3_of]. rewrite ?Hh, ?H0, ?H1'.
    rewrite (specialize_tri_correct ROps RRing d v _ _ _ _ _ _ Hv). cbn [comb oadd omul ROps]. f_equal; lra.
  - exists 3%nat, (2 * l1), (2 * l2), (2 * l3 - 1). split; [lia|]. split; [unfold in_tri; lra|]. intros v Hv.
    rewrite Hq. unfold tri_subdivide_generic.
    match goal with |- context [tri_subdivide_weights] =>
      let r := eval vm_compute in tri_subdivide_weights in change tri_subdivide_weights with r end.
    cbn [map nth w3_of]. rewrite ?Hh, ?H0, ?H1'.
    rewrite (specialize_tri_correct ROps RRing d v _ _ _ _ _ _ Hv). cbn [comb oadd omul ROps]. f_equal; lra.
  - exists 1%nat, (1 - 2 * l1), (1 - 2 * l2), (1 - 2 * l3). split; [lia|]. split; [unfold in_tri; lra|]. intros v Hv.
    rewrite Hq. unfold tri_subdivide_generic.
    match goal with |- context [tri_subdivide_weights] =>
      let r := eval vm_compute in tri_subdivide_weights in change tri_subdivide_weights with r end.
    cbn [map nth w3_of]. rewrite ?Hh, ?H0, ?H1'.
    rewrite (specialize_tri_correct ROps RRing d v _ _ _ _ _ _ Hv). cbn [comb oadd omul ROps]. f_equal; lra.
Qed.

(* the point of the triangle with coordinate nets `rows` at barycentric (l1, l2, l3) *)
Definition tri_point (d : nat) (rows : list (list R)) (l1 l2 l3 : R) : list R :=
  map (fun v => tri_bernstein ROps d v l1 l2 l3) rows.
(* p lies in the closed bounding box of the nets: every coordinate within any bounds of that coordinate's net *)
Definition in_tri_box (rows : list (list R)) (p : list R) : Prop :=
  Forall2 (fun v x => forall lo hi, Forall (fun y => lo <= y <= hi) v -> lo <= x <= hi) rows p.

(* at every depth the point is in the box of a surviving candidate *)
Fixpoint tri_survives (n d : nat) (rows : list (list R)) (p : list R) : Prop :=
  in_tri_box rows p /\
  match n with
  | O => True
  | S n' => exists k, (k < 4)%nat /\ tri_survives n' d (map (quarter d k) rows) p
  end.

Theorem tri_subdivision_never_prunes_the_point : forall n d rows l1 l2 l3,
  Forall (fun v => length v = tri_size d) rows -> in_tri l1 l2 l3 ->
  tri_survives n d rows (tri_point d rows l1 l2 l3).
Proof.
  induction n as [|n IH]; intros d rows l1 l2 l3 Hw Hin; cbn [tri_survives].
  - split; [|exact I].
    unfold in_tri_box, tri_point. induction Hw as [|v rows Hv _ IHw]; cbn [map]; constructor; [|exact IHw].
    intros lo hi Hb. destruct Hin as (A & B & C & D). apply tri_bernstein_bounds; assumption.
  - split.
    + unfold in_tri_box, tri_point. induction Hw as [|v rows Hv _ IHw]; cbn [map]; constructor; [|exact IHw].
      intros lo hi Hb. destruct Hin as (A & B & C & D). apply tri_bernstein_bounds; assumption.
    + destruct (quarters_cover_uniform d l1 l2 l3 Hin) as (k & m1 & m2 & m3 & Hk & Hm & He).
      exists k. split; [exact Hk|].
      assert (Hp : tri_point d rows l1 l2 l3 = tri_point d (map (quarter d k) rows) m1 m2 m3).
      { unfold tri_point. rewrite map_map. apply map_ext_in. intros v Hv. symmetry. apply He.
        rewrite Forall_forall in Hw. exact (Hw v Hv). }
      rewrite Hp. apply IH; [|exact Hm].
      apply Forall_forall. intros q Hq. apply in_map_iff in Hq. destruct Hq as [v [<- _]]. apply quarter_length. exact Hk.
Qed.
