(* C14: for every history of calls the value handed back by an intersection call is the value of the (pure) numerical
   routine on ITS arguments; no cell written by an earlier call is ever read; the workspace grows exactly when needed. *)
From Coq Require Import List Arith Bool Lia.
From BZ Require Import Model.Workspace.
Import ListNotations.

Section WSProofs.
Variable input pair : Type.
Variable isect : input -> list pair.
Notation state := (state pair).
Notation step := (step input pair isect).
Notation run := (run input pair isect).

Definition wf (s : state) : Prop := length (cells pair s) = cap pair s.

Lemma copy_out_fresh : forall (r : list pair) rest, copy_out pair (length r) (map (Fresh pair) r ++ rest) = Some r.
Proof. induction r as [|p r IH]; intros rest; cbn [length map app copy_out]; [reflexivity|]. rewrite IH. reflexivity. Qed.

Lemma call_once_fits (s : state) x : wf s -> (length (isect x) <= cap pair s)%nat ->
  snd (call_once input pair isect s x) = (length (isect x), Some (isect x)) /\
  wf (fst (call_once input pair isect s x)) /\ cap pair (fst (call_once input pair isect s x)) = cap pair s.
Proof.
  intros Hwf Hk. unfold call_once, fortran_call.
  assert (E : Nat.leb (length (isect x)) (cap pair s) = true) by (apply Nat.leb_le; exact Hk).
  rewrite E. cbn [fst snd cells cap]. rewrite firstn_all2 by exact Hk. rewrite copy_out_fresh.
  split; [reflexivity|]. split; [|reflexivity].
  unfold wf. cbn [cells cap]. rewrite app_length, map_length, skipn_length. unfold wf in Hwf. lia.
Qed.

Lemma age_wf s : wf s -> wf (age pair s).
Proof. unfold wf, age. cbn [cells cap]. rewrite map_length. auto. Qed.
Lemma fresh_wf n : wf (fresh_ws pair n).
Proof. unfold wf, fresh_ws. cbn [cells cap]. apply repeat_length. Qed.

(* one call: the answer is isect of the arguments (or the documented size error), never a stale cell *)
Theorem step_intersect (s : state) x allow : wf s ->
  let k := length (isect x) in
  snd (step s (Intersect input x allow)) =
    (if Nat.leb k (cap pair s) then Result pair (isect x)
     else if allow then Result pair (isect x) else TooSmall pair k (cap pair s)) /\
  wf (fst (step s (Intersect input x allow))) /\
  cap pair (fst (step s (Intersect input x allow))) =
    (if Nat.leb k (cap pair s) then cap pair s else if allow then k else cap pair s).
Proof.
  intros Hwf k. cbn [step].
  pose proof (age_wf s Hwf) as Hwa.
  assert (Hcap : cap pair (age pair s) = cap pair s) by reflexivity.
  destruct (Nat.leb k (cap pair s)) eqn:E.
  - apply Nat.leb_le in E.
    destruct (call_once_fits (age pair s) x Hwa ltac:(rewrite Hcap; exact E)) as [H1 [H2 H3]].
    destruct (call_once input pair isect (age pair s) x) as [s1 [k1 r1]] eqn:Ec. cbn [fst snd] in *.
    injection H1 as -> ->. rewrite Hcap. fold k.
    assert (E' : Nat.leb k (cap pair s) = true) by (apply Nat.leb_le; exact E). rewrite E'. cbn [fst snd].
    split; [reflexivity|]. split; [exact H2|]. rewrite H3. reflexivity.
  - (* does not fit *)
    assert (Hk1 : fst (snd (call_once input pair isect (age pair s) x)) = k).
    { unfold call_once, fortran_call. destruct (Nat.leb _ _); reflexivity. }
    destruct (call_once input pair isect (age pair s) x) as [s1 [k1 r1]] eqn:Ec. cbn [fst snd] in Hk1. subst k1.
    rewrite Hcap, E.
    destruct allow.
    + destruct (call_once_fits (fresh_ws pair k) x (fresh_wf k) ltac:(cbn [cap fresh_ws]; lia)) as [H1 [H2 H3]].
      destruct (call_once input pair isect (fresh_ws pair k) x) as [s2 [k2 r2]]. cbn [fst snd] in *.
      injection H1 as -> ->. split; [reflexivity|]. split; [exact H2|]. rewrite H3. reflexivity.
    + cbn [fst snd]. split; [reflexivity|]. split; [|].
      * pose proof E as E2. apply Nat.leb_gt in E2.
        assert (G : wf (fst (call_once input pair isect (age pair s) x))).
        { clear Ec E. unfold call_once, fortran_call. destruct (Nat.leb _ _); cbn [fst]; unfold wf; cbn [cells cap];
          unfold age; cbn [cells cap]; rewrite ?app_length, ?map_length, ?firstn_length, ?skipn_length, ?map_length; unfold wf in Hwf; fold k; lia. }
        rewrite Ec in G. exact G.
      * assert (G : cap pair (fst (call_once input pair isect (age pair s) x)) = cap pair s).
        { unfold call_once, fortran_call. destruct (Nat.leb _ _); reflexivity. }
        rewrite Ec in G. exact G.
Qed.

Theorem no_stale_read (s : state) (o : op input) : wf s -> snd (step s o) <> StaleRead pair /\ wf (fst (step s o)).
Proof.
  intros Hwf. destruct o as [x allow|n| |].
  - destruct (step_intersect s x allow Hwf) as [H1 [H2 _]]. split; [|exact H2]. rewrite H1.
    destruct (Nat.leb _ _); [discriminate|]. destruct allow; discriminate.
  - cbn [step fst snd]. split; [discriminate|apply fresh_wf].
  - cbn [step fst snd]. split; [discriminate|exact Hwf].
  - cbn [step fst snd]. split; [discriminate|exact Hwf].
Qed.

(* HISTORY INDEPENDENCE: after ANY sequence of earlier operations (other inputs, failing calls, resets), a call with
   allow_resize returns isect of its own arguments *)
Lemma run_wf : forall ops s, wf s -> wf (fst (run s ops)).
Proof.
  induction ops as [|o ops IH]; intros s Hwf; [exact Hwf|].
  cbn [run]. destruct (step s o) as [s1 r] eqn:Es.
  pose proof (no_stale_read s o Hwf) as [_ H1]. rewrite Es in H1. cbn [fst] in H1.
  specialize (IH s1 H1). destruct (run s1 ops) as [s2 rs]. exact IH.
Qed.
Theorem history_independence (history : list (op input)) (x : input) :
  snd (step (fst (run (init pair) history)) (Intersect input x true)) = Result pair (isect x).
Proof.
  assert (Hwf : wf (fst (run (init pair) history))) by (apply run_wf; reflexivity).
  destruct (step_intersect (fst (run (init pair) history)) x true Hwf) as [H _]. rewrite H.
  destruct (Nat.leb _ _); reflexivity.
Qed.
End WSProofs.
