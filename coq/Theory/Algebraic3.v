(* C19: the implicit function of a CUBIC vanishes on its curve.  evaluate() for degree 3 is the regenerated dispatch applied
   to the hand model of _evaluate3 (the 6x6 Sylvester determinant, corresponded exactly in Corr/C19.v): the identity
   det Sylvester(x(t) - x(s), y(t) - y(s)) = 0 is closed by `ring` on the expanded determinant (8 node variables and s). *)
From Coq Require Import List Arith ZArith QArith Ring Field String.
From BZ Require Import Base.PyVal Gen.PyFnAlgebraic Model.Algebraic.
Import ListNotations.
Open Scope Q_scope.

Definition N2x4 (x0 x1 x2 x3 y0 y1 y2 y3 : Q) : val := VTup [VTup [VQ x0; VQ x1; VQ x2; VQ x3]; VTup [VQ y0; VQ y1; VQ y2; VQ y3]].
Definition cubic (v0 v1 v2 v3 s : Q) : Q := (1-s)*(1-s)*(1-s)*v0 + 3*(1-s)*(1-s)*s*v1 + 3*(1-s)*s*s*v2 + s*s*s*v3.

Lemma evaluate3_vanishes x0 x1 x2 x3 y0 y1 y2 y3 s : exists e,
  evaluate3_model (N2x4 x0 x1 x2 x3 y0 y1 y2 y3) (VQ (cubic x0 x1 x2 x3 s)) (VQ (cubic y0 y1 y2 y3 s)) = VQ e /\ e == 0.
Proof.
  unfold evaluate3_model, N2x4, cubic. eexists. split; [reflexivity|].
  unfold det. cbv zeta. cbn [q_of List.length det_fuel fold_left map drop_col app Nat.even snd fst].
  ring.
Qed.

Theorem implicit_vanishes_degree3 x0 x1 x2 x3 y0 y1 y2 y3 s : exists e,
  evaluate_model (N2x4 x0 x1 x2 x3 y0 y1 y2 y3) (VQ (cubic x0 x1 x2 x3 s)) (VQ (cubic y0 y1 y2 y3 s)) = VQ e /\ e == 0.
Proof.
  destruct (evaluate3_vanishes x0 x1 x2 x3 y0 y1 y2 y3 s) as [e [He H0]].
  exists e. split; [|exact H0]. unfold evaluate_model. rewrite <- He. reflexivity.
Qed.
