(* C17 (triangles): an affine map x |-> k x + c of the control net of a Bezier triangle acts on the point with the
   barycentric weights unchanged:  B[k v + c](l1,l2,l3) = k B[v](l1,l2,l3) + c (l1+l2+l3)^d.
   Every degree, every net of the right size, any commutative ring.  (With barycentric weights the last factor is 1:
   translating / scaling / mirroring both triangles moves every point of both accordingly, parameters unchanged.) *)
From Coq Require Import List Arith Lia Ring.
From BZ Require Import Base.Ops Model.Curve Model.Triangle Theory.CurveEval Theory.TriEval Theory.TriBlossom Theory.TriLink
  Theory.TriLink2 Theory.TriElevate.
Import ListNotations.

Lemma split_rows_map {A B} (g : A -> B) : forall len (v : list A),
  split_rows len (map g v) = map (map g) (split_rows len v).
Proof.
  induction len as [|l IH]; intros v; [reflexivity|].
  cbn [split_rows map]. rewrite firstn_map, skipn_map, IH. reflexivity.
Qed.

Section TriAffine.
Context {T : Type} (K : Ops T) (RT : ring_of K).
Add Ring TRAF : RT.
Declare Scope t_scope. Delimit Scope t_scope with t.
Notation "0" := (o0 K) : t_scope. Notation "1" := (o1 K) : t_scope.
Infix "+" := (oadd K) : t_scope. Infix "*" := (omul K) : t_scope.
Local Open Scope t_scope.
Notation fun_of := (fun_of K).
Notation iterD := (iterD K).

Lemma fun_of_map (g : T -> T) d rows j k : well_formed d rows -> (j + k <= d)%nat ->
  fun_of (map (map g) rows) j k = g (fun_of rows j k).
Proof.
  intros [Hlen Hrow] Hjk. unfold TriLink.fun_of.
  change (@nil T) with (map g (@nil T)) at 1. rewrite map_nth.
  rewrite (nth_indep _ 0 (g 0)).
  - apply map_nth.
  - rewrite map_length, Hrow by lia. lia.
Qed.

Lemma map_well_formed (g : T -> T) d rows : well_formed d rows -> well_formed d (map (map g) rows).
Proof.
  intros [Hlen Hrow]. split; [rewrite map_length; exact Hlen|].
  intros k Hk. change (@nil T) with (map g (@nil T)). rewrite map_nth, map_length. apply Hrow. exact Hk.
Qed.

Lemma iterD_const w : forall n c j k, iterD w n (fun _ _ => c) j k = c * pw K (sigma K w) n.
Proof.
  induction n as [|n IH]; intros c j k; cbn [TriBlossom.iterD pw]; [ring|].
  rewrite (iterD_fext K w n (D K w (fun _ _ => c)) (fun _ _ => c * sigma K w)).
  - rewrite IH. ring.
  - intros j' k'. destruct w as [[w1 w2] w3]. unfold D, sigma. ring.
Qed.

Theorem tri_bernstein_affine (kk c : T) d v l1 l2 l3 : length v = tri_size d ->
  tri_bernstein K d (map (fun x => kk * x + c) v) l1 l2 l3
  = kk * tri_bernstein K d v l1 l2 l3 + c * pw K (l1 + l2 + l3) d.
Proof.
  intros Hv0. assert (Hv : length v = tri_num (S d)) by (rewrite tri_num_size; exact Hv0).
  assert (Hwf := split_rows_well_formed d v Hv).
  unfold tri_bernstein. rewrite split_rows_map.
  rewrite (tsum_is_de_casteljau K RT l1 l2 l3 d _ (map_well_formed _ d _ Hwf)).
  rewrite (tsum_is_de_casteljau K RT l1 l2 l3 d _ Hwf).
  set (f := fun_of (split_rows (S d) v)).
  assert (Hf : feq d (fun_of (map (map (fun x => kk * x + c)) (split_rows (S d) v)))
                     (fadd K (fscale K kk f) (fun _ _ => c))).
  { intros j k Hjk. rewrite (fun_of_map _ d) by assumption. reflexivity. }
  rewrite (iterD_feq K (l1, l2, l3) d 0 _ _ ltac:(rewrite Nat.add_0_r; exact Hf) 0%nat 0%nat) by lia.
  rewrite (iterD_fadd K RT). unfold fadd at 1. rewrite (iterD_fscale K RT). unfold fscale at 1.
  rewrite iterD_const. reflexivity.
Qed.
End TriAffine.
