(* Reversal symmetry of Bernstein polynomials, and: the three edge nets returned by
   compute_edge_nodes are the surface restricted to the sides of the reference triangle. *)
From Coq Require Import List Arith Lia Ring Field.
From BZ Require Import Base.Ops Model.Curve Model.Triangle Theory.CurveEval Theory.TriEval.
Import ListNotations.

Section Rev.
Context {T : Type} (K : Ops T) (RT : ring_of K).
Add Ring TR : RT.
Declare Scope t_scope. Delimit Scope t_scope with t.
Notation "0" := (o0 K) : t_scope. Notation "1" := (o1 K) : t_scope.
Infix "+" := (oadd K) : t_scope. Infix "*" := (omul K) : t_scope. Infix "-" := (osub K) : t_scope.
Local Open Scope t_scope.

Lemma dc_round_snoc l1 l2 : forall u a b,
  dc_round K l1 l2 (u ++ [a; b]) = dc_round K l1 l2 (u ++ [a]) ++ [l1 * a + l2 * b].
Proof.
  induction u as [|x u IH]; intros a b; [reflexivity|].
  destruct u as [|y u']; [reflexivity|].
  specialize (IH a b). cbn [app] in IH |- *. cbn [dc_round] in IH |- *.
  rewrite IH. reflexivity.
Qed.

Lemma dc_round_rev l1 l2 : forall v, dc_round K l1 l2 (rev v) = rev (dc_round K l2 l1 v).
Proof.
  induction v as [|a v IH]; [reflexivity|]. destruct v as [|b v'].
  - reflexivity.
  - change (rev (a :: b :: v')) with ((rev v' ++ [b]) ++ [a]). rewrite <- app_assoc. cbn [app].
    rewrite dc_round_snoc. change (rev v' ++ [b]) with (rev (b :: v')). rewrite IH.
    cbn [dc_round rev]. f_equal. f_equal. ring.
Qed.

Lemma dc_eval_rev l1 l2 : forall n v, length v = S n -> dc_eval K n l1 l2 (rev v) = dc_eval K n l2 l1 v.
Proof.
  induction n as [|n IH]; intros v Hl.
  - destruct v as [|a [|? ?]]; simpl in Hl; try discriminate. reflexivity.
  - cbn [dc_eval]. rewrite dc_round_rev. apply IH. rewrite (dc_round_length K), Hl. reflexivity.
Qed.

(* B[rev v](l1, l2) = B[v](l2, l1); with l1 = 1 - s: B[rev v](s) = B[v](1 - s).  Every degree. *)
Theorem bernstein_rev v l1 l2 : bernstein K (rev v) l1 l2 = bernstein K v l2 l1.
Proof.
  destruct v as [|a v]; [reflexivity|].
  rewrite <- !(eval_dc_correct K RT) by (try discriminate; intro E; apply (f_equal (@length T)) in E; rewrite rev_length in E; discriminate).
  unfold eval_dc. rewrite rev_length. apply dc_eval_rev. cbn [length]. lia.
Qed.

Lemma pw_0 k : pw K 0 (S k) = 0. Proof. cbn [pw]. ring. Qed.

Lemma bsum_l2_zero n l1 : forall l i, (1 <= i)%nat -> bsum K n i l l1 0 = 0.
Proof.
  induction l as [|x l IH]; intros i Hi; [reflexivity|]. cbn [bsum]. rewrite IH by lia.
  destruct i; [lia|]. rewrite pw_0. ring.
Qed.
Lemma bernstein_l2_zero v l1 : v <> [] -> bernstein K v l1 0 = pw K l1 (length v - 1) * hd 0 v.
Proof.
  destruct v as [|x l]; [congruence|]. intros _. unfold bernstein. cbn [bsum hd].
  rewrite bsum_l2_zero by lia. rewrite choose_0. cbn [pw ofn]. rewrite Nat.sub_0_r. ring.
Qed.
Lemma bernstein_l1_zero v l2 : v <> [] -> bernstein K v 0 l2 = pw K l2 (length v - 1) * last v 0.
Proof.
  intros Hne. rewrite <- (rev_involutive v) at 1. rewrite bernstein_rev.
  rewrite bernstein_l2_zero by (intro E; apply (f_equal (@length T)) in E; rewrite rev_length in E; destruct v; [congruence|discriminate]).
  rewrite rev_length. f_equal. destruct v as [|a v] using rev_ind; [congruence|].
  rewrite rev_app_distr, last_last. reflexivity.
Qed.

(* ---- edges ---- *)
Lemma tsum_l3_zero d l1 l2 : forall rows k, (1 <= k)%nat -> tsum K d k rows l1 l2 0 = 0.
Proof.
  induction rows as [|r rows IH]; intros k Hk; [reflexivity|]. cbn [tsum]. rewrite IH by lia.
  destruct k; [lia|]. rewrite pw_0. ring.
Qed.
Theorem edge1_restriction d rows l1 l2 : rows <> [] ->
  tsum K d 0 rows l1 l2 0 = bernstein K (hd [] rows) l1 l2.
Proof.
  destruct rows as [|r rows]; [congruence|]. intros _. cbn [tsum hd]. rewrite tsum_l3_zero by lia.
  rewrite choose_0. cbn [pw ofn]. ring.
Qed.

Lemma tsum_l1_zero d l2 l3 : forall rows k,
  (forall m, (m < length rows)%nat -> length (nth m rows []) = (S d - k - m)%nat) ->
  (k + length rows <= S d)%nat ->
  tsum K d k rows 0 l2 l3 = bsum K d k (map (fun r => last r 0) rows) l2 l3.
Proof.
  induction rows as [|r rows IH]; intros k Hrow Hk; [reflexivity|].
  cbn [tsum map bsum]. cbn [length] in Hk. rewrite IH.
  - pose proof (Hrow 0%nat ltac:(cbn [length]; lia)) as H0. cbn [nth] in H0.
    rewrite bernstein_l1_zero by (destruct r; [exfalso; cbn [length] in H0; lia|discriminate]).
    rewrite H0. replace (S d - k - 0 - 1)%nat with (d - k)%nat by lia. ring.
  - intros m Hm. specialize (Hrow (S m) ltac:(cbn [length]; lia)). cbn [nth] in Hrow. rewrite Hrow. lia.
  - cbn [length] in Hk. lia.
Qed.
Lemma tsum_l2_zero d l1 l3 : forall rows k,
  (forall m, (m < length rows)%nat -> length (nth m rows []) = (S d - k - m)%nat) ->
  (k + length rows <= S d)%nat ->
  tsum K d k rows l1 0 l3 = bsum K d k (map (hd 0) rows) l1 l3.
Proof.
  induction rows as [|r rows IH]; intros k Hrow Hk; [reflexivity|].
  cbn [tsum map bsum]. cbn [length] in Hk. rewrite IH.
  - pose proof (Hrow 0%nat ltac:(cbn [length]; lia)) as H0. cbn [nth] in H0.
    rewrite bernstein_l2_zero by (destruct r; [exfalso; cbn [length] in H0; lia|discriminate]).
    rewrite H0. replace (S d - k - 0 - 1)%nat with (d - k)%nat by lia. ring.
  - intros m Hm. specialize (Hrow (S m) ltac:(cbn [length]; lia)). cbn [nth] in Hrow. rewrite Hrow. lia.
  - cbn [length] in Hk. lia.
Qed.
End Rev.

Section Edges.
Context {T : Type} (K : Ops T) (RT : ring_of K).
Notation "0" := (o0 K).

(* the surface restricted to lambda3 = 0, lambda1 = 0, lambda2 = 0 is the Bezier curve on edge1, edge2, edge3 *)
Theorem edges_are_restrictions d v : length v = tri_size d ->
  (forall l1 l2, tri_bernstein K d v l1 l2 0 = bernstein K (edge1 d v) l1 l2) /\
  (forall l2 l3, tri_bernstein K d v 0 l2 l3 = bernstein K (edge2 K d v) l2 l3) /\
  (forall l3 l1, tri_bernstein K d v l1 0 l3 = bernstein K (edge3 K d v) l3 l1).
Proof.
  intros Hv. pose proof (split_rows_well_formed d v ltac:(rewrite tri_num_size; exact Hv)) as [Hlen Hrow].
  unfold tri_bernstein, edge1, edge2, edge3.
  set (rows := split_rows (S d) v) in *.
  assert (Hrow' : forall m, (m < length rows)%nat -> length (nth m rows []) = (S d - 0 - m)%nat).
  { intros m Hm. rewrite Hrow by lia. lia. }
  assert (Hlm : length (map (fun r => last r 0) rows) = S d) by (rewrite map_length; exact Hlen).
  assert (Hlh : length (map (hd 0) rows) = S d) by (rewrite map_length; exact Hlen).
  split; [|split].
  - intros l1 l2. apply (edge1_restriction K RT). intro E. rewrite E in Hlen. discriminate.
  - intros l2 l3. rewrite (tsum_l1_zero K RT) by (auto; lia).
    unfold bernstein. rewrite Hlm. replace (S d - 1)%nat with d by lia. reflexivity.
  - intros l3 l1. rewrite (bernstein_rev K RT). rewrite (tsum_l2_zero K RT) by (auto; lia).
    unfold bernstein. rewrite Hlh. replace (S d - 1)%nat with d by lia. reflexivity.
Qed.
End Edges.
