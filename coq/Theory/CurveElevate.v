(* C08: degree elevation preserves the shape, every degree, any field of characteristic 0. *)
From Coq Require Import List Arith Lia Ring Field.
From BZ Require Import Base.Ops Model.Curve Theory.CurveEval.
Import ListNotations.

(* absorption identities on nat *)
Lemma choose_absorb n k : choose (S n) (S k) * S k = S n * choose n k.
Proof.
  cbn [choose]. pose proof (choose_step n k) as H.
  destruct (le_lt_dec k n) as [Hle|Hgt].
  - replace (S n * choose n k) with (choose n k * S k + choose n k * (n - k)) by nia. nia.
  - rewrite (choose_gt n k) in * by lia. rewrite (choose_gt n (S k)) by lia. lia.
Qed.
Lemma choose_absorb2 n j : j <= S n -> choose (S n) j * (S n - j) = S n * choose n j.
Proof.
  intros Hj. pose proof (choose_step (S n) j) as H. rewrite <- H. apply choose_absorb.
Qed.

Section Elevate.
Context {T : Type} (K : Ops T) (FT : field_of K) (C0 : char0 K).
Add Field TF : FT.
Let RT : ring_of K := F_R FT.
Declare Scope t_scope. Delimit Scope t_scope with t.
Notation "0" := (o0 K) : t_scope. Notation "1" := (o1 K) : t_scope.
Infix "+" := (oadd K) : t_scope. Infix "*" := (omul K) : t_scope.
Infix "-" := (osub K) : t_scope. Infix "/" := (odiv K) : t_scope.
Local Open Scope t_scope.

Lemma ofn_sub a b : (b <= a)%nat -> ofn K (a - b) = ofn K a - ofn K b.
Proof.
  intros H. replace a with ((a - b) + b)%nat at 2 by lia. rewrite (ofn_add K RT). ring.
Qed.

(* key identity: one elevated node against its Bernstein weight *)
Lemma elevate_key n j prev x l1 l2 : (1 <= j)%nat -> (j <= n)%nat ->
  bcoef K (S n) j l1 l2 * ((ofn K j * prev + (ofn K (S n) - ofn K j) * x) / ofn K (S n))
  = l2 * bcoef K n (j - 1) l1 l2 * prev + l1 * bcoef K n j l1 l2 * x.
Proof.
  intros H1 Hn. unfold bcoef.
  destruct j as [|j']; [lia|]. replace (S j' - 1)%nat with j' by lia.
  assert (A1 : ofn K (choose (S n) (S j')) * ofn K (S j') = ofn K (S n) * ofn K (choose n j')).
  { rewrite <- !(ofn_mul K RT). f_equal. apply choose_absorb. }
  assert (A2 : ofn K (choose (S n) (S j')) * (ofn K (S n) - ofn K (S j')) = ofn K (S n) * ofn K (choose n (S j'))).
  { rewrite <- ofn_sub by lia. rewrite <- !(ofn_mul K RT). f_equal. apply choose_absorb2. lia. }
  replace (S n - S j')%nat with (n - j')%nat by lia.
  replace (n - j')%nat with (S (n - S j')) by lia.
  cbn [pw].
  set (c1 := ofn K (choose (S n) (S j'))) in *. set (N := ofn K (S n)) in *.
  set (cj := ofn K (S j')) in *. set (a := ofn K (choose n j')) in *. set (b := ofn K (choose n (S j'))) in *.
  assert (HN : N <> 0) by apply C0.
  transitivity ((c1 * cj * (l1 * pw K l1 (n - S j')) * (l2 * pw K l2 j') * prev
                 + c1 * (N - cj) * (l1 * pw K l1 (n - S j')) * (l2 * pw K l2 j') * x) / N).
  { field. exact HN. }
  rewrite A1, A2. field. exact HN.
Qed.

Lemma elevate_mid_cons den j a b l :
  elevate_mid K den j (a :: b :: l)
  = ((ofn K j * a + (den - ofn K j) * b) / den) :: elevate_mid K den (S j) (b :: l).
Proof. reflexivity. Qed.

Lemma elevate_sum n l1 l2 : forall l prev j,
  (1 <= j)%nat -> (j + length l = S n)%nat ->
  dot K (blist K (S n) j (S (length l)) l1 l2) (elevate_mid K (ofn K (S n)) j (prev :: l) ++ [last (prev :: l) 0])
  = l2 * bcoef K n (j - 1) l1 l2 * prev + (l1 + l2) * dot K (blist K n j (length l) l1 l2) l.
Proof.
  induction l as [|x l IH]; intros prev j Hj Hlen.
  - cbn [length] in Hlen. assert (j = S n) by lia. subst j.
    cbn [elevate_mid app last length blist dot]. replace (S n - 1)%nat with n by lia.
    unfold bcoef. rewrite !choose_nn. replace (S n - S n)%nat with 0%nat by lia.
    replace (n - n)%nat with 0%nat by lia. cbn [pw ofn]. ring.
  - rewrite elevate_mid_cons. cbn [length].
    change (last (prev :: x :: l) 0) with (last (x :: l) 0).
    change (blist K (S n) j (S (S (length l))) l1 l2)
      with (bcoef K (S n) j l1 l2 :: blist K (S n) (S j) (S (length l)) l1 l2).
    cbn [app dot]. rewrite IH by (cbn [length] in Hlen; lia).
    rewrite elevate_key by (cbn [length] in Hlen; lia).
    replace (S j - 1)%nat with j by lia.
    change (blist K n j (S (length l)) l1 l2) with (bcoef K n j l1 l2 :: blist K n (S j) (length l) l1 l2).
    cbn [dot]. ring.
Qed.

(* C08, elevation clause: B[elevate v](l1,l2) = (l1 + l2) * B[v](l1,l2); with l1 = 1 - s, l2 = s the same map *)
Theorem elevate_correct_gen v l1 l2 : v <> [] ->
  bernstein K (elevate K v) l1 l2 = (l1 + l2) * bernstein K v l1 l2.
Proof.
  intros Hne. destruct v as [|v0 l]; [congruence|].
  unfold bernstein. rewrite !(bsum_dot K RT).
  assert (Hlen : length (elevate K (v0 :: l)) = S (S (length l))).
  { cbn [elevate]. cbn [length]. rewrite app_length. cbn [length].
    assert (G : forall l' p j d, length (elevate_mid K d j (p :: l')) = length l').
    { induction l' as [|y l' IHl]; intros p j d; [reflexivity|]. rewrite elevate_mid_cons. cbn [length]. rewrite IHl. reflexivity. }
    rewrite G. lia. }
  rewrite Hlen. cbn [length]. replace (S (S (length l)) - 1)%nat with (S (length l)) by lia.
  replace (S (length l) - 1)%nat with (length l) by lia.
  cbn [elevate]. cbn [length].
  change (blist K (S (length l)) 0 (S (S (length l))) l1 l2)
    with (bcoef K (S (length l)) 0 l1 l2 :: blist K (S (length l)) 1 (S (length l)) l1 l2).
  cbn [dot].
  rewrite (elevate_sum (length l) l1 l2 l v0 1) by lia.
  change (blist K (length l) 0 (S (length l)) l1 l2) with (bcoef K (length l) 0 l1 l2 :: blist K (length l) 1 (length l) l1 l2).
  cbn [dot]. replace (1 - 1)%nat with 0%nat by lia.
  rewrite (bcoef_0 K RT). ring.
Qed.

Theorem elevate_correct v s : v <> [] ->
  bernstein K (elevate K v) (1 - s) s = bernstein K v (1 - s) s.
Proof. intros Hne. rewrite elevate_correct_gen by exact Hne. ring. Qed.
End Elevate.

(* end points unchanged bit-for-bit: they are copied, in any arithmetic *)
Theorem elevate_first {T} (K : Ops T) v : v <> [] -> hd (o0 K) (elevate K v) = hd (o0 K) v.
Proof. destruct v; [congruence|reflexivity]. Qed.
Theorem elevate_last {T} (K : Ops T) v : v <> [] -> last (elevate K v) (o0 K) = last v (o0 K).
Proof.
  destruct v as [|a l]; [congruence|]. intros _. cbn [elevate].
  change (a :: elevate_mid K (ofn K (length (a :: l))) 1 (a :: l) ++ [last (a :: l) (o0 K)])
    with ((a :: elevate_mid K (ofn K (length (a :: l))) 1 (a :: l)) ++ [last (a :: l) (o0 K)]).
  apply last_last.
Qed.
