(* Evaluation: de Casteljau and the modified Horner (VS) loop equal the Bernstein
   definition, for every degree, in every commutative ring / field of char 0. *)
From Coq Require Import List Arith Lia Ring Field.
From BZ Require Import Base.Ops Model.Curve.
Import ListNotations.

(* ---------- binomial coefficients on nat ---------- *)
Lemma choose_0 n : choose n 0 = 1. Proof. destruct n; reflexivity. Qed.
Lemma choose_gt n : forall k, n < k -> choose n k = 0.
Proof. induction n; intros [|k] H; simpl; try lia. rewrite !IHn by lia. reflexivity. Qed.
Lemma choose_nn n : choose n n = 1.
Proof. induction n; simpl; auto. rewrite IHn, choose_gt by lia. lia. Qed.
Lemma choose_step : forall n k, choose n (S k) * S k = choose n k * (n - k).
Proof.
  induction n as [|n IH]; intros k.
  - simpl. destruct k; simpl; lia.
  - destruct k as [|k].
    + simpl choose at 2. cbn [choose]. rewrite choose_0.
      specialize (IH 0). rewrite choose_0 in IH. simpl in IH. lia.
    + cbn [choose].
      pose proof (IH k) as H1. pose proof (IH (S k)) as H2.
      destruct (le_lt_dec n k) as [Hle|Hlt].
      * rewrite (choose_gt n (S k)) in * by lia. rewrite (choose_gt n (S (S k))) by lia.
        replace (S n - S k) with 0 by lia. lia.
      * replace (S n - S k) with (n - k) by lia.
        replace (n - k) with (S (n - S k)) in * by lia. nia.
Qed.

Section RingFacts.
Context {T : Type} (K : Ops T) (RT : ring_of K).
Add Ring TR : RT.
Declare Scope t_scope. Delimit Scope t_scope with t.
Notation "0" := (o0 K) : t_scope. Notation "1" := (o1 K) : t_scope.
Infix "+" := (oadd K) : t_scope. Infix "*" := (omul K) : t_scope. Infix "-" := (osub K) : t_scope.
Local Open Scope t_scope.

Lemma ofn_add a b : ofn K (a + b)%nat = ofn K a + ofn K b.
Proof. induction a; simpl; [ring | rewrite IHa; ring]. Qed.
Lemma ofn_mul a b : ofn K (a * b)%nat = ofn K a * ofn K b.
Proof. induction a; simpl; [ring | rewrite ofn_add, IHa; ring]. Qed.

Lemma dc_round_length l1 l2 (v : list T) : length (dc_round K l1 l2 v) = pred (length v).
Proof.
  induction v as [|a v IH]; simpl; auto.
  destruct v as [|b v']; simpl in IH |- *; auto.
Qed.

(* adjointness: <(l1 + l2 X) w, v> = <w, D v> *)
Lemma adjoint_aux l1 l2 : forall w v prev p,
  length v = length w ->
  dot K (mul_lin_aux K l1 l2 prev w) (p :: v) = l2 * prev * p + dot K w (dc_round K l1 l2 (p :: v)).
Proof.
  induction w as [|a w IH]; intros v prev p Hl.
  - destruct v; simpl in Hl |- *; try discriminate. ring.
  - destruct v as [|b v]; simpl in Hl; try discriminate.
    injection Hl as Hl.
    change (mul_lin_aux K l1 l2 prev (a :: w)) with ((l1 * a + l2 * prev) :: mul_lin_aux K l1 l2 a w).
    change (dot K ((l1 * a + l2 * prev) :: mul_lin_aux K l1 l2 a w) (p :: b :: v))
      with ((l1 * a + l2 * prev) * p + dot K (mul_lin_aux K l1 l2 a w) (b :: v)).
    rewrite (IH v a b Hl).
    change (dc_round K l1 l2 (p :: b :: v)) with ((l1 * p + l2 * b) :: dc_round K l1 l2 (b :: v)).
    change (dot K (a :: w) ((l1 * p + l2 * b) :: dc_round K l1 l2 (b :: v)))
      with (a * (l1 * p + l2 * b) + dot K w (dc_round K l1 l2 (b :: v))).
    ring.
Qed.

Lemma adjoint l1 l2 w v : length v = S (length w) ->
  dot K (mul_lin K l1 l2 w) v = dot K w (dc_round K l1 l2 v).
Proof.
  destruct v as [|p v]; intros H; [discriminate|]. injection H as H.
  unfold mul_lin. rewrite (adjoint_aux l1 l2 w v 0 p H). ring.
Qed.

Lemma mul_lin_aux_length l1 l2 : forall w prev, length (mul_lin_aux K l1 l2 prev w) = S (length w).
Proof. induction w; intros; simpl; auto. Qed.
Lemma W_length n l1 l2 : length (W K n l1 l2) = S n.
Proof. induction n; simpl; auto. unfold mul_lin. rewrite mul_lin_aux_length. auto. Qed.

Theorem dc_eval_correct : forall n l1 l2 v, length v = S n ->
  dc_eval K n l1 l2 v = dot K (W K n l1 l2) v.
Proof.
  induction n as [|n IH]; intros l1 l2 v Hl.
  - destruct v as [|a [|b v]]; simpl in Hl |- *; try discriminate. ring.
  - cbn [dc_eval W]. rewrite adjoint by (rewrite W_length; exact Hl).
    apply IH. rewrite dc_round_length, Hl. reflexivity.
Qed.

(* The coefficient list of (l1 + l2 X)^n is the binomial list:  W_n[j] = C(n,j) l1^(n-j) l2^j.
   bsum n i (skipn i v) pairs v_j with C(n,j) l1^(n-j) l2^j; we prove <W_n, v> = bsum n 0 v. *)
Definition bcoef (n j : nat) (l1 l2 : T) : T := ofn K (choose n j) * pw K l1 (n - j) * pw K l2 j.

Fixpoint blist (n j k : nat) (l1 l2 : T) : list T :=   (* [bcoef n j; ...; bcoef n (j+k-1)] *)
  match k with 0%nat => [] | S k' => bcoef n j l1 l2 :: blist n (S j) k' l1 l2 end.

Lemma bsum_dot n l1 l2 : forall (v : list T) j,
  bsum K n j v l1 l2 = dot K (blist n j (length v) l1 l2) v.
Proof. induction v as [|x v IH]; intros j; simpl; [reflexivity|]. rewrite IH. unfold bcoef. ring. Qed.

Lemma pw_S x k : pw K x (S k) = x * pw K x k. Proof. reflexivity. Qed.

Lemma bcoef_0 n l1 l2 : bcoef (S n) 0 l1 l2 = l1 * bcoef n 0 l1 l2.
Proof. unfold bcoef. rewrite !choose_0. replace (S n - 0)%nat with (S (n - 0)) by lia. cbn [pw ofn]. ring. Qed.

Lemma bcoef_S n j l1 l2 : (j <= n)%nat ->
  bcoef (S n) (S j) l1 l2 = l1 * bcoef n (S j) l1 l2 + l2 * bcoef n j l1 l2.
Proof.
  intros Hj. unfold bcoef. cbn [choose]. rewrite ofn_add.
  destruct (Nat.eq_dec j n) as [->|Hne].
  - rewrite (choose_gt n (S n)) by lia. replace (S n - S n)%nat with 0%nat by lia.
    replace (n - n)%nat with 0%nat by lia. cbn [pw ofn]. ring.
  - replace (S n - S j)%nat with (S (n - S j)) by lia.
    replace (n - j)%nat with (S (n - S j)) by lia. cbn [pw]. ring.
Qed.

Lemma mul_lin_aux_blist n l1 l2 : forall k j,
  (j + k = n)%nat ->
  mul_lin_aux K l1 l2 (bcoef n j l1 l2) (blist n (S j) k l1 l2) = blist (S n) (S j) (S k) l1 l2.
Proof.
  induction k as [|k IH]; intros j Hj.
  - cbn [blist mul_lin_aux]. f_equal. assert (j = n) by lia. subst j.
    rewrite bcoef_S by lia. unfold bcoef at 2. rewrite (choose_gt n (S n)) by lia. cbn [ofn]. ring.
  - cbn [blist mul_lin_aux]. rewrite IH by lia. f_equal.
    rewrite bcoef_S by lia. ring.
Qed.

Lemma W_blist l1 l2 : forall n, W K n l1 l2 = blist n 0 (S n) l1 l2.
Proof.
  induction n as [|n IH].
  - cbn [W blist]. unfold bcoef. cbn. f_equal. ring.
  - cbn [W]. rewrite IH. unfold mul_lin.
    change (blist n 0 (S n) l1 l2) with (bcoef n 0 l1 l2 :: blist n 1 n l1 l2).
    cbn [mul_lin_aux]. rewrite mul_lin_aux_blist by lia.
    change (blist (S n) 0 (S (S n)) l1 l2) with (bcoef (S n) 0 l1 l2 :: blist (S n) 1 (S n) l1 l2).
    f_equal. rewrite bcoef_0. ring.
Qed.

Theorem W_is_bernstein n l1 l2 v : length v = S n ->
  dot K (W K n l1 l2) v = bsum K n 0 v l1 l2.
Proof. intros H. rewrite bsum_dot, W_blist, H. reflexivity. Qed.

Theorem eval_dc_correct v l1 l2 : v <> [] -> eval_dc K v l1 l2 = bernstein K v l1 l2.
Proof.
  intros Hne. unfold eval_dc, bernstein.
  destruct v as [|a v]; [congruence|]. cbn [length]. replace (S (length v) - 1)%nat with (length v) by lia.
  rewrite dc_eval_correct by reflexivity. apply W_is_bernstein. reflexivity.
Qed.

(* partition of unity (used for convex-hull and elevation arguments) *)
Lemma mul_lin_aux_sum l1 l2 : forall w prev,
  fold_right (oadd K) 0 (mul_lin_aux K l1 l2 prev w) = l2 * prev + (l1 + l2) * fold_right (oadd K) 0 w.
Proof.
  induction w as [|a w IH]; intros prev; cbn [mul_lin_aux fold_right].
  - ring.
  - rewrite IH. ring.
Qed.
Lemma W_sum n l1 l2 : fold_right (oadd K) 0 (W K n l1 l2) = pw K (l1 + l2) n.
Proof.
  induction n as [|n IH]; cbn [W pw fold_right]; [ring|].
  unfold mul_lin. rewrite mul_lin_aux_sum, IH. ring.
Qed.
End RingFacts.

Section FieldFacts.
Context {T : Type} (K : Ops T) (FT : field_of K) (C0 : char0 K).
Add Field TF : FT.
Let RT : ring_of K := F_R FT.
Declare Scope t_scope. Delimit Scope t_scope with t.
Notation "0" := (o0 K) : t_scope. Notation "1" := (o1 K) : t_scope.
Infix "+" := (oadd K) : t_scope. Infix "*" := (omul K) : t_scope.
Infix "-" := (osub K) : t_scope. Infix "/" := (odiv K) : t_scope.
Local Open Scope t_scope.

Lemma vs_loop_cons n j vj vj' r acc p b l1 l2 :
  vs_loop K n j (vj :: vj' :: r) acc p b l1 l2 =
  vs_loop K n (S j) (vj' :: r) ((acc + (b * ofn K (n - j + 1)%nat / ofn K j) * (p * l2) * vj) * l1) (p * l2)
          (b * ofn K (n - j + 1)%nat / ofn K j) l1 l2.
Proof. reflexivity. Qed.

Lemma vs_loop_inv l1 l2 n : forall rest j acc,
  (1 <= j)%nat -> (j + length rest = S n)%nat -> rest <> [] ->
  vs_loop K n j rest acc (pw K l2 (j - 1)%nat) (ofn K (choose n (j - 1)%nat)) l1 l2
  = acc * pw K l1 (n - j)%nat + bsum K n j rest l1 l2.
Proof.
  induction rest as [|vj rest IH]; intros j acc Hj Hlen Hne; [congruence|].
  destruct rest as [|vj' rest'].
  - simpl in Hlen. assert (j = n) by lia. subst j.
    cbn [vs_loop bsum]. rewrite choose_nn. replace (n - n)%nat with 0%nat by lia.
    destruct n as [|m]; [lia|]. replace (S m - 1)%nat with m by lia. cbn [pw ofn]. ring.
  - rewrite vs_loop_cons.
    assert (Hb : ofn K (choose n (j - 1)%nat) * ofn K (n - j + 1)%nat / ofn K j = ofn K (choose n j)).
    { destruct j as [|j']; [lia|]. replace (S j' - 1)%nat with j' by lia.
      pose proof (choose_step n j') as Hs.
      replace (n - S j' + 1)%nat with (n - j')%nat by (simpl in Hlen; lia).
      rewrite <- (ofn_mul K RT), <- Hs, (ofn_mul K RT). field. apply C0. }
    rewrite Hb.
    replace (pw K l2 (j - 1)%nat * l2) with (pw K l2 (S j - 1)%nat).
    2:{ replace (S j - 1)%nat with (S (j - 1)%nat) by lia. cbn [pw]. ring. }
    replace (ofn K (choose n j)) with (ofn K (choose n (S j - 1)%nat)) by (f_equal; f_equal; lia).
    rewrite IH; [| lia | simpl in Hlen |- *; lia | congruence].
    replace (S j - 1)%nat with j by lia.
    cbn [bsum].
    replace (n - j)%nat with (S (n - S j)%nat) by (simpl in Hlen; lia). cbn [pw]. ring.
Qed.

Lemma eval_vs_degree0 v0 l1 l2 : eval_vs K [v0] l1 l2 = (l1 + l2) * v0.
Proof. cbn [eval_vs]. ring. Qed.

Theorem eval_vs_correct v l1 l2 : (2 <= length v)%nat \/ (v <> [] /\ l1 + l2 = 1) ->
  eval_vs K v l1 l2 = bernstein K v l1 l2.
Proof.
  intros Hne. destruct v as [|v0 rest]; [simpl in Hne; destruct Hne as [?|[? _]]; [lia|congruence]|].
  unfold bernstein.
  cbn [length]. replace (S (length rest) - 1)%nat with (length rest) by lia.
  destruct rest as [|v1 rest].
  - destruct Hne as [Hl|[_ Hs]]; [simpl in Hl; lia|].
    rewrite eval_vs_degree0, Hs. cbn [length bsum choose pw ofn Nat.sub]. ring.
  - change (eval_vs K (v0 :: v1 :: rest) l1 l2)
      with (vs_loop K (length (v1 :: rest)) 1 (v1 :: rest) (l1 * v0) 1 1 l1 l2).
    set (r := v1 :: rest). set (n := length r).
    pose proof (vs_loop_inv l1 l2 n r 1 (l1 * v0)) as H.
    replace (1 - 1)%nat with 0%nat in H by lia. rewrite choose_0 in H. cbn [pw ofn] in H.
    replace (0 + 1) with 1 in H by ring.
    rewrite H; [| lia | subst n; lia | subst r; congruence].
    cbn [bsum]. rewrite choose_0. cbn [pw ofn]. replace (n - 0)%nat with (S (n - 1)%nat).
    2:{ subst n r; simpl; lia. }
    cbn [pw]. ring.
Qed.

(* both branches of the dispatch denote the same function, whatever the threshold *)
Theorem eval_bary_correct thr v l1 l2 : (2 <= length v)%nat \/ (v <> [] /\ l1 + l2 = 1) ->
  eval_bary K thr v l1 l2 = bernstein K v l1 l2.
Proof.
  intros Hne. unfold eval_bary. destruct (Nat.ltb thr (length v)).
  - apply (eval_dc_correct K RT). destruct Hne as [Hl|[Hn _]]; [|exact Hn]. destruct v; simpl in Hl; [lia|congruence].
  - apply eval_vs_correct; exact Hne.
Qed.

Theorem eval_multi_correct thr v ss : v <> [] ->
  eval_multi K thr v ss = map (fun s => bernstein K v (1 - s) s) ss.
Proof.
  intros Hne. unfold eval_multi. apply map_ext. intros s. apply eval_bary_correct.
  right. split; [exact Hne|ring].
Qed.
End FieldFacts.
