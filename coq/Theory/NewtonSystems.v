(* C11: the Jacobians used by the two Newton systems of the curve-curve end game ARE the derivatives of the functions
   they are used with.  Formal derivative = epsilon-part over the dual numbers T[eps]/(eps^2) (as for the hodograph):
     G(s + eps, t) = G(s, t) + eps * (first column of DG),   G(s, t + eps) = G(s, t) + eps * (second column of DG)
   for G = [B1(s) - B2(t); B1'(s) x B2'(t)], with the derivative nets built as full_newton_nonzero builds them.
   Every pair of degrees (nets of at least one node), any commutative ring. *)
From Coq Require Import List Arith Lia Ring.
From BZ Require Import Base.Ops Model.Curve Theory.CurveEval Theory.CurveSubdiv Theory.CurveDeriv Theory.Presentation
  Model.NewtonSystems.
Import ListNotations.

Section NSys.
Context {T : Type} (K : Ops T) (RT : ring_of K).
Add Ring TRN : RT.
Declare Scope t_scope. Delimit Scope t_scope with t.
Notation "0" := (o0 K) : t_scope. Notation "1" := (o1 K) : t_scope.
Infix "+" := (oadd K) : t_scope. Infix "*" := (omul K) : t_scope. Infix "-" := (osub K) : t_scope.
Local Open Scope t_scope.
Notation DK := (DualOps K).
Notation lift := (lift K).

(* B[v](s + eps) over the dual numbers *)
Definition dualB (v : list T) (s : T) : T * T := bernstein DK (map lift v) (dneg K (1 - s)) (deps K s).

Lemma bernstein_scale c v l1 l2 : bernstein K (map (omul K c) v) l1 l2 = c * bernstein K v l1 l2.
Proof.
  destruct v as [|a v]; [unfold bernstein; cbn; ring|].
  assert (H := bernstein_affine K RT c 0 (a :: v) l1 l2 ltac:(discriminate)).
  rewrite <- (map_ext (fun x => c * x + 0) (omul K c)) by (intros; ring).
  rewrite H. ring.
Qed.

Lemma dualB_spec v s : dualB v s = (Bv K v s, Bv K (dnet K v) s).
Proof.
  unfold dualB, Bv, dnet.
  destruct v as [|a [|b v]].
  - unfold bernstein. cbn [map length Nat.sub bsum diffs]. reflexivity.
  - (* a single node: constant *)
    unfold bernstein. cbn [map length Nat.sub bsum choose ofn pw diffs].
    cbn [oadd omul o0 o1 DualOps fst snd CurveDeriv.lift]. apply f_equal2; ring.
  - rewrite (hodograph_is_derivative K RT) by (cbn [length]; lia).
    rewrite bernstein_scale. reflexivity.
Qed.

(* evaluating at a parameter WITHOUT epsilon gives the lifted value *)
Lemma lift_add a b : oadd DK (lift a) (lift b) = lift (a + b).
Proof. unfold CurveDeriv.lift. cbn [oadd DualOps fst snd]. f_equal; ring. Qed.
Lemma lift_mul a b : omul DK (lift a) (lift b) = lift (a * b).
Proof. unfold CurveDeriv.lift. cbn [omul DualOps fst snd]. f_equal; ring. Qed.
Lemma lift_sub a b : osub DK (lift a) (lift b) = lift (a - b).
Proof. unfold CurveDeriv.lift. cbn [osub DualOps fst snd]. f_equal; ring. Qed.

(* the chain rule for G: the eight evaluations as dual numbers (value, derivative) *)
Lemma Gfun_dual b1x b1y b2x b2y d1x d1y d2x d2y b1x' b1y' b2x' b2y' d1x' d1y' d2x' d2y' :
  Gfun DK (b1x, b1x') (b1y, b1y') (b2x, b2x') (b2y, b2y') (d1x, d1x') (d1y, d1y') (d2x, d2x') (d2y, d2y')
  = ((b1x - b2x, b1x' - b2x'), (b1y - b2y, b1y' - b2y'),
     (cross2 K d1x d1y d2x d2y, cross2 K d1x' d1y' d2x d2y + cross2 K d1x d1y d2x' d2y')).
Proof.
  unfold Gfun, cross2. cbn [osub omul oadd DualOps fst snd].
  apply f_equal2; [apply f_equal2|]; apply f_equal2; ring.
Qed.

Definition col1 (d : dsys (T := T)) := (j11 d, j21 d, j31 d).
Definition col2 (d : dsys (T := T)) := (j12 d, j22 d, j32 d).
Definition with_eps (g : T * T * T) (c : T * T * T) : (T * T) * (T * T) * (T * T) :=
  let '(a1, a2, a3) := g in let '(c1, c2, c3) := c in ((a1, c1), (a2, c2), (a3, c3)).

Theorem double_root_jacobian_is_the_derivative x1 y1 x2 y2 s t :
  let d := double_root K x1 y1 x2 y2 s t in
  let G := (g1 d, g2 d, g3 d) in
  (* perturb s *)
  Gfun DK (dualB x1 s) (dualB y1 s) (lift (Bv K x2 t)) (lift (Bv K y2 t))
          (dualB (dnet K x1) s) (dualB (dnet K y1) s) (lift (Bv K (dnet K x2) t)) (lift (Bv K (dnet K y2) t))
  = with_eps G (col1 d)
  /\
  (* perturb t *)
  Gfun DK (lift (Bv K x1 s)) (lift (Bv K y1 s)) (dualB x2 t) (dualB y2 t)
          (lift (Bv K (dnet K x1) s)) (lift (Bv K (dnet K y1) s)) (dualB (dnet K x2) t) (dualB (dnet K y2) t)
  = with_eps G (col2 d).
Proof.
  cbv zeta. rewrite !dualB_spec. unfold CurveDeriv.lift. rewrite !Gfun_dual.
  unfold double_root, with_eps, col1, col2, cross2. cbn [g1 g2 g3 j11 j12 j21 j22 j31 j32].
  split; (apply f_equal2; [apply f_equal2|]; apply f_equal2; ring).
Qed.

(* the simple-root system: DF = [B1'(s), -B2'(t)] is the derivative of F = B1(s) - B2(t) *)
Theorem simple_root_jacobian_is_the_derivative x1 y1 x2 y2 s t :
  let '(F, (a11, a12, a21, a22)) := simple_root K x1 y1 x2 y2 s t in
  (osub DK (dualB x1 s) (lift (Bv K x2 t)), osub DK (dualB y1 s) (lift (Bv K y2 t))) = ((fst F, a11), (snd F, a21)) /\
  (osub DK (lift (Bv K x1 s)) (dualB x2 t), osub DK (lift (Bv K y1 s)) (dualB y2 t)) = ((fst F, a12), (snd F, a22)).
Proof.
  unfold simple_root. rewrite !dualB_spec. unfold CurveDeriv.lift. cbn [osub DualOps fst snd].
  split; apply f_equal2; apply f_equal2; ring.
Qed.
End NSys.
