(* C16: the linearization error bound is a true bound.
   For a curve of degree n >= 1 with control values v_0..v_n (one coordinate) and M >= every |v_j - 2 v_(j+1) + v_(j+2)|:
        | B[v](s) - ((1-s) v_0 + s v_n) |  <=  M n (n-1) / 8      for every s in [0,1].
   Proof without analysis: (1) discrete maximum principle: |v_i - chord_i| <= M i (n-i) / 2;  (2) de Casteljau rounds
   preserve the sandwich |a - c| <= g;  (3) a quadratic sequence stays quadratic under a round, with closed forms, so the
   chord net evaluates to the chord and the majorant net to M n (n-1) s (1-s) / 2 <= M n (n-1) / 8. *)
From Coq Require Import Reals Lra Lia List Arith.
From BZ Require Import Base.Ops Base.RInst Model.Curve Theory.CurveEval Theory.CurveSubdiv.
Import ListNotations.
Local Open Scope R_scope.

Section Lin.
Variable s : R.
Hypothesis Hs : 0 <= s <= 1.

(* one de Casteljau round on index functions *)
Definition Rd (f : nat -> R) : nat -> R := fun j => (1 - s) * f j + s * f (S j).
Fixpoint Rds (k : nat) (f : nat -> R) : nat -> R := match k with O => f | S k' => Rds k' (Rd f) end.

Lemma dc_round_fun (f : nat -> R) n : dc_round ROps (1 - s) s (map f (seq 0 (S n))) = map (Rd f) (seq 0 n).
Proof. exact (dc_round_map_seq ROps (1 - s) s f n 0). Qed.
Lemma dc_eval_fun : forall n (f : nat -> R), dc_eval ROps n (1 - s) s (map f (seq 0 (S n))) = Rds n f 0%nat.
Proof.
  induction n as [|n IH]; intros f; [reflexivity|].
  cbn [dc_eval Rds]. rewrite dc_round_fun. apply IH.
Qed.

(* sandwich *)
Lemma Rd_sandwich (a c g : nat -> R) m :
  (forall j, (j <= S m)%nat -> Rabs (a j - c j) <= g j) -> forall j, (j <= m)%nat -> Rabs (Rd a j - Rd c j) <= Rd g j.
Proof.
  intros H j Hj. unfold Rd.
  replace ((1 - s) * a j + s * a (S j) - ((1 - s) * c j + s * c (S j))) with ((1 - s) * (a j - c j) + s * (a (S j) - c (S j))) by ring.
  eapply Rle_trans; [apply Rabs_triang|]. rewrite !Rabs_mult, (Rabs_pos_eq (1 - s)), (Rabs_pos_eq s) by lra.
  pose proof (H j ltac:(lia)). pose proof (H (S j) ltac:(lia)).
  apply Rplus_le_compat; apply Rmult_le_compat_l; lra.
Qed.
Lemma Rds_sandwich : forall k (a c g : nat -> R) m,
  (forall j, (j <= k + m)%nat -> Rabs (a j - c j) <= g j) -> forall j, (j <= m)%nat -> Rabs (Rds k a j - Rds k c j) <= Rds k g j.
Proof.
  induction k as [|k IH]; intros a c g m H j Hj; [apply H; lia|].
  cbn [Rds]. apply (IH _ _ _ m); [|exact Hj]. intros i Hi. apply (Rd_sandwich a c g (k + m)); [|exact Hi].
  intros i' Hi'. apply H. lia.
Qed.

(* quadratic sequences *)
Definition quad (al be ga : R) : nat -> R := fun i => al * INR i * INR i + be * INR i + ga.
Lemma Rd_quad al be ga j : Rd (quad al be ga) j = quad al (be + 2 * al * s) (ga + s * (al + be)) j.
Proof. unfold Rd, quad. rewrite S_INR. ring. Qed.
Lemma Rds_ext k : forall f g, (forall j, f j = g j) -> forall j, Rds k f j = Rds k g j.
Proof. induction k as [|k IH]; intros f g H j; [apply H|]. cbn [Rds]. apply IH. intros i. unfold Rd. rewrite !H. reflexivity. Qed.
Lemma Rds_quad : forall k al be ga j,
  Rds k (quad al be ga) j = quad al (be + 2 * al * s * INR k) (ga + s * INR k * (al + be) + al * s * s * INR k * (INR k - 1)) j.
Proof.
  induction k as [|k IH]; intros al be ga j.
  - cbn [Rds INR]. unfold quad. ring.
  - cbn [Rds]. rewrite (Rds_ext k _ _ (Rd_quad al be ga) j), IH. unfold quad. rewrite S_INR. ring.
Qed.
End Lin.

Lemma Rabs_le_inv' x y : Rabs x <= y -> - y <= x <= y.
Proof. intros H. unfold Rabs in H. destruct (Rcase_abs x); lra. Qed.

(* discrete maximum principle *)
Lemma concave_nonneg n (h : nat -> R) : h 0%nat = 0 -> h n = 0 ->
  (forall j, (j + 2 <= n)%nat -> h j - 2 * h (S j) + h (S (S j)) <= 0) -> forall i, (i <= n)%nat -> 0 <= h i.
Proof.
  intros H0 Hn Hc.
  assert (Hslope : forall i, (i + 1 <= n)%nat -> INR i * h (S i) <= INR (S i) * h i).
  { induction i as [|i IH]; intros Hi.
    - cbn [INR]. rewrite H0. lra.
    - specialize (IH ltac:(lia)). pose proof (Hc i ltac:(lia)) as Hcc. rewrite !S_INR in *.
      pose proof (pos_INR i). nra. }
  assert (Hdown : forall k, (k <= n)%nat -> 0 <= h (n - k)%nat).
  { induction k as [|k IH]; intros Hk.
    - rewrite Nat.sub_0_r, Hn. lra.
    - specialize (IH ltac:(lia)). pose proof (Hslope (n - S k)%nat ltac:(lia)) as Hsl.
      replace (S (n - S k)) with (n - k)%nat in Hsl by lia.
      assert (0 < INR (n - k)) by (apply lt_0_INR; lia).
      pose proof (pos_INR (n - S k)).
      assert (0 <= INR (n - k) * h (n - S k)%nat) by nra. nra. }
  intros i Hi. replace i with (n - (n - i))%nat by lia. apply Hdown. lia.
Qed.

Section Bound.
Variables (n : nat) (f : nat -> R) (M : R).
Hypothesis Hn : (1 <= n)%nat.
Hypothesis HM : forall j, (j + 2 <= n)%nat -> Rabs (f j - 2 * f (S j) + f (S (S j))) <= M.
Let N := INR n.
Let chord (i : nat) : R := quad 0 ((f n - f 0%nat) / N) (f 0%nat) i.
Let g (i : nat) : R := quad (- M / 2) (M * N / 2) 0 i.

Lemma N_pos : 0 < N. Proof. apply lt_0_INR. lia. Qed.

Lemma deviation_bound i : (i <= n)%nat -> Rabs (f i - chord i) <= g i.
Proof.
  intros Hi. pose proof N_pos as HN.
  assert (Hc0 : chord 0%nat = f 0%nat) by (unfold chord, quad; cbn [INR]; ring).
  assert (Hcn : chord n = f n) by (unfold chord, quad; fold N; field; lra).
  assert (Hg0 : g 0%nat = 0) by (unfold g, quad; cbn [INR]; ring).
  assert (Hgn : g n = 0) by (unfold g, quad; fold N; field).
  assert (Hd2c : forall j, chord j - 2 * chord (S j) + chord (S (S j)) = 0) by (intros j; unfold chord, quad; rewrite !S_INR; field; lra).
  assert (Hd2g : forall j, g j - 2 * g (S j) + g (S (S j)) = - M) by (intros j; unfold g, quad; rewrite !S_INR; field).
  apply Rabs_le. split.
  - (* g + (f - chord) >= 0 *)
    pose proof (concave_nonneg n (fun i => g i + (f i - chord i))) as H.
    cbv beta in H. rewrite Hg0, Hgn, Hc0, Hcn in H. specialize (H ltac:(lra) ltac:(lra)).
    assert (Hcc : forall j, (j + 2 <= n)%nat ->
      g j + (f j - chord j) - 2 * (g (S j) + (f (S j) - chord (S j))) + (g (S (S j)) + (f (S (S j)) - chord (S (S j)))) <= 0).
    { intros j Hj. pose proof (Rabs_le_inv' _ _ (HM j Hj)) as Hm. pose proof (Hd2c j). pose proof (Hd2g j). lra. }
    specialize (H Hcc i Hi). lra.
  - pose proof (concave_nonneg n (fun i => g i - (f i - chord i))) as H.
    cbv beta in H. rewrite Hg0, Hgn, Hc0, Hcn in H. specialize (H ltac:(lra) ltac:(lra)).
    assert (Hcc : forall j, (j + 2 <= n)%nat ->
      g j - (f j - chord j) - 2 * (g (S j) - (f (S j) - chord (S j))) + (g (S (S j)) - (f (S (S j)) - chord (S (S j)))) <= 0).
    { intros j Hj. pose proof (Rabs_le_inv' _ _ (HM j Hj)) as Hm. pose proof (Hd2c j). pose proof (Hd2g j). lra. }
    specialize (H Hcc i Hi). lra.
Qed.

Theorem linearization_bound_fun s : 0 <= s <= 1 ->
  Rabs (bernstein ROps (map f (seq 0 (S n))) (1 - s) s - ((1 - s) * f 0%nat + s * f n)) <= M * N * (N - 1) / 8.
Proof.
  intros Hs. pose proof N_pos as HN.
  rewrite <- (eval_dc_correct ROps RRing) by (cbn [seq map]; discriminate).
  unfold eval_dc. rewrite map_length, seq_length. replace (S n - 1)%nat with n by lia.
  rewrite dc_eval_fun.
  pose proof (Rds_sandwich s Hs n f chord g 0 ltac:(intros j Hj; apply deviation_bound; lia) 0%nat ltac:(lia)) as H.
  unfold chord, g in H. rewrite !Rds_quad in H. unfold quad in H. cbn [INR] in H. fold N in H.
  replace (0 * 0 * 0 + ((f n - f 0%nat) / N + 2 * 0 * s * N) * 0 + (f 0%nat + s * N * (0 + (f n - f 0%nat) / N) + 0 * s * s * N * (N - 1)))
    with ((1 - s) * f 0%nat + s * f n) in H by (field; lra).
  eapply Rle_trans; [exact H|].
  destruct (le_lt_dec 2 n) as [H2|H2].
  - assert (HM0 : 0 <= M).
    { pose proof (HM 0%nat ltac:(lia)) as Hm. pose proof (Rabs_pos (f 0%nat - 2 * f 1%nat + f 2%nat)). lra. }
    assert (2 <= N) by (unfold N; replace 2 with (INR 2) by (cbn [INR]; lra); apply le_INR; lia).
    assert (Hq : s * (1 - s) <= / 4) by (pose proof (Rle_0_sqr (s - / 2)) as Hsq; unfold Rsqr in Hsq; lra).
    replace (- M / 2 * 0 * 0 + (M * N / 2 + 2 * (- M / 2) * s * N) * 0 + (0 + s * N * (- M / 2 + M * N / 2) + - M / 2 * s * s * N * (N - 1)))
      with (M * N * (N - 1) / 2 * (s * (1 - s))) by field.
    assert (0 <= M * N * (N - 1) / 2) by (apply Rmult_le_pos; [|lra]; apply Rmult_le_pos; [apply Rmult_le_pos; lra|lra]).
    nra.
  - assert (HN1 : N = 1) by (unfold N; replace n with 1%nat by lia; reflexivity).
    rewrite HN1. right. field.
Qed.
End Bound.

(* list form: any net, M any bound of the second differences *)
Theorem linearization_bound (v : list R) (M s : R) : (2 <= length v)%nat ->
  (forall j, (j + 3 <= length v)%nat -> Rabs (nth j v 0 - 2 * nth (S j) v 0 + nth (S (S j)) v 0) <= M) ->
  0 <= s <= 1 ->
  Rabs (bernstein ROps v (1 - s) s - ((1 - s) * hd 0 v + s * last v 0))
  <= M * INR (length v - 1) * (INR (length v - 1) - 1) / 8.
Proof.
  intros Hl HM Hs.
  set (n := (length v - 1)%nat). set (f := fun j => nth j v 0).
  assert (Hv : v = map f (seq 0 (S n))).
  { unfold f, n. replace (S (length v - 1)) with (length v) by lia.
    clear. induction v as [|a v IH]; [reflexivity|]. cbn [length seq map nth]. f_equal. rewrite <- seq_shift, map_map. exact IH. }
  assert (Hhd : hd 0 v = f 0%nat) by (unfold f; destruct v; reflexivity).
  assert (Hlast : last v 0 = f n).
  { unfold f, n. clear. induction v as [|a v IH]; [reflexivity|]. destruct v as [|b v']; [reflexivity|].
    change (last (a :: b :: v') 0) with (last (b :: v') 0). rewrite IH. cbn [length]. replace (S (S (length v')) - 1)%nat with (S (S (length v') - 1)) by lia. reflexivity. }
  rewrite Hhd, Hlast. rewrite Hv at 1.
  apply (linearization_bound_fun n f M ltac:(unfold n; lia)); [|exact Hs].
  intros j Hj. apply HM. unfold n in Hj. lia.
Qed.
