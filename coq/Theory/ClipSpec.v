(* C16, clipping: what the value returned by (the model of) clip_range satisfies, over Q.
   The per-chord update is the REGENERATED py__update_parameters (which calls the regenerated segment_intersection and
   in_interval); the implicit line is the regenerated py_compute_implicit_line. *)
From Coq Require Import List ZArith QArith Qabs Bool String Lia Lqa Qfield.
From BZ Require Import Base.Ops Base.PyVal Gen.PyFnHelpers Gen.PyFnGeometric Gen.PyFnClipping Gen.PyClipping
  Theory.Predicates Model.Clip.
Import ListNotations.
Open Scope Q_scope.

(* ---------------- _update_parameters ---------------- *)
Theorem update_parameters_spec smin smax m l xi di xj dj :
  let cross := (m - 0) * (dj - di) - (l - l) * (xj - xi) in
  (cross == 0 ->
   py__update_parameters (VQ smin) (VQ smax) (V2 0 l) (V2 m l) (V2 xi di) (V2 xj dj) = VErr "NotImplementedError") /\
  (~ cross == 0 -> exists s t smin' smax',
   py__update_parameters (VQ smin) (VQ smax) (V2 0 l) (V2 m l) (V2 xi di) (V2 xj dj) = VTup [VQ smin'; VQ smax'] /\
   s * m == xi + t * (xj - xi) /\ t * (dj - di) == l - di /\
   smin' <= smin /\ smax <= smax' /\
   (0 <= t <= 1 -> 0 <= s -> smin' <= s) /\ (0 <= t <= 1 -> s <= 1 -> s <= smax')).
Proof.
  intros cross.
  destruct (segment_intersection_spec 0 l m l xi di xj dj) as [Hpar Hok]. fold cross in Hpar, Hok.
  split.
  - intros Hc. unfold py__update_parameters. rewrite (Hpar Hc). reflexivity.
  - intros Hc. destruct (Hok Hc) as [s [t [E [Hx Hy]]]].
    exists s, t. unfold py__update_parameters. rewrite E.
    cbn [vidx nth vnot negb truth]. rewrite !in_interval_spec. cbn [truth].
    assert (Hs1 : s * m == xi + t * (xj - xi)) by (rewrite <- Hx; ring).
    assert (Ht1 : t * (dj - di) == l - di) by lra.
    destruct (Qle_bool 0 t && Qle_bool t 1) eqn:Et.
    + destruct (Qle_bool 0 s && Qle_bool s smin) eqn:E1; destruct (Qle_bool smax s && Qle_bool s 1) eqn:E2; qprops;
        eexists; eexists; (split; [reflexivity|]); repeat split; try assumption; try lra; intros; try lra.
      all: try (apply andb_false_iff in E1; destruct E1 as [E1|E1]; qprops; lra).
      all: try (apply andb_false_iff in E2; destruct E2 as [E2|E2]; qprops; lra).
      all: apply andb_false_iff in E1; apply andb_false_iff in E2; destruct E1 as [E1|E1]; destruct E2 as [E2|E2]; qprops; lra.
    + eexists; eexists; (split; [reflexivity|]); repeat split; try assumption; try lra;
        intros; apply andb_false_iff in Et; destruct Et as [Et|Et]; qprops; lra.
Qed.

(* ---------------- compute_implicit_line ---------------- *)
Lemma last_map_VQ : forall (l : list Q) d, l <> [] -> last (map VQ l) d = VQ (last l 0).
Proof.
  induction l as [|a l IH]; intros d Hne; [congruence|]. destruct l as [|b l']; [reflexivity|].
  change (last (map VQ (a :: b :: l')) d) with (last (map VQ (b :: l')) d). rewrite IH by discriminate. reflexivity.
Qed.
Theorem implicit_line_spec x0 xs y0 ys : exists a b c,
  py_compute_implicit_line (rows2 (x0 :: xs) (y0 :: ys)) = VTup [VQ a; VQ b; VQ c] /\
  a == - (last (y0 :: ys) 0 - y0) /\ b == last (x0 :: xs) 0 - x0 /\
  c == (last (y0 :: ys) 0 - y0) * x0 - (last (x0 :: xs) 0 - x0) * y0.
Proof.
  assert (Hx : vidx_last (VTup (map VQ (x0 :: xs))) = VQ (last (x0 :: xs) 0)) by (apply last_map_VQ; discriminate).
  assert (Hy : vidx_last (VTup (map VQ (y0 :: ys))) = VQ (last (y0 :: ys) 0)) by (apply last_map_VQ; discriminate).
  unfold py_compute_implicit_line, rows2.
  cbn [vcol_last vcol map]. 
  change (vidx_last (VTup (VQ x0 :: map VQ xs))) with (vidx_last (VTup (map VQ (x0 :: xs)))).
  change (vidx_last (VTup (VQ y0 :: map VQ ys))) with (vidx_last (VTup (map VQ (y0 :: ys)))).
  rewrite Hx, Hy.
  cbn [vidx nth map vsub_b vsub zip_with vidx2 vneg vmul].
  eexists; eexists; eexists. split; [reflexivity|]. repeat split; ring.
Qed.

(* ---------------- compute_fat_line ---------------- *)
Lemma fat_fold_spec : forall (l : list Q) lo0 hi0, lo0 <= hi0 ->
  fst (fold_left fat_step l (lo0, hi0)) <= lo0 /\ hi0 <= snd (fold_left fat_step l (lo0, hi0)) /\
  Forall (fun d => fst (fold_left fat_step l (lo0, hi0)) <= d <= snd (fold_left fat_step l (lo0, hi0))) l.
Proof.
  induction l as [|d l IH]; intros lo0 hi0 H0; cbn [fold_left].
  - cbn [fst snd]. repeat split; try lra. constructor.
  - change (fat_step (lo0, hi0) d) with (if Qltb d lo0 then (d, hi0) else if Qltb hi0 d then (lo0, d) else (lo0, hi0)).
    destruct (Qltb d lo0) eqn:E1; [|destruct (Qltb hi0 d) eqn:E2]; qprops.
    + destruct (IH d hi0 ltac:(lra)) as [A [B C]]. repeat split; try lra. constructor; [lra|exact C].
    + destruct (IH lo0 d ltac:(lra)) as [A [B C]]. repeat split; try lra. constructor; [lra|exact C].
    + destruct (IH lo0 hi0 H0) as [A [B C]]. repeat split; try lra. constructor; [lra|exact C].
Qed.

Lemma list_ends {A} (dflt : A) : forall l : list A, (2 <= List.length l)%nat -> l = hd dflt l :: interior l ++ [last l dflt].
Proof.
  intros [|a l] Hl; [cbn [List.length] in Hl; lia|]. cbn [hd]. f_equal. unfold interior. cbn [tl].
  assert (Hne : l <> []) by (destruct l; [cbn [List.length] in Hl; lia|discriminate]).
  rewrite (app_removelast_last dflt Hne) at 1. f_equal. f_equal.
  destruct l; [congruence|reflexivity].
Qed.
Lemma dists_length a b c : forall xs ys, List.length xs = List.length ys -> List.length (dists a b c xs ys) = List.length xs.
Proof. induction xs as [|x xs IH]; intros [|y ys] H; cbn [List.length] in H; try lia; [reflexivity|]. unfold dists in IH |- *. cbn [zipw List.length]. rewrite IH; lia. Qed.
Lemma dists_last a b c : forall xs ys, List.length xs = List.length ys -> xs <> [] ->
  last (dists a b c xs ys) 0 = a * last xs 0 + b * last ys 0 + c.
Proof.
  induction xs as [|x xs IH]; intros [|y ys] H Hne; cbn [List.length] in *; try lia; try congruence.
  destruct xs as [|x' xs']; destruct ys as [|y' ys']; cbn [List.length] in *; try lia; [reflexivity|].
  change (dists a b c (x :: x' :: xs') (y :: y' :: ys')) with ((a * x + b * y + c) :: dists a b c (x' :: xs') (y' :: ys')).
  change (last (x :: x' :: xs') 0) with (last (x' :: xs') 0). change (last (y :: y' :: ys') 0) with (last (y' :: ys') 0).
  rewrite <- IH by (cbn [List.length]; try lia; discriminate).
  unfold dists. reflexivity.
Qed.

Theorem fat_line_spec x0 xs y0 ys a b c lo hi : List.length xs = List.length ys -> (1 <= List.length xs)%nat ->
  fat_line (x0 :: xs) (y0 :: ys) = Some (a, b, c, lo, hi) ->
  a == - (last (y0 :: ys) 0 - y0) /\ b == last (x0 :: xs) 0 - x0 /\
  c == (last (y0 :: ys) 0 - y0) * x0 - (last (x0 :: xs) 0 - x0) * y0 /\
  lo <= 0 <= hi /\ Forall (fun d => lo <= d <= hi) (dists a b c (x0 :: xs) (y0 :: ys)).
Proof.
  intros Hlen Hl1 H. unfold fat_line in H.
  destruct (implicit_line_spec x0 xs y0 ys) as [a' [b' [c' [E [Ha [Hb Hc]]]]]]. rewrite E in H.
  set (ds := dists a' b' c' (x0 :: xs) (y0 :: ys)) in *.
  destruct (fat_fold_spec (interior ds) 0 0 ltac:(lra)) as [A [B C]].
  remember (fold_left fat_step (interior ds) (0, 0)) as r eqn:Er. clear Er.
  injection H as <- <- <- Hlo Hhi. rewrite Hlo in A, C. rewrite Hhi in B, C.
  repeat split; try assumption. fold ds.
  assert (Hdl : List.length ds = S (List.length xs)) by (unfold ds; rewrite dists_length; cbn [List.length]; lia).
  rewrite (list_ends 0 ds) by lia. constructor; [|apply Forall_app; split; [exact C|constructor; [|constructor]]].
  - unfold ds, dists. cbn [zipw hd]. rewrite Ha, Hb, Hc. split.
    + apply Qle_trans with 0; [exact A|]. apply Qle_lteq. right. ring.
    + apply Qle_trans with 0; [|exact B]. apply Qle_lteq. right. ring.
  - unfold ds. rewrite dists_last by (cbn [List.length]; try lia; discriminate). rewrite Ha, Hb, Hc. split.
    + apply Qle_trans with 0; [exact A|]. apply Qle_lteq. right. ring.
    + apply Qle_trans with 0; [|exact B]. apply Qle_lteq. right. ring.
Qed.

(* ---------------- clip_range: the loop over the chords ---------------- *)
Lemma qn_le i j : (i <= j)%nat -> qn i <= qn j.
Proof. intros H. unfold qn. rewrite <- Zle_Qle. lia. Qed.
Lemma qn_lt i j : (i < j)%nat -> qn i < qn j.
Proof. intros H. unfold qn. rewrite <- Zlt_Qlt. lia. Qed.

(* what the returned pair (S, S') knows about the chord (i, j) of the distance polygon:  the chord is not parallel to the fat
   line, and wherever it meets one of the two lines d = lo, d = hi the abscissa (in units of 1/m) lies in [S, S'] *)
Definition chord_ok (m : nat) (lo hi : Q) (poly : list Q) (S S' : Q) (ij : nat * nat) : Prop :=
  let di := nth (fst ij) poly 0 in let dj := nth (snd ij) poly 0 in
  ~ dj == di /\
  forall l t, l = lo \/ l = hi -> t * (dj - di) == l - di -> 0 <= t <= 1 ->
    S * qn m <= qn (fst ij) + t * (qn (snd ij) - qn (fst ij)) <= S' * qn m.

Lemma fold_err m lo hi poly e : forall ps, fold_left (upd2 m lo hi poly) ps (VErr e) = VErr e.
Proof. induction ps as [|ij ps IH]; [reflexivity|]. cbn [fold_left]. exact IH. Qed.

Lemma one_line (m : nat) (l xi xj di dj smin smax : Q) : (0 < m)%nat -> 0 <= xi -> xi < xj -> xj <= qn m ->
  (~ dj == di /\ exists a1 b1,
    py__update_parameters (VQ smin) (VQ smax) (V2 0 l) (V2 (qn m) l) (V2 xi di) (V2 xj dj) = VTup [VQ a1; VQ b1] /\
    a1 <= smin /\ smax <= b1 /\
    forall t, t * (dj - di) == l - di -> 0 <= t <= 1 -> a1 * qn m <= xi + t * (xj - xi) <= b1 * qn m) \/
  (py__update_parameters (VQ smin) (VQ smax) (V2 0 l) (V2 (qn m) l) (V2 xi di) (V2 xj dj) = VErr "NotImplementedError").
Proof.
  intros Hm Hxi Hij Hxj.
  assert (Hmq : 0 < qn m) by (apply (qn_lt 0 m); exact Hm).
  destruct (update_parameters_spec smin smax (qn m) l xi di xj dj) as [Hpar Hok].
  destruct (Qeq_dec ((qn m - 0) * (dj - di) - (l - l) * (xj - xi)) 0) as [Hc|Hc]; [right; apply Hpar; exact Hc|].
  left. assert (Hd : ~ dj == di).
  { intros E. apply Hc. rewrite E. ring. }
  split; [exact Hd|].
  destruct (Hok Hc) as [s [t0 [a1 [b1 [E [Hs [Ht [Ha [Hb [Hlo Hhi]]]]]]]]]].
  exists a1, b1. split; [exact E|]. split; [exact Ha|]. split; [exact Hb|].
  intros t Ht' Ht01.
  assert (Heq : t == t0).
  { assert (Hz : (t - t0) * (dj - di) == 0) by lra.
    apply Qmult_integral in Hz. destruct Hz as [Hz|Hz]; [lra|]. exfalso. apply Hd. lra. }
  assert (Hprod : t * (xj - xi) == t0 * (xj - xi)) by (rewrite Heq; reflexivity).
  assert (Ht0 : 0 <= t0 <= 1) by lra.
  assert (Hp1 : 0 <= t0 * (xj - xi)) by (apply Qmult_le_0_compat; lra).
  assert (Hp2 : t0 * (xj - xi) <= xj - xi).
  { assert (0 <= (1 - t0) * (xj - xi)) by (apply Qmult_le_0_compat; lra). lra. }
  assert (Hs0 : 0 <= s).
  { destruct (Qlt_le_dec s 0) as [Hn|Hn]; [|exact Hn]. exfalso.
    assert (0 <= (- s) * qn m) by (apply Qmult_le_0_compat; lra).
    assert (Hsm : 0 <= s * qn m) by lra.
    assert (Hz : s * qn m == 0) by lra. apply Qmult_integral in Hz. destruct Hz; lra. }
  assert (Hs1 : s <= 1).
  { destruct (Qlt_le_dec 1 s) as [Hn|Hn]; [|exact Hn]. exfalso.
    assert (0 < (s - 1) * qn m) by (apply Qmult_lt_0_compat; lra). lra. }
  specialize (Hlo Ht0 Hs0). specialize (Hhi Ht0 Hs1).
  assert (0 <= (s - a1) * qn m) by (apply Qmult_le_0_compat; lra).
  assert (0 <= (b1 - s) * qn m) by (apply Qmult_le_0_compat; lra).
  split; lra.
Qed.

Lemma clip_fold_spec (m : nat) lo hi poly : (0 < m)%nat -> forall ps a b S S',
  (forall ij, In ij ps -> (fst ij < snd ij <= m)%nat) ->
  fold_left (upd2 (qn m) lo hi poly) ps (VTup [VQ a; VQ b]) = VTup [VQ S; VQ S'] ->
  S <= a /\ b <= S' /\ forall ij, In ij ps -> chord_ok m lo hi poly S S' ij.
Proof.
  intros Hm. assert (Hmq : 0 < qn m) by (apply (qn_lt 0 m); exact Hm).
  induction ps as [|ij ps IH]; intros a b S S' Hps H.
  - cbn [fold_left] in H. injection H as <- <-. split; [lra|split; [lra|intros q Hq; destruct Hq]].
  - cbn [fold_left] in H.
    assert (Hij := Hps ij (or_introl eq_refl)).
    assert (Hxi : 0 <= qn (fst ij)) by (apply (qn_le 0); lia).
    assert (Hxij : qn (fst ij) < qn (snd ij)) by (apply qn_lt; lia).
    assert (Hxj : qn (snd ij) <= qn m) by (apply qn_le; lia).
    unfold upd2 at 2 in H.
    destruct (one_line m lo (qn (fst ij)) (qn (snd ij)) (nth (fst ij) poly 0) (nth (snd ij) poly 0) a b Hm Hxi Hxij Hxj)
      as [[Hd [a1 [b1 [E1 [Ha1 [Hb1 Hc1]]]]]]|E1]; rewrite E1 in H; [|rewrite fold_err in H; discriminate].
    destruct (one_line m hi (qn (fst ij)) (qn (snd ij)) (nth (fst ij) poly 0) (nth (snd ij) poly 0) a1 b1 Hm Hxi Hxij Hxj)
      as [[_ [a2 [b2 [E2 [Ha2 [Hb2 Hc2]]]]]]|E2]; rewrite E2 in H; [|rewrite fold_err in H; discriminate].
    destruct (IH a2 b2 S S' (fun q Hq => Hps q (or_intror Hq)) H) as [HS [HS' Hrest]].
    split; [lra|]. split; [lra|].
    intros q [<-|Hq]; [|apply Hrest; exact Hq].
    split; [exact Hd|]. intros l t Hl Ht Ht01. destruct Hl as [Hl|Hl]; subst l.
    + destruct (Hc1 t Ht Ht01) as [L U].
      assert (0 <= (a1 - S) * qn m) by (apply Qmult_le_0_compat; lra).
      assert (0 <= (S' - b1) * qn m) by (apply Qmult_le_0_compat; lra). split; lra.
    + destruct (Hc2 t Ht Ht01) as [L U].
      assert (0 <= (a2 - S) * qn m) by (apply Qmult_le_0_compat; lra).
      assert (0 <= (S' - b2) * qn m) by (apply Qmult_le_0_compat; lra). split; lra.
Qed.

Lemma in_pairs m i j : In (i, j) (pairs m) <-> (i < j <= m)%nat.
Proof.
  unfold pairs. rewrite in_flat_map. split.
  - intros [i' [Hi Hj]]. apply in_seq in Hi. apply in_map_iff in Hj. destruct Hj as [j' [E Hj']]. injection E as <- <-.
    apply in_seq in Hj'. lia.
  - intros H. exists i. split; [apply in_seq; lia|]. apply in_map_iff. exists j. split; [reflexivity|]. apply in_seq. lia.
Qed.

Theorem clip_poly_spec lo hi poly S S' : (2 <= List.length poly)%nat -> clip_poly lo hi poly = VTup [VQ S; VQ S'] ->
  (in_band lo hi (nth 0 poly 0) = true -> S <= 0) /\
  (in_band lo hi (nth (List.length poly - 1) poly 0) = true -> 1 <= S') /\
  forall i j, (i < j <= List.length poly - 1)%nat -> chord_ok (List.length poly - 1) lo hi poly S S' (i, j).
Proof.
  intros Hl H. unfold clip_poly, clip_init in H.
  apply clip_fold_spec in H; [|lia|intros [i j] Hin; apply in_pairs in Hin; exact Hin].
  destruct H as [HS [HS' Hc]]. split; [|split].
  - intros Hb. rewrite Hb in HS. exact HS.
  - intros Hb. rewrite Hb in HS'. exact HS'.
  - intros i j Hij. apply Hc. apply in_pairs. exact Hij.
Qed.

(* the same fact for a chord given in either orientation *)
Lemma chord_any (m : nat) lo hi poly S S' :
  (forall i j, (i < j <= m)%nat -> chord_ok m lo hi poly S S' (i, j)) ->
  forall i j l t, (i <= m)%nat -> (j <= m)%nat -> l = lo \/ l = hi -> ~ nth j poly 0 == nth i poly 0 ->
  t * (nth j poly 0 - nth i poly 0) == l - nth i poly 0 -> 0 <= t <= 1 ->
  S * qn m <= qn i + t * (qn j - qn i) <= S' * qn m.
Proof.
  intros H i j l t Hi Hj Hl Hne Ht Ht01.
  destruct (Nat.lt_trichotomy i j) as [Hlt|[Heq|Hgt]].
  - destruct (H i j ltac:(lia)) as [_ Hc]. exact (Hc l t Hl Ht Ht01).
  - subst j. exfalso. apply Hne. reflexivity.
  - destruct (H j i ltac:(lia)) as [_ Hc]. cbn [fst snd] in Hc.
    assert (Ht' : (1 - t) * (nth i poly 0 - nth j poly 0) == l - nth j poly 0) by lra.
    specialize (Hc l (1 - t) Hl Ht' ltac:(lra)). lra.
Qed.
