(* C03: one round of the subdivision stage never drops a common point of two curves (exact arithmetic).
   A candidate pair (c1 on [a1,b1], c2 on [a2,b2]) "covers" a common point B1(s) = B2(t) when c1, c2 are the restrictions of
   the original curves to intervals containing s and t.  Then
     (1) no pair of closed boxes containing the control points of c1 and c2 is disjoint - in particular the REGENERATED
         bbox_intersect does not answer DISJOINT on the covering pair (rational control points, real parameters);
     (2) one of the (at most four) pairs of halves produced by subdivide covers the point again.
   What is NOT covered: a candidate replaced by its chord (a Linearization with non-zero error) and the two end-games. *)
From Coq Require Import List Arith Lia ZArith QArith Qreals Reals Lra String.
From BZ Require Import Base.Ops Base.RInst Base.PyVal Model.Curve Theory.CurveEval Theory.CurveEvalExtra Theory.CurveSubdiv
  Theory.LocateTheory Gen.PyFnHelpers Gen.PyFnGeometric Theory.Predicates.
Import ListNotations.
Local Open Scope R_scope.

(* (cx, cy) is the restriction of the planar curve (ox, oy) to [a, b] *)
Definition Restr (ox oy cx cy : list R) (a b : R) : Prop :=
  Inv ox cx a b /\ Inv oy cy a b /\ (2 <= List.length cx)%nat /\ (2 <= List.length cy)%nat /\ a < b.

Lemma child_covers ox oy cx cy a b s : Restr ox oy cx cy a b -> a <= s <= b ->
  (Restr ox oy (subdivide_left ROps cx) (subdivide_left ROps cy) a ((a + b) / 2) /\ a <= s <= (a + b) / 2) \/
  (Restr ox oy (subdivide_right ROps cx) (subdivide_right ROps cy) ((a + b) / 2) b /\ (a + b) / 2 <= s <= b).
Proof.
  intros [Hx [Hy [Lx [Ly Hab]]]] Hs.
  destruct (Rle_dec s ((a + b) / 2)) as [Hm|Hm].
  - left. split; [|lra]. unfold Restr. repeat split.
    + apply Inv_left; assumption.
    + apply Inv_left; assumption.
    + rewrite subdivide_left_length. lia.
    + rewrite subdivide_left_length. lia.
    + lra.
  - right. split; [|lra]. unfold Restr. repeat split.
    + apply Inv_right; assumption.
    + apply Inv_right; assumption.
    + rewrite subdivide_right_length. lia.
    + rewrite subdivide_right_length. lia.
    + lra.
Qed.

(* the whole curve is its own restriction to [0,1] (the initial candidate) *)
Lemma Restr_initial ox oy : (2 <= List.length ox)%nat -> (2 <= List.length oy)%nat -> Restr ox oy ox oy 0 1.
Proof. intros Hx Hy. unfold Restr, Inv. repeat split; try assumption; try lra; intros sg; f_equal; lra. Qed.

Section Pair.
Variables (o1x o1y o2x o2y c1x c1y c2x c2y : list R) (a1 b1 a2 b2 s t : R).
Hypothesis R1 : Restr o1x o1y c1x c1y a1 b1.
Hypothesis R2 : Restr o2x o2y c2x c2y a2 b2.
Hypothesis Hs : a1 <= s <= b1.
Hypothesis Ht : a2 <= t <= b2.
Hypothesis Ex : B o1x s = B o2x t.
Hypothesis Ey : B o1y s = B o2y t.

(* (1) boxes of the covering pair are never disjoint *)
Theorem covering_pair_boxes_meet l1 r1 bb1 t1 l2 r2 bb2 t2 :
  within l1 r1 c1x -> within bb1 t1 c1y -> within l2 r2 c2x -> within bb2 t2 c2y ->
  ~ (r2 < l1 \/ r1 < l2 \/ t2 < bb1 \/ t1 < bb2).
Proof.
  intros W1 W2 W3 W4 Hd.
  destruct R1 as [H1x [H1y [L1x [L1y Hab1]]]]. destruct R2 as [H2x [H2y [L2x [L2y Hab2]]]].
  assert (N1 : c1x <> []) by (destruct c1x; [cbn [List.length] in L1x; lia|discriminate]).
  assert (N2 : c1y <> []) by (destruct c1y; [cbn [List.length] in L1y; lia|discriminate]).
  assert (N3 : c2x <> []) by (destruct c2x; [cbn [List.length] in L2x; lia|discriminate]).
  assert (N4 : c2y <> []) by (destruct c2y; [cbn [List.length] in L2y; lia|discriminate]).
  pose proof (Inv_in_box o1x c1x a1 b1 s N1 H1x Hab1 Hs l1 r1 W1) as P1.
  pose proof (Inv_in_box o1y c1y a1 b1 s N2 H1y Hab1 Hs bb1 t1 W2) as P2.
  pose proof (Inv_in_box o2x c2x a2 b2 t N3 H2x Hab2 Ht l2 r2 W3) as P3.
  pose proof (Inv_in_box o2y c2y a2 b2 t N4 H2y Hab2 Ht bb2 t2 W4) as P4.
  rewrite Ex in P1. rewrite Ey in P2. destruct Hd as [H|[H|[H|H]]]; lra.
Qed.

(* (2) one of the four pairs of halves covers the point again *)
Theorem covering_pair_has_a_covering_child :
  exists c1x' c1y' a1' b1' c2x' c2y' a2' b2',
    In (c1x', c1y', a1', b1') [(subdivide_left ROps c1x, subdivide_left ROps c1y, a1, (a1 + b1) / 2);
                               (subdivide_right ROps c1x, subdivide_right ROps c1y, (a1 + b1) / 2, b1)] /\
    In (c2x', c2y', a2', b2') [(subdivide_left ROps c2x, subdivide_left ROps c2y, a2, (a2 + b2) / 2);
                               (subdivide_right ROps c2x, subdivide_right ROps c2y, (a2 + b2) / 2, b2)] /\
    Restr o1x o1y c1x' c1y' a1' b1' /\ Restr o2x o2y c2x' c2y' a2' b2' /\ a1' <= s <= b1' /\ a2' <= t <= b2'.
Proof.
  destruct (child_covers o1x o1y c1x c1y a1 b1 s R1 Hs) as [[A1 A2]|[A1 A2]];
  destruct (child_covers o2x o2y c2x c2y a2 b2 t R2 Ht) as [[B1 B2]|[B1 B2]];
  do 8 eexists; (split; [|split; [|split; [exact A1|split; [exact B1|split; [exact A2|exact B2]]]]]);
  cbn [In]; auto.
Qed.
End Pair.

(* ---------------- the regenerated bbox_intersect on rational nets ---------------- *)
Local Open Scope Q_scope.
Lemma bbox_intersect_disjoint_boxes x10 x1 y10 y1 x20 x2 y20 y2 :
  py_bbox_intersect (vq_mat [x10 :: x1; y10 :: y1]) (vq_mat [x20 :: x2; y20 :: y2]) = VEnum "DISJOINT" ->
  exists l1 r1 b1 t1 l2 r2 b2 t2 : Q,
    (forall x, In x (x10 :: x1) -> l1 <= x <= r1) /\ (forall y, In y (y10 :: y1) -> b1 <= y <= t1) /\
    (forall x, In x (x20 :: x2) -> l2 <= x <= r2) /\ (forall y, In y (y20 :: y2) -> b2 <= y <= t2) /\
    (r2 < l1 \/ r1 < l2 \/ t2 < b1 \/ t1 < b2).
Proof.
  intros H.
  destruct (bbox_spec x10 x1 y10 y1) as [l1 [r1 [b1 [t1 [E1 [Hx1 [Hy1 _]]]]]]].
  destruct (bbox_spec x20 x2 y20 y2) as [l2 [r2 [b2 [t2 [E2 [Hx2 [Hy2 _]]]]]]].
  rewrite (bbox_intersect_spec _ _ _ _ _ _ _ _ _ _ E1 E2) in H.
  exists l1, r1, b1, t1, l2, r2, b2, t2. repeat (split; [assumption|]).
  unfold bbox_intersect_boxes in H.
  destruct (Qltb r2 l1) eqn:F1; [apply Qltb_lt in F1; left; exact F1|].
  destruct (Qltb r1 l2) eqn:F2; [apply Qltb_lt in F2; right; left; exact F2|].
  destruct (Qltb t2 b1) eqn:F3; [apply Qltb_lt in F3; right; right; left; exact F3|].
  destruct (Qltb t1 b2) eqn:F4; [apply Qltb_lt in F4; right; right; right; exact F4|].
  cbn [orb] in H. destruct (Qeqb r2 l1 || Qeqb r1 l2 || Qeqb t2 b1 || Qeqb t1 b2)%bool; discriminate.
Qed.

Lemma within_Q2R (l r : Q) (xs : list Q) : (forall x, In x xs -> l <= x <= r) -> within (Q2R l) (Q2R r) (map Q2R xs).
Proof.
  intros H. unfold within. apply Forall_forall. intros y Hy. apply in_map_iff in Hy. destruct Hy as [x [<- Hx]].
  destruct (H x Hx) as [A C]. split; apply Qle_Rle; assumption.
Qed.

(* the regenerated bbox_intersect never answers DISJOINT on the pair that covers a common point *)
Theorem covering_pair_is_not_classified_disjoint
  (o1x o1y o2x o2y : list R) (x10 : Q) (x1 : list Q) (y10 : Q) (y1 : list Q) (x20 : Q) (x2 : list Q) (y20 : Q) (y2 : list Q)
  (a1 b1 a2 b2 s t : R) :
  Restr o1x o1y (map Q2R (x10 :: x1)) (map Q2R (y10 :: y1)) a1 b1 ->
  Restr o2x o2y (map Q2R (x20 :: x2)) (map Q2R (y20 :: y2)) a2 b2 ->
  (a1 <= s <= b1)%R -> (a2 <= t <= b2)%R -> B o1x s = B o2x t -> B o1y s = B o2y t ->
  py_bbox_intersect (vq_mat [x10 :: x1; y10 :: y1]) (vq_mat [x20 :: x2; y20 :: y2]) <> VEnum "DISJOINT".
Proof.
  intros R1 R2 Hs Ht Ex Ey H.
  destruct (bbox_intersect_disjoint_boxes _ _ _ _ _ _ _ _ H) as [l1 [r1 [b1' [t1 [l2 [r2 [b2' [t2 [W1 [W2 [W3 [W4 Hd]]]]]]]]]]]].
  apply (covering_pair_boxes_meet o1x o1y o2x o2y _ _ _ _ a1 b1 a2 b2 s t R1 R2 Hs Ht Ex Ey
           (Q2R l1) (Q2R r1) (Q2R b1') (Q2R t1) (Q2R l2) (Q2R r2) (Q2R b2') (Q2R t2));
    try (apply within_Q2R; assumption).
  destruct Hd as [D|[D|[D|D]]]; apply Qlt_Rlt in D; auto.
Qed.

(* ---------------- end-point hits (tangent_bbox_intersection / endpoint_check) ----------------
   The end nodes of a restriction are the points of the ORIGINAL curve at the ends of its parameter interval, so when the two
   end nodes compared by endpoint_check are equal, the lifted parameters (1-s) start + s end, s in {0,1}, are a genuine
   common point of the original curves. *)
Local Open Scope R_scope.
Lemma RLaws01 : Laws01 ROps.
Proof. constructor; intros x; cbn [oadd omul o0 o1 ROps]; lra. Qed.
Lemma B_at_0 (c : list R) : c <> [] -> B c 0 = hd 0 c.
Proof.
  intros Hne. unfold B. replace (1 - 0) with 1 by lra.
  rewrite <- (eval_dc_correct ROps RRing) by exact Hne. apply (eval_dc_at_0 ROps RLaws01). exact Hne.
Qed.
Lemma B_at_1 (c : list R) : c <> [] -> B c 1 = last c 0.
Proof.
  intros Hne. unfold B. replace (1 - 1) with 0 by lra.
  rewrite <- (eval_dc_correct ROps RRing) by exact Hne. apply (eval_dc_at_1 ROps RLaws01). exact Hne.
Qed.
Lemma Restr_ends ox oy cx cy a b : Restr ox oy cx cy a b ->
  B ox a = hd 0 cx /\ B ox b = last cx 0 /\ B oy a = hd 0 cy /\ B oy b = last cy 0.
Proof.
  intros (Hx & Hy & Lx & Ly & _).
  assert (Nx : cx <> []) by (destruct cx; [cbn [List.length] in Lx; lia|discriminate]).
  assert (Ny : cy <> []) by (destruct cy; [cbn [List.length] in Ly; lia|discriminate]).
  repeat split.
  - rewrite <- (B_at_0 cx Nx), (Hx 0). f_equal. lra.
  - rewrite <- (B_at_1 cx Nx), (Hx 1). f_equal. lra.
  - rewrite <- (B_at_0 cy Ny), (Hy 0). f_equal. lra.
  - rewrite <- (B_at_1 cy Ny), (Hy 1). f_equal. lra.
Qed.

(* end node of a restriction: s = false -> first node, s = true -> last node; and the lifted parameter *)
Definition end_node (c : list R) (s : bool) : R := if s then last c 0 else hd 0 c.
Definition lift (a b : R) (s : bool) : R := (1 - (if s then 1 else 0)) * a + (if s then 1 else 0) * b.
Theorem endpoint_hit_is_genuine o1x o1y o2x o2y c1x c1y c2x c2y a1 b1 a2 b2 (s t : bool) :
  Restr o1x o1y c1x c1y a1 b1 -> Restr o2x o2y c2x c2y a2 b2 ->
  end_node c1x s = end_node c2x t -> end_node c1y s = end_node c2y t ->
  B o1x (lift a1 b1 s) = B o2x (lift a2 b2 t) /\ B o1y (lift a1 b1 s) = B o2y (lift a2 b2 t).
Proof.
  intros R1 R2 Ex Ey.
  destruct (Restr_ends _ _ _ _ _ _ R1) as (A1 & A2 & A3 & A4).
  destruct (Restr_ends _ _ _ _ _ _ R2) as (B1 & B2 & B3 & B4).
  unfold lift, end_node in *.
  destruct s, t;
    repeat match goal with |- context [(1 - 1) * ?a + 1 * ?b] => replace ((1 - 1) * a + 1 * b) with b by lra end;
    repeat match goal with |- context [(1 - 0) * ?a + 0 * ?b] => replace ((1 - 0) * a + 0 * b) with a by lra end;
    split; congruence.
Qed.
