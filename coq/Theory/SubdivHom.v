(* The generic subdivision (make_subdivision_matrices form) commutes with Qc -> R: the executed halves, read as real nets, are
   the real halves of the real net.  Used to state the C03 round theorem about the executable model. *)
From Coq Require Import List Arith QArith Qcanon Reals Qreals Lia Lra.
From BZ Require Import Base.Ops Base.QcInst Base.RInst Model.Curve Theory.Hom.
Import ListNotations.

Lemma Qc2R_1 : Qc2R (o1 QcOps) = 1%R.
Proof. unfold Qc2R. cbn. unfold Q2R. cbn. lra. Qed.
Lemma Qc2R_0 : Qc2R (o0 QcOps) = 0%R.
Proof. exact (hom0 _ _ _ Qc2R_hom). Qed.
Lemma Qc2R_half : Qc2R (half QcOps) = half ROps.
Proof. unfold half. cbn [odiv oadd o1 QcOps ROps]. unfold Qc2R. vm_compute this. unfold Q2R. cbn. lra. Qed.

Lemma zipw_add_hom : forall (a b : list Qc),
  map Qc2R (zipw (oadd QcOps) a b) = zipw (oadd ROps) (map Qc2R a) (map Qc2R b).
Proof.
  induction a as [|x a IH]; intros [|y b]; cbn [zipw map]; try reflexivity.
  rewrite IH, (hom_add _ _ _ Qc2R_hom). reflexivity.
Qed.
Lemma next_left_col_hom c : map Qc2R (next_left_col QcOps c) = next_left_col ROps (map Qc2R c).
Proof.
  unfold next_left_col. rewrite zipw_add_hom. cbn [map]. rewrite map_app. cbn [map]. rewrite !map_map, Qc2R_0.
  assert (E : map (fun x => Qc2R (omul QcOps (half QcOps) x)) c = map (fun x => omul ROps (half ROps) (Qc2R x)) c).
  { apply map_ext. intros x. rewrite (hom_mul _ _ _ Qc2R_hom), Qc2R_half. reflexivity. }
  rewrite E. reflexivity.
Qed.
Lemma left_cols_aux_hom : forall k c,
  map (map Qc2R) (left_cols_aux QcOps k c) = left_cols_aux ROps k (map Qc2R c).
Proof.
  induction k as [|k IH]; intros c; cbn [left_cols_aux map]; [reflexivity|].
  rewrite IH, next_left_col_hom. reflexivity.
Qed.
Lemma left_cols_raw_hom n : map (map Qc2R) (left_cols_raw QcOps n) = left_cols_raw ROps n.
Proof. unfold left_cols_raw. rewrite left_cols_aux_hom. cbn [map]. rewrite Qc2R_1. reflexivity. Qed.
Lemma repeat_hom k : map Qc2R (repeat (o0 QcOps) k) = repeat (o0 ROps) k.
Proof. induction k as [|k IH]; cbn [repeat map]; [reflexivity|]. rewrite IH, Qc2R_0. reflexivity. Qed.
Lemma left_cols_hom n : map (map Qc2R) (left_cols QcOps n) = left_cols ROps n.
Proof.
  unfold left_cols. rewrite <- left_cols_raw_hom, !map_map. apply map_ext. intros c.
  unfold pad. rewrite map_app, repeat_hom, map_length. reflexivity.
Qed.
Lemma right_cols_hom n : map (map Qc2R) (right_cols QcOps n) = right_cols ROps n.
Proof.
  unfold right_cols. rewrite <- left_cols_raw_hom, map_rev, !map_map. f_equal. apply map_ext. intros c.
  rewrite map_app, repeat_hom, map_length. reflexivity.
Qed.

Theorem subdivide_left_hom v : map Qc2R (subdivide_left QcOps v) = subdivide_left ROps (map Qc2R v).
Proof. unfold subdivide_left. rewrite (matvec_hom QcOps ROps Qc2R Qc2R_hom), left_cols_hom, map_length. reflexivity. Qed.
Theorem subdivide_right_hom v : map Qc2R (subdivide_right QcOps v) = subdivide_right ROps (map Qc2R v).
Proof. unfold subdivide_right. rewrite (matvec_hom QcOps ROps Qc2R Qc2R_hom), right_cols_hom, map_length. reflexivity. Qed.
