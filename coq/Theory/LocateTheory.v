(* C10 (curves, exact arithmetic over R): the bisection of locate_point never prunes the candidate that contains the
   parameter of a point ON the curve: at every depth the point lies in the closed bounding box of the sub-curve
   whose parameter interval contains s*.  Every degree >= 1, every dimension. *)
From Coq Require Import List Arith Lia Reals Lra.
From BZ Require Import Base.Ops Base.RInst Model.Curve Theory.CurveEval Theory.CurveEvalExtra Theory.CurveSubdiv.
Import ListNotations.
Open Scope R_scope.

Definition B (v : list R) (s : R) : R := bernstein ROps v (1 - s) s.
(* c is the restriction of orig to [a, b] *)
Definition Inv (orig c : list R) (a b : R) : Prop := forall sg, B c sg = B orig (a + (b - a) * sg).
(* x lies in every closed interval that contains all control values of the row: min(row) <= x <= max(row) *)
Definition in_row_box (row : list R) (x : R) : Prop := forall lo hi, within lo hi row -> lo <= x <= hi.

Lemma half_R : half ROps = / 2.
Proof. unfold half. cbn [odiv oadd o1 ROps]. lra. Qed.

Lemma Inv_left orig c a b : (2 <= length c)%nat -> Inv orig c a b -> Inv orig (subdivide_left ROps c) a ((a + b) / 2).
Proof.
  intros Hl H sg. unfold B. rewrite (subdivide_left_is_specialize ROps RField RChar0) by exact Hl.
  change (1 - sg) with (osub ROps (o1 ROps) sg).
  rewrite (specialize_correct ROps RRing c (o0 ROps) (half ROps) sg Hl).
  cbn [osub oadd omul o0 o1 ROps]. rewrite half_R.
  replace ((1 - sg) * 0 + sg * / 2) with (sg / 2) by lra.
  specialize (H (sg / 2)). unfold B in H. rewrite H. f_equal; lra.
Qed.
Lemma Inv_right orig c a b : (2 <= length c)%nat -> Inv orig c a b -> Inv orig (subdivide_right ROps c) ((a + b) / 2) b.
Proof.
  intros Hl H sg. unfold B. rewrite (subdivide_right_is_specialize ROps RField RChar0) by exact Hl.
  change (1 - sg) with (osub ROps (o1 ROps) sg).
  rewrite (specialize_correct ROps RRing c (half ROps) (o1 ROps) sg Hl).
  cbn [osub oadd omul o0 o1 ROps]. rewrite half_R.
  replace ((1 - sg) * / 2 + sg * 1) with ((1 + sg) / 2) by lra.
  specialize (H ((1 + sg) / 2)). unfold B in H. rewrite H. f_equal; lra.
Qed.

Lemma subdivide_left_length (c : list R) : length (subdivide_left ROps c) = S (length c - 1).
Proof.
  unfold subdivide_left, matvec, left_cols. rewrite !map_length, (left_cols_raw_W ROps RField), map_length, seq_length. reflexivity.
Qed.
Lemma subdivide_right_length (c : list R) : length (subdivide_right ROps c) = S (length c - 1).
Proof.
  unfold subdivide_right, matvec, right_cols. rewrite map_length, rev_length, map_length, (left_cols_raw_W ROps RField), map_length, seq_length. reflexivity.
Qed.

Lemma Inv_in_box orig c a b s : c <> [] -> Inv orig c a b -> a < b -> a <= s <= b -> in_row_box c (B orig s).
Proof.
  intros Hne H Hab Hs lo hi Hw.
  set (sg := (s - a) / (b - a)).
  assert (Hsg : 0 <= sg <= 1).
  { unfold sg. split.
    - apply Rmult_le_pos; [lra|]. left. apply Rinv_0_lt_compat. lra.
    - apply (Rmult_le_reg_r (b - a)); [lra|]. unfold Rdiv. rewrite Rmult_assoc, Rinv_l by lra. lra. }
  replace s with (a + (b - a) * sg) by (unfold sg; field; lra).
  rewrite <- (H sg). unfold B. apply bernstein_in_hull; assumption.
Qed.

(* the chain of halvings that follows s*: at every depth the point is inside the box of the surviving candidate *)
Fixpoint survives (n : nat) (orig rows : list (list R)) (a b s : R) : Prop :=
  Forall2 (fun o c => in_row_box c (B o s)) orig rows /\
  match n with
  | O => True
  | S n' =>
      let m := (a + b) / 2 in
      (s <= m -> survives n' orig (map (subdivide_left ROps) rows) a m s) /\
      (m <= s -> survives n' orig (map (subdivide_right ROps) rows) m b s)
  end.

Theorem bisection_never_prunes_the_point : forall n orig rows a b s,
  Forall2 (fun o c => (2 <= length c)%nat /\ Inv o c a b) orig rows -> a < b -> a <= s <= b ->
  survives n orig rows a b s.
Proof.
  induction n as [|n IH]; intros orig rows a b s HF Hab Hs; cbn [survives].
  - split; [|exact I]. induction HF as [|o c os cs [Hl Hi] _ IHF]; constructor; [|exact IHF].
    apply (Inv_in_box o c a b s); try assumption. destruct c; simpl in Hl; [lia|discriminate].
  - split; [|split].
    + induction HF as [|o c os cs [Hl Hi] _ IHF]; constructor; [|exact IHF].
      apply (Inv_in_box o c a b s); try assumption. destruct c; simpl in Hl; [lia|discriminate].
    + intros Hm. apply IH; [|lra|lra].
      induction HF as [|o c os cs [Hl Hi] _ IHF]; cbn [map]; constructor; [|exact IHF].
      split; [rewrite subdivide_left_length; lia | apply Inv_left; assumption].
    + intros Hm. apply IH; [|lra|lra].
      induction HF as [|o c os cs [Hl Hi] _ IHF]; cbn [map]; constructor; [|exact IHF].
      split; [rewrite subdivide_right_length; lia | apply Inv_right; assumption].
Qed.

(* the whole curve is its own restriction to [0,1]: a point B(s0) with s0 in [0,1] is never lost, at any depth *)
Corollary on_curve_point_is_never_lost n (orig : list (list R)) s :
  Forall (fun o => (2 <= length o)%nat) orig -> 0 <= s <= 1 -> survives n orig orig 0 1 s.
Proof.
  intros Hl Hs. apply bisection_never_prunes_the_point; [|lra|exact Hs].
  induction orig as [|o os IH]; constructor.
  - inversion Hl; subst. split; [assumption|]. intros sg. f_equal; lra.
  - apply IH. inversion Hl; assumption.
Qed.
