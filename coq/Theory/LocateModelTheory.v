(* C10: the EXECUTABLE model of curve_helpers.locate_point (Model/Locate.v, corresponded with the code) never answers None for a
   point that is on the curve: at every round of the bisection the candidate list contains a candidate whose parameter interval
   contains the parameter of the point (exact data: rational control points, a rational point, a real parameter). *)
From Coq Require Import List Arith Lia ZArith QArith Qcanon Qreals Reals Lra Bool.
From BZ Require Import Base.Ops Base.QcInst Base.RInst Model.Curve Model.CurvePy Model.Deriv Gen.PyCurveHelpers Model.Locate
  Theory.CurveEval Theory.CurveSubdiv Theory.CurveTables Theory.CurveEvalExtra Theory.Hom Theory.SubdivHom Theory.LocateTheory.
Import ListNotations.
Local Open Scope R_scope.

Lemma Qc2R_le a b : (a <= b)%Qc -> Qc2R a <= Qc2R b.
Proof. intros H. unfold Qc2R. apply Qle_Rle. exact H. Qed.
Lemma leq_true a b : leq a b = true <-> (a <= b)%Qc.
Proof. unfold leq. rewrite Qle_bool_iff. reflexivity. Qed.
Lemma leq_false a b : leq a b = false -> (b <= a)%Qc.
Proof.
  unfold leq. intros H. apply Qclt_le_weak. apply Qcnot_le_lt. intros Hc. apply leq_true in Hc. unfold leq in Hc. congruence.
Qed.

Lemma fold_min_le : forall (r : list Qc) x y, In y (x :: r) ->
  (fold_left (fun a b => if Qle_bool (this a) (this b) then a else b) r x <= y)%Qc.
Proof.
  induction r as [|z r IH]; intros x y Hy; cbn [fold_left].
  - destruct Hy as [<-|[]]. apply Qcle_refl.
  - destruct (Qle_bool (this x) (this z)) eqn:E.
    + apply Qle_bool_iff in E. destruct Hy as [<-|[<-|Hy]].
      * apply IH. left. reflexivity.
      * apply Qcle_trans with x; [apply IH; left; reflexivity|exact E].
      * apply IH. right. exact Hy.
    + assert (Hz : (z <= x)%Qc) by (apply (leq_false x z); exact E).
      destruct Hy as [<-|[<-|Hy]].
      * apply Qcle_trans with z; [apply IH; left; reflexivity|exact Hz].
      * apply IH. left. reflexivity.
      * apply IH. right. exact Hy.
Qed.
Lemma fold_max_ge : forall (r : list Qc) x y, In y (x :: r) ->
  (y <= fold_left (fun a b => if Qle_bool (this a) (this b) then b else a) r x)%Qc.
Proof.
  induction r as [|z r IH]; intros x y Hy; cbn [fold_left].
  - destruct Hy as [<-|[]]. apply Qcle_refl.
  - destruct (Qle_bool (this x) (this z)) eqn:E.
    + apply Qle_bool_iff in E. destruct Hy as [<-|[<-|Hy]].
      * apply Qcle_trans with z; [exact E|apply IH; left; reflexivity].
      * apply IH. left. reflexivity.
      * apply IH. right. exact Hy.
    + assert (Hz : (z <= x)%Qc) by (apply (leq_false x z); exact E).
      destruct Hy as [<-|[<-|Hy]].
      * apply IH. left. reflexivity.
      * apply Qcle_trans with x; [exact Hz|apply IH; left; reflexivity].
      * apply IH. right. exact Hy.
Qed.
Lemma qmin_l_le l y : In y l -> (qmin_l l <= y)%Qc.
Proof. destruct l as [|x r]; [intros []|]. apply fold_min_le. Qed.
Lemma qmax_l_ge l y : In y l -> (y <= qmax_l l)%Qc.
Proof. destruct l as [|x r]; [intros []|]. apply fold_max_ge. Qed.

(* the candidate (a, b, rows) covers the parameter s of the curve with coordinate nets `orig`, and p is the point at s *)
Inductive Cov (a b s : R) : list (list R) -> list (list Qc) -> list Qc -> Prop :=
| Cov_nil : Cov a b s [] [] []
| Cov_cons o r x os rs xs :
    Inv o (map Qc2R r) a b -> (2 <= length r)%nat -> Qc2R x = B o s -> Cov a b s os rs xs ->
    Cov a b s (o :: os) (r :: rs) (x :: xs).

Lemma cov_contains a b s orig rows p : a < b -> a <= s <= b -> Cov a b s orig rows p -> contains_nd rows p = true.
Proof.
  intros Hab Hs H. unfold contains_nd. induction H as [|o r x os rs xs Hi Hl Hx _ IH]; [reflexivity|].
  cbn [combine forallb fst snd]. rewrite IH, andb_true_r.
  assert (Hne : map Qc2R r <> []) by (destruct r; [cbn [length] in Hl; lia|discriminate]).
  assert (Hw : within (Qc2R (qmin_l r)) (Qc2R (qmax_l r)) (map Qc2R r)).
  { unfold within. apply Forall_forall. intros y Hy. apply in_map_iff in Hy. destruct Hy as [z [<- Hz]].
    split; apply Qc2R_le; [apply qmin_l_le|apply qmax_l_ge]; exact Hz. }
  pose proof (Inv_in_box o (map Qc2R r) a b s Hne Hi Hab Hs _ _ Hw) as [L U]. rewrite <- Hx in L, U.
  apply andb_true_intro. split; apply leq_true; unfold Qcle; apply Rle_Qle; assumption.
Qed.
Lemma cov_left a b s orig rows p : Cov a b s orig rows p ->
  Cov a ((a + b) / 2) s orig (map fst (map subdivide_nodes_py rows)) p.
Proof.
  intros H. induction H as [|o r x os rs xs Hi Hl Hx _ IH]; [constructor|].
  cbn [map]. rewrite subdivide_nodes_py_generic. cbn [fst]. constructor; try assumption.
  - rewrite subdivide_left_hom. apply Inv_left; [rewrite map_length; exact Hl|exact Hi].
  - pose proof (subdivide_left_length (map Qc2R r)) as E. rewrite <- subdivide_left_hom, !map_length in E. lia.
Qed.
Lemma cov_right a b s orig rows p : Cov a b s orig rows p ->
  Cov ((a + b) / 2) b s orig (map snd (map subdivide_nodes_py rows)) p.
Proof.
  intros H. induction H as [|o r x os rs xs Hi Hl Hx _ IH]; [constructor|].
  cbn [map]. rewrite subdivide_nodes_py_generic. cbn [snd]. constructor; try assumption.
  - rewrite subdivide_right_hom. apply Inv_right; [rewrite map_length; exact Hl|exact Hi].
  - pose proof (subdivide_right_length (map Qc2R r)) as E. rewrite <- subdivide_right_hom, !map_length in E. lia.
Qed.

Definition CoverL (orig : list (list R)) (p : list Qc) (s : R) (c : cand) : Prop :=
  let '(a, b, rows) := c in Qc2R a < Qc2R b /\ Qc2R a <= s <= Qc2R b /\ Cov (Qc2R a) (Qc2R b) s orig rows p.

Lemma Qc2R_mid_half a b : Qc2R (half_q * (a + b))%Qc = (Qc2R a + Qc2R b) / 2.
Proof.
  unfold half_q. change (Q2Qc (1 # 2) * (a + b))%Qc with (omul QcOps (Q2Qc (1 # 2)) (oadd QcOps a b)).
  rewrite (hom_mul _ _ _ Qc2R_hom), (hom_add _ _ _ Qc2R_hom), Qc2R_Q2Qc. cbn [omul oadd ROps]. unfold Q2R. cbn. lra.
Qed.

Lemma round_keeps orig p s cands : (exists c, In c cands /\ CoverL orig p s c) ->
  exists c', In c' (locate_round p cands) /\ CoverL orig p s c'.
Proof.
  intros [[[a b] rows] [Hin (Hab & Hs & Hc)]].
  unfold locate_round.
  destruct (Rle_dec s ((Qc2R a + Qc2R b) / 2)) as [Hm|Hm].
  - exists (a, (half_q * (a + b))%Qc, map fst (map subdivide_nodes_py rows)). split.
    + apply in_flat_map. exists (a, b, rows). split; [exact Hin|]. rewrite (cov_contains _ _ _ _ _ _ Hab Hs Hc). left. reflexivity.
    + unfold CoverL. rewrite Qc2R_mid_half. split; [lra|]. split; [lra|]. apply cov_left. exact Hc.
  - exists ((half_q * (a + b))%Qc, b, map snd (map subdivide_nodes_py rows)). split.
    + apply in_flat_map. exists (a, b, rows). split; [exact Hin|]. rewrite (cov_contains _ _ _ _ _ _ Hab Hs Hc). right. left. reflexivity.
    + unfold CoverL. rewrite Qc2R_mid_half. split; [lra|]. split; [lra|]. apply cov_right. exact Hc.
Qed.

Theorem bisection_model_keeps_a_covering_candidate orig p s : forall n cands,
  (exists c, In c cands /\ CoverL orig p s c) -> exists c', In c' (iter (locate_round p) n cands) /\ CoverL orig p s c'.
Proof.
  induction n as [|n IH]; intros cands H; cbn [iter]; [exact H|]. apply IH. apply round_keeps. exact H.
Qed.

(* the initial candidate covers every parameter in [0,1] *)
Lemma cov_initial (rows : list (list Qc)) (p : list Qc) (s : R) :
  Forall (fun r => (2 <= length r)%nat) rows ->
  Forall2 (fun r x => Qc2R x = B (map Qc2R r) s) rows p ->
  Cov 0 1 s (map (map Qc2R) rows) rows p.
Proof.
  intros Hl H. induction H as [|r x rs xs Hx _ IH]; [constructor|]. inversion Hl as [|? ? Hr Hrs]; subst.
  cbn [map]. constructor; [|exact Hr|exact Hx|apply IH; exact Hrs].
  intros sg. f_equal; lra.
Qed.

(* a point ON the curve is never reported as "not on the curve" *)
Theorem locate_model_finds_points_of_the_curve (rows : list (list Qc)) (p : list Qc) (s : R) :
  Forall (fun r => (2 <= length r)%nat) rows -> 0 <= s <= 1 ->
  Forall2 (fun r x => Qc2R x = B (map Qc2R r) s) rows p ->
  locate_point_py rows p <> LNone.
Proof.
  intros Hl Hs Hp. unfold locate_point_py.
  assert (H0 : Qc2R (Q2Qc 0) = 0) by (rewrite Qc2R_Q2Qc; unfold Q2R; cbn; lra).
  assert (H1 : Qc2R (Q2Qc 1) = 1) by (rewrite Qc2R_Q2Qc; unfold Q2R; cbn; lra).
  destruct (bisection_model_keeps_a_covering_candidate (map (map Qc2R) rows) p s locate_rounds [(Q2Qc 0, Q2Qc 1, rows)]) as [c' [Hin _]].
  { exists (Q2Qc 0, Q2Qc 1, rows). split; [left; reflexivity|]. unfold CoverL. rewrite H0, H1.
    split; [lra|]. split; [exact Hs|]. apply cov_initial; assumption. }
  destruct (iter (locate_round p) locate_rounds [(Q2Qc 0, Q2Qc 1, rows)]) as [|c0 rest]; [destruct Hin|].
  destruct (negb (leq _ _)); [discriminate|].
  destruct (negb (leq _ _)); [discriminate|]. destruct (negb (leq _ _)); discriminate.
Qed.
