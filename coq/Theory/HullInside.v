(* C16 / C03: a point inside a strictly convex counter-clockwise polygon (on the left of, or on, every directed edge) projects, along
   any direction, between the projections of two vertices: a linear functional on the polygon is extremal at a vertex.
   Only the two edges at the extremal vertex are needed (no triangulation): the point lies in the cone spanned by them. *)
From Coq Require Import List ZArith QArith Qminmax Bool Lia Lqa.
From BZ Require Import Base.PyVal Model.Hull Theory.Predicates.
Import ListNotations.
Open Scope Q_scope.

(* the cone argument: A is the vertex with the largest value of f = cross d, u and w its neighbours *)
Lemma cone_bound (d u A w c : pt) :
  0 < cpc u A w -> 0 <= cpc u A c -> 0 <= cpc A w c ->
  cross d u <= cross d A -> cross d w <= cross d A -> cross d c <= cross d A.
Proof.
  destruct d as [d1 d2], u as [u1 u2], A as [a1 a2], w as [w1 w2], c as [c1 c2].
  unfold cpc, cross, psub. cbn [fst snd]. intros HD H1 H2 Hu Hw.
  (* D (f(A) - f(c)) = cpc(A,w,c) (f(A) - f(u)) + cpc(u,A,c) (f(A) - f(w)) *)
  assert (E : ((a1 - u1) * (w2 - u2) - (a2 - u2) * (w1 - u1)) * ((d1 * a2 - d2 * a1) - (d1 * c2 - d2 * c1))
              == ((w1 - a1) * (c2 - a2) - (w2 - a2) * (c1 - a1)) * ((d1 * a2 - d2 * a1) - (d1 * u2 - d2 * u1))
               + ((a1 - u1) * (c2 - u2) - (a2 - u2) * (c1 - u1)) * ((d1 * a2 - d2 * a1) - (d1 * w2 - d2 * w1))) by ring.
  set (D := (a1 - u1) * (w2 - u2) - (a2 - u2) * (w1 - u1)) in *.
  set (fA := d1 * a2 - d2 * a1) in *. set (fc := d1 * c2 - d2 * c1) in *.
  set (fu := d1 * u2 - d2 * u1) in *. set (fw := d1 * w2 - d2 * w1) in *.
  set (L2 := (w1 - a1) * (c2 - a2) - (w2 - a2) * (c1 - a1)) in *.
  set (L1 := (a1 - u1) * (c2 - u2) - (a2 - u2) * (c1 - u1)) in *.
  assert (P1 : 0 <= L2 * (fA - fu)) by (apply Qmult_le_0_compat; lra).
  assert (P2 : 0 <= L1 * (fA - fw)) by (apply Qmult_le_0_compat; lra).
  assert (P : 0 <= D * (fA - fc)) by lra.
  destruct (Qlt_le_dec fA fc) as [Hlt|Hle]; [|exact Hle]. exfalso.
  assert (0 < D * (fc - fA)) by (apply Qmult_lt_0_compat; lra). lra.
Qed.

(* arg-max of a function over a non-empty list *)
Lemma argmax_q {A} (f : A -> Q) : forall l : list A, l <> [] -> exists x, In x l /\ forall y, In y l -> f y <= f x.
Proof.
  induction l as [|a l IH]; intros Hne; [congruence|]. destruct l as [|b l'].
  - exists a. split; [left; reflexivity|]. intros y [<-|[]]. lra.
  - destruct (IH ltac:(discriminate)) as [x [Hx Hm]]. destruct (Qlt_le_dec (f x) (f a)) as [H|H].
    + exists a. split; [left; reflexivity|]. intros y [<-|Hy]; [lra|]. specialize (Hm y Hy). lra.
    + exists x. split; [right; exact Hx|]. intros y [<-|Hy]; [lra|apply Hm; exact Hy].
Qed.

(* ---------------- the cyclic structure used by strictly_convex_ccw / left_of_all_edges ---------------- *)
Definition prevs (poly : list pt) : list pt := last poly (0, 0) :: removelast poly.
Definition nexts (poly : list pt) : list pt := tl poly ++ [hd (0, 0) poly].
Lemma last_as_nth : forall (l : list pt) d, l <> [] -> last l d = nth (length l - 1) l d.
Proof.
  induction l as [|a l IH]; intros d H; [congruence|]. destruct l as [|b l']; [reflexivity|].
  change (last (a :: b :: l') d) with (last (b :: l') d). rewrite IH by discriminate. cbn [length]. 
  replace (S (S (length l')) - 1)%nat with (S (S (length l') - 1)) by lia. reflexivity.
Qed.
Lemma nth_removelast' : forall (l : list pt) k d, (S k < length l)%nat -> nth k (removelast l) d = nth k l d.
Proof.
  induction l as [|a l IH]; intros k d H; [cbn [length] in H; lia|]. destruct l as [|b l']; [cbn [length] in H; lia|].
  destruct k; [reflexivity|]. change (removelast (a :: b :: l')) with (a :: removelast (b :: l')). cbn [nth]. apply IH. cbn [length] in H |- *. lia.
Qed.
Lemma removelast_len (l : list pt) : length (removelast l) = (length l - 1)%nat.
Proof. induction l as [|a l IH]; [reflexivity|]. destruct l; [reflexivity|]. change (removelast (a :: p :: l)) with (a :: removelast (p :: l)). cbn [length] in *. rewrite IH. lia. Qed.
Lemma prevs_length poly : poly <> [] -> length (prevs poly) = length poly.
Proof. intros H. unfold prevs. cbn [length]. rewrite removelast_len. destruct poly; [congruence|]. cbn [length]. lia. Qed.
Lemma nexts_length poly : poly <> [] -> length (nexts poly) = length poly.
Proof. intros H. unfold nexts. rewrite app_length. destruct poly; [congruence|]. cbn [tl length]. lia. Qed.
Lemma nth_prevs poly i : (i < length poly)%nat ->
  nth i (prevs poly) (0, 0) = nth (if Nat.eqb i 0 then length poly - 1 else i - 1)%nat poly (0, 0).
Proof.
  intros Hi. assert (Hne : poly <> []) by (destruct poly; [cbn [length] in Hi; lia|discriminate]).
  unfold prevs. destruct i as [|k]; cbn [nth Nat.eqb].
  - apply last_as_nth. exact Hne.
  - rewrite nth_removelast' by lia. f_equal. lia.
Qed.
Lemma nth_nexts poly i : (i < length poly)%nat ->
  nth i (nexts poly) (0, 0) = nth (if Nat.eqb i (length poly - 1) then 0 else S i)%nat poly (0, 0).
Proof.
  intros Hi. unfold nexts. destruct poly as [|a l]; [cbn [length] in Hi; lia|]. cbn [tl hd length] in *.
  replace (S (length l) - 1)%nat with (length l) by lia.
  destruct (Nat.eqb i (length l)) eqn:E.
  - apply Nat.eqb_eq in E. subst i. rewrite app_nth2 by lia. rewrite Nat.sub_diag. reflexivity.
  - apply Nat.eqb_neq in E. rewrite app_nth1 by lia. reflexivity.
Qed.

(* every vertex has a predecessor u and a successor w with (u, v, w) among the triples and (u, v), (v, w) among the edges *)
Lemma vertex_neighbours (poly : list pt) (v : pt) : (3 <= length poly)%nat -> In v poly ->
  exists u w, In (u, v, w) (combine (combine (prevs poly) poly) (nexts poly)) /\
              In (u, v) (combine (prevs poly) poly) /\ In (v, w) (combine (prevs poly) poly) /\ In u poly /\ In w poly.
Proof.
  intros Hl Hv. assert (Hne : poly <> []) by (destruct poly; [cbn [length] in Hl; lia|discriminate]).
  destruct (In_nth poly v (0, 0) Hv) as [i [Hi Ei]].
  set (n := length poly) in *.
  set (ip := (if Nat.eqb i 0 then n - 1 else i - 1)%nat).
  set (is_ := (if Nat.eqb i (n - 1) then 0 else S i)%nat).
  assert (Hip : (ip < n)%nat) by (unfold ip; destruct (Nat.eqb i 0); lia).
  assert (His : (is_ < n)%nat) by (unfold is_; destruct (Nat.eqb i (n - 1)) eqn:E; [lia|apply Nat.eqb_neq in E; lia]).
  exists (nth ip poly (0, 0)), (nth is_ poly (0, 0)).
  assert (LP : length (prevs poly) = n) by (apply prevs_length; exact Hne).
  assert (LN : length (nexts poly) = n) by (apply nexts_length; exact Hne).
  assert (LC : length (combine (prevs poly) poly) = n) by (rewrite combine_length, LP; unfold n; lia).
  repeat split.
  - replace (nth ip poly (0, 0), v, nth is_ poly (0, 0))
      with (nth i (combine (combine (prevs poly) poly) (nexts poly)) ((0, 0), (0, 0), (0, 0))).
    + apply nth_In. repeat rewrite combine_length. rewrite LP, LN. fold n. lia.
    + rewrite combine_nth by (transitivity n; [exact LC|symmetry; exact LN]). rewrite combine_nth by (transitivity n; [exact LP|reflexivity]).
      apply (f_equal2 pair); [apply (f_equal2 pair); [exact (nth_prevs poly i Hi)|exact Ei]|exact (nth_nexts poly i Hi)].
  - replace (nth ip poly (0, 0), v) with (nth i (combine (prevs poly) poly) ((0, 0), (0, 0))).
    + apply nth_In. rewrite LC. exact Hi.
    + rewrite combine_nth by (transitivity n; [exact LP|reflexivity]). apply (f_equal2 pair); [exact (nth_prevs poly i Hi)|exact Ei].
  - replace (v, nth is_ poly (0, 0)) with (nth is_ (combine (prevs poly) poly) ((0, 0), (0, 0))).
    + apply nth_In. rewrite LC. exact His.
    + rewrite combine_nth by (transitivity n; [exact LP|reflexivity]).
      apply (f_equal2 pair); [|reflexivity]. rewrite <- Ei.
      transitivity (nth (if Nat.eqb is_ 0 then length poly - 1 else is_ - 1)%nat poly (0, 0)); [exact (nth_prevs poly is_ His)|].
      f_equal. unfold is_. fold n.
      destruct (Nat.eqb i (n - 1)) eqn:E.
      * apply Nat.eqb_eq in E. cbn [Nat.eqb]. lia.
      * apply Nat.eqb_neq in E. cbn [Nat.eqb]. lia.
  - apply nth_In. exact Hip.
  - apply nth_In. exact His.
Qed.
