(* C16 / C03: a point inside a strictly convex counter-clockwise polygon (on the left of, or on, every directed edge) projects, along
   any direction, between the projections of two vertices: a linear functional on the polygon is extremal at a vertex.
   Only the two edges at the extremal vertex are needed (no triangulation): the point lies in the cone spanned by them. *)
From Coq Require Import List ZArith QArith Qminmax Bool Lia Lqa.
From BZ Require Import Base.PyVal Model.Hull Theory.Predicates.
Import ListNotations.
Open Scope Q_scope.

(* the cone argument: A is the vertex with the largest value of f = cross d, u and w its neighbours *)
Lemma cone_bound (d u A w c : pt) :
  0 < cpc u A w -> 0 <= cpc u A c -> 0 <= cpc A w c ->
  cross d u <= cross d A -> cross d w <= cross d A -> cross d c <= cross d A.
Proof.
  destruct d as [d1 d2], u as [u1 u2], A as [a1 a2], w as [w1 w2], c as [c1 c2].
  unfold cpc, cross, psub. cbn [fst snd]. intros HD H1 H2 Hu Hw.
  (* D (f(A) - f(c)) = cpc(A,w,c) (f(A) - f(u)) + cpc(u,A,c) (f(A) - f(w)) *)
  assert (E : ((a1 - u1) * (w2 - u2) - (a2 - u2) * (w1 - u1)) * ((d1 * a2 - d2 * a1) - (d1 * c2 - d2 * c1))
              == ((w1 - a1) * (c2 - a2) - (w2 - a2) * (c1 - a1)) * ((d1 * a2 - d2 * a1) - (d1 * u2 - d2 * u1))
               + ((a1 - u1) * (c2 - u2) - (a2 - u2) * (c1 - u1)) * ((d1 * a2 - d2 * a1) - (d1 * w2 - d2 * w1))) by ring.
  set (D := (a1 - u1) * (w2 - u2) - (a2 - u2) * (w1 - u1)) in *.
  set (fA := d1 * a2 - d2 * a1) in *. set (fc := d1 * c2 - d2 * c1) in *.
  set (fu := d1 * u2 - d2 * u1) in *. set (fw := d1 * w2 - d2 * w1) in *.
  set (L2 := (w1 - a1) * (c2 - a2) - (w2 - a2) * (c1 - a1)) in *.
  set (L1 := (a1 - u1) * (c2 - u2) - (a2 - u2) * (c1 - u1)) in *.
  assert (P1 : 0 <= L2 * (fA - fu)) by (apply Qmult_le_0_compat; lra).
  assert (P2 : 0 <= L1 * (fA - fw)) by (apply Qmult_le_0_compat; lra).
  assert (P : 0 <= D * (fA - fc)) by lra.
  destruct (Qlt_le_dec fA fc) as [Hlt|Hle]; [|exact Hle]. exfalso.
  assert (0 < D * (fc - fA)) by (apply Qmult_lt_0_compat; lra). lra.
Qed.

(* arg-max of a function over a non-empty list *)
Lemma argmax_q {A} (f : A -> Q) : forall l : list A, l <> [] -> exists x, In x l /\ forall y, In y l -> f y <= f x.
Proof.
  induction l as [|a l IH]; intros Hne; [congruence|]. destruct l as [|b l'].
  - exists a. split; [left; reflexivity|]. intros y [<-|[]]. lra.
  - destruct (IH ltac:(discriminate)) as [x [Hx Hm]]. destruct (Qlt_le_dec (f x) (f a)) as [H|H].
    + exists a. split; [left; reflexivity|]. intros y [<-|Hy]; [lra|]. specialize (Hm y Hy). lra.
    + exists x. split; [right; exact Hx|]. intros y [<-|Hy]; [lra|apply Hm; exact Hy].
Qed.

(* ---------------- the cyclic structure used by strictly_convex_ccw / left_of_all_edges ---------------- *)
Definition prevs (poly : list pt) : list pt := last poly (0, 0) :: removelast poly.
Definition nexts (poly : list pt) : list pt := tl poly ++ [hd (0, 0) poly].
Lemma last_as_nth : forall (l : list pt) d, l <> [] -> last l d = nth (length l - 1) l d.
Proof.
  induction l as [|a l IH]; intros d H; [congruence|]. destruct l as [|b l']; [reflexivity|].
  change (last (a :: b :: l') d) with (last (b :: l') d). rewrite IH by discriminate. cbn [length]. 
  replace (S (S (length l')) - 1)%nat with (S (S (length l') - 1)) by lia. reflexivity.
Qed.
Lemma nth_removelast' : forall (l : list pt) k d, (S k < length l)%nat -> nth k (removelast l) d = nth k l d.
Proof.
  induction l as [|a l IH]; intros k d H; [cbn [length] in H; lia|]. destruct l as [|b l']; [cbn [length] in H; lia|].
  destruct k; [reflexivity|]. change (removelast (a :: b :: l')) with (a :: removelast (b :: l')). cbn [nth]. apply IH. cbn [length] in H |- *. lia.
Qed.
Lemma removelast_len (l : list pt) : length (removelast l) = (length l - 1)%nat.
Proof. induction l as [|a l IH]; [reflexivity|]. destruct l; [reflexivity|]. change (removelast (a :: p :: l)) with (a :: removelast (p :: l)). cbn [length] in *. rewrite IH. lia. Qed.
Lemma prevs_length poly : poly <> [] -> length (prevs poly) = length poly.
Proof. intros H. unfold prevs. cbn [length]. rewrite removelast_len. destruct poly; [congruence|]. cbn [length]. lia. Qed.
Lemma nexts_length poly : poly <> [] -> length (nexts poly) = length poly.
Proof. intros H. unfold nexts. rewrite app_length. destruct poly; [congruence|]. cbn [tl length]. lia. Qed.
Lemma nth_prevs poly i : (i < length poly)%nat ->
  nth i (prevs poly) (0, 0) = nth (if Nat.eqb i 0 then length poly - 1 else i - 1)%nat poly (0, 0).
Proof.
  intros Hi. assert (Hne : poly <> []) by (destruct poly; [cbn [length] in Hi; lia|discriminate]).
  unfold prevs. destruct i as [|k]; cbn [nth Nat.eqb].
  - apply last_as_nth. exact Hne.
  - rewrite nth_removelast' by lia. f_equal. lia.
Qed.
Lemma nth_nexts poly i : (i < length poly)%nat ->
  nth i (nexts poly) (0, 0) = nth (if Nat.eqb i (length poly - 1) then 0 else S i)%nat poly (0, 0).
Proof.
  intros Hi. unfold nexts. destruct poly as [|a l]; [cbn [length] in Hi; lia|]. cbn [tl hd length] in *.
  replace (S (length l) - 1)%nat with (length l) by lia.
  destruct (Nat.eqb i (length l)) eqn:E.
  - apply Nat.eqb_eq in E. subst i. rewrite app_nth2 by lia. rewrite Nat.sub_diag. reflexivity.
  - apply Nat.eqb_neq in E. rewrite app_nth1 by lia. reflexivity.
Qed.

(* every vertex has a predecessor u and a successor w with (u, v, w) among the triples and (u, v), (v, w) among the edges *)
Lemma vertex_neighbours (poly : list pt) (v : pt) : (3 <= length poly)%nat -> In v poly ->
  exists u w, In (u, v, w) (combine (combine (prevs poly) poly) (nexts poly)) /\
              In (u, v) (combine (prevs poly) poly) /\ In (v, w) (combine (prevs poly) poly) /\ In u poly /\ In w poly.
Proof.
  intros Hl Hv. assert (Hne : poly <> []) by (destruct poly; [cbn [length] in Hl; lia|discriminate]).
  destruct (In_nth poly v (0, 0) Hv) as [i [Hi Ei]].
  set (n := length poly) in *.
  set (ip := (if Nat.eqb i 0 then n - 1 else i - 1)%nat).
  set (is_ := (if Nat.eqb i (n - 1) then 0 else S i)%nat).
  assert (Hip : (ip < n)%nat) by (unfold ip; destruct (Nat.eqb i 0); lia).
  assert (His : (is_ < n)%nat) by (unfold is_; destruct (Nat.eqb i (n - 1)) eqn:E; [lia|apply Nat.eqb_neq in E; lia]).
  exists (nth ip poly (0, 0)), (nth is_ poly (0, 0)).
  assert (LP : length (prevs poly) = n) by (apply prevs_length; exact Hne).
  assert (LN : length (nexts poly) = n) by (apply nexts_length; exact Hne).
  assert (LC : length (combine (prevs poly) poly) = n) by (rewrite combine_length, LP; unfold n; lia).
  repeat split.
  - replace (nth ip poly (0, 0), v, nth is_ poly (0, 0))
      with (nth i (combine (combine (prevs poly) poly) (nexts poly)) ((0, 0), (0, 0), (0, 0))).
    + apply nth_In. repeat rewrite combine_length. rewrite LP, LN. fold n. lia.
    + rewrite combine_nth by (transitivity n; [exact LC|symmetry; exact LN]). rewrite combine_nth by (transitivity n; [exact LP|reflexivity]).
      apply (f_equal2 pair); [apply (f_equal2 pair); [exact (nth_prevs poly i Hi)|exact Ei]|exact (nth_nexts poly i Hi)].
  - replace (nth ip poly (0, 0), v) with (nth i (combine (prevs poly) poly) ((0, 0), (0, 0))).
    + apply nth_In. rewrite LC. exact Hi.
    + rewrite combine_nth by (transitivity n; [exact LP|reflexivity]). apply (f_equal2 pair); [exact (nth_prevs poly i Hi)|exact Ei].
  - replace (v, nth is_ poly (0, 0)) with (nth is_ (combine (prevs poly) poly) ((0, 0), (0, 0))).
    + apply nth_In. rewrite LC. exact His.
    + rewrite combine_nth by (transitivity n; [exact LP|reflexivity]).
      apply (f_equal2 pair); [|reflexivity]. rewrite <- Ei.
      transitivity (nth (if Nat.eqb is_ 0 then length poly - 1 else is_ - 1)%nat poly (0, 0)); [exact (nth_prevs poly is_ His)|].
      f_equal. unfold is_. fold n.
      destruct (Nat.eqb i (n - 1)) eqn:E.
      * apply Nat.eqb_eq in E. cbn [Nat.eqb]. lia.
      * apply Nat.eqb_neq in E. cbn [Nat.eqb]. lia.
  - apply nth_In. exact Hip.
  - apply nth_In. exact His.
Qed.

(* ---------------- a point inside projects between two vertices ---------------- *)
Lemma convex_triples poly : strictly_convex_ccw poly = true -> (3 <= length poly)%nat ->
  forall u v w, In (u, v, w) (combine (combine (prevs poly) poly) (nexts poly)) -> 0 < cpc u v w.
Proof.
  intros H Hl u v w Hin. unfold strictly_convex_ccw in H.
  destruct poly as [|a [|b [|c r]]]; try (cbn [length] in Hl; lia).
  rewrite forallb_forall in H. specialize (H (u, v, w) Hin). cbn [fst snd] in H. apply Qltb_lt in H. exact H.
Qed.
Lemma inside_edges poly p : left_of_all_edges poly p = true -> (3 <= length poly)%nat ->
  forall a b, In (a, b) (combine (prevs poly) poly) -> 0 <= cpc a b p.
Proof.
  intros H Hl a b Hin. unfold left_of_all_edges in H.
  destruct poly as [|x [|y [|z r]]]; try (cbn [length] in Hl; lia).
  rewrite forallb_forall in H. specialize (H (a, b) Hin). cbn [fst snd] in H. apply Qleb_le in H. exact H.
Qed.

Theorem inside_below_a_vertex poly c d : strictly_convex_ccw poly = true -> (3 <= length poly)%nat ->
  left_of_all_edges poly c = true -> exists v, In v poly /\ cross d c <= cross d v.
Proof.
  intros Hc Hl Hin.
  assert (Hne : poly <> []) by (destruct poly; [cbn [length] in Hl; lia|discriminate]).
  destruct (argmax_q (cross d) poly Hne) as [A [HA Hmax]].
  destruct (vertex_neighbours poly A Hl HA) as [u [w [Ht [E1 [E2 [Hu Hw]]]]]].
  exists A. split; [exact HA|].
  apply (cone_bound d u A w c).
  - exact (convex_triples poly Hc Hl u A w Ht).
  - exact (inside_edges poly c Hin Hl u A E1).
  - exact (inside_edges poly c Hin Hl A w E2).
  - apply Hmax. exact Hu.
  - apply Hmax. exact Hw.
Qed.
Theorem inside_above_a_vertex poly c d : strictly_convex_ccw poly = true -> (3 <= length poly)%nat ->
  left_of_all_edges poly c = true -> exists v, In v poly /\ cross d v <= cross d c.
Proof.
  intros Hc Hl Hin.
  destruct (inside_below_a_vertex poly c (- fst d, - snd d) Hc Hl Hin) as [v [Hv H]].
  exists v. split; [exact Hv|]. unfold cross in *. cbn [fst snd] in H. lra.
Qed.

(* ---------------- degenerate hulls: one point, a segment ---------------- *)
Lemma on_segment_param (a b p : pt) :
  cpc a b p == 0 -> Qmin (fst a) (fst b) <= fst p <= Qmax (fst a) (fst b) -> Qmin (snd a) (snd b) <= snd p <= Qmax (snd a) (snd b) ->
  exists tau, 0 <= tau <= 1 /\ fst p == fst a + tau * (fst b - fst a) /\ snd p == snd a + tau * (snd b - snd a).
Proof.
  destruct a as [ax ay], b as [bx by_], p as [px py]. unfold cpc, cross, psub. cbn [fst snd]. intros E [X1 X2] [Y1 Y2].
  destruct (Qeq_dec ax bx) as [Ex|Ex].
  - (* vertical or a single point *)
    assert (Hpx : px == ax).
    { rewrite Ex in X1, X2. rewrite Q.min_id in X1. rewrite Q.max_id in X2. rewrite Ex. lra. }
    destruct (Qeq_dec ay by_) as [Ey|Ey].
    + exists 0. rewrite Ey in Y1, Y2. rewrite Q.min_id in Y1. rewrite Q.max_id in Y2. repeat split; lra.
    + exists ((py - ay) / (by_ - ay)). 
      assert (Hd : ~ by_ - ay == 0) by lra.
      split; [|split; [rewrite Hpx, Ex; field_simplify_eq; [ring|exact Hd] | field; exact Hd]].
      destruct (Qlt_le_dec ay by_) as [L|L].
      * rewrite Q.min_l in Y1 by lra. rewrite Q.max_r in Y2 by lra. apply Qdiv_unit; lra.
      * rewrite Q.min_r in Y1 by lra. rewrite Q.max_l in Y2 by lra.
        setoid_replace ((py - ay) / (by_ - ay)) with ((ay - py) / (ay - by_)) by (field; split; lra). apply Qdiv_unit; lra.
  - exists ((px - ax) / (bx - ax)).
    assert (Hd : ~ bx - ax == 0) by lra.
    split; [|split; [field; exact Hd|]].
    + destruct (Qlt_le_dec ax bx) as [L|L].
      * rewrite Q.min_l in X1 by lra. rewrite Q.max_r in X2 by lra. apply Qdiv_unit; lra.
      * rewrite Q.min_r in X1 by lra. rewrite Q.max_l in X2 by lra.
        setoid_replace ((px - ax) / (bx - ax)) with ((ax - px) / (ax - bx)) by (field; split; lra). apply Qdiv_unit; lra.
    + (* collinearity gives the ordinate *)
      assert (E' : (bx - ax) * (py - ay) == (by_ - ay) * (px - ax)) by lra.
      set (t := (px - ax) / (bx - ax)).
      assert (Ht : t * (bx - ax) == px - ax) by (unfold t; field; exact Hd).
      assert (G : (bx - ax) * (py - (ay + t * (by_ - ay))) == 0).
      { setoid_replace ((bx - ax) * (py - (ay + t * (by_ - ay)))) with ((bx - ax) * (py - ay) - (t * (bx - ax)) * (by_ - ay)) by ring.
        rewrite Ht, E'. ring. }
      apply Qmult_integral in G. destruct G as [G|G]; [contradiction|lra].
Qed.

Theorem inside_range (poly : list pt) (c d : pt) : poly <> [] -> strictly_convex_ccw poly = true -> left_of_all_edges poly c = true ->
  (exists v, In v poly /\ cross d c <= cross d v) /\ (exists v, In v poly /\ cross d v <= cross d c).
Proof.
  intros Hne Hc Hin.
  destruct poly as [|a [|b [|x r]]]; [congruence| | |].
  - (* one point *)
    cbn [left_of_all_edges] in Hin. unfold pt_eqb in Hin. apply andb_true_iff in Hin. destruct Hin as [E1 E2]. apply Qeqb_eq in E1, E2.
    assert (E : cross d c == cross d a) by (unfold cross; rewrite E1, E2; reflexivity).
    split; exists a; (split; [left; reflexivity|lra]).
  - (* a segment *)
    cbn [left_of_all_edges] in Hin. repeat (apply andb_true_iff in Hin; destruct Hin as [Hin ?]).
    apply Qeqb_eq in Hin. repeat match goal with H : Qle_bool _ _ = true |- _ => apply Qleb_le in H end.
    destruct (on_segment_param a b c Hin ltac:(split; assumption) ltac:(split; assumption)) as [tau [[T0 T1] [Px Py]]].
    assert (E : cross d c == cross d a + tau * (cross d b - cross d a)) by (unfold cross; rewrite Px, Py; ring).
    destruct (Qlt_le_dec (cross d a) (cross d b)) as [L|L].
    + assert (0 <= tau * (cross d b - cross d a)) by (apply Qmult_le_0_compat; lra).
      assert (0 <= (1 - tau) * (cross d b - cross d a)) by (apply Qmult_le_0_compat; lra).
      split; [exists b|exists a]; (split; [cbn; auto|lra]).
    + assert (0 <= tau * (cross d a - cross d b)) by (apply Qmult_le_0_compat; lra).
      assert (0 <= (1 - tau) * (cross d a - cross d b)) by (apply Qmult_le_0_compat; lra).
      split; [exists a|exists b]; (split; [cbn; auto|lra]).
  - split; [apply inside_below_a_vertex|apply inside_above_a_vertex]; try assumption; cbn [length]; lia.
Qed.

(* ---------------- separation of everything inside the two polygons ---------------- *)
From BZ Require Import Theory.HullTheory.
Lemma is_separating_cases d p1 p2 : is_separating d p1 p2 = true ->
  0 < fst d * fst d + snd d * snd d /\
  ((exists m M, M < m /\ (forall v, In v p1 -> m <= cross d v) /\ (forall v, In v p2 -> cross d v <= M)) \/
   (exists m M, M < m /\ (forall v, In v p2 -> m <= cross d v) /\ (forall v, In v p1 -> cross d v <= M))).
Proof.
  intros Hs. unfold is_separating in Hs.
  set (n := fst d * fst d + snd d * snd d) in *.
  destruct (qmin_list (map (proj d) p1)) as [mn1|] eqn:A1; [|discriminate].
  destruct (qmax_list (map (proj d) p1)) as [mx1|] eqn:B1; [|discriminate].
  destruct (qmin_list (map (proj d) p2)) as [mn2|] eqn:A2; [|discriminate].
  destruct (qmax_list (map (proj d) p2)) as [mx2|] eqn:B2; [|discriminate].
  assert (Hn0 : 0 <= n) by (unfold n; nra).
  assert (Hn : 0 < n).
  { destruct (Qlt_le_dec 0 n) as [H|H]; [exact H|]. exfalso.
    assert (En : n == 0) by lra.
    (* with a zero direction every projection is x / 0 = 0 *)
    assert (Z : forall ps m, (qmin_list (map (proj d) ps) = Some m \/ qmax_list (map (proj d) ps) = Some m) -> m == 0).
    { intros ps m Hm.
      assert (Hall : forall x, In x (map (proj d) ps) -> x == 0).
      { intros x Hx. apply in_map_iff in Hx. destruct Hx as [p [<- _]]. unfold proj. fold n. rewrite En. unfold Qdiv. rewrite Qmult_comm. reflexivity. }
      destruct (map (proj d) ps) as [|y l] eqn:El; [destruct Hm; discriminate|].
      assert (Hy : y == 0) by (apply Hall; left; reflexivity).
      assert (Hl : forall x, In x l -> x == 0) by (intros x Hx; apply Hall; right; exact Hx).
      clear Hall El.
      destruct Hm as [Hm|Hm]; cbn [qmin_list qmax_list] in Hm; injection Hm as <-.
      - revert y Hy. induction l as [|z l IHl]; intros y Hy; cbn [fold_left]; [exact Hy|].
        apply IHl; [intros x Hx; apply Hl; right; exact Hx|]. rewrite Hy, (Hl z (or_introl eq_refl)). reflexivity.
      - revert y Hy. induction l as [|z l IHl]; intros y Hy; cbn [fold_left]; [exact Hy|].
        apply IHl; [intros x Hx; apply Hl; right; exact Hx|]. rewrite Hy, (Hl z (or_introl eq_refl)). reflexivity. }
    pose proof (Z p1 mn1 (or_introl A1)). pose proof (Z p1 mx1 (or_intror B1)).
    pose proof (Z p2 mn2 (or_introl A2)). pose proof (Z p2 mx2 (or_intror B2)).
    apply orb_true_iff in Hs. destruct Hs as [Hs|Hs]; apply Qltb_lt in Hs; lra. }
  split; [exact Hn|].
  assert (P : forall (ps : list pt) m, (forall x, In x (map (proj d) ps) -> m <= x) -> forall p, In p ps -> m * n <= cross d p).
  { intros ps m Hb p Hp. specialize (Hb (proj d p) (in_map _ _ _ Hp)). unfold proj in Hb. fold n in Hb.
    assert (E : cross d p / n * n == cross d p) by (field; lra). set (q := cross d p / n) in *. nra. }
  assert (P' : forall (ps : list pt) m, (forall x, In x (map (proj d) ps) -> x <= m) -> forall p, In p ps -> cross d p <= m * n).
  { intros ps m Hb p Hp. specialize (Hb (proj d p) (in_map _ _ _ Hp)). unfold proj in Hb. fold n in Hb.
    assert (E : cross d p / n * n == cross d p) by (field; lra). set (q := cross d p / n) in *. nra. }
  apply orb_true_iff in Hs. destruct Hs as [Hs|Hs]; apply Qltb_lt in Hs.
  - left. exists (mn1 * n), (mx2 * n). split; [nra|]. split.
    + apply P. apply qmin_list_bound. exact A1.
    + apply P'. apply qmax_list_bound. exact B2.
  - right. exists (mn2 * n), (mx1 * n). split; [nra|]. split.
    + apply P. apply qmin_list_bound. exact A2.
    + apply P'. apply qmax_list_bound. exact B1.
Qed.

(* every control point on one side: what a separating direction of the two HULLS says about the two control nets *)
Theorem separating_hulls_separate_the_nets (pts1 pts2 : list pt) (d : pt) :
  pts1 <> [] -> pts2 <> [] -> hull_ok pts1 = true -> hull_ok pts2 = true ->
  is_separating d (simple_convex_hull pts1) (simple_convex_hull pts2) = true ->
  (exists m M, M < m /\ (forall c, In c pts1 -> m <= cross d c) /\ (forall c, In c pts2 -> cross d c <= M)) \/
  (exists m M, M < m /\ (forall c, In c pts2 -> m <= cross d c) /\ (forall c, In c pts1 -> cross d c <= M)).
Proof.
  intros N1 N2 H1 H2 Hs.
  assert (Hull : forall pts, pts <> [] -> hull_ok pts = true ->
            simple_convex_hull pts <> [] /\ strictly_convex_ccw (simple_convex_hull pts) = true /\
            forall c, In c pts -> left_of_all_edges (simple_convex_hull pts) c = true).
  { intros pts N H. unfold hull_ok in H. repeat (apply andb_true_iff in H; destruct H as [H ?]).
    split; [|split; [assumption|]].
    - destruct pts; [congruence|]. match goal with Hx : negb _ = true |- _ => apply negb_true_iff in Hx; apply Nat.eqb_neq in Hx end.
      intros E. rewrite E in *. cbn [length] in *. congruence.
    - intros c Hc. exact (proj1 (forallb_forall _ _) H c Hc). }
  destruct (Hull pts1 N1 H1) as [A1 [B1 C1]]. destruct (Hull pts2 N2 H2) as [A2 [B2 C2]].
  destruct (is_separating_cases d _ _ Hs) as [_ [[m [M [HmM [L U]]]]|[m [M [HmM [L U]]]]]]; [left|right]; exists m, M; (split; [exact HmM|split]).
  - intros c Hc. destruct (proj2 (inside_range _ c d A1 B1 (C1 c Hc))) as [v [Hv Hle]]. specialize (L v Hv). lra.
  - intros c Hc. destruct (proj1 (inside_range _ c d A2 B2 (C2 c Hc))) as [v [Hv Hle]]. specialize (U v Hv). lra.
  - intros c Hc. destruct (proj2 (inside_range _ c d A2 B2 (C2 c Hc))) as [v [Hv Hle]]. specialize (L v Hv). lra.
  - intros c Hc. destruct (proj1 (inside_range _ c d A1 B1 (C1 c Hc))) as [v [Hv Hle]]. specialize (U v Hv). lra.
Qed.
