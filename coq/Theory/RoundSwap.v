(* C17: the candidate flow of all_intersections is equivariant under swapping the two curves: one round applied to the swapped
   candidate list gives the swapped candidates (as a multiset: the product order of the four pairs of halves changes) and the
   swapped events in the same order.  About the executable model Model/Rounds.v; the box classifications are the regenerated
   functions. *)
From Coq Require Import List Arith ZArith QArith Qcanon Bool String Permutation.
From BZ Require Import Base.Ops Base.QcInst Base.PyVal Model.Rounds Gen.PyFnHelpers Gen.PyFnGeometric Theory.Predicates.
Import ListNotations.

Definition swapc (p : cand * cand) : cand * cand := (snd p, fst p).
Definition swap_ev (e : event) : event :=
  match e with EvTangent f s => EvTangent s f | EvLinearized f s => EvLinearized s f | EvError f s => EvError s f end.
Definition wf_cand (c : cand) : Prop := exists x0 xs y0 ys, Rounds.rows c = [x0 :: xs; y0 :: ys].

Lemma boxes_sym l1 r1 b1 t1 l2 r2 b2 t2 :
  bbox_intersect_boxes l1 r1 b1 t1 l2 r2 b2 t2 = bbox_intersect_boxes l2 r2 b2 t2 l1 r1 b1 t1.
Proof.
  unfold bbox_intersect_boxes.
  destruct (Qltb r2 l1), (Qltb r1 l2), (Qltb t2 b1), (Qltb t1 b2); cbn [orb]; try reflexivity.
  destruct (Qeqb r2 l1), (Qeqb r1 l2), (Qeqb t2 b1), (Qeqb t1 b2); reflexivity.
Qed.
Lemma bbox_intersect_sym f s : wf_cand f -> wf_cand s ->
  py_bbox_intersect (nodes_val f) (nodes_val s) = py_bbox_intersect (nodes_val s) (nodes_val f).
Proof.
  intros (x0 & xs & y0 & ys & Ef) (u0 & us & v0 & vs & Es).
  unfold nodes_val, qrows. rewrite Ef, Es. cbn [map].
  destruct (bbox_spec (this x0) (map this xs) (this y0) (map this ys)) as [l1 [r1 [b1 [t1 [E1 _]]]]].
  destruct (bbox_spec (this u0) (map this us) (this v0) (map this vs)) as [l2 [r2 [b2 [t2 [E2 _]]]]].
  rewrite (bbox_intersect_spec _ _ _ _ _ _ _ _ _ _ E1 E2), (bbox_intersect_spec _ _ _ _ _ _ _ _ _ _ E2 E1), boxes_sym. reflexivity.
Qed.
Lemma classify_swap f s : wf_cand f -> wf_cand s -> classify s f = classify f s.
Proof.
  intros Wf Ws. unfold classify. destruct (Rounds.lin f), (Rounds.lin s); try reflexivity; rewrite (bbox_intersect_sym f s Wf Ws); reflexivity.
Qed.

Lemma prod_cons_r {A B} (a : A) : forall (l2 : list B) (l1 : list A),
  Permutation (map (fun y => (y, a)) l2 ++ list_prod l2 l1) (list_prod l2 (a :: l1)).
Proof.
  induction l2 as [|b l2 IH]; intros l1; cbn [map list_prod app]; [constructor|].
  apply perm_skip. eapply Permutation_trans; [apply Permutation_app_swap_app|].
  apply Permutation_app_head. apply IH.
Qed.
Lemma list_prod_swap {A B} : forall (l1 : list A) (l2 : list B),
  Permutation (map (fun p => (snd p, fst p)) (list_prod l1 l2)) (list_prod l2 l1).
Proof.
  induction l1 as [|a l1 IH]; intros l2; cbn [list_prod].
  - cbn [map]. induction l2 as [|b l2 IH2]; cbn [list_prod]; [constructor|exact IH2].
  - rewrite map_app, map_map. cbn [fst snd].
    eapply Permutation_trans; [apply Permutation_app_head; apply IH|]. apply prod_cons_r.
Qed.

Lemma step_pair_swap f s : wf_cand f -> wf_cand s ->
  Permutation (map swapc (fst (step_pair (f, s)))) (fst (step_pair (s, f))) /\
  map swap_ev (snd (step_pair (f, s))) = snd (step_pair (s, f)).
Proof.
  intros Wf Ws. unfold step_pair. rewrite (classify_swap f s Wf Ws). rewrite (andb_comm (Rounds.lin s) (Rounds.lin f)).
  destruct (classify f s); cbn [fst snd map]; try (split; [constructor|reflexivity]).
  - destruct (Rounds.lin f && Rounds.lin s); cbn [fst snd map]; split; try constructor; reflexivity.
  - destruct (Rounds.lin f && Rounds.lin s); cbn [fst snd map]; split; try constructor; try reflexivity.
    apply (list_prod_swap (map from_shape (subdivide f)) (map from_shape (subdivide s))).
Qed.

Lemma flat_map_perm {A B} (f g : A -> list B) : forall l, (forall x, In x l -> Permutation (f x) (g x)) ->
  Permutation (flat_map f l) (flat_map g l).
Proof.
  induction l as [|a l IH]; intros H; cbn [flat_map]; [constructor|].
  apply Permutation_app; [apply H; left; reflexivity|apply IH; intros x Hx; apply H; right; exact Hx].
Qed.

Theorem one_round_swap cands : Forall (fun p => wf_cand (fst p) /\ wf_cand (snd p)) cands ->
  Permutation (map swapc (fst (one_round cands))) (fst (one_round (map swapc cands))) /\
  map swap_ev (snd (one_round cands)) = snd (one_round (map swapc cands)).
Proof.
  intros Hw. unfold one_round. cbn [fst snd]. rewrite !map_map. split.
  - rewrite !flat_map_concat_map, concat_map, !map_map, <- !flat_map_concat_map.
    apply flat_map_perm. intros [f s] Hin. rewrite Forall_forall in Hw. destruct (Hw _ Hin) as [Wf Ws]. cbn [fst snd] in Wf, Ws.
    unfold swapc at 2. cbn [fst snd]. apply (proj1 (step_pair_swap f s Wf Ws)).
  - rewrite !flat_map_concat_map, concat_map, !map_map. f_equal. apply map_ext_in. intros [f s] Hin.
    rewrite Forall_forall in Hw. destruct (Hw _ Hin) as [Wf Ws]. cbn [fst snd] in Wf, Ws.
    unfold swapc. cbn [fst snd]. apply (proj2 (step_pair_swap f s Wf Ws)).
Qed.
