(* C07: twin constants of the two implementations are equal; every name bound by the shim modules is classified. *)
From Coq Require Import List ZArith QArith Bool String.
From BZ Require Import Gen.F90Const Gen.PyShims Gen.PyCurveHelpers Gen.PyHelpers Gen.PyGeometricIntersection
  Gen.PyIntersectionHelpers Gen.PyTriangleIntersection Gen.PyTriangleHelpers Gen.PyFnHelpers Base.PyVal.
Import ListNotations.
Open Scope string_scope.

Definition twin_constants : list (string * Q * Q) :=
  [("MAX_LOCATE_SUBDIVISIONS (curve)", f90_curve_MAX_LOCATE_SUBDIVISIONS, PyCurveHelpers.MAX_LOCATE_SUBDIVISIONS);
   ("LOCATE_STD_CAP", f90_curve_LOCATE_STD_CAP, PyCurveHelpers.LOCATE_STD_CAP);
   ("REDUCE_THRESHOLD", f90_curve_REDUCE_THRESHOLD, PyCurveHelpers.REDUCE_THRESHOLD);
   ("LINEARIZATION_THRESHOLD / _ERROR_VAL", f90_curve_intersection_LINEARIZATION_THRESHOLD, PyGeometricIntersection.ERROR_VAL);
   ("MAX_INTERSECT_SUBDIVISIONS", f90_curve_intersection_MAX_INTERSECT_SUBDIVISIONS, PyGeometricIntersection.MAX_INTERSECT_SUBDIVISIONS);
   ("MIN_INTERVAL_WIDTH", f90_curve_intersection_MIN_INTERVAL_WIDTH, PyGeometricIntersection.MIN_INTERVAL_WIDTH);
   ("MAX_CANDIDATES", f90_curve_intersection_MAX_CANDIDATES, PyGeometricIntersection.MAX_CANDIDATES);
   ("ZERO_THRESHOLD", f90_curve_intersection_ZERO_THRESHOLD, PyIntersectionHelpers.ZERO_THRESHOLD);
   ("NEWTON_ERROR_RATIO", f90_curve_intersection_NEWTON_ERROR_RATIO, PyIntersectionHelpers.NEWTON_ERROR_RATIO);
   ("VECTOR_CLOSE_EPS / _EPS", f90_helpers_VECTOR_CLOSE_EPS, PyHelpers.EPS);
   ("MAX_LOCATE_SUBDIVISIONS (triangle)", f90_triangle_intersection_MAX_LOCATE_SUBDIVISIONS, PyTriangleIntersection.MAX_LOCATE_SUBDIVISIONS);
   ("LOCATE_EPS", f90_triangle_intersection_LOCATE_EPS, PyTriangleIntersection.LOCATE_EPS);
   ("BoxIntersectionType.INTERSECTION", f90_curve_intersection_BoxIntersectionType_INTERSECTION, 0%Q);
   ("BoxIntersectionType.TANGENT", f90_curve_intersection_BoxIntersectionType_TANGENT, 1%Q);
   ("BoxIntersectionType.DISJOINT", f90_curve_intersection_BoxIntersectionType_DISJOINT, 2%Q)].
Lemma twin_constants_equal : forallb (fun t => Qeq_bool (snd (fst t)) (snd t)) twin_constants = true.
Proof. vm_compute. reflexivity. Qed.
(* the default wiggle of the Python wiggle_interval (read from its signature by the translator) is the Fortran WIGGLE *)
Lemma wiggle_twin : forall v, py_wiggle_interval_default v = py_wiggle_interval v (VQ f90_helpers_WIGGLE).
Proof. intros v. reflexivity. Qed.
Lemma switch_twin : f90_curve_vs_max_nodes = vs_max_nodes.
Proof. reflexivity. Qed.
Lemma compiled_binomial_is_double : f90_triangle_binom_is_double = true.
Proof. reflexivity. Qed.

(* which check decides each shim pair ("two refinements of one model": both configurations are corresponded with the
   same Gallina model there), or "sweep" when only the cross-configuration sweep of C07 compares them *)
Definition shim_classes : list (string * string) :=
  [("subdivide_nodes", "C04/C09"); ("evaluate_multi", "C01"); ("evaluate_multi_barycentric", "C01"); ("compute_length", "C12 (speedup only)");
   ("elevate_nodes", "C08"); ("specialize_curve", "C04"); ("evaluate_hodograph", "C11"); ("get_curvature", "C11");
   ("newton_refine", "C11"); ("locate_point", "C10"); ("reduce_pseudo_inverse", "C08"); ("full_reduce", "C08");
   ("bbox", "C16"); ("contains_nd", "C16"); ("cross_product", "C16"); ("in_interval", "C16"); ("wiggle_interval", "C16");
   ("simple_convex_hull", "C16"); ("polygon_collide", "C16"); ("vector_close", "sweep"); ("solve2x2", "C16");
   ("bbox_intersect", "C16"); ("all_intersections", "C02/C03/C20"); ("self_intersections", "C18");
   ("de_casteljau_one_round", "C09"); ("specialize_triangle", "C09"); ("jacobian_both", "C11"); ("jacobian_det", "C11");
   ("evaluate_barycentric", "C05"); ("evaluate_barycentric_multi", "C05"); ("evaluate_cartesian_multi", "C05");
   ("compute_edge_nodes", "C05"); ("compute_area", "C12"); ("geometric_intersect", "sweep"); ("matrix_product", "sweep")].
Definition binding_name (b : string * string * string * string) : string := snd (fst (fst b)).
Lemma shim_enumeration : forallb (fun b => existsb (String.eqb (binding_name b)) (map fst shim_classes)) shim_bindings = true.
Proof. vm_compute. reflexivity. Qed.
