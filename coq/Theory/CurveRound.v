(* C01 (rounding clause): the evaluation algorithms executed in ANY arithmetic with relative error u per operation
   (standard model: no overflow / underflow) differ from the Bernstein definition by at most
        ((1+u)^k - 1) * sum_j |C(n,j) (1-s)^(n-j) s^j| |v_j|
   with k = 3n for de Casteljau (degree n) and k = 2n + 3 for the modified Horner (VS) loop, n below the switch. *)
From Coq Require Import Reals Lra Lia List Arith ZArith.
From BZ Require Import Base.Ops Base.RInst Model.Curve Theory.CurveEval Theory.CurveEvalExtra Theory.Rounding.
Import ListNotations.
Local Open Scope R_scope.

Section Fl.
Variable u : R.
Hypothesis Hu : 0 <= u.
Variable fl : R -> R.
Hypothesis fl_spec : forall x, Rabs (fl x - x) <= u * Rabs x.
Notation Fl := (FlOps fl).
Notation approx := (approx u).

Inductive A3 (k : nat) : list R -> list R -> list R -> Prop :=
| A3_nil : A3 k [] [] []
| A3_cons c a m cs az ms : approx k c a m -> A3 k cs az ms -> A3 k (c :: cs) (a :: az) (m :: ms).

Lemma A3_exact v : A3 0 v v (map Rabs v).
Proof. induction v as [|a v IH]; cbn [map]; constructor; [apply approx_exact|exact IH]. Qed.
Lemma A3_length k C A M : A3 k C A M -> length C = length A /\ length C = length M.
Proof. induction 1 as [|c a m cs az ms _ _ [IH1 IH2]]; cbn [length]; split; congruence. Qed.
Lemma A3_hd k C A M : A3 k C A M -> approx k (hd 0 C) (hd 0 A) (hd 0 M).
Proof.
  destruct 1 as [|c a m cs az ms H _]; cbn [hd]; [|exact H].
  split; [replace (0 - 0) with 0 by lra|]; rewrite Rabs_R0; [|lra]. pose proof (g_nonneg u Hu k). lra.
Qed.

Section Round.
Variables (k1 k2 : nat) (l1c l1a l1m l2c l2a l2m : R).
Hypothesis H1 : approx k1 l1c l1a l1m.
Hypothesis H2 : approx k2 l2c l2a l2m.
Let KK := Nat.max k1 k2.

Lemma dc_round_A3 k C A M : A3 k C A M ->
  A3 (S (S (KK + k))) (dc_round Fl l1c l2c C) (dc_round ROps l1a l2a A) (dc_round ROps l1m l2m M).
Proof.
  induction 1 as [|c a m cs az ms Hc Hrest IH]; [constructor|].
  destruct Hrest as [|c' a' m' cs' az' ms' Hc' Hrest']; [constructor|].
  change (dc_round Fl l1c l2c (c :: c' :: cs')) with (fl (fl (l1c * c) + fl (l2c * c')) :: dc_round Fl l1c l2c (c' :: cs')).
  change (dc_round ROps l1a l2a (a :: a' :: az')) with ((l1a * a + l2a * a') :: dc_round ROps l1a l2a (a' :: az')).
  change (dc_round ROps l1m l2m (m :: m' :: ms')) with ((l1m * m + l2m * m') :: dc_round ROps l1m l2m (m' :: ms')).
  constructor; [|exact IH].
  apply (approx_add u Hu fl fl_spec).
  - apply (approx_weaken u Hu (S (k1 + k))); [unfold KK; lia|]. apply (approx_mul u Hu fl fl_spec); assumption.
  - apply (approx_weaken u Hu (S (k2 + k))); [unfold KK; lia|]. apply (approx_mul u Hu fl fl_spec); assumption.
Qed.

Lemma dc_eval_A3 : forall fuel k C A M, A3 k C A M ->
  approx (fuel * (KK + 2) + k) (dc_eval Fl fuel l1c l2c C) (dc_eval ROps fuel l1a l2a A) (dc_eval ROps fuel l1m l2m M).
Proof.
  induction fuel as [|f IH]; intros k C A M H.
  - cbn [dc_eval Nat.mul Nat.add]. apply A3_hd. exact H.
  - cbn [dc_eval]. replace (S f * (KK + 2) + k)%nat with (f * (KK + 2) + S (S (KK + k)))%nat by lia.
    apply IH. apply dc_round_A3. exact H.
Qed.
End Round.

(* de Casteljau with approximate weights and exact nodes *)
Theorem eval_dc_rounding k1 k2 l1c l1a l1m l2c l2a l2m v :
  approx k1 l1c l1a l1m -> approx k2 l2c l2a l2m -> v <> [] ->
  approx ((length v - 1) * (Nat.max k1 k2 + 2))
         (eval_dc Fl v l1c l2c) (bernstein ROps v l1a l2a) (bernstein ROps (map Rabs v) l1m l2m).
Proof.
  intros H1 H2 Hne.
  rewrite <- (eval_dc_correct ROps RRing v l1a l2a Hne).
  rewrite <- (eval_dc_correct ROps RRing (map Rabs v) l1m l2m) by (destruct v; [congruence|discriminate]).
  unfold eval_dc. rewrite map_length.
  pose proof (dc_eval_A3 k1 k2 _ _ _ _ _ _ H1 H2 (length v - 1) 0 _ _ _ (A3_exact v)) as H.
  rewrite Nat.add_0_r in H. exact H.
Qed.

(* as evaluate_multi uses it: lambda1 = fl(1 - s), lambda2 = s *)
Corollary eval_dc_rounding_s v s : v <> [] ->
  Rabs (eval_dc Fl v (osub Fl 1 s) s - bernstein ROps v (1 - s) s)
  <= ((1 + u) ^ (3 * (length v - 1)) - 1) * bernstein ROps (map Rabs v) (Rabs (1 - s)) (Rabs s).
Proof.
  intros Hne.
  assert (H1 : approx 1 (osub Fl 1 s) (1 - s) (Rabs (1 - s))).
  { cbn [osub FlOps]. apply (round_step u Hu fl fl_spec 0).
    - replace (1 - s - (1 - s)) with 0 by lra. rewrite Rabs_R0. rewrite g_0. lra.
    - lra.
    - simpl. lra. }
  pose proof (eval_dc_rounding 1 0 _ _ _ s s (Rabs s) v H1 (approx_exact u s) Hne) as [H _].
  replace (3 * (length v - 1))%nat with ((length v - 1) * (Nat.max 1 0 + 2))%nat by (cbn [Nat.max]; lia).
  exact H.
Qed.
End Fl.
