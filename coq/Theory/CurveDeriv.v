(* C11 (curves): the hodograph is the derivative.  The derivative is the FORMAL one: the epsilon-coefficient of
   B[v](s + eps) in the ring of dual numbers T[eps]/(eps^2) (automatic differentiation), any commutative ring. *)
From Coq Require Import List Arith Lia Ring.
From BZ Require Import Base.Ops Model.Curve Theory.CurveEval Theory.CurveSubdiv.
Import ListNotations.

Section Dual.
Context {T : Type} (K : Ops T) (RT : ring_of K).
Add Ring TR : RT.
Declare Scope t_scope. Delimit Scope t_scope with t.
Notation "0" := (o0 K) : t_scope. Notation "1" := (o1 K) : t_scope.
Infix "+" := (oadd K) : t_scope. Infix "*" := (omul K) : t_scope. Infix "-" := (osub K) : t_scope.
Local Open Scope t_scope.

(* a + b eps *)
Definition DualOps : Ops (T * T) :=
  mkOps (T * T) (0, 0) (1, 0)
    (fun x y => (fst x + fst y, snd x + snd y))
    (fun x y => (fst x * fst y, fst x * snd y + snd x * fst y))
    (fun x y => (fst x - fst y, snd x - snd y))
    (fun x => (oopp K (fst x), oopp K (snd x)))
    (fun x y => (0, 0)) (fun x => (0, 0)).       (* no division in the dual ring: never used *)
Lemma DualRing : ring_of DualOps.
Proof.
  constructor; intros; cbn [o0 o1 oadd omul osub oopp DualOps fst snd];
    repeat match goal with x : (T * T)%type |- _ => destruct x end; cbn [fst snd]; f_equal; ring.
Qed.

Definition lift (x : T) : T * T := (x, 0).
Definition deps (x : T) : T * T := (x, 1).       (* x + eps *)
Definition dneg (x : T) : T * T := (x, 0 - 1).   (* x - eps *)

(* one de Casteljau round at (l1 - eps, l2 + eps) acts on (values, eps-parts) as (D p, D q + diffs p) *)
Lemma dc_round_dual l1 l2 : forall (p q : list T), length p = length q ->
  dc_round DualOps (dneg l1) (deps l2) (combine p q)
  = combine (dc_round K l1 l2 p) (zipw (oadd K) (dc_round K l1 l2 q) (diffs K p)).
Proof.
  induction p as [|a p IH]; intros [|b q] Hl; simpl in Hl; try discriminate; [reflexivity|].
  injection Hl as Hl. destruct p as [|a' p']; destruct q as [|b' q']; simpl in Hl; try discriminate; [reflexivity|].
  specialize (IH (b' :: q') ltac:(simpl; lia)).
  cbn [combine] in IH |- *. cbn [dc_round diffs zipw combine] in IH |- *. rewrite IH.
  f_equal. cbn [oadd omul DualOps fst snd dneg deps]. f_equal; ring.
Qed.

Lemma diffs_length (v : list T) : length (diffs K v) = pred (length v).
Proof. induction v as [|a v IH]; [reflexivity|]. destruct v as [|b v']; [reflexivity|]. cbn [diffs length] in IH |- *. rewrite IH. reflexivity. Qed.

Lemma diffs_dc_round l1 l2 : forall v, diffs K (dc_round K l1 l2 v) = dc_round K l1 l2 (diffs K v).
Proof.
  induction v as [|a v IH]; [reflexivity|]. destruct v as [|b v']; [reflexivity|]. destruct v' as [|c v'']; [reflexivity|].
  cbn [dc_round diffs] in IH |- *. rewrite IH. f_equal. ring.
Qed.

Lemma dc_round_add l1 l2 : forall u w, length u = length w ->
  dc_round K l1 l2 (zipw (oadd K) u w) = zipw (oadd K) (dc_round K l1 l2 u) (dc_round K l1 l2 w).
Proof.
  induction u as [|a u IH]; intros [|b w] H; simpl in H; try discriminate; [reflexivity|].
  injection H as H. destruct u as [|a' u']; destruct w as [|b' w']; simpl in H; try discriminate; [reflexivity|].
  specialize (IH (b' :: w') ltac:(simpl; lia)).
  cbn [zipw dc_round] in IH |- *. rewrite IH. f_equal. ring.
Qed.
Lemma zipw_length (u w : list T) : length u = length w -> length (zipw (oadd K) u w) = length u.
Proof. revert w. induction u as [|a u IH]; intros [|b w] H; simpl in H |- *; try discriminate; auto. Qed.
Lemma dc_eval_add l1 l2 : forall n u w, length u = S n -> length w = S n ->
  dc_eval K n l1 l2 (zipw (oadd K) u w) = dc_eval K n l1 l2 u + dc_eval K n l1 l2 w.
Proof.
  induction n as [|n IH]; intros u w Hu Hw.
  - destruct u as [|a [|? ?]]; destruct w as [|b [|? ?]]; simpl in Hu, Hw; try discriminate. reflexivity.
  - cbn [dc_eval]. rewrite dc_round_add by congruence. apply IH; rewrite (dc_round_length K); [rewrite Hu|rewrite Hw]; reflexivity.
Qed.

Lemma dc_eval_combine l1 l2 : forall n p q, length p = S n -> length q = S n ->
  dc_eval DualOps n (dneg l1) (deps l2) (combine p q)
  = (dc_eval K n l1 l2 p,
     dc_eval K n l1 l2 q + ofn K n * dc_eval K (n - 1) l1 l2 (diffs K p)).
Proof.
  induction n as [|n IH]; intros p q Hp Hq.
  - destruct p as [|a [|? ?]]; destruct q as [|b [|? ?]]; simpl in Hp, Hq; try discriminate.
    cbn [dc_eval combine hd ofn Nat.sub diffs o0 DualOps]. f_equal. ring.
  - cbn [dc_eval]. rewrite dc_round_dual by congruence.
    rewrite IH.
    2:{ rewrite (dc_round_length K), Hp. reflexivity. }
    2:{ rewrite zipw_length; rewrite (dc_round_length K); [rewrite Hq; reflexivity | rewrite diffs_length, Hq, Hp; reflexivity]. }
    f_equal.
    destruct n as [|n].
    + (* degree 1 *)
      destruct p as [|a [|a' [|? ?]]]; destruct q as [|b [|b' [|? ?]]]; simpl in Hp, Hq; try discriminate.
      cbn [dc_round zipw diffs dc_eval hd ofn Nat.sub]. ring.
    + rewrite dc_eval_add.
      2:{ rewrite (dc_round_length K), Hq. reflexivity. }
      2:{ rewrite diffs_length, Hp. reflexivity. }
      rewrite diffs_dc_round.
      replace (S (S n) - 1)%nat with (S n) by lia. replace (S n - 1)%nat with n by lia.
      cbn [dc_eval ofn]. ring.
Qed.

Lemma combine_lift (v : list T) : map lift v = combine v (map (fun _ => 0) v).
Proof. induction v as [|a v IH]; [reflexivity|]. cbn [map combine]. rewrite IH. reflexivity. Qed.
Lemma dc_eval_zero l1 l2 : forall n (v : list T), length v = S n -> dc_eval K n l1 l2 (map (fun _ => 0) v) = 0.
Proof.
  induction n as [|n IH]; intros v Hl.
  - destruct v as [|a [|? ?]]; simpl in Hl; try discriminate. reflexivity.
  - cbn [dc_eval].
    assert (E : dc_round K l1 l2 (map (fun _ => 0) v) = map (fun _ => 0) (removelast v)).
    { clear Hl IH. induction v as [|a v IHv]; [reflexivity|]. destruct v as [|b v']; [reflexivity|].
      cbn [map dc_round removelast] in IHv |- *. rewrite IHv. f_equal. ring. }
    rewrite E. apply IH.
    destruct v as [|a v] using rev_ind; [discriminate|]. rewrite removelast_last. rewrite app_length in Hl. simpl in Hl. lia.
Qed.

(* THE HODOGRAPH THEOREM: the eps-coefficient of B[v]((1 - s) - eps, s + eps) is n * B[diffs v](1 - s, s).
   Every degree n >= 1, any commutative ring.  (fst gives back the value.) *)
Theorem hodograph_is_derivative v l1 l2 : (2 <= length v)%nat ->
  bernstein DualOps (map lift v) (dneg l1) (deps l2)
  = (bernstein K v l1 l2, ofn K (length v - 1) * bernstein K (diffs K v) l1 l2).
Proof.
  intros Hl.
  rewrite <- (eval_dc_correct DualOps DualRing) by (destruct v; simpl in Hl; [lia|discriminate]).
  rewrite <- !(eval_dc_correct K RT).
  2:{ destruct v as [|a [|b v']]; simpl in Hl; try lia. discriminate. }
  2:{ destruct v; simpl in Hl; [lia|discriminate]. }
  unfold eval_dc. rewrite map_length, diffs_length, combine_lift.
  rewrite dc_eval_combine; [| lia | rewrite map_length; lia].
  rewrite dc_eval_zero by lia.
  replace (Nat.pred (length v) - 1)%nat with (length v - 1 - 1)%nat by lia.
  f_equal. ring.
Qed.
End Dual.
