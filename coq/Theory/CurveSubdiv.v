(* Specialization is blossoming; subdivision is specialization to [0,1/2], [1/2,1];
   the junction point is one and the same expression.  Every degree. *)
From Coq Require Import List Arith Lia Ring Field.
From BZ Require Import Base.Ops Model.Curve Theory.CurveEval.
Import ListNotations.

Lemma iter_S_out {A} (f : A -> A) k : forall v, iter f (S k) v = f (iter f k v).
Proof. induction k; intros v; [reflexivity|]. change (iter f (S (S k)) v) with (iter f (S k) (f v)). rewrite IHk. reflexivity. Qed.

Section Blossom.
Context {T : Type} (K : Ops T) (RT : ring_of K).
Add Ring TR : RT.
Declare Scope t_scope. Delimit Scope t_scope with t.
Notation "0" := (o0 K) : t_scope. Notation "1" := (o1 K) : t_scope.
Infix "+" := (oadd K) : t_scope. Infix "*" := (omul K) : t_scope. Infix "-" := (osub K) : t_scope.
Local Open Scope t_scope.
Notation R := (dcR K). Notation dc_round := (dc_round K). Notation dc_eval := (dc_eval K).
Notation P := (P K). Notation L := (L K).

(* pointwise linear combination *)
Fixpoint lin (x : T) (u : list T) (y : T) (w : list T) : list T :=
  match u, w with
  | a :: u', b :: w' => (x * a + y * b) :: lin x u' y w'
  | _, _ => []
  end.

Lemma dc_round_lin l1 l2 x y : forall u w, length u = length w ->
  dc_round l1 l2 (lin x u y w) = lin x (dc_round l1 l2 u) y (dc_round l1 l2 w).
Proof.
  induction u as [|a u IH]; intros [|b w] H; simpl in H; try discriminate; auto.
  injection H as H. destruct u as [|a' u']; destruct w as [|b' w']; simpl in H; try discriminate; auto.
  specialize (IH (b' :: w') H).
  cbn [lin Curve.dc_round] in IH |- *. rewrite IH. f_equal. ring.
Qed.

Lemma R_affine a b s v :
  R ((1 - s) * a + s * b) v = lin (1 - s) (R a v) s (R b v).
Proof.
  unfold Curve.dcR. induction v as [|p v IH]; auto.
  destruct v as [|q v']; auto.
  cbn [Curve.dc_round lin] in IH |- *. rewrite IH. f_equal. ring.
Qed.

Lemma R_comm a b : forall v, R a (R b v) = R b (R a v).
Proof.
  unfold Curve.dcR. induction v as [|p v IH]; auto.
  destruct v as [|q v']; auto. destruct v' as [|r v'']; auto.
  cbn [Curve.dc_round] in IH |- *. rewrite IH. f_equal. ring.
Qed.

Lemma iter_comm a b k : forall v, iter (R a) k (R b v) = R b (iter (R a) k v).
Proof. induction k; intros v; simpl; auto. rewrite <- IHk, R_comm. reflexivity. Qed.

Lemma iter_iter_comm a b j : forall k v, iter (R a) k (iter (R b) j v) = iter (R b) j (iter (R a) k v).
Proof.
  induction j; intros k v; [reflexivity|].
  cbn [iter]. rewrite IHj. rewrite iter_comm. reflexivity.
Qed.

Lemma R_length a v : length (R a v) = pred (length v).
Proof. unfold Curve.dcR. apply (dc_round_length K). Qed.

Lemma iter_length a k : forall v, length (iter (R a) k v) = (length v - k)%nat.
Proof. induction k; intros v; simpl; [lia|]. rewrite IHk, R_length. lia. Qed.

Lemma iter_lin a k x y : forall u w, length u = length w ->
  iter (R a) k (lin x u y w) = lin x (iter (R a) k u) y (iter (R a) k w).
Proof.
  induction k; intros u w H; cbn [iter]; auto.
  change (R a (lin x u y w)) with (dc_round (1 - a) a (lin x u y w)). rewrite dc_round_lin by exact H.
  apply IHk. change (length (R a u) = length (R a w)). rewrite !R_length. congruence.
Qed.

Lemma hd_lin x y u w : u <> [] -> w <> [] -> hd 0 (lin x u y w) = x * hd 0 u + y * hd 0 w.
Proof. destruct u, w; simpl; congruence. Qed.

Lemma dc_round_map_seq l1 l2 (f : nat -> T) : forall n i,
  dc_round l1 l2 (map f (seq i (S n))) = map (fun j => l1 * f j + l2 * f (S j)) (seq i n).
Proof.
  induction n; intros i; [reflexivity|].
  change (seq i (S n)) with (i :: seq (S i) n). cbn [map].
  rewrite <- (IHn (S i)). reflexivity.
Qed.

Lemma step a b s n v : length v = S (S n) ->
  R s (L a b (S n) v) = L a b n (R ((1 - s) * a + s * b) v).
Proof.
  intros Hl. unfold Curve.L, Curve.dcR at 1. rewrite dc_round_map_seq.
  apply map_ext_in. intros j Hj. apply in_seq in Hj.
  unfold Curve.P. rewrite R_affine.
  assert (Hla : length (R a v) = S n) by (rewrite R_length, Hl; reflexivity).
  assert (Hlb : length (R b v) = S n) by (rewrite R_length, Hl; reflexivity).
  rewrite iter_lin by congruence.
  rewrite iter_lin by (rewrite !iter_length; congruence).
  rewrite hd_lin.
  2,3: (intro E; apply (f_equal (@length T)) in E; rewrite !iter_length in E; simpl in E; lia).
  f_equal; f_equal; f_equal.
  - replace (S n - j)%nat with (S (n - j)) by lia. reflexivity.
  - replace (S n - S j)%nat with (n - j)%nat by lia. cbn [iter].
    rewrite <- iter_comm. reflexivity.
Qed.

(* THE BLOSSOMING THEOREM: the net L a b n v evaluates at s to v evaluated at (1-s)a+sb *)
Theorem blossom a b s : forall n v, length v = S n ->
  dc_eval n (1 - s) s (L a b n v) = dc_eval n (1 - ((1 - s) * a + s * b)) ((1 - s) * a + s * b) v.
Proof.
  induction n as [|n IH]; intros v Hl.
  - destruct v as [|p [|q v]]; simpl in Hl; try discriminate. reflexivity.
  - cbn [Curve.dc_eval]. fold (R s (L a b (S n) v)). fold (R ((1 - s) * a + s * b) v).
    rewrite step by exact Hl. apply IH. rewrite R_length, Hl. reflexivity.
Qed.

(* ---- the dictionary walk of specialize_curve computes exactly L ---- *)
Definition level (a b : T) (k : nat) (v : list T) : list (list T) :=
  map (fun m => iter (R b) m (iter (R a) (k - m) v)) (seq 0 (S k)).

Lemma level_next a b k v : spec_next K a b (level a b k v) = level a b (S k) v.
Proof.
  unfold level.
  set (f := fun m => iter (R b) m (iter (R a) (k - m) v)).
  set (f' := fun m => iter (R b) m (iter (R a) (S k - m) v)).
  assert (E1 : spec_next K a b (map f (seq 0 (S k))) = R a (f 0%nat) :: map (fun m => R b (f m)) (seq 0 (S k))).
  { change (seq 0 (S k)) with (0%nat :: seq 1 k) at 1. cbn [map spec_next].
    change (f 0%nat :: map f (seq 1 k)) with (map f (seq 0 (S k))). rewrite map_map. reflexivity. }
  rewrite E1.
  change (seq 0 (S (S k))) with (0%nat :: seq 1 (S k)). cbn [map]. f_equal.
  - unfold f, f'. cbn [iter]. rewrite Nat.sub_0_r. rewrite <- iter_S_out. reflexivity.
  - rewrite <- seq_shift, map_map. apply map_ext. intros m. unfold f, f'.
    replace (S k - S m)%nat with (k - m)%nat by lia. rewrite <- iter_S_out. reflexivity.
Qed.

Lemma iter_level a b v : forall j k, iter (spec_next K a b) j (level a b k v) = level a b (j + k) v.
Proof.
  induction j; intros k; [reflexivity|]. cbn [iter]. rewrite level_next, IHj. f_equal. lia.
Qed.

Theorem specialize_refines v a b : (2 <= length v)%nat ->
  specialize K v a b = L a b (length v - 1) v.
Proof.
  intros Hl. unfold specialize.
  change (spec_level1 K a b v) with (level a b 1 v).
  rewrite iter_level. replace (length v - 2 + 1)%nat with (length v - 1)%nat by lia.
  unfold level, Curve.L, Curve.P. rewrite map_map. reflexivity.
Qed.

Lemma L_length a b n v : length (L a b n v) = S n.
Proof. unfold Curve.L. rewrite map_length, seq_length. reflexivity. Qed.

(* C04, specialization clause: for every degree >= 1, every net, every a, b, sigma
   (inside or outside [0,1], a = b, a > b): B[specialize v a b](sigma) = B[v](a + (b-a) sigma) *)
Theorem specialize_correct v a b s : (2 <= length v)%nat ->
  bernstein K (specialize K v a b) (1 - s) s
  = bernstein K v (1 - ((1 - s) * a + s * b)) ((1 - s) * a + s * b).
Proof.
  intros Hl. rewrite specialize_refines by exact Hl.
  assert (Hn : length v = S (length v - 1)) by lia.
  rewrite <- !(eval_dc_correct K RT).
  2:{ destruct v; simpl in Hl; [lia|congruence]. }
  2:{ intro E. apply (f_equal (@length T)) in E. rewrite L_length in E. discriminate. }
  unfold eval_dc. rewrite L_length. replace (S (length v - 1) - 1)%nat with (length v - 1)%nat by lia.
  apply blossom. exact Hn.
Qed.

(* C20 / C02 (coincident segments): two sub-arcs whose specialized nets are EQUAL are the same curve, point for point *)
Theorem equal_specializations_coincide v1 v2 a1 b1 a2 b2 s : (2 <= length v1)%nat -> (2 <= length v2)%nat ->
  specialize K v1 a1 b1 = specialize K v2 a2 b2 ->
  bernstein K v1 (1 - ((1 - s) * a1 + s * b1)) ((1 - s) * a1 + s * b1)
  = bernstein K v2 (1 - ((1 - s) * a2 + s * b2)) ((1 - s) * a2 + s * b2).
Proof. intros H1 H2 E. rewrite <- !specialize_correct by assumption. rewrite E. reflexivity. Qed.

(* ---- helpers on dot ---- *)
Lemma dot_app_zeros w k : forall v, dot K (w ++ repeat 0 k) v = dot K w v.
Proof.
  induction w as [|a w IH]; intros v.
  - cbn [app]. revert v. induction k; intros v; cbn [repeat dot]; [destruct v; reflexivity|].
    destruct v as [|b v]; [reflexivity|]. rewrite IHk. destruct v; cbn [dot]; ring.
  - destruct v as [|b v]; [reflexivity|]. cbn [app dot]. rewrite IH. reflexivity.
Qed.
Lemma dot_nil_r w : dot K w [] = 0. Proof. destruct w; reflexivity. Qed.
Lemma dot_zeros_app k w : forall v, dot K (repeat 0 k ++ w) v = dot K w (skipn k v).
Proof.
  induction k; intros v; [reflexivity|].
  destruct v as [|b v]; cbn [repeat app dot skipn]; [rewrite dot_nil_r; reflexivity|].
  rewrite IHk. ring.
Qed.
Lemma dot_firstn w : forall v, dot K w v = dot K w (firstn (length w) v).
Proof. induction w as [|a w IH]; intros [|b v]; cbn [length firstn dot]; try reflexivity. rewrite <- IH. reflexivity. Qed.
End Blossom.

Section Subdivide.
Context {T : Type} (K : Ops T) (FT : field_of K) (C0 : char0 K).
Add Field TF : FT.
Let RT : ring_of K := F_R FT.
Declare Scope t_scope. Delimit Scope t_scope with t.
Notation "0" := (o0 K) : t_scope. Notation "1" := (o1 K) : t_scope.
Infix "+" := (oadd K) : t_scope. Infix "*" := (omul K) : t_scope.
Infix "-" := (osub K) : t_scope. Infix "/" := (odiv K) : t_scope.
Local Open Scope t_scope.
Notation h := (half K).

Lemma two_nz : 1 + 1 <> 0.
Proof. intro E. apply (C0 1%nat). cbn [ofn]. transitivity (1 + 1); [ring|exact E]. Qed.
Lemma one_minus_half : 1 - h = h.
Proof. unfold half. field. exact two_nz. Qed.

Lemma next_left_col_aux : forall c prev,
  zipw (oadd K) (map (fun x => h * x) c ++ [0]) (h * prev :: map (fun x => h * x) c)
  = mul_lin_aux K h h prev c.
Proof.
  induction c as [|a c IH]; intros prev; cbn [map app zipw mul_lin_aux].
  - f_equal. ring.
  - f_equal; try ring. apply IH.
Qed.
Lemma next_left_col_mul_lin c : next_left_col K c = mul_lin K h h c.
Proof.
  unfold next_left_col, mul_lin. rewrite <- next_left_col_aux.
  f_equal. f_equal. ring.
Qed.

Lemma left_cols_aux_W : forall k j, left_cols_aux K k (W K j h h) = map (fun i => W K i h h) (seq j (S k)).
Proof.
  induction k; intros j; [reflexivity|].
  change (seq j (S (S k))) with (j :: seq (S j) (S k)). cbn [left_cols_aux map]. f_equal.
  rewrite next_left_col_mul_lin. change (mul_lin K h h (W K j h h)) with (W K (S j) h h). apply IHk.
Qed.
Lemma left_cols_raw_W n : left_cols_raw K n = map (fun i => W K i h h) (seq 0 (S n)).
Proof. unfold left_cols_raw. change [1] with (W K 0 h h). apply left_cols_aux_W. Qed.

(* R 0 drops the last node; R 1 drops the first *)
Lemma R0_removelast : forall v, dcR K 0 v = removelast v.
Proof.
  unfold dcR. induction v as [|a v IH]; [reflexivity|]. destruct v as [|b v']; [reflexivity|].
  cbn [dc_round removelast] in IH |- *. rewrite IH. f_equal. ring.
Qed.
Lemma R1_tl : forall v, dcR K 1 v = tl v.
Proof.
  unfold dcR. induction v as [|a v IH]; [reflexivity|]. destruct v as [|b v']; [reflexivity|].
  cbn [dc_round tl] in IH |- *. rewrite IH. f_equal. ring.
Qed.
Lemma removelast_firstn_len {A} (l : list A) : removelast l = firstn (length l - 1) l.
Proof.
  induction l as [|a l IH]; [reflexivity|]. destruct l as [|b l']; [reflexivity|].
  cbn [removelast length] in IH |- *. rewrite IH. cbn [Nat.sub]. rewrite Nat.sub_0_r. reflexivity.
Qed.
Lemma iter_R0 : forall k v, iter (dcR K 0) k v = firstn (length v - k) v.
Proof.
  induction k; intros v; cbn [iter].
  - rewrite Nat.sub_0_r, firstn_all. reflexivity.
  - rewrite IHk, R0_removelast, removelast_firstn_len.
    rewrite firstn_length. rewrite firstn_firstn. f_equal. lia.
Qed.
Lemma iter_R1 : forall k v, iter (dcR K 1) k v = skipn k v.
Proof.
  induction k; intros v; cbn [iter]; [reflexivity|]. rewrite IHk, R1_tl. destruct v; [destruct k; reflexivity|reflexivity].
Qed.

Lemma dc_eval_iter l1 l2 : forall k v, dc_eval K k l1 l2 v = hd 0 (iter (dc_round K l1 l2) k v).
Proof. induction k; intros v; cbn [dc_eval iter]; [reflexivity|apply IHk]. Qed.

Lemma hd_iter_half j u : length u = S j ->
  hd 0 (iter (dcR K h) j u) = dot K (W K j h h) u.
Proof.
  intros Hl. unfold dcR. rewrite one_minus_half. rewrite <- dc_eval_iter.
  apply (dc_eval_correct K RT). exact Hl.
Qed.

(* left half = specialization to [0, 1/2] *)
Theorem subdivide_left_is_specialize v : (2 <= length v)%nat ->
  subdivide_left K v = specialize K v 0 h.
Proof.
  intros Hl. rewrite specialize_refines by exact Hl.
  unfold subdivide_left, matvec, left_cols, L. rewrite left_cols_raw_W, !map_map.
  apply map_ext_in. intros j Hj. apply in_seq in Hj.
  unfold P. rewrite iter_R0.
  replace (length v - (length v - 1 - j))%nat with (S j) by lia.
  rewrite hd_iter_half by (rewrite firstn_length; lia).
  unfold pad. rewrite (dot_app_zeros K RT).
  rewrite (dot_firstn K (W K j h h) v). rewrite (W_length K). reflexivity.
Qed.

Lemma rev_map_seq {A} (f : nat -> A) n : rev (map f (seq 0 (S n))) = map (fun i => f (n - i)%nat) (seq 0 (S n)).
Proof.
  induction n.
  - reflexivity.
  - rewrite seq_S at 1. rewrite map_app, rev_app_distr. cbn [map rev app Nat.add].
    rewrite IHn.
    assert (E : seq 0 (S (S n)) = 0%nat :: map S (seq 0 (S n))) by (rewrite seq_shift; reflexivity).
    rewrite E. cbn [map]. rewrite Nat.sub_0_r. f_equal.
    rewrite map_map. apply map_ext_in. intros i Hi. reflexivity.
Qed.

(* right half = specialization to [1/2, 1] *)
Theorem subdivide_right_is_specialize v : (2 <= length v)%nat ->
  subdivide_right K v = specialize K v h 1.
Proof.
  intros Hl. rewrite specialize_refines by exact Hl.
  unfold subdivide_right, matvec, right_cols, L. rewrite left_cols_raw_W, map_map.
  rewrite rev_map_seq, map_map.
  apply map_ext_in. intros j Hj. apply in_seq in Hj.
  unfold P. rewrite <- (iter_iter_comm K RT). rewrite iter_R1.
  rewrite hd_iter_half by (rewrite skipn_length; lia).
  rewrite (W_length K).
  replace (S (length v - 1) - S (length v - 1 - j))%nat with j by lia.
  apply (dot_zeros_app K RT).
Qed.
End Subdivide.

(* ---- junction: the last node of the left half and the first node of the right half are
   ONE expression (same weights, same order), hence bit-identical in any arithmetic.
   No ring axiom is used: K is an arbitrary interpretation of the operations. *)
Section Junction.
Context {T : Type} (K : Ops T).
Lemma next_left_col_length c : length (next_left_col K c) = S (length c).
Proof.
  unfold next_left_col.
  assert (G : forall (l r : list T), length l = length r -> length (zipw (oadd K) l r) = length l).
  { induction l; intros [|b r] H; simpl in H |- *; try discriminate; auto. }
  rewrite G.
  - rewrite app_length, map_length. cbn [length]. lia.
  - rewrite app_length. cbn [length]. rewrite !map_length. lia.
Qed.
Lemma left_cols_aux_ne k c : left_cols_aux K k c <> [].
Proof. destruct k; discriminate. Qed.
Lemma left_cols_aux_last : forall k c d, length (last (left_cols_aux K k c) d) = (k + length c)%nat.
Proof.
  induction k; intros c d; [reflexivity|].
  change (left_cols_aux K (S k) c) with (c :: left_cols_aux K k (next_left_col K c)).
  pose proof (left_cols_aux_ne k (next_left_col K c)) as Hne.
  destruct (left_cols_aux K k (next_left_col K c)) as [|x l] eqn:Eq; [congruence|].
  change (last (c :: x :: l) d) with (last (x :: l) d). rewrite <- Eq, IHk, next_left_col_length. lia.
Qed.

Theorem junction_shared v : v <> [] ->
  last (subdivide_left K v) (o0 K) = hd (o0 K) (subdivide_right K v).
Proof.
  intros Hne. unfold subdivide_left, subdivide_right, matvec, left_cols, right_cols.
  set (n := (length v - 1)%nat). unfold left_cols_raw.
  pose proof (left_cols_aux_ne n [o1 K]) as Hraw.
  pose proof (left_cols_aux_last n [o1 K] []) as Hlen. cbn [length] in Hlen.
  destruct (@exists_last _ (left_cols_aux K n [o1 K]) Hraw) as [pre [c Hc]].
  rewrite Hc in Hlen |- *. rewrite last_last in Hlen.
  rewrite !map_app. cbn [map]. rewrite rev_app_distr. cbn [rev app hd].
  rewrite !last_last.
  unfold pad. rewrite Hlen. replace (S n - (n + 1))%nat with 0%nat by lia.
  cbn [repeat app]. rewrite app_nil_r. reflexivity.
Qed.
End Junction.
