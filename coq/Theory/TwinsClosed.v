(* C04: the closed forms of the compiled specialize_curve (2 nodes inline, 3 nodes specialize_curve_quadratic), translated from the
   Fortran text into the generic arithmetic record, are the model of specialize_curve (the dictionary walk): any commutative ring. *)
From Coq Require Import List Arith Ring.
From BZ Require Import Base.Ops Model.Curve Gen.F90Closed.
Import ListNotations.

Section ClosedForms.
Context {T : Type} (K : Ops T) (RT : ring_of K).
Add Ring TRC : RT.

Theorem f90_specialize_linear_is_specialize a b v1 v2 :
  f90_specialize_curve_linear K a b v1 v2 = specialize K [v1; v2] a b.
Proof.
  unfold f90_specialize_curve_linear. cbv [specialize spec_level1 spec_next dcR dc_round length Nat.sub iter map hd].
  apply (f_equal2 cons); [ring|]. apply (f_equal2 cons); [ring|reflexivity].
Qed.
Theorem f90_specialize_quadratic_is_specialize a b v1 v2 v3 :
  f90_specialize_curve_quadratic K a b v1 v2 v3 = specialize K [v1; v2; v3] a b.
Proof.
  unfold f90_specialize_curve_quadratic. cbv zeta. cbv [specialize spec_level1 spec_next dcR dc_round length Nat.sub iter map hd ofn].
  apply (f_equal2 cons); [ring|]. apply (f_equal2 cons); [ring|]. apply (f_equal2 cons); [ring|reflexivity].
Qed.
End ClosedForms.
