(* C03: the round theorem stated about the EXECUTABLE candidate-flow model (Model/Rounds.v, corresponded with the real loop).
   If a pair of non-linearized candidates covers a common point of the two original curves (its members are, read as real nets,
   the restrictions of the originals to their parameter intervals, which contain the parameters of the point), then step_pair
   does not drop it: the pair is not classified Disjoint, and when it is classified Intersection one of the pairs it hands to
   the next round covers the point again. *)
From Coq Require Import List Arith Lia ZArith QArith Qcanon Qreals Reals Lra String Bool.
From BZ Require Import Base.Ops Base.QcInst Base.RInst Base.PyVal Model.Curve Model.CurvePy Model.Rounds
  Theory.CurveEval Theory.CurveSubdiv Theory.CurveTables Theory.Hom Theory.SubdivHom Theory.LocateTheory Theory.RoundTheory
  Gen.PyFnHelpers Gen.PyFnGeometric Theory.Predicates.
Import ListNotations.
Local Open Scope R_scope.

(* candidate c covers the parameter s of the planar curve (ox, oy) *)
Definition CoverC (ox oy : list R) (c : cand) (s : R) : Prop :=
  exists xs ys, Rounds.rows c = [xs; ys] /\
    Restr ox oy (map Qc2R xs) (map Qc2R ys) (Qc2R (cstart c)) (Qc2R (cend c)) /\
    Qc2R (cstart c) <= s <= Qc2R (cend c).

Lemma map_Q2R_this (l : list Qc) : map Q2R (map this l) = map Qc2R l.
Proof. rewrite map_map. reflexivity. Qed.

Lemma from_shape_same c : Rounds.rows (from_shape c) = Rounds.rows c /\ cstart (from_shape c) = cstart c /\ cend (from_shape c) = cend c.
Proof. unfold from_shape. destruct (Rounds.lin c); [auto|]. destruct (Qc_ltb _ _); cbn; auto. Qed.
Lemma CoverC_from_shape ox oy c s : CoverC ox oy c s -> CoverC ox oy (from_shape c) s.
Proof. destruct (from_shape_same c) as [E1 [E2 E3]]. unfold CoverC. rewrite E1, E2, E3. auto. Qed.

Lemma Qc2R_mid a b : Qc2R (Q2Qc (1 # 2) * (a + b))%Qc = (Qc2R a + Qc2R b) / 2.
Proof.
  change (Q2Qc (1 # 2) * (a + b))%Qc with (omul QcOps (Q2Qc (1 # 2)) (oadd QcOps a b)).
  rewrite (hom_mul _ _ _ Qc2R_hom), (hom_add _ _ _ Qc2R_hom), Qc2R_Q2Qc. cbn [omul oadd ROps]. unfold Q2R. cbn. lra.
Qed.

Lemma subdivide_covers ox oy c s : Rounds.lin c = false -> CoverC ox oy c s ->
  exists c', In c' (subdivide c) /\ CoverC ox oy c' s.
Proof.
  intros Hl (xs & ys & Er & HR & Hs).
  unfold subdivide. rewrite Hl, Er. cbn [map]. rewrite !subdivide_nodes_py_generic. cbn [fst snd map].
  destruct (child_covers ox oy _ _ _ _ s HR Hs) as [[A1 A2]|[A1 A2]].
  - eexists. split; [left; reflexivity|]. unfold CoverC. cbn [Rounds.rows cstart cend].
    exists (subdivide_left QcOps xs), (subdivide_left QcOps ys). split; [reflexivity|].
    rewrite !subdivide_left_hom, Qc2R_mid. split; assumption.
  - eexists. split; [right; left; reflexivity|]. unfold CoverC. cbn [Rounds.rows cstart cend].
    exists (subdivide_right QcOps xs), (subdivide_right QcOps ys). split; [reflexivity|].
    rewrite !subdivide_right_hom, Qc2R_mid. split; assumption.
Qed.

Lemma cover_rows_shape ox oy c s : CoverC ox oy c s ->
  exists x0 xs y0 ys, qrows c = [this x0 :: map this xs; this y0 :: map this ys] /\ Rounds.rows c = [x0 :: xs; y0 :: ys].
Proof.
  intros (xs & ys & Er & (_ & _ & Lx & Ly & _) & _). rewrite !map_length in Lx, Ly.
  destruct xs as [|x0 xs]; [cbn [List.length] in Lx; lia|]. destruct ys as [|y0 ys]; [cbn [List.length] in Ly; lia|].
  exists x0, xs, y0, ys. unfold qrows. rewrite Er. split; reflexivity.
Qed.

Theorem step_pair_keeps_the_common_point (o1x o1y o2x o2y : list R) (f s : cand) (ps pt : R) :
  Rounds.lin f = false -> Rounds.lin s = false ->
  CoverC o1x o1y f ps -> CoverC o2x o2y s pt -> B o1x ps = B o2x pt -> B o1y ps = B o2y pt ->
  classify f s <> Disjoint /\
  (classify f s = Intersection ->
   exists f' s', In (f', s') (fst (step_pair (f, s))) /\ CoverC o1x o1y f' ps /\ CoverC o2x o2y s' pt).
Proof.
  intros Lf Ls Cf Cs Ex Ey.
  destruct (cover_rows_shape _ _ _ _ Cf) as (x10 & x1 & y10 & y1 & Q1 & R1).
  destruct (cover_rows_shape _ _ _ _ Cs) as (x20 & x2 & y20 & y2 & Q2 & R2).
  assert (Hcl : classify f s = box_of (py_bbox_intersect (vq_mat [this x10 :: map this x1; this y10 :: map this y1])
                                                          (vq_mat [this x20 :: map this x2; this y20 :: map this y2]))).
  { unfold classify, nodes_val. rewrite Lf, Ls, Q1, Q2. reflexivity. }
  assert (Hnd : py_bbox_intersect (vq_mat [this x10 :: map this x1; this y10 :: map this y1])
                                  (vq_mat [this x20 :: map this x2; this y20 :: map this y2]) <> VEnum "DISJOINT").
  { destruct Cf as (xs & ys & Er & HR1 & Hs1). destruct Cs as (xs' & ys' & Er' & HR2 & Hs2).
    rewrite R1 in Er. injection Er as <- <-. rewrite R2 in Er'. injection Er' as <- <-.
    apply (covering_pair_is_not_classified_disjoint o1x o1y o2x o2y _ _ _ _ _ _ _ _ (Qc2R (cstart f)) (Qc2R (cend f)) (Qc2R (cstart s)) (Qc2R (cend s)) ps pt); try assumption.
    - cbn [map]. rewrite !map_Q2R_this. exact HR1.
    - cbn [map]. rewrite !map_Q2R_this. exact HR2. }
  split.
  - rewrite Hcl. intros Hd.
    destruct (bbox_spec (this x10) (map this x1) (this y10) (map this y1)) as [l1 [r1 [b1 [t1 [E1 _]]]]].
    destruct (bbox_spec (this x20) (map this x2) (this y20) (map this y2)) as [l2 [r2 [b2 [t2 [E2 _]]]]].
    rewrite (bbox_intersect_spec _ _ _ _ _ _ _ _ _ _ E1 E2) in Hd, Hnd.
    unfold bbox_intersect_boxes in Hd, Hnd.
    destruct (Qltb r2 l1 || Qltb r1 l2 || Qltb t2 b1 || Qltb t1 b2)%bool; [apply Hnd; reflexivity|].
    destruct (Qeqb r2 l1 || Qeqb r1 l2 || Qeqb t2 b1 || Qeqb t1 b2)%bool; cbn in Hd; discriminate.
  - intros Hi. unfold step_pair. rewrite Hi, Lf, Ls. cbn [andb fst].
    destruct (subdivide_covers _ _ f ps Lf Cf) as (f' & Hf' & Cf').
    destruct (subdivide_covers _ _ s pt Ls Cs) as (s' & Hs' & Cs').
    exists (from_shape f'), (from_shape s'). split; [|split; apply CoverC_from_shape; assumption].
    apply in_prod; apply in_map; assumption.
Qed.

(* the initial pair of all_intersections covers every common point *)
Lemma initial_covers (x1 y1 x2 y2 : list Q) (ps pt : R) :
  (2 <= List.length x1)%nat -> (2 <= List.length y1)%nat -> (2 <= List.length x2)%nat -> (2 <= List.length y2)%nat ->
  0 <= ps <= 1 -> 0 <= pt <= 1 ->
  match initial x1 y1 x2 y2 with
  | [(f, s)] => CoverC (map Q2R x1) (map Q2R y1) f ps /\ CoverC (map Q2R x2) (map Q2R y2) s pt
  | _ => False
  end.
Proof.
  intros L1 L2 L3 L4 Hs Ht. unfold initial.
  assert (HQ : forall l, map Qc2R (qcs l) = map Q2R l).
  { intros l. unfold qcs. rewrite map_map. apply map_ext. intros q. apply Qc2R_Q2Qc. }
  assert (H0 : Qc2R (Q2Qc 0) = 0) by (rewrite Qc2R_Q2Qc; unfold Q2R; cbn; lra).
  assert (H1 : Qc2R (Q2Qc 1) = 1) by (rewrite Qc2R_Q2Qc; unfold Q2R; cbn; lra).
  split; apply CoverC_from_shape; unfold CoverC; cbn [Rounds.rows cstart cend]; do 2 eexists; (split; [reflexivity|]);
    rewrite !HQ, H0, H1; (split; [apply Restr_initial; rewrite map_length; assumption|assumption]).
Qed.

(* ---------------- the Tangent branch is NOT complete (finding F2 as a theorem about the model) ----------------
   A covering pair that is classified Tangent is handed to tangent_bbox_intersection, which compares END points only, and
   produces no candidates for the next round.  Witness: curve 1 is the folded vertical segment (1,0), (1,2), (1,1) (every
   control point on the line x = 1), curve 2 = (1,5/4), (2,2), (3,5/4) starts on that line.  They meet at B1(1/2) = B2(0) =
   (1, 5/4) - an interior parameter of curve 1 - the boxes touch along x = 1, and the pair yields no further candidates. *)
Definition f2_x1 : list Q := [1; 1; 1]%Q.   Definition f2_y1 : list Q := [0; 2; 1]%Q.
Definition f2_x2 : list Q := [1; 2; 3]%Q.   Definition f2_y2 : list Q := [5 # 4; 2; 5 # 4]%Q.
Lemma f2_common_point :
  B (map Q2R f2_x1) (/ 2) = B (map Q2R f2_x2) 0 /\ B (map Q2R f2_y1) (/ 2) = B (map Q2R f2_y2) 0.
Proof.
  unfold B, bernstein, f2_x1, f2_y1, f2_x2, f2_y2. cbn [map List.length Nat.sub bsum choose Nat.add ofn pw].
  cbn [oadd omul osub o0 o1 ROps]. unfold Q2R. cbn [Qnum Qden]. split; field.
Qed.
Theorem tangent_branch_loses_a_common_point :
  exists f s, initial f2_x1 f2_y1 f2_x2 f2_y2 = [(f, s)] /\
    Rounds.lin f = false /\ Rounds.lin s = false /\
    CoverC (map Q2R f2_x1) (map Q2R f2_y1) f (/ 2) /\ CoverC (map Q2R f2_x2) (map Q2R f2_y2) s 0 /\
    classify f s = Tangent /\ fst (step_pair (f, s)) = [] /\
    snd (step_pair (f, s)) = [EvTangent f s] /\
    B (map Q2R f2_x1) (/ 2) = B (map Q2R f2_x2) 0 /\ B (map Q2R f2_y1) (/ 2) = B (map Q2R f2_y2) 0.
Proof.
  pose proof (initial_covers f2_x1 f2_y1 f2_x2 f2_y2 (/ 2) 0) as Hc.
  destruct (initial f2_x1 f2_y1 f2_x2 f2_y2) as [|[f s] rest] eqn:E; [vm_compute in E; discriminate|].
  destruct rest; [|vm_compute in E; discriminate].
  exists f, s. split; [reflexivity|].
  assert (Hcov := Hc ltac:(cbn; lia) ltac:(cbn; lia) ltac:(cbn; lia) ltac:(cbn; lia) ltac:(lra) ltac:(lra)).
  destruct Hcov as [C1 C2].
  assert (Ef : f = fst (hd (f, s) (initial f2_x1 f2_y1 f2_x2 f2_y2))) by (rewrite E; reflexivity).
  assert (Es : s = snd (hd (f, s) (initial f2_x1 f2_y1 f2_x2 f2_y2))) by (rewrite E; reflexivity).
  assert (Hf : Rounds.lin f = false /\ Rounds.lin s = false /\ classify f s = Tangent /\
               fst (step_pair (f, s)) = [] /\ snd (step_pair (f, s)) = [EvTangent f s]).
  { injection E as E1 E2. subst f s. vm_compute. repeat split; reflexivity. }
  destruct Hf as (A & B0 & C & D & F). destruct f2_common_point as [P1 P2]. repeat split; assumption.
Qed.
