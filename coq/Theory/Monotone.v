(* C18: a planar Bezier curve whose hodograph control vectors all lie in one open half-plane is INJECTIVE on [0,1]
   (hence has no self-intersection: the empty answer is the correct one).  Every degree, real arithmetic, no analysis:
     f(t) - f(s) = sum_k [h_{k+1} - h_k],  h_k = de Casteljau with k rounds at t then n-k rounds at s,
     h_{k+1} - h_k = (t - s) * (de Casteljau of the difference net with k rounds at t, n-k-1 rounds at s)
   and de Casteljau rounds with parameters in [0,1] keep a positive net positive. *)
From Coq Require Import List Arith Lia Reals Lra Psatz.
From BZ Require Import Base.Ops Base.RInst Model.Curve Theory.CurveEval.
Import ListNotations.
Open Scope R_scope.

Definition dcr (t : R) (v : list R) : list R := dc_round ROps (1 - t) t v.
Fixpoint rounds (t : R) (m : nat) (v : list R) : list R :=
  match m with O => v | S m' => rounds t m' (dcr t v) end.
Fixpoint diffs (v : list R) : list R :=
  match v with a :: ((b :: _) as v') => (b - a) :: diffs v' | _ => [] end.
Definition lin2 (a b : R) (xs ys : list R) : list R := zipw (fun x y => a * x + b * y) xs ys.

Lemma dcr_cons2 t a b v : dcr t (a :: b :: v) = ((1 - t) * a + t * b) :: dcr t (b :: v).
Proof. reflexivity. Qed.
Lemma diffs_cons2 a b v : diffs (a :: b :: v) = (b - a) :: diffs (b :: v).
Proof. reflexivity. Qed.

Lemma dcr_length t v : length (dcr t v) = pred (length v).
Proof. apply (dc_round_length ROps). Qed.
Lemma diffs_length : forall v, length (diffs v) = pred (length v).
Proof.
  induction v as [|a [|b v] IH]; [reflexivity|reflexivity|].
  rewrite diffs_cons2. cbn [length pred]. rewrite IH. reflexivity.
Qed.
Lemma rounds_length t : forall m v, length (rounds t m v) = (length v - m)%nat.
Proof.
  induction m as [|m IH]; intros v; cbn [rounds]; [lia|]. rewrite IH, dcr_length. lia.
Qed.
Lemma rounds_S_outer t : forall m v, rounds t (S m) v = dcr t (rounds t m v).
Proof. induction m as [|m IH]; intros v; [reflexivity|]. cbn [rounds] in *. apply IH. Qed.

(* one round commutes with taking differences *)
Lemma diffs_dcr t : forall v, diffs (dcr t v) = dcr t (diffs v).
Proof.
  induction v as [|a [|b [|c v]] IH]; [reflexivity|reflexivity|reflexivity|].
  assert (E1 : dcr t (a :: b :: c :: v) = ((1 - t) * a + t * b) :: ((1 - t) * b + t * c) :: dcr t (c :: v)) by reflexivity.
  assert (E2 : dcr t (b :: c :: v) = ((1 - t) * b + t * c) :: dcr t (c :: v)) by reflexivity.
  assert (E3 : diffs (a :: b :: c :: v) = (b - a) :: (c - b) :: diffs (c :: v)) by reflexivity.
  assert (E4 : diffs (b :: c :: v) = (c - b) :: diffs (c :: v)) by reflexivity.
  rewrite E1, E3. rewrite diffs_cons2, dcr_cons2. rewrite <- E2, <- E4. rewrite IH. f_equal. ring.
Qed.
Lemma diffs_rounds t : forall m v, diffs (rounds t m v) = rounds t m (diffs v).
Proof. induction m as [|m IH]; intros v; cbn [rounds]; [reflexivity|]. rewrite IH, diffs_dcr. reflexivity. Qed.

(* one round is linear in the net *)
Lemma dcr_lin2 t a b : forall xs ys, length xs = length ys ->
  dcr t (lin2 a b xs ys) = lin2 a b (dcr t xs) (dcr t ys).
Proof.
  induction xs as [|x [|x' xs] IH]; intros [|y [|y' ys]] Hl; try discriminate Hl; try reflexivity.
  change (lin2 a b (x :: x' :: xs) (y :: y' :: ys)) with ((a * x + b * y) :: (a * x' + b * y') :: lin2 a b xs ys).
  rewrite dcr_cons2. rewrite (dcr_cons2 t x x' xs), (dcr_cons2 t y y' ys).
  change (lin2 a b (((1 - t) * x + t * x') :: dcr t (x' :: xs)) (((1 - t) * y + t * y') :: dcr t (y' :: ys)))
    with ((a * ((1 - t) * x + t * x') + b * ((1 - t) * y + t * y')) :: lin2 a b (dcr t (x' :: xs)) (dcr t (y' :: ys))).
  rewrite <- (IH (y' :: ys)) by (simpl in Hl |- *; lia).
  f_equal. ring.
Qed.
Lemma lin2_length a b xs ys : length xs = length ys -> length (lin2 a b xs ys) = length xs.
Proof.
  revert ys. induction xs as [|x xs IH]; intros [|y ys] Hl; try discriminate Hl; [reflexivity|].
  cbn [lin2 zipw length]. f_equal. apply IH. simpl in Hl. lia.
Qed.
Lemma rounds_lin2 t a b : forall m xs ys, length xs = length ys ->
  rounds t m (lin2 a b xs ys) = lin2 a b (rounds t m xs) (rounds t m ys).
Proof.
  induction m as [|m IH]; intros xs ys Hl; cbn [rounds]; [reflexivity|].
  rewrite dcr_lin2 by exact Hl. apply IH. rewrite !dcr_length, Hl. reflexivity.
Qed.
Lemma hd_lin2 a b xs ys : xs <> [] -> ys <> [] -> hd 0 (lin2 a b xs ys) = a * hd 0 xs + b * hd 0 ys.
Proof. destruct xs; [congruence|]. destruct ys; [congruence|]. reflexivity. Qed.

(* changing the parameter of one round: dcr t w = dcr s w + (t - s) diffs w *)
Lemma dcr_change s t : forall w, dcr t w = lin2 1 (t - s) (dcr s w) (diffs w).
Proof.
  induction w as [|a [|b w] IH]; [reflexivity|reflexivity|].
  rewrite !dcr_cons2, diffs_cons2.
  change (lin2 1 (t - s) (((1 - s) * a + s * b) :: dcr s (b :: w)) ((b - a) :: diffs (b :: w)))
    with ((1 * ((1 - s) * a + s * b) + (t - s) * (b - a)) :: lin2 1 (t - s) (dcr s (b :: w)) (diffs (b :: w))).
  rewrite <- IH. f_equal. ring.
Qed.

(* positivity is preserved by rounds with a parameter in [0,1] *)
Definition allpos (v : list R) : Prop := Forall (fun x => 0 < x) v.
Lemma dcr_pos t : 0 <= t <= 1 -> forall v, allpos v -> allpos (dcr t v).
Proof.
  intros Ht. induction v as [|a [|b v] IH]; intros Hv; [constructor|constructor|].
  rewrite dcr_cons2. inversion Hv as [|? ? Ha Hv']; subst. constructor.
  - inversion Hv' as [|? ? Hb _]; subst.
    destruct (Req_dec t 0) as [E|E]; [subst; lra|].
    assert (0 < t * b) by (apply Rmult_lt_0_compat; lra).
    assert (0 <= (1 - t) * a) by (apply Rmult_le_pos; lra). lra.
  - apply IH. exact Hv'.
Qed.
Lemma rounds_pos t : 0 <= t <= 1 -> forall m v, allpos v -> allpos (rounds t m v).
Proof. intros Ht. induction m as [|m IH]; intros v Hv; cbn [rounds]; [exact Hv|]. apply IH, dcr_pos; assumption. Qed.
Lemma hd_pos v : v <> [] -> allpos v -> 0 < hd 0 v.
Proof. destruct v; [congruence|]. intros _ H. inversion H; subst. assumption. Qed.

(* the k-th intermediate value: k rounds at t, then n - k rounds at s *)
Definition hk (s t : R) (n k : nat) (v : list R) : R := hd 0 (rounds s (n - k) (rounds t k v)).

Lemma hk_step s t n k v : length v = S n -> (k < n)%nat ->
  hk s t n (S k) v - hk s t n k v = (t - s) * hd 0 (rounds s (n - S k) (rounds t k (diffs v))).
Proof.
  intros Hl Hk. unfold hk.
  set (w := rounds t k v).
  assert (Hw : length w = (S n - k)%nat) by (unfold w; rewrite rounds_length, Hl; reflexivity).
  rewrite rounds_S_outer. fold w.
  replace (n - k)%nat with (S (n - S k)) by lia. cbn [rounds].
  rewrite (dcr_change s t w).
  assert (Hlen : length (dcr s w) = length (diffs w)) by (rewrite dcr_length, diffs_length; reflexivity).
  rewrite rounds_lin2 by exact Hlen.
  rewrite hd_lin2.
  - unfold w. rewrite diffs_rounds. ring.
  - intro E. apply (f_equal (@length R)) in E. rewrite rounds_length, dcr_length, Hw in E. cbn [length] in E. lia.
  - intro E. apply (f_equal (@length R)) in E. rewrite rounds_length, diffs_length, Hw in E. cbn [length] in E. lia.
Qed.

Lemma hk_increasing s t n v : length v = S n -> allpos (diffs v) -> 0 <= s -> s < t -> t <= 1 ->
  forall k, (k < n)%nat -> hk s t n k v < hk s t n (S k) v.
Proof.
  intros Hl Hp Hs Hst Ht k Hk.
  assert (E := hk_step s t n k v Hl Hk).
  assert (P : 0 < hd 0 (rounds s (n - S k) (rounds t k (diffs v)))).
  { apply hd_pos.
    - intro E0. apply (f_equal (@length R)) in E0. rewrite !rounds_length, diffs_length, Hl in E0. cbn [length] in E0. lia.
    - apply rounds_pos; [lra|]. apply rounds_pos; [lra|]. exact Hp. }
  assert (0 < (t - s) * hd 0 (rounds s (n - S k) (rounds t k (diffs v)))) by (apply Rmult_lt_0_compat; lra).
  lra.
Qed.

Lemma hk_chain s t n v : length v = S n -> allpos (diffs v) -> 0 <= s -> s < t -> t <= 1 ->
  forall k, (1 <= k <= n)%nat -> hk s t n 0 v < hk s t n k v.
Proof.
  intros Hl Hp Hs Hst Ht. induction k as [|k IH]; intros Hk; [lia|].
  destruct k as [|k].
  - apply hk_increasing; try assumption. lia.
  - apply Rlt_trans with (hk s t n (S k) v); [apply IH; lia|]. apply hk_increasing; try assumption. lia.
Qed.

Lemma dc_eval_rounds x : forall m v, dc_eval ROps m (1 - x) x v = hd 0 (rounds x m v).
Proof. induction m as [|m IH]; intros v; [reflexivity|]. cbn [dc_eval rounds]. apply IH. Qed.

(* strictly increasing Bernstein coefficients give a strictly increasing polynomial on [0,1] (every degree >= 1) *)
Theorem increasing_net_is_increasing (c : list R) (s t : R) : (2 <= length c)%nat -> allpos (diffs c) ->
  0 <= s -> s < t -> t <= 1 -> bernstein ROps c (1 - s) s < bernstein ROps c (1 - t) t.
Proof.
  intros Hl Hp Hs Hst Ht.
  assert (Hne : c <> []) by (intro E; subst; simpl in Hl; lia).
  rewrite <- !(eval_dc_correct ROps RRing c) by exact Hne.
  unfold eval_dc. destruct (length c) as [|n] eqn:En; [lia|].
  replace (S n - 1)%nat with n by lia.
  change (osub ROps (o1 ROps) s) with (1 - s). change (osub ROps (o1 ROps) t) with (1 - t).
  rewrite !dc_eval_rounds.
  assert (H := hk_chain s t n c En Hp Hs Hst Ht n ltac:(lia)).
  unfold hk in H. rewrite Nat.sub_0_r, Nat.sub_diag in H. cbn [rounds] in H. exact H.
Qed.

(* the planar statement: if some direction (a, b) has a positive component along every hodograph control vector
   (all of them in one open half-plane), two different parameters give two different points *)
Theorem half_plane_hodograph_is_injective (xs ys : list R) (a b s t : R) :
  length xs = length ys -> (2 <= length xs)%nat -> allpos (diffs (lin2 a b xs ys)) ->
  0 <= s <= 1 -> 0 <= t <= 1 -> s <> t ->
  ~ (bernstein ROps xs (1 - s) s = bernstein ROps xs (1 - t) t /\ bernstein ROps ys (1 - s) s = bernstein ROps ys (1 - t) t).
Proof.
  intros Hl H2 Hp Hs Ht Hne [Ex Ey].
  assert (Hc : (2 <= length (lin2 a b xs ys))%nat) by (rewrite lin2_length by exact Hl; exact H2).
  assert (Hx : xs <> []) by (intro E; subst; simpl in H2; lia).
  assert (Hy : ys <> []) by (intro E; subst; simpl in Hl, H2; lia).
  assert (L : forall u, bernstein ROps (lin2 a b xs ys) (1 - u) u
                        = a * bernstein ROps xs (1 - u) u + b * bernstein ROps ys (1 - u) u).
  { intros u.
    assert (Hc0 : lin2 a b xs ys <> []) by (intro E; rewrite E in Hc; simpl in Hc; lia).
    rewrite <- !(eval_dc_correct ROps RRing) by assumption.
    unfold eval_dc. rewrite lin2_length by exact Hl. rewrite <- Hl.
    change (osub ROps (o1 ROps) u) with (1 - u).
    rewrite !dc_eval_rounds. rewrite rounds_lin2 by exact Hl. apply hd_lin2.
    - intro E. apply (f_equal (@length R)) in E. rewrite rounds_length in E. cbn [length] in E. lia.
    - intro E. apply (f_equal (@length R)) in E. rewrite rounds_length in E. cbn [length] in E. lia. }
  destruct (Rlt_or_le s t) as [Hlt|Hge].
  - assert (H := increasing_net_is_increasing _ s t Hc Hp ltac:(lra) Hlt ltac:(lra)).
    rewrite !L, Ex, Ey in H. lra.
  - assert (Hlt : t < s) by lra.
    assert (H := increasing_net_is_increasing _ t s Hc Hp ltac:(lra) Hlt ltac:(lra)).
    rewrite !L, Ex, Ey in H. lra.
Qed.
