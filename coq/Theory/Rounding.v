(* Standard model of floating-point arithmetic as an Ops instance, and a small calculus of accumulated rounding errors.
   fl is ANY function with relative error at most u (no overflow / underflow / NaN: the standard-model caveat).
   approx k c a m  :  c is the computed value, a the exact one, m a majorant of |a| (the same expression evaluated on
   absolute values), and  |c - a| <= ((1+u)^k - 1) m  - "at most k roundings on every path". *)
From Coq Require Import Reals Lra Lia List Arith.
From BZ Require Import Base.Ops Base.RInst.
Import ListNotations.
Local Open Scope R_scope.

Section Fl.
Variable u : R.
Hypothesis Hu : 0 <= u.
Variable fl : R -> R.
Hypothesis fl_spec : forall x, Rabs (fl x - x) <= u * Rabs x.

Definition FlOps : Ops R :=
  mkOps R 0 1 (fun x y => fl (x + y)) (fun x y => fl (x * y)) (fun x y => fl (x - y)) Ropp
        (fun x y => fl (x / y)) (fun x => fl (/ x)).

Definition g (k : nat) : R := (1 + u) ^ k - 1.
Lemma pow1u_ge1 k : 1 <= (1 + u) ^ k.
Proof. apply pow_R1_Rle. lra. Qed.
Lemma g_nonneg k : 0 <= g k.
Proof. unfold g. pose proof (pow1u_ge1 k). lra. Qed.
Lemma g_mono k k' : (k <= k')%nat -> g k <= g k'.
Proof. intros H. unfold g. apply Rplus_le_compat_r. apply Rle_pow; [lra|exact H]. Qed.
Lemma g_0 : g 0 = 0.
Proof. unfold g. simpl. lra. Qed.

Definition approx (k : nat) (c a m : R) : Prop := Rabs (c - a) <= g k * m /\ Rabs a <= m.

Lemma approx_m_nonneg k c a m : approx k c a m -> 0 <= m.
Proof. intros [_ H]. pose proof (Rabs_pos a). lra. Qed.
Lemma approx_exact a : approx 0 a a (Rabs a).
Proof. split; [|lra]. rewrite g_0. replace (a - a) with 0 by lra. rewrite Rabs_R0. lra. Qed.
Lemma approx_exact_le a m : Rabs a <= m -> approx 0 a a m.
Proof. intros H. split; [|exact H]. rewrite g_0. replace (a - a) with 0 by lra. rewrite Rabs_R0. lra. Qed.
Lemma approx_weaken k k' c a m : (k <= k')%nat -> approx k c a m -> approx k' c a m.
Proof.
  intros Hk [H1 H2]. split; [|exact H2]. eapply Rle_trans; [exact H1|].
  apply Rmult_le_compat_r; [pose proof (Rabs_pos a); lra | apply g_mono; exact Hk].
Qed.
(* |c| <= (1+u)^k m *)
Lemma approx_bound k c a m : approx k c a m -> Rabs c <= (1 + u) ^ k * m.
Proof.
  intros [H1 H2]. replace c with ((c - a) + a) by lra. eapply Rle_trans; [apply Rabs_triang|].
  unfold g in H1. lra.
Qed.

(* rounding an exactly computed combination *)
Lemma round_step k x a m : Rabs (x - a) <= g k * m -> Rabs a <= m -> Rabs x <= (1 + u) ^ k * m ->
  approx (S k) (fl x) a m.
Proof.
  intros H1 H2 H3. split; [|exact H2].
  replace (fl x - a) with ((fl x - x) + (x - a)) by lra.
  eapply Rle_trans; [apply Rabs_triang|].
  pose proof (fl_spec x) as Hf.
  assert (Hm : 0 <= m) by (pose proof (Rabs_pos a); lra).
  assert (u * Rabs x <= u * ((1 + u) ^ k * m)) by (apply Rmult_le_compat_l; assumption).
  unfold g in *. simpl. lra.
Qed.

Lemma approx_add k c1 a1 m1 c2 a2 m2 :
  approx k c1 a1 m1 -> approx k c2 a2 m2 -> approx (S k) (fl (c1 + c2)) (a1 + a2) (m1 + m2).
Proof.
  intros A1 A2. pose proof (approx_bound _ _ _ _ A1) as B1. pose proof (approx_bound _ _ _ _ A2) as B2.
  destruct A1 as [H1 H1']. destruct A2 as [H2 H2'].
  apply round_step.
  - replace (c1 + c2 - (a1 + a2)) with ((c1 - a1) + (c2 - a2)) by lra.
    eapply Rle_trans; [apply Rabs_triang|]. lra.
  - eapply Rle_trans; [apply Rabs_triang|]. lra.
  - eapply Rle_trans; [apply Rabs_triang|]. lra.
Qed.
Lemma approx_sub k c1 a1 m1 c2 a2 m2 :
  approx k c1 a1 m1 -> approx k c2 a2 m2 -> approx (S k) (fl (c1 - c2)) (a1 - a2) (m1 + m2).
Proof.
  intros A1 A2. pose proof (approx_bound _ _ _ _ A1) as B1. pose proof (approx_bound _ _ _ _ A2) as B2.
  destruct A1 as [H1 H1']. destruct A2 as [H2 H2'].
  apply round_step.
  - replace (c1 - c2 - (a1 - a2)) with ((c1 - a1) + - (c2 - a2)) by lra.
    eapply Rle_trans; [apply Rabs_triang|]. rewrite Rabs_Ropp. lra.
  - unfold Rminus. eapply Rle_trans; [apply Rabs_triang|]. rewrite Rabs_Ropp. lra.
  - unfold Rminus. eapply Rle_trans; [apply Rabs_triang|]. rewrite Rabs_Ropp. lra.
Qed.

Lemma approx_mul k1 k2 c1 a1 m1 c2 a2 m2 :
  approx k1 c1 a1 m1 -> approx k2 c2 a2 m2 -> approx (S (k1 + k2)) (fl (c1 * c2)) (a1 * a2) (m1 * m2).
Proof.
  intros A1 A2. pose proof (approx_bound _ _ _ _ A1) as B1. pose proof (approx_bound _ _ _ _ A2) as B2.
  pose proof (approx_m_nonneg _ _ _ _ A1) as M1. pose proof (approx_m_nonneg _ _ _ _ A2) as M2.
  destruct A1 as [H1 H1']. destruct A2 as [H2 H2'].
  set (P1 := (1 + u) ^ k1) in *. set (P2 := (1 + u) ^ k2) in *.
  assert (HP1 : 1 <= P1) by apply pow1u_ge1. assert (HP2 : 1 <= P2) by apply pow1u_ge1.
  unfold g in H1, H2. fold P1 in H1. fold P2 in H2.
  assert (Hprod : Rabs (c1 * c2) <= P1 * P2 * (m1 * m2)).
  { rewrite Rabs_mult. replace (P1 * P2 * (m1 * m2)) with ((P1 * m1) * (P2 * m2)) by ring.
    apply Rmult_le_compat; try apply Rabs_pos; assumption. }
  assert (Hdiff : Rabs (c1 * c2 - a1 * a2) <= (P1 * P2 - 1) * (m1 * m2)).
  { replace (c1 * c2 - a1 * a2) with ((c1 - a1) * c2 + a1 * (c2 - a2)) by ring.
    eapply Rle_trans; [apply Rabs_triang|]. rewrite !Rabs_mult.
    assert (Rabs (c1 - a1) * Rabs c2 <= ((P1 - 1) * m1) * (P2 * m2)).
    { apply Rmult_le_compat; try apply Rabs_pos; assumption. }
    assert (Rabs a1 * Rabs (c2 - a2) <= m1 * ((P2 - 1) * m2)).
    { apply Rmult_le_compat; try apply Rabs_pos; assumption. }
    replace ((P1 * P2 - 1) * (m1 * m2)) with (((P1 - 1) * m1) * (P2 * m2) + m1 * ((P2 - 1) * m2)) by ring. lra. }
  apply round_step.
  - unfold g. rewrite pow_add. fold P1 P2. exact Hdiff.
  - rewrite Rabs_mult. apply Rmult_le_compat; try apply Rabs_pos; assumption.
  - rewrite pow_add. fold P1 P2. exact Hprod.
Qed.
(* multiplication by an exact factor *)
Lemma approx_scal k l c a m : approx k c a m -> approx (S k) (fl (l * c)) (l * a) (Rabs l * m).
Proof. intros A. apply (approx_mul 0 k l l (Rabs l) c a m (approx_exact l) A). Qed.
(* fl(1 - s): one rounding, majorant |1 - s| *)
Lemma approx_sub_exact s : approx 1 (fl (1 - s)) (1 - s) (Rabs (1 - s)).
Proof.
  apply (round_step 0).
  - replace (1 - s - (1 - s)) with 0 by lra. rewrite Rabs_R0, g_0. lra.
  - lra.
  - simpl. lra.
Qed.
End Fl.
