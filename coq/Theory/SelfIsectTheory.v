(* C18 (shape of the result): whatever the oracles answer - as long as all_intersections returns pairs of the unit
   square - every reported self-intersection (s1, s2) satisfies 0 <= s1 < s2 <= 1; in particular the trivial meeting
   of two halves (s1 = s2) is never reported, at any recursion depth. *)
From Coq Require Import List ZArith QArith Bool Lqa.
From BZ Require Import Model.Intersect Model.SelfIsect Theory.Uniq.
Import ListNotations.
Open Scope Q_scope.

Definition unit_pair (p : pairQ) : Prop := 0 <= fst p <= 1 /\ 0 <= snd p <= 1.
Definition ordered (p : pairQ) : Prop := 0 <= fst p /\ fst p < snd p /\ snd p <= 1.
Definition streams_ok (st : streams) : Prop := Forall (Forall unit_pair) (isects st).

Lemma streams_ok_tail st lr more : streams_ok st -> isects st = lr :: more -> Forall unit_pair lr /\ Forall (Forall unit_pair) more.
Proof. unfold streams_ok. intros H E. rewrite E in H. inversion H; subst. split; assumption. Qed.

(* the loop over add_intersection is the generic "keep unless it repeats something kept" fold *)
Definition dupQ (p e : pairQ) : bool := is_dup (fst p) (snd p) e.
Lemma add_intersection_is_ustep s t ints : add_intersection s t ints = ustep dupQ ints (s, t).
Proof. unfold add_intersection, ustep, dupQ. cbn [fst snd]. destruct ints; reflexivity. Qed.
Lemma uniq_is_uniq_by l : uniq l = uniq_by dupQ l.
Proof.
  assert (G : forall (l : list pairQ) (acc : list pairQ),
             fold_left (fun acc p => add_intersection (fst p) (snd p) acc) l acc = fold_left (ustep dupQ) l acc).
  { clear l. induction l as [|p l IH]; intros acc; [reflexivity|].
    cbn [fold_left]. rewrite add_intersection_is_ustep. destruct p as [s t]. apply IH. }
  exact (G l []).
Qed.
Lemma uniq_incl l p : In p (uniq l) -> In p l.
Proof. rewrite uniq_is_uniq_by. apply uniq_by_incl. Qed.

Theorem self_isect_ordered : forall fuel st res st',
  streams_ok st -> self_isect fuel st = Some (res, st') -> Forall ordered res /\ streams_ok st'.
Proof.
  induction fuel as [|f IH]; intros st res st' Hok H; [discriminate|].
  cbn [self_isect] in H.
  destruct (angles st) as [|[|] rest] eqn:Ea; [discriminate| |].
  - injection H as <- <-. split; [constructor|exact Hok].
  - destruct (self_isect f {| angles := rest; isects := isects st |}) as [[left_self st1]|] eqn:E1; [|discriminate].
    assert (Hok0 : streams_ok {| angles := rest; isects := isects st |}) by exact Hok.
    destruct (IH _ _ _ Hok0 E1) as [HL Hok1].
    destruct (self_isect f st1) as [[right_self st2]|] eqn:E2; [|discriminate].
    destruct (IH _ _ _ Hok1 E2) as [HR Hok2].
    destruct (isects st2) as [|lr more] eqn:Ei; [discriminate|].
    destruct (streams_ok_tail st2 lr more Hok2 Ei) as [Hlr Hmore].
    injection H as <- <-. split; [|exact Hmore].
    apply Forall_forall. intros p0 Hp0. apply uniq_incl in Hp0. revert p0 Hp0. apply Forall_forall.
    apply Forall_app. split; [|apply Forall_app; split].
    + apply Forall_forall. intros p Hp. apply in_map_iff in Hp. destruct Hp as [q [<- Hq]].
      rewrite Forall_forall in HL. destruct (HL q Hq) as [H1 [H2 H3]]. unfold ordered, half. cbn [fst snd]. lra.
    + apply Forall_forall. intros p Hp. apply filter_In in Hp. destruct Hp as [Hp Hns].
      apply in_map_iff in Hp. destruct Hp as [q [<- Hq]].
      rewrite Forall_forall in Hlr. destruct (Hlr q Hq) as [[H1 H2] [H3 H4]].
      unfold ordered, half. cbn [fst snd] in *.
      (* not the split point: not (s/2 = 1/2 and t/2 + 1/2 = 1/2) *)
      apply negb_true_iff in Hns. unfold is_split, half in Hns. cbn [fst snd] in Hns.
      apply andb_false_iff in Hns.
      assert (Hne : ~ (fst q == 1 /\ snd q == 0)).
      { intros [A B]. destruct Hns as [Hn|Hn]; apply Qeq_bool_neq in Hn; apply Hn; [rewrite A|rewrite B]; reflexivity. }
      split; [lra|]. split; [|lra].
      destruct (Qlt_le_dec (fst q) 1) as [Hlt|Hge]; [lra|].
      destruct (Qlt_le_dec 0 (snd q)) as [Hlt2|Hge2]; [lra|].
      exfalso. apply Hne. split; lra.
    + apply Forall_forall. intros p Hp. apply in_map_iff in Hp. destruct Hp as [q [<- Hq]].
      rewrite Forall_forall in HR. destruct (HR q Hq) as [H1 [H2 H3]]. unfold ordered, half. cbn [fst snd]. lra.
Qed.

(* no pair is reported twice: in the reported list no entry repeats an earlier one (add_intersection's notion of repeated:
   relative distance below NEWTON_ERROR_RATIO = 2^-36, read from the source) - at every level of the recursion *)
Theorem self_isect_reports_nothing_twice : forall fuel st res st',
  self_isect fuel st = Some (res, st') -> norepeat dupQ res.
Proof.
  intros [|f] st res st' H; [discriminate|]. cbn [self_isect] in H.
  destruct (angles st) as [|[|] rest]; [discriminate| |].
  - injection H as <- <-. intros [|x l1] p l2 E; discriminate E.
  - destruct (self_isect f _) as [[left_self st1]|]; [|discriminate].
    destruct (self_isect f st1) as [[right_self st2]|]; [|discriminate].
    destruct (isects st2) as [|lr more]; [discriminate|]. injection H as <- <-.
    rewrite uniq_is_uniq_by. apply uniq_by_norepeat.
Qed.
(* ... and nothing found is lost by the removal of repeats: every pair of the three sources is reported or repeats a reported one *)
Theorem uniq_loses_nothing : forall l p, In p l -> In p (uniq l) \/ exists e, In e (uniq l) /\ dupQ p e = true.
Proof. intros l p H. rewrite uniq_is_uniq_by. apply uniq_by_covers. exact H. Qed.
