(* C18 (shape of the result): whatever the oracles answer - as long as all_intersections returns pairs of the unit
   square - every reported self-intersection (s1, s2) satisfies 0 <= s1 < s2 <= 1; in particular the trivial meeting
   of two halves (s1 = s2) is never reported, at any recursion depth. *)
From Coq Require Import List ZArith QArith Bool Lqa.
From BZ Require Import Model.SelfIsect.
Import ListNotations.
Open Scope Q_scope.

Definition unit_pair (p : pairQ) : Prop := 0 <= fst p <= 1 /\ 0 <= snd p <= 1.
Definition ordered (p : pairQ) : Prop := 0 <= fst p /\ fst p < snd p /\ snd p <= 1.
Definition streams_ok (st : streams) : Prop := Forall (Forall unit_pair) (isects st).

Lemma streams_ok_tail st lr more : streams_ok st -> isects st = lr :: more -> Forall unit_pair lr /\ Forall (Forall unit_pair) more.
Proof. unfold streams_ok. intros H E. rewrite E in H. inversion H; subst. split; assumption. Qed.

Theorem self_isect_ordered : forall fuel st res st',
  streams_ok st -> self_isect fuel st = Some (res, st') -> Forall ordered res /\ streams_ok st'.
Proof.
  induction fuel as [|f IH]; intros st res st' Hok H; [discriminate|].
  cbn [self_isect] in H.
  destruct (angles st) as [|[|] rest] eqn:Ea; [discriminate| |].
  - injection H as <- <-. split; [constructor|exact Hok].
  - destruct (self_isect f {| angles := rest; isects := isects st |}) as [[left_self st1]|] eqn:E1; [|discriminate].
    assert (Hok0 : streams_ok {| angles := rest; isects := isects st |}) by exact Hok.
    destruct (IH _ _ _ Hok0 E1) as [HL Hok1].
    destruct (self_isect f st1) as [[right_self st2]|] eqn:E2; [|discriminate].
    destruct (IH _ _ _ Hok1 E2) as [HR Hok2].
    destruct (isects st2) as [|lr more] eqn:Ei; [discriminate|].
    destruct (streams_ok_tail st2 lr more Hok2 Ei) as [Hlr Hmore].
    injection H as <- <-. split; [|exact Hmore].
    apply Forall_app. split; [|apply Forall_app; split].
    + apply Forall_forall. intros p Hp. apply in_map_iff in Hp. destruct Hp as [q [<- Hq]].
      rewrite Forall_forall in HL. destruct (HL q Hq) as [H1 [H2 H3]]. unfold ordered, half. cbn [fst snd]. lra.
    + apply Forall_forall. intros p Hp. apply filter_In in Hp. destruct Hp as [Hp Hns].
      apply in_map_iff in Hp. destruct Hp as [q [<- Hq]].
      rewrite Forall_forall in Hlr. destruct (Hlr q Hq) as [[H1 H2] [H3 H4]].
      unfold ordered, half. cbn [fst snd] in *.
      (* not the split point: not (s/2 = 1/2 and t/2 + 1/2 = 1/2) *)
      apply negb_true_iff in Hns. unfold is_split, half in Hns. cbn [fst snd] in Hns.
      apply andb_false_iff in Hns.
      assert (Hne : ~ (fst q == 1 /\ snd q == 0)).
      { intros [A B]. destruct Hns as [Hn|Hn]; apply Qeq_bool_neq in Hn; apply Hn; [rewrite A|rewrite B]; reflexivity. }
      split; [lra|]. split; [|lra].
      destruct (Qlt_le_dec (fst q) 1) as [Hlt|Hge]; [lra|].
      destruct (Qlt_le_dec 0 (snd q)) as [Hlt2|Hge2]; [lra|].
      exfalso. apply Hne. split; lra.
    + apply Forall_forall. intros p Hp. apply in_map_iff in Hp. destruct Hp as [q [<- Hq]].
      rewrite Forall_forall in HR. destruct (HR q Hq) as [H1 [H2 H3]]. unfold ordered, half. cbn [fst snd]. lra.
Qed.
