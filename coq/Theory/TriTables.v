(* C09: the sixteen hard-coded subdivision tables ARE the generic blossoming path, for ALL nets
   (symbolic control points, `field` over R; the tables and weights are regenerated from the source). *)
From Coq Require Import List Arith Lia QArith Reals Qreals Field.
From BZ Require Import Base.Ops Base.RInst Model.Curve Model.CurvePy Model.Triangle Model.TrianglePy Gen.PyTriangleHelpers.
Import ListNotations.

Local Ltac r_list := repeat (apply (f_equal2 (@cons R)); [field|]); reflexivity.
Local Ltac tri_tables :=
  intros; unfold tri_subdivide_gen;
  match goal with |- context [lookup ?n ?tbl] =>
    let r := eval vm_compute in (lookup n tbl) in change (lookup n tbl) with r end;
  cbv beta iota; unfold tri_subdivide_generic;
  match goal with |- context [tri_subdivide_weights] =>
    let r := eval vm_compute in tri_subdivide_weights in change tri_subdivide_weights with r end;
  cbn -[Rplus Rmult Rminus Rdiv Q2R]; unfold Q2R; cbn [Qnum Qden];
  repeat (apply (f_equal2 (@cons (list R))); [r_list|]); reflexivity.

Lemma tri_tables_1 v0 v1 v2 :
  tri_subdivide_gen ROps Q2R 1 [v0; v1; v2] = tri_subdivide_generic ROps Q2R 1 [v0; v1; v2].
Proof. tri_tables. Qed.
Lemma tri_tables_2 v0 v1 v2 v3 v4 v5 :
  tri_subdivide_gen ROps Q2R 2 [v0; v1; v2; v3; v4; v5] = tri_subdivide_generic ROps Q2R 2 [v0; v1; v2; v3; v4; v5].
Proof. tri_tables. Qed.
Lemma tri_tables_3 v0 v1 v2 v3 v4 v5 v6 v7 v8 v9 :
  tri_subdivide_gen ROps Q2R 3 [v0; v1; v2; v3; v4; v5; v6; v7; v8; v9]
  = tri_subdivide_generic ROps Q2R 3 [v0; v1; v2; v3; v4; v5; v6; v7; v8; v9].
Proof. tri_tables. Qed.
Lemma tri_tables_4 v0 v1 v2 v3 v4 v5 v6 v7 v8 v9 v10 v11 v12 v13 v14 :
  tri_subdivide_gen ROps Q2R 4 [v0; v1; v2; v3; v4; v5; v6; v7; v8; v9; v10; v11; v12; v13; v14]
  = tri_subdivide_generic ROps Q2R 4 [v0; v1; v2; v3; v4; v5; v6; v7; v8; v9; v10; v11; v12; v13; v14].
Proof. tri_tables. Qed.

(* the table path and the generic path of subdivide_nodes are one function: every degree, every real net *)
Theorem tri_tables_are_generic d (v : list R) : length v = tri_size d ->
  tri_subdivide_gen ROps Q2R d v = tri_subdivide_generic ROps Q2R d v.
Proof.
  intros Hl.
  destruct d as [|[|[|[|[|d]]]]].
  - reflexivity.
  - destruct v as [|v0 [|v1 [|v2 [|? ?]]]]; try discriminate. apply tri_tables_1.
  - destruct v as [|v0 [|v1 [|v2 [|v3 [|v4 [|v5 [|? ?]]]]]]]; try discriminate. apply tri_tables_2.
  - do 10 (destruct v as [|? v]; [discriminate|]). destruct v; [|discriminate]. apply tri_tables_3.
  - do 15 (destruct v as [|? v]; [discriminate|]). destruct v; [|discriminate]. apply tri_tables_4.
  - reflexivity.
Qed.
