From Coq Require Import ZArith Reals Lra Lia Psatz.
From Flocq Require Import Core Relative.
From BZ Require Import Theory.CurveEvalExtra.
Local Open Scope R_scope.

Definition prec53 : Z := 53%Z.
#[global] Instance prec53_gt0 : Prec_gt_0 prec53. Proof. unfold Prec_gt_0, prec53. lia. Qed.
Definition fl64 (x : R) : R := round radix2 (FLX_exp prec53) ZnearestE x.
Definition u64 : R := / 2 * bpow radix2 (- prec53 + 1).

Lemma u64_val : u64 = / 9007199254740992.
Proof. unfold u64, prec53. simpl. unfold Z.pow_pos. simpl. lra. Qed.

Lemma fl64_spec x : Rabs (fl64 x - x) <= u64 * Rabs x.
Proof. unfold fl64, u64. apply relative_error_N_FLX. apply prec53_gt0. Qed.

(* p = odd_part p * 2^k *)
Fixpoint tz (p : positive) : nat := match p with xO q => S (tz q) | _ => O end.
Lemma odd_part_tz p : Zpos p = (Zpos (odd_part p) * 2 ^ Z.of_nat (tz p))%Z.
Proof.
  induction p as [p IH|p IH|]; cbn [odd_part tz]; try (rewrite Z.pow_0_r; lia).
  rewrite Nat2Z.inj_succ, Z.pow_succ_r by lia. rewrite Pos2Z.inj_xO, IH. ring.
Qed.

Lemma fl64_int z : repr53 z = true -> fl64 (IZR z) = IZR z.
Proof.
  intros H. unfold fl64. apply round_generic; [apply valid_rnd_N|].
  apply generic_format_FLX.
  destruct z as [|p|p]; cbn [repr53] in H.
  - exists (Float radix2 0 0). unfold F2R. simpl. lra. simpl. unfold prec53. lia.
  - apply Z.ltb_lt in H. exists (Float radix2 (Zpos (odd_part p)) (Z.of_nat (tz p))).
    + unfold F2R. cbn [Fnum Fexp]. rewrite (odd_part_tz p) at 1. rewrite mult_IZR. f_equal. rewrite <- (IZR_Zpower radix2) by lia. reflexivity.
    + cbn [Fnum]. rewrite Z.abs_eq by lia. exact H.
  - apply Z.ltb_lt in H. exists (Float radix2 (Zneg (odd_part p)) (Z.of_nat (tz p))).
    + unfold F2R. cbn [Fnum Fexp]. change (Zneg p) with (- Zpos p)%Z. rewrite (odd_part_tz p) at 1.
      rewrite opp_IZR, mult_IZR. change (Zneg (odd_part p)) with (- Zpos (odd_part p))%Z. rewrite opp_IZR. rewrite <- (IZR_Zpower radix2) by lia. cbn [radix_val radix2]. ring.
    + cbn [Fnum]. change (Z.abs (Z.neg (odd_part p))) with (Zpos (odd_part p)). exact H.
Qed.

(* ---- the rounding theorems of C01 / C04 / C05 for correctly rounded 53-bit arithmetic with unbounded exponent ---- *)
From Coq Require Import List.
From BZ Require Import Base.Ops Base.RInst Model.Curve Model.Triangle Gen.PyCurveHelpers Theory.CurveEval Theory.CurveTables
  Theory.Rounding Theory.CurveRound Theory.CurveRoundVS Theory.TriRound Theory.SubdivRound.
Import ListNotations.

Lemma u64_nonneg : 0 <= u64.
Proof. rewrite u64_val. lra. Qed.
Lemma fl64_two : fl64 2 = 2.
Proof. apply (fl64_int 2%Z). reflexivity. Qed.

Theorem evaluate_rounding_binary64 (v : list R) (s : R) : (2 <= length v)%nat -> (Z.of_nat (length v) < 2 ^ 53)%Z ->
  Rabs (eval_bary (FlOps fl64) vs_max_nodes v (osub (FlOps fl64) 1 s) s - bernstein ROps v (1 - s) s)
  <= ((1 + u64) ^ (3 * (length v - 1) + 2) - 1) * bernstein ROps (map Rabs v) (Rabs (1 - s)) (Rabs s).
Proof.
  intros Hl Hz.
  exact (eval_bary_rounding u64 u64_nonneg fl64 fl64_spec fl64_int vs_max_nodes v s Hl Hz running_binomial_exact_below_switch).
Qed.
Theorem triangle_rounding_binary64 (d : nat) (v : list R) (l1 l2 l3 : R) :
  tri_binom_exact_double d = true -> (Z.of_nat d + 1 < 2 ^ 53)%Z -> length v = tri_size d ->
  Rabs (tri_eval (FlOps fl64) vs_max_nodes d v l1 l2 l3 - tri_bernstein ROps d v l1 l2 l3)
  <= ((1 + u64) ^ (2 * d + 4) - 1) * tri_bernstein ROps d (map Rabs v) (Rabs l1) (Rabs l2) (Rabs l3).
Proof.
  intros Hb Hd Hv.
  exact (proj1 (tri_eval_rounding u64 u64_nonneg fl64 fl64_spec fl64_int 0 l1 l1 (Rabs l1) l2 l3 vs_max_nodes d v (approx_exact u64 l1)
                  running_binomial_exact_below_switch Hb Hd Hv)).
Qed.
Theorem specialize_rounding_binary64 (v : list R) (a b : R) (j : nat) : (2 <= length v)%nat -> (j <= length v - 1)%nat ->
  Rabs (nth j (specialize (FlOps fl64) v a b) 0 - nth j (specialize ROps v a b) 0)
  <= ((1 + u64) ^ (3 * (length v - 1)) - 1) * Pabs a b (length v - 1) j v.
Proof. intros Hl Hj. exact (proj1 (specialize_node_rounding u64 u64_nonneg fl64 fl64_spec v a b j Hl Hj)). Qed.
Theorem subdivide_rounding_binary64 (v : list R) (j : nat) : (j <= length v - 1)%nat ->
  Rabs (nth j (subdivide_left (FlOps fl64) v) 0 - nth j (subdivide_left ROps v) 0)
  <= ((1 + u64) ^ (4 * (length v - 1) + 2) - 1) * nth j (subdivide_left ROps (map Rabs v)) 0.
Proof. intros Hj. exact (proj1 (subdivide_left_rounding u64 u64_nonneg fl64 fl64_spec fl64_two v j Hj)). Qed.
Print Assumptions evaluate_rounding_binary64.
