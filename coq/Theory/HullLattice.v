(* C16: simple_convex_hull returns THE convex hull for EVERY finite sequence of points of the 4 x 4 lattice - any length, any
   repetitions, any order (hence in particular all sequences of length <= 5 on the 4 x 4 and <= 7 on the 3 x 3 lattice).
   The hull only depends on sort_unique of its input; sort_unique of a sequence of lattice points is one of the 2^16 subsequences
   of the sorted lattice (closure of the subsequences under insert_u: a computation over 16 x 65536 cases); hull_ok is computed
   on all 65536 of them; the remaining facts transfer hull_ok from the sorted set to the sequence. *)
From Coq Require Import List Arith ZArith QArith Qminmax Bool Lia.
From BZ Require Import Base.PyVal Model.Hull.
Import ListNotations.
Open Scope Q_scope.

(* syntactic (Leibniz) equality tests *)
Definition q_syn (a b : Q) : bool := Z.eqb (Qnum a) (Qnum b) && Pos.eqb (Qden a) (Qden b).
Lemma q_syn_eq a b : q_syn a b = true -> a = b.
Proof.
  destruct a as [n d], b as [n' d']. unfold q_syn. cbn [Qnum Qden]. intros H. apply andb_true_iff in H. destruct H as [H1 H2].
  apply Z.eqb_eq in H1. apply Pos.eqb_eq in H2. subst. reflexivity.
Qed.
Definition pt_syn (a b : pt) : bool := q_syn (fst a) (fst b) && q_syn (snd a) (snd b).
Lemma pt_syn_eq a b : pt_syn a b = true -> a = b.
Proof.
  destruct a, b. unfold pt_syn. cbn [fst snd]. intros H. apply andb_true_iff in H. destruct H as [H1 H2].
  apply q_syn_eq in H1, H2. subst. reflexivity.
Qed.
Fixpoint list_syn (a b : list pt) : bool :=
  match a, b with [], [] => true | x :: a', y :: b' => pt_syn x y && list_syn a' b' | _, _ => false end.
Lemma list_syn_eq : forall a b, list_syn a b = true -> a = b.
Proof.
  induction a as [|x a IH]; intros [|y b] H; cbn [list_syn] in H; try discriminate; [reflexivity|].
  apply andb_true_iff in H. destruct H as [H1 H2]. apply pt_syn_eq in H1. apply IH in H2. subst. reflexivity.
Qed.

(* subsequences *)
Fixpoint sublists (l : list pt) : list (list pt) :=
  match l with [] => [[]] | x :: r => let s := sublists r in map (cons x) s ++ s end.
Fixpoint is_subseq (a l : list pt) : bool :=
  match a, l with
  | [], _ => true
  | _ :: _, [] => false
  | x :: a', y :: l' => if pt_syn x y then is_subseq a' l' else is_subseq a l'
  end.
Lemma is_subseq_In : forall l a, is_subseq a l = true -> In a (sublists l).
Proof.
  induction l as [|y l IH]; intros a H.
  - destruct a; [left; reflexivity|discriminate].
  - cbn [sublists]. apply in_or_app. destruct a as [|x a'].
    + right. apply IH. destruct l; reflexivity.
    + cbn [is_subseq] in H. destruct (pt_syn x y) eqn:E.
      * left. apply pt_syn_eq in E. subst y. apply in_map. apply IH. exact H.
      * right. apply IH. exact H.
Qed.

(* the sorted 4 x 4 lattice *)
Definition Ls : list pt := Eval vm_compute in sort_unique (lattice 4).

Lemma closure_under_insert :
  forallb (fun p => forallb (fun l => is_subseq (insert_u p l) Ls) (sublists Ls)) Ls = true.
Proof. vm_compute. reflexivity. Qed.
Lemma sorting_is_idempotent_on_subsequences : forallb (fun l => list_syn (sort_unique l) l) (sublists Ls) = true.
Proof. vm_compute. reflexivity. Qed.
Lemma hull_ok_on_all_subsets : forallb hull_ok (sublists Ls) = true.
Proof. vm_compute. reflexivity. Qed.
Lemma lattice_points_are_canonical : forallb (fun p => forallb (fun q => implb (pt_eqb p q) (pt_syn p q)) Ls) Ls = true.
Proof. vm_compute. reflexivity. Qed.
Lemma lattice4_in_Ls : forallb (fun p => existsb (pt_syn p) Ls) (lattice 4) = true.
Proof. vm_compute. reflexivity. Qed.

(* ---- sort_unique of a sequence of lattice points is a subsequence of Ls ---- *)
Lemma sort_unique_in_sublists : forall s, (forall p, In p s -> In p Ls) -> In (sort_unique s) (sublists Ls).
Proof.
  induction s as [|p s IH]; intros H; cbn [sort_unique fold_right].
  - apply is_subseq_In. reflexivity.
  - fold (sort_unique s). apply is_subseq_In.
    pose proof (proj1 (forallb_forall _ _) closure_under_insert p (H p (or_introl eq_refl))) as Hp.
    exact (proj1 (forallb_forall _ _) Hp (sort_unique s) (IH (fun q Hq => H q (or_intror Hq)))).
Qed.

(* membership facts about insert_u / sort_unique *)
Lemma insert_u_In p : forall l q, In q (insert_u p l) -> q = p \/ In q l.
Proof.
  induction l as [|x l IH]; intros q H; cbn [insert_u] in H.
  - destruct H as [<-|[]]. left. reflexivity.
  - destruct (pt_eqb p x); [right; exact H|].
    destruct (lex_lt p x).
    + destruct H as [<-|H]; [left; reflexivity|right; exact H].
    + destruct H as [<-|H]; [right; left; reflexivity|]. destruct (IH q H) as [->|H']; [left; reflexivity|right; right; exact H'].
Qed.
Lemma sort_unique_In : forall s q, In q (sort_unique s) -> In q s.
Proof.
  induction s as [|p s IH]; intros q H; [destruct H|]. cbn [sort_unique fold_right] in H. fold (sort_unique s) in H.
  destruct (insert_u_In p _ q H) as [->|H']; [left; reflexivity|right; apply IH; exact H'].
Qed.
Lemma Qeqb_refl x : Qeqb x x = true. Proof. unfold Qeqb. apply Qeq_bool_iff. reflexivity. Qed.
Lemma pt_eqb_refl p : pt_eqb p p = true.
Proof. unfold pt_eqb. rewrite !Qeqb_refl. reflexivity. Qed.
Lemma pt_eqb_trans a b c : pt_eqb a b = true -> pt_eqb b c = true -> pt_eqb a c = true.
Proof.
  unfold pt_eqb, Qeqb. intros H1 H2. apply andb_true_iff in H1, H2. destruct H1 as [A1 A2], H2 as [B1 B2].
  apply Qeq_bool_iff in A1, A2, B1, B2. apply andb_true_iff. split; apply Qeq_bool_iff; [rewrite A1|rewrite A2]; assumption.
Qed.
Lemma insert_u_mem p : forall l, existsb (pt_eqb p) (insert_u p l) = true.
Proof.
  induction l as [|x l IH]; cbn [insert_u existsb]; [rewrite pt_eqb_refl; reflexivity|].
  destruct (pt_eqb p x) eqn:E; [cbn [existsb]; rewrite E; reflexivity|].
  destruct (lex_lt p x); cbn [existsb]; [rewrite pt_eqb_refl; reflexivity|]. rewrite IH. apply orb_true_r.
Qed.
Lemma insert_u_keeps p q : forall l, existsb (pt_eqb q) l = true -> existsb (pt_eqb q) (insert_u p l) = true.
Proof.
  induction l as [|x l IH]; intros H; [discriminate|]. cbn [insert_u].
  destruct (pt_eqb p x); [exact H|]. destruct (lex_lt p x); cbn [existsb] in H |- *.
  - rewrite H. apply orb_true_r.
  - apply orb_true_iff in H. destruct H as [H|H]; [rewrite H; reflexivity|]. rewrite (IH H). apply orb_true_r.
Qed.
Lemma sort_unique_mem : forall s p, In p s -> existsb (pt_eqb p) (sort_unique s) = true.
Proof.
  induction s as [|x s IH]; intros p H; [destruct H|]. cbn [sort_unique fold_right]. fold (sort_unique s).
  destruct H as [<-|H]; [apply insert_u_mem|apply insert_u_keeps; apply IH; exact H].
Qed.

(* the hull is a function of sort_unique of the input *)
Definition hull_of_sorted (pts : list pt) : list pt :=
  match pts with
  | [] => [] | [_] => pts | [_; _] => pts
  | _ => let lower := lower_chain pts in let upper := upper_chain pts lower in rev (tl lower) ++ rev (tl upper)
  end.
Lemma hull_factors s : simple_convex_hull s = hull_of_sorted (sort_unique s).
Proof. reflexivity. Qed.

Theorem hull_ok_on_the_lattice : forall s, (forall p, In p s -> In p Ls) -> hull_ok s = true.
Proof.
  intros s Hs.
  set (S := sort_unique s).
  assert (HS : In S (sublists Ls)) by (apply sort_unique_in_sublists; exact Hs).
  assert (Hidem : sort_unique S = S) by (apply list_syn_eq; exact (proj1 (forallb_forall _ _) sorting_is_idempotent_on_subsequences S HS)).
  assert (Hok : hull_ok S = true) by exact (proj1 (forallb_forall _ _) hull_ok_on_all_subsets S HS).
  assert (Hh : simple_convex_hull s = simple_convex_hull S) by (rewrite !hull_factors, Hidem; reflexivity).
  assert (HSin : forall q, In q S -> In q Ls) by (intros q Hq; apply Hs; apply sort_unique_In; exact Hq).
  unfold hull_ok in Hok |- *. rewrite Hh.
  set (h := simple_convex_hull S) in *.
  apply andb_true_iff in Hok. destruct Hok as [Hok Hne]. apply andb_true_iff in Hok. destruct Hok as [Hok Hconv].
  apply andb_true_iff in Hok. destruct Hok as [Hin Hvert].
  apply andb_true_iff. split; [apply andb_true_iff; split; [apply andb_true_iff; split|]|].
  - (* every point of the sequence is inside *)
    apply forallb_forall. intros p Hp.
    pose proof (sort_unique_mem s p Hp) as Hm. fold S in Hm. apply existsb_exists in Hm. destruct Hm as [q [Hq Epq]].
    assert (p = q).
    { apply pt_syn_eq.
      pose proof (proj1 (forallb_forall _ _) lattice_points_are_canonical p (Hs p Hp)) as F.
      pose proof (proj1 (forallb_forall _ _) F q (HSin q Hq)) as F2. cbv beta in F2. rewrite Epq in F2. exact F2. }
    subst q. exact (proj1 (forallb_forall _ _) Hin p Hq).
  - (* every hull vertex is a point of the sequence *)
    apply forallb_forall. intros v Hv.
    pose proof (proj1 (forallb_forall _ _) Hvert v Hv) as Hm. apply existsb_exists in Hm. destruct Hm as [q [Hq Evq]].
    apply existsb_exists. exists q. split; [apply sort_unique_In; exact Hq|exact Evq].
  - exact Hconv.
  - destruct s as [|p s']; [reflexivity|].
    destruct S as [|q S'] eqn:ES.
    + exfalso. pose proof (sort_unique_mem (p :: s') p (or_introl eq_refl)) as Hm. fold S in Hm. rewrite ES in Hm. discriminate.
    + exact Hne.
Qed.

(* in the terms of the quantifier: any sequence over the 4 x 4 (hence the 3 x 3) lattice, of any length *)
Lemma lattice4_sub p : In p (lattice 4) -> In p Ls.
Proof.
  intros H. pose proof (proj1 (forallb_forall _ _) lattice4_in_Ls p H) as E. apply existsb_exists in E.
  destruct E as [q [Hq E]]. apply pt_syn_eq in E. subst q. exact Hq.
Qed.
Lemma lattice3_sub p : In p (lattice 3) -> In p (lattice 4).
Proof.
  assert (F : forallb (fun p => existsb (pt_syn p) (lattice 4)) (lattice 3) = true) by (vm_compute; reflexivity).
  intros H. pose proof (proj1 (forallb_forall _ _) F p H) as E. apply existsb_exists in E.
  destruct E as [q [Hq E]]. apply pt_syn_eq in E. subst q. exact Hq.
Qed.
Theorem hull_is_the_convex_hull_on_the_4x4_lattice : forall s,
  (forall p, In p s -> In p (lattice 4)) -> hull_ok s = true.
Proof. intros s H. apply hull_ok_on_the_lattice. intros p Hp. apply lattice4_sub. apply H. exact Hp. Qed.
