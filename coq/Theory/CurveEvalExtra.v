(* C01 extras: end points exact in ANY arithmetic where 0 and 1 behave (IEEE-754 on finite
   values does), convex hull over R, exactness of the running binomial below the switch. *)
From Coq Require Import List Arith Lia ZArith Reals Lra Bool.
From BZ Require Import Base.Ops Base.RInst Model.Curve Theory.CurveEval.
Import ListNotations.

Section Exact01.
Context {T : Type} (K : Ops T).
Notation "0" := (o0 K). Notation "1" := (o1 K).
Infix "+" := (oadd K). Infix "*" := (omul K). Infix "-" := (osub K).
(* the only facts used: all hold for IEEE-754 binary64 on finite operands (up to the sign of zero) *)
Record Laws01 := {
  mul_1_l : forall x, 1 * x = x;  mul_1_r : forall x, x * 1 = x;
  mul_0_l : forall x, 0 * x = 0;  mul_0_r : forall x, x * 0 = 0;
  add_0_l : forall x, 0 + x = x;  add_0_r : forall x, x + 0 = x }.
Hypothesis H : Laws01.

Lemma vs_loop_at0 n : forall rest j acc pw2 b,
  pw2 * 0 = 0 -> vs_loop K n j rest acc pw2 b 1 0 = acc.
Proof.
  induction rest as [|x rest IH]; intros j acc pw2 b Hp; [reflexivity|].
  destruct rest as [|y rest'].
  - cbn [vs_loop]. rewrite (mul_0_l H), (mul_0_l H), (add_0_r H). reflexivity.
  - rewrite vs_loop_cons. rewrite IH.
    + rewrite Hp. rewrite (mul_0_r H), (mul_0_l H), (add_0_r H), (mul_1_r H). reflexivity.
    + rewrite Hp. apply (mul_0_l H).
Qed.

(* s = 0  (lambda1 = 1, lambda2 = 0): the first control point, exactly *)
Theorem eval_vs_at_0 v0 rest : eval_vs K (v0 :: rest) 1 0 = v0.
Proof.
  destruct rest as [|v1 rest].
  - cbn [eval_vs]. rewrite (mul_1_l H), (mul_0_l H), (mul_0_l H), (add_0_r H). reflexivity.
  - change (eval_vs K (v0 :: v1 :: rest) 1 0) with (vs_loop K (length (v1 :: rest)) 1 (v1 :: rest) (1 * v0) 1 1 1 0).
    rewrite vs_loop_at0; [apply (mul_1_l H) | apply (mul_1_l H)].
Qed.

Lemma vs_loop_at1 n : forall rest j pw2 b,
  (1 <= length rest)%nat -> pw2 = 1 ->
  vs_loop K n j rest 0 pw2 b 0 1 = last rest 0.
Proof.
  induction rest as [|x rest IH]; intros j pw2 b Hl Hp; [simpl in Hl; lia|]. subst pw2.
  destruct rest as [|y rest'].
  - cbn [vs_loop last]. rewrite (mul_1_l H), (mul_1_l H), (add_0_l H). reflexivity.
  - rewrite vs_loop_cons. rewrite (mul_0_r H). rewrite IH; [reflexivity | cbn [length]; lia | apply (mul_1_l H)].
Qed.

(* s = 1  (lambda1 = fl(1 - 1) = 0, lambda2 = 1): the last control point, exactly *)
Theorem eval_vs_at_1 v0 rest : eval_vs K (v0 :: rest) 0 1 = last (v0 :: rest) 0.
Proof.
  destruct rest as [|v1 rest].
  - cbn [eval_vs last]. rewrite (mul_0_l H), (mul_1_l H), (mul_1_l H), (add_0_l H). reflexivity.
  - change (eval_vs K (v0 :: v1 :: rest) 0 1) with (vs_loop K (length (v1 :: rest)) 1 (v1 :: rest) (0 * v0) 1 1 0 1).
    rewrite (mul_0_l H). rewrite vs_loop_at1; [reflexivity | cbn [length]; lia | reflexivity].
Qed.

Lemma dc_round_at0 : forall v, dc_round K 1 0 v = removelast v.
Proof.
  induction v as [|a v IH]; [reflexivity|]. destruct v as [|b v']; [reflexivity|].
  cbn [dc_round removelast] in IH |- *. rewrite IH. rewrite (mul_1_l H), (mul_0_l H), (add_0_r H). reflexivity.
Qed.
Lemma dc_round_at1 : forall v, dc_round K 0 1 v = tl v.
Proof.
  induction v as [|a v IH]; [reflexivity|]. destruct v as [|b v']; [reflexivity|].
  cbn [dc_round tl] in IH |- *. rewrite IH. rewrite (mul_1_l H), (mul_0_l H), (add_0_l H). reflexivity.
Qed.
Lemma hd_removelast (a b : T) l : hd 0 (removelast (a :: b :: l)) = a.
Proof. reflexivity. Qed.

Theorem eval_dc_at_0 : forall v, v <> [] -> eval_dc K v 1 0 = hd 0 v.
Proof.
  unfold eval_dc. intros v. remember (length v - 1)%nat as n eqn:En. revert v En.
  induction n as [|n IH]; intros v En Hne; [reflexivity|].
  cbn [dc_eval]. rewrite dc_round_at0.
  destruct v as [|a [|b l]]; [congruence| simpl in En; lia |].
  rewrite IH.
  - reflexivity.
  - assert (E := @removelast_app T [a] (b :: l)). 
    assert (length (removelast (a :: b :: l)) = S (length l)).
    { clear. revert a b. induction l as [|c l IHl]; intros a b; [reflexivity|].
      change (removelast (a :: b :: c :: l)) with (a :: removelast (b :: c :: l)). cbn [length]. rewrite IHl. reflexivity. }
    rewrite H0. simpl in En. lia.
  - discriminate.
Qed.

Lemma last_tl (a b : T) l d : last (tl (a :: b :: l)) d = last (a :: b :: l) d.
Proof. reflexivity. Qed.
Theorem eval_dc_at_1 : forall v, v <> [] -> eval_dc K v 0 1 = last v 0.
Proof.
  unfold eval_dc. intros v. remember (length v - 1)%nat as n eqn:En. revert v En.
  induction n as [|n IH]; intros v En Hne.
  - destruct v as [|a [|b l]]; [congruence|reflexivity|simpl in En; lia].
  - cbn [dc_eval]. rewrite dc_round_at1.
    destruct v as [|a [|b l]]; [congruence| simpl in En; lia |].
    rewrite IH; [reflexivity | simpl in En |- *; lia | discriminate].
Qed.

Theorem eval_bary_at_0 thr v : v <> [] -> eval_bary K thr v 1 0 = hd 0 v.
Proof.
  intros Hne. unfold eval_bary. destruct (Nat.ltb thr (length v)); [apply eval_dc_at_0; exact Hne|].
  destruct v; [congruence|]. apply eval_vs_at_0.
Qed.
Theorem eval_bary_at_1 thr v : v <> [] -> eval_bary K thr v 0 1 = last v 0.
Proof.
  intros Hne. unfold eval_bary. destruct (Nat.ltb thr (length v)); [apply eval_dc_at_1; exact Hne|].
  destruct v; [congruence|]. apply eval_vs_at_1.
Qed.
End Exact01.

(* ---------------- convex hull, over R ---------------- *)
Section Hull.
Open Scope R_scope.
Definition within (lo hi : R) (v : list R) := Forall (fun x => lo <= x <= hi) v.

Lemma dc_round_within lo hi l1 l2 : 0 <= l1 -> 0 <= l2 -> l1 + l2 = 1 ->
  forall v, within lo hi v -> within lo hi (dc_round ROps l1 l2 v).
Proof.
  intros H1 H2 Hs. induction v as [|a v IH]; intros Hv; [constructor|].
  destruct v as [|b v']; [constructor|].
  inversion Hv as [|? ? Ha Hv']; subst. inversion Hv' as [|? ? Hb _]; subst.
  cbn [dc_round]. constructor; [|apply IH; exact Hv'].
  cbn [oadd omul ROps]. split; nra.
Qed.

Lemma dc_eval_within lo hi l1 l2 : 0 <= l1 -> 0 <= l2 -> l1 + l2 = 1 ->
  forall n v, length v = S n -> within lo hi v -> lo <= dc_eval ROps n l1 l2 v <= hi.
Proof.
  intros H1 H2 Hs. induction n as [|n IH]; intros v Hl Hv.
  - destruct v as [|a [|? ?]]; simpl in Hl; try discriminate. inversion Hv; subst. exact H3.
  - cbn [dc_eval]. apply IH.
    + rewrite (dc_round_length ROps), Hl. reflexivity.
    + apply dc_round_within; assumption.
Qed.

(* for s in [0,1] the curve point lies in the bounding box of the control points (each coordinate) *)
Theorem bernstein_in_hull lo hi (v : list R) (s : R) : v <> [] -> 0 <= s <= 1 -> within lo hi v ->
  lo <= bernstein ROps v (1 - s) s <= hi.
Proof.
  intros Hne Hs Hv. rewrite <- (eval_dc_correct ROps RRing) by exact Hne.
  unfold eval_dc. destruct v as [|a v]; [congruence|].
  apply dc_eval_within; try lra.
  - cbn [length]. lia.
  - exact Hv.
Qed.

Corollary eval_bary_in_hull thr lo hi (v : list R) (s : R) : v <> [] -> 0 <= s <= 1 -> within lo hi v ->
  lo <= eval_bary ROps thr v (1 - s) s <= hi.
Proof.
  intros Hne Hs Hv. rewrite (eval_bary_correct ROps RField RChar0).
  - apply bernstein_in_hull; assumption.
  - right. split; [exact Hne|]. cbn [oadd osub o1 ROps]. lra.
Qed.
End Hull.

(* ---------------- the running binomial of the VS loop is exact in binary64 below the switch ----------
   binom_val = (binom_val * (degree - index + 1)) / index  with binary64 operands.
   IEEE-754 multiplication and division return the exact result whenever it is representable, so it
   suffices that C(n,j-1)*(n-j+1) and C(n,j) have at most 53 significant bits. *)
Fixpoint odd_part (p : positive) : positive := match p with xO q => odd_part q | _ => p end.
Definition repr53 (z : Z) : bool :=
  match z with Z0 => true | Zpos p | Zneg p => Z.ltb (Zpos (odd_part p)) (2 ^ 53) end.
(* run the recurrence on Z for degree n (indices 1 .. n-1, as the loop does); true iff every product and quotient is exact *)
Fixpoint binom_run (n : Z) (steps : nat) (j : Z) (b : Z) : bool :=
  match steps with
  | O => true
  | S k => let prod := (b * (n - j + 1))%Z in
           let quo := (prod / j)%Z in
           repr53 prod && Z.eqb (quo * j) prod && repr53 quo && binom_run n k (j + 1) quo
  end.
Definition binom_exact_for_degree (n : nat) : bool := binom_run (Z.of_nat n) (n - 1) 1 1.
Definition binom_exact_upto (max_nodes : nat) : bool :=
  forallb binom_exact_for_degree (seq 1 (max_nodes - 1)).

(* ---- running binomial of the TRIANGLE evaluator: binom = (binom * (k+1)) / (degree - k), k = d-1 .. 0 ---- *)
Fixpoint tri_binom_run (d : Z) (steps : nat) (k : Z) (b : Z) (ok : Z -> bool) : bool :=
  match steps with
  | O => true
  | S n => let prod := (b * (k + 1))%Z in
           let quo := (prod / (d - k))%Z in
           ok prod && Z.eqb (quo * (d - k)) prod && ok quo && tri_binom_run d n (k - 1) quo ok
  end.
(* binary64 accumulator (the Python code): every product and quotient has at most 53 significant bits *)
Definition tri_binom_exact_double (d : nat) : bool := tri_binom_run (Z.of_nat d) d (Z.of_nat d - 1) 1 repr53.
(* a 32-bit signed integer accumulator (integer(c_int)) : every product stays below 2^31 *)
Definition fits_int32 (z : Z) : bool := Z.ltb z (2 ^ 31) && Z.leb (- 2 ^ 31) z.
Definition tri_binom_exact_int32 (d : nat) : bool := tri_binom_run (Z.of_nat d) d (Z.of_nat d - 1) 1 fits_int32.
Lemma tri_binom_double_exact_to_54 : forallb tri_binom_exact_double (seq 1 54) = true.
Proof. vm_compute. reflexivity. Qed.
Lemma tri_binom_int32_exact_to_29 : forallb tri_binom_exact_int32 (seq 1 29) = true.
Proof. vm_compute. reflexivity. Qed.
(* F4: a c_int accumulator overflows from degree 30 on *)
Lemma tri_binom_int32_refuted : exists d, (d <= 30)%nat /\ tri_binom_exact_int32 d = false.
Proof. exists 30%nat. split; [lia|]. vm_compute. reflexivity. Qed.
