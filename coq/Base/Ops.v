(* Arithmetic signature shared by all models.  No proofs about models here. *)
From Coq Require Import List ZArith QArith Qcanon Ring Field.
Import ListNotations.

Record Ops (T : Type) := mkOps {
  o0 : T; o1 : T;
  oadd : T -> T -> T; omul : T -> T -> T; osub : T -> T -> T; oopp : T -> T;
  odiv : T -> T -> T; oinv : T -> T }.
Arguments o0 {T}. Arguments o1 {T}. Arguments oadd {T}. Arguments omul {T}.
Arguments osub {T}. Arguments oopp {T}. Arguments odiv {T}. Arguments oinv {T}.

Notation ring_of O :=
  (ring_theory (o0 O) (o1 O) (oadd O) (omul O) (osub O) (oopp O) (@eq _)).
Notation field_of O :=
  (field_theory (o0 O) (o1 O) (oadd O) (omul O) (osub O) (oopp O) (odiv O) (oinv O) (@eq _)).

(* naturals inside T (unary; degrees are small) *)
Fixpoint ofn {T} (O : Ops T) (k : nat) : T :=
  match k with O => o0 O | S k' => oadd O (ofn O k') (o1 O) end.
Fixpoint pw {T} (O : Ops T) (x : T) (k : nat) : T :=
  match k with O => o1 O | S k' => omul O x (pw O x k') end.
Definition char0 {T} (O : Ops T) := forall k, ofn O (S k) <> o0 O.

(* binomial coefficients on nat *)
Fixpoint choose (n k : nat) : nat :=
  match n, k with
  | _, O => 1
  | O, S _ => 0
  | S n', S k' => choose n' k' + choose n' k
  end.

(* executable instance: canonical rationals *)
Definition QcOps : Ops Qc :=
  mkOps Qc (Q2Qc 0) (Q2Qc 1) Qcplus Qcmult Qcminus Qcopp Qcdiv Qcinv.
Lemma QcRing : ring_of QcOps. Proof. exact Qcrt. Qed.
Lemma QcField : field_of QcOps. Proof. exact Qcft. Qed.

(* list helpers used by models *)
Definition zipw {A B C} (f : A -> B -> C) := fix zipw (l : list A) (r : list B) : list C :=
  match l, r with a :: l', b :: r' => f a b :: zipw l' r' | _, _ => [] end.
Fixpoint iter {A} (f : A -> A) (k : nat) (v : A) : A :=
  match k with O => v | S k' => iter f k' (f v) end.
Fixpoint dot {T} (O : Ops T) (w v : list T) : T :=
  match w, v with
  | a :: w', b :: v' => oadd O (omul O a b) (dot O w' v')
  | _, _ => o0 O
  end.
Definition repeatT {A} (x : A) (n : nat) : list A := repeat x n.
Fixpoint transpose_aux {A} (n : nat) (rows : list (list A)) : list (list A) :=
  match n with
  | O => []
  | S n' => concat (map (fun r => match r with [] => [] | x :: _ => [x] end) rows)
            :: transpose_aux n' (map (@tl A) rows)
  end.
Definition transpose {A} (rows : list (list A)) : list (list A) :=
  transpose_aux (match rows with [] => 0 | r :: _ => length r end) rows.
