(* Dynamically typed values for the scalar functions that translate/py2v_more.py regenerates from
   the Python sources.  Numbers are exact rationals (every finite double is one). *)
From Coq Require Import List ZArith QArith Qabs Qminmax Bool String.
Import ListNotations.
Open Scope Q_scope.

Inductive val :=
| VQ (q : Q) | VB (b : bool) | VNone | VNaN
| VTup (l : list val)
| VEnum (name : string)
| VErr (name : string)
| VRec (fields : list (string * val)).   (* objects: attribute name -> value *)

Definition V2 (x y : Q) : val := VTup [VQ x; VQ y].
Definition type_error : val := VErr "type".

Definition Qltb (a b : Q) : bool := negb (Qle_bool b a).
Definition Qeqb (a b : Q) : bool := Qeq_bool a b.

Fixpoint zip_with (f : val -> val -> val) (l r : list val) : option (list val) :=
  match l, r with
  | [], [] => Some []
  | a :: l', b :: r' => match zip_with f l' r' with Some t => Some (f a b :: t) | None => None end
  | _, _ => None
  end.

Fixpoint vadd (a b : val) : val :=
  match a, b with
  | VQ x, VQ y => VQ (x + y)
  | VTup l, VTup r =>
      (fix go (l r : list val) : val :=
         match l, r with
         | [], [] => VTup []
         | x :: l', y :: r' => match go l' r' with VTup t => VTup (vadd x y :: t) | e => e end
         | _, _ => type_error
         end) l r
  | _, _ => type_error
  end.
Fixpoint vsub (a b : val) : val :=
  match a, b with
  | VQ x, VQ y => VQ (x - y)
  | VTup l, VTup r =>
      (fix go (l r : list val) : val :=
         match l, r with
         | [], [] => VTup []
         | x :: l', y :: r' => match go l' r' with VTup t => VTup (vsub x y :: t) | e => e end
         | _, _ => type_error
         end) l r
  | _, _ => type_error
  end.
Fixpoint vscale (k : Q) (a : val) : val :=
  match a with
  | VQ x => VQ (k * x)
  | VTup l => VTup (map (vscale k) l)
  | _ => type_error
  end.
(* NumPy broadcasting of a scalar over a 1-D array *)
Definition vsub_b (a b : val) : val :=
  match a, b with
  | VTup l, VQ y => VTup (map (fun x => vsub x (VQ y)) l)
  | _, _ => vsub a b
  end.
Definition vmul (a b : val) : val :=
  match a, b with
  | VQ x, VQ y => VQ (x * y)
  | VQ x, VTup _ => vscale x b
  | VTup _, VQ y => vscale y a
  | _, _ => type_error
  end.
Definition vdiv (a b : val) : val :=
  match a, b with
  | VQ x, VQ y => if Qeqb y 0 then VErr "ZeroDivision" else VQ (x / y)
  | _, _ => type_error
  end.
Definition vneg (a : val) : val := match a with VQ x => VQ (- x) | VTup _ => vscale (-1) a | _ => type_error end.
Definition vabs (a : val) : val := match a with VQ x => VQ (Qabs x) | _ => type_error end.
Definition vmin (a b : val) : val := match a, b with VQ x, VQ y => VQ (Qmin x y) | _, _ => type_error end.
Definition vmax (a b : val) : val := match a, b with VQ x, VQ y => VQ (Qmax x y) | _, _ => type_error end.

Definition vlt (a b : val) : val := match a, b with VQ x, VQ y => VB (Qltb x y) | _, _ => type_error end.
Definition vle (a b : val) : val := match a, b with VQ x, VQ y => VB (Qle_bool x y) | _, _ => type_error end.
Definition veq (a b : val) : val :=
  match a, b with
  | VQ x, VQ y => VB (Qeqb x y)
  | VB x, VB y => VB (Bool.eqb x y)
  | VNone, VNone => VB true
  | VEnum x, VEnum y => VB (String.eqb x y)
  | _, _ => VB false
  end.
Definition vne (a b : val) : val := match veq a b with VB x => VB (negb x) | e => e end.
Definition vnot (a : val) : val := match a with VB x => VB (negb x) | _ => type_error end.
(* Python truthiness of the values that occur in tests *)
Definition truth (a : val) : bool := match a with VB b => b | _ => false end.
(* `a and b`, `a or b` on booleans (the translated sources only use them on booleans) *)
Definition vand (a b : val) : val := match a with VB true => b | VB false => VB false | _ => type_error end.
Definition vor (a b : val) : val := match a with VB true => VB true | VB false => b | _ => type_error end.

Fixpoint assoc_val (name : string) (fields : list (string * val)) : val :=
  match fields with
  | [] => VErr "AttributeError"
  | (k, v) :: rest => if String.eqb k name then v else assoc_val name rest
  end.
Definition vattr (a : val) (name : string) : val :=
  match a with VRec fields => assoc_val name fields | _ => VErr "AttributeError" end.
Definition vidx (a : val) (i : nat) : val :=
  match a with VTup l => nth i l type_error | _ => type_error end.
Definition vidx2 (a : val) (i j : nat) : val := vidx (vidx a i) j.
(* column j of a 2-D array given as a tuple of rows: a[:, j] *)
Definition vcol (a : val) (j : nat) : val :=
  match a with VTup rows => VTup (map (fun r => vidx r j) rows) | _ => type_error end.
Definition vdot (a b : val) : val :=
  match a, b with
  | VTup l, VTup r =>
      (fix go (l r : list val) : val :=
         match l, r with
         | [], [] => VQ 0
         | x :: l', y :: r' => vadd (vmul x y) (go l' r')
         | _, _ => type_error
         end) l r
  | _, _ => type_error
  end.

(* ndarray.shape of a 1-D (tuple of numbers) or 2-D (tuple of rows) array *)
Definition vshape (a : val) : val :=
  match a with
  | VTup ((VTup r) :: rest) => VTup [VQ (inject_Z (Z.of_nat (S (List.length rest)))); VQ (inject_Z (Z.of_nat (List.length r)))]
  | VTup l => VTup [VQ (inject_Z (Z.of_nat (List.length l)))]
  | _ => type_error
  end.
(* a[-1], a[:, -1] *)
Definition vidx_last (a : val) : val := match a with VTup l => last l type_error | _ => type_error end.
Definition vcol_last (a : val) : val :=
  match a with VTup rows => VTup (map vidx_last rows) | _ => type_error end.
(* observable effects (calls that append to the result list) are collected in program order *)
Definition vcons (e tail : val) : val :=
  match tail with VTup l => VTup (e :: l) | VNone => VTup [e] | other => other end.
Definition vappend (a tail : val) : val :=
  match a, tail with
  | VTup l, VTup r => VTup (l ++ r)
  | VTup l, VNone => VTup l
  | VNone, t => t
  | VErr e, _ => VErr e
  | _, _ => type_error
  end.

(* np.min(nodes, axis=1) / np.max(nodes, axis=1): one value per row *)
Definition row_fold (f : Q -> Q -> Q) (r : val) : val :=
  match r with
  | VTup (VQ x :: rest) =>
      fold_left (fun acc v => match acc, v with VQ a, VQ b => VQ (f a b) | _, _ => type_error end) rest (VQ x)
  | _ => type_error
  end.
Definition np_min_axis1 (a : val) : val := match a with VTup rows => VTup (map (row_fold Qmin) rows) | _ => type_error end.
Definition np_max_axis1 (a : val) : val := match a with VTup rows => VTup (map (row_fold Qmax) rows) | _ => type_error end.
(* np.all(a <= b) on 1-D arrays *)
Definition np_all_le (a b : val) : val :=
  match a, b with
  | VTup l, VTup r =>
      (fix go (l r : list val) : val :=
         match l, r with
         | [], [] => VB true
         | VQ x :: l', VQ y :: r' => match go l' r' with VB t => VB (Qle_bool x y && t) | e => e end
         | _, _ => type_error
         end) l r
  | _, _ => type_error
  end.

(* conversion helpers for the harness *)
Definition vq_list (l : list Q) : val := VTup (map VQ l).
Definition vq_mat (m : list (list Q)) : val := VTup (map vq_list m).

(* comparison of a model value with an observed one; numbers up to Qeq, with a tolerance for VQ *)
Fixpoint val_close (tol : Q) (m o : val) : bool :=
  match m, o with
  | VQ a, VQ b => Qle_bool (Qabs (a - b)) tol
  | VB a, VB b => Bool.eqb a b
  | VNone, VNone => true
  | VNaN, VNaN => true
  | VEnum a, VEnum b => String.eqb a b
  | VErr a, VErr b => String.eqb a b
  | VTup l, VTup r =>
      (fix go (l r : list val) : bool :=
         match l, r with
         | [], [] => true
         | x :: l', y :: r' => val_close tol x y && go l' r'
         | _, _ => false
         end) l r
  | _, _ => false
  end.
