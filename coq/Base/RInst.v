(* The real-number instance (used for theorems that mix order and unbounded-degree algebra). *)
From Coq Require Import Reals Lra List.
From BZ Require Import Base.Ops.
Import ListNotations.

Definition ROps : Ops R := mkOps R 0%R 1%R Rplus Rmult Rminus Ropp Rdiv Rinv.
Lemma RRing : ring_of ROps.
Proof. exact RTheory. Qed.
Lemma RField : field_of ROps.
Proof.
  constructor.
  - exact RTheory.
  - cbn. lra.
  - reflexivity.
  - intros p Hp. cbn. apply Rinv_l. exact Hp.
Qed.
Lemma ofn_R k : ofn ROps k = INR k.
Proof.
  induction k as [|k IH]; [reflexivity|]. cbn [ofn]. rewrite IH. cbn [oadd o1 ROps].
  rewrite S_INR. reflexivity.
Qed.
Lemma RChar0 : char0 ROps.
Proof. intros k. rewrite ofn_R. cbn [o0 ROps]. apply not_0_INR. discriminate. Qed.
