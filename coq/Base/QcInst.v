(* Facts about the executable instance QcOps. *)
From Coq Require Import List ZArith QArith Qcanon Lia Bool.
From BZ Require Import Base.Ops.
Import ListNotations.

Lemma ofn_Qc k : ofn QcOps k = Q2Qc (inject_Z (Z.of_nat k)).
Proof.
  induction k as [|k IH].
  - reflexivity.
  - cbn [ofn]. rewrite IH. cbn [oadd o1 QcOps]. unfold Qcplus.
    apply Q2Qc_eq_iff. cbn [this Q2Qc]. rewrite !Qred_correct.
    rewrite Nat2Z.inj_succ. unfold Z.succ. rewrite inject_Z_plus. reflexivity.
Qed.

Lemma QcChar0 : char0 QcOps.
Proof.
  intros k E. rewrite ofn_Qc in E. cbn [o0 QcOps] in E.
  apply (f_equal this) in E. cbn [this Q2Qc] in E.
  assert (H : Qred (inject_Z (Z.of_nat (S k))) == Qred 0) by (rewrite E; reflexivity).
  rewrite !Qred_correct in H. unfold Qeq, inject_Z in H. cbn in H. lia.
Qed.

Definition Qc_eqb (a b : Qc) : bool := Qeq_bool (this a) (this b).
Lemma Qc_eqb_eq a b : Qc_eqb a b = true -> a = b.
Proof. unfold Qc_eqb. intros H. apply Qeq_bool_eq in H. apply Qc_is_canon. exact H. Qed.

Fixpoint list_eqb {A} (e : A -> A -> bool) (l r : list A) : bool :=
  match l, r with
  | [], [] => true
  | a :: l', b :: r' => e a b && list_eqb e l' r'
  | _, _ => false
  end.
Lemma list_eqb_eq {A} (e : A -> A -> bool) (He : forall a b, e a b = true -> a = b) :
  forall l r, list_eqb e l r = true -> l = r.
Proof.
  induction l as [|a l IH]; intros [|b r] H; simpl in H; try discriminate; auto.
  apply andb_true_iff in H. destruct H as [H1 H2]. f_equal; auto.
Qed.
Definition mat_eqb := list_eqb (list_eqb Qc_eqb).
Lemma mat_eqb_eq l r : mat_eqb l r = true -> l = r.
Proof. apply list_eqb_eq. apply list_eqb_eq. apply Qc_eqb_eq. Qed.
Definition vec_eqb := list_eqb Qc_eqb.
Lemma vec_eqb_eq l r : vec_eqb l r = true -> l = r.
Proof. apply list_eqb_eq. apply Qc_eqb_eq. Qed.

Definition qcs (l : list Q) : list Qc := map Q2Qc l.
Definition qcm (m : list (list Q)) : list (list Qc) := map qcs m.
(* columns of a NumPy table given as rows *)
Definition tcols (m : list (list Q)) : list (list Qc) := transpose (qcm m).
