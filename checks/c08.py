"""C08 - Degree elevation preserves the shape; reduction inverts elevation (curves; Triangle.elevate is in c08 via the triangle model)."""
from fractions import Fraction

from common import enc_arr, coq_q, coq_list, coq_mat, dyadic, dec_res, run_impl
from framework import prove, correspond, finish
import oracle_q as oq

DEPS = ["Props/C08.vo", "Corr/C08.vo"]
HEADER = "From Coq Require Import List QArith.\nFrom BZ Require Import Corr.Common Corr.C08.\nImport ListNotations.\nOpen Scope Q_scope.\n"
U = Fraction(1, 2 ** 53)


def rand_rows(rng, n, dim, bits, pb, kind=None):
    kind = kind or rng.choice(["unit", "random", "random"])
    rows = []
    for _ in range(dim):
        if kind == "unit":
            j = rng.randint(0, n)
            rows.append([Fraction(1 if i == j else 0) for i in range(n + 1)])
        else:
            rows.append([dyadic(rng, bits, pb) for _ in range(n + 1)])
    return rows


def gen_elev(ctx):
    rng = ctx.rng
    out = []
    for n in list(range(0, 41)) * (1 if ctx.quick() else 6):
        out.append({"n": n, "rows": rand_rows(rng, n, rng.randint(1, 4), 30, 10)})
    # decimal (non-dyadic) data: (n v)/n is not v in binary64 for many v, so the end points must be COPIED, not recomputed
    for n in list(range(1, 41)) * (1 if ctx.quick() else 6):
        rows = [[Fraction(float(Fraction(rng.randint(-1000, 1000), 10))) for _ in range(n + 1)] for _ in range(rng.randint(1, 3))]
        out.append({"n": n, "rows": rows, "float": True})
    return out


def gen_reduce(ctx):
    rng = ctx.rng
    out = []
    for n in [1, 2, 3, 4] * (6 if ctx.quick() else 40):       # num_nodes 2..5
        kind = rng.choice(["elevated", "random", "unit"])
        dim = rng.randint(1, 4)
        if kind == "elevated":
            base = rand_rows(rng, n - 1, dim, 20, 6, "random")
            # multiply by n so that the elevated net stays dyadic
            rows = [oq.elevate([x * n for x in r]) for r in base]
        else:
            rows = rand_rows(rng, n, dim, 20, 6, "random" if kind == "random" else "unit")
        out.append({"n": n, "rows": rows, "kind": kind})
    for n in [0, 5, 6, 7, 8, 9, 10, 11, 12]:                    # must raise
        out.append({"n": n, "rows": rand_rows(rng, n, rng.randint(1, 3), 10, 4), "kind": "unsupported"})
    return out


def gen_full(ctx):
    rng = ctx.rng
    out = []
    # every (base degree m, number of spurious elevations k) with m + k <= 4 at distance 0 first (a reduction loop that stops after
    # two passes only shows for k = 3: seed c08-5 escaped the random (m, k) at one PRNG seed), then random ones
    plan = [(m_, k_, "0") for m_ in range(0, 5) for k_ in range(0, 5 - m_)]
    for rep in range(len(plan) + (12 if ctx.quick() else 120)):
        if rep < len(plan):
            m, k, forced = plan[rep]
        else:
            m = rng.randint(0, 4)
            k = rng.randint(0, 4 - m)
            forced = None
        dim = rng.randint(1, 3)
        scale = 1
        for j in range(m + 1, m + k + 1):
            scale *= j
        rows = [[x * scale for x in r] for r in rand_rows(rng, m, dim, 12, 3, "random")]
        base_rows = [list(r) for r in rows]
        for _ in range(k):
            rows = [oq.elevate(r) for r in rows]
        start_rows = [list(r) for r in rows]
        dist = forced or rng.choice(["0", "2^-40", "2^-20"])
        if dist != "0" and m + k >= 1:
            eps = Fraction(1, 2 ** (40 if dist == "2^-40" else 20))
            big = max(abs(x) for r in rows for x in r) or Fraction(1)
            # power-of-two sized bump on one interior-ish coordinate
            p = 1
            while p < big:
                p *= 2
            i = rng.randrange(len(rows))
            j = rng.randrange(m + k + 1)
            rows[i][j] += eps * p * rng.choice([1, -1]) * 3
        out.append({"m": m, "k": k, "rows": rows, "dist": dist, "base": base_rows, "start": start_rows})
    for n in (5, 6, 8):  # unsupported degree: must raise
        out.append({"m": n, "k": 0, "rows": rand_rows(rng, n, 2, 8, 2, "random"), "dist": "unsupported"})
    return out


def rows_out(res, c):
    return [("row", i, res[i]) for i in range(len(c["rows"]))]


def whole(res, c):
    return [("net", res)]


def coq_elev(c, obs):
    if obs[0][0] in ("exc", "malformed"):
        return None
    if c.get("float"):
        big = max(abs(x) for r in c["rows"] for x in r) or Fraction(1)
        return ["(%s, %s, 0, %s)" % (coq_list(c["rows"][i]), coq_list(out), coq_q(8 * U * big)) for (_k, i, out) in obs]
    return ["(%s, %s, %s, 0)" % (coq_list(c["rows"][i]), coq_list(out), coq_q(U)) for (_k, i, out) in obs]


def coq_reduce(c, obs):
    if obs[0][0] == "exc":
        if obs[0][1] == "UnsupportedDegree":
            return ["(%s, @None (list Q), 0, 0)" % coq_list(r) for r in c["rows"]]
        return None
    if obs[0][0] == "malformed":
        return None
    return ["(%s, Some %s, %s, 0)" % (coq_list(c["rows"][i]), coq_list(out), coq_q(U)) for (_k, i, out) in obs]


def coq_full(c, obs):
    if obs[0][0] == "exc":
        if obs[0][1] == "UnsupportedDegree":
            return ["(%s, @None (list (list Q)), 0, 0)" % coq_mat(c["rows"])]
        return None
    if obs[0][0] == "malformed":
        return None
    big = max([abs(x) for r in c["rows"] for x in r] + [Fraction(1)])
    return ["(%s, Some %s, 0, %s)" % (coq_mat(c["rows"]), coq_mat(obs[0][1]), coq_q(64 * U * big))]


def judge_elev(c, op, cfg, raw):
    if "exc" in raw:
        return "raised %s: %s" % (raw["exc"], raw.get("msg"))
    out = dec_res(raw["ok"])
    for i, row in enumerate(c["rows"]):
        want = oq.elevate(row)
        if out[i][0] != row[0] or out[i][-1] != row[-1]:
            return "end points not preserved bit-for-bit in row %d" % i
        big = max([abs(x) for x in row] + [Fraction(1, 2 ** 60)])
        for j in range(len(want)):
            if abs(out[i][j] - want[j]) > 4 * U * big:
                return "elevated node %d of row %d is %r, exact %r" % (j, i, float(out[i][j]), float(want[j]))
    return None


def judge_reduce(c, op, cfg, raw):
    n = c["n"]
    if "exc" in raw:
        if raw["exc"] == "UnsupportedDegree" and not 1 <= n <= 4:
            return None
        return "raised %s for degree %d" % (raw["exc"], n)
    if not 1 <= n <= 4:
        return "degree %d did not raise UnsupportedDegree" % n
    out = dec_res(raw["ok"])
    if c.get("kind") == "elevated":
        # reduce(elevate w) must give w back
        for i, row in enumerate(c["rows"]):
            big = max([abs(x) for x in row] + [Fraction(1, 2 ** 60)])
            # recover w exactly: first node and the recurrence
            w = [row[0]]
            for j in range(1, n):
                w.append((row[j] * n - j * w[j - 1]) / (n - j))
            for j in range(n):
                if abs(out[i][j] - w[j]) > 64 * U * big:
                    return "reduce(elevate(w)) != w at node %d of row %d: %r vs %r" % (j, i, float(out[i][j]), float(w[j]))
    # every net: the result is the least-squares inverse of elevation, i.e. the exact rational pseudo-inverse (E^T E)^-1 E^T v
    Mt = oq.elevation_matrix(n - 1)             # n x (n+1): row i = elevated image of the i-th unit net of degree n-1 (= E^T)
    cols_e = len(Mt)                            # n unknowns
    rows_e = len(Mt[0])                         # n+1 equations
    E = [[Mt[j][k] for j in range(cols_e)] for k in range(rows_e)]
    ete = [[sum(E[k][i] * E[k][j] for k in range(rows_e)) for j in range(cols_e)] for i in range(cols_e)]
    for i, row in enumerate(c["rows"]):
        rhs = [sum(E[k][j] * row[k] for k in range(rows_e)) for j in range(cols_e)]
        w = solve_exact(ete, rhs)
        big = max([abs(x) for x in row] + [Fraction(1, 2 ** 60)])
        for j in range(cols_e):
            if abs(out[i][j] - w[j]) > 256 * U * big:
                return "node %d of row %d is %r, the least-squares inverse of elevation gives %r" % (j, i, float(out[i][j]), float(w[j]))
    return None


def solve_exact(a, b):
    """Gaussian elimination over Fractions"""
    n = len(a)
    m = [list(r) + [x] for r, x in zip(a, b)]
    for c_ in range(n):
        p_ = next(r for r in range(c_, n) if m[r][c_] != 0)
        m[c_], m[p_] = m[p_], m[c_]
        for r in range(n):
            if r != c_ and m[r][c_] != 0:
                f_ = m[r][c_] / m[c_][c_]
                m[r] = [x - f_ * y for x, y in zip(m[r], m[c_])]
    return [m[i][n] / m[i][i] for i in range(n)]


def judge_full(c, op, cfg, raw):
    """full reduction strips exactly the spurious elevations; nets clearly off the elevated subspace stay untouched"""
    if c["dist"] == "unsupported":
        return None if raw.get("exc") == "UnsupportedDegree" else "degree %d did not raise UnsupportedDegree" % c["m"]
    if "exc" in raw:
        return "raised %s: %s" % (raw["exc"], raw.get("msg"))
    out = dec_res(raw["ok"])
    big = max([abs(x) for r in c["rows"] for x in r] + [Fraction(1)])
    if c["dist"] == "2^-20":
        if c["k"] >= 1 and out != c["rows"]:
            return "a net at relative distance 2^-20 from the elevated subspace was changed by full_reduce"
        return None
    if c["k"] == 0:
        return None
    # distance 0 or 2^-40: the k spurious elevations (at least) must be stripped and the base net recovered
    if len(out[0]) > c["m"] + 1:
        return "full_reduce left %d nodes; the net is a %d-fold elevation of a degree-%d net" % (len(out[0]), c["k"], c["m"])
    if len(out[0]) == c["m"] + 1:
        tol = big * Fraction(1, 2 ** 30)
        for i, r in enumerate(c["base"]):
            for j, x in enumerate(r):
                if abs(out[i][j] - x) > tol:
                    return "reduced net differs from the original degree-%d net at row %d node %d" % (c["m"], i, j)
    return None


def search(ctx):
    for cfg in ("pure", "speedup"):
        jobs, meta = [], []
        for n in list(range(0, 13)) + [20, 30, 40]:
            rows = [[Fraction(1 if i == j else 0) for i in range(n + 1)] for j in range(n + 1)]
            jobs.append({"op": "Curve.elevate", "args": [enc_arr(rows)]})
            meta.append(("elev", {"n": n, "rows": rows}))
        for n in range(1, 13):
            if n <= 4:
                base = [[Fraction(n if i == j else 0) for i in range(n)] for j in range(n)]
                rows = [oq.elevate(r) for r in base]
                meta.append(("red", {"n": n, "rows": rows, "kind": "elevated"}))
            else:
                rows = [[Fraction(1 if i == j else 0) for i in range(n + 1)] for j in range(n + 1)]
                meta.append(("red", {"n": n, "rows": rows, "kind": "unsupported"}))
            jobs.append({"op": "Curve.reduce_", "args": [enc_arr(rows)]})
        res = run_impl(cfg, jobs)
        for (kind, c), raw in zip(meta, res):
            v = judge_elev(c, "", cfg, raw) if kind == "elev" else judge_reduce(c, "", cfg, raw)
            if v:
                return {"config": cfg, "op": "Curve.elevate" if kind == "elev" else "Curve.reduce_", "case": c,
                        "implementation_returned": raw, "verdict": v}
    return None


# ---------------- Triangle.elevate (hand model Model/TriElevate.v) ----------------
def gen_tri_elev(ctx):
    rng = ctx.rng
    out = []
    for d in list(range(1, 13)) * (2 if ctx.quick() else 12):
        n = (d + 1) * (d + 2) // 2
        kind = rng.choice(["exact", "exact", "float", "unit"])
        dim = rng.randint(1, 3)
        if kind == "exact":      # multiples of d + 1: every division by d + 1 is exact, the whole net must agree exactly
            rows = [[(d + 1) * dyadic(rng, 20, 6) for _ in range(n)] for _ in range(dim)]
        elif kind == "unit":
            rows = []
            for _ in range(dim):
                j = rng.randrange(n)
                rows.append([Fraction(d + 1 if i == j else 0) for i in range(n)])
        else:                    # decimal data: corners are NOT preserved by ((d+1) v)/(d+1) in binary64
            rows = [[Fraction(float(Fraction(rng.randint(-1000, 1000), 10))) for _ in range(n)] for _ in range(dim)]
        out.append({"d": d, "rows": rows, "kind": kind})
    return out


def tri_elev_exact(d, v):
    """the defining formula (d+1) w_ijk = i v_(i-1)jk + j v_i(j-1)k + k v_ij(k-1), exactly"""
    idx = {}
    pos = 0
    for k in range(d + 1):
        for j in range(d + 1 - k):
            idx[(j, k)] = v[pos]; pos += 1
    out = []
    for k in range(d + 2):
        for j in range(d + 2 - k):
            i = d + 1 - j - k
            t = Fraction(0)
            if i > 0:
                t += i * idx[(j, k)]
            if j > 0:
                t += j * idx[(j - 1, k)]
            if k > 0:
                t += k * idx[(j, k - 1)]
            out.append(t / (d + 1))
    return out


def coq_tri_elev(c, obs):
    if obs[0][0] in ("exc", "malformed"):
        return None
    big = max(abs(x) for r in c["rows"] for x in r) or Fraction(1)
    tol = Fraction(0) if c["kind"] != "float" else 8 * U * big
    return ["(%d%%nat, %s, %s, 0, %s)" % (c["d"], coq_list(c["rows"][i]), coq_list(out), coq_q(tol)) for (_k, i, out) in obs]


def judge_tri_elev(c, op, cfg, raw):
    if "exc" in raw:
        return "raised %s: %s" % (raw["exc"], raw.get("msg"))
    res = dec_res(raw["ok"])
    d = c["d"]
    big = max(abs(x) for r in c["rows"] for x in r) or Fraction(1)
    for v, out in zip(c["rows"], res):
        want = tri_elev_exact(d, v)
        if len(out) != len(want):
            return "elevated net has %d nodes, expected %d" % (len(out), len(want))
        for (name, a, b) in (("first", 0, 0), ("second", d, d + 1), ("third", len(v) - 1, len(out) - 1)):
            if out[b] != v[a]:
                return "the %s corner is not copied bit-for-bit: %r -> %r" % (name, float(v[a]), float(out[b]))
        for x, w in zip(out, want):
            if abs(x - w) > 8 * U * big:
                return "elevated node %r differs from the defining formula %r" % (float(x), float(w))
    return None


def run(ctx):
    prove(ctx, DEPS)
    a = lambda c: [enc_arr(c["rows"])]
    nontriv = lambda c: any(len(set(r)) > 1 for r in c["rows"])
    correspond(ctx, "elevate", [c for c in gen_elev(ctx) if c["n"] >= 1],
               [("Curve.elevate", a, rows_out), ("shim.elevate_nodes", a, rows_out), ("hazmat.elevate_nodes", a, rows_out)],
               coq_elev, HEADER, "chk_elevate", judge=judge_elev, nontrivial=nontriv)
    red = gen_reduce(ctx)
    correspond(ctx, "reduce", red,
               [("shim.reduce_pseudo_inverse", a, rows_out), ("hazmat.reduce_pseudo_inverse", a, rows_out)],
               coq_reduce, HEADER, "chk_reduce", judge=judge_reduce, nontrivial=nontriv)
    correspond(ctx, "Curve_reduce", [c for c in red if c["n"] >= 1],
               [("Curve.reduce_", a, rows_out)], coq_reduce, HEADER, "chk_reduce", judge=judge_reduce, nontrivial=nontriv)
    correspond(ctx, "full_reduce", gen_full(ctx),
               [("shim.full_reduce", a, whole), ("hazmat.full_reduce", a, whole)],
               coq_full, HEADER, "chk_full_reduce", judge=judge_full, nontrivial=nontriv)
    correspond(ctx, "Triangle_elevate", gen_tri_elev(ctx), [("Triangle.elevate", a, rows_out)],
               coq_tri_elev, HEADER, "chk_tri_elevate", judge=judge_tri_elev, nontrivial=nontriv)
    return finish(ctx, "theorems about the Gallina model of elevate_nodes / reduce_pseudo_inverse / maybe_reduce with tables, "
                  "denominators, dispatch and threshold regenerated from the source; reduce-inverts-elevate is proved over R "
                  "(real-number axioms of the standard library); Fortran closed forms tied by correspondence; "
                  "Triangle.elevate: hand model (gather form of the scatter loop, corners copied) proved shape-preserving for every degree and corresponded (exact on multiples of d+1, corners bit-for-bit on decimal data)",
                  search=search,
                  unproved=["Moore-Penrose equations => least-squares optimality is standard linear algebra, not formalised",
                            "maybe_reduce's float threshold decision near 2^-26 (only distances 0, 2^-40, 2^-20 are corresponded)",
                            "Triangle.elevate's scatter loop is modelled in gather form (tied by correspondence, not by a lemma)"])
