"""C03 - No well-conditioned curve-curve intersection is missed or duplicated (partial)."""
from fractions import Fraction

from common import enc_arr, enc_f, coq_q, dec_res
from framework import prove, correspond, sweep, finish
from checks import isect_common as ic
import isect_oracle as io
import oracle_q as oq

DEPS = ["Props/C03.vo", "Corr/C03.vo", "Corr/C02.vo"]
HEADER = "From Coq Require Import List QArith.\nFrom BZ Require Import Corr.Common Corr.C03.\nImport ListNotations.\nOpen Scope Q_scope.\n"
F = Fraction
TOL = F(1, 2 ** 20)


def judge_c03(c, op, cfg, raw):
    """every certified crossing exactly once, nothing else; must not raise"""
    exp = c["expected"]
    if "exc" in raw:
        return "raised %s on a pair whose %d crossings are all certified simple: %s" % (raw["exc"], len(exp), raw.get("msg", "")[:80])
    arr = dec_res(raw["ok"])
    got = sorted(zip(arr[0], arr[1])) if arr and len(arr) == 2 and arr[0] else []
    if len(got) != len(exp):
        return "%d crossings reported, %d certified (expected %s, got %s)" % (
            len(got), len(exp), [tuple(map(float, e)) for e in exp], [tuple(map(float, g)) for g in got])
    if not ic.same_pairs(got, exp, TOL):
        return "reported crossings %s, certified %s" % ([tuple(map(float, g)) for g in got], [tuple(map(float, e)) for e in sorted(exp)])
    return None


def gen_close_pairs(ctx):
    """two simple transversal crossings 2^-11 .. 2^-12 apart in each parameter (inside the property's separation >= 2^-16, far
    above the duplicate threshold 2^-36): the arch (w s, A s (1 - s)) cut just below its apex by a horizontal segment or by the
    mirrored arch; crossings at s = t = 1/2 -+ delta in closed form, tangent of the crossing angle 2 A delta / w in [2^-5, 2^-2]
    (arches of moderate size: the 20-round subdivision budget is not exhausted); translated / swapped"""
    rng = ctx.rng
    out = []
    tries = 0
    while len(out) < (10 if ctx.quick() else 200) and tries < 5000:
        tries += 1
        delta = F(1, 2 ** rng.choice([12, 13]))
        A = F(rng.choice([8, 16, 32, 64]))
        w = F(1, rng.choice([4, 8, 16]))
        tan = 2 * A * delta / w
        if not (F(1, 32) <= tan <= F(1, 4)):
            continue
        h = A * (F(1, 4) - delta * delta)
        arch = [[F(0), w / 2, w], [F(0), A / 2, F(0)]]
        if rng.random() < 0.5:
            second = [[F(0), w], [h, h]]
        else:
            second = [[F(0), w / 2, w], [2 * h, 2 * h - A / 2, 2 * h]]
        tx, ty = F(rng.randint(-4, 4), 4), F(rng.randint(-4, 4), 4)
        mp = lambda rows: [[x + tx for x in rows[0]], [y + ty for y in rows[1]]]
        c1, c2 = mp(arch), mp(second)
        exp = [(F(1, 2) - delta, F(1, 2) - delta), (F(1, 2) + delta, F(1, 2) + delta)]
        if rng.random() < 0.5:
            c1, c2 = c2, c1
        if all(F(float(v)) == v for r in c1 + c2 for v in r):
            out.append({"c1": c1, "c2": c2, "expected": exp, "family": "close-pair", "delta": delta})
    return out


def gen_add(ctx):
    rng = ctx.rng
    out = []
    R = F(1, 2 ** 36)
    for _ in range(80 if ctx.quick() else 2000):
        n = rng.randint(0, 3)
        ints = [(F(rng.randint(0, 64), 64), F(rng.randint(0, 64), 64)) for _ in range(n)]
        if ints and rng.random() < 0.6:
            b = rng.choice(ints)
            k = rng.choice([0, 1, 2, 3, 8, 2 ** 10])
            s, t = b[0] + k * R / 2, b[1] - k * R / 4
        else:
            s, t = F(rng.randint(0, 64), 64), F(rng.randint(0, 64), 64)
        if all(F(float(x)) == x for x in (s, t)):
            out.append({"s": s, "t": t, "ints": ints})
    return out


def gen_tangent_line_family(ctx):
    """F2 family: every control point of the first curve lies on the line x = c (a folded straight segment of degree 2-3);
    the second curve has one END point on that line and is otherwise strictly to its right, so the two control boxes are
    tangent along x = c and all common points are (s_i, end) with y_A(s_i) = y0: certified by Sturm isolation."""
    rng = ctx.rng
    # first the witness of the model-level theorem C03_tangent_branch_refuted (Theory/RoundModelTheory.v): the pair the Coq model
    # proves is classified Tangent and dropped although it covers the common points B1(1/2) = B1(5/6) = B2(0) = (1, 5/4)
    out = [{"c1": [[F(1), F(1), F(1)], [F(0), F(2), F(1)]], "c2": [[F(1), F(2), F(3)], [F(5, 4), F(2), F(5, 4)]],
            "expected": [(F(1, 2), F(0)), (F(5, 6), F(0))], "family": "tangent-line"}]
    tries = 0
    want = 12 if ctx.quick() else 300
    while len(out) < want and tries < 200 * want:
        tries += 1
        na, nb = rng.randint(2, 3), rng.randint(1, 3)
        c = F(rng.randint(-2, 2))
        ya = [F(rng.randint(-4, 4)) for _ in range(na + 1)]
        y0 = F(rng.randint(-8, 8), 2)
        bx = [c] + [c + rng.randint(1, 4) for _ in range(nb)]
        by = [y0] + [F(rng.randint(-4, 4)) for _ in range(nb)]
        end = rng.choice([0, 1])
        if end == 1:
            bx.reverse(); by.reverse()
        pw = io.oq.to_power(ya)
        pw[0] -= y0
        pw = io.ptrim(pw)
        if len(pw) < 2 or len(io.pgcd(pw, io.pderiv(pw))) > 1 or io.peval(pw, F(0)) == 0 or io.peval(pw, F(1)) == 0:
            continue
        roots = []
        ok = True
        for lo, hi in io.roots_in(pw, F(0), F(1)):
            s_ = (lo + hi) / 2
            if s_ < F(1, 2 ** 10) or 1 - s_ < F(1, 2 ** 10):
                ok = False
            roots.append(s_)
        if not ok or not roots or any(abs(a - b) < F(1, 2 ** 12) for a in roots for b in roots if a != b):
            continue
        # crossing angle: A is vertical there, B leaves its end point with direction d
        d = (bx[1] - bx[0], by[1] - by[0]) if end == 0 else (bx[-1] - bx[-2], by[-1] - by[-2])
        if d[0] * d[0] * 2 ** 14 < d[0] * d[0] + d[1] * d[1]:
            continue
        out.append({"c1": [[c] * (na + 1), ya], "c2": [bx, by], "expected": [(r, F(end)) for r in roots], "family": "tangent-line"})
    return out


def known_f2(c, op, cfg, raw):
    if c.get("family") != "tangent-line" or "exc" in raw:
        return None
    arr = dec_res(raw["ok"])
    got = list(zip(arr[0], arr[1])) if arr and len(arr) == 2 and arr[0] else []
    # the signature covers DROPPED crossings of this family only: everything reported must be one of the certified crossings
    for g in got:
        if not any(abs(g[0] - e[0]) <= TOL and abs(g[1] - e[1]) <= TOL for e in c["expected"]):
            return None
    if len(got) < len(c["expected"]):
        return ("F2 crossings are dropped when the two control boxes are tangent along a line that contains EVERY control point of one "
                "curve (a folded straight segment of degree >= 2): only end-point pairs are compared")
    return None


# F14 (pinned): the two halves of a degree-6 net cross transversally at (s, t) = (1/2, 3/4) (sine of the angle 0.087), 0.02 away
# from another crossing.  The pure-Python all_intersections returns the other two common points and loses this one; the
# compiled routine returns all three.  Traced: in round 4 there are 72 > 64 candidates, prune_candidates (convex hulls +
# separating axes, no tolerance) drops the pairs [0.469,0.5]x[0.719,0.75] and [0.5,0.531]x[0.719,0.75] whose hulls touch
# only in the common end point, which the two subdivisions computed 1 ulp apart.


def pinned_f14(ctx):
    import json as _json
    rows = _json.load(open(__import__("os").path.join(__import__("os").path.dirname(__file__), "f14_nodes.json")))
    L = [[F(float.fromhex(x)) for x in r] for r in rows["left"]]
    R = [[F(float.fromhex(x)) for x in r] for r in rows["right"]]
    # exact evidence that (1/2, 3/4) is (within 2^-45 of the net size) a common point with a clear crossing angle
    res = io.residual(L, R, F(1, 2), F(3, 4))
    n = len(L[0]) - 1
    d1 = [n * oq.bernstein([r[i + 1] - r[i] for i in range(n)], F(1, 2)) for r in L]
    d2 = [n * oq.bernstein([r[i + 1] - r[i] for i in range(n)], F(3, 4)) for r in R]
    cr = d1[0] * d2[1] - d1[1] * d2[0]
    certified = res <= F(1, 2 ** 45) * io.net_size(L) and cr * cr * 2 ** 14 >= (d1[0] ** 2 + d1[1] ** 2) * (d2[0] ** 2 + d2[1] ** 2)
    out = {}
    from common import run_impl
    for cfg, op in (("pure", "hazmat.all_intersections"), ("speedup", "shim.all_intersections")):
        r = run_impl(cfg, [{"op": op, "args": [enc_arr(L), enc_arr(R)]}])[0]
        if "exc" in r:
            out[cfg] = "raised " + r["exc"]
            continue
        arr, _flag = dec_res(r["ok"])
        got = list(zip(arr[0], arr[1])) if arr and arr[0] else []
        out[cfg] = any(abs(s_ - F(1, 2)) < TOL and abs(t_ - F(3, 4)) < TOL for s_, t_ in got)
    ctx.corr["sweep:pinned_F14"] = {"cases": 1, "certified_common_point_with_clear_angle": bool(certified), "crossing_reported": {k: str(v) for k, v in out.items()},
                                   "kind": "pinned input of known finding F14"}
    if certified and out.get("pure") is False:
        ctx.known_hits.append("F14 the pure-Python all_intersections loses the transversal crossing at (1/2, 3/4) of the pinned degree-6 pair "
                              "(checks/f14_nodes.json): with more than 64 candidates the convex-hull pruning rejects every candidate pair around "
                              "it, because the crossing is a shared END point of the sub-curves and the two hulls meet only in that corner, "
                              "computed 1 ulp apart; the compiled routine happens to keep it")
    for cfg, v in out.items():
        if isinstance(v, str):
            ctx.violations.append({"kind": "property-fails-on-implementation", "sweep": "pinned_F14", "config": cfg, "op": "all_intersections",
                                   "case": {"nodes": "checks/f14_nodes.json"}, "verdict": v})


def gen_flow(ctx):
    """pairs of dyadic nets (degree 1..5) for the candidate-flow trace: crossings, touching boxes (lattice), disjoint, straight / nearly
    straight curves (linearized at once), elevated lines, overlapping sub-arcs of one curve (more than 64 candidates: pruning, TooMany)"""
    rng = ctx.rng
    out = []
    n = 60 if ctx.quick() else 1200
    kinds = ["random", "random", "lattice", "lattice", "flat", "flat", "lines", "elevated-line-vs-curve", "overlap", "touch"]
    while len(out) < n:
        kind = rng.choice(kinds)
        d1, d2 = rng.randint(1, 5), rng.randint(1, 5)
        if kind == "random":
            n1 = [[F(rng.randint(-64, 64), 8) for _ in range(d1 + 1)] for _ in range(2)]
            n2 = [[F(rng.randint(-64, 64), 8) for _ in range(d2 + 1)] for _ in range(2)]
        elif kind == "lattice":
            n1 = [[F(rng.randint(0, 4)) for _ in range(d1 + 1)] for _ in range(2)]
            n2 = [[F(rng.randint(0, 4)) for _ in range(d2 + 1)] for _ in range(2)]
        elif kind == "flat":      # tiny second differences: linearization error below 2^-26 early or at once
            def flat(d):
                a, b = F(rng.randint(-16, 16), 4), F(rng.randint(-16, 16), 4)
                c, e = F(rng.randint(-16, 16), 4), F(rng.randint(-16, 16), 4)
                eps = F(1, 2 ** rng.choice([20, 26, 28, 30, 34]))
                return [[a + (b - a) * F(i, d) * 1 + eps * rng.randint(-2, 2) for i in range(d + 1)],
                        [c + (e - c) * F(i, d) * 1 + eps * rng.randint(-2, 2) for i in range(d + 1)]]
            d1, d2 = rng.choice([1, 2, 4]), rng.choice([1, 2, 4])
            n1, n2 = flat(d1), flat(d2)
        elif kind == "lines":
            n1 = [[F(rng.randint(-8, 8)) for _ in range(2)] for _ in range(2)]
            n2 = [[F(rng.randint(-8, 8)) for _ in range(2)] for _ in range(2)]
            for _k in range(rng.randint(0, 2)):
                n1 = [oq.elevate(r) for r in n1]
            for _k in range(rng.randint(0, 2)):
                n2 = [oq.elevate(r) for r in n2]
        elif kind == "elevated-line-vs-curve":      # one candidate is a linearization (error 0) from the start
            n1 = [[F(rng.randint(-8, 8)) for _ in range(2)] for _ in range(2)]
            for _k in range(rng.randint(0, 2)):
                n1 = [oq.elevate(r) for r in n1]
            n2 = [[F(rng.randint(-8, 8)) for _ in range(d2 + 1)] for _ in range(2)]
            if rng.random() < 0.5:
                n1, n2 = n2, n1
        elif kind == "overlap":
            d1 = rng.randint(2, 3)
            n1 = [[F(rng.randint(-16, 16), 2) for _ in range(d1 + 1)] for _ in range(2)]
            a, b = rng.choice([(F(0), F(1)), (F(1, 4), F(1)), (F(0), F(1, 2)), (F(1, 4), F(3, 4))])
            n2 = [oq.specialize(r, a, b) for r in n1]
        else:                      # touch: second curve starts where the first one ends, boxes share an edge or a corner
            n1 = [[F(rng.randint(0, 4)) for _ in range(d1 + 1)] for _ in range(2)]
            n2 = [[n1[0][-1]] + [n1[0][-1] + F(rng.randint(0, 4)) for _ in range(d2)],
                  [n1[1][-1]] + [F(rng.randint(-4, 8)) for _ in range(d2)]]
        if not all(F(float(x)) == x for r in n1 + n2 for x in r):
            continue
        out.append({"n1": n1, "n2": n2, "kind": kind, "rounds": 7 if max(len(n1[0]), len(n2[0])) <= 4 else 5})
    return out


def coq_flow(c, obs):
    if obs[0][0] in ("exc", "malformed"):
        return None
    from common import coq_list
    b = lambda x: "true" if x else "false"
    pd = lambda p: "(%s, %s, %s, %s, %s, %s)" % (coq_q(p[0]), coq_q(p[1]), b(p[2]), coq_q(p[3]), coq_q(p[4]), b(p[5]))
    rounds = []
    flag, trace = obs[0][1]
    for cands, events, pruned, verdict in trace:
        rounds.append("([%s], [%s], %s, %d%%nat)" % ("; ".join(pd(p) for p in cands),
                                                    "; ".join("(%d%%nat, %s)" % (e[0], pd(e[1:])) for e in events), b(pruned), verdict))
    return ["(%s, %s, %s, %s, %d%%nat, %s, [%s])" % (coq_list(c["n1"][0]), coq_list(c["n1"][1]), coq_list(c["n2"][0]), coq_list(c["n2"][1]),
                                                    c["rounds"], b(flag), "; ".join(rounds))]


def run(ctx):
    prove(ctx, DEPS)
    ic.correspond_lines(ctx, n_quick=150)
    fl = gen_flow(ctx)
    correspond(ctx, "candidate_flow_of_all_intersections", fl,
               [("hazmat.round_trace", lambda c: [enc_arr(c["n1"]), enc_arr(c["n2"]), c["rounds"]], lambda res, c: [("val", res)])],
               coq_flow, HEADER, "chk_rounds", configs=("pure",), nontrivial=lambda c: c["kind"] != "lines", shard=8)
    kinds = {}
    for c in fl:
        kinds[c["kind"]] = kinds.get(c["kind"], 0) + 1
    ctx.corr["candidate_flow_of_all_intersections"]["distribution(kind)"] = kinds

    def coq_add(c, obs):
        if obs[0][0] in ("exc", "malformed"):
            return None
        pl = lambda l: "[" + "; ".join("(%s, %s)" % (coq_q(a), coq_q(b)) for a, b in l) + "]"
        return ["(%s, %s, %s, %s)" % (coq_q(c["s"]), coq_q(c["t"]), pl(c["ints"]), pl([tuple(x) for x in obs[0][1]]))]
    correspond(ctx, "add_intersection", gen_add(ctx),
               [("hazmat.add_intersection", lambda c: [enc_f(c["s"]), enc_f(c["t"]), [[float(a), float(b)] for a, b in c["ints"]]],
                 lambda res, c: [("val", res)])],
               coq_add, HEADER, "chk_add_intersection", configs=("pure",), nontrivial=lambda c: True)
    n = 120 if ctx.quick() else 4000
    cases = ic.gen_line_curve(ctx, n)
    sweep(ctx, "certified_line_curve_crossings_found_exactly_once", cases,
          [("Curve.intersect", ic.intersect_args("GEOMETRIC"))], judge_c03)
    lb = ic.gen_line_curve_boxes(ctx, 1200 if ctx.quick() else 20000)
    sweep(ctx, "segments_placed_against_the_control_box_speedup", lb, [("Curve.intersect", ic.intersect_args("GEOMETRIC"))], judge_c03, configs=("speedup",))
    sweep(ctx, "segments_placed_against_the_control_box_pure", lb[: len(lb) // 8], [("Curve.intersect", ic.intersect_args("GEOMETRIC"))], judge_c03, configs=("pure",))
    cc = ic.gen_curve_curve(ctx, 60 if ctx.quick() else 1500)
    sweep(ctx, "certified_curve_curve_crossings_found_exactly_once", cc,
          [("Curve.intersect", ic.intersect_args("GEOMETRIC"))], judge_c03)
    kinds = {}
    for c in cc:
        k = (c["kind"], len(c["expected"]))
        kinds[str(k)] = kinds.get(str(k), 0) + 1
    ctx.corr["sweep:certified_curve_curve_crossings_found_exactly_once"]["distribution(kind, crossings)"] = kinds
    sweep(ctx, "two_crossings_close_together_both_reported", gen_close_pairs(ctx),
          [("Curve.intersect", ic.intersect_args("GEOMETRIC"))], judge_c03)
    # disjoint boxes -> empty
    dis = []
    for c in ic.gen_planted(ctx, 40 if ctx.quick() else 800):
        shift = 100
        c2 = [[x + shift for x in c["c2"][0]], c["c2"][1]]
        dis.append({"c1": c["c1"], "c2": c2, "expected": []})
    # exactly parallel straight segments whose lines are a hair apart (2^-45 .. 2^-31 relative to their offset from the origin):
    # not collinear, so no common point - axis-parallel ones have strictly disjoint boxes (seed c03-7 made the compiled
    # collinearity test relative)
    rng = ctx.rng
    for _ in range(12 if ctx.quick() else 200):
        off = F(rng.choice([1, 3, 1024, 5]))
        gap = F(1, 2 ** rng.choice([45, 48, 44])) * (1 if off < 100 else 2 ** 10) * rng.choice([1, -1])
        a0, a1, b0, b1 = F(rng.randint(-4, 0)), F(rng.randint(1, 4)), F(rng.randint(-3, 1)), F(rng.randint(2, 5))
        kind_ = rng.choice(["h", "v", "d"])
        if kind_ == "h":
            s1, s2 = [[a0, a1], [off, off]], [[b0, b1], [off + gap, off + gap]]
        elif kind_ == "v":
            s1, s2 = [[off, off], [a0, a1]], [[off + gap, off + gap], [b0, b1]]
        else:
            s1, s2 = [[a0, a1], [a0 + off, a1 + off]], [[b0, b1], [b0 + off + gap, b1 + off + gap]]
        if rng.random() < 0.3:
            s1 = [io.elevate_rows(s1)[0], io.elevate_rows(s1)[1]]
        if all(F(float(v)) == v for r in s1 + s2 for v in r):
            dis.append({"c1": s1, "c2": s2, "expected": [], "family": "parallel-hair-apart"})
            dis.append({"c1": s2, "c2": s1, "expected": [], "family": "parallel-hair-apart"})
    sweep(ctx, "disjoint_boxes_give_empty_result", dis, [("Curve.intersect", ic.intersect_args("GEOMETRIC"))], judge_c03)
    sweep(ctx, "tangent_boxes_along_a_line_containing_one_curve", gen_tangent_line_family(ctx),
          [("Curve.intersect", ic.intersect_args("GEOMETRIC"))], judge_c03, known=known_f2)
    pinned_f14(ctx)
    return finish(ctx, "PROVED: what can never go wrong - disjoint control boxes imply no common point (every degree, over R, from the "
                  "convex-hull theorem of C01); two non-parallel segments give exactly their crossing (regenerated check_lines); the "
                  "de-duplication rule never merges pairs farther apart than 2^-36 sqrt 2 and always merges an exact repeat (hand model "
                  "of add_intersection, thresholds read from the source, exact correspondence); the subdivision stage never drops a common "
                  "point: the pair of restrictions that covers it is never classified DISJOINT by the regenerated bbox_intersect and one of its "
                  "four pairs of halves covers it again (every degree, real parameters); the candidate flow of all_intersections (from_shape, "
                  "subdivide, intersect_one_round, the 64-candidate rule with convex-hull pruning, check_lines hand-over) is an executable model "
                  "corresponded round by round with the real loop (end-games recorded). NOT PROVED: that subdivision + Newton "
                  "converges to every crossing: support sweep on line-vs-curve pairs (curve degree 2-6) whose crossings are certified "
                  "simple, separated and well conditioned by exact Sturm isolation, both configurations",
                  unproved=["convergence of the subdivision / Newton pipeline to each crossing (support sweep)",
                            "candidates replaced by their chord (Linearization with non-zero error), the end-games (tangent boxes, from_linearized + Newton), convex-hull pruning beyond the lattice hull theorem, and the 20-round budget",
                            "tangent-box handling drops crossings when a whole curve lies in the tangency line (known finding F2; certified family swept)"])
