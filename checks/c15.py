"""C15 - Geometric and algebraic intersection strategies agree (partial)."""
from fractions import Fraction

from common import enc_arr, dec_res
from framework import prove, sweep, finish
from checks import isect_common as ic
import isect_oracle as io

DEPS = ["Props/C15.vo"]
F = Fraction
TOL = F(1, 2 ** 20)


def pairs_of(raw):
    arr = dec_res(raw["ok"])
    return sorted(zip(arr[0], arr[1])) if arr and len(arr) == 2 and arr[0] else []


F15_SIG = ("F15 the algebraic strategy drops a simple crossing at which the tangent of one of the curves is parallel to a "
           "coordinate axis (x'(s) = 0 or y'(s) = 0 there): its locate_point solves ONE coordinate polynomial, which then has a "
           "double root, and a root at 1 + 2^-52 of the intersection polynomial moves it out of the unit interval")
F18_SIG = ("F18 the algebraic strategy drops a simple crossing when the intersection polynomial is ill conditioned (leading power-basis "
           "coefficient below 2^-6 of the largest one: the higher-degree curve is nearly degree-reducible): the root is found to ~1e-12 "
           "and algebraic locate_point rejects the point on its fixed 2^-38 residual threshold")


F22_PAIR = ([[F(6), F(6), F(2)], [F(3), F(7, 2), F(3, 2)]], [[F(-65, 32), F(31, 32), F(239, 32)], [F(375, 128), F(183, 128), F(439, 128)]])
F22_SIG = ("F22 the algebraic strategy drops the simple crossing (0.010905, 0.883317) of the pinned pair [[6,6,2],[3,7/2,3/2]] x "
           "[[-65/32,31/32,239/32],[375/128,183/128,439/128]] (first curve starts with a vertical tangent; the crossing sits at "
           "s = 0.0109 where x'/y' = -0.087) in this argument order, also when presented degree-elevated; the swapped order finds both")


def alg_known_class(c, rg, ra):
    if (c.get("base1", c["c1"]), c.get("base2", c["c2"])) == F22_PAIR and "exc" not in rg and "exc" not in ra:
        pg_, pa_ = pairs_of(rg), pairs_of(ra)
        if len(pg_) == 2 and len(pa_) == 1 and abs(pa_[0][0] - F(5, 8)) < TOL and abs(pg_[0][0] - F(383696930299, 35184372088832)) < TOL:
            return [F22_SIG]
    """known findings F15 / F18: the geometric strategy reports exactly the certified crossings, the algebraic one returns a subset,
    and every crossing it misses is in one of the two classes (decided from the exact data of the case)"""
    if "exc" in rg or "exc" in ra:
        return None
    exp = sorted(c["expected"])
    pg, pa = pairs_of(rg), pairs_of(ra)
    close = lambda x, y: abs(x[0] - y[0]) <= TOL and abs(x[1] - y[1]) <= TOL
    if len(pg) != len(exp) or not all(close(x, y) for x, y in zip(pg, exp)):
        return None
    if not all(any(close(p, e) for e in exp) for p in pa) or len(pa) >= len(exp):
        return None
    def deriv(rows, s):
        n = len(rows[0]) - 1
        return [n * io.oq.bernstein([r[i + 1] - r[i] for i in range(n)], s) for r in rows]
    sigs = set()
    # conditioning of the intersection polynomial (exact resultant in the parameter of the curve with more nodes, as the code builds it)
    b1, b2 = c.get("base1", c["c1"]), c.get("base2", c["c2"])       # the algebraic path reduces elevated presentations first
    lo, hi = (b1, b2) if len(b1[0]) <= len(b2[0]) else (b2, b1)
    try:
        g = io._resultant_poly(lo, hi) if len(lo[0]) > 2 else None
        if g is None:
            # first curve is a line: the polynomial is the implicit line equation composed with the other curve
            (px, qx), (py, qy) = lo
            a_, b_ = qy - py, -(qx - px)
            g = io.ptrim([a_ * u + b_ * v for u, v in zip(io.oq.to_power(hi[0]), io.oq.to_power(hi[1]))])
    except Exception:
        g = None
    ill = bool(g) and len(g) >= 2 and abs(g[-1]) * 64 <= max(abs(x) for x in g)
    for e in exp:
        if any(close(p, e) for p in pa):
            continue
        d1, d2 = deriv(b1, e[0]), deriv(b2, e[1])
        big = max(abs(x) for x in d1 + d2) or F(1)
        if min(abs(x) for x in d1 + d2) * 2 ** 20 <= big:
            sigs.add(F15_SIG)
        elif ill:
            sigs.add(F18_SIG)
        else:
            return None
    return sorted(sigs)


def tri_edges(t):
    n = len(t[0])
    idx = {3: [(0, 1), (1, 2), (2, 0)], 6: [(0, 1, 2), (2, 4, 5), (5, 3, 0)]}[n]
    return [[[t[0][i] for i in e], [t[1][i] for i in e]] for e in idx]


def tri_known(ctx, cfg, c):
    """a disagreement of the two strategies on a triangle pair is attributed to known findings F15 / F18 when some pair of edges is a
    certified curve pair on which the algebraic strategy drops crossings of those classes, and no edge pair disagrees otherwise"""
    from common import run_impl
    pairs = [(e1, e2) for e1 in tri_edges(c["t1"]) for e2 in tri_edges(c["t2"])]
    cases = []
    for e1, e2 in pairs:
        exp = io.curve_curve(e1, e2)
        if exp is None:
            continue
        cases.append({"c1": e1, "c2": e2, "expected": exp})
    if not cases:
        return False
    g = run_impl(cfg, [{"op": "Curve.intersect", "args": [enc_arr(k["c1"]), enc_arr(k["c2"]), "GEOMETRIC"]} for k in cases])
    a = run_impl(cfg, [{"op": "Curve.intersect", "args": [enc_arr(k["c1"]), enc_arr(k["c2"]), "ALGEBRAIC"]} for k in cases])
    hit = False
    for k, rg, ra in zip(cases, g, a):
        if "exc" in rg or "exc" in ra:
            continue
        pg, pa = pairs_of(rg), pairs_of(ra)
        if len(pg) == len(pa) and all(abs(x[0] - y[0]) <= TOL and abs(x[1] - y[1]) <= TOL for x, y in zip(pg, pa)):
            continue
        sigs = alg_known_class(k, rg, ra)
        if not sigs:
            return False
        hit = True
        for sig in sigs:
            if sig not in ctx.known_hits:
                ctx.known_hits.append(sig)
    return hit


def run(ctx):
    prove(ctx, DEPS)
    n = 60 if ctx.quick() else 2000
    cases = [c for c in ic.gen_line_curve(ctx, n) if (len(c["c1"][0]) - 1) * (len(c["c2"][0]) - 1) <= 4]
    cases += ic.gen_curve_curve(ctx, 12 if ctx.quick() else 400, max_deg=2)          # 2-2 pairs certified by the resultant oracle
    # pairs whose intersection polynomial has LOWER degree than the Bezout bound, with non-dyadic data: two parabolas that are graphs
    # over x (evenly spaced abscissae, decimal ordinates): the leading coefficients vanish only up to round-off, and the
    # repeated-root test must still see simple roots (seed c15-4 tightened the coefficient threshold to 2^-52)
    rng = ctx.rng
    dec = lambda lo, hi: F(float(F(rng.randint(lo, hi), 10)))
    tries_ = 0
    graphs = []
    while len(graphs) < (12 if ctx.quick() else 300) and tries_ < 5000:
        tries_ += 1
        def graph():
            x0, h = dec(-10, 10), dec(3, 12)
            return [[F(float(x0)), F(float(x0 + h)), F(float(x0 + 2 * h))], [dec(-20, 20), dec(-20, 20), dec(-20, 20)]]
        g1, g2 = graph(), graph()
        exp = io.curve_curve(g1, g2)
        if exp:
            graphs.append({"c1": g1, "c2": g2, "expected": exp, "kind": "curve-curve:x-graphs", "family": "x-graphs"})
    cases += graphs
    # pinned instance of known finding F15 (an end-point crossing with a vertical tangent)
    cases.insert(0, {"c1": [[F(0), F(0), F(3)], [F(-1), F(3, 2), F(1, 2)]], "c2": [[F(-1), F(-1, 2), F(0)], [F(3, 2), F(-1, 2), F(-1)]],
                     "expected": [(F(0), F(1))], "kind": "curve-curve:pinned-F15"})
    f18 = {"c1": [[F(0), F(8)], [F(0), F(-1, 2)]], "c2": [[F(5), F(145, 32), F(4)], [F(7, 2), F(1), F(-3, 2)]], "kind": "line-curve:pinned-F18"}
    f18["expected"] = list(io.line_curve(f18["c1"], f18["c2"]))
    cases.insert(1, f18)
    # pinned instance of known finding F22 (found by the thorough tier at PRNG seed 1 in the planted family)
    cases.insert(2, {"c1": F22_PAIR[0], "c2": F22_PAIR[1], "kind": "curve-curve:pinned-F22",
                     "expected": [(F(383696930299, 35184372088832), F(31078957081933, 35184372088832)), (F(5, 8), F(3, 4))]})
    # degree-elevated presentations (the algebraic path must reduce first): every presented size up to 5 nodes for either
    # curve; the elevated net is rounded to binary64 (moves a simple crossing by rounding amounts only)
    extra = []
    rng = ctx.rng
    for c in cases:
        for _rep in range(2):
            k1 = rng.randint(0, 5 - len(c["c1"][0]))
            k2 = rng.randint(0, 5 - len(c["c2"][0]))
            if k1 + k2 == 0:
                continue
            rnd = lambda rows: [[F(float(x)) for x in r] for r in rows]
            extra.append(dict(c, c1=rnd(io.elevate_rows(c["c1"], k1)), c2=rnd(io.elevate_rows(c["c2"], k2)), kind="elevated %d+%d" % (k1, k2),
                              base1=c["c1"], base2=c["c2"]))
    cases = [c for c in cases + extra if all(F(float(x)) == x for r in c["c1"] + c["c2"] for x in r)]
    # run both strategies and compare the sets (support sweep)
    from common import run_impl_parallel
    stats = {"cases": len(cases), "failures": 0, "kind": "support sweep: the two strategies on Sturm-certified simple crossings (degree product <= 4)"}
    for cfg in ("pure", "speedup"):
        g = run_impl_parallel(cfg, [{"op": "Curve.intersect", "args": [enc_arr(c["c1"]), enc_arr(c["c2"]), "GEOMETRIC"]} for c in cases])
        a = run_impl_parallel(cfg, [{"op": "Curve.intersect", "args": [enc_arr(c["c1"]), enc_arr(c["c2"]), "ALGEBRAIC"]} for c in cases])
        for c, rg, ra in zip(cases, g, a):
            v = None
            if "exc" in ra:
                v = "algebraic strategy raised %s on a pair with simple crossings" % ra["exc"]
            elif "exc" in rg:
                v = "geometric strategy raised %s" % rg["exc"]
            else:
                pg, pa = pairs_of(rg), pairs_of(ra)
                if not ic.same_pairs(pg, pa, TOL):
                    v = "strategies disagree: geometric %s, algebraic %s" % ([tuple(map(float, p)) for p in pg], [tuple(map(float, p)) for p in pa])
                elif len(pa) != len(c["expected"]) and c.get("family") != "x-graphs":
                    # (decimal x-graphs: an end point of one curve can sit within 1e-17 of the other curve, outside the exact
                    # oracle's unit square but legitimately reported at the end by both strategies - false alarm of the thorough
                    # tier when the family was added; the property here is the AGREEMENT of the strategies)
                    v = "both strategies report %d crossings, %d certified" % (len(pa), len(c["expected"]))
            sigs = alg_known_class(c, rg, ra) if v else None
            if sigs:
                stats["known"] = stats.get("known", 0) + 1
                for sig in sigs:
                    if sig not in ctx.known_hits:
                        ctx.known_hits.append(sig)
                continue
            if v:
                stats["failures"] += 1
                if stats["failures"] <= 3:
                    ctx.violations.append({"kind": "property-fails-on-implementation", "sweep": "strategies_agree", "config": cfg,
                                           "op": "Curve.intersect", "case": c, "implementation_returned": {"geometric": rg, "algebraic": ra}, "verdict": v})
    ctx.corr["sweep:strategies_agree"] = stats
    # unsupported pairs and coincident input must raise NotImplementedError
    rng = ctx.rng
    bad = []
    for (a, b) in [(1, 5), (2, 5), (3, 4), (4, 4), (5, 1), (5, 5), (3, 5)]:
        c1, c2 = ic.rand_curve(rng, a), ic.rand_curve(rng, b)
        # plant a common point so that the control boxes overlap: with disjoint boxes the strategy CAN answer (empty) before
        # it looks at the degrees, and a normal return is right
        dx, dy = c1[0][0] - c2[0][-1], c1[1][0] - c2[1][-1]
        c2 = [[x + dx for x in c2[0]], [y + dy for y in c2[1]]]
        bad.append({"c1": c1, "c2": c2, "why": "unsupported degree pair %d-%d" % (a, b)})
    par = [[F(0), F(1), F(3)], [F(0), F(2), F(1)]]
    bad.append({"c1": par, "c2": io.specialize_rows(par, F(1, 4), F(3, 4)), "why": "coincident curves"})

    def judge_bad(c, op, cfg, raw):
        if "exc" in raw and raw["exc"] in ("NotImplementedError", "UnsupportedDegree"):   # UnsupportedDegree subclasses NotImplementedError
            return None
        box = lambda c_: [(min(r), max(r)) for r in c_]
        b1, b2 = box(c["c1"]), box(c["c2"])
        if "ok" in raw and any(b1[k][1] < b2[k][0] or b2[k][1] < b1[k][0] for k in range(2)):
            return None         # disjoint control boxes: the empty answer is available without the algebraic solve
        return "%s: expected NotImplementedError, got %s" % (c["why"], raw.get("exc") or "a normal return")
    sweep(ctx, "algebraic_refuses", bad, [("Curve.intersect", ic.intersect_args("ALGEBRAIC"))], judge_bad)
    # ---- triangle pairs (degree 1..2: every edge pair has degree product <= 4): the two strategies must return the same regions.
    # Families: nested (one strictly inside the other, both orders), crossing, disjoint, sharing a corner region
    def tri1(p0, p1, p2):
        return [[p0[0], p1[0], p2[0]], [p0[1], p1[1], p2[1]]]
    def tri2(p0, p1, p2, bump):
        mid = lambda a, b, k: ((a[0] + b[0]) / 2 + bump[k][0], (a[1] + b[1]) / 2 + bump[k][1])
        m01, m02, m12 = mid(p0, p1, 0), mid(p0, p2, 1), mid(p1, p2, 2)
        # general position: no curved edge may be a straight axis-parallel segment presented with degree 2 (all three control points
        # sharing an abscissa or an ordinate: a flat control box, finding F2's class reached through Triangle.intersect - the thorough
        # tier drew such a pair when the generator's random stream shifted)
        def unflat(a, m, b):
            mx, my = m
            if a[0] == mx == b[0]:
                mx += F(1, 8)
            if a[1] == my == b[1]:
                my += F(1, 8)
            return (mx, my)
        m01, m02, m12 = unflat(p0, m01, p1), unflat(p0, m02, p2), unflat(p1, m12, p2)
        return [[p0[0], m01[0], p1[0], m02[0], m12[0], p2[0]], [p0[1], m01[1], p1[1], m02[1], m12[1], p2[1]]]
    tcases = []
    for rep in range(10 if ctx.quick() else 200):
        # the two coordinates live in different ranges (a point made of two abscissae is then far from the triangle)
        o = (F(rng.randint(-4, 4), 2), F(rng.choice([-20, -10, 0, 10, 20])) + F(rng.randint(-4, 4), 2))
        big = [o, (o[0] + 8, o[1] + F(rng.randint(-2, 2), 2)), (o[0] + F(rng.randint(-2, 2), 2), o[1] + 8)]
        fam = rng.choice(["nested", "nested", "crossing", "disjoint"])
        if fam == "nested":
            c_ = (o[0] + 2, o[1] + 2)
            small = [c_, (c_[0] + F(rng.randint(2, 4), 2), c_[1] + F(rng.randint(0, 1), 2)), (c_[0] + F(rng.randint(0, 1), 2), c_[1] + F(rng.randint(2, 4), 2))]
        elif fam == "crossing":
            c_ = (o[0] + F(rng.randint(4, 12), 2), o[1] + F(rng.randint(-4, 4), 2))
            small = [c_, (c_[0] + 4, c_[1] + 1), (c_[0] + 1, c_[1] + 5)]
        else:
            c_ = (o[0] + 20, o[1] + 20)
            small = [c_, (c_[0] + 2, c_[1]), (c_[0], c_[1] + 2)]
        for (da, db) in ((1, 1), (2, 1), (1, 2), (2, 2)):
            bump = [(F(rng.randint(-1, 1), 8), F(rng.randint(-1, 1), 8)) for _ in range(3)]
            A = tri1(*big) if da == 1 else tri2(*big, bump)
            B = tri1(*small) if db == 1 else tri2(*small, [(x / 4, y / 4) for x, y in bump])
            for first, second in ((A, B), (B, A)):
                tcases.append({"t1": first, "t2": second, "kind": fam, "degrees": (da, db)})
    def summary(raw):
        if "exc" in raw:
            return ("exc", raw["exc"])
        out = []
        for r in dec_res(raw["ok"]):
            if r[0] == "triangle":
                out.append(("triangle", tuple(tuple(x) for x in r[1])))
            else:
                out.append(("polygon", len(r[2]), r[1]))
        return tuple(sorted(out, key=str))
    tstats = {"cases": len(tcases), "failures": 0, "kind": "support sweep: triangle pairs (degree 1-2), GEOMETRIC vs ALGEBRAIC regions"}
    for cfg in ("pure", "speedup"):
        g = run_impl_parallel(cfg, [{"op": "Triangle.intersect_summary", "args": [enc_arr(c["t1"]), enc_arr(c["t2"]), "GEOMETRIC"]} for c in tcases])
        a = run_impl_parallel(cfg, [{"op": "Triangle.intersect_summary", "args": [enc_arr(c["t1"]), enc_arr(c["t2"]), "ALGEBRAIC"]} for c in tcases])
        for c, rg, ra in zip(tcases, g, a):
            sg, sa = summary(rg), summary(ra)
            same = len(sg) == len(sa) and all(x[0] == y[0] and (x[0] != "polygon" or (x[1] == y[1] and abs(x[2] - y[2]) <= F(1, 2 ** 20) * max(abs(x[2]), 1))) for x, y in zip(sg, sa)) if sg and sa and sg[0] != "exc" and sa[0] != "exc" else sg == sa
            if sa and sa[0] == "exc" and sa[1] == "NotImplementedError":
                continue            # the algebraic strategy may refuse (documented)
            nested_wrong = c["kind"] == "nested" and sg and sg[0] != "exc" and len(sg) != 1
            if (not same or nested_wrong) and tri_known(ctx, cfg, c):
                tstats["known"] = tstats.get("known", 0) + 1
                continue
            if not same or nested_wrong:
                tstats["failures"] += 1
                if tstats["failures"] <= 3:
                    ctx.violations.append({"kind": "property-fails-on-implementation", "sweep": "triangle_strategies_agree", "config": cfg,
                                           "op": "Triangle.intersect", "case": c, "implementation_returned": {"geometric": rg, "algebraic": ra},
                                           "verdict": "triangle pair (%s, degrees %s): the strategies return different regions (geometric %d, algebraic %d)%s" % (
                                               c["kind"], c["degrees"], len(sg), len(sa), "; a nested pair must give exactly the inner triangle" if nested_wrong else "")})
    ctx.corr["sweep:triangle_strategies_agree"] = tstats
    ctx.samples.append({"sweep": "strategies_agree", "case": cases[0] if cases else {}})
    return finish(ctx, "PROVED (algebraic side, regenerated functions): to_power_basis accepts exactly the eight documented degree pairs; for "
                  "degree product <= 4 the interpolation is exact (K times the intersection polynomial), and the implicit curve of degree "
                  "<= 2 contains its curve. NOT PROVED: that the two floating-point pipelines return the same set - support sweep on "
                  "Sturm-certified pairs (also presented degree-elevated) in both configurations; unsupported pairs and coincident input "
                  "must raise NotImplementedError. Equality is not claimed for degree products 6..9 (F6)",
                  unproved=["agreement of the two float pipelines (sweep)", "least-squares fits for 2-3, 2-4, 3-3 (polyfit not modelled)",
                            "non-simple-root detection (matrix_rank / dgecon not modelled)"])
