"""C02 - Every reported curve-curve intersection is a real one (range half proved; genuineness validated)."""
from framework import prove, sweep, finish
from checks import isect_common as ic

DEPS = ["Props/C02.vo", "Corr/C02.vo"]


def run(ctx):
    prove(ctx, DEPS)
    ic.correspond_lines(ctx)
    n = 60 if ctx.quick() else 1500
    cases = ic.gen_line_curve(ctx, n) + ic.gen_planted(ctx, n) + ic.gen_shared_ends(ctx, n // 2)
    sweep(ctx, "geometric_reported_pairs_are_real", cases, [("Curve.intersect", ic.intersect_args("GEOMETRIC"))], ic.judge_c02)
    # overlapping sub-arcs of one parent curve (coincident results): the reported end points of the shared arc must be genuine
    # common points too (generator of C20; the judge here is genuineness and range only)
    from checks import c20 as _c20
    ov = _c20.gen_overlaps(ctx)
    sweep(ctx, "coincident_results_are_genuine", ov, [("Curve.intersect", ic.intersect_args("GEOMETRIC"))], ic.judge_c02)
    # end point of one curve in the interior of the other: Newton lands a hair outside [0,1] in a fraction of a percent of the
    # cases, so this family is large (the compiled pipeline is fast; the pure one gets a tenth)
    ends = ic.gen_end_on_curve(ctx, 4000 if ctx.quick() else 60000)
    sweep(ctx, "end_point_on_the_other_curve_speedup", ends, [("Curve.intersect", ic.intersect_args("GEOMETRIC"))], ic.judge_c02, configs=("speedup",))
    sweep(ctx, "end_point_on_the_other_curve_pure", ends[: len(ends) // 10], [("Curve.intersect", ic.intersect_args("GEOMETRIC"))], ic.judge_c02, configs=("pure",))
    alg = [c for c in cases if (len(c["c1"][0]) - 1) * (len(c["c2"][0]) - 1) <= 4 and len(c["c1"][0]) <= 5 and len(c["c2"][0]) <= 5]
    sweep(ctx, "algebraic_reported_pairs_are_real", alg, [("Curve.intersect", ic.intersect_args("ALGEBRAIC"))], ic.judge_c02, configs=("pure",))
    return finish(ctx, "PROVED (range half): every parameter pair recorded by from_linearized / endpoint_check / check_lines / "
                  "coincident_parameters (regenerated from the source, array helpers and Newton as uninterpreted oracles) lies in "
                  "[0,1]^2. NOT PROVED: that a recorded pair is a genuine intersection (needs floating-point Newton convergence): "
                  "validated by the support sweep (exact residuals in rational arithmetic). The Fortran pipeline is tied by the "
                  "line-line correspondence and the sweep only",
                  unproved=["genuineness of the reported pairs (support sweep)", "the algebraic strategy's emission path (_resolve_and_add) is swept, not translated",
                            "add_intersection de-duplication and the round structure of all_intersections are not modelled"])
