"""C02 - Every reported curve-curve intersection is a real one (range half proved; genuineness validated)."""
from framework import prove, sweep, finish
from checks import isect_common as ic

DEPS = ["Props/C02.vo", "Corr/C02.vo"]


def run(ctx):
    prove(ctx, DEPS)
    ic.correspond_lines(ctx)
    n = 60 if ctx.quick() else 1500
    cases = ic.gen_line_curve(ctx, n) + ic.gen_planted(ctx, n) + ic.gen_shared_ends(ctx, n // 2)
    sweep(ctx, "geometric_reported_pairs_are_real", cases, [("Curve.intersect", ic.intersect_args("GEOMETRIC"))], ic.judge_c02)
    # the same certified line-curve pairs presented TINY (scaled by 2^-27 and 2^-30, exact) and in both argument orders: every curved
    # piece then has a linearization error below the ABSOLUTE threshold 2^-26 from the start, so the pair goes straight to the
    # "both linearized" end game - which must still refine with Newton unless the error is exactly zero (seed c02-5 treated a
    # nearly straight FIRST curve as a line in the compiled check_lines); and nearly straight O(1) arcs (bow 2^-28 .. 2^-34)
    # against an exact segment
    from fractions import Fraction as F
    tiny = []
    for c in ic.gen_line_curve(ctx, 30 if ctx.quick() else 600):
        for k in (27, 30):
            sc = F(1, 2 ** k)
            a = [[x * sc for x in r] for r in c["c1"]]
            b = [[x * sc for x in r] for r in c["c2"]]
            tiny.append(dict(c, c1=a, c2=b, kind="tiny"))
            tiny.append(dict(c, c1=b, c2=a, expected=[(t, s_) for (s_, t) in c.get("expected", [])], kind="tiny-swapped"))
    for _ in range(20 if ctx.quick() else 300):
        h = F(1, 2 ** ctx.rng.choice([28, 30, 34])) * ctx.rng.choice([1, -1])
        n = ctx.rng.choice([2, 4])
        arc = [[F(i, n) for i in range(n + 1)], [F(0)] + [h * ctx.rng.randint(1, 3) for _ in range(n - 1)] + [F(0)]]
        x0, x1 = F(ctx.rng.randint(2, 6), 16), F(ctx.rng.randint(7, 13), 16)
        seg = [[x0, x1], [F(-1, 4), F(1, 2)]]
        tiny.append({"c1": arc, "c2": seg, "kind": "nearly-straight-arc-first"})
        tiny.append({"c1": seg, "c2": arc, "kind": "nearly-straight-arc-second"})
    sweep(ctx, "tiny_and_nearly_straight_pairs_are_real", tiny, [("Curve.intersect", ic.intersect_args("GEOMETRIC"))], ic.judge_c02)
    # overlapping sub-arcs of one parent curve (coincident results): the reported end points of the shared arc must be genuine
    # common points too (generator of C20; the judge here is genuineness and range only)
    from checks import c20 as _c20
    ov = _c20.gen_overlaps(ctx)
    sweep(ctx, "coincident_results_are_genuine", ov, [("Curve.intersect", ic.intersect_args("GEOMETRIC"))], ic.judge_c02)
    # end point of one curve in the interior of the other: Newton lands a hair outside [0,1] in a fraction of a percent of the
    # cases, so this family is large (the compiled pipeline is fast; the pure one gets a tenth)
    ends = ic.gen_end_on_curve(ctx, 4000 if ctx.quick() else 60000)
    sweep(ctx, "end_point_on_the_other_curve_speedup", ends, [("Curve.intersect", ic.intersect_args("GEOMETRIC"))], ic.judge_c02, configs=("speedup",))
    sweep(ctx, "end_point_on_the_other_curve_pure", ends[: len(ends) // 10], [("Curve.intersect", ic.intersect_args("GEOMETRIC"))], ic.judge_c02, configs=("pure",))
    alg = [c for c in cases if (len(c["c1"][0]) - 1) * (len(c["c2"][0]) - 1) <= 4 and len(c["c1"][0]) <= 5 and len(c["c2"][0]) <= 5]
    sweep(ctx, "algebraic_reported_pairs_are_real", alg, [("Curve.intersect", ic.intersect_args("ALGEBRAIC"))], ic.judge_c02, configs=("pure",))
    return finish(ctx, "PROVED (range half): every parameter pair recorded by from_linearized / endpoint_check / check_lines / "
                  "coincident_parameters (regenerated from the source, array helpers and Newton as uninterpreted oracles) lies in "
                  "[0,1]^2. NOT PROVED: that a recorded pair is a genuine intersection (needs floating-point Newton convergence): "
                  "validated by the support sweep (exact residuals in rational arithmetic). The Fortran pipeline is tied by the "
                  "line-line correspondence and the sweep only",
                  unproved=["genuineness of the reported pairs (support sweep)", "the algebraic strategy's emission path (_resolve_and_add) is swept, not translated",
                            "add_intersection de-duplication and the round structure of all_intersections are not modelled"])
