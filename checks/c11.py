"""C11 - Tangents, curvature and Jacobians are the true derivatives."""
from fractions import Fraction

from common import enc_arr, enc_vec, enc_f, coq_q, coq_list, coq_mat, coq_val, dyadic, dec_res, run_impl
from framework import prove, correspond, sweep, finish
import oracle_q as oq

DEPS = ["Props/C11.vo", "Corr/C11.vo", "Corr/C11N.vo"]
HEADER = ("From Coq Require Import List QArith String.\nFrom BZ Require Import Base.PyVal Corr.Common Corr.C11.\n"
          "Import ListNotations.\nOpen Scope Q_scope.\nOpen Scope string_scope.\n")
U = Fraction(1, 2 ** 53)
F = Fraction


def rnd_rows(rng, n, dim, bits=8, pb=3):
    return [[dyadic(rng, bits, pb) for _ in range(n + 1)] for _ in range(dim)]


def tri_rows(rng, d, dim, bits=6, pb=2):
    n = (d + 1) * (d + 2) // 2
    return [[dyadic(rng, bits, pb) for _ in range(n)] for _ in range(dim)]


def gen_curves(ctx):
    rng = ctx.rng
    out = []
    for n in list(range(1, 31)) * (1 if ctx.quick() else 5):
        dim = rng.randint(1, 4)
        q = 2 if n > 10 else 3
        out.append({"n": n, "rows": rnd_rows(rng, n, dim), "s": F(rng.randint(-2 ** q, 2 * 2 ** q), 2 ** q)})
    return out


def deriv_exact(row, s):
    n = len(row) - 1
    return n * oq.bernstein([row[i + 1] - row[i] for i in range(n)], s) if n >= 1 else F(0)


def deriv_abs(row, s):
    n = len(row) - 1
    return n * oq.bernstein_abs([row[i + 1] - row[i] for i in range(n)], s) if n >= 1 else F(0)


def hod_out(res, c):
    return [("row", i, res[i][0]) for i in range(len(c["rows"]))]


def coq_hod(c, obs):
    if obs[0][0] in ("exc", "malformed"):
        return None
    n = c["n"]
    return ["(%s, %s, %s, %s)" % (coq_list(c["rows"][i]), coq_q(c["s"]), coq_q(out),
                                  coq_q(4 * (n + 2) * U * deriv_abs(c["rows"][i], c["s"]))) for (_k, i, out) in obs]


def judge_hod(c, op, cfg, raw):
    if "exc" in raw:
        return "raised %s: %s" % (raw["exc"], raw.get("msg"))
    res = dec_res(raw["ok"])
    for i, row in enumerate(c["rows"]):
        want = deriv_exact(row, c["s"])
        allow = 4 * (c["n"] + 2) * U * deriv_abs(row, c["s"])
        if abs(res[i][0] - want) > allow:
            return "tangent component %d is %r, exact derivative %r" % (i, float(res[i][0]), float(want))
    return None


def gen_planar(ctx):
    rng = ctx.rng
    out = []
    for n in list(range(1, 13)) * (2 if ctx.quick() else 10):
        rows = rnd_rows(rng, n, 2, 6, 2)
        s = F(rng.randint(0, 8), 8)
        out.append({"n": n, "rows": rows, "s": s, "t": F(rng.randint(0, 8), 8), "rows2": rnd_rows(rng, rng.randint(1, 6), 2, 6, 2),
                    "p": [dyadic(rng, 6, 2), dyadic(rng, 6, 2)]})
    return out


def val_out(res, c):
    return [("val", res)]


def gen_tri(ctx):
    rng = ctx.rng
    out = []
    for d in list(range(1, 11)) * (1 if ctx.quick() else 5):
        q = 4 if d <= 5 else 2
        pts = []
        for _ in range(3):
            s = rng.randint(0, q); t = rng.randint(0, q - s)
            pts.append((F(s, q), F(t, q)))
        out.append({"d": d, "rows": tri_rows(rng, d, 2), "pts": pts, "xy": (dyadic(rng, 6, 2), dyadic(rng, 6, 2)),
                    "dim": rng.randint(1, 3)})
    return out


def search(ctx):
    """unit nets x degrees: tangent against the exact derivative"""
    for cfg in ("pure", "speedup"):
        jobs, meta = [], []
        for n in list(range(1, 10)) + [15, 20, 30]:
            rows = [[F(1 if i == j else 0) for i in range(n + 1)] for j in range(n + 1)]
            for s in (F(0), F(1, 4), F(1)):
                c = {"n": n, "rows": rows, "s": s}
                jobs.append({"op": "Curve.evaluate_hodograph", "args": [enc_arr(rows), enc_f(s)]})
                meta.append(c)
        res = run_impl(cfg, jobs)
        for c, raw in zip(meta, res):
            v = judge_hod(c, "", cfg, raw)
            if v:
                return {"config": cfg, "op": "Curve.evaluate_hodograph", "case": c, "implementation_returned": raw, "verdict": v}
    return None


def run(ctx):
    prove(ctx, DEPS)
    nt = lambda c: True
    cv = gen_curves(ctx)
    correspond(ctx, "evaluate_hodograph", cv,
               [("Curve.evaluate_hodograph", lambda c: [enc_arr(c["rows"]), enc_f(c["s"])], hod_out),
                ("shim.evaluate_hodograph", lambda c: [enc_f(c["s"]), enc_arr(c["rows"])], hod_out),
                ("hazmat.evaluate_hodograph", lambda c: [enc_f(c["s"]), enc_arr(c["rows"])], hod_out)],
               coq_hod, HEADER, "chk_hodograph", judge=judge_hod, nontrivial=nt)
    # curve Newton step, any dimension
    def coq_nc(c, obs):
        if obs[0][0] in ("exc", "malformed"):
            return None
        return ["(%s, %s, %s, %s, %s)" % (coq_mat(c["rows"]), coq_list(c["p"]), coq_q(c["s"]), coq_q(obs[0][1]), coq_q(F(1, 2 ** 36)))]
    nc = []
    for c in cv[:: (2 if ctx.quick() else 1)]:
        if c["n"] <= 12:
            p = [oq.bernstein(r, c["s"]) + F(ctx.rng.randint(-3, 3), 16) for r in c["rows"]]
            if all(F(float(x)) == x for x in p) and any(deriv_exact(r, c["s"]) != 0 for r in c["rows"]):
                nc.append(dict(c, p=p))
    correspond(ctx, "newton_refine_curve", nc,
               [("shim.newton_refine_curve", lambda c: [enc_arr(c["rows"]), enc_arr([[x] for x in c["p"]]), enc_f(c["s"])], val_out),
                ("hazmat.newton_refine_curve", lambda c: [enc_arr(c["rows"]), enc_arr([[x] for x in c["p"]]), enc_f(c["s"])], val_out)],
               coq_nc, HEADER, "chk_newton_curve", nontrivial=nt)
    # curvature and the intersection Newton step (planar)
    pl = gen_planar(ctx)

    def tangent(c):
        return [deriv_exact(r, c["s"]) for r in c["rows"]]
    plc = [c for c in pl if all(F(float(x)) == x for x in tangent(c)) and any(x != 0 for x in tangent(c))]

    def coq_curv(c, obs):
        if obs[0][0] in ("exc", "malformed"):
            return None
        tx, ty = tangent(c)
        return ["(%s, %s, %s, %s, %s, %s, %s)" % (coq_list(c["rows"][0]), coq_list(c["rows"][1]), coq_q(tx), coq_q(ty), coq_q(c["s"]),
                                              coq_q(obs[0][1]), coq_q(F(1, 2 ** 40)))]
    a_curv = lambda c: [enc_arr(c["rows"]), enc_arr([[x] for x in tangent(c)]), enc_f(c["s"])]
    def judge_curv(c, op, cfg, raw):
        """signed curvature = (B' x B'') / |B'|^3 with the exact derivatives"""
        if "exc" in raw:
            return "raised %s: %s" % (raw["exc"], raw.get("msg"))
        got = float(dec_res(raw["ok"]))
        n = c["n"]
        d1 = [[n * (r[i + 1] - r[i]) for i in range(n)] for r in c["rows"]]
        t = [oq.bernstein(r, c["s"]) for r in d1]
        if n >= 2:
            d2 = [[(n - 1) * (r[i + 1] - r[i]) for i in range(n - 1)] for r in d1]
            cc = [oq.bernstein(r, c["s"]) for r in d2]
        else:
            cc = [F(0), F(0)]
        cross = t[0] * cc[1] - t[1] * cc[0]
        want = float(cross) / (float(t[0] * t[0] + t[1] * t[1]) ** 1.5)
        if abs(got - want) > 1e-9 * max(1.0, abs(want)):
            return "curvature %r, exact (B' x B'')/|B'|^3 = %r (degree %d, s = %s)" % (got, want, n, c["s"])
        return None
    correspond(ctx, "get_curvature", plc, [("shim.get_curvature", a_curv, val_out), ("hazmat.get_curvature", a_curv, val_out)],
               coq_curv, HEADER, "chk_curvature", judge=judge_curv, nontrivial=nt)

    def coq_ni(c, obs):
        if obs[0][0] == "malformed":
            return None
        o = '(VErr "%s")' % obs[0][1] if obs[0][0] == "exc" else coq_val(obs[0][1])
        return ["(%s, %s, %s, %s, %s, %s, %s, %s)" % (coq_list(c["rows"][0]), coq_list(c["rows"][1]), coq_q(c["s"]),
                                                  coq_list(c["rows2"][0]), coq_list(c["rows2"][1]), coq_q(c["t"]), o, coq_q(F(1, 2 ** 30)))]
    a_ni = lambda c: [enc_f(c["s"]), enc_arr(c["rows"]), enc_f(c["t"]), enc_arr(c["rows2"])]
    # structured Jacobians: one curve is an axis-parallel segment in each of the four directions (exact zeros in the 2x2
    # system, both signs of the pivot candidates), the other a random curve
    rng = ctx.rng
    axis = []
    for rep in range(2 if ctx.quick() else 12):
        for (dx, dy) in ((1, 0), (-1, 0), (0, 1), (0, -1)):
            p0 = (dyadic(rng, 4, 1), dyadic(rng, 4, 1))
            L = F(rng.randint(1, 8), 2)
            seg = [[p0[0], p0[0] + dx * L], [p0[1], p0[1] + dy * L]]
            other = rnd_rows(rng, rng.randint(1, 5), 2, 6, 2)
            s_, t_ = F(rng.randint(0, 8), 8), F(rng.randint(0, 8), 8)
            axis.append({"n": 1, "rows": seg, "s": s_, "t": t_, "rows2": other})
            axis.append({"n": len(other[0]) - 1, "rows": other, "s": s_, "t": t_, "rows2": seg})
    pl = pl + axis
    def judge_ni(c, op, cfg, raw):
        """the step must be the exact solution of J (ds, dt) = B2(t) - B1(s), J = [B1'(s), -B2'(t)]"""
        f = [oq.bernstein(c["rows2"][k], c["t"]) - oq.bernstein(c["rows"][k], c["s"]) for k in range(2)]
        d1 = [deriv_exact(r, c["s"]) for r in c["rows"]]
        d2 = [deriv_exact(r, c["t"]) for r in c["rows2"]]
        det = d1[0] * (-d2[1]) - (-d2[0]) * d1[1]
        if det == 0:
            return None if "exc" in raw else "singular Jacobian but the call returned normally"
        if "exc" in raw:
            return "raised %s on a regular Jacobian: %s" % (raw["exc"], raw.get("msg", "")[:80])
        ds = (f[0] * (-d2[1]) - (-d2[0]) * f[1]) / det
        dt = (d1[0] * f[1] - f[0] * d1[1]) / det
        got = dec_res(raw["ok"])
        if not all(isinstance(x, F) for x in got):
            return "non-finite Newton update %r" % (got,)
        want = (c["s"] + ds, c["t"] + dt)
        scale = max(abs(want[0]), abs(want[1]), F(1))
        # conditioning: allow rounding relative to the size of the system
        big = max([abs(x) for x in f + d1 + d2] + [F(1)])
        tol = F(1, 2 ** 30) * scale * max(F(1), big * big / abs(det))
        if abs(got[0] - want[0]) > tol or abs(got[1] - want[1]) > tol:
            return "Newton step (%r, %r), exact solution of the linearised system (%r, %r)" % (float(got[0]), float(got[1]), float(want[0]), float(want[1]))
        return None
    correspond(ctx, "newton_refine_intersect", pl,
               [("shim.newton_refine_intersect", a_ni, val_out), ("hazmat.newton_refine_intersect", a_ni, val_out)],
               coq_ni, HEADER, "chk_newton_intersect", judge=judge_ni, nontrivial=nt)
    # the two Newton SYSTEMS of the curve-curve end game (NewtonSimpleRoot: F, DF; NewtonDoubleRoot: DG^T DG, DG^T G with
    # G = [F; B1' x B2'], DG = [B1', -B2'; B1'' x B2', B1' x B2'']), built as full_newton_nonzero builds them: exact reference
    rng = ctx.rng
    ns = []
    for _ in range(40 if ctx.quick() else 1500):
        n1, n2 = rng.randint(1, 5), rng.randint(1, 5)
        ns.append({"rows": [[F(rng.randint(-16, 16), 4) for _ in range(n1 + 1)] for _ in range(2)],
                   "rows2": [[F(rng.randint(-16, 16), 4) for _ in range(n2 + 1)] for _ in range(2)],
                   "s": F(rng.randint(0, 16), 16), "t": F(rng.randint(0, 16), 16)})

    def dnet(r):
        n = len(r) - 1
        return [n * (r[i + 1] - r[i]) for i in range(n)]

    def ev(r, x):
        return oq.bernstein(r, x) if r else F(0)

    def judge_sys(c, op, cfg, raw):
        if "exc" in raw:
            return "raised %s: %s" % (raw["exc"], raw.get("msg", "")[:80])
        lhs, rhs = dec_res(raw["ok"])
        b1, b2 = c["rows"], c["rows2"]
        d1, d2 = [dnet(r) for r in b1], [dnet(r) for r in b2]
        dd1, dd2 = [dnet(r) for r in d1], [dnet(r) for r in d2]
        s_, t_ = c["s"], c["t"]
        f = [ev(b1[k], s_) - ev(b2[k], t_) for k in range(2)]
        p1, p2 = [ev(r, s_) for r in d1], [ev(r, t_) for r in d2]
        cross = lambda u, v: u[0] * v[1] - u[1] * v[0]
        if op.endswith("simple_root"):
            want_rhs = [[f[0]], [f[1]]]
            want_lhs = None if f == [0, 0] else [[p1[0], -p2[0]], [p1[1], -p2[1]]]
        else:
            g = f + [cross(p1, p2)]
            q1, q2 = [ev(r, s_) for r in dd1], [ev(r, t_) for r in dd2]
            dg = [[p1[0], -p2[0]], [p1[1], -p2[1]], [cross(q1, p2), cross(p1, q2)]]
            if all(x == 0 for x in g):
                want_lhs, want_rhs = None, [[f[0]], [f[1]]]
            else:
                want_lhs = [[sum(dg[k][i] * dg[k][j] for k in range(3)) for j in range(2)] for i in range(2)]
                want_rhs = [[sum(dg[k][i] * g[k] for k in range(3))] for i in range(2)]
        if (want_lhs is None) != (not lhs):
            return "left-hand side %s, expected %s" % ("missing" if not lhs else "present", "None (the function value is exactly zero)" if want_lhs is None else "a matrix")
        pairs_ = list(zip(sum(rhs, []) if rhs and isinstance(rhs[0], list) else rhs, sum(want_rhs, [])))
        if want_lhs is not None:
            pairs_ += list(zip(sum(lhs, []), sum(want_lhs, [])))
        big = max([abs(w) for _g, w in pairs_] + [F(1)])
        for got, want in pairs_:
            if not isinstance(got, F):
                return "non-finite entry %r" % (got,)
            if abs(got - want) > F(1, 2 ** 36) * big:
                return "entry %r, exact value %r (system of the %s-root Newton iteration at s=%s, t=%s)" % (
                    float(got), float(want), "simple" if op.endswith("simple_root") else "double", s_, t_)
        return None
    a_sys = lambda c: [enc_arr(c["rows"]), enc_arr(c["rows2"]), enc_f(c["s"]), enc_f(c["t"])]
    HEADER_N = "From Coq Require Import List QArith.\nFrom BZ Require Import Corr.Common Corr.C11N.\nImport ListNotations.\nOpen Scope Q_scope.\n"

    def coq_sys(c, obs):
        if obs[0][0] in ("exc", "malformed"):
            return None
        lhs, rhs = obs[0][1]
        flat_ = lambda m: [x for r in m for x in (r if isinstance(r, (list, tuple)) else [r])]
        fl, fr = flat_(lhs or []), flat_(rhs)
        if not all(isinstance(x, F) for x in fl + fr):
            raise ValueError("non-finite")
        big = max([abs(x) for x in fl + fr] + [F(1)])
        return ["(%s, %s, %s, %s, %s, %s, %s, %s, %s)" % (coq_list(c["rows"][0]), coq_list(c["rows"][1]), coq_list(c["rows2"][0]), coq_list(c["rows2"][1]),
                                                         coq_q(c["s"]), coq_q(c["t"]), coq_list(fl), coq_list(fr), coq_q(F(1, 2 ** 36) * big))]
    correspond(ctx, "newton_double_root_system", ns, [("hazmat.newton_double_root", a_sys, val_out)], coq_sys, HEADER_N, "chk_newton_double",
               judge=judge_sys, configs=("pure",), nontrivial=nt)
    correspond(ctx, "newton_simple_root_system", ns, [("hazmat.newton_simple_root", a_sys, val_out)], coq_sys, HEADER_N, "chk_newton_simple",
               judge=judge_sys, configs=("pure",), nontrivial=nt)
    # triangles
    tr = gen_tri(ctx)

    def jb_out(res, c):
        return [("val", res)]

    def coq_jb(c, obs):
        if obs[0][0] in ("exc", "malformed"):
            return None
        return ["(%d%%nat, %s, %s)" % (c["d"], coq_mat(c["rows"]), coq_mat(obs[0][1]))]
    correspond(ctx, "jacobian_both", tr,
               [("shim.tri_jacobian_both", lambda c: [enc_arr(c["rows"]), c["d"], 2], jb_out),
                ("hazmat.tri_jacobian_both", lambda c: [enc_arr(c["rows"]), c["d"], 2], jb_out)],
               coq_jb, HEADER, "chk_jac_both", nontrivial=nt)

    def coq_jd(c, obs):
        if obs[0][0] in ("exc", "malformed"):
            return None
        big = max(abs(x) for r in c["rows"] for x in r) or F(1)
        tol = 64 * (c["d"] + 1) ** 2 * U * big * big
        return ["(%d%%nat, %s, %s, [%s], %s, %s)" % (c["d"], coq_list(c["rows"][0]), coq_list(c["rows"][1]),
                                                  "; ".join("(%s, %s)" % (coq_q(s), coq_q(t)) for s, t in c["pts"]),
                                                  coq_list(obs[0][1]), coq_list([tol] * len(c["pts"])))]
    a_jd = lambda c: [enc_arr(c["rows"]), c["d"], enc_arr([list(p) for p in c["pts"]])]
    def judge_jd(c, op, cfg, raw):
        """det J = x_s y_t - x_t y_s from the exact partial derivatives, at every requested point"""
        if "exc" in raw:
            return "raised %s" % raw["exc"]
        got = dec_res(raw["ok"])
        d = c["d"]
        def partials(row, s, t):
            idx = {}
            pos = 0
            for k in range(d + 1):
                for j in range(d + 1 - k):
                    idx[(j, k)] = row[pos]; pos += 1
            ds_net, dt_net = [], []
            for k in range(d):
                for j in range(d - k):
                    ds_net.append(d * (idx[(j + 1, k)] - idx[(j, k)]))
                    dt_net.append(d * (idx[(j, k + 1)] - idx[(j, k)]))
            if d == 1:
                return ds_net[0], dt_net[0]
            return (oq.tri_bernstein(ds_net, d - 1, 1 - s - t, s, t), oq.tri_bernstein(dt_net, d - 1, 1 - s - t, s, t))
        big = max(abs(x) for r in c["rows"] for x in r) or F(1)
        for (s, t), g in zip(c["pts"], got):
            xs, xt = partials(c["rows"][0], s, t)
            ys, yt = partials(c["rows"][1], s, t)
            want = xs * yt - xt * ys
            if abs(g - want) > 64 * (d + 1) ** 2 * U * big * big:
                return "det J at (%s, %s) is %r, exact x_s y_t - x_t y_s = %r" % (s, t, float(g), float(want))
        return None
    correspond(ctx, "jacobian_det", tr, [("shim.tri_jacobian_det", a_jd, val_out), ("hazmat.tri_jacobian_det", a_jd, val_out)],
               coq_jd, HEADER, "chk_jac_det", judge=judge_jd, nontrivial=nt)

    def coq_nt(c, obs):
        if obs[0][0] == "malformed":
            return None
        o = '(VErr "%s")' % obs[0][1] if obs[0][0] == "exc" else coq_val(obs[0][1])
        s, t = c["pts"][0]
        return ["(%d%%nat, %s, %s, %s, %s, %s, %s, %s, %s)" % (c["d"], coq_list(c["rows"][0]), coq_list(c["rows"][1]), coq_q(c["xy"][0]),
                                                         coq_q(c["xy"][1]), coq_q(s), coq_q(t), o, coq_q(F(1, 2 ** 26)))]
    a_nt = lambda c: [enc_arr(c["rows"]), c["d"], enc_f(c["xy"][0]), enc_f(c["xy"][1]), enc_f(c["pts"][0][0]), enc_f(c["pts"][0][1])]
    trn = []
    for c in tr:
        trn.append(c)
        # the same triangle with a target that already agrees with B(s, t) in exactly ONE coordinate (the early exit
        # "no refinement needed" must require both)
        s, t = c["pts"][0]
        bx = oq.tri_bernstein(c["rows"][0], c["d"], 1 - s - t, s, t)
        by = oq.tri_bernstein(c["rows"][1], c["d"], 1 - s - t, s, t)
        if all(F(float(v)) == v for v in (bx, by)):
            trn.append(dict(c, xy=(bx, c["xy"][1])))
            trn.append(dict(c, xy=(c["xy"][0], by)))
    def tri_partials(row, d, s, t):
        idx = {}
        pos = 0
        for k in range(d + 1):
            for j in range(d + 1 - k):
                idx[(j, k)] = row[pos]; pos += 1
        ds_net, dt_net = [], []
        for k in range(d):
            for j in range(d - k):
                ds_net.append(d * (idx[(j + 1, k)] - idx[(j, k)]))
                dt_net.append(d * (idx[(j, k + 1)] - idx[(j, k)]))
        if d == 1:
            return ds_net[0], dt_net[0]
        return (oq.tri_bernstein(ds_net, d - 1, 1 - s - t, s, t), oq.tri_bernstein(dt_net, d - 1, 1 - s - t, s, t))

    def judge_nt(c, op, cfg, raw):
        """the step must solve J (ds, dt) = target - B(s, t) exactly (J from the exact partial derivatives)"""
        d = c["d"]
        s, t = c["pts"][0]
        bx = oq.tri_bernstein(c["rows"][0], d, 1 - s - t, s, t)
        by = oq.tri_bernstein(c["rows"][1], d, 1 - s - t, s, t)
        xs, xt = tri_partials(c["rows"][0], d, s, t)
        ys, yt = tri_partials(c["rows"][1], d, s, t)
        det = xs * yt - xt * ys
        fx, fy = c["xy"][0] - bx, c["xy"][1] - by
        if det == 0:
            return None
        if "exc" in raw:
            return "raised %s on a regular Jacobian" % raw["exc"]
        got = dec_res(raw["ok"])
        if not all(isinstance(x, F) for x in got):
            return "non-finite Newton update"
        want = (s + (fx * yt - xt * fy) / det, t + (xs * fy - fx * ys) / det)
        big = max([abs(x) for x in (fx, fy, xs, xt, ys, yt)] + [F(1)])
        tol = F(1, 2 ** 30) * max(abs(want[0]), abs(want[1]), F(1)) * max(F(1), big * big / abs(det))
        if abs(got[0] - want[0]) > tol or abs(got[1] - want[1]) > tol:
            return "Newton step (%r, %r), exact solution of the linearised system (%r, %r)" % (float(got[0]), float(got[1]), float(want[0]), float(want[1]))
        return None
    correspond(ctx, "newton_refine_triangle", trn,
               [("shim.newton_refine_triangle", a_nt, val_out), ("hazmat.newton_refine_triangle", a_nt, val_out)],
               coq_nt, HEADER, "chk_newton_triangle", judge=judge_nt, nontrivial=nt)
    return finish(ctx, "theorems: hodograph = formal derivative (dual numbers, every degree, any ring); Jacobian nets = partial "
                  "derivatives at the level of index functions; the scalar solves are regenerated from the source and proved exact. "
                  "Curvature is compared on kappa^2 (t.t)^3 = cross^2 (no square roots in the model); the list-level index walks of "
                  "jacobian_s/t are tied to the index-function operator by correspondence only",
                  search=search,
                  unproved=["list-level jacobian_s/jacobian_t = the index-function difference nets (correspondence only)",
                            "rounding of the Newton steps"])
